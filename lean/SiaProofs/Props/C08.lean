import SiaProofs.Lemmas.LedgerC08V1
import SiaProofs.Lemmas.LedgerC08V2
import SiaProofs.Lemmas.LedgerC02Payout
/-!
# C08 — height- and time-dependent rules flip exactly at their boundaries (ledger model)

Every validator of the ledger model is characterised in `Lemmas/LedgerC08V1.lean` /
`LedgerC08V2.lean` as the conjunction of its rules (`…_ok_iff`).  The theorems here single out the
height rules.  Each rule comes in up to three forms:

* `c08_X`            : `accept ↔ (bound rule) ∧ (all other rules)`, the other rules being an explicit
                        predicate that does not mention the bound — equivalently the *threshold form*
                        `(other rules) → (accept ↔ bound ≤ child)` (`c08_X_threshold`);
* `c08_X_reject`     : a whole transaction containing one offending item is not accepted
                        (`Rejected` = rejects without panicking where that is true, `NotOk` otherwise);
* `example`s         : a concrete transaction accepted exactly at the bound and rejected one block
                        earlier/later (by evaluation of the model).
-/
namespace C08
open Sia.Ledger

-- ------------------------------------------------------------------ lifting to whole transactions

theorem v2Txn_notOk_of_sc {ms : Mid} {t : Txn2} {mw : Nat} (h : NotOk (validateV2Siacoins ms t)) :
    NotOk (validateV2Transaction ms t mw) := by
  intro r hr; exact h () ((validateV2Transaction_ok_iff ms t mw).1 hr).2.2.2.2.1

theorem v2Txn_notOk_of_sf {ms : Mid} {t : Txn2} {mw : Nat} (h : NotOk (validateV2Siafunds ms t)) :
    NotOk (validateV2Transaction ms t mw) := by
  intro r hr; exact h () ((validateV2Transaction_ok_iff ms t mw).1 hr).2.2.2.2.2.1

theorem v2Txn_notOk_of_fc {ms : Mid} {t : Txn2} {mw : Nat} (h : NotOk (validateV2FileContracts ms t)) :
    NotOk (validateV2Transaction ms t mw) := by
  intro r hr; exact h () ((validateV2Transaction_ok_iff ms t mw).1 hr).2.2.2.2.2.2.1

theorem v1Txn_notOk_of_sc {ms : Mid} {t : Txn1} {pid mw : Nat} (h : NotOk (validateSiacoins ms t)) :
    NotOk (validateTransaction ms t pid mw) := by
  intro r hr; exact h () ((validateTransaction_ok_iff ms t pid mw).1 hr).2.2.2.2.1

theorem v1Txn_notOk_of_sf {ms : Mid} {t : Txn1} {pid mw : Nat} (h : NotOk (validateSiafunds ms t)) :
    NotOk (validateTransaction ms t pid mw) := by
  intro r hr; exact h () ((validateTransaction_ok_iff ms t pid mw).1 hr).2.2.2.2.2.1

theorem v1Txn_notOk_of_fc {ms : Mid} {t : Txn1} {pid mw : Nat} (h : NotOk (validateFileContracts ms t pid)) :
    NotOk (validateTransaction ms t pid mw) := by
  intro r hr; exact h () ((validateTransaction_ok_iff ms t pid mw).1 hr).2.2.2.2.2.2.1

theorem v1Txn_notOk_of_sig {ms : Mid} {t : Txn1} {pid mw : Nat} (h : NotOk (validateSignatures t)) :
    NotOk (validateTransaction ms t pid mw) := by
  intro r hr; exact h () ((validateTransaction_ok_iff ms t pid mw).1 hr).2.2.2.2.2.2.2.2

theorem validateV2CurrencyOverflow_noPanic (t : Txn2) : NoPanic (validateV2CurrencyOverflow t) := by
  unfold validateV2CurrencyOverflow
  simp only []
  repeat' split
  all_goals simp

theorem validateV2TaxPool_noPanic (ms : Mid) (t : Txn2) : NoPanic (validateV2TaxPool ms t) := by
  unfold validateV2TaxPool
  simp only []
  split <;> simp

theorem validateTaxPool_noPanic (ms : Mid) (t : Txn1) : NoPanic (validateTaxPool ms t) := by
  unfold validateTaxPool
  split <;> simp

theorem validateCurrencyOverflow_noPanic (t : Txn1) : NoPanic (validateCurrencyOverflow t) := by
  unfold validateCurrencyOverflow
  split <;> simp

theorem validateMinimumValues_noPanic (t : Txn1) : NoPanic (validateMinimumValues t) := by
  unfold validateMinimumValues
  split <;> simp

theorem v2Txn_rejected_of_sc {ms : Mid} {t : Txn2} {mw : Nat} (h : Rejected (validateV2Siacoins ms t)) :
    Rejected (validateV2Transaction ms t mw) := by
  rw [validateV2Transaction_eq]; unfold v2TxnChecks
  split
  · simp
  refine bind_rejected_of (validateV2CurrencyOverflow_noPanic t) (fun _ => ?_)
  refine bind_rejected_of (validateV2TaxPool_noPanic ms t) (fun _ => ?_)
  split
  · simp
  split
  · simp
  exact bind_rejected_left _ h

-- ------------------------------------------------------------------ fixtures for the examples

namespace Ex
def P0 : Params :=
  { initialCoinbase := 300000, minimumCoinbase := 30000, maturityDelay := 5, blocksPerYear := 1200,
    hfDevAddr := 1, hfTax := 2, hfStorageProof := 3, hfFoundation := 4, v2Allow := 10, v2Require := 20,
    ephemeralFix := 12, voidAddr := 0, devOldAddr := 900, devNewAddr := 901 }
/-- a siacoin element maturing at height 15 and one that is always mature -/
def e1 : ScElem := { id := 101, value := 50, addr := 7, maturity := 15, leaf := some 3 }
def e0 : ScElem := { id := 100, value := 50, addr := 7, maturity := 0, leaf := some 2 }
/-- a v1 contract whose proof window is [15, 18) -/
def c1 : Fc1Elem :=
  { id := 301, leaf := some 5,
    fc := { filesize := 0, root := 0, windowStart := 15, windowEnd := 18, payout := 100,
            valid := [{ value := 60, addr := 1 }], missed := [{ value := 60, addr := 2 }], unlockHash := 9, revNum := 1 } }
/-- a v2 contract with proof height 15 and expiration height 18 -/
def c2 : Fc2Elem :=
  { id := 501, leaf := some 9,
    fc := { capacity := 10, filesize := 5, root := 0, proofHeight := 15, expHeight := 18,
            renter := { value := 60, addr := 1 }, host := { value := 40, addr := 2 }, missedHost := 30,
            totalCollateral := 20, renterKey := 11, hostKey := 12, revNum := 1 } }
/-- the ledger at child height `child`; block `h` of the chain has id `1000 + h` -/
def L (child : Nat) : Ledger :=
  { (default : Ledger) with P := P0, child := child, sc := [e0, e1], fc1 := [c1], fc2 := [c2], chain := (List.range child).map (fun h => (h, 1000 + h)) }
def M (child : Nat) : Mid := newMid (L child)

def txn1 : Txn1 := { (default : Txn1) with sigsOk := true, weight := 5 }
def txn2 : Txn2 := { (default : Txn2) with attsOk := true, weight := 5 }
end Ex
open Ex

-- ================================================================= maturity, v2

/-- every rule of `validateV2Siacoins` except the maturity of the inputs' parents -/
structure V2ScOther (ms : Mid) (t : Txn2) : Prop where
  inputs : ∀ sci ∈ t.scIns, ms.isSpent sci.parent.id = false ∧ ScIn2Present ms sci ∧ sci.addrOk = true ∧ sci.authOk = true
  nodup : (t.scIns.map (·.parent.id)).Nodup
  balance : v2ScBalance t = .ok ()

/-- `validateV2Siacoins` accepts iff every input's parent has `maturity ≤ childHeight` and the
remaining rules (which do not look at maturity heights, except that an ephemeral parent must be
presented with the maturity it was created with) hold. -/
theorem c08_maturity_v2 (ms : Mid) (t : Txn2) :
    validateV2Siacoins ms t = .ok () ↔
      ((∀ sci ∈ t.scIns, sci.parent.maturity ≤ ms.base.child) ∧ V2ScOther ms t) := by
  rw [validateV2Siacoins_ok_iff]
  constructor
  · rintro ⟨h1, h2, h3⟩
    exact ⟨fun s hs => (h1 s hs).mature, ⟨fun s hs => ⟨(h1 s hs).1, (h1 s hs).3, (h1 s hs).4, (h1 s hs).5⟩, h2, h3⟩⟩
  · rintro ⟨h1, ⟨h2, h3, h4⟩⟩
    exact ⟨fun s hs => ⟨(h2 s hs).1, h1 s hs, (h2 s hs).2.1, (h2 s hs).2.2.1, (h2 s hs).2.2.2⟩, h3, h4⟩

/-- threshold form -/
theorem c08_maturity_v2_threshold (ms : Mid) (t : Txn2) (hother : V2ScOther ms t) :
    validateV2Siacoins ms t = .ok () ↔ ∀ sci ∈ t.scIns, sci.parent.maturity ≤ ms.base.child := by
  rw [c08_maturity_v2]; exact ⟨fun h => h.1, fun h => ⟨h, hother⟩⟩

/-- a v2 transaction with an immature input is rejected (no panic) whatever else it contains -/
theorem c08_maturity_v2_reject (ms : Mid) (t : Txn2) (mw : Nat) (sci : ScIn2) (hm : sci ∈ t.scIns)
    (h : sci.parent.maturity > ms.base.child) : Rejected (validateV2Transaction ms t mw) := by
  apply v2Txn_rejected_of_sc
  apply validateV2Siacoins_rejected
  rintro ⟨h1, _⟩
  have := (h1 sci hm).mature
  omega

def tSpend2 (e : ScElem) : Txn2 :=
  { txn2 with scIns := [{ parent := e, addrOk := true, authOk := true }], scOuts := [(201, { value := 40, addr := 8 })], fee := 10 }

example : validateV2Transaction (M 15) (tSpend2 e1) 100 = .ok () := by decide
example : validateV2Transaction (M 14) (tSpend2 e1) 100 = .error (.reject "siacoin input has immature parent") := by decide
example : V2ScOther (M 14) (tSpend2 e1) := ⟨by decide, by decide, by decide⟩

-- ================================================================= maturity and timelock, v1 siacoin inputs

/-- the maturity rule of a v1 siacoin input -/
def ScIn1Mature (ms : Mid) (t : Txn1) (sci : ScIn1) : Prop :=
  ∀ p, ms.scElement t.supp sci.parent = some p → p.maturity ≤ ms.base.child

/-- every rule of a v1 siacoin input except maturity (`sum` = value of the inputs before it) -/
def ScIn1OkButMaturity (ms : Mid) (t : Txn1) (sum : Cur) (sci : ScIn1) : Prop :=
  ∃ p, ms.scElement t.supp sci.parent = some p ∧ sci.timelock ≤ ms.base.child ∧ ms.isSpent sci.parent = false ∧
    sci.ucAddr = p.addr ∧ sum + p.value < curLimit

/-- every rule of a v1 siacoin input except the timelock -/
def ScIn1OkButTimelock (ms : Mid) (t : Txn1) (sum : Cur) (sci : ScIn1) : Prop :=
  ∃ p, ms.scElement t.supp sci.parent = some p ∧ p.maturity ≤ ms.base.child ∧ ms.isSpent sci.parent = false ∧
    sci.ucAddr = p.addr ∧ sum + p.value < curLimit

theorem scIn1Ok_iff_maturity (ms : Mid) (t : Txn1) (sum : Cur) (sci : ScIn1) :
    ScIn1Ok ms t sum sci ↔ (ScIn1OkButMaturity ms t sum sci ∧ ScIn1Mature ms t sci) := by
  unfold ScIn1Ok ScIn1OkButMaturity ScIn1Mature
  constructor
  · rintro ⟨p, hp, ⟨h1, h2, h3, h4⟩, h5⟩
    refine ⟨⟨p, hp, h1, h2, h3, h5⟩, ?_⟩
    intro q hq; rw [hp] at hq; cases hq; exact h4
  · rintro ⟨⟨p, hp, h1, h2, h3, h5⟩, h4⟩
    exact ⟨p, hp, ⟨h1, h2, h3, h4 p hp⟩, h5⟩

theorem scIn1Ok_iff_timelock (ms : Mid) (t : Txn1) (sum : Cur) (sci : ScIn1) :
    ScIn1Ok ms t sum sci ↔ (ScIn1OkButTimelock ms t sum sci ∧ sci.timelock ≤ ms.base.child) := by
  unfold ScIn1Ok ScIn1OkButTimelock
  constructor
  · rintro ⟨p, hp, ⟨h1, h2, h3, h4⟩, h5⟩
    exact ⟨⟨p, hp, h4, h2, h3, h5⟩, h1⟩
  · rintro ⟨⟨p, hp, h4, h2, h3, h5⟩, h1⟩
    exact ⟨p, hp, ⟨h1, h2, h3, h4⟩, h5⟩

/-- `validateSiacoins` (v1) accepts iff every input's parent has `maturity ≤ childHeight` and the
remaining rules hold. -/
theorem c08_maturity_v1 (ms : Mid) (t : Txn1) :
    validateSiacoins ms t = .ok () ↔
      ((∀ sci ∈ t.scIns, ScIn1Mature ms t sci) ∧
        (FoldAll (ScIn1OkButMaturity ms t) (fun s sci => s + scIn1Value ms t sci) 0 t.scIns ∧
         v1ScBalance t (t.scIns.foldl (fun s sci => s + scIn1Value ms t sci) 0) = .ok ())) := by
  rw [validateSiacoins_ok_iff, foldAll_congr (scIn1Ok_iff_maturity ms t), foldAll_and_iff]
  constructor
  · rintro ⟨⟨h1, h2⟩, h3⟩; exact ⟨h2, h1, h3⟩
  · rintro ⟨h2, h1, h3⟩; exact ⟨⟨h1, h2⟩, h3⟩

/-- a v1 transaction spending an immature output is not accepted -/
theorem c08_maturity_v1_reject (ms : Mid) (t : Txn1) (pid mw : Nat) (sci : ScIn1) (p : ScElem)
    (hm : sci ∈ t.scIns) (hp : ms.scElement t.supp sci.parent = some p) (h : p.maturity > ms.base.child) :
    NotOk (validateTransaction ms t pid mw) := by
  apply v1Txn_notOk_of_sc
  intro r hr
  have := ((c08_maturity_v1 ms t).1 hr).1 sci hm p hp
  omega

def tSpend1 (e : ScElem) (timelock : Nat) : Txn1 :=
  { txn1 with scIns := [{ parent := e.id, timelock := timelock, ucAddr := 7 }], scOuts := [(201, { value := 40, addr := 8 })], fees := [10], supp := { (default : Supp1) with scIns := [e] } }

example : validateTransaction (M 15) (tSpend1 e1 0) 1015 100 = .ok () := by decide
example : validateTransaction (M 14) (tSpend1 e1 0) 1014 100 = .error (.reject "siacoin input has immature parent") := by decide

-- ================================================================= unlock-condition timelock, v1

/-- every rule of a v1 siafund input except the timelock -/
def SfIn1OkButTimelock (ms : Mid) (t : Txn1) (sfi : SfIn1) : Prop :=
  ∃ p, ms.sfElement t.supp sfi.parent = some p ∧ ms.isSpent sfi.parent = false ∧
    (sfi.ucAddr = p.addr ∨
      (ms.base.child ≥ ms.base.P.hfDevAddr ∧ p.addr = ms.base.P.devOldAddr ∧ sfi.ucAddr = ms.base.P.devNewAddr))

/-- the timelock of the unlock conditions of siacoin inputs, siafund inputs and contract revisions:
each validator accepts iff all timelocks are `≤ childHeight` and the other rules hold. -/
theorem c08_uc_timelock_v1 (ms : Mid) (t : Txn1) :
    (validateSiacoins ms t = .ok () ↔
      ((∀ sci ∈ t.scIns, sci.timelock ≤ ms.base.child) ∧
        (FoldAll (ScIn1OkButTimelock ms t) (fun s sci => s + scIn1Value ms t sci) 0 t.scIns ∧
         v1ScBalance t (t.scIns.foldl (fun s sci => s + scIn1Value ms t sci) 0) = .ok ()))) ∧
    (validateSiafunds ms t = .ok () ↔
      ((∀ sfi ∈ t.sfIns, sfi.timelock ≤ ms.base.child) ∧
        ((∀ sfi ∈ t.sfIns, SfIn1OkButTimelock ms t sfi) ∧
         v1SfBalance t (t.sfIns.foldl (fun s sfi => (s + sfIn1Value ms t sfi) % u64Limit) 0) = .ok ()))) ∧
    (∀ r p, ms.fc1Element t.supp r.parent = some p →
      (rev1Step ms t r = .ok () ↔
        (r.timelock ≤ ms.base.child ∧
          (ms.base.child ≤ r.fc.windowStart ∧ r.fc.windowStart < r.fc.windowEnd ∧ ms.isSpent r.parent = false ∧
            ms.base.child ≤ p.fc.windowStart ∧ p.fc.revNum < r.fc.revNum ∧ r.ucAddr = p.fc.unlockHash ∧
            (∃ a, sumOuts r.fc.valid = .ok a ∧ sumOuts p.fc.valid = .ok a) ∧
            (∃ c, sumOuts r.fc.missed = .ok c ∧ sumOuts p.fc.missed = .ok c))))) := by
  refine ⟨?_, ?_, ?_⟩
  · rw [validateSiacoins_ok_iff, foldAll_congr (scIn1Ok_iff_timelock ms t), foldAll_and_iff]
    constructor
    · rintro ⟨⟨h1, h2⟩, h3⟩; exact ⟨h2, h1, h3⟩
    · rintro ⟨h2, h1, h3⟩; exact ⟨⟨h1, h2⟩, h3⟩
  · rw [validateSiafunds_ok_iff]
    constructor
    · rintro ⟨h1, h2⟩
      refine ⟨fun s hs => ?_, fun s hs => ?_, h2⟩
      · obtain ⟨p, _, hr⟩ := h1 s hs; exact hr.timelock
      · obtain ⟨p, hp, hr⟩ := h1 s hs; exact ⟨p, hp, hr.notSpent, hr.addr⟩
    · rintro ⟨h1, h2, h3⟩
      refine ⟨fun s hs => ?_, h3⟩
      obtain ⟨p, hp, hr1, hr2⟩ := h2 s hs
      exact ⟨p, hp, ⟨h1 s hs, hr1, hr2⟩⟩
  · intro r p hp
    rw [rev1Step_ok_iff]
    constructor
    · rintro ⟨q, hq, hr⟩
      rw [hp] at hq; cases hq
      exact ⟨hr.1, hr.2, hr.3, hr.4, hr.5, hr.6, hr.7, hr.8, hr.9⟩
    · rintro ⟨h1, h2, h3, h4, h5, h6, h7, h8, h9⟩
      exact ⟨p, hp, ⟨h1, h2, h3, h4, h5, h6, h7, h8, h9⟩⟩

/-- a v1 transaction with a still-locked siacoin input, siafund input or revision is not accepted -/
theorem c08_uc_timelock_v1_reject (ms : Mid) (t : Txn1) (pid mw : Nat)
    (h : (∃ sci ∈ t.scIns, sci.timelock > ms.base.child) ∨ (∃ sfi ∈ t.sfIns, sfi.timelock > ms.base.child) ∨
      (∃ r ∈ t.revs, r.timelock > ms.base.child)) :
    NotOk (validateTransaction ms t pid mw) := by
  rcases h with ⟨sci, hm, h⟩ | ⟨sfi, hm, h⟩ | ⟨r, hm, h⟩
  · apply v1Txn_notOk_of_sc
    intro _ hr
    have := ((c08_uc_timelock_v1 ms t).1.1 hr).1 sci hm
    omega
  · apply v1Txn_notOk_of_sf
    intro _ hr
    have := ((c08_uc_timelock_v1 ms t).2.1.1 hr).1 sfi hm
    omega
  · apply v1Txn_notOk_of_fc
    intro _ hr
    obtain ⟨p, _, hrules⟩ := ((validateFileContracts_ok_iff ms t pid).1 hr).2.1 r hm
    have := hrules.timelock
    omega

example : validateTransaction (M 15) (tSpend1 e0 15) 1015 100 = .ok () := by decide
example : validateTransaction (M 14) (tSpend1 e0 15) 1014 100 = .error (.reject "siacoin input has timelocked parent") := by decide

-- ================================================================= v1 revision vs. proof window

/-- every rule of a v1 revision except the two window-start rules -/
structure Rev1Other (ms : Mid) (r : Rev1) (p : Fc1Elem) : Prop where
  timelock : r.timelock ≤ ms.base.child
  windowEnd : r.fc.windowStart < r.fc.windowEnd
  notSpent : ms.isSpent r.parent = false
  revNum : p.fc.revNum < r.fc.revNum
  addr : r.ucAddr = p.fc.unlockHash
  validSum : ∃ a, sumOuts r.fc.valid = .ok a ∧ sumOuts p.fc.valid = .ok a
  missedSum : ∃ c, sumOuts r.fc.missed = .ok c ∧ sumOuts p.fc.missed = .ok c

/-- A v1 revision of the contract `p` (as it currently stands, i.e. including earlier revisions of
the block) is accepted iff the window of `p` has not opened (`childHeight ≤ p.windowStart`), the
new window does not start in the past, and the other rules hold. -/
theorem c08_v1_window_revision (ms : Mid) (t : Txn1) (r : Rev1) (p : Fc1Elem)
    (hp : ms.fc1Element t.supp r.parent = some p) :
    rev1Step ms t r = .ok () ↔
      ((ms.base.child ≤ p.fc.windowStart ∧ ms.base.child ≤ r.fc.windowStart) ∧ Rev1Other ms r p) := by
  rw [rev1Step_ok_iff]
  constructor
  · rintro ⟨q, hq, hr⟩
    rw [hp] at hq; cases hq
    exact ⟨⟨hr.parentWindow, hr.windowStart⟩, ⟨hr.1, hr.3, hr.4, hr.6, hr.7, hr.8, hr.9⟩⟩
  · rintro ⟨⟨h1, h2⟩, hr⟩
    exact ⟨p, hp, ⟨hr.1, h2, hr.2, hr.3, h1, hr.4, hr.5, hr.6, hr.7⟩⟩

theorem c08_v1_window_revision_threshold (ms : Mid) (t : Txn1) (r : Rev1) (p : Fc1Elem)
    (hp : ms.fc1Element t.supp r.parent = some p) (hother : Rev1Other ms r p)
    (hnew : ms.base.child ≤ r.fc.windowStart) :
    rev1Step ms t r = .ok () ↔ ms.base.child ≤ p.fc.windowStart := by
  rw [c08_v1_window_revision ms t r p hp]
  exact ⟨fun h => h.1.1, fun h => ⟨⟨h, hnew⟩, hother⟩⟩

/-- a v1 transaction revising a contract whose window has opened, or moving the window start into
the past, is not accepted -/
theorem c08_v1_window_revision_reject (ms : Mid) (t : Txn1) (pid mw : Nat) (r : Rev1) (p : Fc1Elem)
    (hm : r ∈ t.revs) (hp : ms.fc1Element t.supp r.parent = some p)
    (h : p.fc.windowStart < ms.base.child ∨ r.fc.windowStart < ms.base.child) :
    NotOk (validateTransaction ms t pid mw) := by
  apply v1Txn_notOk_of_fc
  intro _ hr
  obtain ⟨q, hq, hrules⟩ := ((validateFileContracts_ok_iff ms t pid).1 hr).2.1 r hm
  rw [hp] at hq; cases hq
  have := hrules.parentWindow
  have := hrules.windowStart
  omega

def tRev1 (newStart : Nat) : Txn1 :=
  { txn1 with revs := [{ parent := 301, timelock := 0, ucAddr := 9, fc := { c1.fc with revNum := 2, windowStart := newStart, windowEnd := 19 } }], supp := { (default : Supp1) with revised := [c1] } }

example : validateTransaction (M 15) (tRev1 16) 1014 100 = .ok () := by decide
example : validateTransaction (M 15) (tRev1 15) 1014 100 = .ok () := by decide
example : validateTransaction (M 16) (tRev1 16) 1015 100 =
    .error (.reject "file contract revision revises contract after its proof window has opened") := by decide
example : validateTransaction (M 15) (tRev1 14) 1014 100 =
    .error (.reject "file contract revision has window that starts in the past") := by decide

-- ================================================================= v1 storage proof needs the window-start block

/-- A window id is available for contract `id` iff either the contract is in the block's diff with
`windowStart = childHeight` (then the parent block is the window-start block) or the supplement
carries a storage-proof record (contract, window id) for it — which a store can only supply once
the block at `windowStart` exists. -/
theorem windowId_isSome_iff (ms : Mid) (ts : Supp1) (id pid : Id) :
    (∃ w, ms.windowId ts id pid = some w) ↔
      ((∃ d, ms.fc1Diff? id = some d ∧ d.e.fc.windowStart = ms.base.child) ∨ (∃ x ∈ ts.proofs, x.1.id = id)) := by
  have hfind : (∃ w, (ts.proofs.find? (·.1.id = id)).map (·.2) = some w) ↔ ∃ x ∈ ts.proofs, x.1.id = id := by
    constructor
    · rintro ⟨w, hw⟩
      cases hf : ts.proofs.find? (·.1.id = id) with
      | none => rw [hf] at hw; cases hw
      | some x => exact ⟨x, List.mem_of_find?_eq_some hf, by simpa using List.find?_some hf⟩
    · rintro ⟨x, hx, hid⟩
      have : (ts.proofs.find? (·.1.id = id)).isSome := List.find?_isSome.2 ⟨x, hx, by simpa using hid⟩
      obtain ⟨y, hy⟩ := Option.isSome_iff_exists.1 this
      exact ⟨y.2, by rw [hy]; rfl⟩
  unfold Mid.windowId
  cases hd : ms.fc1Diff? id with
  | none => simp only [hfind]; simp
  | some d =>
    simp only []
    split
    · rename_i hw; simp [hw]
    · rename_i hw; simp only [hfind]; simp [hw]

/-- the in-block case uses the parent block's id -/
theorem windowId_in_block (ms : Mid) (ts : Supp1) (id pid : Id) (d : Fc1Diff) (hd : ms.fc1Diff? id = some d)
    (hw : d.e.fc.windowStart = ms.base.child) : ms.windowId ts id pid = some pid := by
  unfold Mid.windowId; rw [hd]; simp [hw]

/-- A v1 storage proof is accepted iff a window id is available (see `windowId_isSome_iff`) and the
other rules hold. -/
theorem c08_v1_proof_window (ms : Mid) (t : Txn1) (pid : Id) (sp : Proof1) :
    proof1Step ms t pid sp = .ok () ↔
      (((∃ d, ms.fc1Diff? sp.parent = some d ∧ d.e.fc.windowStart = ms.base.child) ∨
          (∃ x ∈ t.supp.proofs, x.1.id = sp.parent)) ∧
        (ms.isSpent sp.parent = false ∧ (∃ e, ms.fc1Element t.supp sp.parent = some e) ∧ sp.proofOk = true)) := by
  rw [proof1Step_ok_iff, ← windowId_isSome_iff]
  constructor
  · rintro ⟨h1, h2, h3, h4⟩; exact ⟨h3, h1, h2, h4⟩
  · rintro ⟨h3, h1, h2, h4⟩; exact ⟨h1, h2, h3, h4⟩

/-- a v1 transaction with a storage proof for which no window id is available is not accepted -/
theorem c08_v1_proof_window_reject (ms : Mid) (t : Txn1) (pid mw : Nat) (sp : Proof1) (hm : sp ∈ t.proofs)
    (h1 : ∀ d, ms.fc1Diff? sp.parent = some d → d.e.fc.windowStart ≠ ms.base.child)
    (h2 : ∀ x ∈ t.supp.proofs, x.1.id ≠ sp.parent) :
    NotOk (validateTransaction ms t pid mw) := by
  apply v1Txn_notOk_of_fc
  intro _ hr
  have := ((validateFileContracts_ok_iff ms t pid).1 hr).2.2.2.2 sp hm
  rcases ((c08_v1_proof_window ms t pid sp).1 ((proof1Step_ok_iff ms t pid sp).2 this)).1 with ⟨d, hd, hw⟩ | ⟨x, hx, hid⟩
  · exact h1 d hd hw
  · exact h2 x hx hid

def tProof1 (supp : Supp1) (parent : Id) : Txn1 :=
  { txn1 with proofs := [{ parent := parent, proofOk := true, outIds := [401] }], supp := supp }
/-- forms contract 302 with the given window start -/
def tForm1 (ws : Nat) : Txn1 :=
  { txn1 with scIns := [{ parent := 100, timelock := 0, ucAddr := 7 }], fees := [10], fcs := [(302, { c1.fc with windowStart := ws, payout := 40, valid := [{ value := 40, addr := 1 }], missed := [{ value := 40, addr := 2 }] })], supp := { (default : Supp1) with scIns := [e0] } }

-- with the supplement record (window-start block 15 exists when the child height is 16)
example : validateTransaction (M 16) (tProof1 { (default : Supp1) with proofs := [(c1, 1015)] } 301) 1015 100 = .ok () := by decide
-- without it
example : validateTransaction (M 15) (tProof1 { (default : Supp1) with revised := [c1] } 301) 1014 100 =
    .error (.reject "storage proof cannot be submitted until after window start") := by decide
-- contract formed in the same block with windowStart = childHeight: the parent block is the window-start block
example : (do validateTransaction (M 15) (tForm1 15) 1014 100
              let ms ← applyTransaction (M 15) (tForm1 15)
              validateTransaction ms (tProof1 default 302) 1014 100) = .ok () := by decide
example : (do validateTransaction (M 15) (tForm1 16) 1014 100
              let ms ← applyTransaction (M 15) (tForm1 16)
              validateTransaction ms (tProof1 default 302) 1014 100) =
    .error (.reject "storage proof cannot be submitted until after window start") := by decide

-- ================================================================= v2 revision vs. proof height

/-- every rule of `validateRevision2` except "the current contract's proof height has not passed" -/
structure Revision2Other (child ephemeralFix : Nat) (cur rev : Fc2) (sigOk : Bool) : Prop where
  curNoOverflow : cur.renter.value + cur.host.value < curLimit
  revNoOverflow : rev.renter.value + rev.host.value < curLimit
  capacity : cur.capacity ≤ rev.capacity
  filesize : rev.filesize ≤ rev.capacity
  revNum : cur.revNum < rev.revNum
  sum : rev.renter.value + rev.host.value = cur.renter.value + cur.host.value
  missed : rev.missedHost ≤ cur.missedHost
  missedFix : ephemeralFix ≤ child → rev.missedHost ≤ rev.host.value
  collateral : rev.totalCollateral = cur.totalCollateral
  proofHeight : child ≤ rev.proofHeight
  exp : rev.proofHeight < rev.expHeight
  sig : sigOk = true

/-- A v2 revision passes the revision checks iff the proof height of the presented parent *and* of
the contract as it currently stands (latest in-block revision) are `≥ childHeight`, and the other
rules hold. -/
theorem c08_v2_revision_proofheight (ms : Mid) (r : Rev2) :
    rev2Check ms r = .ok () ↔
      ((ms.base.child ≤ r.parent.fc.proofHeight ∧ ms.base.child ≤ (ms.curFc2 r.parent).proofHeight) ∧
        Revision2Other ms.base.child ms.base.P.ephemeralFix (ms.curFc2 r.parent) r.rev r.sigCurOk) := by
  rw [rev2Check_ok_iff]
  constructor
  · rintro ⟨h0, h⟩
    exact ⟨⟨h0, h.curProofHeight⟩, ⟨h.1, h.2, h.3, h.4, h.6, h.7, h.8, h.9, h.10, h.11, h.12, h.13⟩⟩
  · rintro ⟨⟨h0, h5⟩, h⟩
    exact ⟨h0, ⟨h.1, h.2, h.3, h.4, h5, h.5, h.6, h.7, h.8, h.9, h.10, h.11, h.12⟩⟩

theorem c08_v2_revision_proofheight_threshold (ms : Mid) (r : Rev2)
    (hcur : ms.curFc2 r.parent = r.parent.fc)
    (hother : Revision2Other ms.base.child ms.base.P.ephemeralFix r.parent.fc r.rev r.sigCurOk) :
    rev2Check ms r = .ok () ↔ ms.base.child ≤ r.parent.fc.proofHeight := by
  rw [c08_v2_revision_proofheight, hcur]
  exact ⟨fun h => h.1.1, fun h => ⟨⟨h, h⟩, hother⟩⟩

/-- a v2 transaction revising a contract after its proof height is not accepted -/
theorem c08_v2_revision_proofheight_reject (ms : Mid) (t : Txn2) (mw : Nat) (r : Rev2) (hm : r ∈ t.revs)
    (h : r.parent.fc.proofHeight < ms.base.child ∨ (ms.curFc2 r.parent).proofHeight < ms.base.child) :
    NotOk (validateV2Transaction ms t mw) := by
  apply v2Txn_notOk_of_fc
  intro _ hr
  have hrules := ((validateV2FileContracts_ok_iff ms t).1 hr).2.1 r hm
  have := hrules.parentProofHeight
  have := hrules.revision.curProofHeight
  omega

def tRev2 : Txn2 := { txn2 with revs := [{ parent := c2, rev := { c2.fc with revNum := 2 }, sigCurOk := true }] }

example : validateV2Transaction (M 15) tRev2 100 = .ok () := by decide
example : validateV2Transaction (M 16) tRev2 100 =
    .error (.reject "file contract revision cannot be applied to contract after proof height") := by decide

-- ================================================================= v2 storage proof vs. proof height

/-- A v2 storage proof passes its checks iff `proofHeight ≤ childHeight`, the presented chain index
has exactly the contract's proof height and is an ancestor of the block (`∈ chain`, which only holds
blocks below `childHeight`), and the two Merkle verdicts hold. -/
theorem c08_v2_proof_height (ms : Mid) (r : Resolution2) (ih : Nat) (iid : Id) (leafOk proofOk : Bool)
    (hr : r.res = .proof ih iid leafOk proofOk) :
    res2Check ms r = .ok () ↔
      ((r.parent.fc.proofHeight ≤ ms.base.child ∧ ih = r.parent.fc.proofHeight ∧ (ih, iid) ∈ ms.base.chain) ∧
        (leafOk = true ∧ proofOk = true)) := by
  rw [res2Check_ok_iff]; unfold Res2KindRules; rw [hr]
  constructor
  · rintro ⟨h1, h2, h3, h4, h5⟩; exact ⟨⟨h1, h2, h4⟩, h3, h5⟩
  · rintro ⟨⟨h1, h2, h4⟩, h3, h5⟩; exact ⟨h1, h2, h3, h4, h5⟩

/-- a v2 transaction proving storage before the proof height, with an index of another height, or
with an index that is not an ancestor, is not accepted -/
theorem c08_v2_proof_height_reject (ms : Mid) (t : Txn2) (mw : Nat) (r : Resolution2) (hm : r ∈ t.ress)
    (ih : Nat) (iid : Id) (leafOk proofOk : Bool) (hr : r.res = .proof ih iid leafOk proofOk)
    (h : ms.base.child < r.parent.fc.proofHeight ∨ ih ≠ r.parent.fc.proofHeight ∨ (ih, iid) ∉ ms.base.chain) :
    NotOk (validateV2Transaction ms t mw) := by
  apply v2Txn_notOk_of_fc
  intro _ hok
  have hrules := (((validateV2FileContracts_ok_iff ms t).1 hok).2.2.2.1 r hm).kind
  have := ((c08_v2_proof_height ms r ih iid leafOk proofOk hr).1 ((res2Check_ok_iff ms r).2 hrules)).1
  rcases h with h | h | h
  · omega
  · exact h this.2.1
  · exact h this.2.2

def tRes2 (res : Res2) : Txn2 := { txn2 with ress := [{ parent := c2, res := res, renterOutId := 601, hostOutId := 602 }] }

example : validateV2Transaction (M 16) (tRes2 (.proof 15 1015 true true)) 100 = .ok () := by decide
-- at child height 15 block 15 is not an ancestor yet
example : validateV2Transaction (M 15) (tRes2 (.proof 15 1015 true true)) 100 =
    .error (.reject "file contract storage proof has invalid history proof") := by decide
example : validateV2Transaction (M 14) (tRes2 (.proof 15 1015 true true)) 100 =
    .error (.reject "file contract storage proof cannot be submitted until after proof height") := by decide
example : validateV2Transaction (M 16) (tRes2 (.proof 14 1014 true true)) 100 =
    .error (.reject "file contract storage proof has ProofIndex height that does not match contract ProofHeight") := by decide

-- ================================================================= v2 expiration

/-- a v2 expiration passes its check iff `expirationHeight < childHeight` -/
theorem c08_v2_expiration (ms : Mid) (r : Resolution2) (hr : r.res = .expiration) :
    res2Check ms r = .ok () ↔ r.parent.fc.expHeight < ms.base.child := by
  rw [res2Check_ok_iff]; unfold Res2KindRules; rw [hr]

theorem c08_v2_expiration_reject (ms : Mid) (t : Txn2) (mw : Nat) (r : Resolution2) (hm : r ∈ t.ress)
    (hr : r.res = .expiration) (h : ms.base.child ≤ r.parent.fc.expHeight) :
    NotOk (validateV2Transaction ms t mw) := by
  apply v2Txn_notOk_of_fc
  intro _ hok
  have hrules := (((validateV2FileContracts_ok_iff ms t).1 hok).2.2.2.1 r hm).kind
  have := (c08_v2_expiration ms r hr).1 ((res2Check_ok_iff ms r).2 hrules)
  omega

example : validateV2Transaction (M 19) (tRes2 .expiration) 100 = .ok () := by decide
example : validateV2Transaction (M 18) (tRes2 .expiration) 100 =
    .error (.reject "file contract expiration cannot be submitted until after expiration height") := by decide

-- ================================================================= hardfork heights

/-- from the v2 require height on every v1 transaction is rejected … -/
theorem c08_v1_forbidden_from (ms : Mid) (t : Txn1) (pid mw : Nat) (h : ms.base.child ≥ ms.base.P.v2Require) :
    Rejected (validateTransaction ms t pid mw) := by
  rw [validateTransaction_eq]; unfold v1TxnChecks
  rw [if_pos h]; simp

/-- … and below it the rule does not fire: acceptance is `childHeight < v2Require` ∧ the other validators -/
theorem c08_v1_forbidden_from_threshold (ms : Mid) (t : Txn1) (pid mw : Nat)
    (hother : (validateCurrencyOverflow t = .ok () ∧ validateTaxPool ms t = .ok ()) ∧ t.weight ≤ mw ∧
       validateMinimumValues t = .ok () ∧ validateSiacoins ms t = .ok () ∧ validateSiafunds ms t = .ok () ∧
       validateFileContracts ms t pid = .ok () ∧ validateArbitraryData ms t = .ok () ∧ validateSignatures t = .ok ()) :
    validateTransaction ms t pid mw = .ok () ↔ ms.base.child < ms.base.P.v2Require := by
  rw [validateTransaction_ok_iff]
  exact ⟨fun h => h.1, fun h => ⟨h, hother⟩⟩

/-- a block with v1 transactions or expiring v1 contracts is rejected from the require height on -/
theorem c08_v1_forbidden_from_supplement (L : Ledger) (b : Block) (h : L.child ≥ L.P.v2Require)
    (hne : b.txns1.length ≠ 0 ∨ b.expiring.length ≠ 0) : Rejected (validateSupplement L b) := by
  unfold validateSupplement
  simp only [reject_bind]
  rw [if_pos ⟨h, hne⟩]
  simp

example : validateTransaction (M 19) (tSpend1 e0 0) 1018 100 = .ok () := by decide
example : validateTransaction (M 20) (tSpend1 e0 0) 1019 100 =
    .error (.reject "v1 transactions are not allowed after v2 hardfork is complete") := by decide

/-- before the v2 allow height every v2 transaction is rejected … -/
theorem c08_v2_allowed_from (ms : Mid) (t : Txn2) (mw : Nat) (h : ms.base.child < ms.base.P.v2Allow) :
    Rejected (validateV2Transaction ms t mw) := by
  rw [validateV2Transaction_eq]; unfold v2TxnChecks
  rw [if_pos h]; simp

/-- … and from it on the rule does not fire -/
theorem c08_v2_allowed_from_threshold (ms : Mid) (t : Txn2) (mw : Nat)
    (hother : (validateV2CurrencyOverflow t = .ok () ∧ validateV2TaxPool ms t = .ok ()) ∧ t.weight ≠ 0 ∧
       t.weight ≤ mw ∧ validateV2Siacoins ms t = .ok () ∧ validateV2Siafunds ms t = .ok () ∧
       validateV2FileContracts ms t = .ok () ∧ t.attsOk = true ∧ validateFoundationUpdate ms t = .ok ()) :
    validateV2Transaction ms t mw = .ok () ↔ ms.base.P.v2Allow ≤ ms.base.child := by
  rw [validateV2Transaction_ok_iff]
  exact ⟨fun h => h.1, fun h => ⟨h, hother⟩⟩

example : validateV2Transaction (M 10) (tSpend2 e0) 100 = .ok () := by decide
example : validateV2Transaction (M 9) (tSpend2 e0) 100 =
    .error (.reject "v2 transactions are not allowed until v2 hardfork begins") := by decide

-- ================================================================= whole blocks

/-- Every transaction of an accepted block passed its validator against a mid-state over the
block's ledger, so all transaction-level theorems above apply with `ms.base.child = L.child`. -/
theorem c08_block_txns_validated (L : Ledger) (b : Block) (pid : Id) (ms : Mid) (h : validateBlock L b pid = .ok ms) :
    (∀ t ∈ b.txns1, ∃ s : Mid, s.base = L ∧ validateTransaction s t pid b.maxWeight = .ok ()) ∧
    (∀ t ∈ b.txns2, ∃ s : Mid, s.base = L ∧ validateV2Transaction s t b.maxWeight = .ok ()) := by
  obtain ⟨h1, h2⟩ := validateBlock_ok_txns h
  constructor
  · intro t ht
    obtain ⟨pre, post, hsplit⟩ := List.append_of_mem ht
    obtain ⟨s, _, hb, hv⟩ := h1 pre t post hsplit
    exact ⟨s, hb, hv⟩
  · intro t ht
    obtain ⟨pre, post, hsplit⟩ := List.append_of_mem ht
    obtain ⟨_, s, _, _, hb, hv⟩ := h2 pre t post hsplit
    exact ⟨s, hb, hv⟩

/-- The height rules read off an accepted block, in terms of the ledger's child height. -/
theorem c08_block_height_rules (L : Ledger) (b : Block) (pid : Id) (ms : Mid) (h : validateBlock L b pid = .ok ms) :
    (∀ t ∈ b.txns1, L.child < L.P.v2Require ∧
      (∀ sci ∈ t.scIns, sci.timelock ≤ L.child) ∧ (∀ sfi ∈ t.sfIns, sfi.timelock ≤ L.child) ∧
      (∀ r ∈ t.revs, r.timelock ≤ L.child ∧ L.child ≤ r.fc.windowStart)) ∧
    (∀ t ∈ b.txns2, L.P.v2Allow ≤ L.child ∧
      (∀ sci ∈ t.scIns, sci.parent.maturity ≤ L.child) ∧
      (∀ r ∈ t.revs, L.child ≤ r.parent.fc.proofHeight) ∧
      (∀ r ∈ t.ress, (∀ ih iid a c, r.res = .proof ih iid a c →
          r.parent.fc.proofHeight ≤ L.child ∧ ih = r.parent.fc.proofHeight ∧ (ih, iid) ∈ L.chain) ∧
        (r.res = .expiration → r.parent.fc.expHeight < L.child))) := by
  obtain ⟨h1, h2⟩ := c08_block_txns_validated L b pid ms h
  constructor
  · intro t ht
    obtain ⟨s, hb, hv⟩ := h1 t ht
    obtain ⟨a1, _, _, _, hsc, hsf, hfc, _, _⟩ := (validateTransaction_ok_iff s t pid b.maxWeight).1 hv
    rw [hb] at a1
    refine ⟨a1, ?_, ?_, ?_⟩
    · intro sci hm
      have := ((c08_uc_timelock_v1 s t).1.1 hsc).1 sci hm
      rwa [hb] at this
    · intro sfi hm
      have := ((c08_uc_timelock_v1 s t).2.1.1 hsf).1 sfi hm
      rwa [hb] at this
    · intro r hm
      obtain ⟨p, _, hr⟩ := ((validateFileContracts_ok_iff s t pid).1 hfc).2.1 r hm
      have a := hr.timelock
      have c := hr.windowStart
      rw [hb] at a c
      exact ⟨a, c⟩
  · intro t ht
    obtain ⟨s, hb, hv⟩ := h2 t ht
    obtain ⟨a1, _, _, _, hsc, _, hfc, _, _⟩ := (validateV2Transaction_ok_iff s t b.maxWeight).1 hv
    rw [hb] at a1
    obtain ⟨_, f1, _, f2, _⟩ := (validateV2FileContracts_ok_iff s t).1 hfc
    refine ⟨a1, ?_, ?_, ?_⟩
    · intro sci hm
      have := ((c08_maturity_v2 s t).1 hsc).1 sci hm
      rwa [hb] at this
    · intro r hm
      have := (f1 r hm).parentProofHeight
      rwa [hb] at this
    · intro r hm
      have hk := (res2Check_ok_iff s r).2 (f2 r hm).kind
      constructor
      · intro ih iid a c hr
        have := ((c08_v2_proof_height s r ih iid a c hr).1 hk).1
        rwa [hb] at this
      · intro hr
        have := (c08_v2_expiration s r hr).1 hk
        rwa [hb] at this

/-- from the require height on, a block with any v1 transaction or expiring v1 contract is not accepted -/
theorem c08_v1_forbidden_from_block (L : Ledger) (b : Block) (pid : Id) (h : L.child ≥ L.P.v2Require)
    (hne : b.txns1.length ≠ 0 ∨ b.expiring.length ≠ 0) : NotOk (validateBlock L b pid) := by
  rw [validateBlock_eq]
  apply bind_notOk_right
  intro _ _
  apply bind_notOk_left
  exact (c08_v1_forbidden_from_supplement L b h hne).notOk

end C08
