import SiaProofs.Props.C08
import SiaProofs.Lemmas.LedgerC06Genuine
/-!
# C10 (validation half) on the ledger model: where `validateBlock` can and cannot panic;
accepted blocks apply

Two panics found while attempting `c10_validate_no_panic` (unchecked addition of renewal rollovers
to the input sum; unchecked input sum of a v1 transaction listing one parent several times) were
confirmed on the code, fixed there (commit 1c6bcb4) and in the model; their witnesses are kept as
theorems that the current model *rejects* them.  What is proved:

* every check that does not add ledger values never panics (`c10_*_no_panic`, unconditional);
* `c10_accepted_applies`: a block accepted by `validateBlock` is applied by `applyBlock` without
  panic, given only that the Foundation subsidy of the height is computable;
* the formerly reachable legacy-window panic (forged claim start of an ephemeral siafund parent) is
  now a rejection (`c10_legacy_forged_claim_rejected`).
-/
namespace C10
open Sia.Ledger C08 C08.Ex

-- ================================================================= witnesses

def rn0 : Renewal :=
  { finalRenter := { value := 0, addr := 1 }, finalHost := { value := 0, addr := 2 }, renterRollover := curLimit - 1, hostRollover := 0, newContract := { c2.fc with renter := { value := 0, addr := 1 }, host := { value := 0, addr := 2 }, missedHost := 0, totalCollateral := 0 }, newId := 502, newSigOk := false, sigOk := false }
/-- one genuine 50-hasting input and a (never examined) renewal whose rollover is 2^128 − 1 -/
def tRollover : Txn2 :=
  { txn2 with scIns := [{ parent := e0, addrOk := true, authOk := true }], ress := [{ parent := c2, renterOutId := 601, hostOutId := 602, res := .renewal rn0 }] }

/-- formerly a panic (unchecked `inputSum.Add(rollover)` in `validateV2Siacoins`, reachable with any
1-hasting input because the overflow pre-check only bounds the output side): now rejected -/
theorem c10_rollover_overflow_rejected :
    validateV2CurrencyOverflow tRollover = .ok () ∧
    validateV2Transaction (M 15) tRollover 100 = .error (.reject "siacoin inputs overflow") := by decide

def eBig : ScElem := { id := 100, value := curLimit / 2, addr := 7, maturity := 0, leaf := some 2 }
def LBig : Ledger := { (default : Ledger) with P := P0, child := 15, sc := [eBig] }
def tDup : Txn1 :=
  { txn1 with scIns := [{ parent := 100, timelock := 0, ucAddr := 7 }, { parent := 100, timelock := 0, ucAddr := 7 }], supp := { (default : Supp1) with scIns := [eBig] } }

/-- formerly a panic (unchecked input sum of `validateSiacoins`; the duplicate is only detected
later by `validateSignatures`): now rejected -/
theorem c10_duplicate_parent_overflow_rejected :
    validateTransaction (newMid LBig) tDup 0 100 = .error (.reject "siacoin inputs overflow") := by decide

/-- a ledger inside the legacy window (child 15 < ephemeralFix 100) with one siafund element -/
def PLegacy : Params := { P0 with ephemeralFix := 100 }
def sf0 : SfElem := { id := 700, value := 10, addr := 7, claimStart := 0, leaf := some 1 }
def LLegacy : Ledger := { (default : Ledger) with P := PLegacy, child := 15, sf := [sf0] }
def tSfA : Txn2 := { txn2 with sfIns := [{ parent := sf0, claimAddr := 7, claimId := 702, addrOk := true, authOk := true }], sfOuts := [(701, 10, 8)] }
/-- spends the siafund output 701 created by `tSfA` in the same block, claiming a forged claim start -/
def tSfB : Txn2 := { txn2 with sfIns := [{ parent := { id := 701, value := 10, addr := 8, claimStart := 999, leaf := none }, claimAddr := 8, claimId := 703, addrOk := true, authOk := true }], sfOuts := [(704, 10, 9)] }

/-- the forged-claim-start transaction that used to panic `validateBlock` inside the legacy window
(`claimPortion`'s unchecked subtraction when the block applies it) is now rejected -/
theorem c10_legacy_forged_claim_rejected :
    (do validateV2Transaction (newMid LLegacy) tSfA 100
        let ms ← applyV2Transaction (newMid LLegacy) tSfA
        validateV2Transaction ms tSfB 100) =
      .error (.reject "claims invalid claim start for ephemeral output") := by decide

-- ================================================================= checks that never panic

theorem validateMinerPayouts_noPanic (L : Ledger) (b : Block) : NoPanic (validateMinerPayouts L b) := by
  unfold validateMinerPayouts
  simp only [reject_bind]
  repeat' split
  all_goals (try simp only [pure_bind])
  repeat' split
  all_goals (try simp only [pure_bind])
  repeat' split
  all_goals simp

theorem validateOrphan_noPanic (L : Ledger) (b : Block) : NoPanic (validateOrphan L b) := by
  unfold validateOrphan
  simp only [reject_bind]
  repeat' split
  all_goals first
    | (simp; done)
    | (refine bind_noPanic (validateMinerPayouts_noPanic L b) (fun _ _ => ?_)
       repeat' split
       all_goals simp)

theorem v2SfBalance_noPanic (t : Txn2) : NoPanic (v2SfBalance t) := by
  unfold v2SfBalance
  simp only []
  refine bind_noPanic (foldlM_noPanic (fun s x => ?_) _ _) (fun _ _ => ?_)
  · split <;> simp
  · split <;> simp

theorem validateV2Siafunds_noPanic (ms : Mid) (t : Txn2) : NoPanic (validateV2Siafunds ms t) := by
  rw [validateV2Siafunds_eq]
  exact bind_noPanic (foldlM_noPanic (sfIn2Step_noPanic ms) _ _) (fun _ _ => v2SfBalance_noPanic t)

theorem validateFoundationUpdate_noPanic (ms : Mid) (t : Txn2) : NoPanic (validateFoundationUpdate ms t) := by
  unfold validateFoundationUpdate
  split
  · simp
  · split <;> simp

theorem validateArbitraryData_noPanic (ms : Mid) (t : Txn1) : NoPanic (validateArbitraryData ms t) := by
  unfold validateArbitraryData
  split
  · simp
  · split
    · simp
    · simp
    · split
      · simp
      · split <;> simp

theorem validateSignatures_noPanic (t : Txn1) : NoPanic (validateSignatures t) := by
  unfold validateSignatures
  simp only []
  split
  · simp
  · split <;> simp

/-- The checks of the block validator that involve no unchecked arithmetic on ledger values never
panic, for any ledger, mid-state, block or transaction: the orphan checks (weight, miner payouts,
header), the supplement check, both currency-overflow pre-checks, minimum values, the whole v1 and
v2 siafund validators, the input loop of the v2 siacoin validator, arbitrary data, signatures'
duplicate detection, contract-formation and parent checks, the Foundation update. -/
theorem c10_checks_no_panic (L : Ledger) (b : Block) (ms : Mid) (t1 : Txn1) (t2 : Txn2) :
    NoPanic (validateOrphan L b) ∧ NoPanic (validateSupplement L b) ∧
    NoPanic (validateCurrencyOverflow t1) ∧ NoPanic (validateMinimumValues t1) ∧
    NoPanic (validateSiafunds ms t1) ∧ NoPanic (validateArbitraryData ms t1) ∧ NoPanic (validateSignatures t1) ∧
    NoPanic (validateV2CurrencyOverflow t2) ∧ NoPanic (t2.scIns.foldlM (scIn2Step ms) []) ∧
    NoPanic (validateV2Siafunds ms t2) ∧ NoPanic (validateFoundationUpdate ms t2) ∧
    (∀ fc sig, NoPanic (validateContract2 ms fc sig)) ∧ (∀ rv rs e, NoPanic (validateParent2 ms rv rs e)) :=
  ⟨validateOrphan_noPanic L b, validateSupplement_noPanic L b, validateCurrencyOverflow_noPanic t1,
    validateMinimumValues_noPanic t1, validateSiafunds_noPanic ms t1, validateArbitraryData_noPanic ms t1,
    validateSignatures_noPanic t1, validateV2CurrencyOverflow_noPanic t2,
    foldlM_noPanic (scIn2Step_noPanic ms) _ _, validateV2Siafunds_noPanic ms t2,
    validateFoundationUpdate_noPanic ms t2, fun fc sig => validateContract2_noPanic ms fc sig,
    fun rv rs e => validateParent2_noPanic ms rv rs e⟩

-- ================================================================= accepted blocks apply

theorem foldlM_total {α β} {f : β → α → VM β} (h : ∀ s x, ∃ s', f s x = .ok s') (l : List α) (s : β) :
    ∃ s', l.foldlM f s = .ok s' := by
  induction l generalizing s with
  | nil => exact ⟨s, rfl⟩
  | cons a l ih =>
    obtain ⟨s1, h1⟩ := h s a
    obtain ⟨s2, h2⟩ := ih s1
    exact ⟨s2, by rw [List.foldlM_cons, h1]; exact h2⟩

theorem a1Payout_total (l : List (ScOut × Id)) (s : Mid) : ∃ s', l.foldlM a1Payout s = .ok s' :=
  foldlM_total (fun _ _ => ⟨_, rfl⟩) l s

theorem mbExpire_total (s : Mid) (x : Fc1Elem × List Id) : ∃ s', mbExpire s x = .ok s' := by
  unfold mbExpire
  split
  · exact ⟨s, rfl⟩
  · exact a1Payout_total _ _

/-- A block accepted by `validateBlock` is applied by `applyBlock` without panic or error, provided
the Foundation subsidy of the height is computable (`foundationSubsidy L` does not panic: it divides
by `blocksPerYear / 12` and multiplies 30000 SC by `blocksPerYear`, which `validateBlock` never
evaluates).  `RevertBlock` performs the same computation (`C06.revertDiffs`). -/
theorem c10_accepted_applies (L : Ledger) (b : Block) (pid : Id) (ms0 : Mid)
    (hv : validateBlock L b pid = .ok ms0) (hsub : ∃ o, foundationSubsidy L = .ok o) :
    ∃ r, applyBlock L b = .ok r := by
  rw [validateBlock_eq] at hv
  obtain ⟨_, _, hv⟩ := bind_ok_iff.1 hv
  obtain ⟨_, hsupp, hv⟩ := bind_ok_iff.1 hv
  have hS := (validateSupplement_ok_iff L b).1 hsupp
  split at hv
  · exact absurd hv (reject_ne_ok _ _)
  obtain ⟨s0, h1, h2⟩ := bind_ok_iff.1 hv
  have a1 := foldlM_vb1_apply _ _ _ h1
  have a2 := foldlM_vb2_apply _ _ _ h2
  obtain ⟨s3, h3⟩ : ∃ s3, b.payouts.foldlM mbPayout ms0 = .ok s3 := foldlM_total (fun s x => ⟨_, rfl⟩) _ _
  have hb : s3.base = L := by
    rw [foldlM_base (fun s x s' hs => by simp [mbPayout] at hs; subst hs; simp) _ _ _ h3,
      foldlM_base (fun s x s' hs => applyV2Transaction_base hs) _ _ _ a2,
      foldlM_base (fun s x s' hs => applyTransaction_base hs) _ _ _ a1]
    rfl
  obtain ⟨o, ho⟩ := hsub
  unfold applyBlock
  rw [midApplyBlock_eq]
  have hera : ¬ ((newMid L).base.child ≥ (newMid L).base.P.v2Require ∧ (b.txns1.length ≠ 0 ∨ b.expiring.length ≠ 0)) := hS.era
  rw [if_neg hera]
  simp only [a1, a2, h3, hb, ho, ok_bind]
  cases o with
  | none =>
    obtain ⟨ms, hms⟩ := foldlM_total mbExpire_total b.expiring s3
    exact ⟨(ms.commit b.blockId, ms), by simp only [hms, ok_bind]; rfl⟩
  | some o =>
    obtain ⟨ms, hms⟩ := foldlM_total mbExpire_total b.expiring (s3.createImmatureSc b.foundationOutId o)
    exact ⟨(ms.commit b.blockId, ms), by simp only [hms, ok_bind]; rfl⟩

example : foundationSubsidy (L 15) = .ok none := by decide

-- ================================================================= v2 contracts: no panic given bounded parents (partial)

theorem sumChecked_fold (l : List Cur) (s v : Cur)
    (h : l.foldl (fun s v => match s with
      | some s => if s + v < curLimit then some (s + v) else none
      | none => none) (some s) = some v) : v = s + l.sum ∧ (l ≠ [] → s + l.sum < curLimit) := by
  induction l generalizing s with
  | nil => simp at h; exact ⟨by simp [h], fun h => absurd rfl h⟩
  | cons a l ih =>
    rw [List.foldl_cons] at h
    simp only [] at h
    by_cases hlt : s + a < curLimit
    · rw [if_pos hlt] at h
      obtain ⟨h1, h2⟩ := ih _ h
      refine ⟨by rw [h1, List.sum_cons]; cur_omega, fun _ => ?_⟩
      rw [List.sum_cons]
      by_cases hl : l = []
      · subst hl; simp; cur_omega
      · have := h2 hl; cur_omega
    · rw [if_neg hlt] at h
      exfalso
      clear ih hlt
      induction l with
      | nil => simp at h
      | cons b l ih2 => rw [List.foldl_cons] at h; exact ih2 h

theorem sumChecked_some {l : List Cur} {v : Cur} (h : sumChecked l = some v) : l.sum < curLimit := by
  unfold sumChecked at h
  by_cases hl : l = []
  · subst hl; decide
  · have := (sumChecked_fold l 0 v h).2 hl
    simpa using this

/-- the per-item lists of `validateV2CurrencyOverflow` (copied from the model) -/
def v2Contract (fc : Fc2) : Option (List Cur) :=
  if fc.renter.value + fc.host.value < curLimit then some (fc.values ++ [(fc.renter.value + fc.host.value) / 25]) else none
def v2ResPart (r : Resolution2) : Option (List Cur) :=
  match r.res with
  | .renewal rn => (v2Contract rn.newContract).map (· ++ [rn.finalRenter.value, rn.finalHost.value, rn.renterRollover, rn.hostRollover])
  | _ => some []
def v2Parts (t : Txn2) : List (Option (List Cur)) :=
  [some (t.scOuts.map (·.2.value))] ++ t.fcs.map (fun (_, fc, _) => v2Contract fc) ++ t.revs.map (fun r => v2Contract r.rev) ++
    t.ress.map v2ResPart ++ [some [t.fee]]

theorem validateV2CurrencyOverflow_ok {t : Txn2} (h : validateV2CurrencyOverflow t = .ok ()) :
    (∀ p ∈ v2Parts t, p ≠ none) ∧ ((v2Parts t).filterMap id).flatten.sum < curLimit := by
  have heq : validateV2CurrencyOverflow t =
      (if (v2Parts t).any (·.isNone) then reject "transaction outputs exceed inputs"
       else if (sumChecked ((v2Parts t).filterMap id).flatten).isNone ∨ t.sfOuts.any (fun (_, v, _) => v > 10000) then
         reject "transaction outputs exceed inputs"
       else pure ()) := by
    unfold validateV2CurrencyOverflow v2Parts v2ResPart v2Contract
    rfl
  rw [heq] at h
  split at h
  · exact absurd h (reject_ne_ok _ _)
  rename_i h1
  split at h
  · exact absurd h (reject_ne_ok _ _)
  rename_i h2
  constructor
  · intro p hp hn
    apply h1
    rw [List.any_eq_true]
    exact ⟨p, hp, by rw [hn]; rfl⟩
  · cases hs : sumChecked ((v2Parts t).filterMap id).flatten with
    | none => exact absurd (Or.inl (by rw [hs]; rfl)) h2
    | some v => exact sumChecked_some hs

theorem part_le_total {parts : List (Option (List Cur))} {l : List Cur} (h : some l ∈ parts) :
    l.sum ≤ (parts.filterMap id).flatten.sum := by
  induction parts with
  | nil => cases h
  | cons p ps ih =>
    rcases List.mem_cons.1 h with rfl | h'
    · simp
    · have := ih h'
      cases p with
      | none => simpa using this
      | some x => simp only [List.filterMap_cons, id, List.flatten_cons, List.sum_append]; cur_omega

theorem foldlM_noPanic_on {α β} {f : β → α → VM β} (l : List α) (h : ∀ s, ∀ x ∈ l, NoPanic (f s x)) (s : β) :
    NoPanic (l.foldlM f s) := by
  induction l generalizing s with
  | nil => simp [pure, Except.pure]
  | cons a l ih =>
    rw [List.foldlM_cons]
    exact bind_noPanic (h s a List.mem_cons_self) (fun s1 _ => ih (fun s x hx => h s x (List.mem_cons_of_mem _ hx)) s1)

theorem revision2Check_noPanic (child fix : Nat) (cur rev : Fc2) (sig : Bool)
    (h1 : cur.renter.value + cur.host.value < curLimit) (h2 : rev.renter.value + rev.host.value < curLimit) :
    NoPanic (revision2Check child fix cur rev sig) := by
  unfold revision2Check
  rw [addC_eq_ok h1, addC_eq_ok h2]
  simp only [ok_bind]
  repeat' split
  all_goals simp

theorem renewalCheck_noPanic (ms : Mid) (fc : Fc2) (rn : Renewal)
    (h1 : fc.renter.value + fc.host.value < curLimit)
    (h2 : rn.newContract.renter.value + rn.newContract.host.value < curLimit)
    (h3 : (rn.newContract.values ++ [(rn.newContract.renter.value + rn.newContract.host.value) / 25] ++
            [rn.finalRenter.value, rn.finalHost.value, rn.renterRollover, rn.hostRollover]).sum < curLimit) :
    NoPanic (renewalCheck ms fc rn) := by
  simp only [Fc2.values, List.sum_append, List.sum_cons, List.sum_nil] at h3
  unfold renewalCheck
  split
  · simp
  split
  · simp
  rw [addC_eq_ok (by cur_omega : rn.finalRenter.value + rn.renterRollover < curLimit)]
  simp only [ok_bind]
  rw [addC_eq_ok (by cur_omega : rn.finalRenter.value + rn.renterRollover + rn.finalHost.value < curLimit)]
  simp only [ok_bind]
  rw [addC_eq_ok (by cur_omega : rn.finalRenter.value + rn.renterRollover + rn.finalHost.value + rn.hostRollover < curLimit)]
  simp only [ok_bind]
  rw [addC_eq_ok h1]
  simp only [ok_bind]
  split
  · simp
  rw [addC_eq_ok h2]
  simp only [ok_bind]
  unfold v2Tax
  rw [addC_eq_ok h2]
  simp only [ok_bind, pure_bind]
  rw [addC_eq_ok (by cur_omega : rn.newContract.renter.value + rn.newContract.host.value +
    (rn.newContract.renter.value + rn.newContract.host.value) / 25 < curLimit)]
  simp only [ok_bind]
  rw [addC_eq_ok (by cur_omega : rn.renterRollover + rn.hostRollover < curLimit)]
  simp only [ok_bind]
  split
  · simp
  refine bind_noPanic (validateContract2_noPanic _ _ _) (fun _ _ => ?_)
  split <;> simp

/-- PARTIAL (`c10_validate_no_panic`, v2 contracts): after the overflow pre-check,
`validateV2FileContracts` does not panic provided the *parents'* totals are representable: for every
revision the contract as it currently stands, for every resolution the presented parent, has
`renter + host < 2^128`.
Missing for the unconditional statement: that bound for ledger members and in-block revisions — a
consequence of a solvency invariant of the ledger (Σ of all live values < 2^128, maintained by value
conservation, C01) together with the membership check, which runs *before* the sums for a presented
parent but is not available for a forged parent record: `validateParent2` rejects those first, so
the bound is only needed for genuine parents. -/
theorem c10_v2_contracts_no_panic_partial (ms : Mid) (t : Txn2) (hov : validateV2CurrencyOverflow t = .ok ())
    (hrev : ∀ r ∈ t.revs, (ms.curFc2 r.parent).renter.value + (ms.curFc2 r.parent).host.value < curLimit)
    (hres : ∀ r ∈ t.ress, r.parent.fc.renter.value + r.parent.fc.host.value < curLimit) :
    NoPanic (validateV2FileContracts ms t) := by
  obtain ⟨hsome, htot⟩ := validateV2CurrencyOverflow_ok hov
  rw [validateV2FileContracts_eq]
  refine bind_noPanic (forIn_step_noPanic _ (fun x => validateContract2_noPanic _ _ _) _) (fun _ _ => ?_)
  refine bind_noPanic (foldlM_noPanic_on _ (fun s r hr => ?_) _) (fun revised _ => ?_)
  · unfold rev2Step
    refine bind_noPanic (validateParent2_noPanic _ _ _ _) (fun _ _ => bind_noPanic ?_ (fun _ _ => by simp))
    unfold rev2Check
    split
    · simp
    rw [validateRevision2_eq]
    apply revision2Check_noPanic _ _ _ _ _ (hrev r hr)
    have hm : v2Contract r.rev ∈ v2Parts t := by
      unfold v2Parts
      simp only [List.mem_append, List.mem_map]
      exact Or.inl (Or.inl (Or.inr ⟨r, hr, rfl⟩))
    have := hsome _ hm
    unfold v2Contract at this
    split at this
    · assumption
    · exact absurd rfl this
  · refine bind_noPanic (foldlM_noPanic_on _ (fun s r hr => ?_) _) (fun _ _ => by simp)
    unfold res2Step
    refine bind_noPanic (validateParent2_noPanic _ _ _ _) (fun _ _ => bind_noPanic ?_ (fun _ _ => by simp))
    unfold res2Check
    simp only []
    cases hres' : r.res with
    | renewal rn =>
      simp only []
      have hm : v2ResPart r ∈ v2Parts t := by
        unfold v2Parts
        simp only [List.mem_append, List.mem_map]
        exact Or.inl (Or.inr ⟨r, hr, rfl⟩)
      have hne := hsome _ hm
      unfold v2ResPart at hm hne
      rw [hres'] at hm hne
      simp only [] at hm hne
      unfold v2Contract at hm hne
      by_cases hc : rn.newContract.renter.value + rn.newContract.host.value < curLimit
      · rw [if_pos hc] at hm
        simp only [Option.map_some] at hm
        have hle := part_le_total hm
        exact renewalCheck_noPanic ms _ rn (hres r hr) hc (by cur_omega)
      · rw [if_neg hc] at hne
        exact absurd rfl hne
    | proof ih iid a c =>
      simp only []
      repeat' split
      all_goals simp
    | expiration =>
      simp only []
      split <;> simp

-- ================================================================= v2 siacoins: no panic after the overflow pre-check

def wFc (x : Id × Fc2 × Bool) : Nat := x.2.1.renter.value + x.2.1.host.value + (x.2.1.renter.value + x.2.1.host.value) / 25
def wResO (r : Resolution2) : Nat :=
  match r.res with
  | .renewal rn => rn.newContract.renter.value + rn.newContract.host.value + (rn.newContract.renter.value + rn.newContract.host.value) / 25
  | _ => 0

theorem segment_le {α} (xs : List α) (g : α → Option (List Cur)) (w : α → Nat)
    (hw : ∀ x ∈ xs, ∃ l, g x = some l ∧ w x ≤ l.sum) :
    (xs.map w).sum ≤ ((xs.map g).filterMap id).flatten.sum := by
  induction xs with
  | nil => simp
  | cons a xs ih =>
    obtain ⟨l, hl, hle⟩ := hw a List.mem_cons_self
    have := ih (fun x hx => hw x (List.mem_cons_of_mem _ hx))
    simp only [List.map_cons, List.sum_cons, List.filterMap_cons, hl, id, List.flatten_cons, List.sum_append]
    omega

theorem v2Contract_some {fc : Fc2} (h : v2Contract fc ≠ none) :
    fc.renter.value + fc.host.value < curLimit ∧
      v2Contract fc = some (fc.values ++ [(fc.renter.value + fc.host.value) / 25]) := by
  unfold v2Contract at h ⊢
  split
  · exact ⟨by assumption, rfl⟩
  · rename_i hc; rw [if_neg hc] at h; exact absurd rfl h

/-- what the overflow pre-check gives for the output side of the siacoin balance -/
theorem v2_output_bound {t : Txn2} (hov : validateV2CurrencyOverflow t = .ok ()) :
    (t.scOuts.map (·.2.value)).sum + (t.fcs.map wFc).sum + (t.ress.map wResO).sum + t.fee < curLimit ∧
    (∀ x ∈ t.fcs, x.2.1.renter.value + x.2.1.host.value < curLimit) ∧
    (∀ r ∈ t.ress, ∀ rn, r.res = .renewal rn → rn.newContract.renter.value + rn.newContract.host.value < curLimit) := by
  obtain ⟨hsome, htot⟩ := validateV2CurrencyOverflow_ok hov
  have hfc : ∀ x ∈ t.fcs, v2Contract x.2.1 ≠ none := fun x hx => hsome _ (by
    unfold v2Parts; simp only [List.mem_append, List.mem_map]
    exact Or.inl (Or.inl (Or.inl (Or.inr ⟨x, hx, rfl⟩))))
  have hrs : ∀ r ∈ t.ress, v2ResPart r ≠ none := fun r hr => hsome _ (by
    unfold v2Parts; simp only [List.mem_append, List.mem_map]
    exact Or.inl (Or.inr ⟨r, hr, rfl⟩))
  have hren : ∀ r ∈ t.ress, ∀ rn, r.res = .renewal rn → v2Contract rn.newContract ≠ none := by
    intro r hr rn hrn hn
    apply hrs r hr
    unfold v2ResPart; rw [hrn]; simp only [hn, Option.map_none]
  refine ⟨?_, fun x hx => (v2Contract_some (hfc x hx)).1, fun r hr rn hrn => (v2Contract_some (hren r hr rn hrn)).1⟩
  have s1 := segment_le t.fcs (fun x => v2Contract x.2.1) wFc (fun x hx => by
    obtain ⟨_, he⟩ := v2Contract_some (hfc x hx)
    refine ⟨_, he, ?_⟩
    simp only [wFc, Fc2.values, List.sum_append, List.sum_cons, List.sum_nil]; cur_omega)
  have s2 := segment_le t.ress v2ResPart wResO (fun r hr => by
    cases hres : r.res with
    | renewal rn =>
      obtain ⟨_, he⟩ := v2Contract_some (hren r hr rn hres)
      refine ⟨rn.newContract.values ++ [(rn.newContract.renter.value + rn.newContract.host.value) / 25] ++
        [rn.finalRenter.value, rn.finalHost.value, rn.renterRollover, rn.hostRollover], ?_, ?_⟩
      · unfold v2ResPart; rw [hres]; simp only [he, Option.map_some]
      · simp only [wResO, hres, Fc2.values, List.sum_append, List.sum_cons, List.sum_nil]; cur_omega
    | proof a b c d => exact ⟨[], by unfold v2ResPart; rw [hres], by simp [wResO, hres]⟩
    | expiration => exact ⟨[], by unfold v2ResPart; rw [hres], by simp [wResO, hres]⟩)
  unfold v2Parts at htot
  simp only [List.filterMap_append, List.flatten_append, List.sum_append, List.filterMap_cons, id,
    List.filterMap_nil, List.flatten_cons, List.flatten_nil, List.sum_cons, List.sum_nil, List.append_nil] at htot
  have e1 : (t.fcs.map fun x => match x with | (_, fc, _) => v2Contract fc) = t.fcs.map (fun x => v2Contract x.2.1) := by
    apply List.map_congr_left; intro x _; rfl
  rw [e1] at htot
  cur_omega

theorem v2Tax_eq_ok {fc : Fc2} (h : fc.renter.value + fc.host.value < curLimit) :
    v2Tax fc = .ok ((fc.renter.value + fc.host.value) / 25) := by
  unfold v2Tax; rw [addC_eq_ok h]; rfl

/-- the contract-formation loop of the balance: never panics, and adds exactly `wFc` per contract -/
theorem fcs_fold_spec (l : List (Id × Fc2 × Bool)) (s : Cur)
    (hb : ∀ x ∈ l, x.2.1.renter.value + x.2.1.host.value < curLimit) (h : s + (l.map wFc).sum < curLimit) :
    l.foldlM (fun (s : Cur) (x : Id × Fc2 × Bool) => do
        let a ← addC s x.2.1.renter.value
        let b ← addC a x.2.1.host.value
        let tax ← v2Tax x.2.1
        addC b tax) s = .ok (s + (l.map wFc).sum) := by
  induction l generalizing s with
  | nil => simp [pure, Except.pure]
  | cons x l ih =>
    simp only [List.map_cons, List.sum_cons, wFc] at h
    have hb0 := hb _ List.mem_cons_self
    rw [List.foldlM_cons]
    rw [addC_eq_ok (by cur_omega : s + x.2.1.renter.value < curLimit)]
    simp only [ok_bind]
    rw [addC_eq_ok (by cur_omega : s + x.2.1.renter.value + x.2.1.host.value < curLimit)]
    simp only [ok_bind]
    rw [v2Tax_eq_ok hb0]
    simp only [ok_bind]
    rw [addC_eq_ok (by cur_omega : s + x.2.1.renter.value + x.2.1.host.value + (x.2.1.renter.value + x.2.1.host.value) / 25 < curLimit)]
    simp only [ok_bind]
    rw [ih _ (fun x hx => hb x (List.mem_cons_of_mem _ hx)) (by cur_omega)]
    simp only [List.map_cons, List.sum_cons, wFc]
    congr 1; cur_omega

/-- the resolution loop of the balance: the input side is checked (rejects), the output side is
bounded; never panics, and the output component grows by exactly `wResO` per resolution -/
theorem ress_fold_spec (l : List Resolution2) (x : Cur × Cur)
    (hb : ∀ r ∈ l, ∀ rn, r.res = .renewal rn → rn.newContract.renter.value + rn.newContract.host.value < curLimit)
    (ho : x.2 + (l.map wResO).sum < curLimit) :
    NoPanic (l.foldlM (fun (x : Cur × Cur) (r : Resolution2) => match r.res with
      | .renewal rn => do
        let i1 ← if x.1 + rn.renterRollover < curLimit then pure (x.1 + rn.renterRollover) else reject "siacoin inputs overflow"
        let i2 ← if i1 + rn.hostRollover < curLimit then pure (i1 + rn.hostRollover) else reject "siacoin inputs overflow"
        let a ← addC x.2 rn.newContract.renter.value
        let b ← addC a rn.newContract.host.value
        let tax ← v2Tax rn.newContract
        let c ← addC b tax
        pure (i2, c)
      | _ => pure (x.1, x.2)) x) ∧
    ∀ v, l.foldlM (fun (x : Cur × Cur) (r : Resolution2) => match r.res with
      | .renewal rn => do
        let i1 ← if x.1 + rn.renterRollover < curLimit then pure (x.1 + rn.renterRollover) else reject "siacoin inputs overflow"
        let i2 ← if i1 + rn.hostRollover < curLimit then pure (i1 + rn.hostRollover) else reject "siacoin inputs overflow"
        let a ← addC x.2 rn.newContract.renter.value
        let b ← addC a rn.newContract.host.value
        let tax ← v2Tax rn.newContract
        let c ← addC b tax
        pure (i2, c)
      | _ => pure (x.1, x.2)) x = .ok v → v.2 = x.2 + (l.map wResO).sum := by
  induction l generalizing x with
  | nil => exact ⟨by simp [pure, Except.pure], fun v hv => by simp at hv; subst hv; simp⟩
  | cons r l ih =>
    simp only [List.map_cons, List.sum_cons] at ho
    rw [List.foldlM_cons]
    cases hres : r.res with
    | renewal rn =>
      have hb0 := hb r List.mem_cons_self rn hres
      simp only [wResO, hres] at ho
      simp only []
      by_cases h1 : x.1 + rn.renterRollover < curLimit
      · rw [if_pos h1]
        simp only [pure_bind]
        by_cases h2 : x.1 + rn.renterRollover + rn.hostRollover < curLimit
        · rw [if_pos h2]
          try simp only [pure_bind]
          rw [addC_eq_ok (by cur_omega : x.2 + rn.newContract.renter.value < curLimit)]
          simp only [ok_bind]
          rw [addC_eq_ok (by cur_omega : x.2 + rn.newContract.renter.value + rn.newContract.host.value < curLimit)]
          simp only [ok_bind]
          rw [v2Tax_eq_ok hb0]
          simp only [ok_bind]
          rw [addC_eq_ok (by cur_omega : x.2 + rn.newContract.renter.value + rn.newContract.host.value +
            (rn.newContract.renter.value + rn.newContract.host.value) / 25 < curLimit)]
          simp only [ok_bind, pure_bind]
          obtain ⟨i1, i2⟩ := ih (x.1 + rn.renterRollover + rn.hostRollover, x.2 + rn.newContract.renter.value + rn.newContract.host.value +
            (rn.newContract.renter.value + rn.newContract.host.value) / 25) (fun r hr => hb r (List.mem_cons_of_mem _ hr))
            (by simp only []; cur_omega)
          refine ⟨i1, fun v hv => ?_⟩
          rw [i2 v hv]
          simp only [List.map_cons, List.sum_cons, wResO, hres]
          cur_omega
        · rw [if_neg h2]
          simp only [reject_bind]
          exact ⟨by simp, fun v hv => absurd hv (reject_ne_ok _ _)⟩
      · rw [if_neg h1]
        simp only [reject_bind]
        exact ⟨by simp, fun v hv => absurd hv (reject_ne_ok _ _)⟩
    | proof a b c d =>
      simp only [wResO, hres, Nat.zero_add] at ho
      simp only [pure_bind]
      obtain ⟨i1, i2⟩ := ih (x.1, x.2) (fun r hr => hb r (List.mem_cons_of_mem _ hr)) ho
      exact ⟨i1, fun v hv => by rw [i2 v hv]; simp [wResO, hres]⟩
    | expiration =>
      simp only [wResO, hres, Nat.zero_add] at ho
      simp only [pure_bind]
      obtain ⟨i1, i2⟩ := ih (x.1, x.2) (fun r hr => hb r (List.mem_cons_of_mem _ hr)) ho
      exact ⟨i1, fun v hv => by rw [i2 v hv]; simp [wResO, hres]⟩

theorem scOuts_fold_spec (l : List (Id × ScOut)) (s : Cur) (h : s + (l.map (·.2.value)).sum < curLimit) :
    NoPanic (l.foldlM (fun (s : Cur) (o : Id × ScOut) => if o.2.value = 0 then reject "siacoin output has zero value" else addC s o.2.value) s) ∧
    ∀ v, l.foldlM (fun (s : Cur) (o : Id × ScOut) => if o.2.value = 0 then reject "siacoin output has zero value" else addC s o.2.value) s = .ok v →
      v = s + (l.map (·.2.value)).sum := by
  induction l generalizing s with
  | nil => exact ⟨by simp [pure, Except.pure], fun v hv => by simp at hv; subst hv; simp⟩
  | cons x l ih =>
    simp only [List.map_cons, List.sum_cons] at h
    rw [List.foldlM_cons]
    by_cases hz : x.2.value = 0
    · rw [if_pos hz]
      simp only [reject_bind]
      exact ⟨by simp, fun v hv => absurd hv (reject_ne_ok _ _)⟩
    · rw [if_neg hz, addC_eq_ok (by cur_omega : s + x.2.value < curLimit)]
      simp only [ok_bind]
      obtain ⟨i1, i2⟩ := ih (s + x.2.value) (by cur_omega)
      refine ⟨i1, fun v hv => ?_⟩
      rw [i2 v hv]; simp only [List.map_cons, List.sum_cons]; cur_omega

theorem inputs_fold_noPanic (l : List ScIn2) (s : Cur) :
    NoPanic (l.foldlM (fun (s : Cur) (sci : ScIn2) => if s + sci.parent.value < curLimit then pure (s + sci.parent.value) else reject "siacoin inputs overflow") s) :=
  foldlM_noPanic (fun s x => by split <;> simp) l s

/-- `c10_validate_no_panic`, v2 siacoins: after the overflow pre-check `validateV2Siacoins` never
panics, for any mid-state and transaction whatsoever (forged parents, legacy window included): the
per-input loop only rejects, the input side of the balance is checked addition, and every unchecked
addition on the output side is bounded by the pre-check. -/
theorem c10_v2_siacoins_no_panic (ms : Mid) (t : Txn2) (hov : validateV2CurrencyOverflow t = .ok ()) :
    NoPanic (validateV2Siacoins ms t) := by
  obtain ⟨hout, hfcs, hren⟩ := v2_output_bound hov
  rw [validateV2Siacoins_eq]
  refine bind_noPanic (foldlM_noPanic (scIn2Step_noPanic ms) _ _) (fun _ _ => ?_)
  unfold v2ScBalance
  refine bind_noPanic (inputs_fold_noPanic _ _) (fun i0 _ => ?_)
  obtain ⟨np0, v0⟩ := scOuts_fold_spec t.scOuts 0 (by cur_omega)
  refine bind_noPanic np0 (fun o0 ho0 => ?_)
  have e0 := v0 o0 ho0
  have hf := fcs_fold_spec t.fcs o0 hfcs (by rw [e0]; cur_omega)
  refine bind_noPanic (x := t.fcs.foldlM _ o0) (by rw [show t.fcs.foldlM _ o0 = _ from hf]; simp) (fun o1 ho1 => ?_)
  have e1 : o1 = o0 + (t.fcs.map wFc).sum := by
    have := hf.symm.trans ho1
    exact (Except.ok.inj this).symm
  obtain ⟨np2, v2⟩ := ress_fold_spec t.ress (i0, o1) hren (by simp only [e1, e0]; cur_omega)
  refine bind_noPanic np2 (fun io hio => ?_)
  have e2 := v2 io hio
  obtain ⟨i2, o2⟩ := io
  simp only [] at e2 ⊢
  rw [addC_eq_ok (by rw [e2, e1, e0]; cur_omega)]
  simp only [ok_bind]
  split <;> simp

/-- the whole v2 transaction validator up to and including the siafund validator never panics -/
theorem c10_v2_prefix_no_panic (ms : Mid) (t : Txn2) :
    NoPanic (validateV2CurrencyOverflow t) ∧
    (validateV2CurrencyOverflow t = .ok () → NoPanic (validateV2Siacoins ms t) ∧ NoPanic (validateV2Siafunds ms t)) :=
  ⟨validateV2CurrencyOverflow_noPanic t, fun h => ⟨c10_v2_siacoins_no_panic ms t h, validateV2Siafunds_noPanic ms t⟩⟩

/-- PARTIAL (`c10_validate_no_panic`, one v2 transaction): `validateV2Transaction` never panics
provided the parents of its revisions (as they currently stand) and resolutions have representable
totals.  Missing for the unconditional statement: that bound for genuine parents, i.e. a solvency
invariant of the ledger and of the block's diffs (value conservation, C01). -/
theorem c10_v2_transaction_no_panic_partial (ms : Mid) (t : Txn2) (mw : Nat)
    (hrev : ∀ r ∈ t.revs, (ms.curFc2 r.parent).renter.value + (ms.curFc2 r.parent).host.value < curLimit)
    (hres : ∀ r ∈ t.ress, r.parent.fc.renter.value + r.parent.fc.host.value < curLimit) :
    NoPanic (validateV2Transaction ms t mw) := by
  rw [validateV2Transaction_eq]; unfold v2TxnChecks
  split
  · simp
  refine bind_noPanic (validateV2CurrencyOverflow_noPanic t) (fun u hov => ?_)
  cases u
  refine bind_noPanic (validateV2TaxPool_noPanic ms t) (fun _ _ => ?_)
  split
  · simp
  split
  · simp
  refine bind_noPanic (c10_v2_siacoins_no_panic ms t hov) (fun _ _ => ?_)
  refine bind_noPanic (validateV2Siafunds_noPanic ms t) (fun _ _ => ?_)
  refine bind_noPanic (c10_v2_contracts_no_panic_partial ms t hov hrev hres) (fun _ _ => ?_)
  split
  · simp
  · exact validateFoundationUpdate_noPanic ms t

-- ================================================================= v1 siacoins: no panic after the overflow pre-check

theorem addC_fold_ok {α} (w : α → Cur) (l : List α) (s : Cur) (h : s + (l.map w).sum < curLimit) :
    l.foldlM (fun s x => addC s (w x)) s = .ok (s + (l.map w).sum) := by
  induction l generalizing s with
  | nil => simp [pure, Except.pure]
  | cons x l ih =>
    simp only [List.map_cons, List.sum_cons] at h
    rw [List.foldlM_cons, addC_eq_ok (by cur_omega : s + w x < curLimit)]
    simp only [ok_bind]
    rw [ih _ (by cur_omega)]
    simp only [List.map_cons, List.sum_cons]
    congr 1; cur_omega

theorem flatten_sum_ge {α} (xs : List α) (g : α → List Cur) (w : α → Nat) (hw : ∀ x ∈ xs, w x ≤ (g x).sum) :
    (xs.map w).sum ≤ (xs.map g).flatten.sum := by
  induction xs with
  | nil => simp
  | cons a xs ih =>
    have := ih (fun x hx => hw x (List.mem_cons_of_mem _ hx))
    have := hw a List.mem_cons_self
    simp only [List.map_cons, List.sum_cons, List.flatten_cons, List.sum_append]
    omega

/-- `c10_validate_no_panic`, v1 siacoins: after the overflow pre-check `validateSiacoins` never
panics — the input loop and the fee loop are checked additions, the output loops are bounded by the
pre-check. -/
theorem c10_v1_siacoins_no_panic (ms : Mid) (t : Txn1) (hov : validateCurrencyOverflow t = .ok ()) :
    NoPanic (validateSiacoins ms t) := by
  have htot : t.currencyValues.sum < curLimit := by
    unfold validateCurrencyOverflow at hov
    split at hov
    · exact absurd hov (reject_ne_ok _ _)
    · rename_i h
      cases hs : sumChecked t.currencyValues with
      | none => exact absurd (Or.inl (by rw [hs]; rfl)) h
      | some v => exact sumChecked_some hs
  have hb : (t.scOuts.map (·.2.value)).sum + (t.fcs.map (·.2.payout)).sum < curLimit := by
    have := flatten_sum_ge t.fcs (fun x => [x.2.payout] ++ x.2.valid.map (·.value) ++ x.2.missed.map (·.value))
      (fun x => x.2.payout) (fun x _ => by simp only [List.sum_append, List.sum_cons, List.sum_nil]; omega)
    unfold Txn1.currencyValues at htot
    simp only [List.sum_append] at htot
    have e1 : (t.fcs.map fun x => match x with | (_, fc) => [fc.payout] ++ fc.valid.map (·.value) ++ fc.missed.map (·.value)) =
        t.fcs.map (fun x => [x.2.payout] ++ x.2.valid.map (·.value) ++ x.2.missed.map (·.value)) := by
      apply List.map_congr_left; intro x _; rfl
    rw [e1] at htot
    cur_omega
  rw [validateSiacoins_eq]
  refine bind_noPanic (foldlM_noPanic (fun s x => ?_) _ _) (fun i0 _ => ?_)
  · unfold scIn1Step
    repeat' split
    all_goals simp
  · unfold v1ScBalance
    rw [addC_fold_ok (fun o : Id × ScOut => o.2.value) t.scOuts 0 (by cur_omega)]
    simp only [ok_bind, Nat.zero_add]
    rw [addC_fold_ok (fun f : Id × Fc1 => f.2.payout) t.fcs _ hb]
    simp only [ok_bind]
    refine bind_noPanic (foldlM_noPanic (fun s x => by split <;> simp) _ _) (fun _ _ => ?_)
    split <;> simp

end C10
