import SiaProofs.Props.C08
import SiaProofs.Lemmas.LedgerC06Genuine
/-!
# C10 (validation half) on the ledger model: where `validateBlock` can and cannot panic;
accepted blocks apply

`c10_validate_no_panic` in full generality is FALSE in the model (and, the model being a mirror, a
candidate defect of the code): see the two evaluated witnesses `c10_renewal_rollover_panics` and
`c10_v1_duplicate_input_panics`, both outside the legacy window and over solvent ledgers.  What is
proved instead:

* every check that does not add ledger values never panics (`c10_*_no_panic`, unconditional);
* `c10_accepted_applies`: a block accepted by `validateBlock` is applied by `applyBlock` without
  panic, given only that the Foundation subsidy of the height is computable;
* the formerly reachable legacy-window panic (forged claim start of an ephemeral siafund parent) is
  now a rejection (`c10_legacy_forged_claim_rejected`).
-/
namespace C10
open Sia.Ledger C08 C08.Ex

-- ================================================================= witnesses

def rn0 : Renewal :=
  { finalRenter := { value := 0, addr := 1 }, finalHost := { value := 0, addr := 2 }, renterRollover := curLimit - 1, hostRollover := 0, newContract := { c2.fc with renter := { value := 0, addr := 1 }, host := { value := 0, addr := 2 }, missedHost := 0, totalCollateral := 0 }, newId := 502, newSigOk := false, sigOk := false }
/-- one genuine 50-hasting input and a (never examined) renewal whose rollover is 2^128 − 1 -/
def tRollover : Txn2 :=
  { txn2 with scIns := [{ parent := e0, addrOk := true, authOk := true }], ress := [{ parent := c2, renterOutId := 601, hostOutId := 602, res := .renewal rn0 }] }

/-- WITNESS (outside the legacy window: child 15 ≥ ephemeralFix 12): the unchecked addition of a
renewal's rollover to the input sum in `validateV2Siacoins` panics; the overflow pre-check only
bounds the output side, and the renewal is examined only later by `validateV2FileContracts`. -/
theorem c10_renewal_rollover_panics :
    validateV2CurrencyOverflow tRollover = .ok () ∧
    validateV2Transaction (M 15) tRollover 100 = .error (.panic "overflow") := by decide

def eBig : ScElem := { id := 100, value := curLimit / 2, addr := 7, maturity := 0, leaf := some 2 }
def LBig : Ledger := { (default : Ledger) with P := P0, child := 15, sc := [eBig] }
def tDup : Txn1 :=
  { txn1 with scIns := [{ parent := 100, timelock := 0, ucAddr := 7 }, { parent := 100, timelock := 0, ucAddr := 7 }], supp := { (default : Supp1) with scIns := [eBig] } }

/-- WITNESS: a v1 transaction listing one parent twice panics in `validateSiacoins` (unchecked input
sum) before `validateSignatures` would reject the duplicate; the ledger holds a single element of
value 2^127 < 2^128. -/
theorem c10_v1_duplicate_input_panics :
    validateTransaction (newMid LBig) tDup 0 100 = .error (.panic "overflow") ∧
    validateSignatures tDup = .error (.reject "transaction spends or revises a parent more than once") := by
  decide

/-- a ledger inside the legacy window (child 15 < ephemeralFix 100) with one siafund element -/
def PLegacy : Params := { P0 with ephemeralFix := 100 }
def sf0 : SfElem := { id := 700, value := 10, addr := 7, claimStart := 0, leaf := some 1 }
def LLegacy : Ledger := { (default : Ledger) with P := PLegacy, child := 15, sf := [sf0] }
def tSfA : Txn2 := { txn2 with sfIns := [{ parent := sf0, claimAddr := 7, claimId := 702, addrOk := true, authOk := true }], sfOuts := [(701, 10, 8)] }
/-- spends the siafund output 701 created by `tSfA` in the same block, claiming a forged claim start -/
def tSfB : Txn2 := { txn2 with sfIns := [{ parent := { id := 701, value := 10, addr := 8, claimStart := 999, leaf := none }, claimAddr := 8, claimId := 703, addrOk := true, authOk := true }], sfOuts := [(704, 10, 9)] }

/-- the forged-claim-start transaction that used to panic `validateBlock` inside the legacy window
(`claimPortion`'s unchecked subtraction when the block applies it) is now rejected -/
theorem c10_legacy_forged_claim_rejected :
    (do validateV2Transaction (newMid LLegacy) tSfA 100
        let ms ← applyV2Transaction (newMid LLegacy) tSfA
        validateV2Transaction ms tSfB 100) =
      .error (.reject "claims invalid claim start for ephemeral output") := by decide

-- ================================================================= checks that never panic

theorem validateMinerPayouts_noPanic (L : Ledger) (b : Block) : NoPanic (validateMinerPayouts L b) := by
  unfold validateMinerPayouts
  simp only [reject_bind]
  repeat' split
  all_goals (try simp only [pure_bind])
  repeat' split
  all_goals (try simp only [pure_bind])
  repeat' split
  all_goals simp

theorem validateOrphan_noPanic (L : Ledger) (b : Block) : NoPanic (validateOrphan L b) := by
  unfold validateOrphan
  simp only [reject_bind]
  repeat' split
  all_goals first
    | (simp; done)
    | (refine bind_noPanic (validateMinerPayouts_noPanic L b) (fun _ _ => ?_)
       repeat' split
       all_goals simp)

theorem v2SfBalance_noPanic (t : Txn2) : NoPanic (v2SfBalance t) := by
  unfold v2SfBalance
  simp only []
  refine bind_noPanic (foldlM_noPanic (fun s x => ?_) _ _) (fun _ _ => ?_)
  · split <;> simp
  · split <;> simp

theorem validateV2Siafunds_noPanic (ms : Mid) (t : Txn2) : NoPanic (validateV2Siafunds ms t) := by
  rw [validateV2Siafunds_eq]
  exact bind_noPanic (foldlM_noPanic (sfIn2Step_noPanic ms) _ _) (fun _ _ => v2SfBalance_noPanic t)

theorem validateFoundationUpdate_noPanic (ms : Mid) (t : Txn2) : NoPanic (validateFoundationUpdate ms t) := by
  unfold validateFoundationUpdate
  split
  · simp
  · split <;> simp

theorem validateArbitraryData_noPanic (ms : Mid) (t : Txn1) : NoPanic (validateArbitraryData ms t) := by
  unfold validateArbitraryData
  split
  · simp
  · split
    · simp
    · simp
    · split
      · simp
      · split <;> simp

theorem validateSignatures_noPanic (t : Txn1) : NoPanic (validateSignatures t) := by
  unfold validateSignatures
  simp only []
  split
  · simp
  · split <;> simp

/-- The checks of the block validator that involve no unchecked arithmetic on ledger values never
panic, for any ledger, mid-state, block or transaction: the orphan checks (weight, miner payouts,
header), the supplement check, both currency-overflow pre-checks, minimum values, the whole v1 and
v2 siafund validators, the input loop of the v2 siacoin validator, arbitrary data, signatures'
duplicate detection, contract-formation and parent checks, the Foundation update. -/
theorem c10_checks_no_panic (L : Ledger) (b : Block) (ms : Mid) (t1 : Txn1) (t2 : Txn2) :
    NoPanic (validateOrphan L b) ∧ NoPanic (validateSupplement L b) ∧
    NoPanic (validateCurrencyOverflow t1) ∧ NoPanic (validateMinimumValues t1) ∧
    NoPanic (validateSiafunds ms t1) ∧ NoPanic (validateArbitraryData ms t1) ∧ NoPanic (validateSignatures t1) ∧
    NoPanic (validateV2CurrencyOverflow t2) ∧ NoPanic (t2.scIns.foldlM (scIn2Step ms) []) ∧
    NoPanic (validateV2Siafunds ms t2) ∧ NoPanic (validateFoundationUpdate ms t2) ∧
    (∀ fc sig, NoPanic (validateContract2 ms fc sig)) ∧ (∀ rv rs e, NoPanic (validateParent2 ms rv rs e)) :=
  ⟨validateOrphan_noPanic L b, validateSupplement_noPanic L b, validateCurrencyOverflow_noPanic t1,
    validateMinimumValues_noPanic t1, validateSiafunds_noPanic ms t1, validateArbitraryData_noPanic ms t1,
    validateSignatures_noPanic t1, validateV2CurrencyOverflow_noPanic t2,
    foldlM_noPanic (scIn2Step_noPanic ms) _ _, validateV2Siafunds_noPanic ms t2,
    validateFoundationUpdate_noPanic ms t2, fun fc sig => validateContract2_noPanic ms fc sig,
    fun rv rs e => validateParent2_noPanic ms rv rs e⟩

-- ================================================================= accepted blocks apply

theorem foldlM_total {α β} {f : β → α → VM β} (h : ∀ s x, ∃ s', f s x = .ok s') (l : List α) (s : β) :
    ∃ s', l.foldlM f s = .ok s' := by
  induction l generalizing s with
  | nil => exact ⟨s, rfl⟩
  | cons a l ih =>
    obtain ⟨s1, h1⟩ := h s a
    obtain ⟨s2, h2⟩ := ih s1
    exact ⟨s2, by rw [List.foldlM_cons, h1]; exact h2⟩

theorem a1Payout_total (l : List (ScOut × Id)) (s : Mid) : ∃ s', l.foldlM a1Payout s = .ok s' :=
  foldlM_total (fun _ _ => ⟨_, rfl⟩) l s

theorem mbExpire_total (s : Mid) (x : Fc1Elem × List Id) : ∃ s', mbExpire s x = .ok s' := by
  unfold mbExpire
  split
  · exact ⟨s, rfl⟩
  · exact a1Payout_total _ _

/-- A block accepted by `validateBlock` is applied by `applyBlock` without panic or error, provided
the Foundation subsidy of the height is computable (`foundationSubsidy L` does not panic: it divides
by `blocksPerYear / 12` and multiplies 30000 SC by `blocksPerYear`, which `validateBlock` never
evaluates).  `RevertBlock` performs the same computation (`C06.revertDiffs`). -/
theorem c10_accepted_applies (L : Ledger) (b : Block) (pid : Id) (ms0 : Mid)
    (hv : validateBlock L b pid = .ok ms0) (hsub : ∃ o, foundationSubsidy L = .ok o) :
    ∃ r, applyBlock L b = .ok r := by
  rw [validateBlock_eq] at hv
  obtain ⟨_, _, hv⟩ := bind_ok_iff.1 hv
  obtain ⟨_, hsupp, hv⟩ := bind_ok_iff.1 hv
  have hS := (validateSupplement_ok_iff L b).1 hsupp
  split at hv
  · exact absurd hv (reject_ne_ok _ _)
  obtain ⟨s0, h1, h2⟩ := bind_ok_iff.1 hv
  have a1 := foldlM_vb1_apply _ _ _ h1
  have a2 := foldlM_vb2_apply _ _ _ h2
  obtain ⟨s3, h3⟩ : ∃ s3, b.payouts.foldlM mbPayout ms0 = .ok s3 := foldlM_total (fun s x => ⟨_, rfl⟩) _ _
  have hb : s3.base = L := by
    rw [foldlM_base (fun s x s' hs => by simp [mbPayout] at hs; subst hs; simp) _ _ _ h3,
      foldlM_base (fun s x s' hs => applyV2Transaction_base hs) _ _ _ a2,
      foldlM_base (fun s x s' hs => applyTransaction_base hs) _ _ _ a1]
    rfl
  obtain ⟨o, ho⟩ := hsub
  unfold applyBlock
  rw [midApplyBlock_eq]
  have hera : ¬ ((newMid L).base.child ≥ (newMid L).base.P.v2Require ∧ (b.txns1.length ≠ 0 ∨ b.expiring.length ≠ 0)) := hS.era
  rw [if_neg hera]
  simp only [a1, a2, h3, hb, ho, ok_bind]
  cases o with
  | none =>
    obtain ⟨ms, hms⟩ := foldlM_total mbExpire_total b.expiring s3
    exact ⟨(ms.commit b.blockId, ms), by simp only [hms, ok_bind]; rfl⟩
  | some o =>
    obtain ⟨ms, hms⟩ := foldlM_total mbExpire_total b.expiring (s3.createImmatureSc b.foundationOutId o)
    exact ⟨(ms.commit b.blockId, ms), by simp only [hms, ok_bind]; rfl⟩

example : foundationSubsidy (L 15) = .ok none := by decide

-- ================================================================= v2 contracts: no panic given bounded parents (partial)

theorem sumChecked_fold (l : List Cur) (s v : Cur)
    (h : l.foldl (fun s v => match s with
      | some s => if s + v < curLimit then some (s + v) else none
      | none => none) (some s) = some v) : v = s + l.sum ∧ (l ≠ [] → s + l.sum < curLimit) := by
  induction l generalizing s with
  | nil => simp at h; exact ⟨by simp [h], fun h => absurd rfl h⟩
  | cons a l ih =>
    rw [List.foldl_cons] at h
    simp only [] at h
    by_cases hlt : s + a < curLimit
    · rw [if_pos hlt] at h
      obtain ⟨h1, h2⟩ := ih _ h
      refine ⟨by rw [h1, List.sum_cons]; cur_omega, fun _ => ?_⟩
      rw [List.sum_cons]
      by_cases hl : l = []
      · subst hl; simp; cur_omega
      · have := h2 hl; cur_omega
    · rw [if_neg hlt] at h
      exfalso
      clear ih hlt
      induction l with
      | nil => simp at h
      | cons b l ih2 => rw [List.foldl_cons] at h; exact ih2 h

theorem sumChecked_some {l : List Cur} {v : Cur} (h : sumChecked l = some v) : l.sum < curLimit := by
  unfold sumChecked at h
  by_cases hl : l = []
  · subst hl; decide
  · have := (sumChecked_fold l 0 v h).2 hl
    simpa using this

/-- the per-item lists of `validateV2CurrencyOverflow` (copied from the model) -/
def v2Contract (fc : Fc2) : Option (List Cur) :=
  if fc.renter.value + fc.host.value < curLimit then some (fc.values ++ [(fc.renter.value + fc.host.value) / 25]) else none
def v2ResPart (r : Resolution2) : Option (List Cur) :=
  match r.res with
  | .renewal rn => (v2Contract rn.newContract).map (· ++ [rn.finalRenter.value, rn.finalHost.value, rn.renterRollover, rn.hostRollover])
  | _ => some []
def v2Parts (t : Txn2) : List (Option (List Cur)) :=
  [some (t.scOuts.map (·.2.value))] ++ t.fcs.map (fun (_, fc, _) => v2Contract fc) ++ t.revs.map (fun r => v2Contract r.rev) ++
    t.ress.map v2ResPart ++ [some [t.fee]]

theorem validateV2CurrencyOverflow_ok {t : Txn2} (h : validateV2CurrencyOverflow t = .ok ()) :
    (∀ p ∈ v2Parts t, p ≠ none) ∧ ((v2Parts t).filterMap id).flatten.sum < curLimit := by
  have heq : validateV2CurrencyOverflow t =
      (if (v2Parts t).any (·.isNone) then reject "transaction outputs exceed inputs"
       else if (sumChecked ((v2Parts t).filterMap id).flatten).isNone ∨ t.sfOuts.any (fun (_, v, _) => v > 10000) then
         reject "transaction outputs exceed inputs"
       else pure ()) := by
    unfold validateV2CurrencyOverflow v2Parts v2ResPart v2Contract
    rfl
  rw [heq] at h
  split at h
  · exact absurd h (reject_ne_ok _ _)
  rename_i h1
  split at h
  · exact absurd h (reject_ne_ok _ _)
  rename_i h2
  constructor
  · intro p hp hn
    apply h1
    rw [List.any_eq_true]
    exact ⟨p, hp, by rw [hn]; rfl⟩
  · cases hs : sumChecked ((v2Parts t).filterMap id).flatten with
    | none => exact absurd (Or.inl (by rw [hs]; rfl)) h2
    | some v => exact sumChecked_some hs

theorem part_le_total {parts : List (Option (List Cur))} {l : List Cur} (h : some l ∈ parts) :
    l.sum ≤ (parts.filterMap id).flatten.sum := by
  induction parts with
  | nil => cases h
  | cons p ps ih =>
    rcases List.mem_cons.1 h with rfl | h'
    · simp
    · have := ih h'
      cases p with
      | none => simpa using this
      | some x => simp only [List.filterMap_cons, id, List.flatten_cons, List.sum_append]; cur_omega

theorem foldlM_noPanic_on {α β} {f : β → α → VM β} (l : List α) (h : ∀ s, ∀ x ∈ l, NoPanic (f s x)) (s : β) :
    NoPanic (l.foldlM f s) := by
  induction l generalizing s with
  | nil => simp [pure, Except.pure]
  | cons a l ih =>
    rw [List.foldlM_cons]
    exact bind_noPanic (h s a List.mem_cons_self) (fun s1 _ => ih (fun s x hx => h s x (List.mem_cons_of_mem _ hx)) s1)

theorem revision2Check_noPanic (child fix : Nat) (cur rev : Fc2) (sig : Bool)
    (h1 : cur.renter.value + cur.host.value < curLimit) (h2 : rev.renter.value + rev.host.value < curLimit) :
    NoPanic (revision2Check child fix cur rev sig) := by
  unfold revision2Check
  rw [addC_eq_ok h1, addC_eq_ok h2]
  simp only [ok_bind]
  repeat' split
  all_goals simp

theorem renewalCheck_noPanic (ms : Mid) (fc : Fc2) (rn : Renewal)
    (h1 : fc.renter.value + fc.host.value < curLimit)
    (h2 : rn.newContract.renter.value + rn.newContract.host.value < curLimit)
    (h3 : (rn.newContract.values ++ [(rn.newContract.renter.value + rn.newContract.host.value) / 25] ++
            [rn.finalRenter.value, rn.finalHost.value, rn.renterRollover, rn.hostRollover]).sum < curLimit) :
    NoPanic (renewalCheck ms fc rn) := by
  simp only [Fc2.values, List.sum_append, List.sum_cons, List.sum_nil] at h3
  unfold renewalCheck
  split
  · simp
  split
  · simp
  rw [addC_eq_ok (by cur_omega : rn.finalRenter.value + rn.renterRollover < curLimit)]
  simp only [ok_bind]
  rw [addC_eq_ok (by cur_omega : rn.finalRenter.value + rn.renterRollover + rn.finalHost.value < curLimit)]
  simp only [ok_bind]
  rw [addC_eq_ok (by cur_omega : rn.finalRenter.value + rn.renterRollover + rn.finalHost.value + rn.hostRollover < curLimit)]
  simp only [ok_bind]
  rw [addC_eq_ok h1]
  simp only [ok_bind]
  split
  · simp
  rw [addC_eq_ok h2]
  simp only [ok_bind]
  unfold v2Tax
  rw [addC_eq_ok h2]
  simp only [ok_bind, pure_bind]
  rw [addC_eq_ok (by cur_omega : rn.newContract.renter.value + rn.newContract.host.value +
    (rn.newContract.renter.value + rn.newContract.host.value) / 25 < curLimit)]
  simp only [ok_bind]
  rw [addC_eq_ok (by cur_omega : rn.renterRollover + rn.hostRollover < curLimit)]
  simp only [ok_bind]
  split
  · simp
  refine bind_noPanic (validateContract2_noPanic _ _ _) (fun _ _ => ?_)
  split <;> simp

/-- PARTIAL (`c10_validate_no_panic`, v2 contracts): after the overflow pre-check,
`validateV2FileContracts` does not panic provided the *parents'* totals are representable: for every
revision the contract as it currently stands, for every resolution the presented parent, has
`renter + host < 2^128`.
Missing for the unconditional statement: that bound for ledger members and in-block revisions — a
consequence of a solvency invariant of the ledger (Σ of all live values < 2^128, maintained by value
conservation, C01) together with the membership check, which runs *before* the sums for a presented
parent but is not available for a forged parent record: `validateParent2` rejects those first, so
the bound is only needed for genuine parents. -/
theorem c10_v2_contracts_no_panic_partial (ms : Mid) (t : Txn2) (hov : validateV2CurrencyOverflow t = .ok ())
    (hrev : ∀ r ∈ t.revs, (ms.curFc2 r.parent).renter.value + (ms.curFc2 r.parent).host.value < curLimit)
    (hres : ∀ r ∈ t.ress, r.parent.fc.renter.value + r.parent.fc.host.value < curLimit) :
    NoPanic (validateV2FileContracts ms t) := by
  obtain ⟨hsome, htot⟩ := validateV2CurrencyOverflow_ok hov
  rw [validateV2FileContracts_eq]
  refine bind_noPanic (forIn_step_noPanic _ (fun x => validateContract2_noPanic _ _ _) _) (fun _ _ => ?_)
  refine bind_noPanic (foldlM_noPanic_on _ (fun s r hr => ?_) _) (fun revised _ => ?_)
  · unfold rev2Step
    refine bind_noPanic (validateParent2_noPanic _ _ _ _) (fun _ _ => bind_noPanic ?_ (fun _ _ => by simp))
    unfold rev2Check
    split
    · simp
    rw [validateRevision2_eq]
    apply revision2Check_noPanic _ _ _ _ _ (hrev r hr)
    have hm : v2Contract r.rev ∈ v2Parts t := by
      unfold v2Parts
      simp only [List.mem_append, List.mem_map]
      exact Or.inl (Or.inl (Or.inr ⟨r, hr, rfl⟩))
    have := hsome _ hm
    unfold v2Contract at this
    split at this
    · assumption
    · exact absurd rfl this
  · refine bind_noPanic (foldlM_noPanic_on _ (fun s r hr => ?_) _) (fun _ _ => by simp)
    unfold res2Step
    refine bind_noPanic (validateParent2_noPanic _ _ _ _) (fun _ _ => bind_noPanic ?_ (fun _ _ => by simp))
    unfold res2Check
    simp only []
    cases hres' : r.res with
    | renewal rn =>
      simp only []
      have hm : v2ResPart r ∈ v2Parts t := by
        unfold v2Parts
        simp only [List.mem_append, List.mem_map]
        exact Or.inl (Or.inr ⟨r, hr, rfl⟩)
      have hne := hsome _ hm
      unfold v2ResPart at hm hne
      rw [hres'] at hm hne
      simp only [] at hm hne
      unfold v2Contract at hm hne
      by_cases hc : rn.newContract.renter.value + rn.newContract.host.value < curLimit
      · rw [if_pos hc] at hm
        simp only [Option.map_some] at hm
        have hle := part_le_total hm
        exact renewalCheck_noPanic ms _ rn (hres r hr) hc (by cur_omega)
      · rw [if_neg hc] at hne
        exact absurd rfl hne
    | proof ih iid a c =>
      simp only []
      repeat' split
      all_goals simp
    | expiration =>
      simp only []
      split <;> simp

end C10
