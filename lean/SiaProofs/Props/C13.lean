import SiaProofs.Lemmas.Pow
namespace C13
open Sia.Pow

/-! ## Clamps of the v2 eras -/

theorem c13_clamp_v2 (n : Network) (s : PowState) (ts : Int) (d : Nat)
    (h : adjustDifficultyV2 n s ts = .ok d) :
    s.difficulty - s.difficulty / 250 ≤ d ∧ d ≤ s.difficulty + s.difficulty / 250 := by
  unfold adjustDifficultyV2 at h
  simp only [bind_eq_ok, wdiv64_eq_ok, wmul64_eq_ok, wsub_eq_ok] at h
  obtain ⟨est, _, nd, _, ma, ⟨_, rfl⟩, mn, ⟨_, rfl⟩, h⟩ := h
  split at h
  · simp only [pure_eq_ok] at h; omega
  · simp only [bind_eq_ok, wadd_eq_ok] at h
    obtain ⟨mx, ⟨_, rfl⟩, h⟩ := h
    split at h <;> simp only [pure_eq_ok] at h <;> omega

theorem c13_clamp_finalcut (n : Network) (s : PowState) (ts : Int) (d : Nat)
    (h : adjustDifficultyFinalCut n s ts = .ok d) :
    s.difficulty - max (s.difficulty / 250) 1 ≤ d ∧ d ≤ s.difficulty + max (s.difficulty / 250) 1 ∧ 1 ≤ d := by
  unfold adjustDifficultyFinalCut at h
  simp only [bind_eq_ok, wdiv64_eq_ok, wmul64_eq_ok, wsub_eq_ok, wadd_eq_ok, pure_eq_ok] at h
  obtain ⟨a, _, hh, _, b, _, nd, _, q, ⟨_, rfl⟩, hi, ⟨_, rfl⟩, lo, ⟨hlo, rfl⟩, rfl⟩ := h
  simp only [wmax_eq, wmin_eq] at *
  omega


/-! ## Clamp of the Oak era -/

/-- After the Oak fork and before v2 (and except at the one scheduled reset at the ASIC
    height) the new target lies between `⌊T·1000/1004⌋` and `⌊T·1004/1000⌋` of the old
    target `T`, both passed through the code's 256-bit conversion `capT` (values of 2^255
    or more become 2^256-1; see `intToTarget`). -/
theorem c13_clamp_oak {n : Network} {s : PowState} {ts tt : Int} {r : Nat}
    (hoak : ¬ s.childHeight ≤ n.oakHeight) (hasic : s.childHeight ≠ n.asicHeight)
    (h : adjustTarget n s ts tt = .ok r) :
    capT (s.childTarget * 1000 / 1004) ≤ r ∧ r ≤ capT (s.childTarget * 1004 / 1000) := by
  unfold adjustTarget at h
  rw [if_neg hoak] at h
  simp only [bind_eq_ok] at h
  obtain ⟨nt, _, h⟩ := h
  rw [if_neg hasic] at h
  obtain ⟨lo, hi, h1, h2, h3⟩ := oakClamp_inv h
  have e1 := mulTargetFrac_nat s.childTarget 1000 1004 (by omega)
  have e2 := mulTargetFrac_nat s.childTarget 1004 1000 (by omega)
  have e1' : mulTargetFrac s.childTarget 1000 1004 = .ok (capT (s.childTarget * 1000 / 1004)) := e1
  have e2' : mulTargetFrac s.childTarget 1004 1000 = .ok (capT (s.childTarget * 1004 / 1000)) := e2
  rw [e1'] at h1; rw [e2'] at h2
  simp only [Except.ok.injEq] at h1 h2
  have hmono : capT (s.childTarget * 1000 / 1004) ≤ capT (s.childTarget * 1004 / 1000) :=
    capT_mono (by omega)
  omega

/-- The same in plain numbers when the target is below the 2^255 conversion threshold
    (difficulty above 2): at most 0.4% per block. -/
theorem c13_clamp_oak_plain {n : Network} {s : PowState} {ts tt : Int} {r : Nat}
    (hoak : ¬ s.childHeight ≤ n.oakHeight) (hasic : s.childHeight ≠ n.asicHeight)
    (hsmall : s.childTarget * 1004 / 1000 < W255)
    (h : adjustTarget n s ts tt = .ok r) :
    s.childTarget * 1000 / 1004 ≤ r ∧ r ≤ s.childTarget * 1004 / 1000 := by
  have h2 : s.childTarget * 1000 / 1004 < W255 := by
    have : s.childTarget * 1000 / 1004 ≤ s.childTarget * 1004 / 1000 := by omega
    exact Nat.lt_of_le_of_lt this hsmall
  have := c13_clamp_oak hoak hasic h
  rw [capT_small hsmall, capT_small h2] at this
  exact this

/-! ## State invariant and per-step margin -/

/-- `Index.Height` of the genesis state (`^uint64(0)`) -/
scoped notation "GEN" => (18446744073709551615 : Nat)

/-- The invariant of PoW states reachable from `GenesisState` (preserved by every
    successful `applyHeader`, see `c13_apply_header_total`):
    field ranges; `Difficulty ≥ 1`; only the genesis state carries the zero ID
    (a hash assumption: no block ID is all zeroes); the target in force is non-zero;
    before v2 the work fields are the floored inverses of the target fields. -/
def PowInv (n : Network) (s : PowState) : Prop :=
  s.height < W64 ∧ s.prevTimestamps.length = 11 ∧
  s.depth < W256 ∧ s.childTarget < W256 ∧ s.oakTarget < W256 ∧
  s.totalWork < W256 ∧ s.difficulty < W256 ∧ s.oakWork < W256 ∧
  -9223372036854775808 ≤ s.oakTime ∧ s.oakTime < 9223372036854775808 ∧
  1 ≤ s.difficulty ∧
  (s.id = 0 ↔ s.height = GEN) ∧
  ((s.height = GEN ∨ s.height < n.v2FinalCutHeight) → s.childTarget ≠ 0) ∧
  (s.childHeight < n.v2AllowHeight →
     s.depth ≠ 0 ∧ s.oakTarget ≠ 0 ∧ s.difficulty = MAXT / s.childTarget ∧ s.totalWork = MAXT / s.depth)

/-! ## Never zero -/

/-- After any successful `applyHeader` from a state satisfying the invariant, the
    recorded difficulty is at least 1 and the PoW target of the next block exists and is
    non-zero. -/
theorem c13_never_zero {n : Network} {s s' : PowState} {h : Header} {tt : Int}
    (hwf : n.WF) (hinv : PowInv n s) (hpar : h.parentID = s.id)
    (hlen : s.height ≠ 18446744073709551614)
    (hok : applyHeader n s h tt = .ok s') :
    1 ≤ s'.difficulty ∧ s'.difficulty < W256 ∧ ∃ t, powTarget n s' = .ok t ∧ t ≠ 0 := by
  obtain ⟨hh, hlen, hdp, hct, hot, htw, hd, how, _, _, hd1, hid, hctnz, hpre⟩ := hinv
  obtain ⟨_, _, _, _, _, _, _, _, _, _, hAF, hF⟩ := hwf
  by_cases hp : h.parentID = 0
  · obtain ⟨ow, ot, h3, _, hD, _, _, hH, _, _, hz⟩ := applyHeader_inv_genesis hp hok
    have hgen : s.height = GEN := hid.1 (by omega)
    refine ⟨by omega, by omega, ?_⟩
    unfold powTarget PowState.childHeight
    rw [hH]
    split
    · rename_i hlt
      have : ¬ (0 ≥ n.v2FinalCutHeight) := by omega
      rw [if_neg this] at hz
      exact ⟨_, rfl, by rw [hz.2.1]; exact hctnz (Or.inl hgen)⟩
    · exact ⟨MAXT / s'.difficulty, by rw [invTarget_eq_ok]; exact ⟨by omega, rfl⟩,
        div_pos_of_lt (by omega) (by omega)⟩
  · obtain ⟨tw, dp, d, ct, ow, ot, h1, h2, h3, _, hD, _, _, hH, _, _, hz⟩ := applyHeader_inv hp hok
    have hne : s.height ≠ GEN := fun e => hp (by rw [hpar]; exact hid.2 e)
    have hch : s.childHeight = s.height + 1 := by unfold PowState.childHeight; omega
    obtain ⟨a1, a2, a3⟩ := adjustDifficulty_inv h2
    have hdfacts : 1 ≤ d ∧ d < W256 ∧ (s.childHeight < n.v2FinalCutHeight → ct ≠ 0) := by
      by_cases e1 : s.childHeight < n.v2AllowHeight
      · obtain ⟨_, c0, rfl⟩ := a1 e1
        have : 1 ≤ MAXT / ct := (Nat.le_div_iff_mul_le (Nat.pos_of_ne_zero c0)).2 (by
          have := intToTarget_lt 0
          have hctlt : ct < W256 := by
            have := adjustTarget_lt (by omega) (a1 e1).1
            omega
          omega)
        exact ⟨this, by have := Nat.div_le_self MAXT ct; omega, fun _ => c0⟩
      · by_cases e2 : s.childHeight < n.v2FinalCutHeight
        · obtain ⟨b1, b2, rfl⟩ := a2 (by omega) e2
          have := adjustDifficultyV2_lt hd b1
          exact ⟨by omega, this, fun _ => div_pos_of_lt b2 this⟩
        · obtain ⟨b1, b2, rfl⟩ := a3 (by omega) (by omega)
          have := adjustDifficultyFinalCut_lt hd b1
          exact ⟨by omega, this, fun h => by omega⟩
    refine ⟨by omega, by omega, ?_⟩
    unfold powTarget PowState.childHeight
    rw [hH]
    split
    · rename_i hlt
      have hnf : ¬ ((s.height + 1) % 18446744073709551616 ≥ n.v2FinalCutHeight) := by omega
      rw [if_neg hnf] at hz
      refine ⟨_, rfl, ?_⟩
      rw [hz.2.1]
      apply hdfacts.2.2
      omega
    · exact ⟨MAXT / s'.difficulty, by rw [invTarget_eq_ok]; exact ⟨by omega, rfl⟩,
        div_pos_of_lt (by omega) (by omega)⟩


/-! ## Cumulative work -/

/-- Cumulative work never decreases, and strictly increases once v2 rules are active. -/
theorem c13_totalwork_monotone {n : Network} {s s' : PowState} {h : Header} {tt : Int}
    (hinv : PowInv n s) (hok : applyHeader n s h tt = .ok s') :
    s.totalWork ≤ s'.totalWork ∧
    (h.parentID ≠ 0 → n.v2AllowHeight ≤ s.childHeight → s.totalWork < s'.totalWork) := by
  obtain ⟨hh, hlen, hdp, hct, hot, htw, hd, how, _, _, hd1, hid, hctnz, hpre⟩ := hinv
  by_cases hp : h.parentID = 0
  · obtain ⟨ow, ot, h3, hT, _⟩ := applyHeader_inv_genesis hp hok
    exact ⟨by omega, fun c => absurd hp c⟩
  · obtain ⟨tw, dp, d, ct, ow, ot, h1, h2, h3, hT, _⟩ := applyHeader_inv hp hok
    obtain ⟨a1, a2⟩ := updateTotalWork_inv hdp hct h1
    by_cases e1 : s.childHeight < n.v2AllowHeight
    · obtain ⟨c0, c1, c2, rfl⟩ := a1 e1
      obtain ⟨_, _, _, hw⟩ := hpre e1
      refine ⟨?_, fun _ c => by omega⟩
      rw [hT, hw]
      exact Nat.div_le_div_left c1 (Nat.pos_of_ne_zero c0)
    · obtain ⟨rfl, _, _, _⟩ := a2 (by omega)
      exact ⟨by omega, fun _ _ => by omega⟩

/-! ## Target and difficulty are each other's floored inverse -/

/-- After a non-genesis header: before v2 the recorded difficulty is
    `⌊(2^256-1)/ChildTarget⌋` and total work is `⌊(2^256-1)/Depth⌋`; from the v2 allow height
    on, the PoW target of the next block is `⌊(2^256-1)/Difficulty⌋` (recorded in `ChildTarget`
    as long as that field is kept, i.e. below the final-cut height), and `PoWTarget` is the
    era's field. -/
theorem c13_target_difficulty_inverse {n : Network} {s s' : PowState} {h : Header} {tt : Int}
    (hwf : n.WF) (hinv : PowInv n s) (hpar : h.parentID = s.id) (hp : h.parentID ≠ 0)
    (hlen : s.height ≠ 18446744073709551614)
    (hok : applyHeader n s h tt = .ok s') :
    (s.childHeight < n.v2AllowHeight →
        s'.childTarget ≠ 0 ∧ s'.difficulty = MAXT / s'.childTarget ∧
        s'.depth ≠ 0 ∧ s'.totalWork = MAXT / s'.depth ∧
        s'.oakTarget ≠ 0 ∧ s'.oakWork = MAXT / s'.oakTarget ∧
        (s'.childHeight < n.v2FinalCutHeight → powTarget n s' = .ok s'.childTarget)) ∧
    (n.v2AllowHeight ≤ s.childHeight →
        powTarget n s' = .ok (MAXT / s'.difficulty) ∧
        (s'.height < n.v2FinalCutHeight →
          s'.childTarget = MAXT / s'.difficulty ∧ s'.depth = MAXT / s'.totalWork ∧
          s'.oakTarget = MAXT / s'.oakWork)) := by
  have hnz := (c13_never_zero hwf hinv hpar hlen hok).1
  obtain ⟨hh, -, hdp, hct, -, -, -, -, -, -, -, hid, -, -⟩ := hinv
  obtain ⟨-, -, -, -, -, -, -, -, -, -, hAF, hF⟩ := hwf
  obtain ⟨tw, dp, d, ct, ow, ot, h1, h2, h3, hT, hD, hO, -, hH, -, -, hz⟩ := applyHeader_inv hp hok
  have hne : s.height ≠ GEN := fun e => hp (by rw [hpar]; exact hid.2 e)
  have hch : s.childHeight = s.height + 1 := by unfold PowState.childHeight; omega
  obtain ⟨a1, a2, a3⟩ := adjustDifficulty_inv h2
  obtain ⟨b1, b2⟩ := updateTotalWork_inv hdp hct h1
  obtain ⟨c1, c2⟩ := updateOakWork_inv h3
  constructor
  · intro e1
    have hnf : ¬ ((s.height + 1) % 18446744073709551616 ≥ n.v2FinalCutHeight) := by omega
    rw [if_neg hnf] at hz
    obtain ⟨z1, z2, z3⟩ := hz
    obtain ⟨_, x0, x1⟩ := a1 e1
    obtain ⟨y0, _, _, y1⟩ := b1 e1
    obtain ⟨w0, w1⟩ := c1 e1
    refine ⟨by omega, by rw [hD, z2]; exact x1, by omega, by rw [hT, z1]; exact y1, by omega,
      by rw [hO, z3]; exact w1, fun hl => powTarget_of_lt hl⟩
  · intro e2
    have hd0 : s'.difficulty ≠ 0 := by omega
    constructor
    · by_cases hl : s'.childHeight < n.v2FinalCutHeight
      · rw [powTarget_of_lt hl]
        have hnf : ¬ ((s.height + 1) % 18446744073709551616 ≥ n.v2FinalCutHeight) := by
          unfold PowState.childHeight at hl; omega
        rw [if_neg hnf] at hz
        obtain ⟨_, x0, x1⟩ := a2 e2 (by omega)
        rw [hz.2.1, hD, x1]
      · exact powTarget_of_ge hl hd0
    · intro hlt
      have hnf : ¬ ((s.height + 1) % 18446744073709551616 ≥ n.v2FinalCutHeight) := by omega
      rw [if_neg hnf] at hz
      obtain ⟨z1, z2, z3⟩ := hz
      obtain ⟨_, x0, x1⟩ := a2 e2 (by omega)
      obtain ⟨_, _, _, y1⟩ := b2 e2
      refine ⟨by rw [z2, hD, x1], by rw [z1, hT, y1], by rw [z3, hO]; exact c2 e2⟩

/-! ## `SufficientlyHeavierThan` is asymmetric -/

theorem c13_heavier_asymmetric (s t : PowState) :
    ¬ (sufficientlyHeavierThan s t = .ok true ∧ sufficientlyHeavierThan t s = .ok true) := by
  intro ⟨h1, h2⟩
  unfold sufficientlyHeavierThan at h1 h2
  simp only [bind_eq_ok, wdiv64_eq_ok, wadd_eq_ok, pure_eq_ok, decide_eq_true_eq] at h1 h2
  obtain ⟨q1, ⟨_, rfl⟩, x1, ⟨_, rfl⟩, h1⟩ := h1
  obtain ⟨q2, ⟨_, rfl⟩, x2, ⟨_, rfl⟩, h2⟩ := h2
  omega

/-- … and it means exactly "more than 20% of the lighter state's difficulty heavier". -/
theorem c13_heavier_iff (s t : PowState) (hm : t.totalWork + t.difficulty / 5 < W256) :
    sufficientlyHeavierThan s t = .ok (decide (s.totalWork > t.totalWork + t.difficulty / 5)) := by
  unfold sufficientlyHeavierThan wdiv64 wadd
  simp [hm, bind, Except.bind, pure, Except.pure]

/-! ## Header validation and the median timestamp -/

/-- `ValidateHeader` accepts exactly when the header extends the tip, is not older than the
    median timestamp, has a nonce divisible by the era's factor, and its ID is at most the
    PoW target. (It cannot panic when a median exists, i.e. on any non-genesis state, the
    nonce factor is non-zero — `NetworkWF` — and the target exists — `c13_never_zero`.) -/
theorem c13_validate_header_iff {n : Network} {s : PowState} {h : Header} {m : Int} {t : Nat}
    (hm : medianTimestamp s = .ok m) (hnf : nonceFactor n s ≠ 0) (ht : powTarget n s = .ok t) :
    (∃ r, validateHeader n s h = .ok r) ∧
    (validateHeader n s h = .ok none ↔
      h.parentID = s.id ∧ m ≤ h.timestamp * SECOND ∧ h.nonce % nonceFactor n s = 0 ∧ h.id ≤ t) := by
  unfold validateHeader
  by_cases h1 : h.parentID ≠ s.id
  · rw [if_pos h1]
    exact ⟨⟨_, rfl⟩, by simp; intro e; exact absurd e h1⟩
  · have h1' : h.parentID = s.id := by simpa using h1
    rw [if_neg h1, hm]
    simp only [bind, Except.bind, ht, pure, Except.pure, if_neg hnf]
    by_cases h2 : h.timestamp * SECOND < m
    · rw [if_pos h2]
      exact ⟨⟨_, rfl⟩, by simp; intro _ c; omega⟩
    · rw [if_neg h2]
      by_cases h3 : h.nonce % nonceFactor n s ≠ 0
      · rw [if_pos h3]
        exact ⟨⟨_, rfl⟩, by simp; intro _ _ c; exact absurd c h3⟩
      · rw [if_neg h3]
        by_cases h4 : t < h.id
        · rw [if_pos h4]
          exact ⟨⟨_, rfl⟩, by simp; intro _ _ _; omega⟩
        · rw [if_neg h4]
          exact ⟨⟨_, rfl⟩, by simp; exact ⟨h1', by omega, by simpa using h3, by omega⟩⟩

/-- The nonce factor is non-zero on a well-formed network. -/
theorem nonceFactor_ne_zero {n : Network} (hwf : n.WF) (s : PowState) : nonceFactor n s ≠ 0 := by
  unfold nonceFactor
  have := hwf.2.2.2.2.2.2.2.1
  split <;> omega

/-- `medianTimestamp` is the median, in the usual sense, of the newest `min(11, childHeight)`
    timestamps: there is a sorted permutation `l` of those timestamps such that the result
    is the middle element (odd count), or the lower-middle element plus half the
    (saturating) difference of the two middle elements (even count). All in nanoseconds. -/
theorem c13_median {s : PowState} (hk : 0 < s.numTimestamps) (hlen : s.numTimestamps ≤ s.prevTimestamps.length) :
    ∃ l : List Int, l.Perm (s.prevTimestamps.take s.numTimestamps) ∧ l.Pairwise (· ≤ ·) ∧
      l.length = s.numTimestamps ∧
      medianTimestamp s = .ok
        (if l.length % 2 ≠ 0 then l.getD (l.length / 2) 0 * SECOND
         else l.getD (l.length / 2 - 1) 0 * SECOND +
              Int.tdiv (timeSub (l.getD (l.length / 2) 0) (l.getD (l.length / 2 - 1) 0)) 2) := by
  refine ⟨(s.prevTimestamps.take s.numTimestamps).mergeSort (fun a b => decide (a ≤ b)),
    List.mergeSort_perm _ _, ?_, ?_, ?_⟩
  · have := List.pairwise_mergeSort (le := fun (a b : Int) => decide (a ≤ b))
      (by intro a b c; simp; omega) (by intro a b; simp; omega) (s.prevTimestamps.take s.numTimestamps)
    simpa using this
  · rw [List.length_mergeSort, List.length_take]; omega
  · have hl : ((s.prevTimestamps.take s.numTimestamps).mergeSort (fun a b => decide (a ≤ b))).length ≠ 0 := by
      rw [List.length_mergeSort, List.length_take]; omega
    unfold medianTimestamp
    dsimp only
    repeat' split
    all_goals first | rfl | (exfalso; exact hl ‹_›)


end C13
