import SiaProofs.Props.C10Decode
import SiaModel.Codec.Alloc
/-!
# C10 (decode half) — slice ELEMENT slots are bounded by the bytes really present

`c10_decode_alloc_bounded` bounds all slots by `depth·|input| + depth·slack`; the slack term
is real for `[]byte` (`ReadBytes` does `make([]byte, n)` for any `n ≤ d.lr.N`) but it also
lets through a decoder that pre-sizes SLICES from the claimed element count. The
refinement (`SiaModel/Codec/Alloc.lean`) meters element slots separately, charged when
requested, for both growth disciplines:

* `c10_decode_elems_bounded` — under `append` growth (what `DecodeSlice` / `DecodeSliceFn`
  do: `tie_slice_growth`), element slots ≤ `depth · |input|`, whatever the slack.
* `c10_presize_unbounded` — under `presize` growth an 8-byte input on a stream with slack
  `k` requests `k` slots: no bound in the input length alone exists.

The harness asserts the first (times the element size and `append`'s amortisation
factor): `allocated ≤ A + B·|supplied|`.
-/
namespace C10D
open Sia.Codec

/-- what the element meter of the external codecs must satisfy (the analogue of
`CodecOK.alloc_ok/alloc_err`, without slack) -/
structure ElemsOK (E : Env) (X : String → Nat → Bytes → Nat) : Prop where
  ok : ∀ n k bs v rest, (E.ext n).dec false k bs = .ok (v, rest) →
      X n k bs + (E.ext n).depth * rest.length ≤ (E.ext n).depth * bs.length
  err : ∀ n k bs, X n k bs ≤ (E.ext n).depth * bs.length

theorem elemsRep_bounds {f : Bytes → DecRes} {g : Bytes → Nat} {d one : Nat} (h1 : one ≤ 1)
    (hok : ∀ bs v r, f bs = .ok (v, r) → ∃ cs, bs = cs ++ r ∧ 1 ≤ cs.length ∧ g bs ≤ d * cs.length)
    (herr : ∀ bs, g bs ≤ d * bs.length) (n : Nat) (bs : Bytes) :
    elemsRep f g one n bs ≤ (d + 1) * bs.length ∧
    (∀ vs rest, decRep f n bs = .ok (vs, rest) →
      ∃ cs, bs = cs ++ rest ∧ elemsRep f g one n bs ≤ (d + 1) * cs.length) := by
  induction n generalizing bs with
  | zero =>
    refine ⟨by simp [elemsRep], ?_⟩
    intro vs rest h
    simp only [decRep] at h
    injection h with h; injection h with e1 e2; subst e2
    exact ⟨[], rfl, by simp [elemsRep]⟩
  | succ n ih =>
    simp only [elemsRep, decRep]
    cases hf : f bs with
    | error e =>
      simp only []
      constructor
      · have := herr bs
        have h2 : d * bs.length ≤ (d + 1) * bs.length := Nat.mul_le_mul_right _ (by omega)
        omega
      · intro vs rest h; cases h
    | ok p =>
      obtain ⟨v, bs1⟩ := p
      simp only []
      obtain ⟨c1, hb1, hl1, hg1⟩ := hok _ _ _ hf
      obtain ⟨ihA, ihB⟩ := ih bs1
      constructor
      · have e1 : bs.length = c1.length + bs1.length := by rw [hb1]; simp
        rw [e1]
        have : (d + 1) * (c1.length + bs1.length) = d * c1.length + c1.length + (d + 1) * bs1.length := by
          rw [Nat.mul_add, Nat.add_mul, Nat.one_mul]
        omega
      · intro vs rest h
        cases h2 : decRep f n bs1 with
        | error e => rw [h2] at h; cases h
        | ok q =>
          obtain ⟨vs', bs2⟩ := q
          rw [h2] at h
          injection h with h; injection h with e1 e2; subst e2
          obtain ⟨c2, hb2, ha2⟩ := ihB _ _ h2
          refine ⟨c1 ++ c2, by rw [hb1, hb2]; simp, ?_⟩
          have : (d + 1) * (c1 ++ c2).length = d * c1.length + c1.length + (d + 1) * c2.length := by
            rw [List.length_append, Nat.mul_add, Nat.add_mul, Nat.one_mul]
          omega

/-- the list-level step shared by `slice` and `aslice` -/
theorem elems_list_step {E : Env} {X : String → Nat → Bytes → Nat} {k : Nat} {s : Sch} {bs r1 : Bytes} {n : Nat}
    (hb : bs = u64le n ++ r1)
    (hok : ∀ bs v r, decG E false k s bs = .ok (v, r) →
        ∃ cs, bs = cs ++ r ∧ 1 ≤ cs.length ∧ elemsOf .append E X k s bs ≤ s.depth E * cs.length)
    (herr : ∀ bs, elemsOf .append E X k s bs ≤ s.depth E * bs.length) :
    elemsRep (decG E false k s) (elemsOf .append E X k s) 1 n r1 ≤ (s.depth E + 1) * bs.length ∧
    (∀ v rest, okList (decRep (decG E false k s) n r1) = .ok (v, rest) →
      ∃ cs, bs = cs ++ rest ∧ 8 ≤ cs.length ∧
        elemsRep (decG E false k s) (elemsOf .append E X k s) 1 n r1 ≤ (s.depth E + 1) * cs.length) := by
  have e1 : bs.length = 8 + r1.length := by rw [hb]; simp [u64le_length]
  obtain ⟨rA, rB⟩ := elemsRep_bounds (one := 1) (Nat.le_refl 1) hok herr n r1
  constructor
  · have : (s.depth E + 1) * r1.length ≤ (s.depth E + 1) * bs.length :=
      Nat.mul_le_mul_left _ (by omega)
    omega
  · intro v rest h
    simp only [okList] at h
    cases h2 : decRep (decG E false k s) n r1 with
    | error e => rw [h2] at h; cases h
    | ok q =>
      obtain ⟨vs, r2⟩ := q
      rw [h2] at h
      injection h with h; injection h with e1 e2; subst e2
      obtain ⟨cs, hcs, ha⟩ := rB _ _ h2
      refine ⟨u64le n ++ cs, by rw [hb, hcs]; simp, by simp [u64le_length], ?_⟩
      have : (s.depth E + 1) * cs.length ≤ (s.depth E + 1) * (u64le n ++ cs).length :=
        Nat.mul_le_mul_left _ (by simp)
      omega

/-- element slots under `append` growth: bounded by `depth × consumed` on success and by
`depth × input` whatever the outcome — no slack term -/
theorem elems_bounds {E : Env} {X : String → Nat → Bytes → Nat} (hE : EnvOK E) (hX : ElemsOK E X)
    (k : Nat) (s : Sch) (hwf : s.wf E = true) (hg : s.guarded E = true) (bs : Bytes) :
    elemsOf .append E X k s bs ≤ s.depth E * bs.length ∧
    (∀ v rest, dec E k s bs = .ok (v, rest) →
      ∃ cs, bs = cs ++ rest ∧ s.minLen E ≤ cs.length ∧ elemsOf .append E X k s bs ≤ s.depth E * cs.length) := by
  induction s generalizing bs with
  | atom a =>
    have ok := atom_ok E.lim a
    refine ⟨by simp [elemsOf], ?_⟩
    intro v rest h
    obtain ⟨_, cs, hb, hm⟩ := ok.dec_sound false k bs v rest h
    exact ⟨cs, hb, hm, by simp [elemsOf]⟩
  | nil =>
    refine ⟨by simp [elemsOf], ?_⟩
    intro v rest h
    simp only [dec, decG] at h
    injection h with h; injection h with e1 e2; subst e2
    exact ⟨[], rfl, by simp [Sch.minLen], by simp [elemsOf]⟩
  | cons l s r ihs ihr =>
    simp only [Sch.wf, Bool.and_eq_true] at hwf
    simp only [Sch.guarded, Bool.and_eq_true] at hg
    obtain ⟨sA, sB⟩ := ihs hwf.1 hg.1 bs
    have hd1 : s.depth E ≤ max (s.depth E) (r.depth E) := Nat.le_max_left _ _
    have hd2 : r.depth E ≤ max (s.depth E) (r.depth E) := Nat.le_max_right _ _
    simp only [elemsOf, Sch.depth, dec, decG]
    cases h1 : decG E false k s bs with
    | error e =>
      simp only []
      constructor
      · have m1 := Nat.mul_le_mul_right bs.length hd1
        omega
      · intro v rest h; cases h
    | ok p =>
      obtain ⟨a, bs1⟩ := p
      simp only []
      obtain ⟨c1, hb1, hm1, ha1⟩ := sB _ _ h1
      obtain ⟨rA, rB⟩ := ihr hwf.2 hg.2 bs1
      have e1 : bs.length = c1.length + bs1.length := by rw [hb1]; simp
      have m1 := Nat.mul_le_mul_right c1.length hd1
      constructor
      · have m2 := Nat.mul_le_mul_right bs1.length hd2
        rw [e1, Nat.mul_add]
        omega
      · intro v rest h
        cases h2 : decG E false k r bs1 with
        | error e => rw [h2] at h; cases h
        | ok q =>
          obtain ⟨b, bs2⟩ := q
          rw [h2] at h
          injection h with h; injection h with e1 e2; subst e2
          obtain ⟨c2, hb2, hm2, ha2⟩ := rB _ _ h2
          have m2 := Nat.mul_le_mul_right c2.length hd2
          refine ⟨c1 ++ c2, by rw [hb1, hb2]; simp, by simp [Sch.minLen]; omega, ?_⟩
          rw [List.length_append, Nat.mul_add]; omega
  | slice s ih =>
    simp only [Sch.wf, Bool.and_eq_true, decide_eq_true_eq] at hwf
    simp only [Sch.guarded] at hg
    have hok : ∀ bs v r, decG E false k s bs = .ok (v, r) →
        ∃ cs, bs = cs ++ r ∧ 1 ≤ cs.length ∧ elemsOf .append E X k s bs ≤ s.depth E * cs.length := by
      intro bs v r h
      obtain ⟨cs, hb, hm, ha⟩ := (ih hwf.1 hg bs).2 v r h
      exact ⟨cs, hb, by omega, ha⟩
    have herr : ∀ bs, elemsOf .append E X k s bs ≤ s.depth E * bs.length := fun bs => (ih hwf.1 hg bs).1
    simp only [elemsOf, Sch.depth, dec, decG, Growth.claim, Growth.perElem, Nat.zero_add]
    cases h1 : readU64 bs with
    | error e =>
      simp only []
      refine ⟨by omega, ?_⟩
      intro v rest h; cases h
    | ok p =>
      obtain ⟨n, r1⟩ := p
      simp only []
      obtain ⟨hb, hn⟩ := readU64_ok h1
      by_cases hlt : r1.length + k < n
      · simp only [if_pos hlt]
        refine ⟨by omega, ?_⟩
        intro v rest h; cases h
      · simp only [if_neg hlt]
        obtain ⟨lA, lB⟩ := elems_list_step (X := X) hb hok herr
        refine ⟨lA, ?_⟩
        intro v rest h
        obtain ⟨cs, hcs, h8, ha⟩ := lB v rest h
        exact ⟨cs, hcs, by simp [Sch.minLen]; omega, ha⟩
  | opt s ih =>
    simp only [Sch.wf] at hwf
    simp only [Sch.guarded] at hg
    simp only [elemsOf, Sch.depth, dec, decG]
    cases h1 : takeN 1 bs with
    | error e =>
      simp only []
      refine ⟨by omega, ?_⟩
      intro v rest h; cases h
    | ok p =>
      obtain ⟨a, r1⟩ := p
      simp only []
      obtain ⟨hb, hl⟩ := takeN_ok h1
      have e1 : bs.length = 1 + r1.length := by rw [hb]; simp [hl]
      obtain ⟨sA, sB⟩ := ih hwf hg r1
      by_cases h0 : leVal a = 0
      · have hne : ¬ leVal a = 1 := by omega
        simp only [if_pos h0, if_neg hne]
        refine ⟨by omega, ?_⟩
        intro v rest h
        injection h with h; injection h with e1 e2; subst e2
        exact ⟨a, hb, by simp [Sch.minLen]; omega, by omega⟩
      · by_cases h1' : leVal a = 1
        · simp only [if_neg h0, if_pos h1']
          constructor
          · have : s.depth E * r1.length ≤ s.depth E * bs.length := Nat.mul_le_mul_left _ (by omega)
            omega
          · intro v rest h
            cases h2 : decG E false k s r1 with
            | error e => rw [h2] at h; cases h
            | ok q =>
              obtain ⟨w, r2⟩ := q
              rw [h2] at h
              injection h with h; injection h with e1 e2; subst e2
              obtain ⟨cs, hcs, _, ha⟩ := sB _ _ h2
              refine ⟨a ++ cs, by rw [hb, hcs]; simp, by simp [Sch.minLen]; omega, ?_⟩
              have : s.depth E * cs.length ≤ s.depth E * (a ++ cs).length := Nat.mul_le_mul_left _ (by simp)
              omega
        · simp only [if_neg h0, if_neg h1']
          refine ⟨by omega, ?_⟩
          intro v rest h; cases h
  | uslice s _ => simp [Sch.guarded] at hg
  | aslice s ih =>
    simp only [Sch.wf, Bool.and_eq_true, decide_eq_true_eq] at hwf
    simp only [Sch.guarded] at hg
    have hok : ∀ bs v r, decG E false k s bs = .ok (v, r) →
        ∃ cs, bs = cs ++ r ∧ 1 ≤ cs.length ∧ elemsOf .append E X k s bs ≤ s.depth E * cs.length := by
      intro bs v r h
      obtain ⟨cs, hb, hm, ha⟩ := (ih hwf.1 hg bs).2 v r h
      exact ⟨cs, hb, by omega, ha⟩
    have herr : ∀ bs, elemsOf .append E X k s bs ≤ s.depth E * bs.length := fun bs => (ih hwf.1 hg bs).1
    simp only [elemsOf, Sch.depth, dec, decG]
    cases h1 : readU64 bs with
    | error e =>
      simp only []
      refine ⟨by omega, ?_⟩
      intro v rest h; cases h
    | ok p =>
      obtain ⟨n, r1⟩ := p
      simp only []
      obtain ⟨hb, hn⟩ := readU64_ok h1
      obtain ⟨lA, lB⟩ := elems_list_step (X := X) hb hok herr
      refine ⟨lA, ?_⟩
      intro v rest h
      obtain ⟨cs, hcs, h8, ha⟩ := lB v rest h
      exact ⟨cs, hcs, by simp [Sch.minLen]; omega, ha⟩
  | ext n =>
    have ok := hE n
    refine ⟨hX.err n k bs, ?_⟩
    intro v rest h
    obtain ⟨_, cs, hb, hm⟩ := ok.dec_sound false k bs v rest h
    have := hX.ok n k bs v rest h
    refine ⟨cs, hb, hm, ?_⟩
    simp only [elemsOf, Sch.depth]
    rw [hb, List.length_append, Nat.mul_add] at this
    rw [hb]; omega

/-- **c10_decode_elems_bounded**: with `DecodeSlice`'s append growth, the slice-element
slots requested while decoding are at most `depth s · |input|` — whatever the outcome and
whatever the reader still allows (`slack`): a short message cannot make a stream decoder
reserve elements for bytes that never arrive. This is the bound the harness asserts
(`c10-decode-alloc`): bytes = slots × element size × append amortisation. -/
theorem c10_decode_elems_bounded {E : Env} {X : String → Nat → Bytes → Nat} (hE : EnvOK E)
    (hX : ElemsOK E X) (k : Nat) (s : Sch) (hwf : s.wf E = true) (hg : s.guarded E = true)
    (bs : Bytes) : elemsOf .append E X k s bs ≤ s.depth E * bs.length :=
  (elems_bounds hE hX k s hwf hg bs).1

/-- the meter is compositional: a schema used as an external codec satisfies `ElemsOK`'s
clauses again -/
theorem elems_ofSch_ok {E : Env} {X : String → Nat → Bytes → Nat} (hE : EnvOK E) (hX : ElemsOK E X)
    (s : Sch) (hwf : s.wf E = true) (hg : s.guarded E = true) (k : Nat) (bs : Bytes) :
    elemsOf .append E X k s bs ≤ (Codec.ofSch E s).depth * bs.length ∧
    ∀ v rest, (Codec.ofSch E s).dec false k bs = .ok (v, rest) →
      elemsOf .append E X k s bs + (Codec.ofSch E s).depth * rest.length ≤ (Codec.ofSch E s).depth * bs.length := by
  refine ⟨(elems_bounds hE hX k s hwf hg bs).1, ?_⟩
  intro v rest h
  obtain ⟨cs, hb, _, ha⟩ := (elems_bounds hE hX k s hwf hg bs).2 v rest h
  have hl : bs.length = cs.length + rest.length := by rw [hb]; simp
  simp only [Codec.ofSch]
  rw [hl, Nat.mul_add]
  omega

/-- external codecs that decode no slices: the zero meter -/
theorem elems_zero_ok {E : Env} (hE : EnvOK E) : ElemsOK E (fun _ _ _ => 0) := by
  constructor
  · intro n k bs v rest h
    obtain ⟨_, cs, hb, _⟩ := (hE n).dec_sound false k bs v rest h
    have : rest.length ≤ bs.length := by rw [hb]; simp
    have := Nat.mul_le_mul_left ((E.ext n).depth) this
    omega
  · intro n k bs; exact Nat.zero_le _

/-! ### pre-sizing is not bounded by the input -/

/-- `[]uint64`-like slice on a stream: the 8-byte message "k elements follow" -/
def presizeInput (k : Nat) : Bytes := u64le k

/-- **c10_presize_unbounded**: under `presize` growth the 8-byte input `presizeInput k` on
a decoder whose reader still allows `k` more bytes (slack `k`) passes the guard
(`n ≤ d.lr.N`) and requests `k` element slots; under `append` growth it requests none.
So `c10_decode_elems_bounded` fails for `presize`: it is the statement that separates
the two disciplines (`c10_decode_alloc_bounded`, with its `depth · slack` term, does not). -/
theorem c10_presize_unbounded (k : Nat) (hk : k < W64) :
    elemsOf .presize Env.default (fun _ _ _ => 0) k (.slice (.atom .u64)) (presizeInput k) = k ∧
    elemsOf .append Env.default (fun _ _ _ => 0) k (.slice (.atom .u64)) (presizeInput k) = 0 ∧
    (presizeInput k).length = 8 := by
  have hr : readU64 (presizeInput k) = .ok (k, []) := by
    have := readU64_append hk []
    simpa [presizeInput] using this
  refine ⟨?_, ?_, by simp [presizeInput, u64le_length]⟩
  · simp only [elemsOf, hr, Growth.claim, Growth.perElem]
    rw [if_neg (by simp)]
    cases k with
    | zero => simp [elemsRep]
    | succ n => simp [elemsRep, decG, Atom.codec, okNat, readU64, takeN]
  · simp only [elemsOf, hr, Growth.claim, Growth.perElem]
    rw [if_neg (by simp)]
    cases k with
    | zero => simp [elemsRep]
    | succ n => simp [elemsRep, decG, Atom.codec, okNat, readU64, takeN]

/-- on a buffer decoder (slack 0) the guard alone caps a pre-sized slice at one slot per
remaining byte — times the element size in memory, which is what the harness measures
(`[]Transaction`: 240 bytes per claimed byte) -/
example : elemsOf .presize Env.default (fun _ _ _ => 0) 0 (.slice (.atom .u64))
    (u64le 3 ++ [255, 255, 255]) = 3 := by decide

/-! ### tie: how the Go helpers size their result -/

/-- `DecodeSlice` / `DecodeSliceFn` start from a nil slice and `append` each decoded
element (`Growth.append`; `DecodeSliceCast` delegates); `ReadBytes` allocates the claimed
count at once (the `bytes` atom: `allocPrefixed`, slack term of
`c10_decode_alloc_bounded`). A pre-sizing (`make([]T, n)`, `slices.Grow(.., n)`) appears in
this list. -/
theorem tie_slice_growth : Gen.sliceGrowth = [
    ("Decoder.ReadBytes", ["make([]byte, n)"]),
    ("DecodeSlice", ["var items []T", "append(items, v)"]),
    ("DecodeSliceFn", ["var items []T", "append(items, v)"]),
    ("DecodeSliceCast", ["DecodeSlice[V, VF](d, (*[]V)(unsafe.Pointer(s)))"])] := rfl

end C10D
