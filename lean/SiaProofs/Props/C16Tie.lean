import SiaProofs.Lemmas.MerkleRhpTie
/-!
# C16 — ties: the integer helpers as generated from rhp/v2/merkle.go equal the hand models

`Gen.Rhp2.nextSubtreeSize` and `Gen.Rhp2.RangeProofSize` are regenerated from the Go source on
every run (uint64 arithmetic written out with explicit `% 2^64`, `math/bits` through
`Go.bits_*`). The hand models `Sia.Rhp.nextSubtreeSize` / `Sia.Rhp.rangeProofSize` are what
the theorems of `Props/C16.lean` speak about; these ties make those theorems statements about
the code that exists now.
-/
set_option linter.unusedVariables false
namespace C16
open Sia.Rhp

/-- Go `nextSubtreeSize(start, end)` for `start < end < 2^64` -/
theorem tie_nextSubtreeSize (i j : Nat) (hij : i < j) (hj : j < 18446744073709551616) :
    Gen.Rhp2.nextSubtreeSize i j = nextSubtreeSize i j := by
  have hd : j - i ≠ 0 := by omega
  have hlt : j - i < 2 ^ 64 := by omega
  have hlog : (j - i).log2 < 64 := (Nat.log2_lt hd).2 hlt
  have hle := Nat.log2_self_le hd
  have e1 : (j + 18446744073709551616 - i) % 18446744073709551616 = j - i := by omega
  unfold Gen.Rhp2.nextSubtreeSize nextSubtreeSize
  simp only [e1, Go.bits_Len64, hd, if_false, Go.bits_TrailingZeros64, Int.ofNat_eq_natCast]
  generalize hk : (j - i).log2 = k at *
  have e2 : ((↑(k + 1) : Int) - 1).toNat = k := by omega
  by_cases h0 : i = 0
  · subst h0
    simp only [if_true, true_or]
    have : (64 : Int) > (↑(k + 1) : Int) - 1 := by omega
    simp only [this, decide_true, if_true, Nat.one_shiftLeft, e2]
    exact Nat.mod_eq_of_lt (by omega)
  · have htz : Go.trailingZerosAux 64 i = tz i := trailingZerosAux_eq 64 i (by omega) (by omega)
    simp only [h0, if_false, false_or, htz]
    by_cases h1 : tz i > k
    · have : (↑(tz i) : Int) > (↑(k + 1) : Int) - 1 := by omega
      simp only [this, decide_true, if_true, h1, Nat.one_shiftLeft, e2]
      exact Nat.mod_eq_of_lt (by omega)
    · have : ¬ ((↑(tz i) : Int) > (↑(k + 1) : Int) - 1) := by omega
      simp only [this, decide_false, h1, if_false, Nat.one_shiftLeft, Int.toNat_natCast]
      have : 2 ^ tz i ≤ 2 ^ k := Nat.pow_le_pow_right (by omega) (by omega)
      exact Nat.mod_eq_of_lt (by omega)

/-- Go `RangeProofSize(n, start, end)` for `start < end ≤ n < 2^64` -/
theorem tie_rangeProofSize (n s e : Nat) (hse : s < e) (hen : e ≤ n) (hn : n < 18446744073709551616) :
    Gen.Rhp2.RangeProofSize n s e = rangeProofSize n s e := by
  have e1 : (e + 18446744073709551616 - 1) % 18446744073709551616 = e - 1 := by omega
  have e2 : (n + 18446744073709551616 - 1) % 18446744073709551616 = n - 1 := by omega
  have hx : e - 1 < 2 ^ 64 := by omega
  have hm : n - 1 < 2 ^ 64 := by omega
  have hL : bitLen ((e - 1) ^^^ (n - 1)) ≤ 64 := bitLen_le (xor_lt hx hm)
  have hLd : bitLen ((e - 1) ^^^ (n - 1)) = diffLen (e - 1) (n - 1) := bitLen_xor _ _ _ rfl
  unfold Gen.Rhp2.RangeProofSize rangeProofSize
  simp only [e1, e2, bits_Len64_eq, Int.toNat_natCast, Nat.one_shiftLeft, hLd, Go.bits_OnesCount64,
    Int.ofNat_eq_natCast]
  rw [hLd] at hL
  generalize diffLen (e - 1) (n - 1) = L at hL
  -- the path mask is 2^L - 1
  have hmask : (2 ^ L % 18446744073709551616 + 18446744073709551616 - 1) % 18446744073709551616 = 2 ^ L - 1 := by
    by_cases h64 : L = 64
    · subst h64; decide
    · have h2 : 2 ^ L < 18446744073709551616 := by
        have := Nat.pow_lt_pow_right (a := 2) (by omega) (show L < 64 by omega)
        simpa using this
      have hp := Nat.two_pow_pos L
      rw [Nat.mod_eq_of_lt h2]
      omega
  rw [hmask]
  have hand : (18446744073709551616 - 1 - (e - 1) &&& 2 ^ L - 1) < 2 ^ 64 :=
    Nat.lt_of_le_of_lt Nat.and_le_left (by omega)
  rw [popAux_eq 64 s (by omega), popAux_eq 64 _ hand]
  have hz := popcount_andNot_mask L 64 (e - 1) hL hx
  have e3 : (2:Nat) ^ 64 - 1 - (e - 1) = 18446744073709551616 - 1 - (e - 1) := by simp
  rw [e3] at hz
  rw [hz]
  -- the sum is far below 2^64
  have b1 : popcount s ≤ 64 := by
    rw [← popAux_eq 64 s (by omega)]
    exact popAux_le 64 s
  have b2 : zerosBelow (e - 1) L ≤ L := zerosBelow_le (e - 1) L
  generalize popcount s = p at *
  generalize zerosBelow (e - 1) L = q at *
  omega


/-! ## structural facts extracted from rhp/v2/merkle.go (`extract/facts_rhp.go`) -/

/-- `verifyMulti` (inside `VerifyDiffProof`) requires its accumulator to end with exactly
`numLeaves` leaves — the check added by fix 9e80790. The model reads this flag from the code;
the soundness theorems `c16_diff_old_sound` / `c16_diff_sound` need it to be `true`, so reverting
the fix breaks this tie (and makes the harness keys `c16-accepts-corrupt:free:freed-index` /
`…:diff:swap-index` fire again). -/
theorem tie_verifyMulti_checks_leaf_count :
    Gen.FactsRhp.verifyMultiChecksLeafCount = true ∧ codeChecksLeafCount = true := ⟨rfl, rfl⟩

/-- the verdict of `verifyMulti` is exactly the three conjuncts the model has -/
theorem tie_verifyMulti_verdict :
    Gen.FactsRhp.verifyMultiVerdict = ["acc.root() == root", "len(treeHashes) == 0", "acc.numLeaves == numLeaves"] ∧
    Gen.FactsRhp.verifyDiffProofPasses = 2 := ⟨rfl, rfl⟩

/-- both range verifiers compare the proof length with `RangeProofSize` before anything else
(`c16_range_length_fixed`, `c16_leaf_range_length_fixed`) -/
theorem tie_range_length_checks :
    Gen.FactsRhp.verifySectorRangeProofChecksLength = true ∧
    Gen.FactsRhp.rangeProofVerifierChecksLength = true := ⟨rfl, rfl⟩

/-- the bounds up to which builder and verifier walk right of the range, and the constants -/
theorem tie_rhp_constants :
    Gen.FactsRhp.buildRangeRightBound = maxInt32 ∧
    Gen.FactsRhp.verifyRangeRightBound = maxUint64 ∧
    Gen.FactsRhp.leavesPerSector = leavesPerSector ∧
    Gen.FactsRhp.leafSize = 64 ∧
    Gen.FactsRhp.sectorSize = Gen.FactsRhp.leafSize * Gen.FactsRhp.leavesPerSector ∧
    Gen.FactsRhp.leavesPerSector = 2 ^ 16 ∧
    Gen.FactsRhp.leafHashPrefix = 0 ∧ Gen.FactsRhp.nodeHashPrefix = 1 := by
  refine ⟨rfl, rfl, rfl, rfl, by decide, by decide, rfl, rfl⟩

end C16
