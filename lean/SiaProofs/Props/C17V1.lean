import SiaModel.Rhp.V1Payout
/-!
# C17, v1 era — `taxAdjustedPayout` inverts the consensus tax

`Sia.Rhp.V1.taxAdjustedPayout` is the hand model of the (identical) Go functions in
rhp/v2/contracts.go and rhp/v3/contracts.go (they use a function literal, which the
translator rejects); it is tied to the code by the correspondence op `rhp4c v1payout`.
-/
namespace C17
open Sia.Rhp.V1

theorem tax_of_payout (t k : Nat) (h1 : 9610000 * k ≤ 39 * t) (h2 : 39 * t < 9610000 * k + 9610000) :
    tax (t + 10000 * k) = 10000 * k := by
  unfold tax siafundCount
  simp only []
  have e : (t + 10000 * k) * 39 / 1000 / 10000 = k := by
    rw [Nat.div_div_eq_div_mul]
    apply Nat.div_eq_of_lt_le <;> omega
  have := Nat.div_add_mod ((t + 10000 * k) * 39 / 1000) 10000
  omega

theorem guess_eq (t : Nat) : t * 1000 / 961 = t + 39 * t / 961 := by
  have : t * 1000 = 39 * t + t * 961 := by omega
  rw [this, Nat.add_mul_div_right _ _ (by decide : 0 < 961)]
  omega

/--
**Tax inversion.** For every target `t` with `1000·t < 2^128` (beyond that `Mul64` panics
by design) `taxAdjustedPayout t` returns a payout `p` with `p = t + tax p`, where
`tax p = ⌊39p/1000⌋` rounded down to a multiple of 10000 — exactly the equation
`validateFileContracts` demands of a v1 contract's payout.  (Explicitly:
`p = t + 10000·⌊39t/9610000⌋`.)
-/
theorem c17_tax_adjusted_payout (t : Nat) (h : t * 1000 < 340282366920938463463374607431768211456) :
    ∃ p, taxAdjustedPayout t = some p ∧ p = t + tax p ∧ p = t + 10000 * (39 * t / 9610000) := by
  obtain ⟨k, hk0⟩ : ∃ k, k = 39 * t / 9610000 := ⟨_, rfl⟩
  have hk : 39 * t / 961 / 10000 = k := by rw [Nat.div_div_eq_div_mul, hk0]
  have h1 : 9610000 * k ≤ 39 * t := by rw [hk0]; exact Nat.mul_div_le _ _
  have h2 : 39 * t < 9610000 * k + 9610000 := by
    have := Nat.lt_mul_div_succ (39 * t) (by decide : 0 < 9610000)
    rw [hk0]; omega
  have hr := Nat.div_add_mod (39 * t / 961) 10000
  rw [hk] at hr
  have hrlt : 39 * t / 961 % 10000 < 10000 := Nat.mod_lt _ (by decide)
  have he : 961 * (39 * t / 961) ≤ 39 * t := Nat.mul_div_le _ _
  refine ⟨t + 10000 * k, ?_, (by rw [tax_of_payout t k h1 h2]), by rw [hk0]⟩
  clear hk0
  unfold taxAdjustedPayout siafundCount
  simp only []
  rw [guess_eq]
  generalize 39 * t / 961 = e at *
  generalize e % 10000 = r at *
  subst hr
  clear h1 h2
  split
  · omega
  · split
    · split
      · omega
      · split
        · omega
        · congr 1; omega
    · split
      · omega
      · congr 1; omega

/-- the panic boundary is exact: beyond it the (modelled) code panics -/
theorem c17_tax_adjusted_payout_overflow (t : Nat) (h : 340282366920938463463374607431768211456 ≤ t * 1000) :
    taxAdjustedPayout t = none := by
  unfold taxAdjustedPayout
  simp [h]

example : taxAdjustedPayout 87654321 = some 91204321 ∧ 91204321 = 87654321 + tax 91204321 := by decide

end C17
