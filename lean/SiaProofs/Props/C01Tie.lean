import SiaModel.Ledger.Model
import SiaModel.Gen.CodeConsensus
import SiaProofs.Props.C15
import SiaProofs.Props.C15QuoRem
import SiaModel.Gen.FactsLedger
/-!
# C01 ties: the ledger model's arithmetic helpers = the code, by translation

`SiaModel/Gen/CodeConsensus.lean` is regenerated from `consensus/state.go` on every run
(T-code roots in `extract/roots_ledger.go`). Each `tie_*` below states that the hand-written
helper of `SiaModel/Ledger/Model.lean` equals the generated definition under the abstraction

* `types.Currency` ↔ `Nat` via `C15.val`, for well-formed limbs (`C15.WF`);
* `State`/`Network` fields ↔ `Ledger`/`Params` fields (stated as hypotheses of each theorem);
* a Go panic (`Except.error _` in the generated code) ↔ `.error (.panic _)` in the model.

`State.FileContractTax` uses `math/big` and a `float64` constant and cannot be translated;
`tie_fileContractTax_spec` instead pins the model's formula to the exact binary value of
`float64(0.039)`.
-/
namespace C01
open Sia.Ledger Gen.Types C15

/-- generated currency result vs model result -/
def Agrees (g : Except String Currency) (m : VM Cur) : Prop :=
  match g, m with
  | .ok c, .ok v => WF c ∧ val c = v
  | .error _, .error (.panic _) => True
  | _, _ => False

theorem hastings_val : WF HastingsPerSiacoin ∧ val HastingsPerSiacoin = 1000000000000000000000000 := by
  unfold WF val HastingsPerSiacoin NewCurrency
  decide

/-- `types.Siacoins(n)` for a uint32-sized `n` never panics and is the model's `siacoins n` -/
theorem siacoins_ok (n : Nat) (hn : n < 4294967296) :
    ∃ c, Gen.Types.Siacoins n = .ok c ∧ WF c ∧ val c = siacoins n := by
  obtain ⟨hw, hv⟩ := hastings_val
  have hlt : val HastingsPerSiacoin * n < W2 := by rw [hv]; omega
  obtain ⟨s, e, ws, vs⟩ := (c15_mul64_panics_iff HastingsPerSiacoin n hw (by omega)).1 hlt
  refine ⟨s, ?_, ws, ?_⟩
  · unfold Gen.Types.Siacoins; rw [e]
  · rw [vs, hv]; rfl

/-! ## `State.BlockReward` -/

/-- **`tie_blockReward`**: the generated `BlockReward` never panics and returns the model's
    `blockReward`. -/
theorem tie_blockReward (s : Gen.Consensus.State) (L : Ledger)
    (hi : WF s.Network.InitialCoinbase) (hm : WF s.Network.MinimumCoinbase)
    (hc : L.child = Gen.Consensus.State.childHeight s)
    (h1 : L.P.initialCoinbase = val s.Network.InitialCoinbase)
    (h2 : L.P.minimumCoinbase = val s.Network.MinimumCoinbase) :
    ∃ c, Gen.Consensus.State.BlockReward s = .ok c ∧ WF c ∧ val c = blockReward L := by
  obtain ⟨sub, e, wsub, vsub⟩ := siacoins_ok (Gen.Consensus.State.childHeight s % 4294967296) (Nat.mod_lt _ (by omega))
  obtain ⟨w1, v1, u1⟩ := c15_sub s.Network.InitialCoinbase sub hi wsub
  have hil := val_lt hi
  have hsl := val_lt wsub
  unfold Gen.Consensus.State.BlockReward blockReward
  rw [e]
  simp only [bind, Except.bind, pure, Except.pure]
  rw [h1, h2, hc, ← vsub]
  by_cases hu : val s.Network.InitialCoinbase < val sub
  · have : (s.Network.InitialCoinbase.SubWithUnderflow sub).2 = true := u1.2 hu
    simp only [this, Bool.true_or, if_true, hu]
    exact ⟨_, rfl, hm, rfl⟩
  · have hf : (s.Network.InitialCoinbase.SubWithUnderflow sub).2 = false := by
      cases hb : (s.Network.InitialCoinbase.SubWithUnderflow sub).2
      · rfl
      · exact absurd (u1.1 hb) hu
    have hv : val (s.Network.InitialCoinbase.SubWithUnderflow sub).1 = val s.Network.InitialCoinbase - val sub := by
      rw [v1]; omega
    obtain ⟨c1, _, _⟩ := c15_cmp (s.Network.InitialCoinbase.SubWithUnderflow sub).1 s.Network.MinimumCoinbase w1 hm
    simp only [hf, Bool.false_or, hu, if_false]
    by_cases hlt : val s.Network.InitialCoinbase - val sub < val s.Network.MinimumCoinbase
    · have hcm : (s.Network.InitialCoinbase.SubWithUnderflow sub).1.Cmp s.Network.MinimumCoinbase = -1 :=
        c1.2 (by rw [hv]; exact hlt)
      simp only [hcm, hlt, if_true]
      exact ⟨_, by simp, hm, rfl⟩
    · have hcm : ¬ ((s.Network.InitialCoinbase.SubWithUnderflow sub).1.Cmp s.Network.MinimumCoinbase < 0) := by
        intro hneg
        have hcases : (s.Network.InitialCoinbase.SubWithUnderflow sub).1.Cmp s.Network.MinimumCoinbase = -1 := by
          unfold Currency.Cmp at hneg ⊢
          split at hneg
          · omega
          · split at hneg
            · rename_i h1 h2; simp [h1, h2]
            · omega
        exact hlt (by rw [← hv]; exact c1.1 hcases)
      simp only [hcm, decide_false, hlt, if_false]
      exact ⟨_, by simp, w1, hv⟩

/-! ## `State.MaturityHeight`, `State.SiafundCount` -/

/-- **`tie_maturityHeight`** (the uint64 addition does not wrap for heights below 2^63) -/
theorem tie_maturityHeight (s : Gen.Consensus.State) (L : Ledger)
    (hc : L.child = Gen.Consensus.State.childHeight s) (hd : L.P.maturityDelay = s.Network.MaturityDelay)
    (hno : L.child + L.P.maturityDelay < 18446744073709551616) :
    Gen.Consensus.State.MaturityHeight s = maturityHeight L := by
  unfold Gen.Consensus.State.MaturityHeight maturityHeight
  rw [← hc, ← hd]
  exact Nat.mod_eq_of_lt hno

theorem tie_siafundCount (s : Gen.Consensus.State) : Gen.Consensus.State.SiafundCount s = siafundCount := rfl

/-! ## checked currency operations: generated vs model -/

theorem agrees_add (a b : Currency) (ha : WF a) (hb : WF b) : Agrees (a.Add b) (addC (val a) (val b)) := by
  obtain ⟨h1, h2⟩ := c15_add_panics_iff a b ha hb
  unfold addC
  by_cases h : val a + val b < W2
  · obtain ⟨s, e, ws, vs⟩ := h1 h
    have : val a + val b < curLimit := h
    rw [e, if_pos this]
    exact ⟨ws, vs⟩
  · obtain ⟨m, e⟩ := h2 (by omega)
    have : ¬ val a + val b < curLimit := h
    rw [e, if_neg this]
    exact trivial

theorem agrees_sub (a b : Currency) (ha : WF a) (hb : WF b) : Agrees (a.Sub b) (subC (val a) (val b)) := by
  obtain ⟨h1, h2⟩ := c15_sub_panics_iff a b ha hb
  unfold subC
  by_cases h : val b ≤ val a
  · obtain ⟨s, e, ws, vs⟩ := h1 h
    rw [e, if_pos h]; exact ⟨ws, vs⟩
  · obtain ⟨m, e⟩ := h2 (by omega)
    rw [e, if_neg h]; exact trivial

theorem agrees_mul64 (a : Currency) (n : Nat) (ha : WF a) (hn : n < W) : Agrees (a.Mul64 n) (mul64C (val a) n) := by
  obtain ⟨h1, h2⟩ := c15_mul64_panics_iff a n ha hn
  unfold mul64C
  by_cases h : val a * n < W2
  · obtain ⟨s, e, ws, vs⟩ := h1 h
    have : val a * n < curLimit := h
    rw [e, if_pos this]; exact ⟨ws, vs⟩
  · obtain ⟨m, e⟩ := h2 (by omega)
    have : ¬ val a * n < curLimit := h
    rw [e, if_neg this]; exact trivial

/-! ## `State.V2FileContractTax` -/

/-- **`tie_v2Tax`**: `fc.RenterOutput.Value.Add(fc.HostOutput.Value).Div64(25)`, panicking on the
    unchecked `Add` exactly when the model does. -/
theorem tie_v2Tax (cs : Gen.Consensus.State) (fc : V2FileContract) (m : Fc2)
    (hr : WF fc.RenterOutput.Value) (hh : WF fc.HostOutput.Value)
    (e1 : m.renter.value = val fc.RenterOutput.Value) (e2 : m.host.value = val fc.HostOutput.Value) :
    Agrees (Gen.Consensus.State.V2FileContractTax cs fc) (v2Tax m) := by
  have ha := agrees_add fc.RenterOutput.Value fc.HostOutput.Value hr hh
  unfold Gen.Consensus.State.V2FileContractTax v2Tax
  rw [e1, e2]
  cases hg : fc.RenterOutput.Value.Add fc.HostOutput.Value with
  | error msg =>
    rw [hg] at ha
    cases hm : addC (val fc.RenterOutput.Value) (val fc.HostOutput.Value) with
    | ok v => rw [hm] at ha; exact ha.elim
    | error f =>
      rw [hm] at ha
      cases f with
      | reject _ => exact ha.elim
      | panic _ => exact trivial
  | ok s =>
    rw [hg] at ha
    cases hm : addC (val fc.RenterOutput.Value) (val fc.HostOutput.Value) with
    | error f => rw [hm] at ha; exact ha.elim
    | ok v =>
      rw [hm] at ha
      obtain ⟨ws, vs⟩ := ha
      obtain ⟨q, eq, wq, vq⟩ := c15_div64 s 25 ws (by decide) (by decide)
      simp only [bind, Except.bind, eq, pure, Except.pure]
      exact ⟨wq, by rw [vq, vs]⟩

/-! ## the siafund claim -/

/-- the claim expression of `ApplyTransaction` / `ApplyV2Transaction`
    (`ms.siafundTaxRevenue.Sub(claimStart).Div64(ms.base.SiafundCount()).Mul64(value)`), assembled
    from the generated `Currency.Sub`, `Currency.Div64`, `State.SiafundCount`, `Currency.Mul64` -/
def genClaimPortion (s : Gen.Consensus.State) (pool claimStart : Currency) (value : Nat) : Except String Currency := do
  let d ← pool.Sub claimStart
  let q ← d.Div64 (Gen.Consensus.State.SiafundCount s)
  q.Mul64 value

/-- **`tie_claimPortion`** -/
theorem tie_claimPortion (s : Gen.Consensus.State) (pool claimStart : Currency) (value : Nat)
    (hp : WF pool) (hs : WF claimStart) (hv : value < W) :
    Agrees (genClaimPortion s pool claimStart value) (claimPortion (val pool) (val claimStart) value) := by
  have ha := agrees_sub pool claimStart hp hs
  unfold genClaimPortion claimPortion
  cases hg : pool.Sub claimStart with
  | error msg =>
    rw [hg] at ha
    cases hm : subC (val pool) (val claimStart) with
    | ok v => rw [hm] at ha; exact ha.elim
    | error f =>
      rw [hm] at ha
      cases f with
      | reject _ => exact ha.elim
      | panic _ => exact trivial
  | ok d =>
    rw [hg] at ha
    cases hm : subC (val pool) (val claimStart) with
    | error f => rw [hm] at ha; exact ha.elim
    | ok v =>
      rw [hm] at ha
      obtain ⟨wd, vd⟩ := ha
      obtain ⟨q, eq, wq, vq⟩ := c15_div64 d 10000 wd (by decide) (by decide)
      have hq : d.Div64 (Gen.Consensus.State.SiafundCount s) = .ok q := eq
      simp only [bind, Except.bind, hq]
      have := agrees_mul64 q value wq hv
      rw [vq, vd] at this
      exact this

/-! ## `State.FoundationSubsidy` -/

/-- generated `(sco, exists)` result vs the model's `Option ScOut` -/
def SubsidyAgrees (g : Except String (SiacoinOutput × Bool)) (m : VM (Option ScOut))
    (gaddr : ByteArray) (addr : Nat) : Prop :=
  match g, m with
  | .ok (_, false), .ok none => True
  | .ok (o, true), .ok (some out) => WF o.Value ∧ val o.Value = out.value ∧ o.Address = gaddr ∧ out.addr = addr
  | .error _, .error (.panic _) => True
  | _, _ => False

/-- **`tie_foundationSubsidy`**: same verdict (no subsidy / subsidy / panic), same value, same
    address. Hypotheses = the abstraction: the void-address test, `blocksPerYear` as the code
    computes it (`uint64(365*24*time.Hour / BlockInterval)`, a non-zero interval — a zero one
    panics in Go before anything else), child height and Foundation fork height. -/
theorem tie_foundationSubsidy (s : Gen.Consensus.State) (L : Ledger)
    (hvoid : s.FoundationSubsidyAddress = Gen.Types.VoidAddress ↔ L.fPrimary = L.P.voidAddr)
    (hbi : s.Network.BlockInterval ≠ 0)
    (hbpy : L.P.blocksPerYear =
      Int.toNat ((Int.tdiv 31536000000000000 s.Network.BlockInterval) % 18446744073709551616))
    (hc : L.child = Gen.Consensus.State.childHeight s)
    (hhf : L.P.hfFoundation = s.Network.HardforkFoundation.Height)
    (hhfW : s.Network.HardforkFoundation.Height < W) :
    SubsidyAgrees (Gen.Consensus.State.FoundationSubsidy s) (foundationSubsidy L)
      s.FoundationSubsidyAddress L.fPrimary := by
  obtain ⟨spb, e, wspb, vspb⟩ := siacoins_ok 30000 (by decide)
  have hchild : Gen.Consensus.State.childHeight s < W := by
    unfold Gen.Consensus.State.childHeight; exact Nat.mod_lt _ (by decide)
  have hbpyW : L.P.blocksPerYear < W := by rw [hbpy]; omega
  unfold Gen.Consensus.State.FoundationSubsidy foundationSubsidy
  by_cases hv : s.FoundationSubsidyAddress = Gen.Types.VoidAddress
  · have hv' := hvoid.1 hv
    simp only [hv, hv', decide_true, if_true, pure, Except.pure]
    exact trivial
  · have hv' : ¬ L.fPrimary = L.P.voidAddr := fun c => hv (hvoid.2 c)
    have hdiv : Go.intDiv 31536000000000000 (Gen.Consensus.State.BlockInterval s) =
        .ok (Int.tdiv 31536000000000000 s.Network.BlockInterval) := by
      unfold Go.intDiv Gen.Consensus.State.BlockInterval; rw [if_neg hbi]
    simp only [hv, hv', decide_false, Bool.false_eq_true, if_false, e, hdiv, bind, Except.bind, ← hbpy, ← hc, ← hhf]
    generalize L.P.blocksPerYear = bpy at hbpyW ⊢
    rw [hc] at *
    generalize Gen.Consensus.State.childHeight s = child at hchild ⊢
    rw [← hhf] at hhfW
    generalize L.P.hfFoundation = hf at hhfW ⊢
    by_cases hlt : child < hf
    · simp only [hlt, decide_true, if_true, pure, Except.pure, true_or]
      split <;> exact trivial
    · have hsub : (child + 18446744073709551616 - hf) % 18446744073709551616 = child - hf := by omega
      simp only [hlt, decide_false, Bool.false_eq_true, if_false, hsub, false_or]
      by_cases hz : bpy / 12 = 0
      · simp only [hz, Go.natMod, if_true, gopanic]
        exact trivial
      · simp only [hz, Go.natMod, if_false, pure, Except.pure]
        by_cases hm : (child - hf) % (bpy / 12) ≠ 0
        · simp only [hm, decide_true, if_true, ne_eq, not_false_eq_true]
          exact trivial
        · have hm0 : (child - hf) % (bpy / 12) = 0 := by simpa using hm
          simp only [hm0, ne_eq, not_true_eq_false, decide_false, Bool.false_eq_true, if_false]
          by_cases heq : child = hf
          · simp only [heq, decide_true, if_true]
            have := agrees_mul64 spb bpy wspb hbpyW
            rw [vspb] at this
            revert this
            cases spb.Mul64 bpy <;> cases mul64C (siacoins 30000) bpy <;> simp [Agrees, SubsidyAgrees]
            · rename_i f; cases f <;> simp
          · simp only [heq, decide_false, Bool.false_eq_true, if_false]
            have := agrees_mul64 spb (bpy / 12) wspb (by omega)
            rw [vspb] at this
            revert this
            cases spb.Mul64 (bpy / 12) <;> cases mul64C (siacoins 30000) (bpy / 12) <;> simp [Agrees, SubsidyAgrees]
            · rename_i f; cases f <;> simp

/-! ## `State.FileContractTax` (not translatable: `math/big`, `float64`) -/

/-- significand and (negated) binary exponent of a positive normal IEEE-754 double given by its
    64-bit pattern: value = significand / 2^negExp -/
def f64Decode (bits : Nat) : Nat × Nat :=
  (4503599627370496 + bits % 4503599627370496, 1075 - (bits / 4503599627370496) % 2048)

/-- **`tie_fileContractTax_spec`**.
    (1) `taxNum / taxDen` IS `float64(0.039)`: its bit pattern `0x3FA3F7CED916872B` decodes to
        `5620492334958379 / 2^57` (the comment in `Model.lean` says 2^58; the *number* `taxDen`
        is 2^57, which is right), a 53-bit significand, just below 39/1000 and within half an ulp of it, odd — so
        `new(big.Rat).SetFloat64(0.039)` is exactly `taxNum/taxDen` in lowest terms;
    (2) the model computes `⌊payout·taxNum/2^57⌋` before the tax fork and `⌊payout·39/1000⌋` after
        it, rounded down to a multiple of `SiafundCount` = 10000, reduced mod 2^128 (the
        `Uint64()`/`Rsh(64)` truncation). -/
theorem tie_fileContractTax_spec :
    f64Decode 0x3FA3F7CED916872B = (taxNum, 57) ∧ taxDen = 2 ^ 57 ∧
    2 ^ 52 ≤ taxNum ∧ taxNum < 2 ^ 53 ∧ taxNum % 2 = 1 ∧
    1000 * taxNum ≤ 39 * taxDen ∧ 2 * (39 * taxDen - 1000 * taxNum) ≤ 1000 ∧
    (∀ (L : Ledger) (payout : Cur),
      fileContractTax L payout =
        ((if L.child < L.P.hfTax then payout * taxNum / 2 ^ 57 else payout * 39 / 1000) / 10000 * 10000)
          % 340282366920938463463374607431768211456) := by
  refine ⟨by decide, by decide, by decide, by decide, by decide, by decide, by decide, ?_⟩
  intro L payout
  unfold fileContractTax curLimit
  have hd : taxDen = 2 ^ 57 := by decide
  rw [hd]
  dsimp only
  generalize (if L.child < L.P.hfTax then payout * taxNum / 2 ^ 57 else payout * 39 / 1000) = i
  congr 1
  exact Nat.sub_eq_of_eq_add (Nat.div_add_mod' i 10000).symm

/-- the source of `FileContractTax`: the float constant, 39/1000, and the operation chain
    (`SetFloat64`·`Mul`·`Div(Num, Denom)` resp. `Mul`·`Div`, then `Sub(Mod(SiafundCount))`,
    `Uint64`/`Rsh 64`) the spec above reads -/
theorem tie_fileContractTax_source :
    Gen.FactsLedger.fileContractTaxLits = ["0.039", "39", "1000", "64"] ∧
    Gen.FactsLedger.fileContractTaxConds = ["s.childHeight() < s.Network.HardforkTax.Height"] ∧
    Gen.FactsLedger.fileContractTaxCalls =
      ["Big", "childHeight", "SetInt", "Mul", "SetFloat64", "Div", "Num", "Denom", "Mul", "NewInt", "Div",
       "NewInt", "Sub", "Mod", "NewInt", "SiafundCount", "Uint64", "Uint64", "Rsh", "NewCurrency"] := by decide

/-- the claim expression that `genClaimPortion` assembles, as written in the two appliers -/
theorem tie_claim_source :
    Gen.FactsLedger.claimExpr_ApplyTransaction =
      ["ms.siafundTaxRevenue.Sub(sfe.ClaimStart).Div64(ms.base.SiafundCount()).Mul64(sfe.SiafundOutput.Value)"] ∧
    Gen.FactsLedger.claimExpr_ApplyV2Transaction =
      ["ms.siafundTaxRevenue.Sub(sfi.Parent.ClaimStart).Div64(ms.base.SiafundCount()).Mul64(sfi.Parent.SiafundOutput.Value)"] := by
  decide

/-! ## satisfiability -/

/-- a concrete state/ledger pair satisfying the hypotheses of `tie_blockReward` and
    `tie_foundationSubsidy` (height 9, Foundation fork at 10, 10-minute blocks) -/
def exState : Gen.Consensus.State :=
  { Network := { InitialCoinbase := { Lo := 300000, Hi := 0 }, MinimumCoinbase := { Lo := 30000, Hi := 0 },
                 BlockInterval := 600000000000, MaturityDelay := 144,
                 HardforkFoundation := { Height := 10 } },
    Index := { Height := 9 }, FoundationSubsidyAddress := ⟨#[1]⟩ }

example : Gen.Consensus.State.childHeight exState = 10 ∧ WF exState.Network.InitialCoinbase ∧
    exState.Network.BlockInterval ≠ 0 ∧ exState.FoundationSubsidyAddress ≠ Gen.Types.VoidAddress ∧
    Int.toNat ((Int.tdiv 31536000000000000 exState.Network.BlockInterval) % 18446744073709551616) = 52560 := by
  refine ⟨by decide, ⟨by decide, by decide⟩, by decide, by decide, by decide⟩

/-- at the fork height the generated code pays a year of subsidy: 30000 SC × 52560 blocks -/
example : (Gen.Consensus.State.FoundationSubsidy exState).toOption.map (fun r => (val r.1.Value, r.2))
    = some (siacoins 30000 * 52560, true) := by decide

end C01
