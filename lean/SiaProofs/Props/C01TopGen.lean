import SiaModel.Gen.CodeConsensus
import SiaProofs.Props.C02LoopGen
import SiaProofs.Props.C01TxnGen
import SiaProofs.Props.C01SfGen
import SiaProofs.Props.C03AttGen
import SiaProofs.Props.C01V1Gen
import SiaProofs.Props.C03V1Gen

/-!
# The top of v2 transaction validation, on REGENERATED code: `consensus.ValidateV2Transaction` as a whole

`ValidateV2Transaction`, `validateV2Siacoins` and `validateV2Siafunds` are translated as whole functions on every run
(what is not generated — `validateV2CurrencyOverflow`, `V2TransactionWeight`, `validateV2FileContracts` — stays a field of
`Ext`, and the acceptance of a transaction is stated to *include* their acceptance).  The theorem composes the
per-phase theorems proved on the statement ranges: a transaction that `ValidateV2Transaction` accepts

* is validated at or after the v2 allow height (C08), has a non-zero weight within the block limit,
* names pairwise different siacoin (siafund) parents, each not spent earlier in the block, matured, a member of the
  accumulator (or a checked ephemeral element) and authorised by its spend policy (C02, C03, C04, C08),
* creates exactly the value it consumes, in siacoins (as unbounded naturals) and in siafunds (modulo 2^64; equal
  outright under the siafund-supply bound of C01SfGen), with no zero-valued output (C01),
* carries only signed, non-empty-keyed attestations, and changes the foundation address only if one of its inputs
  is controlled by the foundation management address (C03).
-/
namespace C01
open Gen.Consensus Gen.Types

open GoLoops

theorem tie_v2_siacoins_split_gen (ext : Ext) (ms : MidState) (txn : V2Transaction)
    (h : validateV2Siacoins ext ms txn = .ok none) :
    validateV2Siacoins_inputs ext ms txn = .ok none ∧ validateV2Siacoins_balance ext txn ms = .ok none := by
  unfold validateV2Siacoins at h
  simp only [bind, Except.bind] at h
  split at h
  · cases h
  rename_i v hv
  obtain ⟨r, st'⟩ := v
  cases r with
  | some q =>
    simp [pure, Except.pure] at h; subst h; exfalso
    have := forRange_some (P := fun r : Option String => r ≠ none) ?_ txn.SiacoinInputs _ none st' hv
    · exact this rfl
    intro i x st r st1 hx
    repeat' (split at hx)
    all_goals (simp [pure, Except.pure] at hx)
    all_goals (try (rw [← hx.1]; simp))
  | none =>
    constructor
    · unfold validateV2Siacoins_inputs
      simp only [bind, Except.bind]
      rw [hv]; rfl
    · unfold validateV2Siacoins_balance
      simp only [bind, Except.bind]
      exact h

theorem tie_v2_siafunds_split_gen (ext : Ext) (ms : MidState) (txn : V2Transaction)
    (h : validateV2Siafunds ext ms txn = .ok none) :
    validateV2Siafunds_inputs ext ms txn = .ok none ∧ validateV2Siafunds_balance txn = .ok none := by
  unfold validateV2Siafunds at h
  simp only [bind, Except.bind] at h
  split at h
  · cases h
  rename_i v hv
  obtain ⟨r, st'⟩ := v
  cases r with
  | some q =>
    simp [pure, Except.pure] at h; subst h; exfalso
    have := forRange_some (P := fun r : Option String => r ≠ none) ?_ txn.SiafundInputs _ none st' hv
    · exact this rfl
    intro i x st r st1 hx
    repeat' (split at hx)
    all_goals (simp [pure, Except.pure] at hx)
    all_goals (try (rw [← hx.1]; simp))
  | none =>
    constructor
    · unfold validateV2Siafunds_inputs
      simp only [bind, Except.bind]
      rw [hv]; rfl
    · unfold validateV2Siafunds_balance
      simp only [bind, Except.bind]
      exact h

theorem c01_v2_transaction_accepted_gen (ext : Ext) (ms : MidState) (txn : V2Transaction) (hw : TxnCurWF ext txn)
    (h : ValidateV2Transaction ext ms txn = .ok none) :
    ms.base.Network.HardforkV2.AllowHeight ≤ State.childHeight ms.base ∧
    ext.validateV2CurrencyOverflow ms txn = none ∧
    0 < ext.V2TransactionWeight ms.base txn ∧ ext.V2TransactionWeight ms.base txn ≤ State.MaxBlockWeight ms.base ∧
    ((txn.SiacoinInputs.map (fun i => i.Parent.ID)).Nodup ∧ ∀ sci ∈ txn.SiacoinInputs, C02.SiacoinInputOk ext ms txn sci) ∧
    (inSum txn + resIn ext txn = outSumV2 txn + fcSum txn + resOut ext txn + C15.val txn.MinerFee ∧
      ∀ o ∈ txn.SiacoinOutputs, C15.val o.Value ≠ 0) ∧
    ((txn.SiafundInputs.map (fun i => i.Parent.ID)).Nodup ∧ ∀ sfi ∈ txn.SiafundInputs, C02.SiafundInputOk ext ms txn sfi) ∧
    (sfIn txn % 18446744073709551616 = sfOut txn % 18446744073709551616 ∧ ∀ o ∈ txn.SiafundOutputs, o.Value ≠ 0) ∧
    ext.validateV2FileContracts ms txn = none ∧
    (∀ a ∈ txn.Attestations, a.Key.length ≠ 0 ∧
        ext.VerifyHash a.PublicKey (ext.AttestationSigHash ms.base a) a.Signature = true) ∧
    (txn.NewFoundationAddress = none ∨
        ∃ i ∈ txn.SiacoinInputs, i.Parent.SiacoinOutput.Address = ms.base.FoundationManagementAddress) := by
  unfold ValidateV2Transaction at h
  by_cases g1 : State.childHeight ms.base < ms.base.Network.HardforkV2.AllowHeight
  · simp [g1, pure, Except.pure] at h
  simp only [g1, decide_false, Bool.false_eq_true, if_false] at h
  cases g2 : ext.validateV2CurrencyOverflow ms txn with
  | some e => simp [g2, pure, Except.pure] at h
  | none =>
  simp only [g2, ne_eq, not_true_eq_false, decide_false, Bool.false_eq_true, if_false] at h
  by_cases g3 : ext.V2TransactionWeight ms.base txn = 0
  · simp [g3, pure, Except.pure] at h
  simp only [g3, decide_false, Bool.false_eq_true, if_false] at h
  by_cases g4 : ext.V2TransactionWeight ms.base txn > State.MaxBlockWeight ms.base
  · simp [g4, pure, Except.pure] at h
  simp only [g4, decide_false, Bool.false_eq_true, if_false, bind, Except.bind] at h
  cases g5 : validateV2Siacoins ext ms txn with
  | error e => simp [g5] at h
  | ok r5 =>
  cases r5 with
  | some e => simp [g5, pure, Except.pure] at h
  | none =>
  simp only [g5, ne_eq, not_true_eq_false, decide_false, Bool.false_eq_true, if_false] at h
  cases g6 : validateV2Siafunds ext ms txn with
  | error e => simp [g6] at h
  | ok r6 =>
  cases r6 with
  | some e => simp [g6, pure, Except.pure] at h
  | none =>
  simp only [g6, ne_eq, not_true_eq_false, decide_false, Bool.false_eq_true, if_false] at h
  cases g7 : ext.validateV2FileContracts ms txn with
  | some e => simp [g7, pure, Except.pure] at h
  | none =>
  simp only [g7, ne_eq, not_true_eq_false, decide_false, Bool.false_eq_true, if_false] at h
  obtain ⟨r8, e8, i8⟩ := C03.c03_attestations_gen ext ms txn
  cases r8 with
  | some e => simp [e8, pure, Except.pure] at h
  | none =>
  simp only [e8, ne_eq, not_true_eq_false, decide_false, Bool.false_eq_true, if_false] at h
  obtain ⟨r9, e9, i9⟩ := C03.c03_foundation_update_gen ms txn
  cases r9 with
  | some e => simp [e9, pure, Except.pure] at h
  | none =>
  obtain ⟨s1, s2⟩ := tie_v2_siacoins_split_gen ext ms txn g5
  obtain ⟨f1, f2⟩ := tie_v2_siafunds_split_gen ext ms txn g6
  obtain ⟨b1, _, b3⟩ := c01_v2_txn_balance_gen ext ms txn hw s2
  exact ⟨by omega, rfl, by omega, by omega, C02.c02_v2_siacoin_inputs_nodup_gen ext ms txn s1, ⟨b1, b3⟩,
    C02.c02_v2_siafund_inputs_nodup_gen ext ms txn f1, c01_v2_siafund_balance_mod_gen txn f2, rfl,
    i8.1 rfl, i9.1 rfl⟩

/-- non-vacuity: a transaction with one output-less fee-less body and weight 1 is accepted; before the allow height and
at weight 0 it is refused -/
example : ValidateV2Transaction { Ext.trivial with V2TransactionWeight := fun _ _ => 1 } {} {} = .ok none := by rfl
example : ValidateV2Transaction { Ext.trivial with V2TransactionWeight := fun _ _ => 1 }
    { base := { Network := { HardforkV2 := { AllowHeight := 5 } } } } {}
    = .ok (some "v2 transactions are not allowed until v2 hardfork begins") := by rfl
example : ValidateV2Transaction Ext.trivial {} {} = .ok (some "transactions cannot be empty") := by rfl

/-- The v1 counterpart: `consensus.ValidateTransaction` regenerated whole.  An accepted v1 transaction is validated
strictly below the v2 require height (C08), within the block weight, passes the phases that stay in `Ext`, balances in
siacoins over ℕ with every input individually checked (C01, C03, C08), and balances in siafunds modulo 2^64 with every
siafund input individually checked (C01, C03). -/
theorem c01_v1_transaction_accepted_gen (ext : Ext) (ms : MidState) (txn : Transaction) (ts : V1TransactionSupplement)
    (hw : V1CurWF ext ms ts txn) (h : ValidateTransaction ext ms txn ts = .ok none) :
    State.childHeight ms.base < ms.base.Network.HardforkV2.RequireHeight ∧
    ext.validateCurrencyOverflow ms txn = none ∧
    ext.TransactionWeight ms.base txn ≤ State.MaxBlockWeight ms.base ∧
    ext.validateMinimumValues ms txn = none ∧
    (v1InSum ext ms ts txn = v1OutSum txn + v1PayoutSum txn + v1FeeSum txn ∧
      ∀ sci ∈ txn.SiacoinInputs, V1InputOk ext ms ts sci) ∧
    ((∀ sfi ∈ txn.SiafundInputs, C03.V1SiafundInputOk ext ms ts sfi) ∧
      (txn.SiafundInputs.map (fun i => (C03.sfParent ext ms ts i).SiafundOutput.Value)).sum % 18446744073709551616
        = (txn.SiafundOutputs.map (fun o => o.Value)).sum % 18446744073709551616) ∧
    ext.validateFileContracts ms txn ts = none ∧
    ext.validateArbitraryData ms txn = none ∧
    ext.validateSignatures ms txn = none := by
  unfold ValidateTransaction at h
  by_cases g1 : State.childHeight ms.base ≥ ms.base.Network.HardforkV2.RequireHeight
  · simp [g1, pure, Except.pure] at h
  simp only [g1, decide_false, Bool.false_eq_true, if_false] at h
  cases g2 : ext.validateCurrencyOverflow ms txn with
  | some e => simp [g2, pure, Except.pure] at h
  | none =>
  simp only [g2, ne_eq, not_true_eq_false, decide_false, Bool.false_eq_true, if_false] at h
  by_cases g4 : ext.TransactionWeight ms.base txn > State.MaxBlockWeight ms.base
  · simp [g4, pure, Except.pure] at h
  simp only [g4, decide_false, Bool.false_eq_true, if_false] at h
  cases g3 : ext.validateMinimumValues ms txn with
  | some e => simp [g3, pure, Except.pure] at h
  | none =>
  simp only [g3, ne_eq, not_true_eq_false, decide_false, Bool.false_eq_true, if_false, bind, Except.bind] at h
  cases g5 : validateSiacoins ext ms txn ts with
  | error e => simp [g5] at h
  | ok r5 =>
  cases r5 with
  | some e => simp [g5, pure, Except.pure] at h
  | none =>
  simp only [g5, ne_eq, not_true_eq_false, decide_false, Bool.false_eq_true, if_false] at h
  cases g6 : validateSiafunds ext ms txn ts with
  | error e => simp [g6] at h
  | ok r6 =>
  cases r6 with
  | some e => simp [g6, pure, Except.pure] at h
  | none =>
  simp only [g6, ne_eq, not_true_eq_false, decide_false, Bool.false_eq_true, if_false] at h
  cases g7 : ext.validateFileContracts ms txn ts with
  | some e => simp [g7, pure, Except.pure] at h
  | none =>
  simp only [g7, ne_eq, not_true_eq_false, decide_false, Bool.false_eq_true, if_false] at h
  cases g8 : ext.validateArbitraryData ms txn with
  | some e => simp [g8, pure, Except.pure] at h
  | none =>
  simp only [g8, ne_eq, not_true_eq_false, decide_false, Bool.false_eq_true, if_false] at h
  cases g9 : ext.validateSignatures ms txn with
  | some e => simp [g9, pure, Except.pure] at h
  | none =>
  obtain ⟨b1, _, b3⟩ := c01_v1_txn_balance_gen ext ms txn ts hw g5
  exact ⟨by omega, rfl, by omega, rfl, ⟨b1, b3⟩, C03.c03_v1_siafund_inputs_gen ext ms txn ts g6, rfl, rfl, rfl⟩

example : ValidateTransaction Ext.trivial { base := { Network := { HardforkV2 := { RequireHeight := 5 } } } } {} {} = .ok none := by rfl
example : ValidateTransaction Ext.trivial {} {} {}
    = .ok (some "v1 transactions are not allowed after v2 hardfork is complete") := by rfl

end C01
