import SiaProofs.Props.C10Ledger
import SiaProofs.Lemmas.LedgerC10Total
import SiaProofs.Lemmas.LedgerC10Weak
import SiaProofs.Lemmas.LedgerC01PoolSolv
import SiaProofs.Props.C01
/-!
# C10 on the ledger model, whole blocks: `validateBlock` never panics

Two versions: from `Solvent` with the ephemeral-output fix active (`c10_validate_no_panic`), and — after the
`validateTaxPool` / `validateV2TaxPool` fix — from the element-wise `WeakInv` with no window hypothesis
(`c10_validate_no_panic_legacy`), an invariant kept by *every* accepted block (`c10_weakinv_preserved`).

Built on the C01 mid-state invariant (`Lemmas/LedgerC01*.lean`) and on the check-by-check
no-panic lemmas of `C10Ledger.lean`.
-/
namespace C10
open Sia.Ledger C08 C01

-- ================================================================= validation of one v2 transaction

/-- the totals validation adds up for *genuine* v2 parents are representable -/
def GenuineBound2 (ms : Mid) : Prop :=
  ∀ e : Fc2Elem, ms.isSpent e.id = false → ms.base.hasFc2 e = true →
    (ms.curFc2 e).renter.value + (ms.curFc2 e).host.value < curLimit ∧ e.fc.renter.value + e.fc.host.value < curLimit

theorem v2_contracts_noPanic (ms : Mid) (t : Txn2) (hov : validateV2CurrencyOverflow t = .ok ()) (hG : GenuineBound2 ms) :
    NoPanic (validateV2FileContracts ms t) := by
  obtain ⟨hsome, htot⟩ := validateV2CurrencyOverflow_ok hov
  rw [validateV2FileContracts_eq]
  refine bind_noPanic (forIn_step_noPanic _ (fun x => validateContract2_noPanic _ _ _) _) (fun _ _ => ?_)
  refine bind_noPanic (foldlM_noPanic_on _ (fun s r hr => ?_) _) (fun revised _ => ?_)
  · unfold rev2Step
    refine bind_noPanic (validateParent2_noPanic _ _ _ _) (fun _ hp => bind_noPanic ?_ (fun _ _ => by simp))
    have hpr := (validateParent2_ok_iff _ _ _ _).1 hp
    unfold rev2Check
    split
    · simp
    rw [validateRevision2_eq]
    apply revision2Check_noPanic _ _ _ _ _ (hG r.parent hpr.notSpent hpr.present).1
    have hm : v2Contract r.rev ∈ v2Parts t := by
      unfold v2Parts
      simp only [List.mem_append, List.mem_map]
      exact Or.inl (Or.inl (Or.inr ⟨r, hr, rfl⟩))
    have := hsome _ hm
    unfold v2Contract at this
    split at this
    · assumption
    · exact absurd rfl this
  · refine bind_noPanic (foldlM_noPanic_on _ (fun s r hr => ?_) _) (fun _ _ => by simp)
    unfold res2Step
    refine bind_noPanic (validateParent2_noPanic _ _ _ _) (fun _ hp => bind_noPanic ?_ (fun _ _ => by simp))
    have hpr := (validateParent2_ok_iff _ _ _ _).1 hp
    unfold res2Check
    simp only []
    cases hres' : r.res with
    | renewal rn =>
      simp only []
      have hm : v2ResPart r ∈ v2Parts t := by
        unfold v2Parts
        simp only [List.mem_append, List.mem_map]
        exact Or.inl (Or.inr ⟨r, hr, rfl⟩)
      have hne := hsome _ hm
      unfold v2ResPart at hm hne
      rw [hres'] at hm hne
      simp only [] at hm hne
      unfold v2Contract at hm hne
      by_cases hc : rn.newContract.renter.value + rn.newContract.host.value < curLimit
      · rw [if_pos hc] at hm
        simp only [Option.map_some] at hm
        have hle := part_le_total hm
        exact renewalCheck_noPanic ms _ rn (hG r.parent hpr.notSpent hpr.present).2 hc (by cur_omega)
      · rw [if_neg hc] at hne
        exact absurd rfl hne
    | proof ih iid a c =>
      simp only []
      repeat' split
      all_goals simp
    | expiration =>
      simp only []
      split <;> simp

theorem v2_transaction_noPanic (ms : Mid) (t : Txn2) (mw : Nat) (hG : GenuineBound2 ms) :
    NoPanic (validateV2Transaction ms t mw) := by
  rw [validateV2Transaction_eq]; unfold v2TxnChecks
  split
  · simp
  refine bind_noPanic (validateV2CurrencyOverflow_noPanic t) (fun u hov => ?_)
  cases u
  refine bind_noPanic (validateV2TaxPool_noPanic ms t) (fun _ _ => ?_)
  split
  · simp
  split
  · simp
  refine bind_noPanic (c10_v2_siacoins_no_panic ms t hov) (fun _ _ => ?_)
  refine bind_noPanic (validateV2Siafunds_noPanic ms t) (fun _ _ => ?_)
  refine bind_noPanic (v2_contracts_noPanic ms t hov hG) (fun _ _ => ?_)
  split
  · simp
  · exact validateFoundationUpdate_noPanic ms t

/-- what the overflow pre-check guarantees about the contracts a v2 transaction creates -/
theorem v2_created_bounds {t : Txn2} (hov : validateV2CurrencyOverflow t = .ok ()) :
    (∀ x ∈ t.fcs, x.2.1.val < curLimit) ∧
    (∀ r ∈ t.ress, ∀ rn, r.res = .renewal rn → rn.newContract.val < curLimit) := by
  obtain ⟨hsome, _⟩ := validateV2CurrencyOverflow_ok hov
  constructor
  · intro x hx
    have hm : v2Contract x.2.1 ∈ v2Parts t := by
      unfold v2Parts
      simp only [List.mem_append, List.mem_map]
      exact Or.inl (Or.inl (Or.inl (Or.inr ⟨x, hx, rfl⟩)))
    have := hsome _ hm
    unfold v2Contract at this
    split at this
    · unfold Fc2.val; assumption
    · exact absurd rfl this
  · intro r hr rn hres
    have hm : v2ResPart r ∈ v2Parts t := by
      unfold v2Parts
      simp only [List.mem_append, List.mem_map]
      exact Or.inl (Or.inr ⟨r, hr, rfl⟩)
    have hne := hsome _ hm
    unfold v2ResPart at hne
    rw [hres] at hne
    simp only [] at hne
    unfold v2Contract at hne
    by_cases hc : rn.newContract.renter.value + rn.newContract.host.value < curLimit
    · unfold Fc2.val; exact hc
    · rw [if_neg hc] at hne; exact absurd rfl hne

-- ================================================================= validation of one v1 transaction

theorem fileContractTax_le (L : Ledger) (p : Cur) : fileContractTax L p ≤ p := by
  unfold fileContractTax
  simp only []
  have h1 : p * taxNum / taxDen ≤ p := by
    apply Nat.div_le_of_le_mul
    rw [Nat.mul_comm taxDen p]
    exact Nat.mul_le_mul_left p (by decide)
  have h2 : p * 39 / 1000 ≤ p := by
    apply Nat.div_le_of_le_mul
    rw [Nat.mul_comm 1000 p]
    exact Nat.mul_le_mul_left p (by decide)
  split
  · exact Nat.le_trans (Nat.mod_le _ _) (Nat.le_trans (Nat.sub_le _ _) h1)
  · exact Nat.le_trans (Nat.mod_le _ _) (Nat.le_trans (Nat.sub_le _ _) h2)

/-- the sums validation adds up for *genuine* v1 parents are representable -/
def GenuineBound1 (ms : Mid) (supp : Supp1) : Prop :=
  ∀ id p, ms.isSpent id = false → ms.fc1Element supp id = some p →
    sumVals p.fc.valid < curLimit ∧ sumVals p.fc.missed < curLimit

theorem sumOuts_eq_ok (l : List ScOut) (h : sumVals l < curLimit) : sumOuts l = .ok (sumVals l) := by
  unfold sumOuts sumVals at *
  have := addC_fold_ok (fun o : ScOut => o.value) l 0 (by rw [Nat.zero_add]; exact h)
  rw [this]; congr 1; exact Nat.zero_add _

theorem mem_flatten_le {α} (xs : List α) (g : α → List Cur) {x : α} (hx : x ∈ xs) :
    (g x).sum ≤ (xs.map g).flatten.sum := by
  induction xs with
  | nil => cases hx
  | cons a xs ih =>
    simp only [List.map_cons, List.flatten_cons, List.sum_append]
    rcases List.mem_cons.1 hx with rfl | h
    · cur_omega
    · have := ih h; cur_omega

theorem v1_overflow_bounds {t : Txn1} (hov : validateCurrencyOverflow t = .ok ()) :
    (∀ x ∈ t.fcs, x.2.payout + sumVals x.2.valid + sumVals x.2.missed < curLimit) ∧
    (∀ r ∈ t.revs, sumVals r.fc.valid + sumVals r.fc.missed < curLimit) := by
  have htot : t.currencyValues.sum < curLimit := by
    unfold validateCurrencyOverflow at hov
    split at hov
    · exact absurd hov (reject_ne_ok _ _)
    · rename_i h
      cases hs : sumChecked t.currencyValues with
      | none => exact absurd (Or.inl (by rw [hs]; rfl)) h
      | some v => exact sumChecked_some hs
  unfold Txn1.currencyValues at htot
  simp only [List.sum_append] at htot
  constructor
  · intro x hx
    have := mem_flatten_le t.fcs (fun x => [x.2.payout] ++ x.2.valid.map (·.value) ++ x.2.missed.map (·.value)) hx
    have e1 : (t.fcs.map fun x => match x with | (_, fc) => [fc.payout] ++ fc.valid.map (·.value) ++ fc.missed.map (·.value)) =
        t.fcs.map (fun x => [x.2.payout] ++ x.2.valid.map (·.value) ++ x.2.missed.map (·.value)) := by
      apply List.map_congr_left; intro x _; rfl
    rw [e1] at htot
    simp only [List.sum_append, List.sum_cons, List.sum_nil] at this
    unfold sumVals
    cur_omega
  · intro r hr
    have := mem_flatten_le t.revs (fun r => r.fc.valid.map (·.value) ++ r.fc.missed.map (·.value)) hr
    simp only [List.sum_append] at this
    unfold sumVals
    cur_omega

theorem forIn_unit_noPanic_on {α} {body : α → PUnit → VM (ForInStep PUnit)} (l : List α)
    (h : ∀ x ∈ l, NoPanic (body x ⟨⟩)) : NoPanic (forIn l PUnit.unit body) := by
  induction l with
  | nil => simp [pure, Except.pure]
  | cons a l ih =>
    rw [List.forIn_cons]
    refine bind_noPanic (h a List.mem_cons_self) ?_
    intro r _
    cases r with
    | done b => simp [pure, Except.pure]
    | yield b => exact ih (fun x hx => h x (List.mem_cons_of_mem _ hx))

theorem v1_contracts_noPanic (ms : Mid) (t : Txn1) (pid : Id) (hov : validateCurrencyOverflow t = .ok ())
    (hG : GenuineBound1 ms t.supp) : NoPanic (validateFileContracts ms t pid) := by
  obtain ⟨hb1, hb2⟩ := v1_overflow_bounds hov
  rw [validateFileContracts_eq]
  refine bind_noPanic (forIn_unit_noPanic_on _ ?_) (fun _ _ => ?_)
  · intro x hx
    refine bind_noPanic ?_ (fun _ _ => by simp [pure, Except.pure])
    have hb := hb1 x hx
    unfold fc1FormStep
    split
    · simp
    split
    · simp
    rw [sumOuts_eq_ok _ (by cur_omega), sumOuts_eq_ok _ (by cur_omega)]
    simp only [ok_bind]
    split
    · simp
    have htax := fileContractTax_le ms.base x.2.payout
    rw [addC_eq_ok (by cur_omega)]
    simp only [ok_bind]
    split <;> simp
  refine bind_noPanic (forIn_unit_noPanic_on _ ?_) (fun _ _ => ?_)
  · intro r hr
    refine bind_noPanic ?_ (fun _ _ => by simp [pure, Except.pure])
    have hb := hb2 r hr
    unfold rev1Step
    split
    · simp
    split
    · simp
    split
    · simp
    split
    · simp
    rename_i hsp
    cases hp : ms.fc1Element t.supp r.parent with
    | none => simp
    | some p =>
      simp only []
      obtain ⟨g1, g2⟩ := hG r.parent p (by simpa using hsp) hp
      unfold rev1ParentCheck
      split
      · simp
      split
      · simp
      split
      · simp
      rw [sumOuts_eq_ok _ (by cur_omega), sumOuts_eq_ok _ g1]
      simp only [ok_bind]
      split
      · simp
      rw [sumOuts_eq_ok _ (by cur_omega), sumOuts_eq_ok _ g2]
      simp only [ok_bind]
      split <;> simp
  split
  · simp
  split
  · simp
  refine bind_noPanic (forIn_unit_noPanic_on _ ?_) (fun _ _ => by simp [pure, Except.pure])
  intro sp _
  refine bind_noPanic ?_ (fun _ _ => by simp [pure, Except.pure])
  unfold proof1Step
  repeat' split
  all_goals simp

theorem v1_transaction_noPanic (ms : Mid) (t : Txn1) (pid : Id) (mw : Nat) (hG : GenuineBound1 ms t.supp) :
    NoPanic (validateTransaction ms t pid mw) := by
  rw [validateTransaction_eq]; unfold v1TxnChecks
  split
  · simp
  refine bind_noPanic (validateCurrencyOverflow_noPanic t) (fun u hov => ?_)
  cases u
  refine bind_noPanic (validateTaxPool_noPanic ms t) (fun _ _ => ?_)
  split
  · simp
  refine bind_noPanic (validateMinimumValues_noPanic t) (fun _ _ => ?_)
  refine bind_noPanic (c10_v1_siacoins_no_panic ms t hov) (fun _ _ => ?_)
  refine bind_noPanic (validateSiafunds_noPanic ms t) (fun _ _ => ?_)
  refine bind_noPanic (v1_contracts_noPanic ms t pid hov hG) (fun _ _ => ?_)
  refine bind_noPanic (validateArbitraryData_noPanic ms t) (fun _ _ => ?_)
  exact validateSignatures_noPanic t

-- ================================================================= the bounds follow from the C01 invariant

theorem le_sum_map_of_mem {α} (l : List α) (f : α → Nat) {x : α} (hx : x ∈ l) : f x ≤ (l.map f).sum := by
  induction l with
  | nil => cases hx
  | cons a l ih =>
    simp only [List.map_cons, List.sum_cons]
    rcases List.mem_cons.1 hx with rfl | h
    · omega
    · have := ih h; omega

theorem fc2_val_le_V {L : Ledger} {e : Fc2Elem} (he : e ∈ L.fc2) : e.fc.val ≤ V L := by
  unfold V
  have := le_sum_map_of_mem L.fc2 (fun e => e.fc.val) he
  omega

theorem fc1_val_le_V {L : Ledger} {e : Fc1Elem} (he : e ∈ L.fc1) : e.fc.val ≤ V L := by
  unfold V
  have := le_sum_map_of_mem L.fc1 (fun e => e.fc.val) he
  omega

theorem curFc2_val {T} {ms : Mid} (hc : Ctx T ms.base) (hI : Inv T ms) {e : Fc2Elem} (hl : LiveFc2 T ms e) :
    (ms.curFc2 e).val = e.fc.val := by
  unfold Mid.curFc2
  cases hlk : ms.lookup e.id with
  | none => rfl
  | some i =>
    obtain ⟨d, hd1, hd2, hd3⟩ := hI.struct.fc2Diff?_of_lookup hc.disj hl.1 hlk
    have hgd : ms.v2fces.getD i default = d := by rw [List.getD_eq_getElem?_getD, hd1]; rfl
    simp only [hgd]
    obtain ⟨_, hde⟩ := hl.diff hc hI hd3
    have hok := (hI.fc2 d (fc2Diff?_mem hd3).1).2.2.2.1
    unfold Fc2Diff.current at hok
    cases hr : d.revision with
    | none => rfl
    | some rv => rw [hr] at hok; simp only [] at hok ⊢; rw [hde] at hok; exact hok

theorem genuineBound2_of_inv {T} {ms : Mid} (hc : Ctx T ms.base) (hI : Inv T ms) (hV : V ms.base < curLimit) :
    GenuineBound2 ms := by
  intro e hs hb
  have hl := live_of_base hc hI hs hb
  have h1 := curFc2_val hc hI hl
  have h2 := fc2_val_le_V hl.2.1
  unfold Fc2.val at h1 h2
  constructor <;> cur_omega

theorem genuineBound1_of_inv {T} {ms : Mid} (hc : Ctx T ms.base) (hI : Inv T ms) {supp : Supp1}
    (hs : SuppOk ms.base supp) (hV : V ms.base < curLimit) (hP : Phi ms < curLimit) : GenuineBound1 ms supp := by
  intro id p hsp hp
  obtain ⟨_, hl⟩ := liveFc1_of hc hI hs hsp hp
  have hbal := hl.bal hc hI
  have hval : p.fc.val < curLimit := by
    have h2 := hl.2
    cases hv : ms.fc1Diff? p.id with
    | none =>
      rw [hv] at h2
      have := fc1_val_le_V h2
      omega
    | some d =>
      rw [hv] at h2
      have hm := (fc1Diff?_mem hv).1
      have h3 := le_sum_map_of_mem ms.fces fc1Dv hm
      have h4 : fc1Dv d = p.fc.val := by unfold fc1Dv; rw [h2.1, h2.2]; rfl
      have h5 : (ms.fces.map fc1Dv).sum ≤ Phi ms := by unfold Phi fc1Tot; omega
      omega
  unfold Fc1.val at hval
  exact ⟨hval, by rw [← hbal]; exact hval⟩

theorem lt_u64 {x : Nat} (h : x ≤ 10000) : x < u64Limit := by unfold u64Limit; omega

-- ================================================================= the per-block state invariant

/-- what is carried from transaction to transaction while a block is validated -/
structure BJ (T : Kind → Id → Prop) (L : Ledger) (ms : Mid) : Prop where
  base : ms.base = L
  inv : Inv T ms
  cs : CsOk ms
  sf : sfTot ms = SFtot L
  pool : L.pool ≤ ms.pool
  /-- value conservation and pool solvency in one inequality (no subtraction) -/
  q : 10000 * Phi ms + Psi ms + SFtot L * L.pool ≤ 10000 * V L + PsiL L + SFtot L * ms.pool
  /-- the potential exceeds `V L` only by outputs that are still immature (claims paid in this block) -/
  imm : Phi ms ≤ V L + scW (wImm L.child) ms

theorem BJ.phi_le {T L ms} (h : BJ T L ms) (hS : SFtot L ≤ 10000) : Phi ms ≤ V L + ms.pool := by
  have h1 := h.q
  have h2 := PsiL_le L
  have h3 : SFtot L * ms.pool ≤ 10000 * ms.pool := Nat.mul_le_mul_right _ hS
  have h4 := h.pool
  have h5 : SFtot L * L.pool ≤ SFtot L * ms.pool := Nat.mul_le_mul_left _ h4
  generalize SFtot L * L.pool = a at *
  generalize SFtot L * ms.pool = b at *
  omega

theorem BJ.pool_mature_le {T L ms} (h : BJ T L ms) : ms.pool + scW (wMat L.child) ms ≤ V L := by
  have h1 := h.imm
  have h2 := scW_split L.child ms
  unfold Phi at h1
  unfold Cur at *; omega

theorem fc2Sum_le_V (L : Ledger) : fc2Sum L ≤ V L := by unfold fc2Sum V; omega

theorem bj_newMid {T} (L : Ledger) (hcs : CsOkL L) : BJ T L (newMid L) :=
  ⟨rfl, inv_newMid L, (csOk_newMid L).mpr hcs, sfTot_newMid L, Nat.le_refl _, by
    rw [Phi_newMid, Psi_newMid]; exact Nat.le_refl _, by rw [Phi_newMid]; omega⟩

/-- one accepted transaction keeps `BJ`, given its conservation and solvency facts -/
theorem bj_step {T L ms ms'} (h : BJ T L ms) (hI : Inv T ms') (hb : ms'.base = ms.base) (fees claims : Nat)
    (hP : Phi ms' + fees = Phi ms + claims) (hS : sfTot ms' = sfTot ms) (hpl : ms.pool ≤ ms'.pool)
    (hsv : CsOk ms → CsOk ms' ∧ Psi ms' + 10000 * claims ≤ Psi ms + (ms'.pool - ms.pool) * sfTot ms)
    (hwi : scW (wImm L.child) ms + claims ≤ scW (wImm L.child) ms') :
    BJ T L ms' := by
  obtain ⟨c, q⟩ := hsv h.cs
  refine ⟨hb.trans h.base, hI, c, hS.trans h.sf, Nat.le_trans h.pool hpl, ?_, by have := h.imm; omega⟩
  have hq := h.q
  rw [h.sf] at q
  have hsplit : SFtot L * ms'.pool = (ms'.pool - ms.pool) * SFtot L + SFtot L * ms.pool := by
    rw [Nat.mul_comm (SFtot L) ms.pool, ← Nat.add_mul, Nat.mul_comm]; congr 1; unfold Cur at *; omega
  rw [hsplit]
  generalize (ms'.pool - ms.pool) * SFtot L = d at *
  generalize SFtot L * ms.pool = e at *
  generalize SFtot L * L.pool = f at *
  omega

-- ================================================================= folds over the transactions of a block

theorem stepV1_eq_vb1Step : @stepV1 = @vb1Step := rfl
theorem stepV2_eq_vb2Step : @stepV2 = @vb2Step := rfl

theorem v1_fold_noPanic {T} (L : Ledger) (hV : 2 * V L < curLimit) (hS : SFtot L ≤ 10000)
    (hmd : 1 ≤ L.P.maturityDelay) (pid : Id) (mw : Nat)
    (l : List Txn1) : ∀ (ms : Mid) (R : List (Kind × Id)), Ctx T ms.base → BJ T L ms →
    (∀ t ∈ l, SuppOk L t.supp) → Fresh T ms (l.flatMap Txn1.created ++ R) → checkProofIds pid mw ms l = true →
    (∀ t ∈ l, (t.sfOuts.map (·.2.1)).sum < u64Limit) →
    NoPanic (l.foldlM (vb1Step pid mw) ms) := by
  induction l with
  | nil => intro ms R _ _ _ _ _ _; simp [pure, Except.pure]
  | cons t l ih =>
    intro ms R hc hJ hsupp hF hchk hnw
    rw [List.foldlM_cons]
    have hb := hJ.base
    have hphi := hJ.phi_le hS
    have hpm := hJ.pool_mature_le
    have hsu : SuppOk ms.base t.supp := by rw [hb]; exact hsupp t List.mem_cons_self
    have hG := genuineBound1_of_inv hc hJ.inv hsu (by rw [hb]; omega) (by unfold Cur at *; omega)
    simp only [List.flatMap_cons, List.append_assoc] at hF
    have hchk' := hchk
    unfold checkProofIds at hchk'
    rw [Bool.and_eq_true] at hchk'
    have hlen : ∀ sp ∈ t.proofs, ∀ e, ms.fc1Element t.supp sp.parent = some e → e.fc.valid.length ≤ sp.outIds.length := by
      intro sp hsp e he
      have := List.all_eq_true.mp hchk'.1 sp hsp
      rw [he] at this; simpa using this
    have hsfb : sfTot ms < u64Limit := lt_u64 (by rw [hJ.sf]; exact hS)
    refine bind_noPanic ?_ (fun ms1 h1 => ?_)
    · -- one step: validate, then apply
      unfold vb1Step
      refine bind_noPanic (v1_transaction_noPanic ms t pid mw hG) (fun _ hv => ?_)
      obtain ⟨ms1, ha⟩ := v1txn_total hc hJ.inv hsu hF hlen hJ.cs (by rw [hJ.sf]; exact hS)
        (by rw [hb]; unfold Cur at *; omega) hv
      rw [ha]; intro m hm; cases hm
    · obtain ⟨_, hv, ha⟩ := bind_ok_iff.1 h1
      obtain ⟨hI1, hF1, hb1, hP1, hS1, hpl1, hsv1, hpf1, hwi1⟩ := v1txn_conserves hc hJ.inv hsu hF hlen
        (hnw t List.mem_cons_self) hsfb hv ha
      have hJ1 := bj_step hJ hI1 hb1 _ _ hP1 hS1 hpl1 hsv1 (by have := hwi1 (by rw [hb]; exact hmd); rw [hb] at this; exact this)
      have hstep : stepV1 pid mw ms t = .ok ms1 := by rw [stepV1_eq_vb1Step]; exact h1
      rw [hstep] at hchk'; simp only [] at hchk'
      exact ih ms1 R (hb1 ▸ hc) hJ1 (fun t' ht' => hsupp t' (List.mem_cons_of_mem _ ht')) hF1 hchk'.2
        (fun t' ht' => hnw t' (List.mem_cons_of_mem _ ht'))

/-- the state after the v1 transactions of an accepted prefix -/
theorem v1_fold_state {T} (L : Ledger) (pid : Id) (mw : Nat) (l : List Txn1) (ms ms' : Mid) (R : List (Kind × Id))
    (hc : Ctx T ms.base) (hJ : BJ T L ms) (hsupp : ∀ t ∈ l, SuppOk L t.supp)
    (hF : Fresh T ms (l.flatMap Txn1.created ++ R)) (hchk : checkProofIds pid mw ms l = true)
    (hnw : ∀ t ∈ l, (t.sfOuts.map (·.2.1)).sum < u64Limit) (hS : SFtot L ≤ 10000) (hmd : 1 ≤ L.P.maturityDelay)
    (h : l.foldlM (vb1Step pid mw) ms = .ok ms') :
    BJ T L ms' ∧ Fresh T ms' R ∧ ms'.pool = ms.pool + (l.map (Txn1.taxes L)).sum := by
  have hsfb : sfTot ms < u64Limit := lt_u64 (by rw [hJ.sf]; exact hS)
  rw [← stepV1_eq_vb1Step] at h
  obtain ⟨hI1, hF1, hb1, hP1, hS1, _, hpl1, hsv1, hpf1, hwi1⟩ := loop_v1 pid mw l ms ms' R hc hJ.inv
    (fun t ht => by rw [hJ.base]; exact hsupp t ht) hF hchk hnw hsfb h
  exact ⟨bj_step hJ hI1 hb1 _ _ hP1 hS1 hpl1 hsv1 (by have := hwi1 (by rw [hJ.base]; exact hmd); rw [hJ.base] at this; exact this),
    hF1, by rw [hpf1, hJ.base]⟩

theorem v2_fold_noPanic {T} (L : Ledger) (hV : 2 * V L < curLimit) (hS : SFtot L ≤ 10000)
    (hmd : 1 ≤ L.P.maturityDelay) (hm2L : ∀ e ∈ L.fc2, e.fc.missedHost ≤ e.fc.host.value) (mw : Nat)
    (l : List Txn2) : ∀ (ms : Mid) (R : List (Kind × Id)), Ctx T ms.base →
    ms.base.child ≥ ms.base.P.ephemeralFix → BJ T L ms →
    Fresh T ms (l.flatMap Txn2.created ++ R) →
    (∀ t ∈ l, (t.sfOuts.map (·.2.1)).sum < u64Limit) →
    NoPanic (l.foldlM (vb2Step mw) ms) := by
  induction l with
  | nil => intro ms R _ _ _ _ _; simp [pure, Except.pure]
  | cons t l ih =>
    intro ms R hc hfix hJ hF hnw
    rw [List.foldlM_cons]
    have hb := hJ.base
    have hpm := hJ.pool_mature_le
    have hf2 := fc2Sum_le_V L
    have hm2 : ∀ e ∈ ms.base.fc2, e.fc.missedHost ≤ e.fc.host.value := by rw [hb]; exact hm2L
    have hG := genuineBound2_of_inv hc hJ.inv (by rw [hb]; omega)
    simp only [List.flatMap_cons, List.append_assoc] at hF
    have hsfb : sfTot ms < u64Limit := lt_u64 (by rw [hJ.sf]; exact hS)
    refine bind_noPanic ?_ (fun ms1 h1 => ?_)
    · unfold vb2Step
      refine bind_noPanic (v2_transaction_noPanic ms t mw hG) (fun _ hv => ?_)
      have hov : validateV2CurrencyOverflow t = .ok () := by
        have := (validateV2Transaction_ok_iff ms t mw).1 hv
        exact this.2.1.1
      obtain ⟨hfcv, hrnv⟩ := v2_created_bounds hov
      obtain ⟨ms1, ha⟩ := v2txn_total hc hfix hJ.inv hm2 hF hJ.cs (by rw [hJ.sf]; exact hS)
        (by rw [hb]; unfold Cur at *; omega) hfcv hrnv hv
      rw [ha]; intro m hm; cases hm
    · obtain ⟨_, hv, ha⟩ := bind_ok_iff.1 h1
      obtain ⟨hI1, hF1, hb1, hP1, hS1, hpl1, hsv1, hpf1, hwi1⟩ := v2txn_conserves hc hfix hJ.inv hm2 hF
        (hnw t List.mem_cons_self) hsfb hv ha
      have hJ1 := bj_step hJ hI1 hb1 (t.fee + t.forfeits) _ (by rw [← Nat.add_assoc]; exact hP1) hS1 hpl1 hsv1
        (by have := hwi1 (by rw [hb]; exact hmd); rw [hb] at this; exact this)
      exact ih ms1 R (hb1 ▸ hc) (hb1 ▸ hfix) hJ1 hF1 (fun t' ht' => hnw t' (List.mem_cons_of_mem _ ht'))

-- ================================================================= whole blocks

/-- Solvent ledger: twice the value function fits in a `Currency` (one `V L` bounds the pool plus the mature
outputs that can fund tax in a block, the other the value locked in v2 contracts that renewals can roll over),
at most 10000 siafunds are live, no live siafund output has a claim start above the pool, and outputs created
by claims / resolutions / payouts are not spendable in the block that creates them (`maturityDelay ≥ 1`).
(`WF` carries `ParamsOk`.) -/
def Solvent (L : Ledger) : Prop := 2 * V L < curLimit ∧ SFtot L ≤ 10000 ∧ CsOkL L ∧ 1 ≤ L.P.maturityDelay

instance (L : Ledger) : Decidable (Solvent L) := by unfold Solvent CsOkL; exact inferInstance

/-- `validateBlock` (which applies each transaction after validating it) never panics on a well-formed solvent
ledger with the ephemeral-output fix active.
Hypotheses on the block: `FreshIds` — hash-collision freedom, *necessary in the model*
(`c10_collision_panics_model`); `SfNoWrap`, `IdListsCover` — the two modelling-artefact hypotheses of C01
(siafund output sums below 2^64: block weight; id lists long enough: `ValidOutputID(i)` exists for every `i`).
Neither `Solvent` nor the window hypothesis is necessary any more (they were before the `validateTaxPool` fix):
`c10_validate_no_panic_legacy` below proves the same conclusion from the element-wise `WeakInv` alone; this theorem is
kept for the solvency bookkeeping (`c10_solvent_preserved`).
Why no arithmetic panics: sums over genuine parents are bounded by the potential, which is at most `2·V L`;
claims need `claimStart ≤ pool` (`CsOk`) and at most 10000 siafunds; the tax added to the pool is funded by the
transaction's *mature* inputs and by rollovers out of base contracts, and the potential exceeds `V L` only by
immature outputs, so `pool + tax ≤ 2·V L`. -/
theorem c10_validate_no_panic {L : Ledger} (hw : WF L) (hs : Solvent L) (hfix : L.child ≥ L.P.ephemeralFix)
    (b : Block) (pid : Id) (hf : FreshIds L b) (hnw : SfNoWrap b) (hcov : IdListsCover L b pid) :
    ∀ msg, validateBlock L b pid ≠ .error (.panic msg) := by
  obtain ⟨hV, hS, hcs, hmd⟩ := hs
  show NoPanic (validateBlock L b pid)
  rw [validateBlock_eq]
  refine bind_noPanic (validateOrphan_noPanic L b) (fun _ _ => ?_)
  refine bind_noPanic (validateSupplement_noPanic L b) (fun u hsu => ?_)
  cases u
  obtain ⟨hsupp, _, _⟩ := validateSupplement_ok hsu
  split
  · simp
  have hc : Ctx (Tb L b) (newMid L).base := ctx_of_wf hw hf
  have hF0 := fresh_newMid hf
  unfold Block.created at hF0
  have hJ0 : BJ (Tb L b) L (newMid L) := bj_newMid L hcs
  refine bind_noPanic (v1_fold_noPanic L hV hS hmd pid b.maxWeight b.txns1 (newMid L) _
    hc hJ0 hsupp hF0 hcov.1 hnw.1) (fun s hs1 => ?_)
  obtain ⟨hJ1, hF1, hp1⟩ := v1_fold_state L pid b.maxWeight b.txns1 (newMid L) s _ hc hJ0 hsupp hF0 hcov.1 hnw.1 hS hmd hs1
  have hb1 := hJ1.base
  exact v2_fold_noPanic L hV hS hmd hw.fc2_missed b.maxWeight b.v2txns s _ (by rw [hb1]; exact hc) (by rw [hb1]; exact hfix) hJ1 hF1 hnw.2

/-- A block accepted by validation is applied without panic; the Foundation subsidy is computable whenever
the parameters are sane (`ParamsOk`, part of `WF`). -/
theorem c10_accepted_applies_solvent {L : Ledger} (hp : ParamsOk L.P) (b : Block) (pid : Id) (ms : Mid)
    (hv : validateBlock L b pid = .ok ms) : ∃ r, applyBlock L b = .ok r :=
  c10_accepted_applies L b pid ms hv (foundationSubsidy_ok L hp)

/-- Solvency is preserved by an accepted block that leaves room for the scheduled issuance and for the claims
the collected tax can fund. -/
theorem c10_solvent_preserved {L : Ledger} {b : Block} {pid : Id} {msv : Mid}
    (hw : WF L) (hs : Solvent L) (hf : FreshIds L b) (hfix : L.child ≥ L.P.ephemeralFix) (hnw : SfNoWrap b)
    (hcov : IdListsCover L b pid) (hv : validateBlock L b pid = .ok msv)
    (hroom : 2 * (V L + blockReward L + subsidyVal L + L.pool + b.taxSum L) < curLimit) :
    ∀ L' ms, applyBlock L b = .ok (L', ms) → Solvent L' ∧ WF L' := by
  obtain ⟨hV, hS, hcs, hmd⟩ := hs
  obtain ⟨ms, hm, hI, hb, hP, hSf, hpl, hsv, hpf⟩ := block_conserves hw hf hfix hnw hcov hv
  intro L' ms' h
  have hwf := (C01.c01_wf_preserved hw hf hfix hnw hcov hv L' ms' h).1
  unfold applyBlock at h; rw [hm] at h; cases h
  obtain ⟨c, q⟩ := hsv ((csOk_newMid L).mpr hcs)
  rw [Psi_newMid] at q
  refine ⟨⟨?_, ?_, csOkL_commit c _, by show 1 ≤ ms.base.P.maturityDelay; rw [hb]; exact hmd⟩, hwf⟩
  · rw [V_commit]
    have h1 := PsiL_le L
    have h2 : (ms.pool - L.pool) * SFtot L + SFtot L * L.pool = SFtot L * ms.pool := by
      rw [Nat.mul_comm (SFtot L) L.pool, ← Nat.add_mul, Nat.mul_comm]; congr 1; unfold Cur at *; omega
    have h3 : SFtot L * ms.pool ≤ 10000 * ms.pool := Nat.mul_le_mul_right _ hS
    generalize (ms.pool - L.pool) * SFtot L = d at *
    generalize SFtot L * L.pool = e at *
    generalize SFtot L * ms.pool = f at *
    unfold Cur at *; omega
  · rw [SF_commit, hSf]; exact hS

-- ================================================================= the hypotheses are satisfiable

/-- the concrete block of C01 (v1 payment, proof, expiry; v2 payment, formation, claim, expiration) -/
example : ∀ msg, validateBlock exL exB 98 ≠ .error (.panic msg) :=
  c10_validate_no_panic ex_wf (by decide) (by decide) exB 98 ex_fresh ex_nowrap ex_cover

example : ∀ L' ms, applyBlock exL exB = .ok (L', ms) → Solvent L' ∧ WF L' := by
  obtain ⟨ms, hv⟩ := ex_valid
  exact c10_solvent_preserved ex_wf (by decide) ex_fresh (by decide) ex_nowrap ex_cover hv (by decide)

-- ================================================================= hash-collision freedom is necessary in the model

/-! A created siafund output id (7) equal to the id of a live siacoin element: the shared `elements` index then
makes `spendSc` overwrite another diff and a later lookup in the same transaction fails. In Go this needs a
BLAKE2b collision between a `SiafundOutputID` and a `SiacoinOutputID`. -/
def cE1 : ScElem := { id := 1, value := 100, addr := 7, maturity := 0, leaf := some 0 }
def cE7 : ScElem := { id := 7, value := 50, addr := 7, maturity := 0, leaf := some 1 }
def cS2 : SfElem := { id := 2, value := 10000, addr := 8, claimStart := 0, leaf := some 2 }
def cL : Ledger := { exL with sc := [cE1, cE7], sf := [cS2], fc1 := [], fc2 := [], pool := 0 }
def cT1 : Txn1 :=
  { scIns := [{ parent := 1, timelock := 0, ucAddr := 7 }], scOuts := [(5, { value := 100, addr := 7 })],
    fcs := [], revs := [], proofs := [], sfIns := [{ parent := 2, timelock := 0, ucAddr := 8, claimAddr := 8, claimId := 12 }],
    sfOuts := [(7, 10000, 8)], fees := [], foundation := none, sigsOk := true, weight := 1,
    supp := { scIns := [cE1], sfIns := [cS2], revised := [], proofs := [] } }
def cT2 : Txn1 :=
  { scIns := [{ parent := 7, timelock := 0, ucAddr := 7 }, { parent := 5, timelock := 0, ucAddr := 7 }],
    scOuts := [(20, { value := 150, addr := 7 })],
    fcs := [], revs := [], proofs := [], sfIns := [], sfOuts := [], fees := [], foundation := none, sigsOk := true, weight := 1,
    supp := { scIns := [cE7], sfIns := [], revised := [], proofs := [] } }
def cB : Block :=
  { txns1 := [cT1, cT2], v2 := none, payouts := [(30, { value := 30, addr := 9 })],
    foundationOutId := 31, expiring := [], headerOk := true, blockId := 99, maxWeight := 100 }

/-- without `FreshIds` the model's `validateBlock` can panic although every other hypothesis holds -/
theorem c10_collision_panics_model :
    WF cL ∧ Solvent cL ∧ cL.child ≥ cL.P.ephemeralFix ∧ SfNoWrap cB ∧ IdListsCover cL cB 98 ∧
    ¬ FreshIds cL cB ∧ validateBlock cL cB 98 = .error (.panic "missing SiacoinElement") := by
  refine ⟨⟨by decide, by decide, by decide, by decide, by unfold ParamsOk; decide⟩, by decide, by decide,
    by constructor <;> decide, ⟨by decide, by decide⟩, ?_, by rfl⟩
  intro h
  exact h.2 (Kind.sf, 7) (by decide) Kind.sc (by decide)

-- ================================================================= the legacy window: the tax-pool overflow

/-! Below `EphemeralOutputHeight` the value claimed for an ephemeral siacoin parent is not checked, so a block can
conjure 27 inputs of almost 2^128 each and form 27 contracts whose tax (1/26 of 2^128 each) would overflow
`SiafundTaxRevenue` in `createFc2` (`addC pool tax`), which `validateBlock` executes between transactions.
This history was found as a `decide`d PANIC witness of the model (`validateBlock pL pB 98 = .error (.panic "overflow")`),
replayed on the Go code (C10 mutant `v2:ephemeral-inflated-contract-tax`), and repaired by the `fix:` commit
"reject transactions whose contract tax overflows the siafund pool" (`validateTaxPool` / `validateV2TaxPool` in the
model). The theorem below is the regression guard: the same block is now REJECTED, the 26-formation block accepted. -/
def bigY : Nat := (curLimit - 1) / 26 * 25
def lgFc : Fc2 :=
  { capacity := 10, filesize := 0, root := 0, proofHeight := 10, expHeight := 20,
    renter := { value := bigY, addr := 7 }, host := { value := 0, addr := 9 }, missedHost := 0,
    totalCollateral := 0, renterKey := 1, hostKey := 2, revNum := 0 }
def pL : Ledger := { exL with P := { exP with ephemeralFix := 100 }, sc := [exSc1], sf := [exSf2], fc1 := [], fc2 := [], pool := 0 }
def pT0 : Txn2 :=
  { scIns := [{ parent := exSc1, addrOk := true, authOk := true }],
    scOuts := (List.range 27).map (fun i => (100 + i, { value := 1, addr := 9 })) ++ [(99, { value := 973, addr := 9 })],
    sfIns := [], sfOuts := [], fcs := [], revs := [], ress := [], natts := 0, attsOk := true,
    newFoundation := none, fee := 0, weight := 1 }
def pT (i : Nat) : Txn2 :=
  { scIns := [{ parent := { id := 100 + i, value := bigY + bigY / 25, addr := 9, maturity := 0, leaf := none }, addrOk := true, authOk := true }],
    scOuts := [], sfIns := [], sfOuts := [], fcs := [(200 + i, lgFc, true)], revs := [], ress := [], natts := 0, attsOk := true,
    newFoundation := none, fee := 0, weight := 1 }
def pB : Block :=
  { txns1 := [], v2 := some (5, true, pT0 :: (List.range 27).map pT), payouts := [(30, { value := 30, addr := 9 })],
    foundationOutId := 31, expiring := [], headerOk := true, blockId := 99, maxWeight := 100 }
def pB26 : Block := { pB with v2 := some (5, true, pT0 :: (List.range 26).map pT) }

/-- with 26 formations the block is accepted; with 27 it is rejected by the tax-pool check (it used to panic);
every hypothesis of the no-panic theorem except `child ≥ ephemeralFix` holds -/
theorem c10_legacy_window_tax_overflow_rejected :
    WF pL ∧ Solvent pL ∧ pL.child < pL.P.ephemeralFix ∧ FreshIds pL pB ∧ SfNoWrap pB ∧ IdListsCover pL pB 98 ∧
    (match validateBlock pL pB26 98 with | .ok _ => true | .error _ => false) = true ∧
    (match validateBlock pL pB 98 with | .error (.reject _) => true | _ => false) = true := by
  refine ⟨⟨by decide, by decide, by decide, by decide, by unfold ParamsOk; decide⟩, by decide, by decide,
    ⟨by decide, ?_⟩, by constructor <;> decide, ⟨by decide, by decide⟩, by decide, by rfl⟩
  intro p hp k
  cases k <;> revert p <;> decide

-- ================================================================= the weak invariant: no solvency, no window hypothesis

/-- What every ledger reachable from a `WeakInv` ledger satisfies **by construction**, in and out of the legacy
window: ids of live elements are pairwise distinct across kinds, v1 contracts are balanced, the parameters are sane,
and *element-wise* bounds — every live siafund output has a claim start at most the pool and a value of at most
10000, every live contract's payout sum fits in a `Currency`, and so does the pool. No bound on any sum over the
ledger (`V L`, `SFtot L`), no `missedHost ≤ host` (both can be broken below `EphemeralOutputHeight`). -/
def WeakInv (L : Ledger) : Prop :=
  (baseIds L .sc ++ baseIds L .sf ++ baseIds L .fc1 ++ baseIds L .fc2).Nodup ∧
  (∀ e ∈ L.fc1, sumVals e.fc.valid = sumVals e.fc.missed) ∧
  ParamsOk L.P ∧
  (∀ e ∈ L.sf, e.claimStart ≤ L.pool ∧ e.value ≤ 10000) ∧
  (∀ e ∈ L.fc1, sumVals e.fc.valid < curLimit) ∧
  (∀ e ∈ L.fc2, e.fc.renter.value + e.fc.host.value < curLimit) ∧
  L.pool < curLimit

instance (L : Ledger) : Decidable (WeakInv L) := by unfold WeakInv ParamsOk; exact inferInstance

theorem WeakInv.numL {L : Ledger} (h : WeakInv L) : NumL L :=
  ⟨h.2.2.2.1, fun e he => ⟨h.2.2.2.2.1 e he, by rw [← h.2.1 e he]; exact h.2.2.2.2.1 e he⟩,
    fun e he => h.2.2.2.2.2.1 e he, h.2.2.2.2.2.2⟩

theorem WeakInv.ctx {L : Ledger} {b : Block} (h : WeakInv L) (hf : FreshIds L b) : Ctx (Tb L b) L :=
  ctx_of_nodup h.1 h.2.1 hf

/-- a well-formed solvent ledger satisfies the weak invariant -/
theorem weakInv_of_wf_solvent {L : Ledger} (hw : WF L) (hs : Solvent L) : WeakInv L := by
  obtain ⟨hV, hS, hcs, _⟩ := hs
  refine ⟨hw.nodup, hw.fc1_bal, hw.params, fun e he => ⟨hcs e he, ?_⟩, fun e he => ?_, fun e he => ?_, ?_⟩
  · have := le_sum_map_of_mem L.sf (·.value) he
    unfold SFtot at hS; omega
  · have := fc1_val_le_V he; unfold Fc1.val at this; cur_omega
  · have := fc2_val_le_V he; unfold Fc2.val at this; cur_omega
  · unfold V at hV; cur_omega

-- ----------------------------------------------------------------- what the pre-checks give

theorem taxPool1_ok {ms : Mid} {t : Txn1} (h : validateTaxPool ms t = .ok ()) : ms.pool + t.taxes ms.base < curLimit := by
  unfold validateTaxPool at h
  split at h
  · exact absurd h (reject_ne_ok _ _)
  · rename_i hn
    cases hs : sumChecked (ms.pool :: t.fcs.map (fun f => fileContractTax ms.base f.2.payout)) with
    | none => exact absurd (by rw [hs]; rfl) hn
    | some v =>
      have := sumChecked_some hs
      rw [List.sum_cons] at this
      unfold Txn1.taxes; exact this

theorem filterMap_getD_sum {α : Type} (l : List α) (f : α → Option Nat) :
    (l.filterMap f).sum = (l.map (fun r => (f r).getD 0)).sum := by
  induction l with
  | nil => rfl
  | cons r l ih =>
    rw [List.filterMap_cons, List.map_cons, List.sum_cons]
    cases hf : f r with
    | none => simp only [Option.getD_none, Nat.zero_add]; exact ih
    | some v => simp only [Option.getD_some, List.sum_cons]; rw [ih]

theorem taxPool2_ok {ms : Mid} {t : Txn2} (h : validateV2TaxPool ms t = .ok ()) : ms.pool + t.taxes < curLimit := by
  unfold validateV2TaxPool at h
  simp only [] at h
  split at h
  · exact absurd h (reject_ne_ok _ _)
  · rename_i hn
    generalize hs : sumChecked _ = o at hn
    cases o with
    | none => exact absurd rfl hn
    | some v =>
      have := sumChecked_some hs
      rw [List.sum_cons, List.sum_append] at this
      refine Nat.lt_of_le_of_lt ?_ this
      unfold Txn2.taxes
      apply Nat.add_le_add_left
      apply Nat.add_le_add
      · apply Nat.le_of_eq; congr 1
      · rw [filterMap_getD_sum]
        apply Nat.le_of_eq; congr 1
        apply List.map_congr_left
        intro r _
        unfold resTax
        cases r.res <;> rfl

theorem v1_sfouts_le {t : Txn1} (hov : validateCurrencyOverflow t = .ok ()) : ∀ x ∈ t.sfOuts, x.2.1 ≤ 10000 := by
  unfold validateCurrencyOverflow at hov
  split at hov
  · exact absurd hov (reject_ne_ok _ _)
  · rename_i h
    intro x hx
    apply Decidable.byContradiction; intro hgt
    apply h; right
    rw [List.any_eq_true]
    exact ⟨x, hx, by obtain ⟨a, v, c⟩ := x; simp only [decide_eq_true_eq]; simp only [] at hgt; omega⟩

theorem v2_sfouts_le {t : Txn2} (hov : validateV2CurrencyOverflow t = .ok ()) : ∀ x ∈ t.sfOuts, x.2.1 ≤ 10000 := by
  unfold validateV2CurrencyOverflow at hov
  simp only [] at hov
  split at hov
  · exact absurd hov (reject_ne_ok _ _)
  · split at hov
    · exact absurd hov (reject_ne_ok _ _)
    · rename_i h
      intro x hx
      apply Decidable.byContradiction; intro hgt
      apply h; right
      rw [List.any_eq_true]
      exact ⟨x, hx, by obtain ⟨a, v, c⟩ := x; simp only [decide_eq_true_eq]; simp only [] at hgt; omega⟩

theorem v2_rev_bounds {t : Txn2} (hov : validateV2CurrencyOverflow t = .ok ()) : ∀ r ∈ t.revs, r.rev.val < curLimit := by
  obtain ⟨hsome, _⟩ := validateV2CurrencyOverflow_ok hov
  intro r hr
  have hm : v2Contract r.rev ∈ v2Parts t := by
    unfold v2Parts
    simp only [List.mem_append, List.mem_map]
    exact Or.inl (Or.inl (Or.inr ⟨r, hr, rfl⟩))
  have := hsome _ hm
  unfold v2Contract at this
  split at this
  · unfold Fc2.val; assumption
  · exact absurd rfl this

-- ----------------------------------------------------------------- folds over the transactions of a block

theorem v1_fold_weak {T} (L : Ledger) (hN : NumL L) (pid : Id) (mw : Nat) (l : List Txn1) :
    ∀ (ms : Mid) (R : List (Kind × Id)), Ctx T ms.base → ms.base = L → Inv T ms → Num ms →
    (∀ t ∈ l, SuppOk L t.supp) → Fresh T ms (l.flatMap Txn1.created ++ R) → checkProofIds pid mw ms l = true →
    NoPanic (l.foldlM (vb1Step pid mw) ms) ∧
    ∀ ms', l.foldlM (vb1Step pid mw) ms = .ok ms' → Inv T ms' ∧ Num ms' ∧ Fresh T ms' R ∧ ms'.base = L := by
  induction l with
  | nil =>
    intro ms R _ hb hI hn _ hF _
    refine ⟨by simp [pure, Except.pure], fun ms' h => ?_⟩
    cases h; exact ⟨hI, hn, hF, hb⟩
  | cons t l ih =>
    intro ms R hc hb hI hn hsupp hF hchk
    have hsu : SuppOk ms.base t.supp := by rw [hb]; exact hsupp t List.mem_cons_self
    have hNb : NumL ms.base := by rw [hb]; exact hN
    have hG : GenuineBound1 ms t.supp := fun id p _ hp => fc1P_of_element hn hNb hsu hp
    simp only [List.flatMap_cons, List.append_assoc] at hF
    have hchk' := hchk
    unfold checkProofIds at hchk'
    rw [Bool.and_eq_true] at hchk'
    have hlen : ∀ sp ∈ t.proofs, ∀ e, ms.fc1Element t.supp sp.parent = some e → e.fc.valid.length ≤ sp.outIds.length := by
      intro sp hsp e he
      have := List.all_eq_true.mp hchk'.1 sp hsp
      rw [he] at this; simpa using this
    have hstep : ∀ hv : validateTransaction ms t pid mw = .ok (), ∃ ms1, applyTransaction ms t = .ok ms1 ∧
        Inv T ms1 ∧ Num ms1 ∧ Fresh T ms1 (l.flatMap Txn1.created ++ R) ∧ ms1.base = L := by
      intro hv
      obtain ⟨_, ⟨hov, htp⟩, _⟩ := (validateTransaction_ok_iff ms t pid mw).1 hv
      obtain ⟨_, hv2, _, _⟩ := validateTransaction_ok hv
      obtain ⟨hsf, _⟩ := validateSiafunds1_ok hv2
      have hclaim : ∀ sfi ∈ t.sfIns, ∀ e, ms.sfElement t.supp sfi.parent = some e →
          e.claimStart ≤ ms.pool ∧ e.value ≤ 10000 := by
        intro sfi hs e he
        unfold Mid.sfElement at he
        cases hd : ms.sfDiff? sfi.parent with
        | some d =>
          rw [hd] at he; simp only [] at he; cases he
          obtain ⟨hm, hid⟩ := sfDiff?_mem hd
          have hsp : d.spent = false := by
            cases hspt : d.spent with
            | false => rfl
            | true =>
              have := isSpent_of_mem ((hI.sf d hm).2.2 hspt)
              rw [hid, (hsf sfi hs).1] at this; cases this
          exact hn.sf d hm hsp
        | none =>
          rw [hd] at he; simp only [] at he
          obtain ⟨a, b⟩ := hNb.sf e (hsu.sf e (List.mem_of_find?_eq_some he))
          exact ⟨Nat.le_trans a hn.lo, b⟩
      obtain ⟨ms1, ha, hI1, hF1, hb1, _⟩ := v1txn_weak hc hI hsu hF hlen hclaim (taxPool1_ok htp) hv
      obtain ⟨hfcb, hrevb⟩ := v1_overflow_bounds hov
      have hn1 := v1txn_num hn hNb hsu (v1_sfouts_le hov)
        (fun x hx => by have := hfcb x hx; constructor <;> cur_omega)
        (fun r hr => by have := hrevb r hr; constructor <;> cur_omega) ha
      exact ⟨ms1, ha, hI1, hn1, hF1, hb1.trans hb⟩
    have hnext : ∀ ms1, vb1Step pid mw ms t = .ok ms1 →
        Inv T ms1 ∧ Num ms1 ∧ Fresh T ms1 (l.flatMap Txn1.created ++ R) ∧ ms1.base = L ∧
        checkProofIds pid mw ms1 l = true := by
      intro ms1 h1
      obtain ⟨_, hv, ha⟩ := bind_ok_iff.1 h1
      obtain ⟨ms1', ha', r⟩ := hstep hv
      rw [ha] at ha'; cases ha'
      have hst : stepV1 pid mw ms t = .ok ms1 := by rw [stepV1_eq_vb1Step]; exact h1
      rw [hst] at hchk'; simp only [] at hchk'
      exact ⟨r.1, r.2.1, r.2.2.1, r.2.2.2, hchk'.2⟩
    rw [List.foldlM_cons]
    constructor
    · refine bind_noPanic ?_ (fun ms1 h1 => ?_)
      · unfold vb1Step
        refine bind_noPanic (v1_transaction_noPanic ms t pid mw hG) (fun _ hv => ?_)
        obtain ⟨ms1, ha, _⟩ := hstep hv
        rw [ha]; intro m hm; cases hm
      · obtain ⟨a, b, c, d, e⟩ := hnext ms1 h1
        exact (ih ms1 R (by rw [d]; rw [← hb]; exact hc) d a b (fun t' ht' => hsupp t' (List.mem_cons_of_mem _ ht')) c e).1
    · intro ms' h
      obtain ⟨ms1, h1, h2⟩ := bind_ok_iff.1 h
      obtain ⟨a, b, c, d, e⟩ := hnext ms1 h1
      exact (ih ms1 R (by rw [d]; rw [← hb]; exact hc) d a b (fun t' ht' => hsupp t' (List.mem_cons_of_mem _ ht')) c e).2 ms' h2

theorem genuineBound2_of_num {ms : Mid} (hn : Num ms) (hN : NumL ms.base) : GenuineBound2 ms := by
  intro e _ hb
  have he := hN.fc2 e (mem_base_fc2 hb).1
  unfold Fc2.val at he
  refine ⟨?_, he⟩
  unfold Mid.curFc2
  cases hlk : ms.lookup e.id with
  | none => exact he
  | some i =>
    simp only []
    rcases getD_mem_or_default_w ms.v2fces i with hm | ⟨_, hd⟩
    · cases hr : (ms.v2fces.getD i default).revision with
      | none => exact he
      | some r => have := (hn.fc2 _ hm).2 r hr; unfold Fc2.val at this; exact this
    · rw [hd]; exact he

theorem v2_fold_weak {T} (L : Ledger) (hN : NumL L) (mw : Nat) (l : List Txn2) :
    ∀ (ms : Mid) (R : List (Kind × Id)), Ctx T ms.base → ms.base = L → WI T ms (l.flatMap Txn2.created ++ R) →
    NoPanic (l.foldlM (vb2Step mw) ms) ∧
    ∀ ms', l.foldlM (vb2Step mw) ms = .ok ms' → WI T ms' R ∧ ms'.base = L := by
  induction l with
  | nil =>
    intro ms R _ hb hw
    refine ⟨by simp [pure, Except.pure], fun ms' h => ?_⟩
    cases h; exact ⟨hw, hb⟩
  | cons t l ih =>
    intro ms R hc hb hw
    have hNb : NumL ms.base := by rw [hb]; exact hN
    have hG := genuineBound2_of_num hw.num hNb
    simp only [List.flatMap_cons, List.append_assoc] at hw
    have hstep : ∀ hv : validateV2Transaction ms t mw = .ok (), ∃ ms1, applyV2Transaction ms t = .ok ms1 ∧
        WI T ms1 (l.flatMap Txn2.created ++ R) ∧ ms1.base = L := by
      intro hv
      obtain ⟨_, ⟨hov, htp⟩, _⟩ := (validateV2Transaction_ok_iff ms t mw).1 hv
      obtain ⟨hfcv, hrnv⟩ := v2_created_bounds hov
      obtain ⟨ms1, ha, w1, x1, _⟩ := v2txn_weak hc hNb hw hfcv hrnv (v2_rev_bounds hov) (v2_sfouts_le hov) (taxPool2_ok htp) hv
      exact ⟨ms1, ha, w1, x1.1.trans hb⟩
    rw [List.foldlM_cons]
    constructor
    · refine bind_noPanic ?_ (fun ms1 h1 => ?_)
      · unfold vb2Step
        refine bind_noPanic (v2_transaction_noPanic ms t mw hG) (fun _ hv => ?_)
        obtain ⟨ms1, ha, _⟩ := hstep hv
        rw [ha]; intro m hm; cases hm
      · obtain ⟨_, hv, ha⟩ := bind_ok_iff.1 h1
        obtain ⟨ms1', ha', w1, b1⟩ := hstep hv
        rw [ha] at ha'; cases ha'
        exact (ih ms1 R (by rw [b1]; rw [← hb]; exact hc) b1 w1).1
    · intro ms' h
      obtain ⟨ms1, h1, h2⟩ := bind_ok_iff.1 h
      obtain ⟨_, hv, ha⟩ := bind_ok_iff.1 h1
      obtain ⟨ms1', ha', w1, b1⟩ := hstep hv
      rw [ha] at ha'; cases ha'
      exact (ih ms1 R (by rw [b1]; rw [← hb]; exact hc) b1 w1).2 ms' h2

-- ----------------------------------------------------------------- whole blocks

/-- **No window hypothesis, no solvency.** `validateBlock` never panics on a ledger that satisfies the weak
invariant, whether or not the ephemeral-output fix is active. The remaining hypotheses on the block are
`FreshIds` (hash-collision freedom, necessary in the model: `c10_collision_panics_model`) and the first half of
`IdListsCover` (a modelling artefact). `SfNoWrap` is not needed.
Why the legacy window adds no panic once `validateTaxPool` / `validateV2TaxPool` are in place: below
`EphemeralOutputHeight` a forged ephemeral parent can only overwrite a siacoin / siafund diff with a *spent* record,
and no later step reads a spent record; the checked additions reject inflated input sums; a forged siafund parent's
claim is checked to be computable by `validateEphemeralSf`; contract diffs are never touched by a forged parent, so
`resolveFc2` finds an uncreated diff; and every arithmetic step of `apply` is bounded by a pre-check of the same
transaction or by an element-wise bound of `WeakInv`. -/
theorem c10_validate_no_panic_legacy {L : Ledger} (hw : WeakInv L) (b : Block) (pid : Id)
    (hf : FreshIds L b) (hcov : IdListsCover L b pid) :
    ∀ msg, validateBlock L b pid ≠ .error (.panic msg) := by
  show NoPanic (validateBlock L b pid)
  rw [validateBlock_eq]
  refine bind_noPanic (validateOrphan_noPanic L b) (fun _ _ => ?_)
  refine bind_noPanic (validateSupplement_noPanic L b) (fun u hsu => ?_)
  cases u
  obtain ⟨hsupp, _, _⟩ := validateSupplement_ok hsu
  split
  · simp
  have hc : Ctx (Tb L b) (newMid L).base := hw.ctx hf
  have hF0 := fresh_newMid hf
  unfold Block.created at hF0
  obtain ⟨np1, st1⟩ := v1_fold_weak (T := Tb L b) L hw.numL pid b.maxWeight b.txns1 (newMid L) _ hc rfl (inv_newMid L)
    (num_newMid hw.numL) hsupp hF0 hcov.1
  refine bind_noPanic np1 (fun s hs1 => ?_)
  obtain ⟨hI1, hn1, hF1, hb1⟩ := st1 s hs1
  have hc1 : Ctx (Tb L b) s.base := by rw [hb1]; exact hc
  exact (v2_fold_weak (T := Tb L b) L hw.numL b.maxWeight b.v2txns s _ hc1 hb1 ⟨li_of_inv hc1 hI1, hF1, hn1⟩).1

/-- **Every accepted block keeps the weak invariant**, legacy-window blocks included: all ledgers reachable from a
`WeakInv` ledger (for instance from genesis) through accepted blocks satisfy it, so `validateBlock` never panics
on any of them (`c10_validate_no_panic_legacy`). -/
theorem c10_weakinv_preserved {L : Ledger} {b : Block} {pid : Id} {msv : Mid} (hw : WeakInv L)
    (hf : FreshIds L b) (hcov : IdListsCover L b pid) (hv : validateBlock L b pid = .ok msv) :
    ∀ L' ms, applyBlock L b = .ok (L', ms) → WeakInv L' := by
  obtain ⟨hvo, hvs, ms1, hl1, hl2⟩ := validateBlock_ok hv
  obtain ⟨hsupp, hexp, hcond⟩ := validateSupplement_ok hvs
  have hc : Ctx (Tb L b) L := hw.ctx hf
  have hF0 := fresh_newMid hf
  unfold Block.created at hF0
  obtain ⟨_, st1⟩ := v1_fold_weak (T := Tb L b) L hw.numL pid b.maxWeight b.txns1 (newMid L) _ hc rfl (inv_newMid L)
    (num_newMid hw.numL) hsupp hF0 hcov.1
  obtain ⟨hI1, hn1, hF1, hb1⟩ := st1 ms1 (by rw [← stepV1_eq_vb1Step]; exact hl1)
  have hc1 : Ctx (Tb L b) ms1.base := by rw [hb1]; exact hc
  obtain ⟨_, st2⟩ := v2_fold_weak (T := Tb L b) L hw.numL b.maxWeight b.v2txns ms1 _ hc1 hb1 ⟨li_of_inv hc1 hI1, hF1, hn1⟩
  obtain ⟨w2, hb2⟩ := st2 msv (by rw [← stepV2_eq_vb2Step]; exact hl2)
  obtain ⟨sub, hsub⟩ := foundationSubsidy_ok L hw.2.2.1
  obtain ⟨ms3, ms5, a3, hb3, a5, w5, hb5⟩ := weak_block_tail hc hw.numL hb2 w2 hexp sub
  have hm : midApplyBlock (newMid L) b = .ok ms5 := by
    rw [midApplyBlock_eq_c1]
    have hcond' : ¬ ((newMid L).base.child ≥ (newMid L).base.P.v2Require ∧ (b.txns1.length ≠ 0 ∨ b.expiring.length ≠ 0)) := hcond
    rw [if_neg hcond', bind_eq_ok]
    refine ⟨ms1, fold_stepV1_apply _ _ _ _ _ hl1, ?_⟩
    rw [bind_eq_ok]; refine ⟨msv, fold_stepV2_apply _ _ _ _ hl2, ?_⟩
    rw [bind_eq_ok]; refine ⟨ms3, a3, ?_⟩
    rw [bind_eq_ok]; exact ⟨sub, by rw [hb3]; exact hsub, a5⟩
  intro L' ms' h
  unfold applyBlock at h; rw [hm] at h; cases h
  have hc5 : Ctx (Tb L b) ms5.base := by rw [hb5]; exact hc
  obtain ⟨s1, s2⟩ := weak_commit_struct hc5 w5.li b.blockId
  have hN5 := weak_commit_num w5.num (by rw [hb5]; exact hw.numL) b.blockId
  refine ⟨s1, s2, ?_, hN5.sf, fun e he => (hN5.fc1 e he).1, fun e he => hN5.fc2 e he, hN5.pool⟩
  show ParamsOk ms5.base.P
  rw [hb5]; exact hw.2.2.1

/-- corollary: along any chain of accepted blocks starting from a `WeakInv` ledger the next `validateBlock` does not
panic (stated for one step; iterate with `c10_weakinv_preserved`) -/
theorem c10_reachable_no_panic {L : Ledger} {b b' : Block} {pid pid' : Id} {msv : Mid} (hw : WeakInv L)
    (hf : FreshIds L b) (hcov : IdListsCover L b pid) (hv : validateBlock L b pid = .ok msv)
    {L' : Ledger} {ms : Mid} (ha : applyBlock L b = .ok (L', ms))
    (hf' : FreshIds L' b') (hcov' : IdListsCover L' b' pid') :
    ∀ msg, validateBlock L' b' pid' ≠ .error (.panic msg) :=
  c10_validate_no_panic_legacy (c10_weakinv_preserved hw hf hcov hv L' ms ha) b' pid' hf' hcov'



/-- a block accepted by validation is applied without panic (`WeakInv` carries `ParamsOk`) -/
theorem c10_accepted_applies_weak {L : Ledger} (hw : WeakInv L) (b : Block) (pid : Id) (ms : Mid)
    (hv : validateBlock L b pid = .ok ms) : ∃ r, applyBlock L b = .ok r :=
  c10_accepted_applies_solvent hw.2.2.1 b pid ms hv

-- ================================================================= the weak invariant in the legacy window: witnesses

theorem pL_weak : WeakInv pL := by decide

theorem pB26_fresh : FreshIds pL pB26 := by
  refine ⟨by decide, ?_⟩
  intro p hp k
  cases k <;> revert p <;> decide

/-- The 26-formation legacy block (inflated ephemeral inputs, `c10_legacy_window_tax_overflow_rejected`) is accepted
and leads to a ledger that is **not** `Solvent` (26 contracts of almost 2^128 each) but satisfies `WeakInv`:
`Solvent` is not an invariant of reachable states, `WeakInv` is. -/
theorem c10_legacy_reaches_insolvent :
    WeakInv pL ∧ pL.child < pL.P.ephemeralFix ∧ FreshIds pL pB26 ∧ IdListsCover pL pB26 98 ∧
    (match applyBlock pL pB26 with
      | .ok (L', _) => decide (¬ Solvent L' ∧ WeakInv L')
      | .error _ => false) = true :=
  ⟨pL_weak, by decide, pB26_fresh, ⟨by decide, by decide⟩, by decide⟩

example : ∀ msg, validateBlock pL pB26 98 ≠ .error (.panic msg) :=
  c10_validate_no_panic_legacy pL_weak pB26 98 pB26_fresh ⟨by decide, by decide⟩

/-! Cross-kind forgery in the legacy window: `xT1` spends an "ephemeral siacoin output" whose claimed id 300 is the id
of the *siafund* output created by `xT0`. The shared index maps 300 to slot 1 of the siafund diffs; slot 1 of the
siacoin diffs holds the created output 100, so the legacy check passes and `spendSc` overwrites that diff with the
forged record (5000 coins conjured, output 100 lost). `Struct`/`Inv` no longer hold for the mid-state, the weak
invariant does, nothing panics, and the committed ledger satisfies `WeakInv`. -/
def xT0 : Txn2 :=
  { scIns := [{ parent := exSc1, addrOk := true, authOk := true }], scOuts := [(100, { value := 1000, addr := 9 })],
    sfIns := [{ parent := exSf2, claimAddr := 8, claimId := 12, addrOk := true, authOk := true }],
    sfOuts := [(300, 10000, 8)], fcs := [], revs := [], ress := [], natts := 0, attsOk := true,
    newFoundation := none, fee := 0, weight := 1 }
def xT1 : Txn2 :=
  { scIns := [{ parent := { id := 300, value := 5000, addr := 9, maturity := 0, leaf := none }, addrOk := true, authOk := true }],
    scOuts := [(101, { value := 5000, addr := 9 })], sfIns := [], sfOuts := [], fcs := [], revs := [], ress := [],
    natts := 0, attsOk := true, newFoundation := none, fee := 0, weight := 1 }
def xB : Block :=
  { txns1 := [], v2 := some (5, true, [xT0, xT1]), payouts := [(30, { value := 30, addr := 9 })],
    foundationOutId := 31, expiring := [], headerOk := true, blockId := 99, maxWeight := 100 }

theorem xB_fresh : FreshIds pL xB := by
  refine ⟨by decide, ?_⟩
  intro p hp k
  cases k <;> revert p <;> decide

theorem c10_legacy_cross_kind_forgery :
    (match validateBlock pL xB 98 with
      | .ok ms => decide (ms.lookup 100 = some 1 ∧ (ms.sces.getD 1 default).e.id = 300 ∧ (ms.sces.getD 1 default).e.value = 5000)
      | .error _ => false) = true ∧
    (match applyBlock pL xB with
      | .ok (L', _) => decide (WeakInv L' ∧ V L' = V pL + 30 + 4000)
      | .error _ => false) = true := by
  constructor <;> decide

example : ∀ msg, validateBlock pL xB 98 ≠ .error (.panic msg) :=
  c10_validate_no_panic_legacy pL_weak xB 98 xB_fresh ⟨by decide, by decide⟩

example : ∀ L' ms, applyBlock pL xB = .ok (L', ms) → WeakInv L' := by
  have hv : ∃ ms, validateBlock pL xB 98 = .ok ms := exists_ok_of_isOk (by decide)
  obtain ⟨ms, hv⟩ := hv
  exact c10_weakinv_preserved pL_weak xB_fresh ⟨by decide, by decide⟩ hv

end C10
