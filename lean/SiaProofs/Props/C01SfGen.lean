import SiaModel.Gen.CodeConsensus
import SiaProofs.Lemmas.GoLoops
/-!
# C01 — "the total number of siafunds never changes", on REGENERATED code

The siafund balance check of a v2 transaction (second half of `consensus.validateV2Siafunds`) adds the input and the
output values in `uint64` — with wrap-around.  It is translated from the source on every run
(`Gen.Consensus.validateV2Siafunds_balance`).  Two theorems:

* `c01_v2_siafund_balance_mod_gen`: what the check by itself establishes — the sums agree MODULO 2^64, and no output is
  zero;
* `c01_v2_siafund_balance_gen`: together with what the rest of validation guarantees about the values (each at most
  the siafund count 10000: outputs by `validateV2CurrencyOverflow`, inputs because they are elements of the
  accumulator) the sums agree as integers — siafunds are neither created nor destroyed by an accepted transaction.

`c01_v2_siafund_wrap_witness` shows that the per-value bound is necessary: outputs {2^63, 2^63 + 4000} pass the
balance check against inputs of 4000.
-/
namespace C01
open Gen.Types Gen.Consensus GoLoops

def W64 : Nat := 18446744073709551616

def sfIn (txn : V2Transaction) : Nat := (txn.SiafundInputs.map (fun i => i.Parent.SiafundOutput.Value)).sum
def sfOut (txn : V2Transaction) : Nat := (txn.SiafundOutputs.map (fun o => o.Value)).sum

/-- a loop that adds `w x` to a `uint64` accumulator, wrapping -/
theorem wrapLoop {α ρ : Type} (w : α → Nat) (ok : α → Prop) (f : Int → α → Nat → Except String (Option ρ × Nat))
    (hf : ∀ i x st r st', f i x st = .ok (r, st') → (r = none → ok x ∧ st' = (st + w x) % 18446744073709551616)) :
    ∀ (xs : List α) (k : Int) (acc s : Nat), Go.forRangeFrom f xs k acc = .ok (none, s) →
      s % 18446744073709551616 = (acc + (xs.map w).sum) % 18446744073709551616 ∧ (∀ x ∈ xs, ok x) ∧ (xs ≠ [] → s < 18446744073709551616) := by
  intro xs
  induction xs with
  | nil =>
    intro k acc s h
    simp [Go.forRangeFrom] at h
    subst h
    simp
  | cons x xs ih =>
    intro k acc s h
    unfold Go.forRangeFrom at h
    cases hx : f k x acc with
    | error e => simp [hx] at h
    | ok p =>
      obtain ⟨r, st1⟩ := p
      cases r with
      | some v => simp [hx] at h
      | none =>
        simp [hx] at h
        obtain ⟨okx, e1⟩ := hf k x acc none st1 hx rfl
        obtain ⟨a, b, c⟩ := ih (k + 1) st1 s h
        refine ⟨?_, ?_, ?_⟩
        · rw [a, e1]; simp [List.map_cons, List.sum_cons]; omega
        · intro y hy
          cases hy with
          | head => exact okx
          | tail _ hm => exact b y hm
        · intro _
          cases xs with
          | nil => simp [Go.forRangeFrom] at h; subst h; rw [e1]; exact Nat.mod_lt _ (by decide)
          | cons y ys => exact c (by simp)

/-- **What the balance check alone establishes**: equal sums modulo 2^64, no zero-valued output. -/
theorem c01_v2_siafund_balance_mod_gen (txn : V2Transaction) (h : validateV2Siafunds_balance txn = .ok none) :
    sfIn txn % 18446744073709551616 = sfOut txn % 18446744073709551616 ∧ (∀ o ∈ txn.SiafundOutputs, o.Value ≠ 0) := by
  unfold validateV2Siafunds_balance Go.forRange at h
  simp only [bind, Except.bind] at h
  split at h
  · cases h
  rename_i v1 hv1
  obtain ⟨r1, s1⟩ := v1
  cases r1 with
  | some q =>
    exfalso
    have := GoLoops.forRangeFrom_some (P := fun _ : Option String => False) ?_ txn.SiafundInputs 0 0 q s1 hv1
    · exact this
    intro i x st r st' hx
    simp [pure, Except.pure] at hx
  | none =>
    obtain ⟨a1, _, _⟩ := wrapLoop (fun i : V2SiafundInput => i.Parent.SiafundOutput.Value) (fun _ => True) _
      (by intro i x st r st' hx hr; simp [pure, Except.pure] at hx; exact ⟨trivial, hx.2.symm⟩) txn.SiafundInputs 0 0 s1 hv1
    simp only [] at h
    split at h
    · cases h
    rename_i v2 hv2
    obtain ⟨r2, s2⟩ := v2
    cases r2 with
    | some q =>
      simp [pure, Except.pure] at h; subst h; exfalso
      have := GoLoops.forRangeFrom_some (P := fun r : Option String => r ≠ none) ?_ txn.SiafundOutputs 0 0 none s2 hv2
      · exact this rfl
      intro i x st r st' hx
      by_cases z : x.Value = 0
      · simp [z, pure, Except.pure] at hx; rw [← hx.1]; simp
      · simp [z, pure, Except.pure] at hx
    | none =>
      obtain ⟨a2, nz, _⟩ := wrapLoop (fun o : SiafundOutput => o.Value) (fun o => o.Value ≠ 0) _
        (by
          intro i x st r st' hx hr
          by_cases z : x.Value = 0
          · simp [z, pure, Except.pure] at hx; rw [hr] at hx; simp at hx
          · simp [z, pure, Except.pure] at hx; exact ⟨z, hx.2.symm⟩) txn.SiafundOutputs 0 0 s2 hv2
      simp only [] at h
      by_cases hne : s1 ≠ s2
      · simp [hne, pure, Except.pure] at h
      · have heq : s1 = s2 := Classical.not_not.mp hne
        refine ⟨?_, nz⟩
        unfold sfIn sfOut
        simp only [Nat.zero_add] at a1 a2
        rw [← a1, ← a2, heq]

/--
**An accepted v2 transaction neither creates nor destroys siafunds**: the regenerated balance check plus the bounds the
rest of validation guarantees (every value at most 10000, fewer than 2^40 inputs and outputs) give equal integer sums.
-/
theorem c01_v2_siafund_balance_gen (txn : V2Transaction) (h : validateV2Siafunds_balance txn = .ok none)
    (hin : ∀ i ∈ txn.SiafundInputs, i.Parent.SiafundOutput.Value ≤ 10000)
    (hout : ∀ o ∈ txn.SiafundOutputs, o.Value ≤ 10000)
    (lin : txn.SiafundInputs.length < 1099511627776) (lout : txn.SiafundOutputs.length < 1099511627776) :
    sfIn txn = sfOut txn := by
  obtain ⟨m, _⟩ := c01_v2_siafund_balance_mod_gen txn h
  have bound : ∀ (xs : List Nat), (∀ x ∈ xs, x ≤ 10000) → xs.sum ≤ 10000 * xs.length := by
    intro xs
    induction xs with
    | nil => intro _; simp
    | cons y ys ih =>
      intro hb
      have := ih (fun x hx => hb x (List.mem_cons_of_mem _ hx))
      have := hb y List.mem_cons_self
      simp [List.sum_cons]; omega
  have b1 : sfIn txn ≤ 10000 * txn.SiafundInputs.length := by
    have := bound (txn.SiafundInputs.map (fun i => i.Parent.SiafundOutput.Value))
      (by intro x hx; simp at hx; obtain ⟨i, hi, e⟩ := hx; rw [← e]; exact hin i hi)
    simpa [sfIn] using this
  have b2 : sfOut txn ≤ 10000 * txn.SiafundOutputs.length := by
    have := bound (txn.SiafundOutputs.map (fun o => o.Value))
      (by intro x hx; simp at hx; obtain ⟨o, ho, e⟩ := hx; rw [← e]; exact hout o ho)
    simpa [sfOut] using this
  have c1 : sfIn txn < 18446744073709551616 := by omega
  have c2 : sfOut txn < 18446744073709551616 := by omega
  rw [Nat.mod_eq_of_lt c1, Nat.mod_eq_of_lt c2] at m
  exact m

/-- the per-value bound is necessary: outputs {2^63, 2^63 + 4000} balance inputs of 4000 modulo 2^64 -/
theorem c01_v2_siafund_wrap_witness :
    validateV2Siafunds_balance
      { SiafundInputs := [{ Parent := { SiafundOutput := { Value := 4000 } } }],
        SiafundOutputs := [{ Value := 9223372036854775808 }, { Value := 9223372036854779808 }] } = .ok none := by rfl

example : validateV2Siafunds_balance
    { SiafundInputs := [{ Parent := { SiafundOutput := { Value := 4000 } } }, { Parent := { SiafundOutput := { Value := 6000 } } }],
      SiafundOutputs := [{ Value := 9999 }, { Value := 1 }] } = .ok none := by rfl
example : validateV2Siafunds_balance
    { SiafundInputs := [{ Parent := { SiafundOutput := { Value := 4000 } } }], SiafundOutputs := [{ Value := 3999 }] }
    = .ok (some "siafund inputs (%d SF) do not equal outputs (%d SF)") := by rfl

end C01
