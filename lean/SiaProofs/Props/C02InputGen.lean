import SiaModel.Gen.CodeConsensus
/-!
# C02 / C08 — the double-spend and maturity tests on ONE v2 input, on REGENERATED code

The first half of the loop bodies of `validateV2Siacoins` / `validateV2Siafunds` (up to the bookkeeping assignment
`spent[id] = i`) is translated from `consensus/validation.go` on every run.  `ext.spent` is the block-wide table of
elements consumed by earlier transactions of the block, `spent` the transaction's own table of parents consumed by
its earlier inputs (a Go map, modelled as an association list, read through `Go.mapGet`).

* `c02_v2_siacoin_input_fresh_gen`, `c02_v2_siafund_input_fresh_gen`: an input passes exactly when its parent has not
  been consumed earlier in the block, has not been named by an earlier input of the same transaction, and (siacoins)
  has matured — `MaturityHeight ≤ child height`, the C08 boundary.
* `c02_mapGet_mem`: a parent id that an earlier input recorded in `spent` is found there.
-/
namespace C02
open Gen.Types Gen.Consensus

theorem c02_v2_siacoin_input_fresh_gen (ext : Ext) (ms : MidState) (sci : V2SiacoinInput) (i : Int)
    (spent : List (ByteArray × Int)) :
    validateV2Siacoins_inputFresh ext ms sci i spent = none ↔
      ((ext.spent ms sci.Parent.ID).2 = false ∧ (Go.mapGet spent sci.Parent.ID (0 : Int)).2 = false ∧
       sci.Parent.MaturityHeight ≤ State.childHeight ms.base) := by
  unfold validateV2Siacoins_inputFresh
  cases h1 : (ext.spent ms sci.Parent.ID).2 <;> cases h2 : (Go.mapGet spent sci.Parent.ID (0 : Int)).2 <;>
  by_cases h3 : sci.Parent.MaturityHeight > State.childHeight ms.base <;> simp [h1, h2, h3] <;> omega

theorem c02_v2_siafund_input_fresh_gen (ext : Ext) (ms : MidState) (sfi : V2SiafundInput) (i : Int)
    (spent : List (ByteArray × Int)) :
    validateV2Siafunds_inputFresh ext ms sfi i spent = none ↔
      ((ext.spent ms sfi.Parent.ID).2 = false ∧ (Go.mapGet spent sfi.Parent.ID (0 : Int)).2 = false) := by
  unfold validateV2Siafunds_inputFresh
  cases h1 : (ext.spent ms sfi.Parent.ID).2 <;> cases h2 : (Go.mapGet spent sfi.Parent.ID (0 : Int)).2 <;> simp [h1, h2]

/-- a key that was recorded is found -/
theorem c02_mapGet_mem (m : List (ByteArray × Int)) (k : ByteArray) (v : Int) (h : (k, v) ∈ m) :
    (Go.mapGet m k (0 : Int)).2 = true := by
  unfold Go.mapGet
  cases hf : m.find? (fun p => decide (p.1 = k)) with
  | some p => rfl
  | none =>
    have := List.find?_eq_none.mp hf (k, v) h
    simp at this

example : validateV2Siacoins_inputFresh Ext.trivial {} {} 0 [] = none := by rfl
example : validateV2Siacoins_inputFresh Ext.trivial {} {} 1 [(Go.zeros 32, 0)]
    = some "siacoin input %v double-spends parent output (previously spent by input %v)" := by rfl
example : validateV2Siacoins_inputFresh Ext.trivial {} { Parent := { MaturityHeight := 2 } } 0 []
    = some "siacoin input %v has immature parent" := by rfl
example : validateV2Siacoins_inputFresh Ext.trivial {} { Parent := { MaturityHeight := 1 } } 0 [] = none := by rfl

end C02
