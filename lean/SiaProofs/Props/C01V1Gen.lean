import SiaModel.Gen.CodeConsensus
import SiaProofs.Props.C01TxnGen
/-!
# C01 / C03 / C08 — `consensus.validateSiacoins` (v1), the WHOLE function, on REGENERATED code

Four loops; the parent records come from `ext.siacoinElement` (the block's own diffs or the supplement — C04's
`c04_supplement_gen` says the supplement's records are accumulator members), `ext.spent` is the block-wide table of
consumed elements, `ext.UnlockHash` the Merkle root of the revealed unlock conditions.

`c01_v1_txn_balance_gen`: if the regenerated function accepts a v1 transaction, then as integers, nothing wrapped,

    Σ parent values of the inputs = Σ outputs + Σ contract payouts + Σ miner fees

and every input is: past its timelock (`Timelock ≤ child height`), not consumed earlier in the block, an existing
parent, revealed conditions hashing to the parent's address, matured (`MaturityHeight ≤ child height`).
-/
namespace C01
open Gen.Types Gen.Consensus C15 C17 GoLoops

/-- the parent record a v1 siacoin input resolves to -/
abbrev parentOf (ext : Ext) (ms : MidState) (ts : V1TransactionSupplement) (sci : SiacoinInput) : SiacoinElement :=
  (ext.siacoinElement ms ts sci.ParentID).1

def v1InSum (ext : Ext) (ms : MidState) (ts : V1TransactionSupplement) (txn : Transaction) : Nat :=
  (txn.SiacoinInputs.map (fun i => val (parentOf ext ms ts i).SiacoinOutput.Value)).sum
def v1OutSum (txn : Transaction) : Nat := (txn.SiacoinOutputs.map (fun o => val o.Value)).sum
def v1PayoutSum (txn : Transaction) : Nat := (txn.FileContracts.map (fun fc => val fc.Payout)).sum
def v1FeeSum (txn : Transaction) : Nat := (txn.MinerFees.map val).sum

structure V1InputOk (ext : Ext) (ms : MidState) (ts : V1TransactionSupplement) (sci : SiacoinInput) : Prop where
  timelock : sci.UnlockConditions.Timelock ≤ State.childHeight ms.base
  notSpentInBlock : (ext.spent ms sci.ParentID).2 = false
  exists_ : (ext.siacoinElement ms ts sci.ParentID).2 = true
  conditions : ext.UnlockHash sci.UnlockConditions = (parentOf ext ms ts sci).SiacoinOutput.Address
  mature : (parentOf ext ms ts sci).MaturityHeight ≤ State.childHeight ms.base

structure V1CurWF (ext : Ext) (ms : MidState) (ts : V1TransactionSupplement) (txn : Transaction) : Prop where
  ins : ∀ i ∈ txn.SiacoinInputs, WF (parentOf ext ms ts i).SiacoinOutput.Value
  outs : ∀ o ∈ txn.SiacoinOutputs, WF o.Value
  fcs : ∀ fc ∈ txn.FileContracts, WF fc.Payout
  fees : ∀ f ∈ txn.MinerFees, WF f

def V1InStep (ext : Ext) (ms : MidState) (ts : V1TransactionSupplement) (sci : SiacoinInput) (st st' : Currency) : Prop :=
  V1InputOk ext ms ts sci ∧ (st.AddWithOverflow (parentOf ext ms ts sci).SiacoinOutput.Value).2 = false ∧
  st' = (st.AddWithOverflow (parentOf ext ms ts sci).SiacoinOutput.Value).1

/-- a loop adding `w x` with the panicking `Add` (no early return) -/
theorem addLoop {α ρ : Type} (w : α → Currency) (f : Int → α → Currency → Except String (Option ρ × Currency))
    (hf : ∀ i x st, f i x st = (match Currency.Add st (w x) with
                                | .error e => .error e
                                | .ok v => .ok (none, v))) :
    ∀ (xs : List α) (k : Int) (acc : Currency) (r : Option ρ) (s : Currency),
      WF acc → (∀ x ∈ xs, WF (w x)) → Go.forRangeFrom f xs k acc = .ok (r, s) →
      r = none ∧ WF s ∧ val s = val acc + (xs.map (fun x => val (w x))).sum := by
  intro xs
  induction xs with
  | nil =>
    intro k acc r s ha _ h
    simp [Go.forRangeFrom] at h
    obtain ⟨h1, h2⟩ := h
    subst h1; subst h2
    exact ⟨rfl, ha, by simp⟩
  | cons x xs ih =>
    intro k acc r s ha hw h
    unfold Go.forRangeFrom at h
    rw [hf] at h
    cases hadd : Currency.Add acc (w x) with
    | error e => simp [hadd] at h
    | ok v =>
      simp [hadd] at h
      obtain ⟨wv, vv, _⟩ := add_inv ha (hw x List.mem_cons_self) hadd
      obtain ⟨r1, r2, r3⟩ := ih (k + 1) v r s wv (fun o ho => hw o (List.mem_cons_of_mem _ ho)) h
      refine ⟨r1, r2, ?_⟩
      rw [r3, vv]; simp [List.map_cons, List.sum_cons]; omega

theorem c01_v1_txn_balance_gen (ext : Ext) (ms : MidState) (txn : Transaction) (ts : V1TransactionSupplement)
    (hw : V1CurWF ext ms ts txn) (h : validateSiacoins ext ms txn ts = .ok none) :
    v1InSum ext ms ts txn = v1OutSum txn + v1PayoutSum txn + v1FeeSum txn ∧
    v1InSum ext ms ts txn < W2 ∧
    (∀ sci ∈ txn.SiacoinInputs, V1InputOk ext ms ts sci) := by
  unfold validateSiacoins at h
  simp only [bind, Except.bind] at h
  -- loop 1: inputs
  split at h
  · cases h
  rename_i v1 hv1
  obtain ⟨r1, in1⟩ := v1
  cases r1 with
  | some q =>
    simp [pure, Except.pure] at h; subst h; exfalso
    have := forRange_some (P := fun r : Option String => r ≠ none) ?_ txn.SiacoinInputs _ none in1 hv1
    · exact this rfl
    intro i x st r st' hx
    repeat' (split at hx)
    all_goals (simp [pure, Except.pure] at hx)
    all_goals (try (rw [← hx.1]; simp))
  | none =>
    have c1 : Chain (V1InStep ext ms ts) txn.SiacoinInputs {} in1 := by
      refine forRange_none (R := V1InStep ext ms ts) ?_ txn.SiacoinInputs _ _ hv1
      intro i x st st' hx
      unfold V1InStep parentOf
      by_cases h1 : x.UnlockConditions.Timelock > State.childHeight ms.base
      · simp [h1, pure, Except.pure] at hx
      cases h2 : (ext.spent ms x.ParentID).2
      case true => simp [h1, h2, pure, Except.pure] at hx
      cases h3 : (ext.siacoinElement ms ts x.ParentID).2
      case false => simp [h1, h2, h3, pure, Except.pure] at hx
      by_cases h4 : ext.UnlockHash x.UnlockConditions ≠ (ext.siacoinElement ms ts x.ParentID).1.SiacoinOutput.Address
      · simp [h1, h2, h3, h4, pure, Except.pure] at hx
      by_cases h5 : (ext.siacoinElement ms ts x.ParentID).1.MaturityHeight > State.childHeight ms.base
      · simp [h1, h2, h3, h4, h5, pure, Except.pure] at hx
      cases h6 : (st.AddWithOverflow (ext.siacoinElement ms ts x.ParentID).1.SiacoinOutput.Value).2
      case true => simp [h1, h2, h3, h4, h5, h6, pure, Except.pure] at hx
      simp [h1, h2, h3, h4, h5, h6, pure, Except.pure] at hx
      exact ⟨⟨by omega, h2, h3, Classical.not_not.mp h4, by show (ext.siacoinElement ms ts x.ParentID).1.MaturityHeight ≤ _; omega⟩, rfl, hx.symm⟩
    have inputsOk : ∀ sci ∈ txn.SiacoinInputs, V1InputOk ext ms ts sci :=
      Chain.all (Q := V1InputOk ext ms ts) (fun _ _ _ r => r.1) _ _ _ c1
    obtain ⟨wi, vi⟩ := Chain.sum (R := V1InStep ext ms ts) (m := val) (I := WF)
      (wt := fun i => val (parentOf ext ms ts i).SiacoinOutput.Value) (ok := fun i => WF (parentOf ext ms ts i).SiacoinOutput.Value)
      (fun x st st' r okx hi => by obtain ⟨_, a, b⟩ := r; subst b; exact addo_step hi okx a) txn.SiacoinInputs {} in1 c1 hw.ins WF0
    simp only [] at h
    -- loop 2: outputs
    split at h
    · cases h
    rename_i v2 hv2
    obtain ⟨r2, o2⟩ := v2
    obtain ⟨e2, w2, s2⟩ := addLoop (fun o : SiacoinOutput => o.Value) _ (by intro i x st; cases st.Add x.Value <;> rfl)
      txn.SiacoinOutputs 0 {} r2 o2 WF0 hw.outs hv2
    subst e2
    simp only [] at h
    -- loop 3: contract payouts
    split at h
    · cases h
    rename_i v3 hv3
    obtain ⟨r3, o3⟩ := v3
    obtain ⟨e3, w3, s3⟩ := addLoop (fun fc : FileContract => fc.Payout) _ (by intro i x st; cases st.Add x.Payout <;> rfl)
      txn.FileContracts 0 o2 r3 o3 w2 hw.fcs hv3
    subst e3
    simp only [] at h
    -- loop 4: miner fees (checked addition)
    split at h
    · cases h
    rename_i v4 hv4
    obtain ⟨r4, o4⟩ := v4
    cases r4 with
    | some q =>
      simp [pure, Except.pure] at h; subst h; exfalso
      have := forRange_some (P := fun r : Option String => r ≠ none) ?_ txn.MinerFees _ none o4 hv4
      · exact this rfl
      intro i x st r st' hx
      split at hx <;> simp [pure, Except.pure] at hx
      rw [← hx.1]; simp
    | none =>
      have c4 : Chain (fun (fee : Currency) (st st' : Currency) => (st.AddWithOverflow fee).2 = false ∧ st' = (st.AddWithOverflow fee).1)
          txn.MinerFees o3 o4 := by
        refine forRange_none ?_ txn.MinerFees _ _ hv4
        intro i x st st' hx
        cases h6 : (st.AddWithOverflow x).2
        case true => simp [h6, pure, Except.pure] at hx
        simp [h6, pure, Except.pure] at hx
        exact ⟨rfl, hx.symm⟩
      obtain ⟨w4, s4⟩ := Chain.sum (m := val) (I := WF) (wt := val) (ok := WF)
        (fun x st st' r okx hi => by obtain ⟨a, b⟩ := r; subst b; exact addo_step hi okx a) txn.MinerFees o3 o4 c4 hw.fees w3
      simp only [] at h
      by_cases hne : in1.Cmp o4 ≠ 0
      · simp [hne, pure, Except.pure] at h
      · have heq : in1.Cmp o4 = 0 := Classical.not_not.mp hne
        have hv : val in1 = val o4 := ((c15_cmp in1 o4 wi w4).2.1).mp heq
        rw [val0] at vi s2
        refine ⟨?_, ?_, inputsOk⟩
        · unfold v1InSum v1OutSum v1PayoutSum v1FeeSum; omega
        · unfold v1InSum
          have : val in1 < W2 := by unfold val; obtain ⟨a, b⟩ := wi; omega
          omega

end C01
