import SiaProofs.Lemmas.C17Arith
/-!
# C17 — RHP contract constructors conserve funds and yield consensus-valid contracts

Part 1: `PayWithContract` and the `ReviseFor*` family.

All theorems are about the definitions in `SiaModel/Gen/CodeRhp4.lean`, regenerated
from `rhp/v4/rhp.go` on every run, and about `Sia.Ledger.validateRevision`
(hand model of `consensus/validation.go`, tied by the correspondence run).
-/
namespace C17
open Gen.Types Gen.Rhp4 C15

/-- every Currency field of a usage is a genuine 128-bit value -/
structure UsageWF (u : Usage) : Prop where
  rpc : WF u.RPC
  storage : WF u.Storage
  egress : WF u.Egress
  ingress : WF u.Ingress
  funding : WF u.AccountFunding
  risked : WF u.RiskedCollateral

/-- every Currency / uint64 field of a contract is a genuine machine value -/
structure FCWF (fc : V2FileContract) : Prop where
  renter : WF fc.RenterOutput.Value
  host : WF fc.HostOutput.Value
  missed : WF fc.MissedHostValue
  total : WF fc.TotalCollateral
  rev : fc.RevisionNumber < W
  cap : fc.Capacity < W
  fsz : fc.Filesize < W
  ph : fc.ProofHeight < W
  eh : fc.ExpirationHeight < W

/-- the renter's cost of a usage, as an integer: the sum of the five cost fields -/
def cost (u : Usage) : Nat :=
  val u.RPC + val u.Storage + val u.Egress + val u.Ingress + val u.AccountFunding

/-- `fc'` differs from `fc` at most in the fields `PayWithContract` is allowed to touch
(the two output values, the missed host value, the revision number, the signatures). -/
def SameButPayment (fc fc' : V2FileContract) : Prop :=
  fc'.Capacity = fc.Capacity ∧ fc'.Filesize = fc.Filesize ∧ fc'.FileMerkleRoot = fc.FileMerkleRoot ∧
  fc'.ProofHeight = fc.ProofHeight ∧ fc'.ExpirationHeight = fc.ExpirationHeight ∧
  fc'.RenterOutput.Address = fc.RenterOutput.Address ∧ fc'.HostOutput.Address = fc.HostOutput.Address ∧
  fc'.TotalCollateral = fc.TotalCollateral ∧
  fc'.RenterPublicKey = fc.RenterPublicKey ∧ fc'.HostPublicKey = fc.HostPublicKey

theorem renterCost_inv {u : Usage} (hu : UsageWF u) {c : Currency} (h : u.RenterCost = .ok c) :
    WF c ∧ val c = cost u ∧ cost u < W2 := by
  unfold Usage.RenterCost at h
  obtain ⟨t1, e1, h⟩ := bind_ok h
  obtain ⟨t2, e2, h⟩ := bind_ok h
  obtain ⟨t3, e3, h⟩ := bind_ok h
  obtain ⟨w1, v1, _⟩ := add_inv hu.rpc hu.storage e1
  obtain ⟨w2, v2, _⟩ := add_inv w1 hu.egress e2
  obtain ⟨w3, v3, _⟩ := add_inv w2 hu.ingress e3
  obtain ⟨w4, v4, l4⟩ := add_inv w3 hu.funding h
  unfold cost
  exact ⟨w4, by omega, by omega⟩

theorem renterCost_intro {u : Usage} (hu : UsageWF u) (h : cost u < W2) :
    ∃ c, u.RenterCost = .ok c ∧ WF c ∧ val c = cost u := by
  unfold cost at h
  unfold Usage.RenterCost
  obtain ⟨t1, e1, w1, v1⟩ := add_intro hu.rpc hu.storage (by omega)
  obtain ⟨t2, e2, w2, v2⟩ := add_intro w1 hu.egress (by omega)
  obtain ⟨t3, e3, w3, v3⟩ := add_intro w2 hu.ingress (by omega)
  obtain ⟨t4, e4, w4, v4⟩ := add_intro w3 hu.funding (by omega)
  refine ⟨t4, ?_, w4, by unfold cost; omega⟩
  simp [e1, e2, e3, e4, bind, Except.bind, pure, Except.pure]

/--
**PayWithContract is an exact, conservative transfer or a clean failure.**
Whenever the generated `PayWithContract` returns (i.e. does not panic):
* `RenterCost` did not overflow;
* it reports an error **iff** the renter output is below the cost or the missed host
  value is below the risked collateral, and then the contract is returned unmodified;
* otherwise the renter output drops by exactly the cost, the host output rises by
  exactly the cost (so their sum is unchanged), the missed host value drops by exactly
  the risked collateral, the revision number is incremented (mod 2^64), the signatures
  are cleared and every other field — total collateral included — is untouched.
-/
theorem c17_pay_with_contract (fc fc' : V2FileContract) (u : Usage) (err : Option String)
    (hfc : FCWF fc) (hu : UsageWF u)
    (h : PayWithContract fc u = .ok (fc', err)) :
    cost u < W2 ∧
    (err ≠ none ↔ (val fc.RenterOutput.Value < cost u ∨ val fc.MissedHostValue < val u.RiskedCollateral)) ∧
    (err ≠ none → fc' = fc) ∧
    (err = none →
      FCWF fc' ∧
      val fc'.RenterOutput.Value + cost u = val fc.RenterOutput.Value ∧
      val fc'.HostOutput.Value = val fc.HostOutput.Value + cost u ∧
      val fc'.RenterOutput.Value + val fc'.HostOutput.Value
        = val fc.RenterOutput.Value + val fc.HostOutput.Value ∧
      val fc'.MissedHostValue + val u.RiskedCollateral = val fc.MissedHostValue ∧
      fc'.RevisionNumber = (fc.RevisionNumber + 1) % W ∧
      fc'.RenterSignature = Go.zeros 64 ∧ fc'.HostSignature = Go.zeros 64 ∧
      SameButPayment fc fc') := by
  unfold PayWithContract at h
  obtain ⟨amount, eA, h⟩ := bind_ok h
  obtain ⟨wA, vA, lA⟩ := renterCost_inv hu eA
  refine ⟨lA, ?_⟩
  simp only [Usage.HostRiskedCollateral] at h
  have c1 := cmp_lt hfc.renter wA
  have c2 := cmp_lt hfc.missed hu.risked
  rw [vA] at c1
  by_cases g1 : fc.RenterOutput.Value.Cmp amount < 0
  · simp only [g1, decide_true, if_true] at h
    cases h
    refine ⟨?_, ?_, ?_⟩
    · simp; exact Or.inl (c1.mp g1)
    · intro _; rfl
    · intro h; cases h
  · simp only [g1, decide_false, Bool.false_eq_true, if_false] at h
    by_cases g2 : fc.MissedHostValue.Cmp u.RiskedCollateral < 0
    · simp only [g2, decide_true, if_true] at h
      cases h
      refine ⟨?_, ?_, ?_⟩
      · simp; exact Or.inr (c2.mp g2)
      · intro _; rfl
      · intro h; cases h
    · simp only [g2, decide_false, Bool.false_eq_true, if_false] at h
      obtain ⟨t4, e4, h⟩ := bind_ok h
      obtain ⟨t5, e5, h⟩ := bind_ok h
      obtain ⟨t6, e6, h⟩ := bind_ok h
      cases h
      obtain ⟨w4, v4, _⟩ := sub_inv hfc.renter wA e4
      obtain ⟨w5, v5, _⟩ := add_inv hfc.host wA e5
      obtain ⟨w6, v6, _⟩ := sub_inv hfc.missed hu.risked e6
      have n1 : ¬ val fc.RenterOutput.Value < cost u := fun x => g1 (c1.mpr x)
      have n2 : ¬ val fc.MissedHostValue < val u.RiskedCollateral := fun x => g2 (c2.mpr x)
      refine ⟨?_, ?_, ?_⟩
      · simp; omega
      · intro x; exact absurd rfl x
      · intro _
        refine ⟨⟨w4, w5, w6, hfc.total, Nat.mod_lt _ (by omega), hfc.cap, hfc.fsz, hfc.ph, hfc.eh⟩,
          by simp only []; omega, by simp only []; omega, by simp only []; omega, by simp only []; omega,
          rfl, rfl, rfl, ?_⟩
        simp [SameButPayment]

/-- **No panic under `Fits`.** If the usage cost fits in 128 bits and so does the
contract's total value (both are facts about consensus-valid contracts and priced
usages), `PayWithContract` returns. -/
theorem c17_pay_no_panic (fc : V2FileContract) (u : Usage) (hfc : FCWF fc) (hu : UsageWF u)
    (fits1 : cost u < W2)
    (fits2 : val fc.RenterOutput.Value + val fc.HostOutput.Value < W2) :
    ∃ r, PayWithContract fc u = .ok r := by
  obtain ⟨amount, eA, wA, vA⟩ := renterCost_intro hu fits1
  unfold PayWithContract
  simp only [eA, bind, Except.bind, Usage.HostRiskedCollateral]
  have c1 := cmp_lt hfc.renter wA
  have c2 := cmp_lt hfc.missed hu.risked
  by_cases g1 : fc.RenterOutput.Value.Cmp amount < 0
  · simp [g1, pure, Except.pure]
  · by_cases g2 : fc.MissedHostValue.Cmp u.RiskedCollateral < 0
    · simp [g1, g2, pure, Except.pure]
    · have n1 : ¬ val fc.RenterOutput.Value < val amount := fun x => g1 (c1.mpr x)
      have n2 : ¬ val fc.MissedHostValue < val u.RiskedCollateral := fun x => g2 (c2.mpr x)
      obtain ⟨t4, e4, _, _⟩ := sub_intro hfc.renter wA (by omega)
      obtain ⟨t5, e5, _, _⟩ := add_intro hfc.host wA (by omega)
      obtain ⟨t6, e6, _, _⟩ := sub_intro hfc.missed hu.risked (by omega)
      simp [g1, g2, e4, e5, e6, pure, Except.pure]

/-- Sufficient conditions (in terms of the integers the fields denote) for the consensus
revision rules to accept `rev` as a revision of `cur`. -/
theorem validateRevision_accepts (ch eph : Nat) (cur rev : V2FileContract)
    (hc : FCWF cur) (hr : FCWF rev)
    (fits : val cur.RenterOutput.Value + val cur.HostOutput.Value < W2)
    (hcap : cur.Capacity ≤ rev.Capacity) (hfs : rev.Filesize ≤ rev.Capacity)
    (hph : ch ≤ cur.ProofHeight) (hrev : cur.RevisionNumber < rev.RevisionNumber)
    (hsum : val rev.RenterOutput.Value + val rev.HostOutput.Value
          = val cur.RenterOutput.Value + val cur.HostOutput.Value)
    (hm : val rev.MissedHostValue ≤ val cur.MissedHostValue)
    (hm2 : val rev.MissedHostValue ≤ val rev.HostOutput.Value)
    (htc : rev.TotalCollateral = cur.TotalCollateral)
    (hph2 : ch ≤ rev.ProofHeight) (hexp : rev.ProofHeight < rev.ExpirationHeight) :
    Sia.Ledger.validateRevision ch eph cur rev = .ok none := by
  obtain ⟨s1, e1, w1, v1⟩ := add_intro hc.renter hc.host fits
  obtain ⟨s2, e2, w2, v2⟩ := add_intro hr.renter hr.host (by omega)
  unfold Sia.Ledger.validateRevision
  simp only [e1, e2, bind, Except.bind]
  have a1 : ¬ rev.Capacity < cur.Capacity := by omega
  have a2 : ¬ rev.Filesize > rev.Capacity := by omega
  have a3 : ¬ cur.ProofHeight < ch := by omega
  have a4 : ¬ rev.RevisionNumber ≤ cur.RevisionNumber := by omega
  have a5 : s2.Equals s1 = true := (equals_iff w2 w1).mpr (by omega)
  have a6 : ¬ rev.MissedHostValue.Cmp cur.MissedHostValue > 0 := by
    rw [cmp_gt hr.missed hc.missed]; omega
  have a7 : ¬ rev.MissedHostValue.Cmp rev.HostOutput.Value > 0 := by
    rw [cmp_gt hr.missed hr.host]; omega
  have a8 : ¬ rev.ProofHeight < ch := by omega
  have a9 : ¬ rev.ExpirationHeight ≤ rev.ProofHeight := by omega
  simp [a1, a2, a3, a4, a5, a6, a7, htc, a8, a9, pure, Except.pure]

/-- The consensus invariants of a live v2 contract that the revision proofs need
(all enforced by `validateContract`/`validateRevision` plus the transaction-level
overflow check on output sums). -/
structure Live (childHeight : Nat) (fc : V2FileContract) : Prop where
  fsz_le_cap : fc.Filesize ≤ fc.Capacity
  missed_le_host : val fc.MissedHostValue ≤ val fc.HostOutput.Value
  not_in_window : childHeight ≤ fc.ProofHeight
  window : fc.ProofHeight < fc.ExpirationHeight
  revisable : fc.RevisionNumber + 1 < W
  sum_fits : val fc.RenterOutput.Value + val fc.HostOutput.Value < W2

/-- **A successful payment is a consensus-valid revision** of the contract it was
applied to (signatures aside), at every child height up to the proof height and on
either side of the ephemeral-output hardfork height. -/
theorem c17_pay_revision_valid (childHeight eph : Nat) (fc fc' : V2FileContract) (u : Usage)
    (hfc : FCWF fc) (hu : UsageWF u) (live : Live childHeight fc)
    (h : PayWithContract fc u = .ok (fc', none)) :
    Sia.Ledger.validateRevision childHeight eph fc fc' = .ok none ∧
    (fc'.RevisionNumber + 1 < W → Live childHeight fc') := by
  obtain ⟨_, _, _, hok⟩ := c17_pay_with_contract fc fc' u none hfc hu h
  obtain ⟨wf', hr, hh, hs, hm, hrev, _, _, same⟩ := hok rfl
  obtain ⟨s1, s2, s3, s4, s5, s6, s7, s8, s9, s10⟩ := same
  have hrev' : fc'.RevisionNumber = fc.RevisionNumber + 1 := by
    rw [hrev]; exact Nat.mod_eq_of_lt live.revisable
  have acc : Sia.Ledger.validateRevision childHeight eph fc fc' = .ok none := by
    apply validateRevision_accepts childHeight eph fc fc' hfc wf' live.sum_fits
    · omega
    · rw [s1, s2]; exact live.fsz_le_cap
    · exact live.not_in_window
    · omega
    · exact hs
    · omega
    · have := live.missed_le_host; omega
    · exact s8
    · rw [s4]; exact live.not_in_window
    · rw [s4, s5]; exact live.window
  refine ⟨acc, fun last => ⟨?_, ?_, ?_, ?_, last, ?_⟩⟩
  · rw [s1, s2]; exact live.fsz_le_cap
  · have := live.missed_le_host; omega
  · rw [s4]; exact live.not_in_window
  · rw [s4, s5]; exact live.window
  · have := live.sum_fits; omega

end C17
