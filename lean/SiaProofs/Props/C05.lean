/-
# C05 — Element proofs survive every apply/revert; roots equal the true Merkle forest


Model: `SiaModel/Merkle/Accumulator.lean` (transliteration of consensus/merkle.go);
specification: `SiaModel/Merkle/Forest.lean` (naive forest). `acc.toForest = forestOf ls`
says that the accumulator's leaf count and roots are those of the naive forest over
the list `ls` of all leaf hashes ever added (spent ones rewritten in place).
-/
import SiaModel.Gen.CodeConsensus
import SiaProofs.Lemmas.AddLeaves
import SiaProofs.Lemmas.TermHash
namespace C05
open Sia.ElemAcc

/-! ### Ties: the bit helpers of the hand model are the generated code -/

/-- `mergeHeight` as translated from consensus/merkle.go equals the model's. -/
theorem tie_mergeHeight (x y : Nat) : Gen.Consensus.mergeHeight x y = Int.ofNat (mergeHeight x y) := by
  unfold Gen.Consensus.mergeHeight Go.bits_Len64 mergeHeight bitLen
  split <;> simp

theorem and_mask (x n : Nat) (hx : x < 2 ^ 64) (hn : n ≤ 64) : x &&& (2 ^ 64 - 2 ^ n) = x - x % 2 ^ n := by
  have e1 : 2 ^ 64 - 2 ^ n = 2 ^ n * (2 ^ (64 - n) - 1) := by
    rw [Nat.mul_sub, ← Nat.pow_add]; congr 2 <;> omega
  have e2 : x - x % 2 ^ n = 2 ^ n * (x / 2 ^ n) := by
    have := Nat.div_add_mod x (2 ^ n); omega
  rw [e1, e2]
  apply Nat.eq_of_testBit_eq
  intro i
  rw [Nat.testBit_and, Nat.testBit_two_pow_mul, Nat.testBit_two_pow_mul, Nat.testBit_two_pow_sub_one,
    Nat.testBit_div_two_pow]
  by_cases h1 : i ≥ n
  · have : i - n + n = i := by omega
    rw [this]
    by_cases h2 : i < 64
    · have : i - n < 64 - n := by omega
      simp [h1, this]
    · have hx' : x.testBit i = false :=
        Nat.testBit_lt_two_pow (Nat.lt_of_lt_of_le hx (Nat.pow_le_pow_right (by omega) (by omega)))
      simp [hx']
  · simp [h1]

/-- `clearBits` as translated from consensus/merkle.go equals the model's (for uint64
    arguments and shift counts below 64, the only ones the accumulator uses). -/
theorem tie_clearBits (x n : Nat) (hx : x < 2 ^ 64) (hn : n < 64) :
    Gen.Consensus.clearBits x (Int.ofNat n) = clearBits x n := by
  unfold Gen.Consensus.clearBits Go.andNot clearBits
  have hlt : 2 ^ n < 2 ^ 64 := Nat.pow_lt_pow_right (by omega) hn
  have hpos := Nat.two_pow_pos n
  have hcast : (Int.ofNat n).toNat = n := rfl
  simp only [hcast, Nat.one_shiftLeft]
  have h64 : (18446744073709551616 : Nat) = 2 ^ 64 := by norm_num
  rw [h64, Nat.mod_eq_of_lt hlt]
  have : (2 ^ n + 2 ^ 64 - 1) % 2 ^ 64 = 2 ^ n - 1 := by
    have : 2 ^ n + 2 ^ 64 - 1 = (2 ^ n - 1) + 2 ^ 64 := by omega
    rw [this, Nat.add_mod_right, Nat.mod_eq_of_lt (by omega)]
  rw [this, Nat.mod_eq_of_lt (by omega)]
  have : 2 ^ 64 - 1 - (2 ^ n - 1) = 2 ^ 64 - 2 ^ n := by omega
  rw [this, and_mask x n hx (by omega)]


/-! ### addLeaves -/

section
variable {H : Type} [Hasher H] [Inhabited H]

theorem hashesFrom_get (start : Nat) (new : List (Leaf H)) (j : Nat) :
    (hashesFrom start new)[j]? = new[j]?.map (fun l0 => (Hasher.leaf l0.elem (start + j) l0.spent : H)) := by
  induction new generalizing start j with
  | nil => simp [hashesFrom]
  | cons el rest ih =>
    cases j with
    | zero => simp [hashesFrom]
    | succ j => simp [hashesFrom, ih, Nat.add_assoc, Nat.add_comm 1 j]

/-- **addLeaves computes the naive forest.** If the accumulator is the naive forest of
    `ls`, then after `addLeaves new` it is the naive forest of `ls ++ new` (the new leaf
    hashes commit to the indices `ls.length, ls.length+1, …`), and every added leaf
    carries its index and exactly its naive Merkle path.
    Any leaf count (every bit pattern), any number of added leaves, below 2^64. -/
theorem c05_addLeaves_forest (acc : Acc H) (ls : List H) (hacc : acc.toForest = forestOf ls)
    (new : List (Leaf H)) (hnp : ∀ l ∈ new, l.proof = []) (hsz : ls.length + new.length < 2 ^ 64) :
    let ls' := ls ++ hashesFrom ls.length new
    (acc.addLeaves new).1.toForest = forestOf ls' ∧
    (acc.addLeaves new).2.1.length = new.length ∧
    ∀ j l, (acc.addLeaves new).2.1[j]? = some l →
      l.index = ls.length + j ∧ l.proof = path ls' (ls.length + j) ∧
      ls'.getD (ls.length + j) default = l.hash ∧
      ∃ l0, new[j]? = some l0 ∧ l.elem = l0.elem ∧ l.spent = l0.spent := by
  intro ls'
  have inv := addLeaves_outer acc ls hacc new hnp hsz
  have hlen : ls'.length = ls.length + new.length := inv.len
  refine ⟨?_, inv.llen, ?_⟩
  · rw [toForest_eq_iff]
    exact ⟨by rw [hlen]; exact inv.num, by rw [hlen]; exact inv.trees⟩
  · intro j l hl
    have hj : j < new.length := by
      have := (List.getElem?_eq_some_iff.1 hl).1
      rw [← inv.llen]; exact this
    obtain ⟨f1, l0, f2, f3, f4⟩ := inv.fields j l hl
    refine ⟨f1, ?_, ?_, l0, f2, f3, f4⟩
    · rw [path_eq, hlen]
      exact inv.proofs j l hl _ _ (treeAt_of_lt (by omega))
    · have : ls'[ls.length + j]? = some (Hasher.leaf l0.elem (ls.length + j) l0.spent) := by
        show (ls ++ hashesFrom ls.length new)[ls.length + j]? = _
        rw [List.getElem?_append_right (by omega)]
        have : ls.length + j - ls.length = j := by omega
        rw [this, hashesFrom_get, f2]; rfl
      simp only [List.getD, this, Option.getD_some, Leaf.hash, f1, f3, f4]

/-- `treeGrowth` is exactly what a holder of an old proof must append: the path of an
    existing leaf in the grown forest is its old path followed by the growth of its tree. -/
theorem c05_addLeaves_growth (acc : Acc H) (ls : List H) (hacc : acc.toForest = forestOf ls)
    (new : List (Leaf H)) (hnp : ∀ l ∈ new, l.proof = []) (hsz : ls.length + new.length < 2 ^ 64)
    (j : Nat) (hj : j < ls.length) :
    path (ls ++ hashesFrom ls.length new) j = path ls j ++ (acc.addLeaves new).2.2 (path ls j).length :=
  (path_grow (addLeaves_outer acc ls hacc new hnp hsz) (by omega) hj).2


/-! ### Tracked proofs across a block that only adds leaves -/

theorem updateGroups_nil (k : Nat) :
    ∃ f, updateGroups ([] : List (Leaf H)) k = .ok f ∧ ∀ h, f h = [] := by
  induction k with
  | zero => exact ⟨_, rfl, fun _ => rfl⟩
  | succ k ih =>
    obtain ⟨f, hf, hnil⟩ := ih
    refine ⟨setFn f k [], ?_, ?_⟩
    · simp [updateGroups, hf, updateGroup, bind, Except.bind, pure, Except.pure]
    · intro h; unfold setFn; split <;> simp [hnil]

theorem updateProof_none (idx : Nat) (proof : List H) (updated : Nat → List (Leaf H))
    (h : updated proof.length = []) : updateProof idx proof updated = .ok proof := by
  unfold updateProof; rw [h]

theorem unassigned_lt : unassignedLeafIndex < 2 ^ 64 := by unfold unassignedLeafIndex; omega

/-- Full statement (design): a client proof equal to `path ls j`, for ANY `j` (updated or
    not, old or new), becomes `path ls' j` after `applyBlock updated added` and
    `updateElementProof`.  Proved here for blocks that only ADD leaves (no existing
    leaf is rewritten); blocks that rewrite leaves are covered by the correspondence runs
    (exhaustive for n ≤ 16).  Gap: `updated ≠ []`.

    For any leaf count and any number of added leaves: the new accumulator is the naive
    forest of all leaves, every holder of an old proof obtains exactly the new naive path
    (which, by `C04.c04_contains_complete`, verifies), and the added leaves' proofs are
    their naive paths and are left unchanged by `updateElementProof`. -/
theorem c05_tracked_proof_apply_partial (acc : Acc H) (ls : List H) (hacc : acc.toForest = forestOf ls)
    (new : List (Leaf H)) (hnp : ∀ l ∈ new, l.proof = [])
    (hsz : ls.length + new.length ≤ unassignedLeafIndex) :
    let ls' := ls ++ hashesFrom ls.length new
    ∃ acc' u added, acc.applyBlock [] new = .ok (acc', u, added) ∧
      acc'.toForest = forestOf ls' ∧
      (∀ j, j < ls.length → u.updateElementProof j (path ls j) = .ok (path ls' j)) ∧
      (∀ j l, added[j]? = some l → l.index = ls.length + j ∧ l.proof = path ls' (ls.length + j) ∧
        u.updateElementProof l.index l.proof = .ok l.proof) := by
  intro ls'
  have hlt := unassigned_lt
  have hsz' : ls.length + new.length < 2 ^ 64 := by omega
  obtain ⟨f, hf, hnil⟩ := updateGroups_nil (H := H) 64
  have hacc1 : acc.withUpdatedRoots f = acc := by
    cases acc with
    | mk t n => simp only [Acc.withUpdatedRoots, Acc.mk.injEq, and_true]; funext h; rw [hnil h]
  obtain ⟨hn, _⟩ := (toForest_eq_iff acc ls).1 hacc
  have hmain := c05_addLeaves_forest acc ls hacc new hnp hsz'
  have hgrow := c05_addLeaves_growth acc ls hacc new hnp hsz'
  have houter := addLeaves_outer acc ls hacc new hnp hsz'
  simp only at hmain
  obtain ⟨m1, m2, m3⟩ := hmain
  refine ⟨(acc.addLeaves new).1,
    { updated := extendUpdated f (acc.addLeaves new).2.2,
      growth := (acc.addLeaves new).2.2, oldNumLeaves := acc.numLeaves, numLeaves := (acc.addLeaves new).1.numLeaves },
    (acc.addLeaves new).2.1, ?_, m1, ?_, ?_⟩
  · simp only [Acc.applyBlock, updateLeaves, List.mergeSort_nil, hf, bind, Except.bind, pure, Except.pure, hacc1]
  · intro j hj
    have hupd : ∀ h, extendUpdated f (acc.addLeaves new).2.2 h = [] := by
      intro h; simp [extendUpdated, hnil h]
    have hnum : (acc.addLeaves new).1.numLeaves = ls.length + new.length := by
      have := congrArg Forest.numLeaves m1
      simp only [Acc.toForest, forestOf] at this
      rw [this]; show ls'.length = _; exact houter.len
    have hth := (path_grow houter (by omega) hj).1
    have hmh := mergeHeight_eq (n := ls.length + new.length) (i := j) (by omega)
    simp only [ApplyUpdate.updateElementProof, hn]
    rw [if_neg (by omega), if_neg (by omega), updateProof_none _ _ _ (hupd _)]
    simp only [bind, Except.bind, pure, Except.pure]
    rw [hnum, hmh, path_length, if_pos (by omega), ← path_length ls j, ← hgrow j hj]
  · intro j l hl
    obtain ⟨a1, a2, _, _⟩ := m3 j l hl
    have hj : j < new.length := by
      have := (List.getElem?_eq_some_iff.1 hl).1
      rw [← m2]; exact this
    refine ⟨a1, a2, ?_⟩
    simp only [ApplyUpdate.updateElementProof, hn, a1]
    rw [if_neg (by omega), if_pos (by omega)]

end

/-! ### The hypotheses are satisfiable (free term algebra `T`), and the model runs -/

theorem emptyAcc_forest : emptyAcc.toForest = forestOf ([] : List T) := by
  rw [toForest_eq_iff]; exact ⟨rfl, fun h hb => by simp at hb⟩

/-- three leaves, the last one spent -/
def ex3 : List (Leaf T) := [freshLeaf 10, freshLeaf 11, freshLeaf 12 true]
/-- two more -/
def ex2 : List (Leaf T) := [freshLeaf 13, freshLeaf 14]

/-- `c05_addLeaves_forest` instantiated: empty accumulator, three leaves -/
example : (emptyAcc.addLeaves ex3).1.toForest = forestOf (hashesFrom 0 ex3) :=
  (c05_addLeaves_forest emptyAcc [] emptyAcc_forest ex3 (by decide) (by decide)).1

/-- hence the hypotheses of `c05_tracked_proof_apply_partial` hold for the non-trivial
    accumulator with three leaves and a block adding two -/
example : ∃ (acc : Acc T) (ls : List T) (new : List (Leaf T)),
    acc.toForest = forestOf ls ∧ ls.length = 3 ∧ new.length = 2 ∧ (∀ l ∈ new, l.proof = []) ∧
    ls.length + new.length ≤ unassignedLeafIndex :=
  ⟨(emptyAcc.addLeaves ex3).1, hashesFrom 0 ex3, ex2,
    (c05_addLeaves_forest emptyAcc [] emptyAcc_forest ex3 (by decide) (by decide)).1,
    by decide, by decide, by decide, by decide⟩

/-- the model evaluated in the kernel: leaf 1's old path, updated across the block that
    adds two leaves (3 → 5 leaves: the trees of height 0 and 1 merge into one of height 2),
    is the naive path of the 5-leaf forest -/
example :
    (match (emptyAcc.addLeaves ex3).1.applyBlock [] ex2 with
     | .ok (_, u, _) => u.updateElementProof 1 (path (hashesFrom 0 ex3) 1)
     | .error e => .error e)
    = .ok (path (hashesFrom 0 (ex3 ++ ex2)) 1) := by decide +kernel

end C05
