/-
# C05 — Element proofs survive every apply/revert; roots equal the true Merkle forest

Model: `SiaModel/Merkle/Accumulator.lean` (function-by-function transliteration of
consensus/merkle.go); specification: `SiaModel/Merkle/Forest.lean` (the naive forest).
`acc.toForest = forestOf ls` says that the accumulator's leaf count and roots are those of
the naive forest over the list `ls` of all leaf hashes ever added (spent or revised ones
rewritten in place: `writeLeaves`), `path ls j` is the naive Merkle path of leaf `j`.

Theorems (all for ARBITRARY leaf count — every bit pattern below 2^64 —, arbitrary set of
rewritten leaves, arbitrary number of added leaves; none needs a hash assumption):

  c05_addLeaves_forest, c05_addLeaves_growth   addLeaves = naive forest of ls ++ new
  c05_updateLeaves_forest                      updateLeaves/recompute = naive forest of the rewritten list
  c05_applyBlock_forest                        their composition
  c05_tracked_proof_apply (+ _verifies)        any holder's proof -> naive path (verifies, current spent flag)
  c05_tracked_proof_revert                     the same across revertBlock
  c05_apply_revert_roundtrip                   apply then revert restores every proof
  c05_history                                  induction over any interleaving of applies and reverts
  tie_mergeHeight, tie_clearBits               the bit helpers are the code translated from merkle.go

The proofs live in `SiaProofs/Lemmas/{Bits,Forest,AddLeaves,UpdateLeaves,UpdateProof,ApplyBlock,Revert}.lean`.
-/
import SiaModel.Gen.CodeConsensus
import SiaProofs.Lemmas.Revert
import SiaProofs.Lemmas.TermHash
import SiaProofs.Props.C04
namespace C05
open Sia.ElemAcc

/-! ### Ties: the bit helpers of the hand model are the generated code -/

/-- `mergeHeight` as translated from consensus/merkle.go equals the model's. -/
theorem tie_mergeHeight (x y : Nat) : Gen.Consensus.mergeHeight x y = Int.ofNat (mergeHeight x y) := by
  unfold Gen.Consensus.mergeHeight Go.bits_Len64 mergeHeight bitLen
  split <;> simp

theorem and_mask (x n : Nat) (hx : x < 2 ^ 64) (hn : n ≤ 64) : x &&& (2 ^ 64 - 2 ^ n) = x - x % 2 ^ n := by
  have e1 : 2 ^ 64 - 2 ^ n = 2 ^ n * (2 ^ (64 - n) - 1) := by
    rw [Nat.mul_sub, ← Nat.pow_add]; congr 2 <;> omega
  have e2 : x - x % 2 ^ n = 2 ^ n * (x / 2 ^ n) := by
    have := Nat.div_add_mod x (2 ^ n); omega
  rw [e1, e2]
  apply Nat.eq_of_testBit_eq
  intro i
  rw [Nat.testBit_and, Nat.testBit_two_pow_mul, Nat.testBit_two_pow_mul, Nat.testBit_two_pow_sub_one,
    Nat.testBit_div_two_pow]
  by_cases h1 : i ≥ n
  · have : i - n + n = i := by omega
    rw [this]
    by_cases h2 : i < 64
    · have : i - n < 64 - n := by omega
      simp [h1, this]
    · have hx' : x.testBit i = false :=
        Nat.testBit_lt_two_pow (Nat.lt_of_lt_of_le hx (Nat.pow_le_pow_right (by omega) (by omega)))
      simp [hx']
  · simp [h1]

/-- `clearBits` as translated from consensus/merkle.go equals the model's (for uint64
    arguments and shift counts below 64, the only ones the accumulator uses). -/
theorem tie_clearBits (x n : Nat) (hx : x < 2 ^ 64) (hn : n < 64) :
    Gen.Consensus.clearBits x (Int.ofNat n) = clearBits x n := by
  unfold Gen.Consensus.clearBits Go.andNot clearBits
  have hlt : 2 ^ n < 2 ^ 64 := Nat.pow_lt_pow_right (by omega) hn
  have hpos := Nat.two_pow_pos n
  have hcast : (Int.ofNat n).toNat = n := rfl
  simp only [hcast, Nat.one_shiftLeft]
  have h64 : (18446744073709551616 : Nat) = 2 ^ 64 := by norm_num
  rw [h64, Nat.mod_eq_of_lt hlt]
  have : (2 ^ n + 2 ^ 64 - 1) % 2 ^ 64 = 2 ^ n - 1 := by
    have : 2 ^ n + 2 ^ 64 - 1 = (2 ^ n - 1) + 2 ^ 64 := by omega
    rw [this, Nat.add_mod_right, Nat.mod_eq_of_lt (by omega)]
  rw [this, Nat.mod_eq_of_lt (by omega)]
  have : 2 ^ 64 - 1 - (2 ^ n - 1) = 2 ^ 64 - 2 ^ n := by omega
  rw [this, and_mask x n hx (by omega)]


/-! ### The specification is the plain Merkle forest -/

/-- every leaf lies in exactly one tree of the forest (one perfect tree per set bit of
    `n`, the higher ones to the left), and `treeHeight` names it -/
theorem c05_spec_tree_partition (n i : Nat) (hi : i < n) :
    (n.testBit (treeHeight n i) = true ∧ treeStart n (treeHeight n i) ≤ i ∧
      i < treeStart n (treeHeight n i) + 2 ^ treeHeight n i) ∧
    ∀ h, n.testBit h = true → treeStart n h ≤ i → i < treeStart n h + 2 ^ h → h = treeHeight n i :=
  ⟨treeHeight_spec hi, fun _ h1 h2 h3 => (treeHeight_unique ⟨h1, h2, h3⟩).symm⟩

/-- the roots used by the specification are the plain "halve the list" Merkle roots -/
theorem c05_spec_root_structural {H : Type} [Hasher H] [Inhabited H] (ls : List H) (h s : Nat) :
    subRoot ls h s = halvingRoot h (ls.drop s) := subRoot_eq_halving ls h s

/-! ### addLeaves -/

section
variable {H : Type} [Hasher H] [Inhabited H]

theorem hashesFrom_get (start : Nat) (new : List (Leaf H)) (j : Nat) :
    (hashesFrom start new)[j]? = new[j]?.map (fun l0 => (Hasher.leaf l0.elem (start + j) l0.spent : H)) := by
  induction new generalizing start j with
  | nil => simp [hashesFrom]
  | cons el rest ih =>
    cases j with
    | zero => simp [hashesFrom]
    | succ j => simp [hashesFrom, ih, Nat.add_assoc, Nat.add_comm 1 j]

/-- **addLeaves computes the naive forest.** If the accumulator is the naive forest of
    `ls`, then after `addLeaves new` it is the naive forest of `ls ++ new` (the new leaf
    hashes commit to the indices `ls.length, ls.length+1, …`), and every added leaf
    carries its index and exactly its naive Merkle path.
    Any leaf count (every bit pattern), any number of added leaves, below 2^64. -/
theorem c05_addLeaves_forest (acc : Acc H) (ls : List H) (hacc : acc.toForest = forestOf ls)
    (new : List (Leaf H)) (hnp : ∀ l ∈ new, l.proof = []) (hsz : ls.length + new.length < 2 ^ 64) :
    let ls' := ls ++ hashesFrom ls.length new
    (acc.addLeaves new).1.toForest = forestOf ls' ∧
    (acc.addLeaves new).2.1.length = new.length ∧
    ∀ j l, (acc.addLeaves new).2.1[j]? = some l →
      l.index = ls.length + j ∧ l.proof = path ls' (ls.length + j) ∧
      ls'.getD (ls.length + j) default = l.hash ∧
      ∃ l0, new[j]? = some l0 ∧ l.elem = l0.elem ∧ l.spent = l0.spent := by
  intro ls'
  have inv := addLeaves_outer acc ls hacc new hnp hsz
  have hlen : ls'.length = ls.length + new.length := inv.len
  refine ⟨?_, inv.llen, ?_⟩
  · rw [toForest_eq_iff]
    exact ⟨by rw [hlen]; exact inv.num, by rw [hlen]; exact inv.trees⟩
  · intro j l hl
    have hj : j < new.length := by
      have := (List.getElem?_eq_some_iff.1 hl).1
      rw [← inv.llen]; exact this
    obtain ⟨f1, l0, f2, f3, f4⟩ := inv.fields j l hl
    refine ⟨f1, ?_, ?_, l0, f2, f3, f4⟩
    · rw [path_eq, hlen]
      exact inv.proofs j l hl _ _ (treeAt_of_lt (by omega))
    · have : ls'[ls.length + j]? = some (Hasher.leaf l0.elem (ls.length + j) l0.spent) := by
        show (ls ++ hashesFrom ls.length new)[ls.length + j]? = _
        rw [List.getElem?_append_right (by omega)]
        have : ls.length + j - ls.length = j := by omega
        rw [this, hashesFrom_get, f2]; rfl
      simp only [List.getD, this, Option.getD_some, Leaf.hash, f1, f3, f4]

/-- `treeGrowth` is exactly what a holder of an old proof must append: the path of an
    existing leaf in the grown forest is its old path followed by the growth of its tree. -/
theorem c05_addLeaves_growth (acc : Acc H) (ls : List H) (hacc : acc.toForest = forestOf ls)
    (new : List (Leaf H)) (hnp : ∀ l ∈ new, l.proof = []) (hsz : ls.length + new.length < 2 ^ 64)
    (j : Nat) (hj : j < ls.length) :
    path (ls ++ hashesFrom ls.length new) j = path ls j ++ (acc.addLeaves new).2.2 (path ls j).length :=
  (path_grow (addLeaves_outer acc ls hacc new hnp hsz) (by omega) hj).2


/-! ### updateLeaves, applyBlock -/

/-- **updateLeaves computes the rewritten forest.** If every rewritten leaf carries its
    current naive path (`UpdOK`: distinct existing positions, `proof = path ls index`),
    then `updateLeaves` succeeds (no panic), every rewritten leaf ends up — grouped by the
    height of its tree — with its naive path in the rewritten leaf list
    `writeLeaves ls updated`, and replacing the roots of the touched trees by
    `es[0].proofRoot()` gives exactly the naive forest of the rewritten list.
    Any leaf count, ANY subset of rewritten leaves. -/
theorem c05_updateLeaves_forest (acc : Acc H) (ls : List H) (hacc : acc.toForest = forestOf ls)
    (updated : List (Leaf H)) (ok : UpdOK ls updated) (hn : ls.length < 2 ^ 64) :
    ∃ upd, updateLeaves updated = .ok upd ∧
      (∀ h l', l' ∈ upd h ↔ ∃ l ∈ updated, l.proof.length = h ∧ l' = withPath (writeLeaves ls updated) l) ∧
      (acc.withUpdatedRoots upd).toForest = forestOf (writeLeaves ls updated) := by
  obtain ⟨upd, h1, h2⟩ := updateLeaves_spec ls updated ok hn
  exact ⟨upd, h1, h2, withUpdatedRoots_forest acc ls hacc updated ok hn upd h2⟩

/-- **applyBlock computes the naive forest over all leaves ever added.** After
    `applyBlock updated added` the leaf count and roots are those of the naive forest of
    `ls2 = (ls with the rewrites) ++ (the added leaf hashes)`; the added leaves carry their
    indices and naive paths; the rewritten leaves (as stored in the update) carry their
    naive paths in `ls2`. -/
theorem c05_applyBlock_forest (acc : Acc H) (ls : List H) (hacc : acc.toForest = forestOf ls)
    (updated : List (Leaf H)) (ok : UpdOK ls updated)
    (added : List (Leaf H)) (hnp : ∀ l ∈ added, l.proof = [])
    (hsz : ls.length + added.length ≤ unassignedLeafIndex) :
    let ls2 := writeLeaves ls updated ++ hashesFrom ls.length added
    ∃ (acc' : Acc H) (u : ApplyUpdate H) (added' : List (Leaf H)), acc.applyBlock updated added = .ok (acc', u, added') ∧
      acc'.toForest = forestOf ls2 ∧
      acc'.numLeaves = ls.length + added.length ∧
      (∀ j l, added'[j]? = some l → l.index = ls.length + j ∧ l.proof = path ls2 (ls.length + j)) ∧
      (∀ h l', l' ∈ u.updated h ↔ ∃ l ∈ updated, l.proof.length = h ∧ l' = withPath ls2 l) := by
  intro ls2
  obtain ⟨acc', u, added', h1, h2, _, _, _, h6, h7, _⟩ := applyBlock_spec acc ls hacc updated ok added hnp hsz
  refine ⟨acc', u, added', h1, h2, ?_, fun j l hl => ⟨(h6 j l hl).1, (h6 j l hl).2.1⟩, h7⟩
  have := congrArg Forest.numLeaves h2
  simp only [Acc.toForest, forestOf] at this
  rw [this]
  show (writeLeaves ls updated ++ hashesFrom ls.length added).length = _
  rw [List.length_append, writeLeaves_length, hashesFrom_length]

/-- **Tracked proofs survive apply.** A client proof equal to `path ls j` — for ANY
    existing `j`, rewritten by the block or not — becomes `path ls2 j` after
    `updateElementProof`; a newly added element's proof is already `path ls2 j` and
    `updateElementProof` leaves it alone. -/
theorem c05_tracked_proof_apply (acc : Acc H) (ls : List H) (hacc : acc.toForest = forestOf ls)
    (updated : List (Leaf H)) (ok : UpdOK ls updated)
    (added : List (Leaf H)) (hnp : ∀ l ∈ added, l.proof = [])
    (hsz : ls.length + added.length ≤ unassignedLeafIndex) :
    let ls2 := writeLeaves ls updated ++ hashesFrom ls.length added
    ∃ (acc' : Acc H) (u : ApplyUpdate H) (added' : List (Leaf H)), acc.applyBlock updated added = .ok (acc', u, added') ∧
      (∀ j, j < ls.length → u.updateElementProof j (path ls j) = .ok (path ls2 j)) ∧
      (∀ (j : Nat) (l : Leaf H), added'[j]? = some l → u.updateElementProof l.index l.proof = .ok (path ls2 l.index)) := by
  intro ls2
  obtain ⟨acc', u, added', h1, _, h3, _, h5, h6, _, h8⟩ := applyBlock_spec acc ls hacc updated ok added hnp hsz
  refine ⟨acc', u, added', h1, h8, ?_⟩
  intro j l hl
  obtain ⟨a1, a2, _⟩ := h6 j l hl
  have hj : j < added.length := by
    have := (List.getElem?_eq_some_iff.1 hl).1
    rw [← h5]; exact this
  simp only [ApplyUpdate.updateElementProof, h3, a1]
  rw [if_neg (by omega), if_pos (by omega), a2]

/-- … and the updated proof verifies against the new accumulator with the element's
    CURRENT content and spent flag (whatever leaf hash now sits at position `j`). -/
theorem c05_tracked_proof_apply_verifies [DecidableEq H] (acc : Acc H) (ls : List H) (hacc : acc.toForest = forestOf ls)
    (updated : List (Leaf H)) (ok : UpdOK ls updated)
    (added : List (Leaf H)) (hnp : ∀ l ∈ added, l.proof = [])
    (hsz : ls.length + added.length ≤ unassignedLeafIndex) :
    let ls2 := writeLeaves ls updated ++ hashesFrom ls.length added
    ∃ (acc' : Acc H) (u : ApplyUpdate H) (added' : List (Leaf H)), acc.applyBlock updated added = .ok (acc', u, added') ∧
      ∀ j, j < ls.length → ∀ (e : H) (s : Bool), ls2.getD j default = Hasher.leaf e j s →
        ∃ p, u.updateElementProof j (path ls j) = .ok p ∧
          acc'.containsLeaf { elem := e, spent := s, index := j, proof := p } = true := by
  intro ls2
  obtain ⟨acc', u, added', h1, h2, _, _, _, _, _, h8⟩ := applyBlock_spec acc ls hacc updated ok added hnp hsz
  refine ⟨acc', u, added', h1, ?_⟩
  intro j hj e s hleaf
  refine ⟨path ls2 j, h8 j hj, ?_⟩
  apply C04.c04_contains_complete acc' ls2 h2
  · show j < ls2.length
    show j < (writeLeaves ls updated ++ hashesFrom ls.length added).length
    rw [List.length_append, writeLeaves_length]; omega
  · exact hleaf
  · rfl

/-! ### revertBlock -/

/-- **Tracked proofs survive revert.** `ls` is the parent's leaf list, `ls1 ++ ext` the
    child's (`ls1` = `ls` with the block's rewrites, `ext` = the leaves the block added);
    `updated` = the block's elements in their parent form with their parent proofs (what
    `RevertBlock` passes). Every client proof `path (ls1 ++ ext) j` of an element that
    exists in the parent becomes `path ls j` (truncation at the merge height, then
    `updateProof`). -/
theorem c05_tracked_proof_revert (acc : Acc H) (ls : List H) (hnum : acc.numLeaves = ls.length)
    (updated : List (Leaf H)) (ok : UpdOK ls updated)
    (hhash : ∀ l ∈ updated, ls.getD l.index default = l.hash)
    (added : List (Leaf H)) (ls1 ext : List H) (hlen1 : ls1.length = ls.length)
    (hsame : ∀ q, (∀ l ∈ updated, l.index ≠ q) → ls1.getD q default = ls.getD q default)
    (hsz : ls.length ≤ unassignedLeafIndex) :
    ∃ (ru : RevertUpdate H) (added' : List (Leaf H)), acc.revertBlock updated added = .ok (ru, added') ∧
      ∀ j, j < ls.length → ru.updateElementProof j (path (ls1 ++ ext) j) = .ok (path ls j) := by
  obtain ⟨ru, added', h1, _, _, h4⟩ := revertBlock_spec acc ls hnum updated ok hhash added ls1 ext hlen1 hsame hsz
  exact ⟨ru, added', h1, h4⟩

/-- **Apply then revert is the identity on tracked proofs.** `updatedNew` are the block's
    elements in their new form, `updatedOld` the same positions in their parent form. -/
theorem c05_apply_revert_roundtrip (acc : Acc H) (ls : List H) (hacc : acc.toForest = forestOf ls)
    (updatedNew updatedOld : List (Leaf H)) (okN : UpdOK ls updatedNew) (okO : UpdOK ls updatedOld)
    (hhash : ∀ l ∈ updatedOld, ls.getD l.index default = l.hash)
    (hidx : ∀ q, (∃ l ∈ updatedNew, l.index = q) → ∃ l ∈ updatedOld, l.index = q)
    (added : List (Leaf H)) (hnp : ∀ l ∈ added, l.proof = [])
    (hsz : ls.length + added.length ≤ unassignedLeafIndex) :
    ∃ (acc' : Acc H) (u : ApplyUpdate H) (added' : List (Leaf H)) (ru : RevertUpdate H) (added'' : List (Leaf H)), acc.applyBlock updatedNew added = .ok (acc', u, added') ∧
      acc.revertBlock updatedOld added = .ok (ru, added'') ∧
      ∀ j, j < ls.length →
        (u.updateElementProof j (path ls j) >>= ru.updateElementProof j) = .ok (path ls j) := by
  obtain ⟨acc', u, added', h1, _, _, _, _, _, _, h8⟩ := applyBlock_spec acc ls hacc updatedNew okN added hnp hsz
  have hnum := ((toForest_eq_iff acc ls).1 hacc).1
  obtain ⟨ru, added'', r1, _, _, r4⟩ := revertBlock_spec acc ls hnum updatedOld okO hhash added
    (writeLeaves ls updatedNew) (hashesFrom ls.length added) (writeLeaves_length _ _)
    (by
      intro q hq
      apply writeLeaves_get_other
      intro l hl e
      obtain ⟨l', hl', e'⟩ := hidx q ⟨l, hl, e⟩
      exact hq l' hl' e')
    (by omega)
  refine ⟨acc', u, added', ru, added'', h1, r1, ?_⟩
  intro j hj
  rw [h8 j hj]
  exact r4 j hj

/-! ### Any interleaving of applies and reverts -/

/-- States reachable by a client that follows a chain: `Hist acc ls π` — the
    accumulator `acc`, the list `ls` of all leaf hashes ever added on the current branch,
    and the client's current proof `π j` for every element `j`. Each step is the real
    `applyBlock` / `revertBlock` followed by `updateElementProof` on every tracked proof;
    a revert goes from any reachable child state back to any reachable state that is its
    parent (so reorgs of any depth and re-applications are covered). -/
inductive Hist : Acc H → List H → (Nat → List H) → Prop where
  | init (acc : Acc H) (ls : List H) (π : Nat → List H) :
      acc.toForest = forestOf ls → (∀ j, j < ls.length → π j = path ls j) → Hist acc ls π
  | apply (acc : Acc H) (ls : List H) (π : Nat → List H)
      (updated added : List (Leaf H)) (acc' : Acc H) (u : ApplyUpdate H) (added' : List (Leaf H)) (π' : Nat → List H) :
      Hist acc ls π →
      updated.Pairwise (fun a b => a.index ≠ b.index) → (∀ l ∈ updated, l.index < ls.length) →
      (∀ l ∈ updated, l.proof = π l.index) →
      (∀ l ∈ added, l.proof = []) → ls.length + added.length ≤ unassignedLeafIndex →
      acc.applyBlock updated added = .ok (acc', u, added') →
      (∀ j, j < ls.length → u.updateElementProof j (π j) = .ok (π' j)) →
      (∀ j l, added'[j]? = some l → π' (ls.length + j) = l.proof) →
      Hist acc' (writeLeaves ls updated ++ hashesFrom ls.length added) π'
  | revert (accP : Acc H) (lsP : List H) (πP : Nat → List H) (accC : Acc H) (ls1 ext : List H) (πC : Nat → List H)
      (updated added : List (Leaf H)) (ru : RevertUpdate H) (added' : List (Leaf H)) (π' : Nat → List H) :
      Hist accP lsP πP → Hist accC (ls1 ++ ext) πC →
      ls1.length = lsP.length → lsP.length ≤ unassignedLeafIndex →
      updated.Pairwise (fun a b => a.index ≠ b.index) → (∀ l ∈ updated, l.index < lsP.length) →
      (∀ l ∈ updated, l.proof = πP l.index) →
      (∀ l ∈ updated, lsP.getD l.index default = l.hash) →
      (∀ q, (∀ l ∈ updated, l.index ≠ q) → ls1.getD q default = lsP.getD q default) →
      accP.revertBlock updated added = .ok (ru, added') →
      (∀ j, j < lsP.length → ru.updateElementProof j (πC j) = .ok (π' j)) →
      Hist accP lsP π'

/-- **Induction over any interleaving of applies and reverts.** In every reachable state
    the accumulator's leaf count and roots are those of the naive forest over all leaves
    ever added, and every tracked proof is the naive path — hence (C04 completeness)
    verifies against the current state with the element's current content. -/
theorem c05_history (acc : Acc H) (ls : List H) (π : Nat → List H) (h : Hist acc ls π) :
    acc.toForest = forestOf ls ∧ ∀ j, j < ls.length → π j = path ls j := by
  induction h with
  | init acc ls π h1 h2 => exact ⟨h1, h2⟩
  | apply acc ls π updated added acc' u added' π' _ hnd hlt hpr hnp hsz happ hupd hadd ih =>
    obtain ⟨ih1, ih2⟩ := ih
    have ok : UpdOK ls updated := ⟨hnd, hlt, fun l hl => by rw [hpr l hl, ih2 _ (hlt l hl)]⟩
    obtain ⟨acc2, u2, added2, h1, h2, _, _, h5, h6, _, h8⟩ := applyBlock_spec acc ls ih1 updated ok added hnp hsz
    rw [happ] at h1
    obtain ⟨rfl, rfl, rfl⟩ : acc' = acc2 ∧ u = u2 ∧ added' = added2 := by
      have := Except.ok.inj h1
      exact ⟨congrArg Prod.fst this, congrArg (fun x => x.2.1) this, congrArg (fun x => x.2.2) this⟩
    refine ⟨h2, ?_⟩
    intro j hj
    rw [List.length_append, writeLeaves_length, hashesFrom_length] at hj
    rcases Nat.lt_or_ge j ls.length with hj' | hj'
    · have e1 := hupd j hj'
      rw [ih2 j hj', h8 j hj'] at e1
      exact (Except.ok.inj e1).symm
    · have hk : j - ls.length < added'.length := by omega
      have hget : added'[j - ls.length]? = some added'[j - ls.length] := List.getElem?_eq_getElem hk
      have e1 := hadd _ _ hget
      have e2 := (h6 _ _ hget).2.1
      have : ls.length + (j - ls.length) = j := by omega
      rw [this] at e1 e2
      rw [e1, e2]
  | revert accP lsP πP accC ls1 ext πC updated added ru added' π' _ _ hlen hsz hnd hlt hpr hh hsame hrev hupd ihP ihC =>
    obtain ⟨p1, p2⟩ := ihP
    obtain ⟨_, c2⟩ := ihC
    have ok : UpdOK lsP updated := ⟨hnd, hlt, fun l hl => by rw [hpr l hl, p2 _ (hlt l hl)]⟩
    have hnum := ((toForest_eq_iff accP lsP).1 p1).1
    obtain ⟨ru2, added2, r1, _, _, r4⟩ := revertBlock_spec accP lsP hnum updated ok hh added ls1 ext hlen hsame hsz
    rw [hrev] at r1
    obtain ⟨rfl, _⟩ : ru = ru2 ∧ added' = added2 := by
      have := Except.ok.inj r1
      exact ⟨congrArg Prod.fst this, congrArg Prod.snd this⟩
    refine ⟨p1, ?_⟩
    intro j hj
    have e1 := hupd j hj
    rw [c2 j (by rw [List.length_append]; omega), r4 j hj] at e1
    exact (Except.ok.inj e1).symm

end

/-! ### The hypotheses are satisfiable (free term algebra `T`), and the model runs -/

theorem emptyAcc_forest : emptyAcc.toForest = forestOf ([] : List T) := by
  rw [toForest_eq_iff]; exact ⟨rfl, fun h hb => by simp at hb⟩

/-- three leaves, the last one spent -/
def ex3 : List (Leaf T) := [freshLeaf 10, freshLeaf 11, freshLeaf 12 true]
/-- two more -/
def ex2 : List (Leaf T) := [freshLeaf 13, freshLeaf 14]

/-- `c05_addLeaves_forest` instantiated: empty accumulator, three leaves -/
example : (emptyAcc.addLeaves ex3).1.toForest = forestOf (hashesFrom 0 ex3) :=
  (c05_addLeaves_forest emptyAcc [] emptyAcc_forest ex3 (by decide) (by decide)).1

/-- the 3-leaf accumulator and its leaf list -/
def acc3 : Acc T := (emptyAcc.addLeaves ex3).1
def ls3 : List T := hashesFrom 0 ex3
theorem acc3_forest : acc3.toForest = forestOf ls3 :=
  (c05_addLeaves_forest emptyAcc [] emptyAcc_forest ex3 (by decide) (by decide)).1

/-- a block that spends leaf 1 (its holder's proof attached) and rewrites leaf 2 -/
def exUpdNew : List (Leaf T) :=
  [{ elem := .atom 11, spent := true, index := 1, proof := path ls3 1 },
   { elem := .atom 99, spent := false, index := 2, proof := path ls3 2 }]
/-- the same elements in their parent form (what `RevertBlock` passes) -/
def exUpdOld : List (Leaf T) :=
  [{ elem := .atom 11, spent := false, index := 1, proof := path ls3 1 },
   { elem := .atom 12, spent := true, index := 2, proof := path ls3 2 }]

theorem exUpdNew_ok : UpdOK ls3 exUpdNew :=
  ⟨by decide, by decide, by intro l hl; simp [exUpdNew] at hl; rcases hl with rfl | rfl <;> rfl⟩
theorem exUpdOld_ok : UpdOK ls3 exUpdOld :=
  ⟨by decide, by decide, by intro l hl; simp [exUpdOld] at hl; rcases hl with rfl | rfl <;> rfl⟩

/-- the hypotheses of `c05_applyBlock_forest` / `c05_tracked_proof_apply` /
    `c05_apply_revert_roundtrip` hold for a non-trivial instance: three leaves, two of
    them rewritten, two added -/
example : ∃ (acc' : Acc T) (u : ApplyUpdate T) (added' : List (Leaf T)) (ru : RevertUpdate T) (added'' : List (Leaf T)),
    acc3.applyBlock exUpdNew ex2 = .ok (acc', u, added') ∧ acc3.revertBlock exUpdOld ex2 = .ok (ru, added'') ∧
    ∀ j, j < ls3.length → (u.updateElementProof j (path ls3 j) >>= ru.updateElementProof j) = .ok (path ls3 j) :=
  c05_apply_revert_roundtrip acc3 ls3 acc3_forest exUpdNew exUpdOld exUpdNew_ok exUpdOld_ok
    (by decide)
    (by
      rintro q ⟨l, hl, rfl⟩
      simp [exUpdNew] at hl
      rcases hl with rfl | rfl
      · exact ⟨_, List.mem_cons_self, rfl⟩
      · exact ⟨_, List.mem_cons_of_mem _ List.mem_cons_self, rfl⟩)
    ex2 (by decide) (by decide)

/-- a reachable state in the sense of `Hist` (the initial one), so `c05_history` is not vacuous -/
example : Hist acc3 ls3 (fun j => path ls3 j) := Hist.init _ _ _ acc3_forest (fun _ _ => rfl)

/-- the model evaluated in the kernel: leaf 1's old path, updated across a block that
    adds two leaves (3 → 5 leaves: the trees of height 0 and 1 merge into one of height 2),
    is the naive path of the 5-leaf forest -/
example :
    (match acc3.applyBlock [] ex2 with
     | .ok (_, u, _) => u.updateElementProof 1 (path ls3 1)
     | .error e => .error e)
    = .ok (path (hashesFrom 0 (ex3 ++ ex2)) 1) := by decide +kernel

end C05
