/-
# C18 — Multiproof block compression and compact block relay are lossless

Models: `SiaModel/Merkle/Multiproof.lean` (types/multiproof.go over the forest model of
C05: a transaction set is the list of its non-ephemeral element leaves in visiting
order; ephemeral parents are skipped by the code and never touched) and
`SiaModel/Gateway/Outline.lean` (gateway/outline.go over abstract transactions).

  c18_expand_compute              expand (strip txns) (compute txns) = txns, |compute| = multiproofSize
  c18_numleaves_recovers_lengths  the numLeaves inference recovers every proof length (pure bit lemma)
  c18_codec_roundtrip_leaves      DecodeFrom ∘ EncodeTo = id at the level of leaves + hash stream
  c18_codec_roundtrip             … on BYTES and transaction value trees, for any lawful transaction codec
  c18_codec_roundtrip_c11         … instantiated with C11's V2Transaction codec
  c18_outline_id                  an outline with ANY subset omitted has the block's ID
  c18_missing_fresh               Missing of a fresh outline = the omitted hashes, block order
  c18_missing_exact               Complete reports exactly the still-missing hashes, block order
  c18_complete_restores           with a pool containing the omitted ones (superset, any order): exactly the block
  c18_outline_codec_roundtrip     the outline codec round-trips on BYTES for any lawful payload codecs
  c18_outline_codec_roundtrip_c11 … instantiated with C11's codecs and the multiproof codec

No hash assumption is needed for the multiproof theorems (they are equalities with the
naive forest). The outline theorems assume `EnvOK`: the transaction leaf hash is injective
on v1 and on v2 transactions and never coincides across the kinds (collision freedom of
`hashAll(leafHashPrefix, txn)` + injectivity of the transaction encodings, C11).
-/
import SiaProofs.Lemmas.Multiproof
import SiaProofs.Lemmas.Outline
import SiaProofs.Lemmas.TermHash
import SiaProofs.Lemmas.TxTraverse
import SiaProofs.Props.C11Irregular
import SiaProofs.Lemmas.OutlineBytes
import SiaProofs.Lemmas.TxCanon
namespace C18
open Sia.ElemAcc Sia.Multiproof Sia.Outline

section
variable {H : Type} [Hasher H] [Inhabited H]

/-- **expand ∘ compute = id, and the size is right.** If every element proof is the naive
    path `path ls i` of one forest `ls` (the same leaf may occur several times; `tag`s are
    the identities of the StateElements; ephemeral parents are not in the list at all),
    then for ANY placeholders `g` of the same lengths (the stripped transactions),
    `expandMultiproof` applied to the computed multiproof restores every leaf proof for
    proof, and the multiproof has exactly `multiproofSize` hashes. -/
theorem c18_expand_compute (ls : List H) (leaves : List (MLeaf H)) (hv : ∀ l ∈ leaves, Valid ls l)
    (htag : ∀ a ∈ leaves, ∀ b ∈ leaves, a.tag = b.tag → a = b) (hn : ls.length < 2 ^ 64)
    (g : MLeaf H → MLeaf H) (hg : Shape g) :
    expandMultiproof (leaves.map g) (computeMultiproof leaves) = .ok leaves ∧
    (computeMultiproof leaves).length = multiproofSize (leaves.map g) :=
  expand_compute ls leaves hv htag hn g hg

/-- **The numLeaves inference recovers every proof length** — a pure bit-level fact, for
    all naturals (in particular all 64-bit values): if every `(idx_i, len_i)` is a leaf of
    a forest with `N` leaves (bit `len_i` of `N` set and `idx_i` inside that tree), then
    with `N' = OR_i ((idx_i &^ (2^len_i − 1)) | 2^len_i)` — which need not equal `N` —
    `idx_i < N'` and `bits.Len64(idx_i ^ N') − 1 = len_i`. -/
theorem c18_numleaves_recovers_lengths (N : Nat) (leaves : List (MLeaf H))
    (hin : ∀ l ∈ leaves, N.testBit l.proof.length = true ∧
      treeStart N l.proof.length ≤ l.index ∧ l.index < treeStart N l.proof.length + 2 ^ l.proof.length) :
    ∀ l ∈ leaves, l.index < inferNumLeaves leaves ∧
      bitLen (l.index ^^^ inferNumLeaves leaves) - 1 = l.proof.length :=
  numLeaves_recovers N (fun l : MLeaf H => l.index) (fun l => l.proof.length) leaves hin

/-- The codec at the level the multiproof code works on: the element leaves and the hash
    stream — proofless leaves, inferred `numLeaves`, multiproof — followed by any further
    data `tail`, decode to exactly the original leaves and leave `tail` unread.
    (`c18_codec_roundtrip` below lifts this to bytes and transaction values.) -/
theorem c18_codec_roundtrip_leaves (ls : List H) (leaves : List (MLeaf H)) (hv : ∀ l ∈ leaves, Valid ls l)
    (htag : ∀ a ∈ leaves, ∀ b ∈ leaves, a.tag = b.tag → a = b) (hn : ls.length < 2 ^ 64) (tail : List H) :
    decodeMP (encodeMP leaves).1 (encodeMP leaves).2.1 ((encodeMP leaves).2.2 ++ tail) = .ok (leaves, tail) :=
  codec_roundtrip ls leaves hv htag hn tail

end

/-! ### the codec on bytes and transaction values

`SiaModel/Merkle/MultiproofBytes.lean` is `V2TransactionsMultiproof.EncodeTo/DecodeFrom` on
bytes (proofless `EncodeSlice`, `WriteUint64(numLeaves)`, 32-byte hashes; `DecodeSlice`,
`ReadUint64`, the index guard, proof lengths from `numLeaves`, `multiproofSize` hashes,
`expandMultiproof`), `SiaModel/Merkle/TxTraverse.lean` is `forEachElementLeaf` on the VALUE
TREE of a transaction slice (parents of siacoin inputs, siafund inputs, revisions,
resolutions and — for storage proofs — the proof index, in that order; ephemeral parents
skipped), with proofs written back through a lawful traversal (`txnsParents_ok`). -/

section
variable [Hasher Hash32]

/-- **The multiproof codec round-trips on bytes**: for ANY transaction codec
    `(encP, decP)` that round-trips on canonical values (C11 supplies it), any element-hash
    function `eh` that does not read the proof, and any slice of transactions `t` (a value
    tree) whose non-ephemeral parents carry the naive paths of one forest:
    `DecodeFrom (EncodeTo t ‖ tail) = (t, tail)` — every proof restored bit for bit, hence
    every hash over the transactions (block ID, commitment) unchanged.
    Side conditions: `GoodTxns t` (parents have the element shape, 32-byte proof entries) and
    canonicity of the proofless transactions — both hold for every canonical `t`. -/
theorem c18_codec_roundtrip (eh : Nat → Sia.Codec.Val → Hash32) (heh : ∀ k el p, eh k (setProof el p) = eh k el)
    (encP : Sia.Codec.Val → Sia.Codec.Bytes) (decP : Sia.Codec.Bytes → Except Sia.Codec.DecErr (Sia.Codec.Val × Sia.Codec.Bytes))
    (CanonP : Sia.Codec.Val → Prop) (hrt : ∀ t rest, CanonP t → decP (encP t ++ rest) = .ok (t, rest))
    (ls : List Hash32) (t : Sia.Codec.Val) (hgood : GoodTxns t)
    (hv : ∀ l ∈ (valOps eh encP decP).leaves t, Valid ls l) (hn : ls.length < 2 ^ 64)
    (hcanon : CanonP ((valOps eh encP decP).strip t)) (tail : Sia.Codec.Bytes) :
    decodeBytes (valOps eh encP decP) (encodeBytes (valOps eh encP decP) t ++ tail) = .ok (t, tail) :=
  bytes_roundtrip (valOps eh encP decP) CanonP GoodTxns (valOps_ok eh heh encP decP CanonP hrt) ls t hgood hv hn hcanon tail

/-- the schema of `[]V2Transaction` in C11's codec model -/
def txnsSch : Sia.Codec.Sch := .slice C11.v2txn

/-- … with C11's codec as the payload codec, over ANY environment `E` of irregular codecs
    that is lawful (`EnvOK`) and contains the modelled V2Transaction / resolution codecs
    (`TxnEnv`), for any decoder slack `k`. The only hypotheses left are the codec-side one —
    `t` is a canonical value of `[]V2Transaction` — and the statement's own premise that the
    non-ephemeral parents carry the paths of one forest: well-shapedness of the parents and
    canonicity of the stripped set are DERIVED from canonicity of `t` (`Lemmas/TxCanon`).
    An environment extended by further codecs (e.g. a spend-policy codec) qualifies as is. -/
theorem c18_codec_roundtrip_env {E E2 E1 E0 : Sia.Codec.Env} (hE : Sia.Codec.EnvOK E) (henv : TxnEnv E E2 E1 E0) (k : Nat)
    (eh : Nat → Sia.Codec.Val → Hash32) (heh : ∀ k el p, eh k (setProof el p) = eh k el)
    (ls : List Hash32) (t : Sia.Codec.Val) (hc : Sia.Codec.Canon E txnsSch t)
    (hv : ∀ l ∈ (valOps eh (Sia.Codec.enc E txnsSch) (Sia.Codec.dec E k txnsSch)).leaves t, Valid ls l)
    (hn : ls.length < 2 ^ 64) (tail : Sia.Codec.Bytes) :
    decodeBytes (valOps eh (Sia.Codec.enc E txnsSch) (Sia.Codec.dec E k txnsSch))
      (encodeBytes (valOps eh (Sia.Codec.enc E txnsSch) (Sia.Codec.dec E k txnsSch)) t ++ tail) = .ok (t, tail) := by
  have hwf : txnsSch.wf E = true := by
    simp [txnsSch, C11.v2txn, Sia.Codec.Sch.wf, Sia.Codec.Sch.minLen, henv.txn, Sia.Codec.Irregular.v2TxnCodec, Sia.Codec.Codec.bitmap]
  exact c18_codec_roundtrip eh heh _ _ (Sia.Codec.Canon E txnsSch)
    (fun v rest hc => C11.c11_roundtrip hE k txnsSch hwf v rest hc) ls t
    (goodTxns_of_canon henv hc) hv hn (strip_canon henv eh _ _ hc) tail

/-- the instance for the codec model's current environment -/
theorem c18_codec_roundtrip_c11 (k : Nat) (eh : Nat → Sia.Codec.Val → Hash32) (heh : ∀ k el p, eh k (setProof el p) = eh k el)
    (ls : List Hash32) (t : Sia.Codec.Val) (hc : Sia.Codec.Canon Sia.Codec.Irregular.env txnsSch t)
    (hv : ∀ l ∈ (valOps eh (Sia.Codec.enc Sia.Codec.Irregular.env txnsSch) (Sia.Codec.dec Sia.Codec.Irregular.env k txnsSch)).leaves t, Valid ls l)
    (hn : ls.length < 2 ^ 64) (tail : Sia.Codec.Bytes) :
    decodeBytes (valOps eh (Sia.Codec.enc Sia.Codec.Irregular.env txnsSch) (Sia.Codec.dec Sia.Codec.Irregular.env k txnsSch))
      (encodeBytes (valOps eh (Sia.Codec.enc Sia.Codec.Irregular.env txnsSch) (Sia.Codec.dec Sia.Codec.Irregular.env k txnsSch)) t ++ tail) = .ok (t, tail) :=
  c18_codec_roundtrip_env C11.c11_env_ok irregular_txnEnv k eh heh ls t hc hv hn tail

end

/-! ### block outlines -/

section
variable {Tx1 Tx2 H Addr : Type} [DecidableEq H] (env : Env Tx1 Tx2 H Addr)

/-- a block whose commitment is the one consensus requires (`State.Commitment`) -/
def CommitOK (b : Block Tx1 Tx2 H Addr) : Prop :=
  b.commitment = env.commit b.minerAddress (b.txns.map env.leaf1 ++ b.v2txns.map env.leaf2)

/-- **An outline has the block's ID**, whatever subset of transactions is omitted. -/
theorem c18_outline_id (b : Block Tx1 Tx2 H Addr) (hc : CommitOK env b) (om1 : List Tx1) (om2 : List Tx2) :
    (outlineBlock env b om1 om2).id env = b.id env := by
  unfold CommitOK at hc
  simp only [BlockOutline.id, BlockOutline.commitment, Block.id, outline_hashes]
  rw [hc]
  rfl

/-- `Missing` of a fresh outline: the hashes of the omitted transactions, in block order. -/
theorem c18_missing_fresh (ok : EnvOK env) (b : Block Tx1 Tx2 H Addr) (om1 : List Tx1) (om2 : List Tx2) :
    (outlineBlock env b om1 om2).missing =
      (b.txns.filter (fun t => decide (env.leaf1 t ∈ om1.map env.leaf1 ++ om2.map env.leaf2))).map env.leaf1 ++
      (b.v2txns.filter (fun t => decide (env.leaf2 t ∈ om1.map env.leaf1 ++ om2.map env.leaf2))).map env.leaf2 := by
  -- completing with an empty pool fills nothing in
  have h := (complete_spec env ok b om1 om2 [] []).2.2
  have hfill : (outlineBlock env b om1 om2).transactions.map (fillOne env [] []) = (outlineBlock env b om1 om2).transactions := by
    conv => rhs; rw [← List.map_id (outlineBlock env b om1 om2).transactions]
    apply List.map_congr_left
    intro t _
    simp only [fillOne, lookupLast, List.reverse_nil, List.find?_nil, id]
    split
    · rename_i hm
      simp only [Bool.and_eq_true, Option.isNone_iff_eq_none] at hm
      cases t; simp_all
    · rfl
  simp only [BlockOutline.complete, hfill] at h
  rw [h]
  simp [present1, present2]

/-- **Complete reports exactly the still-missing hashes, in block order**, and returns the
    block's other transactions in block order. -/
theorem c18_missing_exact (ok : EnvOK env) (b : Block Tx1 Tx2 H Addr) (om1 : List Tx1) (om2 : List Tx2)
    (pool1 : List Tx1) (pool2 : List Tx2) :
    ((outlineBlock env b om1 om2).complete env pool1 pool2).2.1 =
      (b.txns.filter (fun t => !present1 env om1 om2 pool1 t)).map env.leaf1 ++
      (b.v2txns.filter (fun t => !present2 env om1 om2 pool2 t)).map env.leaf2 ∧
    ((outlineBlock env b om1 om2).complete env pool1 pool2).1.txns = b.txns.filter (present1 env om1 om2 pool1) ∧
    ((outlineBlock env b om1 om2).complete env pool1 pool2).1.v2txns = b.v2txns.filter (present2 env om1 om2 pool2) :=
  ⟨(complete_spec env ok b om1 om2 pool1 pool2).2.2, (complete_spec env ok b om1 om2 pool1 pool2).1,
   (complete_spec env ok b om1 om2 pool1 pool2).2.1⟩

/-- **Complete restores exactly the block.** If the pools contain the omitted transactions
    (any superset, any order, duplicates, unrelated entries), the block's commitment is the
    consensus one and its miner payout is reward + fees (both required of a valid v2
    block), then `Complete` returns the original block and no missing hashes. -/
theorem c18_complete_restores (ok : EnvOK env) (b : Block Tx1 Tx2 H Addr) (hc : CommitOK env b)
    (hpay : b.minerValue = env.reward + (b.txns.map env.fee1).sum + (b.v2txns.map env.fee2).sum)
    (om1 : List Tx1) (om2 : List Tx2) (pool1 : List Tx1) (pool2 : List Tx2)
    (h1 : ∀ t ∈ om1, env.leaf1 t ∈ pool1.map env.leaf1) (h2 : ∀ t ∈ om2, env.leaf2 t ∈ pool2.map env.leaf2) :
    ((outlineBlock env b om1 om2).complete env pool1 pool2).1 = b ∧
    ((outlineBlock env b om1 om2).complete env pool1 pool2).2.1 = [] := by
  have hp1 : ∀ t, present1 env om1 om2 pool1 t = true := by
    intro t
    unfold present1
    by_cases hr : env.leaf1 t ∈ om1.map env.leaf1 ++ om2.map env.leaf2
    · rcases List.mem_append.1 hr with h | h
      · obtain ⟨t', ht', e⟩ := List.mem_map.1 h
        have := h1 t' ht'
        rw [e] at this; simp [this]
      · obtain ⟨t', _, e⟩ := List.mem_map.1 h
        exact absurd e.symm (ok.disj t t')
    · simp [hr]
  have hp2 : ∀ t, present2 env om1 om2 pool2 t = true := by
    intro t
    unfold present2
    by_cases hr : env.leaf2 t ∈ om1.map env.leaf1 ++ om2.map env.leaf2
    · rcases List.mem_append.1 hr with h | h
      · obtain ⟨t', _, e⟩ := List.mem_map.1 h
        exact absurd e (ok.disj t' t)
      · obtain ⟨t', ht', e⟩ := List.mem_map.1 h
        have := h2 t' ht'
        rw [e] at this; simp [this]
    · simp [hr]
  obtain ⟨c1, c2, c3⟩ := complete_spec env ok b om1 om2 pool1 pool2
  have f1 : b.txns.filter (present1 env om1 om2 pool1) = b.txns := List.filter_eq_self.2 (fun t _ => hp1 t)
  have f2 : b.v2txns.filter (present2 env om1 om2 pool2) = b.v2txns := List.filter_eq_self.2 (fun t _ => hp2 t)
  refine ⟨?_, ?_⟩
  · rw [f1] at c1; rw [f2] at c2
    cases b with
    | mk parentID nonce timestamp minerAddress minerValue height commitment txns v2txns =>
      have hv1 := c1; have hv2 := c2
      simp only [BlockOutline.complete] at c1 c2 ⊢
      simp only [Block.mk.injEq]
      refine ⟨rfl, rfl, rfl, rfl, ?_, rfl, ?_, c1, c2⟩
      · rw [c1, c2]; exact hpay.symm
      · simp only [BlockOutline.commitment, outline_hashes]; exact hc.symm
  · rw [c3]
    simp [hp1, hp2]

/-- **The outline codec round-trips on bytes** (`(*V2BlockOutline).encodeTo/decodeFrom`,
    gateway/encoding.go): header fields, the present v1 transactions (`EncodeSlice`), the
    present v2 transactions as ONE multiproof set, the hashes of the missing ones, one kind
    byte per transaction — for ANY three payload codecs that round-trip on the values
    `P1/P2/PH` describe. The outline must be one whose present entries carry the hash of
    their transaction (`EntriesWF`: true of `OutlineBlock` outlines and of decoded ones). -/
theorem c18_outline_codec_roundtrip {Tx1 Tx2 : Type} (env : Env Tx1 Tx2 Hash32 Hash32) (C : OutlineCodecs Tx1 Tx2)
    (P1 : List Tx1 → Prop) (P2 : List Tx2 → Prop) (PH : List Hash32 → Prop)
    (l1 : C.v1.Law P1) (l2 : C.v2.Law P2) (lH : C.hs.Law PH)
    (bo : BOutline Tx1 Tx2) (hwf : EntriesWF env bo.transactions)
    (hh : bo.height < Sia.Codec.W64) (hnn : bo.nonce < Sia.Codec.W64) (hts : bo.timestamp < Sia.Codec.W64)
    (h1 : P1 (encodeShape bo).1) (h2 : P2 (encodeShape bo).2.1) (h3 : PH (encodeShape bo).2.2.1) (tail : Sia.Codec.Bytes) :
    decodeOutline env C (encodeOutline C bo ++ tail) = .ok (bo, tail) :=
  outline_bytes_roundtrip env C P1 P2 PH l1 l2 lH bo hwf hh hnn hts h1 h2 h3 tail

/-- the outline of a block made by `OutlineBlock` satisfies `EntriesWF` -/
theorem c18_outlineBlock_entries_wf {Tx1 Tx2 : Type} (env : Env Tx1 Tx2 Hash32 Hash32)
    (b : Block Tx1 Tx2 Hash32 Hash32) (om1 : List Tx1) (om2 : List Tx2) :
    EntriesWF env (outlineBlock env b om1 om2).transactions := by
  intro t ht
  simp only [outlineBlock, BlockOutline.removeTransactions, List.mem_map, List.mem_append] at ht
  obtain ⟨t0, ht0, rfl⟩ := ht
  rcases ht0 with ⟨x, _, rfl⟩ | ⟨x, _, rfl⟩ <;> (split <;> constructor <;> intro y hy <;> simp_all)

end

/-! ### the outline codec with C11's payload codecs -/

section
open Sia.Codec

/-- `EncodeSlice` / `DecodeSlice` of a slice whose elements have schema `s`, on lists of values -/
def sliceCodec (E : Sia.Codec.Env) (k : Nat) (s : Sch) : BCodec (List Val) where
  enc := fun l => enc E (.slice s) (.list l)
  dec := fun bs => match dec E k (.slice s) bs with
    | .ok (.list l, r) => .ok (l, r)
    | .ok _ => .error .invalid
    | .error e => .error e

theorem sliceCodec_law {E : Sia.Codec.Env} (hE : EnvOK E) (k : Nat) (s : Sch) (hwf : (Sch.slice s).wf E = true) :
    (sliceCodec E k s).Law (fun l => Canon E (.slice s) (.list l)) := by
  intro l rest hc
  simp only [sliceCodec, C11.c11_roundtrip hE k (.slice s) hwf (.list l) rest hc]

/-- `EncodeSlice` / `DecodeSlice` of `[]types.Hash256` -/
def hashCodec (E : Sia.Codec.Env) (k : Nat) : BCodec (List Hash32) where
  enc := fun hs => enc E (.slice (.fixed 32)) (.list (hs.map fun h => .bytes h.val))
  dec := fun bs => match dec E k (.slice (.fixed 32)) bs with
    | .ok (.list vs, r) => if (vs.filterMap hash32Of).length = vs.length then .ok (vs.filterMap hash32Of, r) else .error .invalid
    | .ok _ => .error .invalid
    | .error e => .error e

theorem filterMap_hash32Of (hs : List Hash32) : (hs.map fun h => Val.bytes h.val).filterMap hash32Of = hs := by
  induction hs with
  | nil => rfl
  | cons a t ih => simp only [List.map_cons, List.filterMap_cons, hash32Of_bytes, ih]

theorem hashCodec_law {E : Sia.Codec.Env} (hE : EnvOK E) (k : Nat) :
    (hashCodec E k).Law (fun hs => hs.length < W64) := by
  intro hs rest hlen
  have hc : Canon E (.slice (.fixed 32)) (.list (hs.map fun h => .bytes h.val)) := by
    simp only [Canon, canon, List.length_map, hlen, decide_true, Bool.true_and, List.all_eq_true, List.mem_map]
    rintro v ⟨h, _, rfl⟩
    simp [Atom.codec, isBytes, h.property]
  simp only [hashCodec, C11.c11_roundtrip hE k (.slice (.fixed 32)) (by simp [Sch.wf, Sch.minLen, Atom.codec]) _ rest hc, filterMap_hash32Of,
    List.length_map, if_true]

variable [Hasher Hash32]

/-- `V2TransactionsMultiproof` on lists of transaction values -/
def mpCodec (ops : TxSetOps Val) : BCodec (List Val) where
  enc := fun l => encodeBytes ops (.list l)
  dec := fun bs => match decodeBytes ops bs with
    | .ok (.list l, r) => .ok (l, r)
    | .ok _ => .error .invalid
    | .error e => .error e

/-- the side conditions of `c18_codec_roundtrip` for a list of transaction values -/
def MpOK (eh : Nat → Val → Hash32) (encP : Val → Bytes) (decP : Bytes → Except DecErr (Val × Bytes)) (CanonP : Val → Prop)
    (l : List Val) : Prop :=
  GoodTxns (.list l) ∧ (∃ ls : List Hash32, ls.length < 2 ^ 64 ∧ ∀ x ∈ (valOps eh encP decP).leaves (.list l), Valid ls x) ∧
  CanonP ((valOps eh encP decP).strip (.list l))

theorem mpCodec_law (eh : Nat → Val → Hash32) (heh : ∀ k el p, eh k (setProof el p) = eh k el)
    (encP : Val → Bytes) (decP : Bytes → Except DecErr (Val × Bytes)) (CanonP : Val → Prop)
    (hrt : ∀ t rest, CanonP t → decP (encP t ++ rest) = .ok (t, rest)) :
    (mpCodec (valOps eh encP decP)).Law (MpOK eh encP decP CanonP) := by
  rintro l rest ⟨hg, ⟨ls, hn, hv⟩, hc⟩
  simp only [mpCodec, c18_codec_roundtrip eh heh encP decP CanonP hrt ls (.list l) hg hv hn hc rest]

/-- the side conditions for the v2 transactions of an outline, codec side only: a canonical
    value whose non-ephemeral parents carry the paths of one forest -/
def MpCanon (E : Sia.Codec.Env) (k : Nat) (eh : Nat → Val → Hash32) (l : List Val) : Prop :=
  Canon E txnsSch (.list l) ∧
  ∃ ls : List Hash32, ls.length < 2 ^ 64 ∧ ∀ x ∈ (valOps eh (enc E txnsSch) (dec E k txnsSch)).leaves (.list l), Valid ls x

theorem mpCodec_law_env {E E2 E1 E0 : Sia.Codec.Env} (hE : EnvOK E) (henv : TxnEnv E E2 E1 E0) (k : Nat)
    (eh : Nat → Val → Hash32) (heh : ∀ k el p, eh k (setProof el p) = eh k el) :
    (mpCodec (valOps eh (enc E txnsSch) (dec E k txnsSch))).Law (MpCanon E k eh) := by
  rintro l rest ⟨hc, ls, hn, hv⟩
  simp only [mpCodec, c18_codec_roundtrip_env hE henv k eh heh ls (.list l) hc hv hn rest]

/-- **The outline codec round-trips on bytes, with C11's codecs**, over any lawful
    environment containing the modelled transaction codecs: v1 transactions and hashes
    through `c11_roundtrip` for their slice schemas (`txn1` = the generated schema of
    `types.Transaction`), v2 transactions through `c18_codec_roundtrip_env`. Hypotheses:
    the payloads are canonical values (codec side), the v2 parents carry the paths of one
    forest (the property's premise), the header numbers are uint64. -/
theorem c18_outline_codec_roundtrip_c11 {E E2 E1 E0 : Sia.Codec.Env} (hE : EnvOK E) (henv : TxnEnv E E2 E1 E0)
    (k : Nat) (txn1 : Sch) (hwf1 : (Sch.slice txn1).wf E = true)
    (env : Sia.Outline.Env Val Val Hash32 Hash32)
    (eh : Nat → Val → Hash32) (heh : ∀ k el p, eh k (setProof el p) = eh k el)
    (bo : BOutline Val Val) (hwf : EntriesWF env bo.transactions)
    (hh : bo.height < W64) (hnn : bo.nonce < W64) (hts : bo.timestamp < W64)
    (h1 : Canon E (.slice txn1) (.list (encodeShape bo).1))
    (h2 : MpCanon E k eh (encodeShape bo).2.1)
    (hlen : (encodeShape bo).2.2.1.length < W64) (tail : Bytes) :
    let C : OutlineCodecs Val Val :=
      { v1 := sliceCodec E k txn1,
        v2 := mpCodec (valOps eh (enc E txnsSch) (dec E k txnsSch)),
        hs := hashCodec E k }
    decodeOutline env C (encodeOutline C bo ++ tail) = .ok (bo, tail) := by
  intro C
  exact c18_outline_codec_roundtrip env C _ _ _
    (sliceCodec_law hE k txn1 hwf1) (mpCodec_law_env hE henv k eh heh) (hashCodec_law hE k)
    bo hwf hh hnn hts h1 h2 hlen tail

end

/-! ### The hypotheses are satisfiable -/

/-- a three-leaf forest (free term algebra) and a transaction set using leaf 1 twice and leaf 2 -/
def exLs : List T := [Hasher.leaf (.atom 10) 0 false, Hasher.leaf (.atom 11) 1 false, Hasher.leaf (.atom 12) 2 false]
def exLeaves : List (MLeaf T) :=
  [⟨0, .atom 11, 1, path exLs 1⟩, ⟨1, .atom 12, 2, path exLs 2⟩, ⟨2, .atom 11, 1, path exLs 1⟩]

example : ∀ l ∈ exLeaves, Valid exLs l := by
  intro l hl
  simp [exLeaves] at hl
  rcases hl with rfl | rfl | rfl <;> exact ⟨by decide, rfl, by decide⟩

theorem exLeaves_valid : ∀ l ∈ exLeaves, Valid exLs l := by
  intro l hl
  simp [exLeaves] at hl
  rcases hl with rfl | rfl | rfl <;> exact ⟨by decide, rfl, by decide⟩

/-- `c18_expand_compute` instantiated on it (the same leaf twice, distinct tags) -/
example : expandMultiproof (exLeaves.map zeroProof) (computeMultiproof exLeaves) = .ok exLeaves :=
  (c18_expand_compute exLs exLeaves exLeaves_valid
    (by
      intro a ha b hb h
      simp [exLeaves] at ha hb
      rcases ha with rfl | rfl | rfl <;> rcases hb with rfl | rfl | rfl <;> first | rfl | (simp at h))
    (by decide) zeroProof zeroProof_shape).1

/-- a model of `EnvOK`: transactions are their own hashes, tagged by kind -/
def exEnv : Env Nat Nat (Bool × Nat) Unit where
  leaf1 := fun t => (false, t)
  leaf2 := fun t => (true, t)
  fee1 := fun _ => 1
  fee2 := fun _ => 2
  commit := fun _ hs => (true, hs.length)
  headerID := fun _ _ _ c => c
  reward := 100

example : EnvOK exEnv := ⟨fun _ _ h => by cases h; rfl, fun _ _ h => by cases h; rfl, fun _ _ h => by cases h⟩

/-- a block with 2 + 2 transactions; omit one of each kind; complete from a shuffled superset -/
def exBlock : Block Nat Nat (Bool × Nat) Unit :=
  { parentID := (false, 0), nonce := 7, timestamp := 9, minerAddress := (), minerValue := 106, height := 5,
    commitment := (true, 4), txns := [1, 2], v2txns := [3, 4] }

example : CommitOK exEnv exBlock := rfl
example : ((outlineBlock exEnv exBlock [2] [3]).complete exEnv [9, 2, 8] [4, 3, 3]).1.txns = [1, 2] ∧
    ((outlineBlock exEnv exBlock [2] [3]).complete exEnv [9, 2, 8] [4, 3, 3]).2.1 = [] ∧
    ((outlineBlock exEnv exBlock [2] [3]).complete exEnv [9] [4]).2.1 = [(false, 2), (true, 3)] := by decide

end C18

namespace C18
open Sia.ElemAcc Sia.Multiproof Sia.Codec

/-! ### `c18_codec_roundtrip_c11`: the hypotheses are satisfiable -/

/-- a constant hash (enough to exhibit a consistent instance; the theorem is for every `Hasher`) -/
def constHasher : Hasher Hash32 := ⟨fun _ _ => default, fun _ _ _ => default⟩

/-- one transaction with one expiring contract whose element is leaf 0 of a one-leaf forest -/
def exSet : Val :=
  let zero32 : Val := .bytes (List.replicate 32 0)
  let zero64 : Val := .bytes (List.replicate 64 0)
  let cur : Val := .pair (.nat 0) (.pair (.nat 0) .unit)
  let out : Val := .pair cur (.pair zero32 .unit)
  let se : Val := .pair (.nat 0) (.pair (.list []) .unit)
  let fc : Val := .pair (.nat 1) <| .pair (.nat 2) <| .pair zero32 <| .pair (.nat 3) <| .pair (.nat 4) <|
    .pair out <| .pair out <| .pair cur <| .pair cur <| .pair zero32 <| .pair zero32 <| .pair (.nat 5) <|
    .pair zero64 <| .pair zero64 .unit
  let res : Val := .pair (.pair se (.pair zero32 (.pair fc .unit))) (.pair (.pair (.nat 2) .unit) .unit)
  .list [.list [.none, .none, .none, .none, .none, .none, .some (.list [res]), .none, .none, .none, .none]]

example : Canon Irregular.env txnsSch exSet := by decide +kernel
example : (txnsParents.get exSet).length = 1 := by decide

end C18
