import SiaModel.Ledger.Model
/-! # C02 — no double spend (theorems under development by the ledger proof work; see DESIGN.md §6 C02) -/
namespace C02
open Sia.Ledger

/-- spending an element records its id in the block's spend log -/
theorem c02_spendSc_records (ms : Mid) (e : ScElem) : (ms.spendSc e).isSpent e.id = true := by
  simp [Mid.spendSc, Mid.isSpent]

theorem c02_spendSf_records (ms : Mid) (e : SfElem) : (ms.spendSf e).isSpent e.id = true := by
  simp [Mid.spendSf, Mid.isSpent]

theorem c02_resolveFc1_records (ms : Mid) (e : Fc1Elem) (v : Bool) : (ms.resolveFc1 e v).isSpent e.id = true := by
  simp [Mid.resolveFc1, Mid.isSpent]

end C02
