import SiaProofs.Lemmas.LedgerC08V1
import SiaProofs.Lemmas.LedgerC08V2
import SiaProofs.Lemmas.LedgerC02Block
import SiaProofs.Lemmas.LedgerC02Commit
import SiaProofs.Lemmas.LedgerC02Idx
import SiaProofs.Props.C08
/-!
# C02 — no double spend or double resolution (ledger model)

* in one transaction: `c02_v2_sc_dup_in_txn`, `c02_v2_sf_dup_in_txn`, `c02_v1_dup_in_txn`,
  `c02_v2_contract_dup_in_txn`;
* in different transactions of one block (any mix of versions): `c02_apply_records_spends`,
  `c02_spent_in_block_rejected`, and for whole blocks `c02_block_no_repeats`;
* in different blocks: `c02_commit_removes_spent…`, `c02_spent_in_earlier_block_rejected`;
* `c02_lookup_checks_kind`: a v1 parent id is only ever resolved to the element carrying that id.
-/
namespace C02
open Sia.Ledger C08

theorem isSpent_false_iff (ms : Mid) (id : Id) : ms.isSpent id = false ↔ id ∉ ms.spends := by
  simp [Mid.isSpent]

theorem isSpent_true_iff (ms : Mid) (id : Id) : ms.isSpent id = true ↔ id ∈ ms.spends := by
  simp [Mid.isSpent]

-- ================================================================= one transaction

/-- a v2 transaction listing the same siacoin parent id twice is rejected (without panic) -/
theorem c02_v2_sc_dup_in_txn (ms : Mid) (t : Txn2) (mw : Nat) (h : ¬ (t.scIns.map (·.parent.id)).Nodup) :
    Rejected (validateV2Siacoins ms t) ∧ Rejected (validateV2Transaction ms t mw) := by
  have : Rejected (validateV2Siacoins ms t) := validateV2Siacoins_rejected ms t (fun hh => h hh.2)
  exact ⟨this, v2Txn_rejected_of_sc this⟩

/-- a v2 transaction listing the same siafund parent id twice is rejected by `validateV2Siafunds`
and therefore never accepted -/
theorem c02_v2_sf_dup_in_txn (ms : Mid) (t : Txn2) (mw : Nat) (h : ¬ (t.sfIns.map (·.parent.id)).Nodup) :
    Rejected (validateV2Siafunds ms t) ∧ NotOk (validateV2Transaction ms t mw) := by
  have : Rejected (validateV2Siafunds ms t) := validateV2Siafunds_rejected ms t (fun hh => h hh.2)
  exact ⟨this, v2Txn_notOk_of_sf this.notOk⟩

/-- a v1 transaction that spends or revises a parent twice (among all siacoin inputs, siafund inputs
and revisions), or proves storage twice for one contract, or both revises and proves, is not accepted -/
theorem c02_v1_dup_in_txn (ms : Mid) (t : Txn1) (pid mw : Nat)
    (h : ¬ (t.scIns.map (·.parent) ++ t.sfIns.map (·.parent) ++ t.revs.map (·.parent)).Nodup ∨
         ¬ (t.proofs.map (·.parent)).Nodup ∨ (t.proofs ≠ [] ∧ t.revs ≠ [])) :
    NotOk (validateTransaction ms t pid mw) ∧
      (¬ (t.scIns.map (·.parent) ++ t.sfIns.map (·.parent) ++ t.revs.map (·.parent)).Nodup →
        Rejected (validateSignatures t)) := by
  refine ⟨?_, fun h => ?_⟩
  · rcases h with h | h | ⟨h1, h2⟩
    · apply v1Txn_notOk_of_sig
      intro _ hr; exact h ((validateSignatures_ok_iff t).1 hr).1
    · apply v1Txn_notOk_of_fc
      intro _ hr; exact h ((validateFileContracts_ok_iff ms t pid).1 hr).2.2.2.1
    · apply v1Txn_notOk_of_fc
      intro _ hr
      apply ((validateFileContracts_ok_iff ms t pid).1 hr).2.2.1
      refine ⟨List.length_pos_iff.2 h1, Or.inr (Or.inr (Or.inr (List.length_pos_iff.2 h2)))⟩
  · unfold validateSignatures
    simp only []
    rw [if_pos h]; simp

/-- a v2 transaction that revises one contract twice, resolves one twice, or revises and resolves
the same contract, is not accepted -/
theorem c02_v2_contract_dup_in_txn (ms : Mid) (t : Txn2) (mw : Nat)
    (h : ¬ (t.revs.map (·.parent.id)).Nodup ∨ ¬ (t.ress.map (·.parent.id)).Nodup ∨
         (∃ r ∈ t.revs, ∃ r' ∈ t.ress, r.parent.id = r'.parent.id)) :
    NotOk (validateV2FileContracts ms t) ∧ NotOk (validateV2Transaction ms t mw) := by
  have : NotOk (validateV2FileContracts ms t) := by
    intro _ hr
    obtain ⟨_, _, h1, h2, h3⟩ := (validateV2FileContracts_ok_iff ms t).1 hr
    rcases h with h | h | ⟨r, hr, r', hr', heq⟩
    · exact h h1
    · exact h h3
    · apply (h2 r' hr').notRevised
      rw [List.mem_reverse, ← heq]
      exact List.mem_map.2 ⟨r, hr, rfl⟩
  exact ⟨this, v2Txn_notOk_of_fc this⟩

example : validateV2Transaction (Ex.M 15)
    { Ex.txn2 with scIns := [{ parent := Ex.e0, addrOk := true, authOk := true }, { parent := Ex.e0, addrOk := true, authOk := true }], fee := 100 } 100 =
      .error (.reject "siacoin input double-spends parent output (previously spent by input)") := by decide

-- ================================================================= lookups

/-- `c02_lookup_checks_kind`: a v1 parent id resolves (through the block's diff or through the
supplement) only to an element that carries exactly that id. -/
theorem c02_lookup_checks_kind (ms : Mid) (ts : Supp1) (id : Id) :
    (∀ e, ms.scElement ts id = some e → e.id = id) ∧ (∀ e, ms.sfElement ts id = some e → e.id = id) ∧
    (∀ e, ms.fc1Element ts id = some e → e.id = id) :=
  ⟨fun _ h => scElement_id h, fun _ h => sfElement_id h, fun _ h => fc1Element_id h⟩

-- ================================================================= different transactions of one block

/-- Applying a transaction prepends to `spends` exactly the ids it consumes — spent siacoin and
siafund parents and resolved contracts — and keeps everything recorded before. -/
theorem c02_apply_records_spends :
    (∀ (ms ms' : Mid) (t : Txn1), applyTransaction ms t = .ok ms' →
      ms'.spends = (t.proofs.map (·.parent)).reverse ++ ((t.sfIns.map (·.parent)).reverse ++
        ((t.scIns.map (·.parent)).reverse ++ ms.spends))) ∧
    (∀ (ms ms' : Mid) (t : Txn2), applyV2Transaction ms t = .ok ms' →
      ms'.spends = (t.ress.map (·.parent.id)).reverse ++ ((t.sfIns.map (·.parent.id)).reverse ++
        ((t.scIns.map (·.parent.id)).reverse ++ ms.spends))) :=
  ⟨fun _ _ _ h => applyTransaction_spends h, fun _ _ _ h => applyV2Transaction_spends h⟩

/-- the ids a v1 / v2 transaction uses in a way that conflicts with an earlier consumption -/
def Txn1.uses (t : Txn1) : List Id :=
  t.scIns.map (·.parent) ++ t.sfIns.map (·.parent) ++ t.revs.map (·.parent) ++ t.proofs.map (·.parent)
def Txn2.uses (t : Txn2) : List Id :=
  t.scIns.map (·.parent.id) ++ t.sfIns.map (·.parent.id) ++ t.revs.map (·.parent.id) ++ t.ress.map (·.parent.id)

/-- If `id` was consumed earlier in the block (by a transaction of either version), no later v1
transaction using it as siacoin input, siafund input, revised or proven contract, and no later v2
transaction using it as siacoin input, siafund input, revised or resolved contract, is accepted. -/
theorem c02_spent_in_block_rejected (ms : Mid) (id : Id) (hs : ms.isSpent id = true) :
    (∀ (t : Txn1) (pid mw : Nat), id ∈ Txn1.uses t → NotOk (validateTransaction ms t pid mw)) ∧
    (∀ (t : Txn2) (mw : Nat), id ∈ Txn2.uses t → NotOk (validateV2Transaction ms t mw)) := by
  constructor
  · intro t pid mw hu _ hr
    obtain ⟨_, _, _, _, hsc, hsf, hfc, _, _⟩ := (validateTransaction_ok_iff ms t pid mw).1 hr
    simp only [Txn1.uses, List.mem_append, List.mem_map] at hu
    rcases hu with ((⟨x, hx, rfl⟩ | ⟨x, hx, rfl⟩) | ⟨x, hx, rfl⟩) | ⟨x, hx, rfl⟩
    · obtain ⟨p, _, hrules⟩ := validateSiacoins_ok_rules hsc x hx
      rw [hrules.notSpent] at hs; cases hs
    · obtain ⟨p, _, hrules⟩ := ((validateSiafunds_ok_iff ms t).1 hsf).1 x hx
      rw [hrules.notSpent] at hs; cases hs
    · obtain ⟨p, _, hrules⟩ := ((validateFileContracts_ok_iff ms t pid).1 hfc).2.1 x hx
      rw [hrules.notSpent] at hs; cases hs
    · have hrules := ((validateFileContracts_ok_iff ms t pid).1 hfc).2.2.2.2 x hx
      rw [hrules.notSpent] at hs; cases hs
  · intro t mw hu _ hr
    obtain ⟨_, _, _, _, hsc, hsf, hfc, _, _⟩ := (validateV2Transaction_ok_iff ms t mw).1 hr
    simp only [Txn2.uses, List.mem_append, List.mem_map] at hu
    rcases hu with ((⟨x, hx, rfl⟩ | ⟨x, hx, rfl⟩) | ⟨x, hx, rfl⟩) | ⟨x, hx, rfl⟩
    · have hrules := ((validateV2Siacoins_ok_iff ms t).1 hsc).1 x hx
      rw [hrules.notSpent] at hs; cases hs
    · have hrules := ((validateV2Siafunds_ok_iff ms t).1 hsf).1 x hx
      rw [hrules.notSpent] at hs; cases hs
    · have hrules := ((validateV2FileContracts_ok_iff ms t).1 hfc).2.1 x hx
      rw [hrules.notSpent] at hs; cases hs
    · have hrules := ((validateV2FileContracts_ok_iff ms t).1 hfc).2.2.2.1 x hx
      rw [hrules.notSpent] at hs; cases hs

-- ================================================================= whole blocks

/-- parent ids of all siacoin inputs / siafund inputs / contract resolutions of a block, in order -/
def Block.scSpent (b : Block) : List Id :=
  (b.txns1.map (fun t => t.scIns.map (·.parent))).flatten ++ (b.txns2.map (fun t => t.scIns.map (·.parent.id))).flatten
def Block.sfSpent (b : Block) : List Id :=
  (b.txns1.map (fun t => t.sfIns.map (·.parent))).flatten ++ (b.txns2.map (fun t => t.sfIns.map (·.parent.id))).flatten
def Block.fcResolved (b : Block) : List Id :=
  (b.txns1.map (fun t => t.proofs.map (·.parent))).flatten ++ (b.txns2.map (fun t => t.ress.map (·.parent.id))).flatten

theorem vb1Step_ok {pid mw : Nat} {s s' : Mid} {t : Txn1} (h : vb1Step pid mw s t = .ok s') :
    validateTransaction s t pid mw = .ok () ∧
      s'.spends = (t.proofs.map (·.parent)).reverse ++ ((t.sfIns.map (·.parent)).reverse ++
        ((t.scIns.map (·.parent)).reverse ++ s.spends)) := by
  obtain ⟨_, hv, ha⟩ := bind_ok_iff.1 h
  exact ⟨hv, applyTransaction_spends ha⟩

theorem vb2Step_ok {mw : Nat} {s s' : Mid} {t : Txn2} (h : vb2Step mw s t = .ok s') :
    validateV2Transaction s t mw = .ok () ∧
      s'.spends = (t.ress.map (·.parent.id)).reverse ++ ((t.sfIns.map (·.parent.id)).reverse ++
        ((t.scIns.map (·.parent.id)).reverse ++ s.spends)) := by
  obtain ⟨_, hv, ha⟩ := bind_ok_iff.1 h
  exact ⟨hv, applyV2Transaction_spends ha⟩

/-- what acceptance of a v1 transaction says about the ids it consumes -/
theorem v1_consumed_fresh {ms : Mid} {t : Txn1} {pid mw : Nat} (h : validateTransaction ms t pid mw = .ok ()) :
    ((t.scIns.map (·.parent)).Nodup ∧ ∀ k ∈ t.scIns.map (·.parent), k ∉ ms.spends) ∧
    ((t.sfIns.map (·.parent)).Nodup ∧ ∀ k ∈ t.sfIns.map (·.parent), k ∉ ms.spends) ∧
    ((t.proofs.map (·.parent)).Nodup ∧ ∀ k ∈ t.proofs.map (·.parent), k ∉ ms.spends) := by
  obtain ⟨_, _, _, _, hsc, hsf, hfc, _, hsig⟩ := (validateTransaction_ok_iff ms t pid mw).1 h
  have hnd := ((validateSignatures_ok_iff t).1 hsig).1
  have hnd1 := (List.nodup_append.1 hnd).1
  refine ⟨⟨(List.nodup_append.1 hnd1).1, ?_⟩, ⟨(List.nodup_append.1 hnd1).2.1, ?_⟩,
    ⟨((validateFileContracts_ok_iff ms t pid).1 hfc).2.2.2.1, ?_⟩⟩
  · intro k hk
    obtain ⟨x, hx, rfl⟩ := List.mem_map.1 hk
    obtain ⟨p, _, hr⟩ := validateSiacoins_ok_rules hsc x hx
    exact (isSpent_false_iff _ _).1 hr.notSpent
  · intro k hk
    obtain ⟨x, hx, rfl⟩ := List.mem_map.1 hk
    obtain ⟨p, _, hr⟩ := ((validateSiafunds_ok_iff ms t).1 hsf).1 x hx
    exact (isSpent_false_iff _ _).1 hr.notSpent
  · intro k hk
    obtain ⟨x, hx, rfl⟩ := List.mem_map.1 hk
    exact (isSpent_false_iff _ _).1 (((validateFileContracts_ok_iff ms t pid).1 hfc).2.2.2.2 x hx).notSpent

theorem v2_consumed_fresh {ms : Mid} {t : Txn2} {mw : Nat} (h : validateV2Transaction ms t mw = .ok ()) :
    ((t.scIns.map (·.parent.id)).Nodup ∧ ∀ k ∈ t.scIns.map (·.parent.id), k ∉ ms.spends) ∧
    ((t.sfIns.map (·.parent.id)).Nodup ∧ ∀ k ∈ t.sfIns.map (·.parent.id), k ∉ ms.spends) ∧
    ((t.ress.map (·.parent.id)).Nodup ∧ ∀ k ∈ t.ress.map (·.parent.id), k ∉ ms.spends) := by
  obtain ⟨_, _, _, _, hsc, hsf, hfc, _, _⟩ := (validateV2Transaction_ok_iff ms t mw).1 h
  obtain ⟨a1, a2, _⟩ := (validateV2Siacoins_ok_iff ms t).1 hsc
  obtain ⟨b1, b2, _⟩ := (validateV2Siafunds_ok_iff ms t).1 hsf
  obtain ⟨_, _, _, c1, c2⟩ := (validateV2FileContracts_ok_iff ms t).1 hfc
  refine ⟨⟨a2, ?_⟩, ⟨b2, ?_⟩, ⟨c2, ?_⟩⟩
  · intro k hk
    obtain ⟨x, hx, rfl⟩ := List.mem_map.1 hk
    exact (isSpent_false_iff _ _).1 (a1 x hx).notSpent
  · intro k hk
    obtain ⟨x, hx, rfl⟩ := List.mem_map.1 hk
    exact (isSpent_false_iff _ _).1 (b1 x hx).notSpent
  · intro k hk
    obtain ⟨x, hx, rfl⟩ := List.mem_map.1 hk
    exact (isSpent_false_iff _ _).1 (c1 x hx).notSpent

/-- In an accepted block no siacoin output, no siafund output is spent twice and no contract is
resolved twice — whatever the versions and positions of the transactions involved, outputs created
inside the block included — and every consumed id is recorded in the final mid-state. -/
theorem c02_block_no_repeats (L : Ledger) (b : Block) (pid : Id) (ms : Mid) (h : validateBlock L b pid = .ok ms) :
    (Block.scSpent b).Nodup ∧ (Block.sfSpent b).Nodup ∧ (Block.fcResolved b).Nodup ∧
      (∀ id ∈ Block.scSpent b ++ Block.sfSpent b ++ Block.fcResolved b, ms.isSpent id = true) := by
  rw [validateBlock_eq] at h
  obtain ⟨_, _, h⟩ := bind_ok_iff.1 h
  obtain ⟨_, _, h⟩ := bind_ok_iff.1 h
  split at h
  · exact absurd h (reject_ne_ok _ _)
  obtain ⟨s1, h1, h2⟩ := bind_ok_iff.1 h
  have mono1 : ∀ (s s' : Mid) (t : Txn1), vb1Step pid b.maxWeight s t = .ok s' → ∀ k ∈ s.spends, k ∈ s'.spends := by
    intro s s' t hs k hk; rw [(vb1Step_ok hs).2]; simp [hk]
  have mono2 : ∀ (s s' : Mid) (t : Txn2), vb2Step b.maxWeight s t = .ok s' → ∀ k ∈ s.spends, k ∈ s'.spends := by
    intro s s' t hs k hk; rw [(vb2Step_ok hs).2]; simp [hk]
  -- siacoins
  have sc1 := foldlM_keys_nodup (fun t : Txn1 => t.scIns.map (·.parent))
    (fun s t s' hs => ⟨(v1_consumed_fresh (vb1Step_ok hs).1).1.1, (v1_consumed_fresh (vb1Step_ok hs).1).1.2,
      mono1 s s' t hs, fun k hk => by rw [(vb1Step_ok hs).2]; simp only [List.mem_append, List.mem_reverse]; exact Or.inr (Or.inr (Or.inl hk))⟩)
    b.txns1 (newMid L) s1 [] ⟨List.nodup_nil, by simp⟩ h1
  have sc2 := foldlM_keys_nodup (fun t : Txn2 => t.scIns.map (·.parent.id))
    (fun s t s' hs => ⟨(v2_consumed_fresh (vb2Step_ok hs).1).1.1, (v2_consumed_fresh (vb2Step_ok hs).1).1.2,
      mono2 s s' t hs, fun k hk => by rw [(vb2Step_ok hs).2]; simp only [List.mem_append, List.mem_reverse]; exact Or.inr (Or.inr (Or.inl hk))⟩)
    b.txns2 s1 ms _ ⟨sc1.1, sc1.2.1⟩ h2
  -- siafunds
  have sf1 := foldlM_keys_nodup (fun t : Txn1 => t.sfIns.map (·.parent))
    (fun s t s' hs => ⟨(v1_consumed_fresh (vb1Step_ok hs).1).2.1.1, (v1_consumed_fresh (vb1Step_ok hs).1).2.1.2,
      mono1 s s' t hs, fun k hk => by rw [(vb1Step_ok hs).2]; simp only [List.mem_append, List.mem_reverse]; exact Or.inr (Or.inl hk)⟩)
    b.txns1 (newMid L) s1 [] ⟨List.nodup_nil, by simp⟩ h1
  have sf2 := foldlM_keys_nodup (fun t : Txn2 => t.sfIns.map (·.parent.id))
    (fun s t s' hs => ⟨(v2_consumed_fresh (vb2Step_ok hs).1).2.1.1, (v2_consumed_fresh (vb2Step_ok hs).1).2.1.2,
      mono2 s s' t hs, fun k hk => by rw [(vb2Step_ok hs).2]; simp only [List.mem_append, List.mem_reverse]; exact Or.inr (Or.inl hk)⟩)
    b.txns2 s1 ms _ ⟨sf1.1, sf1.2.1⟩ h2
  -- contract resolutions
  have fc1 := foldlM_keys_nodup (fun t : Txn1 => t.proofs.map (·.parent))
    (fun s t s' hs => ⟨(v1_consumed_fresh (vb1Step_ok hs).1).2.2.1, (v1_consumed_fresh (vb1Step_ok hs).1).2.2.2,
      mono1 s s' t hs, fun k hk => by rw [(vb1Step_ok hs).2]; simp only [List.mem_append, List.mem_reverse]; exact Or.inl hk⟩)
    b.txns1 (newMid L) s1 [] ⟨List.nodup_nil, by simp⟩ h1
  have fc2 := foldlM_keys_nodup (fun t : Txn2 => t.ress.map (·.parent.id))
    (fun s t s' hs => ⟨(v2_consumed_fresh (vb2Step_ok hs).1).2.2.1, (v2_consumed_fresh (vb2Step_ok hs).1).2.2.2,
      mono2 s s' t hs, fun k hk => by rw [(vb2Step_ok hs).2]; simp only [List.mem_append, List.mem_reverse]; exact Or.inl hk⟩)
    b.txns2 s1 ms _ ⟨fc1.1, fc1.2.1⟩ h2
  simp only [List.nil_append] at sc2 sf2 fc2
  refine ⟨sc2.1, sf2.1, fc2.1, ?_⟩
  intro id hid
  rw [isSpent_true_iff]
  rcases List.mem_append.1 hid with hid | hid
  · rcases List.mem_append.1 hid with hid | hid
    · exact sc2.2.1 id hid
    · exact sf2.2.1 id hid
  · exact fc2.2.1 id hid

-- ================================================================= different blocks

/-- the ids of the diffs of each kind are pairwise distinct -/
structure DiffIdsUnique (ms : Mid) : Prop where
  sc : (ms.sces.map (·.e.id)).Nodup
  sf : (ms.sfes.map (·.e.id)).Nodup
  fc1 : (ms.fces.map (·.e.id)).Nodup
  fc2 : (ms.v2fces.map (·.e.id)).Nodup

/-- it follows from the index invariant `MidJ`, which every reachable mid-state satisfies
(`Lemmas/LedgerC02Idx.lean`) -/
theorem diffIdsUnique_of_J {ms : Mid} (h : MidJ ms) : DiffIdsUnique ms :=
  ⟨h.sc.nodup, h.sf.nodup, h.fc1.nodup, h.fc2.nodup⟩

/-- After `commit`, the id of every diff marked spent / resolved is no longer live — for any
mid-state whose diffs have pairwise distinct ids. -/
theorem commit_removes_spent_of_unique (ms : Mid) (bid : Id) (hu : DiffIdsUnique ms) :
    (∀ d ∈ ms.sces, d.spent = true → ∀ e ∈ (ms.commit bid).sc, e.id ≠ d.e.id) ∧
    (∀ d ∈ ms.sfes, d.spent = true → ∀ e ∈ (ms.commit bid).sf, e.id ≠ d.e.id) ∧
    (∀ d ∈ ms.fces, d.resolved = true → ∀ e ∈ (ms.commit bid).fc1, e.id ≠ d.e.id) ∧
    (∀ d ∈ ms.v2fces, d.resolution.isSome = true → ∀ e ∈ (ms.commit bid).fc2, e.id ≠ d.e.id) := by
  refine ⟨?_, ?_, ?_, ?_⟩
  · intro d hd hs e he heq
    rcases (commit_sc_mem ms bid e).1 he with ⟨_, h⟩ | ⟨d', hd', hs', rfl⟩
    · exact h d hd heq.symm
    · have := eq_of_nodup_map (fun d : ScDiff => d.e.id) hu.sc hd' hd heq
      subst this; rw [hs] at hs'; cases hs'
  · intro d hd hs e he heq
    rcases (commit_sf_mem ms bid e).1 he with ⟨_, h⟩ | ⟨d', hd', hs', rfl⟩
    · exact h d hd heq.symm
    · have := eq_of_nodup_map (fun d : SfDiff => d.e.id) hu.sf hd' hd heq
      subst this; rw [hs] at hs'; cases hs'
  · intro d hd hs e he heq
    rcases (commit_fc1_mem ms bid e).1 he with ⟨_, h⟩ | ⟨d', hd', hs', rfl⟩
    · exact h d hd heq.symm
    · rw [Fc1Diff.current_id] at heq
      have := eq_of_nodup_map (fun d : Fc1Diff => d.e.id) hu.fc1 hd' hd heq
      subst this; rw [hs] at hs'; cases hs'
  · intro d hd hs e he heq
    rcases (commit_fc2_mem ms bid e).1 he with ⟨_, h⟩ | ⟨d', hd', hs', rfl⟩
    · exact h d hd heq.symm
    · have hid : d'.e.id = d.e.id := by
        cases hr : d'.revision <;> simp only [hr] at heq <;> exact heq
      have := eq_of_nodup_map (fun d : Fc2Diff => d.e.id) hu.fc2 hd' hd hid
      subst this; rw [hs'] at hs; cases hs

/-- `c02_commit_removes_spent`: for the mid-state produced by applying a block (`midApplyBlock`,
i.e. what `applyBlock` commits), the id of every diff marked spent / resolved is not live in the
committed ledger: no siacoin element, siafund element, v1 or v2 contract carries it. -/
theorem c02_commit_removes_spent (L : Ledger) (b : Block) (ms : Mid) (bid : Id)
    (h : midApplyBlock (newMid L) b = .ok ms) :
    (∀ d ∈ ms.sces, d.spent = true → ∀ e ∈ (ms.commit bid).sc, e.id ≠ d.e.id) ∧
    (∀ d ∈ ms.sfes, d.spent = true → ∀ e ∈ (ms.commit bid).sf, e.id ≠ d.e.id) ∧
    (∀ d ∈ ms.fces, d.resolved = true → ∀ e ∈ (ms.commit bid).fc1, e.id ≠ d.e.id) ∧
    (∀ d ∈ ms.v2fces, d.resolution.isSome = true → ∀ e ∈ (ms.commit bid).fc2, e.id ≠ d.e.id) :=
  commit_removes_spent_of_unique ms bid (diffIdsUnique_of_J (midApplyBlock_J h))

/-- the committed ledger never holds two live elements of one kind created or kept by the block's
diffs under the same id: ids of the block's diffs are pairwise distinct -/
theorem c02_block_diff_ids_unique (L : Ledger) (b : Block) (pid : Id) (ms : Mid) (h : validateBlock L b pid = .ok ms) :
    DiffIdsUnique ms := diffIdsUnique_of_J (validateBlock_J h)

/-- If no live element of ledger `L` carries `id` (e.g. it was consumed by an earlier block), then
* a v2 transaction presenting a non-ephemeral siacoin / siafund element record with that id, or
  revising / resolving a v2 contract record with that id — whatever proof it carries, the record
  fails the membership check — is not accepted (siacoins: rejected without panic);
* a block whose v1 supplement contains a record with that id (siacoin input, siafund input,
  revised contract, proven contract, expiring contract) is rejected by `validateSupplement`. -/
theorem c02_spent_in_earlier_block_rejected (L : Ledger) (id : Id) :
    ((∀ e ∈ L.sc, e.id ≠ id) →
      (∀ (ms : Mid) (t : Txn2) (mw : Nat) (sci : ScIn2), ms.base = L → sci ∈ t.scIns → sci.parent.id = id →
        sci.parent.leaf ≠ none → Rejected (validateV2Transaction ms t mw)) ∧
      (∀ (b : Block) (t : Txn1) (e : ScElem), t ∈ b.txns1 → e ∈ t.supp.scIns → e.id = id →
        Rejected (validateSupplement L b))) ∧
    ((∀ e ∈ L.sf, e.id ≠ id) →
      (∀ (ms : Mid) (t : Txn2) (mw : Nat) (sfi : SfIn2), ms.base = L → sfi ∈ t.sfIns → sfi.parent.id = id →
        sfi.parent.leaf ≠ none → NotOk (validateV2Transaction ms t mw)) ∧
      (∀ (b : Block) (t : Txn1) (e : SfElem), t ∈ b.txns1 → e ∈ t.supp.sfIns → e.id = id →
        Rejected (validateSupplement L b))) ∧
    ((∀ e ∈ L.fc1, e.id ≠ id) →
      (∀ (b : Block) (t : Txn1) (e : Fc1Elem), t ∈ b.txns1 → e.id = id →
        (e ∈ t.supp.revised ∨ e ∈ t.supp.proofs.map (·.1)) → Rejected (validateSupplement L b)) ∧
      (∀ (b : Block) (e : Fc1Elem), e ∈ b.expiring.map (·.1) → e.id = id → Rejected (validateSupplement L b))) ∧
    ((∀ e ∈ L.fc2, e.id ≠ id) →
      (∀ (ms : Mid) (t : Txn2) (mw : Nat), ms.base = L →
        ((∃ r ∈ t.revs, r.parent.id = id) ∨ (∃ r ∈ t.ress, r.parent.id = id)) →
        NotOk (validateV2Transaction ms t mw))) := by
  have supp : ∀ b, ¬ SuppRules L b → Rejected (validateSupplement L b) := fun b hn =>
    rejected_of_notOk_noPanic (fun _ h => hn ((validateSupplement_ok_iff L b).1 h)) (validateSupplement_noPanic L b)
  refine ⟨fun hl => ⟨?_, ?_⟩, fun hl => ⟨?_, ?_⟩, fun hl => ⟨?_, ?_⟩, fun hl => ?_⟩
  · intro ms t mw sci hb hm hid hleaf
    apply v2Txn_rejected_of_sc
    apply validateV2Siacoins_rejected
    rintro ⟨h1, _⟩
    have hp := (h1 sci hm).present
    unfold ScIn2Present at hp
    split at hp
    · rename_i hl'; exact hleaf hl'
    · rw [hb] at hp
      exact hl _ (by simpa [Ledger.hasSc] using hp) hid
  · intro b t e ht he hid
    exact supp b (fun hr => hl e (hr.sc t ht e he) hid)
  · intro ms t mw sfi hb hm hid hleaf
    apply v2Txn_notOk_of_sf
    intro _ hr
    have hp := (((validateV2Siafunds_ok_iff ms t).1 hr).1 sfi hm).present
    unfold SfIn2Present at hp
    split at hp
    · rename_i hl'; exact hleaf hl'
    · rw [hb] at hp
      exact hl _ (by simpa [Ledger.hasSf] using hp) hid
  · intro b t e ht he hid
    exact supp b (fun hr => hl e (hr.sf t ht e he) hid)
  · intro b t e ht hid he
    refine supp b (fun hr => ?_)
    rcases he with he | he
    · exact hl e (hr.revised t ht e he) hid
    · obtain ⟨p, hp, rfl⟩ := List.mem_map.1 he
      exact hl _ (hr.proofs t ht p hp) hid
  · intro b e he hid
    refine supp b (fun hr => ?_)
    obtain ⟨p, hp, rfl⟩ := List.mem_map.1 he
    exact hl _ (hr.expiring p hp) hid
  · intro ms t mw hb hex
    apply v2Txn_notOk_of_fc
    intro _ hr
    obtain ⟨_, h1, _, h2, _⟩ := (validateV2FileContracts_ok_iff ms t).1 hr
    rcases hex with ⟨r, hm, hid⟩ | ⟨r, hm, hid⟩
    · have hp := (h1 r hm).present
      rw [hb] at hp
      exact hl _ (by simpa [Ledger.hasFc2] using hp) hid
    · have hp := (h2 r hm).present
      rw [hb] at hp
      exact hl _ (by simpa [Ledger.hasFc2] using hp) hid

/-- An *ephemeral* v2 siacoin input (no leaf index) is only accepted if an output with its id was
created earlier in the same block — so it cannot refer to an output of an earlier block at all. -/
theorem c02_ephemeral_needs_in_block_creation (ms : Mid) (sci : ScIn2) (h : validateEphemeralSc ms sci = .ok ()) :
    ∃ j, ms.lookup sci.parent.id = some j ∧ j < ms.sces.length ∧ (ms.sces.getD j default).created = true := by
  unfold validateEphemeralSc at h
  split at h
  · exact absurd h (reject_ne_ok _ _)
  · rename_i j hj
    split at h
    · exact absurd h (reject_ne_ok _ _)
    · rename_i hc
      refine ⟨j, hj, ?_, ?_⟩
      · exact Nat.lt_of_not_ge (fun hge => hc (Or.inl hge))
      · exact Classical.not_not.1 (fun hn => hc (Or.inr hn))

-- the output e0 is spent in a block; in the next ledger the same record is refused, for v1 and v2 alike
example : (do let (L', _) ← applyBlock (Ex.L 15) { (default : Block) with v2 := some (15, true, [tSpend2 Ex.e0]) }
              validateV2Transaction (newMid L') (tSpend2 Ex.e0) 100) =
    .error (.reject "siacoin input spends output not present in the accumulator") := by decide
example : (do let (L', _) ← applyBlock (Ex.L 15) { (default : Block) with v2 := some (15, true, [tSpend2 Ex.e0]) }
              validateSupplement L' { (default : Block) with txns1 := [tSpend1 Ex.e0 0] }) =
    .error (.reject "siacoin element is not present in the accumulator") := by decide

end C02
