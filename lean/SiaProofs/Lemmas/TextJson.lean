import SiaModel.Text.JsonUpdate
import SiaProofs.Lemmas.TextPolicy
/-! Helper lemmas for the JSON tree model (C20). -/
namespace Sia.Text
open Json

theorem getF_cons_ne {k k' : Txt} {v : Json} {r : List (Txt × Json)} (h : k' ≠ k) :
    getF k ((k', v) :: r) = getF k r := by
  simp only [getF, h, if_false]
  cases getF k r <;> rfl

theorem getF_cons_self {k : Txt} {v : Json} {r : List (Txt × Json)} (h : getF k r = none) :
    getF k ((k, v) :: r) = some v := by
  simp [getF, h]

theorem getF_append_right {k : Txt} {a b : List (Txt × Json)} {v : Json} (h : getF k b = some v) :
    getF k (a ++ b) = some v := by
  induction a with
  | nil => simpa using h
  | cons x xs ih =>
    obtain ⟨k', v'⟩ := x
    simp [getF, ih]

theorem getF_append_left {k : Txt} {a b : List (Txt × Json)} (h : getF k b = none) :
    getF k (a ++ b) = getF k a := by
  induction a with
  | nil => simpa [getF] using h
  | cons x xs ih =>
    obtain ⟨k', v'⟩ := x
    simp [getF, ih]

theorem decList_map {α : Type} (enc : α → Json) (dec : Json → Option α) (l : List α)
    (h : ∀ a ∈ l, dec (enc a) = some a) : decList dec (l.map enc) = some l := by
  induction l with
  | nil => rfl
  | cons a as ih =>
    simp [decList, h a (by simp), ih (fun x hx => h x (by simp [hx]))]

theorem decList_map_gen {α β : Type} (enc : α → Json) (dec : Json → Option β) (φ : α → β) (l : List α)
    (h : ∀ a ∈ l, dec (enc a) = some (φ a)) : decList dec (l.map enc) = some (l.map φ) := by
  induction l with
  | nil => rfl
  | cons a as ih =>
    simp [decList, h a (by simp), ih (fun x hx => h x (by simp [hx]))]

theorem toSlice_ofSlice {α : Type} (enc : α → Json) (dec : Json → Option α) (s : Option (List α))
    (h : ∀ l, s = some l → ∀ a ∈ l, dec (enc a) = some a) : toSlice dec (ofSlice enc s) = some s := by
  cases s with
  | none => rfl
  | some l => simp [ofSlice, toSlice, decList_map enc dec l (h l rfl)]

theorem toNatBits_ofNat (bits n : Nat) (h : n < 2 ^ bits) : toNatBits bits (ofNat n) = some n := by
  simp only [toNatBits, ofNat]
  have : (0 : Int) ≤ (n : Int) ∧ (n : Int) < 2 ^ bits := ⟨by omega, by exact_mod_cast h⟩
  simp [this]

theorem toHex_ofHex (n : Nat) (b : List UInt8) (h : b.length = n) : toHex n (ofHex b) = some b := by
  simp [toHex, ofHex, unmarshalHex, hexEnc_length, hexDec_hexEnc, h]

theorem toCurrency_ofCurrency (c : Nat) (h : c < 2 ^ 128) : toCurrency (ofCurrency c) = some c := by
  simp [toCurrency, ofCurrency, parseUint_natToDec 128 c h]

theorem intToDec_ofNat (n : Nat) : intToDec (n : Int) = natToDec n := by
  simp [intToDec]

theorem parseInt64_natToDec (n : Nat) (h : n < 2 ^ 63) : parseInt64 (natToDec n) = some (n : Int) := by
  rw [← intToDec_ofNat]
  exact parseInt64_intToDec n (by omega) (by exact_mod_cast h)

theorem fieldOr_hit {α : Type} (fs : List (Txt × Json)) (k : Txt) (d : α) (dec : Json → Option α) (v : Json)
    (h : getF k fs = some v) (hv : v ≠ .null) : fieldOr fs k d dec = dec v := by
  unfold fieldOr
  rw [h]
  cases v <;> simp at hv ⊢

theorem fieldOr_miss {α : Type} (fs : List (Txt × Json)) (k : Txt) (d : α) (dec : Json → Option α)
    (h : getF k fs = none) : fieldOr fs k d dec = some d := by
  unfold fieldOr
  rw [h]

/-- a field that holds null reads as the zero value -/
theorem fieldOr_null {α : Type} (fs : List (Txt × Json)) (k : Txt) (d : α) (dec : Json → Option α)
    (h : getF k fs = some .null) : fieldOr fs k d dec = some d := by
  unfold fieldOr
  rw [h]

end Sia.Text
