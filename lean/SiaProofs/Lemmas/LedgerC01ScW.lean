import SiaProofs.Lemmas.LedgerC01Solv
/-!
# C01/C10 helper lemmas: weighted sums over live siacoin elements

`scW w ms` sums a weight `w` over the siacoin elements the mid-state commits to; `scTot` is `w = value`.
Used with the weights "value if mature" / "value if immature" to show that the tax a block collects is funded
by mature outputs only.
-/
namespace Sia.Ledger

def scDvW (w : ScElem → Nat) (d : ScDiff) : Nat := if d.spent then 0 else w d.e

def scW (w : ScElem → Nat) (ms : Mid) : Nat :=
  ((untouched ms.base.sc (·.id) ms.scIds).map w).sum + (ms.sces.map (scDvW w)).sum

theorem scTot_eq_scW (ms : Mid) : scTot ms = scW (·.value) ms := by
  unfold scTot scW
  congr 2

theorem scW_congr {ms ms' : Mid} (w : ScElem → Nat) (hb : ms'.base = ms.base) (hs : ms'.sces = ms.sces) :
    scW w ms' = scW w ms := by
  unfold scW Mid.scIds; rw [hb, hs]

theorem putSc_w_found {T} {ms : Mid} (w : ScElem → Nat) (hS : Struct T ms) (hd : TDisj T) {id : Id} (hT : T .sc id)
    (f : ScDiff → ScDiff) (hf : (scNew ms id f).e.id = id) {d : ScDiff} (hv : ms.scDiff? id = some d) :
    scW w (ms.putSc id f) + scDvW w d = scW w ms + scDvW w (scNew ms id f) := by
  rcases putSc_cases hS hd hT f with ⟨i, d', hl, hi, hid, hv', he⟩ | ⟨hl, hv', he⟩
  · rw [hv] at hv'; cases hv'
    unfold scNew at hf ⊢; rw [hv] at hf ⊢; simp only [Option.getD_some] at hf ⊢
    rw [he]; unfold scW Mid.scIds; simp only []
    rw [map_set_same _ _ _ _ _ hi (by rw [hf, hid])]
    have := sum_map_set ms.sces (scDvW w) i (f d) d hi
    omega
  · rw [hv] at hv'; cases hv'

theorem putSc_w_fresh {T} {ms : Mid} (w : ScElem → Nat) (hS : Struct T ms) (hd : TDisj T) {id : Id} (hT : T .sc id)
    (f : ScDiff → ScDiff) (hf : (scNew ms id f).e.id = id) (hv : ms.scDiff? id = none) (hb : id ∉ ms.base.sc.map (·.id)) :
    scW w (ms.putSc id f) = scW w ms + scDvW w (scNew ms id f) := by
  rcases putSc_cases hS hd hT f with ⟨i, d', hl, hi, hid, hv', he⟩ | ⟨hl, hv', he⟩
  · rw [hv] at hv'; cases hv'
  · unfold scNew at hf ⊢; rw [hv] at hf ⊢; simp only [Option.getD_none] at hf ⊢
    rw [he]; unfold scW Mid.scIds; simp only [List.map_append, List.map_cons, List.map_nil, List.sum_append, List.sum_cons, List.sum_nil]
    rw [hf, untouched_append_notin _ _ _ _ hb]
    omega

theorem putSc_w_base {T} {ms : Mid} (w : ScElem → Nat) (hS : Struct T ms) (hd : TDisj T) {id : Id} (hT : T .sc id)
    (f : ScDiff → ScDiff) (hf : (scNew ms id f).e.id = id) (hv : ms.scDiff? id = none) {e : ScElem}
    (he : e ∈ ms.base.sc) (heid : e.id = id) (hn : (ms.base.sc.map (·.id)).Nodup) :
    scW w (ms.putSc id f) + w e = scW w ms + scDvW w (scNew ms id f) := by
  rcases putSc_cases hS hd hT f with ⟨i, d', hl, hi, hid, hv', he'⟩ | ⟨hl, hv', he'⟩
  · rw [hv] at hv'; cases hv'
  · unfold scNew at hf ⊢; rw [hv] at hf ⊢; simp only [Option.getD_none] at hf ⊢
    rw [he']; unfold scW Mid.scIds; simp only [List.map_append, List.map_cons, List.map_nil, List.sum_append, List.sum_cons, List.sum_nil]
    have hni : e.id ∉ ms.sces.map (·.e.id) := by
      have := hS.not_mem_of_lookup_none (k := .sc) hl
      rw [heid]; exact this
    have := untouched_append_in ms.base.sc (·.id) w (ms.sces.map (·.e.id)) e hn he hni
    rw [hf, ← heid]
    omega

/-- spending a live siacoin element removes exactly its weight, for weights that only look at value and maturity -/
theorem spendSc_w {T} {ms : Mid} (w : ScElem → Nat) (hw : ∀ a b : ScElem, a.value = b.value → a.maturity = b.maturity → w a = w b)
    (hc : Ctx T ms.base) (hI : Inv T ms) {e : ScElem} (hs : SpendableSc T ms e) :
    scW w (ms.spendSc e) + w e = scW w ms := by
  obtain ⟨hT, hm⟩ := hs
  unfold Mid.spendSc
  generalize hf : (fun d : ScDiff => ({ d with e := e, spent := true } : ScDiff)) = f
  have hnew : scNew ms e.id f = { ((ms.scDiff? e.id).getD default) with e := e, spent := true } := by
    unfold scNew; rw [← hf]
  have hfid : (scNew ms e.id f).e.id = e.id := by rw [hnew]
  have e1 : scW w { ms.putSc e.id f with spends := e.id :: (ms.putSc e.id f).spends } = scW w (ms.putSc e.id f) :=
    scW_congr w rfl rfl
  rw [e1]
  have hdv : scDvW w (scNew ms e.id f) = 0 := by rw [hnew]; rfl
  cases hv : ms.scDiff? e.id with
  | none =>
    rw [hv] at hm
    have := putSc_w_base w hI.struct hc.disj hT f hfid hv hm rfl (hc.nodup Kind.sc)
    omega
  | some d =>
    rw [hv] at hm
    have := putSc_w_found w hI.struct hc.disj hT f hfid hv
    have hd : scDvW w d = w e := by unfold scDvW; rw [hm.1]; exact hw _ _ hm.2.1 hm.2.2
    omega

/-- a new siacoin element adds its weight -/
theorem createSc_w {T} {ms : Mid} (w : ScElem → Nat) (hc : Ctx T ms.base) (hI : Inv T ms) {id : Id}
    {R : List (Kind × Id)} (hF : Fresh T ms ((Kind.sc, id) :: R)) (o : ScOut) (mat : Nat) :
    scW w (ms.createSc id o mat) = scW w ms + w ⟨id, o.value, o.addr, mat, none⟩ := by
  obtain ⟨hT, hl, hb⟩ := hF.2 (Kind.sc, id) (List.mem_cons_self)
  simp only [] at hT hl hb
  have hv : ms.scDiff? id = none := scDiff?_none_of_lookup hl
  unfold Mid.createSc
  generalize hf : (fun d : ScDiff => ({ d with e := { id := id, value := o.value, addr := o.addr, maturity := mat, leaf := none }, created := true } : ScDiff)) = f
  have hnew : scNew ms id f = ⟨⟨id, o.value, o.addr, mat, none⟩, true, false⟩ := by
    unfold scNew; rw [hv, ← hf]; rfl
  have hfid : (scNew ms id f).e.id = id := by rw [hnew]
  rw [putSc_w_fresh w hI.struct hc.disj hT f hfid hv (hb Kind.sc), hnew]
  rfl

/-- value weight of mature elements (spendable in the block being built on a ledger whose child height is `child`) -/
def wMat (child : Nat) : ScElem → Nat := fun e => if e.maturity ≤ child then e.value else 0
/-- value weight of immature elements -/
def wImm (child : Nat) : ScElem → Nat := fun e => if e.maturity ≤ child then 0 else e.value

theorem wMat_congr (child : Nat) : ∀ a b : ScElem, a.value = b.value → a.maturity = b.maturity → wMat child a = wMat child b := by
  intro a b h1 h2; unfold wMat; rw [h1, h2]
theorem wImm_congr (child : Nat) : ∀ a b : ScElem, a.value = b.value → a.maturity = b.maturity → wImm child a = wImm child b := by
  intro a b h1 h2; unfold wImm; rw [h1, h2]

theorem wMat_add_wImm (child : Nat) (a : ScElem) : wMat child a + wImm child a = a.value := by
  unfold wMat wImm; by_cases h : a.maturity ≤ child <;> simp [h]

theorem sum_map_add {α : Type} (l : List α) (f g h : α → Nat) (hp : ∀ x, f x = g x + h x) :
    (l.map f).sum = (l.map g).sum + (l.map h).sum := by
  induction l with
  | nil => rfl
  | cons a l ih => simp only [List.map_cons, List.sum_cons, ih, hp a]; omega

theorem scW_split (child : Nat) (ms : Mid) : scTot ms = scW (wMat child) ms + scW (wImm child) ms := by
  rw [scTot_eq_scW]
  unfold scW
  rw [sum_map_add _ (·.value) (wMat child) (wImm child) (fun x => (wMat_add_wImm child x).symm),
    sum_map_add _ (scDvW (·.value)) (scDvW (wMat child)) (scDvW (wImm child)) (fun d => by
      unfold scDvW; split
      · rfl
      · exact (wMat_add_wImm child d.e).symm)]
  omega

-- ------------------------------------------------------------------ steps that do not touch siacoin elements

theorem scW_spendSf (ms : Mid) (e : SfElem) (w : ScElem → Nat) : scW w (ms.spendSf e) = scW w ms := by
  unfold Mid.spendSf; exact scW_congr w (putSf_base_c1 _ _ _) (putSf_sces _ _ _)
theorem scW_createSf (ms : Mid) (id : Id) (v : Nat) (a : Addr) (w : ScElem → Nat) : scW w (ms.createSf id v a) = scW w ms := by
  unfold Mid.createSf; exact scW_congr w (putSf_base_c1 _ _ _) (putSf_sces _ _ _)
theorem scW_reviseFc1 (ms : Mid) (e : Fc1Elem) (rev : Fc1) (w : ScElem → Nat) : scW w (ms.reviseFc1 e rev) = scW w ms := by
  unfold Mid.reviseFc1; exact scW_congr w (putFc1_base_c1 _ _ _) (putFc1_sces_c1 _ _ _)
theorem scW_reviseFc2 (ms : Mid) (e : Fc2Elem) (rev : Fc2) (w : ScElem → Nat) : scW w (ms.reviseFc2 e rev) = scW w ms := by
  unfold Mid.reviseFc2; exact scW_congr w (putFc2_base_c1 _ _ _) (putFc2_sces_c1 _ _ _)
theorem scW_resolveFc1 (ms : Mid) (e : Fc1Elem) (v : Bool) (w : ScElem → Nat) : scW w (ms.resolveFc1 e v) = scW w ms := by
  unfold Mid.resolveFc1; exact scW_congr w (putFc1_base_c1 _ _ _) (putFc1_sces_c1 _ _ _)
theorem scW_createFc1 {ms ms' : Mid} {id : Id} {fc : Fc1} (h : ms.createFc1 id fc = .ok ms') (w : ScElem → Nat) :
    scW w ms' = scW w ms := by
  unfold Mid.createFc1 at h; simp only [] at h
  rw [bind_eq_ok] at h; obtain ⟨p, _, h⟩ := h
  cases h; exact scW_congr w (putFc1_base_c1 _ _ _) (putFc1_sces_c1 _ _ _)
theorem scW_createFc2 {ms ms' : Mid} {id : Id} {fc : Fc2} (h : ms.createFc2 id fc = .ok ms') (w : ScElem → Nat) :
    scW w ms' = scW w ms := by
  unfold Mid.createFc2 at h; simp only [] at h
  rw [bind_eq_ok] at h; obtain ⟨t, _, h⟩ := h
  rw [bind_eq_ok] at h; obtain ⟨p, _, h⟩ := h
  cases h; exact scW_congr w (putFc2_base_c1 _ _ _) (putFc2_sces_c1 _ _ _)
theorem scW_resolveFc2 {ms ms' : Mid} {e : Fc2Elem} {k : ResKind} (h : ms.resolveFc2 e k = .ok ms') (w : ScElem → Nat) :
    scW w ms' = scW w ms := by
  unfold Mid.resolveFc2 at h
  split at h
  · split at h
    · cases h
    · cases h; exact scW_congr w (putFc2_base_c1 _ _ _) (putFc2_sces_c1 _ _ _)
  · cases h; exact scW_congr w (putFc2_base_c1 _ _ _) (putFc2_sces_c1 _ _ _)

theorem foldlM_scW_same {α : Type} (f : Mid → α → VM Mid) (hstep : ∀ b a b', f b a = .ok b' → ∀ w, scW w b' = scW w b) :
    ∀ (l : List α) (b b' : Mid), l.foldlM f b = .ok b' → ∀ w, scW w b' = scW w b := by
  intro l
  induction l with
  | nil => intro b b' h w; simp only [List.foldlM_nil] at h; cases h; rfl
  | cons a l ih =>
    intro b b' h w
    rw [List.foldlM_cons, bind_eq_ok] at h
    obtain ⟨b1, h1, h2⟩ := h
    rw [ih _ _ h2 w, hstep _ _ _ h1 w]

end Sia.Ledger
