/-
  SiaProofs.Lemmas.TxTraverse — the traversal laws of `forEachElementLeaf` on value trees.
-/
import SiaModel.Merkle.TxTraverse
import SiaProofs.Lemmas.MultiproofBytes
set_option linter.unusedSectionVars false
namespace Sia.Multiproof
open Sia.Codec

namespace Trav

/-- a lawful traversal: put-get, get-put and put-put, with the unused supply threaded -/
structure OK (t : Trav) : Prop where
  put_get : ∀ v r, t.put v (t.get v ++ r) = (v, r)
  get_put : ∀ v l r, l.length = (t.get v).length → t.get (t.put v (l ++ r)).1 = l ∧ (t.put v (l ++ r)).2 = r
  put_put : ∀ v l r m r', l.length = (t.get v).length → m.length = (t.get v).length →
    t.put (t.put v (l ++ r)).1 (m ++ r') = t.put v (m ++ r')

theorem here_ok : OK here := by
  refine ⟨fun v r => rfl, ?_, ?_⟩
  · intro v l r hl
    match l, hl with
    | [x], _ => exact ⟨rfl, rfl⟩
  · intro v l r m r' hl hm
    match l, hl, m, hm with
    | [x], _, [y], _ => rfl

theorem none_ok : OK none := by
  refine ⟨fun v r => rfl, ?_, ?_⟩
  · intro v l r hl
    have : l = [] := List.eq_nil_of_length_eq_zero hl
    subst this; exact ⟨rfl, rfl⟩
  · intro v l r m r' _ _; rfl

theorem split_len {α : Type} (l : List α) (n1 n2 : Nat) (h : l.length = n1 + n2) :
    ∃ l1 l2, l = l1 ++ l2 ∧ l1.length = n1 ∧ l2.length = n2 :=
  ⟨l.take n1, l.drop n1, (List.take_append_drop n1 l).symm, by simp; omega, by simp; omega⟩

theorem pair_ok {t1 t2 : Trav} (h1 : OK t1) (h2 : OK t2) : OK (pair t1 t2) := by
  refine ⟨?_, ?_, ?_⟩
  · intro v r
    cases v <;> try rfl
    rename_i a b
    simp only [pair, List.append_assoc, h1.put_get, h2.put_get]
  · intro v l r hl
    cases v with
    | pair a b =>
      simp only [pair, List.length_append] at hl ⊢
      obtain ⟨l1, l2, rfl, e1, e2⟩ := split_len l _ _ hl
      have g1 := h1.get_put a l1 (l2 ++ r) e1
      rw [List.append_assoc, g1.2]
      have g2 := h2.get_put b l2 r e2
      rw [g1.1, g2.1, g2.2]
      exact ⟨rfl, rfl⟩
    | _ =>
      simp only [pair] at hl ⊢
      have : l = [] := List.eq_nil_of_length_eq_zero hl
      subst this; exact ⟨rfl, rfl⟩
  · intro v l r m r' hl hm
    cases v with
    | pair a b =>
      simp only [pair, List.length_append] at hl hm ⊢
      obtain ⟨l1, l2, rfl, e1, e2⟩ := split_len l _ _ hl
      obtain ⟨m1, m2, rfl, f1, f2⟩ := split_len m _ _ hm
      have g1 := h1.get_put a l1 (l2 ++ r) e1
      have k1 := h1.get_put a m1 (m2 ++ r') f1
      rw [List.append_assoc, g1.2, List.append_assoc, h1.put_put a l1 (l2 ++ r) m1 (m2 ++ r') e1 f1, k1.2,
        h2.put_put b l2 r m2 r' e2 f2]
    | _ => rfl

theorem putList_get {t : Trav} (h : OK t) : ∀ (vs : List Val) (r : List Val),
    putList t vs (vs.flatMap t.get ++ r) = (vs, r) := by
  intro vs
  induction vs with
  | nil => intro r; rfl
  | cons v vs ih =>
    intro r
    simp only [putList, List.flatMap_cons, List.append_assoc, h.put_get, ih]

theorem get_putList {t : Trav} (h : OK t) : ∀ (vs : List Val) (l r : List Val),
    l.length = (vs.flatMap t.get).length →
    (putList t vs (l ++ r)).1.flatMap t.get = l ∧ (putList t vs (l ++ r)).2 = r ∧
    ∀ m r', m.length = (vs.flatMap t.get).length →
      putList t (putList t vs (l ++ r)).1 (m ++ r') = putList t vs (m ++ r') := by
  intro vs
  induction vs with
  | nil =>
    intro l r hl
    have : l = [] := List.eq_nil_of_length_eq_zero hl
    subst this; exact ⟨rfl, rfl, fun _ _ _ => rfl⟩
  | cons v vs ih =>
    intro l r hl
    simp only [List.flatMap_cons, List.length_append] at hl
    obtain ⟨l1, l2, rfl, e1, e2⟩ := split_len l _ _ hl
    have g1 := h.get_put v l1 (l2 ++ r) e1
    obtain ⟨i1, i2, i3⟩ := ih l2 r e2
    simp only [putList, List.append_assoc, g1.2, List.flatMap_cons, g1.1, i1, i2]
    refine ⟨trivial, trivial, ?_⟩
    intro m r' hm
    simp only [List.length_append] at hm
    obtain ⟨m1, m2, rfl, f1, f2⟩ := split_len m _ _ hm
    have k1 := h.get_put v m1 (m2 ++ r') f1
    rw [List.append_assoc, h.put_put v l1 (l2 ++ r) m1 (m2 ++ r') e1 f1, k1.2, i3 m2 r' f2]

theorem list_ok {t : Trav} (h : OK t) : OK (list t) := by
  refine ⟨?_, ?_, ?_⟩
  · intro v r
    cases v <;> try rfl
    rename_i vs
    simp only [list, putList_get h]
  · intro v l r hl
    cases v with
    | list vs =>
      simp only [list] at hl ⊢
      obtain ⟨i1, i2, _⟩ := get_putList h vs l r hl
      exact ⟨i1, i2⟩
    | _ =>
      simp only [list] at hl ⊢
      have : l = [] := List.eq_nil_of_length_eq_zero hl
      subst this; exact ⟨rfl, rfl⟩
  · intro v l r m r' hl hm
    cases v with
    | list vs =>
      simp only [list] at hl hm ⊢
      rw [(get_putList h vs l r hl).2.2 m r' hm]
    | _ => rfl

theorem some_ok {t : Trav} (h : OK t) : OK (some t) := by
  refine ⟨?_, ?_, ?_⟩
  · intro v r
    cases v <;> try rfl
    simp only [some, h.put_get]
  · intro v l r hl
    cases v with
    | some x =>
      simp only [some] at hl ⊢
      exact h.get_put x l r hl
    | _ =>
      simp only [some] at hl ⊢
      have : l = [] := List.eq_nil_of_length_eq_zero hl
      subst this; exact ⟨rfl, rfl⟩
  · intro v l r m r' hl hm
    cases v with
    | some x =>
      simp only [some] at hl hm ⊢
      rw [h.put_put x l r m r' hl hm]
    | _ => rfl

theorem tagged_ok (tag : Nat) {t : Trav} (h : OK t) : OK (tagged tag t) := by
  have triv : ∀ (v : Val), (tagged tag t).get v = [] → (∀ l, (tagged tag t).put v l = (v, l)) →
      (∀ r, (tagged tag t).put v ((tagged tag t).get v ++ r) = (v, r)) := by
    intro v hg hp r; rw [hg, hp]; rfl
  refine ⟨?_, ?_, ?_⟩
  · intro v r
    match v with
    | .pair (.nat k) x =>
      by_cases hk : k = tag
      · simp only [tagged, hk, if_true, h.put_get]
      · simp only [tagged, hk, if_false]; rfl
    | .pair (.bool _) _ | .pair (.bytes _) _ | .pair .unit _ | .pair (.pair _ _) _ | .pair (.list _) _
    | .pair .none _ | .pair (.some _) _ | .nat _ | .bool _ | .bytes _ | .unit | .list _ | .none | .some _ => rfl
  · intro v l r hl
    match v with
    | .pair (.nat k) x =>
      by_cases hk : k = tag
      · simp only [tagged, hk, if_true] at hl ⊢
        exact h.get_put x l r hl
      · simp only [tagged, hk, if_false] at hl ⊢
        have : l = [] := List.eq_nil_of_length_eq_zero hl
        subst this; exact ⟨rfl, rfl⟩
    | .pair (.bool _) _ | .pair (.bytes _) _ | .pair .unit _ | .pair (.pair _ _) _ | .pair (.list _) _
    | .pair .none _ | .pair (.some _) _ | .nat _ | .bool _ | .bytes _ | .unit | .list _ | .none | .some _ =>
      simp only [tagged] at hl ⊢
      have : l = [] := List.eq_nil_of_length_eq_zero hl
      subst this; exact ⟨rfl, rfl⟩
  · intro v l r m r' hl hm
    match v with
    | .pair (.nat k) x =>
      by_cases hk : k = tag
      · simp only [tagged, hk, if_true] at hl hm ⊢
        rw [h.put_put x l r m r' hl hm]
      · simp only [tagged, hk, if_false]
    | .pair (.bool _) _ | .pair (.bytes _) _ | .pair .unit _ | .pair (.pair _ _) _ | .pair (.list _) _
    | .pair .none _ | .pair (.some _) _ | .nat _ | .bool _ | .bytes _ | .unit | .list _ | .none | .some _ => rfl

theorem fields_aux : ∀ (ts : List Trav), (∀ t ∈ ts, OK t) → ∀ (vs : List Val),
    (∀ r, putFields ts vs (getFields ts vs ++ r) = (vs, r)) ∧
    (∀ l r, l.length = (getFields ts vs).length →
      getFields ts (putFields ts vs (l ++ r)).1 = l ∧ (putFields ts vs (l ++ r)).2 = r ∧
      ∀ m r', m.length = (getFields ts vs).length →
        putFields ts (putFields ts vs (l ++ r)).1 (m ++ r') = putFields ts vs (m ++ r')) := by
  intro ts
  induction ts with
  | nil =>
    intro _ vs
    refine ⟨fun r => by cases vs <;> rfl, ?_⟩
    intro l r hl
    have hg : getFields [] vs = [] := by cases vs <;> rfl
    rw [hg] at hl
    have : l = [] := List.eq_nil_of_length_eq_zero hl
    subst this
    have hp : ∀ x, putFields [] vs x = (vs, x) := by intro x; cases vs <;> rfl
    simp only [hp, hg, List.nil_append]
    refine ⟨trivial, trivial, ?_⟩
    intro m r' hm
    simp
  | cons t ts ih =>
    intro hok vs
    have ht := hok t (by simp)
    have ih' := ih (fun x hx => hok x (List.mem_cons_of_mem _ hx))
    cases vs with
    | nil =>
      refine ⟨fun r => rfl, ?_⟩
      intro l r hl
      have : l = [] := List.eq_nil_of_length_eq_zero hl
      subst this
      exact ⟨rfl, rfl, fun m r' hm => by
        have : m = [] := List.eq_nil_of_length_eq_zero hm
        subst this; rfl⟩
    | cons v vs =>
      obtain ⟨a1, a2⟩ := ih' vs
      refine ⟨?_, ?_⟩
      · intro r
        simp only [getFields, putFields, List.append_assoc, ht.put_get, a1]
      · intro l r hl
        simp only [getFields, List.length_append] at hl
        obtain ⟨l1, l2, rfl, e1, e2⟩ := split_len l _ _ hl
        have g1 := ht.get_put v l1 (l2 ++ r) e1
        obtain ⟨i1, i2, i3⟩ := a2 l2 r e2
        simp only [putFields, getFields, List.append_assoc, g1.2, g1.1, i1, i2]
        refine ⟨trivial, trivial, ?_⟩
        intro m r' hm
        simp only [List.length_append] at hm
        obtain ⟨m1, m2, rfl, f1, f2⟩ := split_len m _ _ hm
        have k1 := ht.get_put v m1 (m2 ++ r') f1
        rw [List.append_assoc, ht.put_put v l1 (l2 ++ r) m1 (m2 ++ r') e1 f1, k1.2, i3 m2 r' f2]

theorem fields_ok {ts : List Trav} (h : ∀ t ∈ ts, OK t) : OK (fields ts) := by
  refine ⟨?_, ?_, ?_⟩
  · intro v r
    cases v <;> try rfl
    rename_i vs
    simp only [fields, (fields_aux ts h vs).1]
  · intro v l r hl
    cases v with
    | list vs =>
      simp only [fields] at hl ⊢
      obtain ⟨i1, i2, _⟩ := (fields_aux ts h vs).2 l r hl
      exact ⟨i1, i2⟩
    | _ =>
      simp only [fields] at hl ⊢
      have : l = [] := List.eq_nil_of_length_eq_zero hl
      subst this; exact ⟨rfl, rfl⟩
  · intro v l r m r' hl hm
    cases v with
    | list vs =>
      simp only [fields] at hl hm ⊢
      rw [((fields_aux ts h vs).2 l r hl).2.2 m r' hm]
    | _ => rfl

end Trav

theorem txnsParents_ok : Trav.OK txnsParents := by
  have hp : Trav.OK parentOf := Trav.pair_ok Trav.here_ok Trav.none_ok
  have hr : Trav.OK resolutionParents :=
    Trav.pair_ok Trav.here_ok (Trav.pair_ok (Trav.tagged_ok 1 (Trav.pair_ok Trav.here_ok Trav.none_ok)) Trav.none_ok)
  apply Trav.list_ok
  apply Trav.fields_ok
  intro t ht
  simp only [List.mem_cons, List.mem_nil_iff, or_false] at ht
  rcases ht with rfl | rfl | rfl | rfl | rfl | rfl | rfl
  · exact Trav.some_ok (Trav.list_ok hp)
  · exact Trav.none_ok
  · exact Trav.some_ok (Trav.list_ok hp)
  · exact Trav.none_ok
  · exact Trav.none_ok
  · exact Trav.some_ok (Trav.list_ok hp)
  · exact Trav.some_ok (Trav.list_ok hr)

/-! ### elements -/

/-- an element value of the expected shape `((LeafIndex, (MerkleProof, _)), …)` whose proof
    entries are 32-byte strings (true of every canonical value of the element schemas) -/
def Shaped (el : Val) : Prop :=
  ∃ i pv u rest, el = .pair (.pair i (.pair (.list pv) u)) rest ∧ ∀ x ∈ pv, ∃ h : Hash32, x = .bytes h.val

theorem setProof_cases (el : Val) :
    (∃ i vs u rest, el = .pair (.pair i (.pair (.list vs) u)) rest) ∨ ∀ p, setProof el p = el := by
  cases el with
  | pair a b =>
    cases a with
    | pair i c =>
      cases c with
      | pair d u =>
        cases d with
        | list vs => exact Or.inl ⟨i, vs, u, b, rfl⟩
        | _ => right; intro p; rfl
      | _ => right; intro p; rfl
    | _ => right; intro p; rfl
  | _ => right; intro p; rfl

theorem idxOf_setProof (el : Val) (p : List Hash32) : idxOf (setProof el p) = idxOf el := by
  rcases setProof_cases el with ⟨i, vs, u, rest, rfl⟩ | h
  · cases i <;> rfl
  · rw [h]

theorem visited_setProof (el : Val) (p : List Hash32) : visited (setProof el p) = visited el := by
  unfold visited; rw [idxOf_setProof]

theorem setProof_setProof (el : Val) (p q : List Hash32) : setProof (setProof el p) q = setProof el q := by
  rcases setProof_cases el with ⟨i, vs, u, rest, rfl⟩ | h
  · rfl
  · rw [h p]

theorem hash32Of_bytes (h : Hash32) : hash32Of (.bytes h.val) = some h := by
  simp [hash32Of, h.property]

theorem proofOf_setProof {el : Val} (hs : Shaped el) (p : List Hash32) : proofOf (setProof el p) = p := by
  obtain ⟨i, pv, u, rest, rfl, _⟩ := hs
  simp only [setProof, proofOf, List.filterMap_map]
  induction p with
  | nil => rfl
  | cons a t ih => simp [List.filterMap_cons, Function.comp, hash32Of_bytes, ih]

theorem setProof_proofOf {el : Val} (hs : Shaped el) : setProof el (proofOf el) = el := by
  obtain ⟨i, pv, u, rest, rfl, hpv⟩ := hs
  simp only [setProof, proofOf]
  congr 4
  induction pv with
  | nil => rfl
  | cons x t ih =>
    obtain ⟨h, rfl⟩ := hpv x (by simp)
    simp only [List.filterMap_cons, hash32Of_bytes, List.map_cons]
    rw [ih (fun y hy => hpv y (List.mem_cons_of_mem _ hy))]

theorem setProofsEls_length : ∀ (els : List Val) (ps : List (List Hash32)), (setProofsEls els ps).length = els.length := by
  intro els
  induction els with
  | nil => intro ps; rfl
  | cons el els ih =>
    intro ps
    unfold setProofsEls
    split
    · cases ps <;> simp [ih]
    · simp [ih]

/-- number of visited (non-ephemeral) elements -/
def nvis (els : List Val) : Nat := (els.filter visited).length

theorem nvis_cons (el : Val) (els : List Val) : nvis (el :: els) = (if visited el then 1 else 0) + nvis els := by
  unfold nvis
  by_cases h : visited el = true <;> simp [List.filter_cons, h] <;> omega

theorem setProofsEls_twice : ∀ (els : List Val) (ps qs : List (List Hash32)), qs.length = nvis els →
    setProofsEls (setProofsEls els ps) qs = setProofsEls els qs := by
  intro els
  induction els with
  | nil => intro ps qs _; rfl
  | cons el els ih =>
    intro ps qs hq
    rw [nvis_cons] at hq
    by_cases hv : visited el = true
    · simp only [hv, if_true] at hq
      cases qs with
      | nil => simp at hq; omega
      | cons q qs =>
        have hq' : qs.length = nvis els := by simp at hq; omega
        cases ps with
        | nil => simp only [setProofsEls, hv, if_true, ih _ _ hq']
        | cons p ps => simp only [setProofsEls, hv, if_true, visited_setProof, setProof_setProof, ih _ _ hq']
    · simp only [hv, if_false, Nat.zero_add, Bool.false_eq_true] at hq
      simp only [setProofsEls, hv, if_false, ih _ _ hq, Bool.false_eq_true]

theorem leavesFrom_length (eh : Nat → Val → Hash32) : ∀ (els : List Val) (k : Nat), (leavesFrom eh k els).length = nvis els := by
  intro els
  induction els with
  | nil => intro k; rfl
  | cons el els ih =>
    intro k
    rw [nvis_cons]
    by_cases hv : visited el = true <;> simp [leavesFrom, hv, ih] <;> omega

theorem setProofsEls_self (eh : Nat → Val → Hash32) : ∀ (els : List Val) (k : Nat),
    (∀ el ∈ els, visited el = true → Shaped el) →
    setProofsEls els ((leavesFrom eh k els).map (·.proof)) = els := by
  intro els
  induction els with
  | nil => intro k _; rfl
  | cons el els ih =>
    intro k hs
    have ih' := fun k => ih k (fun x hx => hs x (List.mem_cons_of_mem _ hx))
    by_cases hv : visited el = true
    · simp only [leavesFrom, hv, if_true, List.map_cons, setProofsEls, setProof_proofOf (hs el (by simp) hv), ih']
    · simp only [leavesFrom, hv, if_false, setProofsEls, ih', Bool.false_eq_true]

theorem leavesFrom_set (eh : Nat → Val → Hash32) (heh : ∀ k el p, eh k (setProof el p) = eh k el) :
    ∀ (els : List Val) (k : Nat) (ps : List (List Hash32)),
    (∀ el ∈ els, visited el = true → Shaped el) → ps.length = nvis els →
    leavesFrom eh k (setProofsEls els ps) =
      List.zipWith (fun l p => { l with proof := p }) (leavesFrom eh k els) ps := by
  intro els
  induction els with
  | nil => intro k ps _ _; rfl
  | cons el els ih =>
    intro k ps hs hp
    rw [nvis_cons] at hp
    have ih' := fun k ps => ih k ps (fun x hx => hs x (List.mem_cons_of_mem _ hx))
    by_cases hv : visited el = true
    · simp only [hv, if_true] at hp
      cases ps with
      | nil => simp at hp; omega
      | cons p ps =>
        have hp' : ps.length = nvis els := by simp at hp; omega
        simp only [setProofsEls, leavesFrom, hv, if_true, visited_setProof, List.zipWith_cons_cons, heh,
          idxOf_setProof, proofOf_setProof (hs el (by simp) hv), ih' _ _ hp']
    · simp only [hv, if_false, Nat.zero_add, Bool.false_eq_true] at hp
      simp only [setProofsEls, leavesFrom, hv, if_false, ih' _ _ hp, Bool.false_eq_true]

theorem leavesFrom_tag_ge (eh : Nat → Val → Hash32) : ∀ (els : List Val) (k : Nat), ∀ a ∈ leavesFrom eh k els, k ≤ a.tag := by
  intro els
  induction els with
  | nil => intro k a ha; simp [leavesFrom] at ha
  | cons el els ih =>
    intro k a ha
    by_cases hv : visited el = true
    · simp only [leavesFrom, hv, if_true, List.mem_cons] at ha
      rcases ha with rfl | ha
      · exact Nat.le_refl _
      · have := ih (k + 1) a ha; omega
    · simp only [leavesFrom, hv, if_false, Bool.false_eq_true] at ha
      have := ih (k + 1) a ha; omega

theorem leavesFrom_tags (eh : Nat → Val → Hash32) : ∀ (els : List Val) (k : Nat),
    ∀ a ∈ leavesFrom eh k els, ∀ b ∈ leavesFrom eh k els, a.tag = b.tag → a = b := by
  intro els
  induction els with
  | nil => intro k a ha; simp [leavesFrom] at ha
  | cons el els ih =>
    intro k a ha b hb hab
    by_cases hv : visited el = true
    · simp only [leavesFrom, hv, if_true, List.mem_cons] at ha hb
      rcases ha with rfl | ha <;> rcases hb with rfl | hb
      · rfl
      · have := leavesFrom_tag_ge eh els (k + 1) b hb; simp only at hab; omega
      · have := leavesFrom_tag_ge eh els (k + 1) a ha; simp only at hab; omega
      · exact ih (k + 1) a ha b hb hab
    · simp only [leavesFrom, hv, if_false, Bool.false_eq_true] at ha hb
      exact ih (k + 1) a ha b hb hab

/-! ### the instance -/

/-- the transaction set is well shaped: every visited parent element has the element
    shape with 32-byte proof entries (implied by canonicity for the element schemas) -/
def GoodTxns (t : Val) : Prop := ∀ el ∈ txnsParents.get t, visited el = true → Shaped el

/-- **`valOps` is a lawful transaction-set codec** whenever the payload codec round-trips
    on canonical values and the element hash does not depend on the proof. -/
theorem valOps_ok (eh : Nat → Val → Hash32) (heh : ∀ k el p, eh k (setProof el p) = eh k el)
    (encP : Val → Bytes) (decP : Bytes → Except DecErr (Val × Bytes)) (CanonP : Val → Prop)
    (hrt : ∀ t rest, CanonP t → decP (encP t ++ rest) = .ok (t, rest)) :
    TxSetOK (valOps eh encP decP) CanonP GoodTxns := by
  have tok := txnsParents_ok
  refine ⟨?_, ?_, ?_, ?_, hrt⟩
  · intro t ps hg hp
    simp only [valOps, leavesOfEls] at hp ⊢
    rw [leavesFrom_length] at hp
    have hl := setProofsEls_length (txnsParents.get t) ps
    have := (tok.get_put t _ [] hl).1
    rw [List.append_nil] at this
    rw [this]
    exact leavesFrom_set eh heh _ 0 ps hg hp
  · intro t hg
    simp only [valOps, leavesOfEls]
    rw [setProofsEls_self eh _ 0 hg]
    have := tok.put_get t []
    rw [List.append_nil] at this
    rw [this]
  · intro t ps qs _ hq
    simp only [valOps, leavesOfEls] at hq ⊢
    rw [leavesFrom_length] at hq
    have hl := setProofsEls_length (txnsParents.get t) ps
    have hg := (tok.get_put t _ [] hl).1
    rw [List.append_nil] at hg
    rw [hg]
    have hpp := tok.put_put t (setProofsEls (txnsParents.get t) ps) []
      (setProofsEls (setProofsEls (txnsParents.get t) ps) qs) [] hl
      (by rw [setProofsEls_length, setProofsEls_length])
    simp only [List.append_nil] at hpp
    rw [hpp, setProofsEls_twice _ _ _ hq]
  · intro t a ha b hb hab
    exact leavesFrom_tags eh _ 0 a ha b hb hab

end Sia.Multiproof
