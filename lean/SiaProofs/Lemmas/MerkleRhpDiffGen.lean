import SiaProofs.Lemmas.MerkleRhpDiffOps
/-!
  Helper lemmas for C16, part 14: the compressed bookkeeping of `VerifyDiffProof` against the
  full-list meaning of the actions, for EVERY valid list of Append / Swap / Trim actions.

  `S` is the sorted duplicate-free list of all indices the actions ever touch (`modifyLeaves`'
  `indexMap`). Invariant while the actions are performed one by one on the full list `l`:
  the compressed leaf hashes are `l` at the positions `S.filter (< |l|)` and the proof indices
  are `S.filter (< |l|)`.
-/
set_option linter.unusedVariables false
set_option linter.unusedSectionVars false
namespace Sia.Rhp
open HashOps

variable {H : Type} [HashOps H]

/-- the prefix of a sorted index list below `m` -/
def below (S : List Nat) (m : Nat) : List Nat := S.filter (fun x => decide (x < m))

theorem mem_below {S : List Nat} {m x : Nat} : x ∈ below S m ↔ x ∈ S ∧ x < m := by
  simp [below, List.mem_filter]

theorem sorted_below {S : List Nat} (hS : Sorted S) (m : Nat) : Sorted (below S m) :=
  List.Pairwise.filter _ hS

theorem below_below (S : List Nat) {a b : Nat} (hab : a ≤ b) : below (below S b) a = below S a := by
  unfold below
  rw [List.filter_filter]
  apply List.filter_congr
  intro x _
  by_cases h : x < a
  · have : x < b := by omega
    simp [h, this]
  · simp [h]

/-- if `S` contains all of `[b-k, b)`, its prefix below `b` is the prefix below `b-k` followed by that range -/
theorem below_split (S : List Nat) (hS : Sorted S) (b k : Nat) (hk : k ≤ b)
    (hall : ∀ j, b - k ≤ j → j < b → j ∈ S) :
    below S b = below S (b - k) ++ List.range' (b - k) k := by
  obtain ⟨P, hP, hlt⟩ := sorted_suffix (below S b) (sorted_below hS b) b (fun x hx => (mem_below.1 hx).2) k hk
    (fun j h1 h2 => mem_below.2 ⟨hall j h1 h2, h2⟩)
  have : below S (b - k) = P := by
    rw [← below_below S (Nat.sub_le b k), hP]
    unfold below
    rw [List.filter_append]
    have h1 : List.filter (fun x => decide (x < b - k)) P = P :=
      List.filter_eq_self.2 (fun x hx => by simpa using hlt x hx)
    have h2 : List.filter (fun x => decide (x < b - k)) (List.range' (b - k) k) = [] := by
      rw [List.filter_eq_nil_iff]
      intro x hx
      rw [List.mem_range'] at hx
      obtain ⟨i, _, hi⟩ := hx
      simp; omega
    rw [h1, h2, List.append_nil]
  rw [this]; exact hP

theorem below_succ (S : List Nat) (hS : Sorted S) (m : Nat) (hm : m ∈ S) : below S (m + 1) = below S m ++ [m] := by
  have := below_split S hS (m + 1) 1 (by omega) (fun j h1 h2 => by
    have : j = m := by omega
    rw [this]; exact hm)
  simpa using this

/-- a sorted list is its prefix below `m` followed by the rest -/
theorem sorted_split (m : Nat) : ∀ (S : List Nat), Sorted S → ∃ Q, S = below S m ++ Q := by
  intro S
  induction S with
  | nil => intro _; exact ⟨[], rfl⟩
  | cons x xs ih =>
    intro hS
    have hS' := hS
    unfold Sorted at hS'
    rw [List.pairwise_cons] at hS'
    by_cases hx : x < m
    · obtain ⟨Q, hQ⟩ := ih hS'.2
      refine ⟨Q, ?_⟩
      simp only [below, List.filter_cons, hx, decide_true, if_true, List.cons_append]
      unfold below at hQ
      rw [← hQ]
    · refine ⟨x :: xs, ?_⟩
      have : below (x :: xs) m = [] := by
        unfold below
        rw [List.filter_eq_nil_iff]
        intro y hy
        cases hy with
        | head => simpa using hx
        | tail _ hy => have := hS'.1 y hy; simp; omega
      rw [this]; rfl

theorem indexOf_append_left (a : Nat) : ∀ (P Q : List Nat) (k : Nat), a ∈ P → indexOf a (P ++ Q) k = indexOf a P k := by
  intro P
  induction P with
  | nil => intro Q k h; simp at h
  | cons y ys ih =>
    intro Q k h
    simp only [List.cons_append, indexOf]
    by_cases hy : a = y
    · simp [hy]
    · simp only [hy, if_false]
      cases h with
      | head => exact absurd rfl hy
      | tail _ h => exact ih Q (k + 1) h

theorem indexOf_below (S : List Nat) (hS : Sorted S) (m a : Nat) (ha : a ∈ S) (ham : a < m) :
    indexOf a S 0 = indexOf a (below S m) 0 := by
  obtain ⟨Q, hQ⟩ := sorted_split m S hS
  have hmem : a ∈ below S m := mem_below.2 ⟨ha, ham⟩
  conv => lhs; rw [hQ]
  exact indexOf_append_left a _ Q 0 hmem

/-! ### valid action lists -/

/-- Append / Swap / Trim only, swap indices and trim sizes within the current count, counts below 2^64 -/
def ValidActs : Nat → List (Action H) → Prop
  | m, [] => m < 18446744073709551616
  | m, .append _ :: as => m + 1 < 18446744073709551616 ∧ ValidActs (m + 1) as
  | m, .trim k :: as => m < 18446744073709551616 ∧ k ≤ m ∧ ValidActs (m - k) as
  | m, .swap a b :: as => a < m ∧ b < m ∧ ValidActs m as
  | _, .other :: _ => False

theorem getD_append_left (l : List H) (r : H) (j : Nat) (hj : j < l.length) :
    (l ++ [r]).getD j zero = l.getD j zero := by
  simp [List.getD_eq_getElem?_getD, List.getElem?_append_left hj]

/-- the invariant is preserved by every action list -/
theorem acts_compress (S : List Nat) (hS : Sorted S) : ∀ (acts : List (Action H)) (l : List H) (raw : List Nat),
    ValidActs l.length acts → actionIndices acts l.length = .ok raw → (∀ x ∈ raw, x ∈ S) →
    ∃ l', applyActions l acts = .ok l' ∧
      applyLeafActions S ((below S l.length).map (fun j => l.getD j zero)) acts
        = .ok ((below S l'.length).map (fun j => l'.getD j zero)) ∧
      modifyProofRanges (below S l.length) acts l.length = .ok (below S l'.length) ∧
      (∀ j, j ∉ S → j < l.length → j < l'.length → l'[j]? = l[j]?) ∧
      (∀ j, min l.length l'.length ≤ j → j < max l.length l'.length → j ∈ S) ∧
      l'.length < 18446744073709551616 := by
  intro acts
  induction acts with
  | nil =>
    intro l raw hv _ _
    exact ⟨l, rfl, rfl, rfl, fun _ _ _ _ => rfl, fun j h1 h2 => by omega, hv⟩
  | cons act acts ih =>
    intro l raw hv hraw hmem
    cases act with
    | other => exact absurd hv (by simp [ValidActs])
    | append r =>
      obtain ⟨hb, hv'⟩ := hv
      simp only [actionIndices, bind, Except.bind] at hraw
      cases hr : actionIndices acts (l.length + 1) with
      | error e => rw [hr] at hraw; simp at hraw
      | ok raw' =>
        rw [hr] at hraw
        simp only [pure, Except.pure, Except.ok.injEq] at hraw
        subst hraw
        have hmS : l.length ∈ S := hmem _ List.mem_cons_self
        have hlen1 : (l ++ [r]).length = l.length + 1 := by simp
        obtain ⟨l', e1, e2, e3, ag, cov, hbd⟩ := ih (l ++ [r]) raw' (by rw [hlen1]; exact hv') (by rw [hlen1]; exact hr)
          (fun x hx => hmem x (List.mem_cons_of_mem _ hx))
        rw [hlen1] at e2 e3 ag cov
        refine ⟨l', ?_, ?_, ?_, ?_, ?_, hbd⟩
        · simp only [applyActions]; exact e1
        · simp only [applyLeafActions]
          rw [← e2, below_succ S hS _ hmS, List.map_append]
          congr 2
          · apply List.map_congr_left
            intro j hj
            exact (getD_append_left l r j (mem_below.1 hj).2).symm
          · simp [List.getD_eq_getElem?_getD]
        · simp only [modifyProofRanges]
          rw [← e3, below_succ S hS _ hmS]
        · intro j hjS h1 h2
          rw [ag j hjS (by omega) h2, List.getElem?_append_left h1]
        · intro j h1 h2
          by_cases hj : j = l.length
          · rw [hj]; exact hmS
          · exact cov j (by omega) (by omega)
    | trim k =>
      obtain ⟨hb, hk, hv'⟩ := hv
      simp only [actionIndices, bind, Except.bind] at hraw
      obtain ⟨ht1, ht2⟩ := trimIndices_spec k l.length hk hb
      rw [ht1] at hraw
      cases hr : actionIndices acts (l.length - k) with
      | error e => rw [hr] at hraw; simp at hraw
      | ok raw' =>
        rw [hr] at hraw
        simp only [pure, Except.pure, Except.ok.injEq] at hraw
        subst hraw
        have htail : ∀ j, l.length - k ≤ j → j < l.length → j ∈ S :=
          fun j h1 h2 => hmem j (List.mem_append_left _ ((ht2 j).2 ⟨h1, h2⟩))
        have hlen1 : (l.take (l.length - k)).length = l.length - k := by simp [List.length_take]
        obtain ⟨l', e1, e2, e3, ag, cov, hbd⟩ := ih (l.take (l.length - k)) raw' (by rw [hlen1]; exact hv')
          (by rw [hlen1]; exact hr) (fun x hx => hmem x (List.mem_append_right _ hx))
        rw [hlen1] at e2 e3 ag cov
        have hsplit := below_split S hS l.length k hk htail
        have hlb : (below S l.length).length = (below S (l.length - k)).length + k := by rw [hsplit]; simp
        refine ⟨l', ?_, ?_, ?_, ?_, ?_, hbd⟩
        · have : ¬ (k > l.length) := by omega
          simp only [applyActions, this, if_false]; exact e1
        · have : ¬ (k > ((below S l.length).map (fun j => l.getD j zero)).length) := by simp [hlb]
          simp only [applyLeafActions, this, if_false]
          rw [← e2]
          congr 1
          rw [← List.map_take, List.length_map, hlb, hsplit]
          have e : (below S (l.length - k)).length + k - k = (below S (l.length - k)).length := by omega
          rw [e, List.take_left' rfl]
          apply List.map_congr_left
          intro j hj
          have := (mem_below.1 hj).2
          have hjl : j < l.length := by omega
          simp [List.getD_eq_getElem?_getD, List.getElem?_take, this, List.getElem?_eq_getElem hjl]
        · have : ¬ (k > (below S l.length).length) := by omega
          simp only [modifyProofRanges, this, if_false]
          rw [← e3]
          congr 1
          rw [hlb, hsplit]
          have e : (below S (l.length - k)).length + k - k = (below S (l.length - k)).length := by omega
          rw [e, List.take_left' rfl]
        · intro j hjS h1 h2
          by_cases hjk : j < l.length - k
          · rw [ag j hjS hjk h2, List.getElem?_take]; simp [hjk]
          · exact absurd (htail j (by omega) h1) hjS
        · intro j h1 h2
          by_cases hjk : l.length - k ≤ j ∧ j < l.length
          · exact htail j hjk.1 hjk.2
          · exact cov j (by omega) (by omega)
    | swap a b =>
      obtain ⟨ha, hb', hv'⟩ := hv
      simp only [actionIndices, bind, Except.bind] at hraw
      cases hr : actionIndices acts l.length with
      | error e => rw [hr] at hraw; simp at hraw
      | ok raw' =>
        rw [hr] at hraw
        simp only [pure, Except.pure, Except.ok.injEq] at hraw
        subst hraw
        have haS : a ∈ S := hmem a List.mem_cons_self
        have hbS : b ∈ S := hmem b (List.mem_cons_of_mem _ List.mem_cons_self)
        obtain ⟨l1, s1, len1, ag1, c1⟩ := swap_compress (below S l.length) (sorted_below hS _) l
          (fun x hx => (mem_below.1 hx).2) a b (mem_below.2 ⟨haS, ha⟩) (mem_below.2 ⟨hbS, hb'⟩)
        obtain ⟨l', e1, e2, e3, ag, cov, hbd⟩ := ih l1 raw' (by rw [len1]; exact hv') (by rw [len1]; exact hr)
          (fun x hx => hmem x (List.mem_cons_of_mem _ (List.mem_cons_of_mem _ hx)))
        rw [len1] at e2 e3 ag cov
        refine ⟨l', ?_, ?_, ?_, ?_, ?_, hbd⟩
        · simp only [applyActions, s1, bind, Except.bind]; exact e1
        · simp only [applyLeafActions]
          rw [indexOf_below S hS l.length a haS ha, indexOf_below S hS l.length b hbS hb', c1]
          simp only [bind, Except.bind]
          exact e2
        · simp only [modifyProofRanges]; exact e3
        · intro j hjS h1 h2
          rw [ag j hjS h1 h2]
          exact ag1 j (fun h => hjS (mem_below.1 h).1)
        · exact cov

/-! ### the tree hashes of two lists that differ only at listed positions -/

theorem buildRange_congr (l1 l2 : List H) (j : Nat) (h1 : j ≤ l1.length) (h2 : j ≤ l2.length) :
    ∀ (d i : Nat), j - i = d → (∀ x, i ≤ x → x < j → l2[x]? = l1[x]?) →
      buildRange l1 i j = buildRange l2 i j := by
  intro d
  induction d using Nat.strongRecOn with
  | _ d ih =>
    intro i hd hag
    by_cases hlt : i < j
    · obtain ⟨k, hk, hdvd, hle⟩ := nss_spec hlt
      have hp := Nat.two_pow_pos k
      rw [buildRange_step l1 i j ⟨hlt, by omega⟩, buildRange_step l2 i j ⟨hlt, by omega⟩, hk]
      have n1 : ¬ (i + 2 ^ k > l1.length) := by omega
      have n2 : ¬ (i + 2 ^ k > l2.length) := by omega
      simp only [n1, n2, if_false]
      have hseg := seg_eq_of_agree l1 l2 i (i + 2 ^ k) (by omega) (by omega) (fun x a b => hag x a (by omega))
      have e : i + 2 ^ k - i = 2 ^ k := by omega
      rw [e] at hseg
      rw [hseg, ih (j - (i + 2 ^ k)) (by omega) (i + 2 ^ k) rfl (fun x a b => hag x (by omega) b)]
    · rw [buildRange_done l1 i j (by omega), buildRange_done l2 i j (by omega)]

theorem gapHashes_congr (l1 l2 : List H) (n : Nat) (h1 : n ≤ l1.length) (h2 : n ≤ l2.length) :
    ∀ (idx : List Nat) (start : Nat), IdxOK start idx n →
      (∀ x, start ≤ x → x < n → x ∉ idx → l2[x]? = l1[x]?) →
      gapHashes l1 idx start n = gapHashes l2 idx start n := by
  intro idx
  induction idx with
  | nil =>
    intro start hok hag
    simp only [gapHashes]
    exact buildRange_congr l1 l2 n h1 h2 _ start rfl (fun x a b => hag x a b (by simp))
  | cons e es ih =>
    intro start hok hag
    obtain ⟨a1, a2, a3⟩ := hok
    have hgt : ∀ x ∈ es, e < x := by
      have : ∀ (es : List Nat) (s : Nat), IdxOK s es n → ∀ x ∈ es, s ≤ x := by
        intro es
        induction es with
        | nil => intro s _ x hx; simp at hx
        | cons y ys ihy =>
          intro s hok x hx
          obtain ⟨b1, b2, b3⟩ := hok
          cases hx with
          | head => exact b1
          | tail _ hx => have := ihy (y + 1) b3 x hx; omega
      intro x hx
      have := this es (e + 1) a3 x hx
      omega
    simp only [gapHashes]
    rw [buildRange_congr l1 l2 e (by omega) (by omega) _ start rfl (fun x b1 b2 => hag x b1 (by omega) (by
        intro hm
        cases hm with
        | head => omega
        | tail _ hm => have := hgt x hm; omega)),
      ih (e + 1) a3 (fun x b1 b2 b3 => hag x (by omega) b2 (by
        intro hm
        cases hm with
        | head => omega
        | tail _ hm => exact b3 hm))]

/-- the same tree hashes serve both passes: two lists that agree outside the sorted set `S`, whose
lengths differ only across indices all in `S` -/
theorem gapHashes_passes (S : List Nat) (hS : Sorted S) (l1 l2 : List H)
    (hag : ∀ j, j ∉ S → j < l1.length → j < l2.length → l2[j]? = l1[j]?)
    (hcov : ∀ j, min l1.length l2.length ≤ j → j < max l1.length l2.length → j ∈ S) :
    gapHashes l1 (below S l1.length) 0 l1.length = gapHashes l2 (below S l2.length) 0 l2.length := by
  -- reduce both sides to the common prefix below m = min of the lengths
  have key : ∀ (la lb : List H), la.length ≤ lb.length →
      (∀ j, j ∉ S → j < la.length → lb[j]? = la[j]?) →
      (∀ j, la.length ≤ j → j < lb.length → j ∈ S) →
      gapHashes la (below S la.length) 0 la.length = gapHashes lb (below S lb.length) 0 lb.length := by
    intro la lb hle hag' hcov'
    have hsplit := below_split S hS lb.length (lb.length - la.length) (by omega) (fun j a b => hcov' j (by omega) b)
    have e1 : lb.length - (lb.length - la.length) = la.length := by omega
    rw [e1] at hsplit
    have hokP : IdxOK 0 (below S la.length) la.length :=
      IdxOK_of_sorted _ 0 _ (sorted_below hS _) (fun x hx => ⟨Nat.zero_le _, (mem_below.1 hx).2⟩) (Nat.zero_le _)
    have h := gapHashes_append_range lb la.length (lb.length - la.length) (below S la.length) 0 hokP
    have e2 : la.length + (lb.length - la.length) = lb.length := by omega
    rw [e2, ← hsplit] at h
    rw [h]
    exact gapHashes_congr la lb la.length (Nat.le_refl _) hle _ 0 hokP (fun x _ b c => hag' x (fun hm => c (mem_below.2 ⟨hm, b⟩)) b)
  by_cases hle : l1.length ≤ l2.length
  · exact key l1 l2 hle (fun j a b => hag j a b (by omega))
      (fun j a b => hcov j (by rw [Nat.min_eq_left hle]; exact a) (by rw [Nat.max_eq_right hle]; exact b))
  · have hle' : l2.length ≤ l1.length := by omega
    exact (key l2 l1 hle' (fun j a b => (hag j a (by omega) b).symm)
      (fun j a b => hcov j (by rw [Nat.min_eq_right hle']; exact a) (by rw [Nat.max_eq_left hle']; exact b))).symm

end Sia.Rhp
