import SiaProofs.Lemmas.LedgerC01Leaf
/-!
# C01 helper lemmas, part 17: pool solvency at the ledger level
-/
namespace Sia.Ledger

/-- 10000 × what the live siafund outputs could still claim from the pool (before floor division) -/
def PsiL (L : Ledger) : Nat := (L.sf.map (psiW L.pool)).sum

/-- every live siafund output was created when the pool stood no higher than now -/
def CsOkL (L : Ledger) : Prop := ∀ o ∈ L.sf, o.claimStart ≤ L.pool

theorem sfW_newMid (w : SfElem → Nat) (L : Ledger) : sfW w (newMid L) = (L.sf.map w).sum := by
  unfold sfW Mid.sfIds newMid
  simp [untouched_nil]

theorem sfW_commit (w : SfElem → Nat) (ms : Mid) (bid : Id) : ((ms.commit bid).sf.map w).sum = sfW w ms := by
  rw [commit_sf]
  unfold sfW Mid.sfIds
  rw [List.map_append, List.sum_append]
  rw [sum_live ms.sfes _ _ _ (sfDvW w) (by intro d; unfold sfDvW; cases d.spent <;> simp)]

theorem csBad_sum_zero_iff (l : List SfElem) (p : Cur) :
    (l.map (csBad p)).sum = 0 ↔ ∀ o ∈ l, o.claimStart ≤ p := by
  induction l with
  | nil => simp
  | cons a l ih =>
    simp only [List.map_cons, List.sum_cons, List.mem_cons, forall_eq_or_imp]
    rw [← ih]
    unfold csBad
    by_cases h : a.claimStart ≤ p
    · simp [h]
    · simp [h]

theorem csOk_newMid (L : Ledger) : CsOk (newMid L) ↔ CsOkL L := by
  unfold CsOk CsOkL
  rw [sfW_newMid]; exact csBad_sum_zero_iff _ _

theorem csOkL_commit {ms : Mid} (h : CsOk ms) (bid : Id) : CsOkL (ms.commit bid) := by
  unfold CsOk at h; unfold CsOkL
  rw [← sfW_commit _ ms bid] at h
  exact (csBad_sum_zero_iff _ _).mp h

theorem Psi_newMid (L : Ledger) : Psi (newMid L) = PsiL L := by
  unfold Psi PsiL; rw [sfW_newMid]; rfl

theorem PsiL_commit (ms : Mid) (bid : Id) : PsiL (ms.commit bid) = Psi ms := by
  unfold PsiL Psi
  exact sfW_commit _ ms bid

theorem PsiL_le (L : Ledger) : PsiL L ≤ SFtot L * L.pool := by
  unfold PsiL SFtot psiW
  induction L.sf with
  | nil => simp
  | cons a l ih =>
    simp only [List.map_cons, List.sum_cons, Nat.add_mul]
    have : a.value * (L.pool - a.claimStart) ≤ a.value * L.pool := Nat.mul_le_mul_left _ (Nat.sub_le _ _)
    omega

theorem PsiL_eraseLeaves (L : Ledger) : PsiL L.eraseLeaves = PsiL L := by
  unfold PsiL Ledger.eraseLeaves; simp only [List.map_map]; rfl

theorem LeafEq.PsiL {L L' : Ledger} (h : LeafEq L L') : PsiL L' = PsiL L := by
  rw [← PsiL_eraseLeaves L', ← PsiL_eraseLeaves L, h]

theorem LeafEq.pool {L L' : Ledger} (h : LeafEq L L') : L'.pool = L.pool := by
  have := congrArg Ledger.pool h; exact this.symm

theorem LeafEq.csOkL {L L' : Ledger} (h : LeafEq L L') (hc : CsOkL L) : CsOkL L' := by
  intro o ho
  have h1 : ({ o with leaf := none } : SfElem) ∈ L'.eraseLeaves.sf :=
    List.mem_map_of_mem (f := fun e => ({ e with leaf := none } : SfElem)) ho
  rw [← h] at h1
  obtain ⟨o0, ho0, heq⟩ := List.mem_map.mp h1
  have hcs : o0.claimStart = o.claimStart := by injection heq
  rw [h.pool, ← hcs]; exact hc o0 ho0

/-- pool solvency across one accepted block -/
theorem pool_solvent_block {L : Ledger} {b : Block} {pid : Id} {msv : Mid}
    (hw : WF L) (hcs : CsOkL L) (hf : FreshIds L b) (hfix : L.child ≥ L.P.ephemeralFix) (hnw : SfNoWrap b)
    (hcov : IdListsCover L b pid) (hv : validateBlock L b pid = .ok msv) :
    ∀ L' ms, applyBlock L b = .ok (L', ms) →
      CsOkL L' ∧ L.pool ≤ L'.pool ∧ PsiL L' + 10000 * b.claims L ≤ PsiL L + (L'.pool - L.pool) * SFtot L := by
  obtain ⟨ms, hm, _, _, _, _, hpl, hsv, _⟩ := block_conserves hw hf hfix hnw hcov hv
  intro L' ms' h
  unfold applyBlock at h; rw [hm] at h; cases h
  obtain ⟨c, q⟩ := hsv ((csOk_newMid L).mpr hcs)
  rw [Psi_newMid] at q
  exact ⟨csOkL_commit c _, hpl, by rw [PsiL_commit]; exact q⟩

end Sia.Ledger
