import SiaProofs.Lemmas.LedgerC06Store
import SiaProofs.Lemmas.LedgerC08V2
/-!
# Validated blocks only record ledger elements in their non-created diffs (`Genuine`)
-/
namespace Sia.Ledger

/-- the diff a `putX id` call rewrites (`default` if `id` is new) -/
def Mid.scTarget (s : Mid) (id : Id) : ScDiff := match s.lookup id with | some i => s.sces.getD i default | none => default
def Mid.sfTarget (s : Mid) (id : Id) : SfDiff := match s.lookup id with | some i => s.sfes.getD i default | none => default
def Mid.fc1Target (s : Mid) (id : Id) : Fc1Diff := match s.lookup id with | some i => s.fces.getD i default | none => default
def Mid.fc2Target (s : Mid) (id : Id) : Fc2Diff := match s.lookup id with | some i => s.v2fces.getD i default | none => default

theorem getD_mem_or_default {α} [Inhabited α] (l : List α) (i : Nat) : l.getD i default ∈ l ∨ l.getD i default = default := by
  by_cases h : i < l.length
  · left; simp [List.getD, h]
  · right; simp [List.getD, Nat.not_lt.1 h]

theorem scTarget_mem (s : Mid) (id : Id) : s.scTarget id ∈ s.sces ∨ s.scTarget id = default := by
  unfold Mid.scTarget; split
  · exact getD_mem_or_default _ _
  · exact Or.inr rfl
theorem sfTarget_mem (s : Mid) (id : Id) : s.sfTarget id ∈ s.sfes ∨ s.sfTarget id = default := by
  unfold Mid.sfTarget; split
  · exact getD_mem_or_default _ _
  · exact Or.inr rfl
theorem fc1Target_mem (s : Mid) (id : Id) : s.fc1Target id ∈ s.fces ∨ s.fc1Target id = default := by
  unfold Mid.fc1Target; split
  · exact getD_mem_or_default _ _
  · exact Or.inr rfl
theorem fc2Target_mem (s : Mid) (id : Id) : s.fc2Target id ∈ s.v2fces ∨ s.fc2Target id = default := by
  unfold Mid.fc2Target; split
  · exact getD_mem_or_default _ _
  · exact Or.inr rfl

theorem mem_set_cases {α} {l : List α} {i : Nat} {y x : α} (h : x ∈ l.set i y) : x ∈ l ∨ x = y :=
  List.mem_or_eq_of_mem_set h

theorem putSc_G {L : Ledger} (s : Mid) (id : Id) (f : ScDiff → ScDiff) (hG : Genuine L s)
    (hf : (f (s.scTarget id)).created = false → (f (s.scTarget id)).e ∈ L.sc) : Genuine L (s.putSc id f) := by
  unfold Mid.putSc Mid.scTarget at *
  cases hl : s.lookup id with
  | some i =>
    rw [hl] at hf
    refine ⟨?_, hG.sf, hG.fc1, hG.fc2⟩
    intro d hd hc
    rcases mem_set_cases hd with h | rfl
    · exact hG.sc d h hc
    · exact hf hc
  | none =>
    rw [hl] at hf
    refine ⟨?_, hG.sf, hG.fc1, hG.fc2⟩
    intro d hd hc
    rcases List.mem_append.1 hd with h | h
    · exact hG.sc d h hc
    · rw [List.mem_singleton.1 h] at hc ⊢; exact hf hc

theorem putSf_G {L : Ledger} (s : Mid) (id : Id) (f : SfDiff → SfDiff) (hG : Genuine L s)
    (hf : (f (s.sfTarget id)).created = false → (f (s.sfTarget id)).e ∈ L.sf) : Genuine L (s.putSf id f) := by
  unfold Mid.putSf Mid.sfTarget at *
  cases hl : s.lookup id with
  | some i =>
    rw [hl] at hf
    refine ⟨hG.sc, ?_, hG.fc1, hG.fc2⟩
    intro d hd hc
    rcases mem_set_cases hd with h | rfl
    · exact hG.sf d h hc
    · exact hf hc
  | none =>
    rw [hl] at hf
    refine ⟨hG.sc, ?_, hG.fc1, hG.fc2⟩
    intro d hd hc
    rcases List.mem_append.1 hd with h | h
    · exact hG.sf d h hc
    · rw [List.mem_singleton.1 h] at hc ⊢; exact hf hc

theorem putFc1_G {L : Ledger} (s : Mid) (id : Id) (f : Fc1Diff → Fc1Diff) (hG : Genuine L s)
    (hf : (f (s.fc1Target id)).created = false → (f (s.fc1Target id)).e ∈ L.fc1) : Genuine L (s.putFc1 id f) := by
  unfold Mid.putFc1 Mid.fc1Target at *
  cases hl : s.lookup id with
  | some i =>
    rw [hl] at hf
    refine ⟨hG.sc, hG.sf, ?_, hG.fc2⟩
    intro d hd hc
    rcases mem_set_cases hd with h | rfl
    · exact hG.fc1 d h hc
    · exact hf hc
  | none =>
    rw [hl] at hf
    refine ⟨hG.sc, hG.sf, ?_, hG.fc2⟩
    intro d hd hc
    rcases List.mem_append.1 hd with h | h
    · exact hG.fc1 d h hc
    · rw [List.mem_singleton.1 h] at hc ⊢; exact hf hc

theorem putFc2_G {L : Ledger} (s : Mid) (id : Id) (f : Fc2Diff → Fc2Diff) (hG : Genuine L s)
    (hf : (f (s.fc2Target id)).created = false → (f (s.fc2Target id)).e ∈ L.fc2) : Genuine L (s.putFc2 id f) := by
  unfold Mid.putFc2 Mid.fc2Target at *
  cases hl : s.lookup id with
  | some i =>
    rw [hl] at hf
    refine ⟨hG.sc, hG.sf, hG.fc1, ?_⟩
    intro d hd hc
    rcases mem_set_cases hd with h | rfl
    · exact hG.fc2 d h hc
    · exact hf hc
  | none =>
    rw [hl] at hf
    refine ⟨hG.sc, hG.sf, hG.fc1, ?_⟩
    intro d hd hc
    rcases List.mem_append.1 hd with h | h
    · exact hG.fc2 d h hc
    · rw [List.mem_singleton.1 h] at hc ⊢; exact hf hc

theorem Genuine.of_same {L : Ledger} {s s' : Mid} (h : Genuine L s) (e1 : s'.sces = s.sces)
    (e2 : s'.sfes = s.sfes) (e3 : s'.fces = s.fces) (e4 : s'.v2fces = s.v2fces) : Genuine L s' :=
  ⟨by rw [e1]; exact h.sc, by rw [e2]; exact h.sf, by rw [e3]; exact h.fc1, by rw [e4]; exact h.fc2⟩

theorem createSc_G {L : Ledger} (s : Mid) (id : Id) (o : ScOut) (m : Nat) (h : Genuine L s) : Genuine L (s.createSc id o m) :=
  putSc_G s id _ h (fun hc => by cases hc)
theorem createImmatureSc_G {L : Ledger} (s : Mid) (id : Id) (o : ScOut) (h : Genuine L s) : Genuine L (s.createImmatureSc id o) :=
  createSc_G s id o _ h
theorem createSf_G {L : Ledger} (s : Mid) (id : Id) (v : Nat) (a : Addr) (h : Genuine L s) : Genuine L (s.createSf id v a) :=
  putSf_G s id _ h (fun hc => by cases hc)

theorem spendSc_G {L : Ledger} (s : Mid) (e : ScElem) (h : Genuine L s)
    (he : (s.scTarget e.id).created = false → e ∈ L.sc) : Genuine L (s.spendSc e) :=
  (putSc_G s e.id (fun d => { d with e := e, spent := true }) h he).of_same rfl rfl rfl rfl

theorem spendSf_G {L : Ledger} (s : Mid) (e : SfElem) (h : Genuine L s)
    (he : (s.sfTarget e.id).created = false → e ∈ L.sf) : Genuine L (s.spendSf e) :=
  (putSf_G s e.id (fun d => { d with e := e, spent := true }) h he).of_same rfl rfl rfl rfl

theorem createFc1_G {L : Ledger} {s s' : Mid} {id : Id} {fc : Fc1} (h : Genuine L s) (hc : s.createFc1 id fc = .ok s') :
    Genuine L s' := by
  unfold Mid.createFc1 at hc
  obtain ⟨p, _, hc⟩ := bind_ok_iff.1 hc
  cases hc
  exact (putFc1_G s id _ h (fun hc => by cases hc)).of_same rfl rfl rfl rfl

theorem createFc2_G {L : Ledger} {s s' : Mid} {id : Id} {fc : Fc2} (h : Genuine L s) (hc : s.createFc2 id fc = .ok s') :
    Genuine L s' := by
  unfold Mid.createFc2 at hc
  obtain ⟨tax, _, hc⟩ := bind_ok_iff.1 hc
  obtain ⟨p, _, hc⟩ := bind_ok_iff.1 hc
  cases hc
  exact (putFc2_G s id _ h (fun hc => by cases hc)).of_same rfl rfl rfl rfl

/-- a revision is recorded genuinely if the revised element is a ledger element, unless the diff is
created in the block or already holds a revision (then its pre-block element is kept) -/
theorem reviseFc1_G {L : Ledger} (s : Mid) (e : Fc1Elem) (rev : Fc1) (h : Genuine L s)
    (he : (s.fc1Target e.id).created = false → (s.fc1Target e.id).revision = none → e ∈ L.fc1) :
    Genuine L (s.reviseFc1 e rev) := by
  unfold Mid.reviseFc1
  apply putFc1_G s e.id _ h
  have hm := fc1Target_mem s e.id
  generalize s.fc1Target e.id = d at he hm
  cases h1 : d.created with
  | true => simp
  | false =>
    cases h2 : d.revision with
    | some r =>
      simp only [Option.isSome_some, if_true, Bool.false_eq_true, if_false]
      intro _
      rcases hm with hm | hd
      · exact h.fc1 _ hm h1
      · rw [hd] at h2; cases h2
    | none =>
      simp only [Option.isSome_none, Bool.false_eq_true, if_false]
      intro _
      exact he h1 h2

theorem resolveFc1_G {L : Ledger} (s : Mid) (e : Fc1Elem) (v : Bool) (h : Genuine L s)
    (he : (s.fc1Target e.id).created = false → (s.fc1Target e.id).revision = none → e ∈ L.fc1) :
    Genuine L (s.resolveFc1 e v) := by
  unfold Mid.resolveFc1
  refine (putFc1_G s e.id _ h ?_).of_same rfl rfl rfl rfl
  have hm := fc1Target_mem s e.id
  generalize s.fc1Target e.id = d at he hm
  cases h2 : d.revision with
  | some r =>
    simp only [Option.isSome_some, if_true]
    intro hc
    rcases hm with hm | hd
    · exact h.fc1 _ hm hc
    · rw [hd] at h2; cases h2
  | none =>
    simp only [Option.isSome_none, Bool.false_eq_true, if_false]
    intro hc
    exact he hc h2

theorem reviseFc2_G {L : Ledger} (s : Mid) (e : Fc2Elem) (rev : Fc2) (h : Genuine L s) (he : e ∈ L.fc2) :
    Genuine L (s.reviseFc2 e rev) := by
  unfold Mid.reviseFc2
  apply putFc2_G s e.id _ h
  have hm := fc2Target_mem s e.id
  generalize s.fc2Target e.id = d at hm
  cases h1 : d.created with
  | true => simp
  | false =>
    cases h2 : d.revision with
    | some r =>
      simp only [Option.isSome_some, if_true, Bool.false_eq_true, if_false]
      intro _
      rcases hm with hm | hd
      · exact h.fc2 _ hm h1
      · rw [hd] at h2; cases h2
    | none =>
      simp only [Option.isSome_none, Bool.false_eq_true, if_false]
      intro _
      exact he

theorem resolveFc2_G {L : Ledger} {s s' : Mid} {e : Fc2Elem} {k : ResKind} (h : Genuine L s) (he : e ∈ L.fc2)
    (hc : s.resolveFc2 e k = .ok s') : Genuine L s' := by
  unfold Mid.resolveFc2 at hc
  split at hc
  · split at hc
    · cases hc
    · cases hc
      exact (putFc2_G s e.id _ h (fun _ => he)).of_same rfl rfl rfl rfl
  · cases hc
    exact (putFc2_G s e.id _ h (fun _ => he)).of_same rfl rfl rfl rfl

-- ------------------------------------------------------------------ "created earlier in the block" persists

/-- `id` is indexed to an in-range siacoin diff that is marked created -/
def Mid.scCreatedAt (s : Mid) (id : Id) : Prop :=
  ∃ j, s.lookup id = some j ∧ j < s.sces.length ∧ (s.sces.getD j default).created = true
def Mid.sfCreatedAt (s : Mid) (id : Id) : Prop :=
  ∃ j, s.lookup id = some j ∧ j < s.sfes.length ∧ (s.sfes.getD j default).created = true

theorem scCreatedAt_target {s : Mid} {id : Id} (h : s.scCreatedAt id) : (s.scTarget id).created = true := by
  obtain ⟨j, h1, _, h3⟩ := h
  unfold Mid.scTarget; rw [h1]; exact h3
theorem sfCreatedAt_target {s : Mid} {id : Id} (h : s.sfCreatedAt id) : (s.sfTarget id).created = true := by
  obtain ⟨j, h1, _, h3⟩ := h
  unfold Mid.sfTarget; rw [h1]; exact h3

theorem getD_set_created {δ} [Inhabited δ] (created : δ → Bool) (l : List δ) (i j : Nat) (f : δ → δ)
    (hf : ∀ d, created d = true → created (f d) = true) (hj : j < l.length)
    (h : created (l.getD j default) = true) : created ((l.set i (f (l.getD i default))).getD j default) = true := by
  by_cases hij : i = j
  · subst hij
    have : (l.set i (f (l.getD i default))).getD i default = f (l.getD i default) := by
      simp [List.getD, hj]
    rw [this]; exact hf _ h
  · have : (l.set i (f (l.getD i default))).getD j default = l.getD j default := by
      simp [List.getD, hij]
    rw [this]; exact h

theorem getD_append_left' {δ} [Inhabited δ] (l : List δ) (x : δ) (j : Nat) (hj : j < l.length) :
    (l ++ [x]).getD j default = l.getD j default := by
  simp [List.getD, List.getElem?_append_left hj]

theorem putSc_scCreatedAt (s : Mid) (id' : Id) (f : ScDiff → ScDiff) (hf : ∀ d, d.created = true → (f d).created = true)
    (id : Id) (h : s.scCreatedAt id) : (s.putSc id' f).scCreatedAt id := by
  obtain ⟨j, h1, h2, h3⟩ := h
  unfold Mid.putSc
  cases hl : s.lookup id' with
  | some i =>
    exact ⟨j, h1, by simpa [listSet] using h2, getD_set_created (·.created) _ i j f hf h2 h3⟩
  | none =>
    refine ⟨j, lookup_append_some _ h1, by simp; omega, ?_⟩
    show ((s.sces ++ [f default]).getD j default).created = true
    rw [getD_append_left' _ _ _ h2]; exact h3

theorem putSc_sfCreatedAt (s : Mid) (id' : Id) (f : ScDiff → ScDiff) (id : Id) (h : s.sfCreatedAt id) :
    (s.putSc id' f).sfCreatedAt id := by
  obtain ⟨j, h1, h2, h3⟩ := h
  unfold Mid.putSc
  cases hl : s.lookup id' with
  | some i => exact ⟨j, h1, h2, h3⟩
  | none => exact ⟨j, lookup_append_some _ h1, h2, h3⟩

theorem putSf_sfCreatedAt (s : Mid) (id' : Id) (f : SfDiff → SfDiff) (hf : ∀ d, d.created = true → (f d).created = true)
    (id : Id) (h : s.sfCreatedAt id) : (s.putSf id' f).sfCreatedAt id := by
  obtain ⟨j, h1, h2, h3⟩ := h
  unfold Mid.putSf
  cases hl : s.lookup id' with
  | some i =>
    exact ⟨j, h1, by simpa [listSet] using h2, getD_set_created (·.created) _ i j f hf h2 h3⟩
  | none =>
    refine ⟨j, lookup_append_some _ h1, by simp; omega, ?_⟩
    show ((s.sfes ++ [f default]).getD j default).created = true
    rw [getD_append_left' _ _ _ h2]; exact h3

theorem spendSc_scCreatedAt (s : Mid) (e : ScElem) (id : Id) (h : s.scCreatedAt id) : (s.spendSc e).scCreatedAt id :=
  putSc_scCreatedAt s e.id (fun d => { d with e := e, spent := true }) (fun _ hd => hd) id h
theorem spendSc_sfCreatedAt (s : Mid) (e : ScElem) (id : Id) (h : s.sfCreatedAt id) : (s.spendSc e).sfCreatedAt id :=
  putSc_sfCreatedAt s e.id _ id h
theorem createSc_sfCreatedAt (s : Mid) (i : Id) (o : ScOut) (m : Nat) (id : Id) (h : s.sfCreatedAt id) :
    (s.createSc i o m).sfCreatedAt id := putSc_sfCreatedAt s i _ id h
theorem spendSf_sfCreatedAt (s : Mid) (e : SfElem) (id : Id) (h : s.sfCreatedAt id) : (s.spendSf e).sfCreatedAt id :=
  putSf_sfCreatedAt s e.id (fun d => { d with e := e, spent := true }) (fun _ hd => hd) id h

-- ------------------------------------------------------------------ transactions

theorem foldlM_inv_on {α β} {f : β → α → VM β} (I : β → Prop) (l : List α)
    (hstep : ∀ s x s', x ∈ l → I s → f s x = .ok s' → I s') (s s' : β)
    (h0 : I s) (h : l.foldlM f s = .ok s') : I s' := by
  induction l generalizing s with
  | nil => simp at h; exact h ▸ h0
  | cons a l ih =>
    rw [List.foldlM_cons] at h
    obtain ⟨s1, h1, h2⟩ := bind_ok_iff.1 h
    exact ih (fun s x s' hx => hstep s x s' (List.mem_cons_of_mem _ hx)) s1
      (hstep s a s1 List.mem_cons_self h0 h1) h2

theorem ephemeralSc_createdAt {s : Mid} {sci : ScIn2} (h : validateEphemeralSc s sci = .ok ()) :
    s.scCreatedAt sci.parent.id := by
  unfold validateEphemeralSc at h
  split at h
  · exact absurd h (reject_ne_ok _ _)
  · rename_i j hj
    split at h
    · exact absurd h (reject_ne_ok _ _)
    · rename_i hc
      exact ⟨j, hj, Nat.lt_of_not_ge (fun hge => hc (Or.inl hge)), Classical.not_not.1 (fun hn => hc (Or.inr hn))⟩

theorem ephemeralSf_createdAt {s : Mid} {sfi : SfIn2} (h : validateEphemeralSf s sfi = .ok ()) :
    s.sfCreatedAt sfi.parent.id := by
  unfold validateEphemeralSf at h
  split at h
  · exact absurd h (reject_ne_ok _ _)
  · rename_i j hj
    split at h
    · exact absurd h (reject_ne_ok _ _)
    · rename_i hc
      exact ⟨j, hj, Nat.lt_of_not_ge (fun hge => hc (Or.inl hge)), Classical.not_not.1 (fun hn => hc (Or.inr hn))⟩

theorem createdAt_not_false {b : Bool} (h : b = true) (h' : b = false) : False := by rw [h] at h'; cases h'

/-- a validated v2 transaction keeps the diffs genuine -/
theorem applyV2Transaction_G {L : Ledger} {s s' : Mid} {t : Txn2} {mw : Nat} (hG : Genuine L s) (hb : s.base = L)
    (hv : validateV2Transaction s t mw = .ok ()) (h : applyV2Transaction s t = .ok s') : Genuine L s' := by
  obtain ⟨_, _, _, _, vsc, vsf, vfc, _, _⟩ := (validateV2Transaction_ok_iff s t mw).1 hv
  have vsc' := ((validateV2Siacoins_ok_iff s t).1 vsc).1
  have vsf' := ((validateV2Siafunds_ok_iff s t).1 vsf).1
  obtain ⟨_, vrev, _, vres, _⟩ := (validateV2FileContracts_ok_iff s t).1 vfc
  rw [applyV2Transaction_eq] at h
  obtain ⟨s1, h1, h⟩ := bind_ok_iff.1 h
  obtain ⟨s2, h2, h⟩ := bind_ok_iff.1 h
  obtain ⟨s3, h3, h⟩ := bind_ok_iff.1 h
  obtain ⟨s4, h4, h⟩ := bind_ok_iff.1 h
  obtain ⟨s5, h5, h⟩ := bind_ok_iff.1 h
  obtain ⟨s6, h6, h⟩ := bind_ok_iff.1 h
  obtain ⟨s7, h7, h⟩ := bind_ok_iff.1 h
  simp at h; subst h
  let I : Mid → Prop := fun x => Genuine L x ∧ (∀ id, s.scCreatedAt id → x.scCreatedAt id) ∧
    (∀ id, s.sfCreatedAt id → x.sfCreatedAt id)
  have e1 : I s1 := foldlM_inv_on I t.scIns (fun x sci x' hm hx hs => by
      simp [a2ScIn] at hs; subst hs
      refine ⟨spendSc_G x sci.parent hx.1 (fun hc => ?_), fun id hid => spendSc_scCreatedAt _ _ _ (hx.2.1 id hid),
        fun id hid => spendSc_sfCreatedAt _ _ _ (hx.2.2 id hid)⟩
      have hp := (vsc' sci hm).present
      unfold ScIn2Present at hp
      split at hp
      · exact (createdAt_not_false (scCreatedAt_target (hx.2.1 _ (ephemeralSc_createdAt hp))) hc).elim
      · rw [hb] at hp; simpa [Ledger.hasSc] using hp) s s1 ⟨hG, fun _ h => h, fun _ h => h⟩ h1
  let I2 : Mid → Prop := fun x => Genuine L x ∧ (∀ id, s.sfCreatedAt id → x.sfCreatedAt id)
  have e2 : I2 s2 := foldlM_inv I2 (fun x o x' hx hs => by
      simp [a2ScOut] at hs; subst hs
      exact ⟨createSc_G _ _ _ _ hx.1, fun id hid => createSc_sfCreatedAt _ _ _ _ _ (hx.2 id hid)⟩) _ s1 s2 ⟨e1.1, e1.2.2⟩ h2
  have e3 : I2 s3 := foldlM_inv_on I2 t.sfIns (fun x sfi x' hm hx hs => by
      unfold a2SfIn at hs
      obtain ⟨c, _, hs⟩ := bind_ok_iff.1 hs
      simp at hs; subst hs
      refine ⟨createImmatureSc_G _ _ _ (spendSf_G x sfi.parent hx.1 (fun hc => ?_)),
        fun id hid => createSc_sfCreatedAt _ _ _ _ _ (spendSf_sfCreatedAt _ _ _ (hx.2 id hid))⟩
      have hp := (vsf' sfi hm).present
      unfold SfIn2Present at hp
      split at hp
      · exact (createdAt_not_false (sfCreatedAt_target (hx.2 _ (ephemeralSf_createdAt hp))) hc).elim
      · rw [hb] at hp; simpa [Ledger.hasSf] using hp) s2 s3 e2 h3
  have e4 : Genuine L s4 := foldlM_inv (Genuine L) (fun x o x' hx hs => by
      simp [a2SfOut] at hs; subst hs; exact createSf_G _ _ _ _ hx) _ s3 s4 e3.1 h4
  have e5 : Genuine L s5 := foldlM_inv (Genuine L) (fun x o x' hx hs => createFc2_G hx hs) _ s4 s5 e4 h5
  have e6 : Genuine L s6 := foldlM_inv_on (Genuine L) t.revs (fun x r x' hm hx hs => by
      simp [a2Rev] at hs; subst hs
      refine reviseFc2_G _ _ _ hx ?_
      have hp := (vrev r hm).present
      rw [hb] at hp; simpa [Ledger.hasFc2] using hp) s5 s6 e5 h6
  have e7 : Genuine L s7 := foldlM_inv_on (Genuine L) t.ress (fun x r x' hm hx hs => by
      unfold a2Res at hs
      obtain ⟨r1, hr1, hs⟩ := bind_ok_iff.1 hs
      obtain ⟨r2, hr2, hs⟩ := bind_ok_iff.1 hs
      simp at hs; subst hs
      have hp := (vres r hm).present
      rw [hb] at hp
      have j1 := resolveFc2_G hx (by simpa [Ledger.hasFc2] using hp) hr1
      have j2 : Genuine L r2 := by
        unfold a2ResNew at hr2
        split at hr2
        · exact createFc2_G j1 hr2
        · simp at hr2; subst hr2; exact j1
      exact createImmatureSc_G _ _ _ (createImmatureSc_G _ _ _ j2)) s6 s7 e6 h7
  unfold a2Final; simp only []; split
  · split <;> exact e7.of_same rfl rfl rfl rfl
  · exact e7.of_same rfl rfl rfl rfl

theorem scDiff?_target {s : Mid} {id : Id} {d : ScDiff} (h : s.scDiff? id = some d) :
    s.scTarget id = d ∧ d ∈ s.sces := by
  unfold Mid.scDiff? at h
  unfold Mid.scTarget
  split at h
  · rename_i i hi
    split at h
    · rename_i hc
      cases h
      rw [hi]
      exact ⟨rfl, by simp [List.getD, hc.1]⟩
    · cases h
  · cases h

theorem sfDiff?_target {s : Mid} {id : Id} {d : SfDiff} (h : s.sfDiff? id = some d) :
    s.sfTarget id = d ∧ d ∈ s.sfes := by
  unfold Mid.sfDiff? at h
  unfold Mid.sfTarget
  split at h
  · rename_i i hi
    split at h
    · rename_i hc
      cases h
      rw [hi]
      exact ⟨rfl, by simp [List.getD, hc.1]⟩
    · cases h
  · cases h

theorem fc1Diff?_target {s : Mid} {id : Id} {d : Fc1Diff} (h : s.fc1Diff? id = some d) :
    s.fc1Target id = d ∧ d ∈ s.fces := by
  unfold Mid.fc1Diff? at h
  unfold Mid.fc1Target
  split at h
  · rename_i i hi
    split at h
    · rename_i hc
      cases h
      rw [hi]
      exact ⟨rfl, by simp [List.getD, hc.1]⟩
    · cases h
  · cases h

/-- the supplement records of one v1 transaction are ledger elements -/
structure SuppIn (L : Ledger) (t : Txn1) : Prop where
  sc : ∀ e ∈ t.supp.scIns, e ∈ L.sc
  sf : ∀ e ∈ t.supp.sfIns, e ∈ L.sf
  revised : ∀ e ∈ t.supp.revised, e ∈ L.fc1
  proofs : ∀ p ∈ t.supp.proofs, p.1 ∈ L.fc1

theorem scElement_G {L : Ledger} {s : Mid} {t : Txn1} {id : Id} {e : ScElem} (hG : Genuine L s) (hs : SuppIn L t)
    (h : s.scElement t.supp id = some e) : (s.scTarget e.id).created = false → e ∈ L.sc := by
  have hid := scElement_id h
  rw [hid]
  unfold Mid.scElement at h
  split at h
  · rename_i d hd
    cases h
    obtain ⟨ht, hm⟩ := scDiff?_target hd
    rw [ht]; exact hG.sc d hm
  · intro _; exact hs.sc e (List.mem_of_find?_eq_some h)

theorem sfElement_G {L : Ledger} {s : Mid} {t : Txn1} {id : Id} {e : SfElem} (hG : Genuine L s) (hs : SuppIn L t)
    (h : s.sfElement t.supp id = some e) : (s.sfTarget e.id).created = false → e ∈ L.sf := by
  have hid := sfElement_id h
  rw [hid]
  unfold Mid.sfElement at h
  split at h
  · rename_i d hd
    cases h
    obtain ⟨ht, hm⟩ := sfDiff?_target hd
    rw [ht]; exact hG.sf d hm
  · intro _; exact hs.sf e (List.mem_of_find?_eq_some h)

theorem fc1Element_G {L : Ledger} {s : Mid} {t : Txn1} {id : Id} {e : Fc1Elem} (hG : Genuine L s) (hs : SuppIn L t)
    (h : s.fc1Element t.supp id = some e) :
    (s.fc1Target e.id).created = false → (s.fc1Target e.id).revision = none → e ∈ L.fc1 := by
  have hid := fc1Element_id h
  rw [hid]
  unfold Mid.fc1Element at h
  split at h
  · rename_i d hd
    cases h
    obtain ⟨ht, hm⟩ := fc1Diff?_target hd
    rw [ht]
    intro hc hr
    unfold Fc1Diff.current; rw [hr]
    exact hG.fc1 d hm hc
  · intro _ _
    split at h
    · rename_i e' he; cases h; exact hs.revised _ (List.mem_of_find?_eq_some he)
    · cases hf : t.supp.proofs.find? (·.1.id = id) with
      | none => rw [hf] at h; cases h
      | some x => rw [hf] at h; cases h; exact hs.proofs x (List.mem_of_find?_eq_some hf)

theorem payouts_G {L : Ledger} (l : List (ScOut × Id)) (s s' : Mid) (h : Genuine L s) (hf : l.foldlM a1Payout s = .ok s') :
    Genuine L s' :=
  foldlM_inv (Genuine L) (fun s x s' hs hx => by simp [a1Payout] at hx; subst hx; exact createImmatureSc_G _ _ _ hs) l s s' h hf

/-- a v1 transaction whose supplement records are ledger elements keeps the diffs genuine -/
theorem applyTransaction_G {L : Ledger} {s s' : Mid} {t : Txn1} (hG : Genuine L s) (hs : SuppIn L t)
    (h : applyTransaction s t = .ok s') : Genuine L s' := by
  rw [applyTransaction_eq] at h
  obtain ⟨s1, h1, h⟩ := bind_ok_iff.1 h
  obtain ⟨s2, h2, h⟩ := bind_ok_iff.1 h
  obtain ⟨s3, h3, h⟩ := bind_ok_iff.1 h
  obtain ⟨s4, h4, h⟩ := bind_ok_iff.1 h
  obtain ⟨s5, h5, h⟩ := bind_ok_iff.1 h
  obtain ⟨s6, h6, h⟩ := bind_ok_iff.1 h
  obtain ⟨s7, h7, h⟩ := bind_ok_iff.1 h
  simp at h; subst h
  have e1 := foldlM_inv (Genuine L) (fun x sci x' hx hx' => by
      unfold a1ScIn at hx'
      split at hx'
      · cases hx'
      · rename_i e he
        simp at hx'; subst hx'
        exact spendSc_G _ _ hx (scElement_G hx hs he)) _ _ _ hG h1
  have e2 := foldlM_inv (Genuine L) (fun x o x' hx hx' => by
      simp [a1ScOut] at hx'; subst hx'; exact createSc_G _ _ _ _ hx) _ _ _ e1 h2
  have e3 := foldlM_inv (Genuine L) (fun x sfi x' hx hx' => by
      unfold a1SfIn at hx'
      split at hx'
      · cases hx'
      · rename_i e he
        obtain ⟨c, _, hx'⟩ := bind_ok_iff.1 hx'
        simp at hx'; subst hx'
        exact createImmatureSc_G _ _ _ (spendSf_G _ _ hx (sfElement_G hx hs he))) _ _ _ e2 h3
  have e4 := foldlM_inv (Genuine L) (fun x o x' hx hx' => by
      simp [a1SfOut] at hx'; subst hx'; exact createSf_G _ _ _ _ hx) _ _ _ e3 h4
  have e5 := foldlM_inv (Genuine L) (fun x o x' hx hx' => createFc1_G hx hx') _ _ _ e4 h5
  have e6 := foldlM_inv (Genuine L) (fun x r x' hx hx' => by
      unfold a1Rev at hx'
      split at hx'
      · cases hx'
      · rename_i e he
        simp at hx'; subst hx'
        exact reviseFc1_G _ _ _ hx (fc1Element_G hx hs he)) _ _ _ e5 h6
  have e7 := foldlM_inv (Genuine L) (fun x sp x' hx hx' => by
      unfold a1Proof at hx'
      split at hx'
      · cases hx'
      · rename_i e he
        exact payouts_G _ _ _ (resolveFc1_G _ _ _ hx (fc1Element_G hx hs he)) hx') _ _ _ e6 h7
  unfold a1Final; split
  · split <;> first | exact e7 | exact e7.of_same rfl rfl rfl rfl
  · exact e7

-- ------------------------------------------------------------------ blocks

theorem newMid_G (L : Ledger) : Genuine L (newMid L) :=
  { sc := fun _ h => absurd h List.not_mem_nil, sf := fun _ h => absurd h List.not_mem_nil,
    fc1 := fun _ h => absurd h List.not_mem_nil, fc2 := fun _ h => absurd h List.not_mem_nil }

theorem foldlM_vb1_apply {pid mw : Nat} (l : List Txn1) (s s' : Mid)
    (h : l.foldlM (vb1Step pid mw) s = .ok s') : l.foldlM applyTransaction s = .ok s' := by
  induction l generalizing s with
  | nil => exact h
  | cons t l ih =>
    rw [List.foldlM_cons] at h ⊢
    obtain ⟨s1, h1, h2⟩ := bind_ok_iff.1 h
    obtain ⟨_, _, ha⟩ := bind_ok_iff.1 h1
    rw [ha]; exact ih s1 h2

theorem foldlM_vb2_apply {mw : Nat} (l : List Txn2) (s s' : Mid)
    (h : l.foldlM (vb2Step mw) s = .ok s') : l.foldlM applyV2Transaction s = .ok s' := by
  induction l generalizing s with
  | nil => exact h
  | cons t l ih =>
    rw [List.foldlM_cons] at h ⊢
    obtain ⟨s1, h1, h2⟩ := bind_ok_iff.1 h
    obtain ⟨_, _, ha⟩ := bind_ok_iff.1 h1
    rw [ha]; exact ih s1 h2

/-- For a block that passes `validateBlock`, the mid-state `midApplyBlock` produces (the one whose
diffs an `ApplyUpdate` / `RevertUpdate` reports) records, in every diff not created by the block,
an element of the ledger the block was applied to. -/
theorem genuine_of_validated {L : Ledger} {b : Block} {pid : Id} {ms0 ms : Mid}
    (hv : validateBlock L b pid = .ok ms0) (hm : midApplyBlock (newMid L) b = .ok ms) : Genuine L ms := by
  rw [validateBlock_eq] at hv
  obtain ⟨_, _, hv⟩ := bind_ok_iff.1 hv
  obtain ⟨_, hsupp, hv⟩ := bind_ok_iff.1 hv
  have hS := (validateSupplement_ok_iff L b).1 hsupp
  split at hv
  · exact absurd hv (reject_ne_ok _ _)
  obtain ⟨s0, h1, h2⟩ := bind_ok_iff.1 hv
  have g1 : Genuine L s0 := foldlM_inv_on (Genuine L) b.txns1 (fun x t x' ht hx hs => by
      obtain ⟨_, _, ha⟩ := bind_ok_iff.1 hs
      exact applyTransaction_G hx ⟨hS.sc t ht, hS.sf t ht, hS.revised t ht, hS.proofs t ht⟩ ha) _ _ (newMid_G L) h1
  have b1 : s0.base = L := by
    have := foldlM_base (fun s x s' hs => by
      obtain ⟨_, _, ha⟩ := bind_ok_iff.1 hs
      exact applyTransaction_base ha) b.txns1 (newMid L) s0 h1
    rw [this]; rfl
  have g2 : Genuine L ms0 ∧ ms0.base = L := foldlM_inv (fun x => Genuine L x ∧ x.base = L) (fun x t x' hx hs => by
      obtain ⟨_, hval, ha⟩ := bind_ok_iff.1 hs
      exact ⟨applyV2Transaction_G hx.1 hx.2 hval ha, by rw [applyV2Transaction_base ha]; exact hx.2⟩) _ _ _ ⟨g1, b1⟩ h2
  rw [midApplyBlock_eq] at hm
  split at hm
  · cases hm
  obtain ⟨s1, k1, hm⟩ := bind_ok_iff.1 hm
  obtain ⟨s2, k2, hm⟩ := bind_ok_iff.1 hm
  obtain ⟨s3, k3, hm⟩ := bind_ok_iff.1 hm
  obtain ⟨sub, _, hm⟩ := bind_ok_iff.1 hm
  have : s1 = s0 := by
    have := foldlM_vb1_apply _ _ _ h1
    rw [k1] at this; cases this; rfl
  subst this
  have : s2 = ms0 := by
    have := foldlM_vb2_apply _ _ _ h2
    rw [k2] at this; cases this; rfl
  subst this
  have g3 : Genuine L s3 := foldlM_inv (Genuine L) (fun x o x' hx hs => by
      simp [mbPayout] at hs; subst hs; exact createImmatureSc_G _ _ _ hx) _ _ _ g2.1 k3
  have hexp : ∀ x0 : Mid, Genuine L x0 → b.expiring.foldlM mbExpire x0 = .ok ms → Genuine L ms := fun x0 h0 hf =>
    foldlM_inv_on (f := mbExpire) (Genuine L) b.expiring (fun x e x' he hx hs => by
      unfold mbExpire at hs
      split at hs
      · simp at hs; subst hs; exact hx
      · exact payouts_G _ _ _ (resolveFc1_G _ _ _ hx (fun _ _ => hS.expiring e he)) hs) _ _ h0 hf
  cases sub with
  | none => exact hexp _ g3 hm
  | some o => exact hexp _ (createImmatureSc_G _ _ _ g3) hm

theorem midApplyBlock_base {L : Ledger} {b : Block} {ms : Mid} (hm : midApplyBlock (newMid L) b = .ok ms) :
    ms.base = L := by
  rw [midApplyBlock_eq] at hm
  split at hm
  · cases hm
  obtain ⟨s1, k1, hm⟩ := bind_ok_iff.1 hm
  obtain ⟨s2, k2, hm⟩ := bind_ok_iff.1 hm
  obtain ⟨s3, k3, hm⟩ := bind_ok_iff.1 hm
  obtain ⟨sub, _, hm⟩ := bind_ok_iff.1 hm
  have e1 := foldlM_base (fun s x s' hs => applyTransaction_base hs) _ _ _ k1
  have e2 := foldlM_base (fun s x s' hs => applyV2Transaction_base hs) _ _ _ k2
  have e3 := foldlM_base (fun s x s' hs => by simp [mbPayout] at hs; subst hs; simp) _ _ _ k3
  have e4 := foldlM_base (f := mbExpire) (fun s x s' hs => by
      unfold mbExpire at hs
      split at hs
      · simp at hs; subst hs; rfl
      · have := foldlM_base (fun s x s' hs => by simp [a1Payout] at hs; subst hs; simp) _ _ _ hs
        rw [this]; simp) _ _ _ hm
  rw [e4]
  cases sub with
  | none => rw [e3, e2, e1]; rfl
  | some o => simp only [createImmatureSc_base]; rw [e3, e2, e1]; rfl

end Sia.Ledger
