import SiaModel.Text.Quote
import SiaProofs.Lemmas.TextBasic
/-! Helper lemmas for C20: UTF-8 decode/encode, strconv.Quote / Unquote round trip. -/
namespace Sia.Text

/-- the five ways `decodeRune` can answer on a non-empty text -/
theorem decodeRune_cases (b : UInt8) (rest : Txt) :
    (b.toNat < 0x80 ∧ decodeRune (b :: rest) = (b.toNat, 1))
    ∨ (0x80 ≤ b.toNat ∧ decodeRune (b :: rest) = (runeError, 1))
    ∨ (∃ b1 t, rest = b1 :: t ∧ 0xC2 ≤ b.toNat ∧ b.toNat < 0xE0 ∧ isCont b1 = true ∧
        decodeRune (b :: rest) = ((b.toNat % 32) * 64 + b1.toNat % 64, 2))
    ∨ (∃ b1 b2 t, rest = b1 :: b2 :: t ∧ 0xE0 ≤ b.toNat ∧ b.toNat < 0xF0 ∧
        (if b.toNat = 0xE0 then 0xA0 else 0x80) ≤ b1.toNat ∧ b1.toNat ≤ (if b.toNat = 0xED then 0x9F else 0xBF) ∧
        isCont b2 = true ∧
        decodeRune (b :: rest) = ((b.toNat % 16) * 4096 + (b1.toNat % 64) * 64 + b2.toNat % 64, 3))
    ∨ (∃ b1 b2 b3 t, rest = b1 :: b2 :: b3 :: t ∧ 0xF0 ≤ b.toNat ∧ b.toNat < 0xF5 ∧
        (if b.toNat = 0xF0 then 0x90 else 0x80) ≤ b1.toNat ∧ b1.toNat ≤ (if b.toNat = 0xF4 then 0x8F else 0xBF) ∧
        isCont b2 = true ∧ isCont b3 = true ∧
        decodeRune (b :: rest) =
          ((b.toNat % 8) * 262144 + (b1.toNat % 64) * 4096 + (b2.toNat % 64) * 64 + b3.toNat % 64, 4)) := by
  by_cases h1 : b.toNat < 0x80
  · left; simp [decodeRune, h1]
  by_cases h2 : b.toNat < 0xC2
  · right; left; simp [decodeRune, h1, h2]; omega
  by_cases h3 : b.toNat < 0xE0
  · match rest with
    | [] => right; left; simp [decodeRune, h1, h2, h3]; omega
    | b1 :: t =>
      by_cases hc : isCont b1 = true
      · right; right; left
        exact ⟨b1, t, rfl, by omega, h3, hc, by simp [decodeRune, h1, h2, h3, hc]⟩
      · right; left; simp [decodeRune, h1, h2, h3, hc]; omega
  by_cases h4 : b.toNat < 0xF0
  · match rest with
    | [] => right; left; simp [decodeRune, h1, h2, h3, h4]; omega
    | [_] => right; left; simp [decodeRune, h1, h2, h3, h4]; omega
    | b1 :: b2 :: t =>
      by_cases hc : ((if b.toNat = 0xE0 then 0xA0 else 0x80) ≤ b1.toNat ∧ b1.toNat ≤ (if b.toNat = 0xED then 0x9F else 0xBF) ∧ isCont b2 = true)
      · right; right; right; left
        refine ⟨b1, b2, t, rfl, by omega, h4, hc.1, hc.2.1, hc.2.2, ?_⟩
        simp only [decodeRune, h1, h2, h3, h4, if_false, if_true]
        simp only [hc, and_self, if_true]
      · right; left
        refine ⟨by omega, ?_⟩
        simp only [decodeRune, h1, h2, h3, h4, if_false, if_true]
        simp only [hc, if_false]
  by_cases h5 : b.toNat < 0xF5
  · match rest with
    | [] => right; left; simp [decodeRune, h1, h2, h3, h4, h5]; omega
    | [_] => right; left; simp [decodeRune, h1, h2, h3, h4, h5]; omega
    | [_, _] => right; left; simp [decodeRune, h1, h2, h3, h4, h5]; omega
    | b1 :: b2 :: b3 :: t =>
      by_cases hc : ((if b.toNat = 0xF0 then 0x90 else 0x80) ≤ b1.toNat ∧ b1.toNat ≤ (if b.toNat = 0xF4 then 0x8F else 0xBF) ∧ isCont b2 = true ∧ isCont b3 = true)
      · right; right; right; right
        refine ⟨b1, b2, b3, t, rfl, by omega, h5, hc.1, hc.2.1, hc.2.2.1, hc.2.2.2, ?_⟩
        simp only [decodeRune, h1, h2, h3, h4, h5, if_false, if_true]
        simp only [hc, and_self, if_true]
      · right; left
        refine ⟨by omega, ?_⟩
        simp only [decodeRune, h1, h2, h3, h4, h5, if_false, if_true]
        simp only [hc, if_false]
  · right; left; simp [decodeRune, h1, h2, h3, h4, h5]; omega

theorem isCont_range {b : UInt8} (h : isCont b = true) : 0x80 ≤ b.toNat ∧ b.toNat ≤ 0xBF := by
  simpa [isCont] using h

theorem ofNat_eq_of_toNat {b : UInt8} {x : Nat} (h : x = b.toNat) : UInt8.ofNat x = b := by
  rw [h]; exact UInt8.ofNat_toNat

/-- what a successful (non-RuneError-width-1) decode means: the consumed bytes are
    exactly the UTF-8 encoding of a valid rune, and decoding looks at nothing else -/
structure DecOk (b : UInt8) (rest : Txt) (r w : Nat) : Prop where
  wpos : 1 ≤ w
  enc : (b :: rest).take w = encodeRune r
  len : ((b :: rest).take w).length = w
  valid : validRune r = true
  ascii : b.toNat < 0x80 → r = b.toNat ∧ w = 1
  multi : 0x80 ≤ b.toNat → 0x80 ≤ r
  local_ : ∀ tail, decodeRune ((b :: rest).take w ++ tail) = (r, w)

theorem decodeRune_ok (b : UInt8) (rest : Txt) (r w : Nat) (h : decodeRune (b :: rest) = (r, w))
    (hv : ¬(w = 1 ∧ r = runeError)) : DecOk b rest r w := by
  have hb := b.toNat_lt
  rcases decodeRune_cases b rest with ⟨h1, e⟩ | ⟨h1, e⟩ | ⟨b1, t, rfl, l0, u0, c1, e⟩ |
      ⟨b1, b2, t, rfl, l0, u0, l1, u1, c2, e⟩ | ⟨b1, b2, b3, t, rfl, l0, u0, l1, u1, c2, c3, e⟩
  · rw [e] at h; simp at h; obtain ⟨rfl, rfl⟩ := h
    refine ⟨by omega, ?_, by simp, ?_, fun _ => ⟨rfl, rfl⟩, fun h => by omega, ?_⟩
    · simp [encodeRune, h1]
    · simp [validRune]; omega
    · intro tail; simp [decodeRune, h1]
  · rw [e] at h; simp at h; exact absurd ⟨h.2.symm, h.1.symm⟩ hv
  · rw [e] at h; simp at h; obtain ⟨rfl, rfl⟩ := h
    have r1 := isCont_range c1
    refine ⟨by omega, ?_, by simp, ?_, fun h => by omega, fun _ => by omega, ?_⟩
    · have hr1 : ¬ (b.toNat % 32 * 64 + b1.toNat % 64 < 128) := by omega
      have hr2 : b.toNat % 32 * 64 + b1.toNat % 64 < 2048 := by omega
      simp only [List.take, encodeRune, hr1, hr2, if_false, if_true]
      rw [ofNat_eq_of_toNat (b := b) (by omega), ofNat_eq_of_toNat (b := b1) (by omega)]
    · simp [validRune]; omega
    · intro tail
      have h1 : ¬ b.toNat < 128 := by omega
      have h2 : ¬ b.toNat < 194 := by omega
      simp [decodeRune, h1, h2, u0, c1]
  · rw [e] at h; simp at h; obtain ⟨rfl, rfl⟩ := h
    have r2 := isCont_range c2
    have hl1 : 0x80 ≤ b1.toNat := by split at l1 <;> omega
    have hu1 : b1.toNat ≤ 0xBF := by split at u1 <;> omega
    have hlow : b.toNat = 0xE0 → 0xA0 ≤ b1.toNat := by intro h; simp [h] at l1; exact l1
    have hsur : b.toNat = 0xED → b1.toNat ≤ 0x9F := by intro h; simp [h] at u1; exact u1
    refine ⟨by omega, ?_, by simp, ?_, fun h => by omega, fun _ => by omega, ?_⟩
    · have hr1 : ¬ (b.toNat % 16 * 4096 + b1.toNat % 64 * 64 + b2.toNat % 64 < 128) := by omega
      have hr2 : ¬ (b.toNat % 16 * 4096 + b1.toNat % 64 * 64 + b2.toNat % 64 < 2048) := by omega
      have hr3 : b.toNat % 16 * 4096 + b1.toNat % 64 * 64 + b2.toNat % 64 < 65536 := by omega
      have hv : validRune (b.toNat % 16 * 4096 + b1.toNat % 64 * 64 + b2.toNat % 64) = true := by
        simp [validRune]; omega
      simp only [List.take, encodeRune, hr1, hr2, hr3, hv, if_false, if_true, Bool.not_true]
      rw [ofNat_eq_of_toNat (b := b) (by omega), ofNat_eq_of_toNat (b := b1) (by omega),
        ofNat_eq_of_toNat (b := b2) (by omega)]
      simp
    · simp [validRune]; omega
    · intro tail
      have h1 : ¬ b.toNat < 128 := by omega
      have h2 : ¬ b.toNat < 194 := by omega
      have h3 : ¬ b.toNat < 224 := by omega
      simp only [List.take, List.cons_append, List.nil_append, decodeRune, h1, h2, h3, u0, if_false, if_true]
      simp only [l1, u1, c2, and_self, if_true]
  · rw [e] at h; simp at h; obtain ⟨rfl, rfl⟩ := h
    have r2 := isCont_range c2
    have r3 := isCont_range c3
    have hl1 : 0x80 ≤ b1.toNat := by split at l1 <;> omega
    have hu1 : b1.toNat ≤ 0xBF := by split at u1 <;> omega
    have hlow : b.toNat = 0xF0 → 0x90 ≤ b1.toNat := by intro h; simp [h] at l1; exact l1
    have hhigh : b.toNat = 0xF4 → b1.toNat ≤ 0x8F := by intro h; simp [h] at u1; exact u1
    refine ⟨by omega, ?_, by simp, ?_, fun h => by omega, fun _ => by omega, ?_⟩
    · have hr1 : ¬ (b.toNat % 8 * 262144 + b1.toNat % 64 * 4096 + b2.toNat % 64 * 64 + b3.toNat % 64 < 128) := by omega
      have hr2 : ¬ (b.toNat % 8 * 262144 + b1.toNat % 64 * 4096 + b2.toNat % 64 * 64 + b3.toNat % 64 < 2048) := by omega
      have hr3 : ¬ (b.toNat % 8 * 262144 + b1.toNat % 64 * 4096 + b2.toNat % 64 * 64 + b3.toNat % 64 < 65536) := by omega
      have hv : validRune (b.toNat % 8 * 262144 + b1.toNat % 64 * 4096 + b2.toNat % 64 * 64 + b3.toNat % 64) = true := by
        simp [validRune]; omega
      simp only [List.take, encodeRune, hr1, hr2, hr3, hv, if_false, Bool.not_true]
      rw [ofNat_eq_of_toNat (b := b) (by omega), ofNat_eq_of_toNat (b := b1) (by omega),
        ofNat_eq_of_toNat (b := b2) (by omega), ofNat_eq_of_toNat (b := b3) (by omega)]
      simp
    · simp [validRune]; omega
    · intro tail
      have h1 : ¬ b.toNat < 128 := by omega
      have h2 : ¬ b.toNat < 194 := by omega
      have h3 : ¬ b.toNat < 224 := by omega
      have h4 : ¬ b.toNat < 240 := by omega
      simp only [List.take, List.cons_append, List.nil_append, decodeRune, h1, h2, h3, h4, u0, if_false, if_true]
      simp only [l1, u1, c2, c3, and_self, if_true]

/-! ## strconv.Quote then strconv.Unquote -/

theorem readHexN_zero (t : Txt) (acc : Nat) : readHexN 0 t acc = some (acc, t) := by
  cases t <;> rfl

theorem readHexN_hex2 (n b : Nat) (t : Txt) (acc : Nat) :
    readHexN (n + 2) (hex2 b ++ t) acc = readHexN n t (acc * 256 + b % 256) := by
  have h1 : b / 16 % 16 < 16 := by omega
  have h2 : b % 16 < 16 := by omega
  simp only [hex2, List.cons_append, List.nil_append, readHexN, hexVal_hexDigit _ h1, hexVal_hexDigit _ h2]
  congr 1
  omega

theorem readHexN_2 (b : Nat) (t : Txt) : readHexN 2 (hex2 b ++ t) 0 = some (b % 256, t) := by
  rw [readHexN_hex2 0 b t 0, readHexN_zero]; simp

theorem readHexN_4 (r : Nat) (t : Txt) : readHexN 4 (hex4 r ++ t) 0 = some (r % 65536, t) := by
  unfold hex4
  rw [List.append_assoc, readHexN_hex2 2 _ _ 0, readHexN_hex2 0 _ _ _, readHexN_zero]
  congr 2
  omega

theorem readHexN_8 (r : Nat) (t : Txt) : readHexN 8 (hex8 r ++ t) 0 = some (r % 4294967296, t) := by
  unfold hex8 hex4
  simp only [List.append_assoc]
  rw [readHexN_hex2 6 _ _ 0, readHexN_hex2 4 _ _ _, readHexN_hex2 2 _ _ _, readHexN_hex2 0 _ _ _, readHexN_zero]
  congr 2
  omega

/-- the bytes the Unquote loop appends for one decoded character -/
def outBytes (r : Nat) (mb : Bool) : List UInt8 := if r < 0x80 ∨ !mb then [UInt8.ofNat r] else encodeRune r

/-- `U` is the quoted form of the chunk `orig`: the Unquote loop reads it back as `orig` -/
structure QUnit (U orig : Txt) : Prop where
  ne : ∃ c U', U = c :: U' ∧ c ≠ 34 ∧ c ≠ 10
  rd : ∀ tail, ∃ r mb, unquoteChar (U ++ tail) = some (r, mb, tail) ∧ outBytes r mb = orig

theorem qunit_hexbyte (b : UInt8) : QUnit (92 :: 120 :: hex2 b.toNat) [b] := by
  refine ⟨⟨92, _, rfl, by decide, by decide⟩, ?_⟩
  intro tail
  refine ⟨b.toNat, false, ?_, ?_⟩
  · have hb := b.toNat_lt
    simp only [List.cons_append, unquoteChar]
    rw [readHexN_2]
    have : b.toNat % 256 = b.toNat := by omega
    simp [this]
  · simp [outBytes]

theorem encodeRune_ascii (r : Nat) (h : r < 0x80) : encodeRune r = [UInt8.ofNat r] := by
  simp [encodeRune, h]

theorem qunit_escRune (hi : Nat → Bool) (b : UInt8) (rest : Txt) (r w : Nat) (d : DecOk b rest r w) :
    QUnit (escRune hi r) ((b :: rest).take w) := by
  have hvalid := d.valid
  have hv : r < 0xD800 ∨ (0xE000 ≤ r ∧ r ≤ 0x10FFFF) := by simpa [validRune] using hvalid
  have hb := b.toNat_lt
  unfold escRune
  by_cases hq : r = 34 ∨ r = 92
  · -- quote or backslash
    rw [if_pos hq]
    have hr80 : r < 0x80 := by omega
    rw [d.enc, encodeRune_ascii r hr80]
    rcases hq with rfl | rfl
    · refine ⟨⟨92, _, rfl, by decide, by decide⟩, fun tail => ⟨34, false, by simp [unquoteChar], by simp [outBytes]⟩⟩
    · refine ⟨⟨92, _, rfl, by decide, by decide⟩, fun tail => ⟨92, false, by simp [unquoteChar], by simp [outBytes]⟩⟩
  rw [if_neg hq]
  by_cases hp : isPrint hi r = true
  · -- printable: the raw encoding
    rw [if_pos hp]
    by_cases hr80 : r < 0x80
    · have hp' : 0x20 ≤ r := by
        have : r < 0x100 := by omega
        simp [isPrint, this] at hp
        omega
      rw [d.enc, encodeRune_ascii r hr80]
      have hc : (UInt8.ofNat r).toNat = r := by simp [UInt8.toNat_ofNat']; omega
      refine ⟨⟨UInt8.ofNat r, [], rfl, ?_, ?_⟩, ?_⟩
      · exact ne_of_toNat_ne (by rw [hc]; simp; omega)
      · exact ne_of_toNat_ne (by rw [hc]; simp; omega)
      · intro tail
        refine ⟨r, false, ?_, by simp [outBytes]⟩
        have n34 : UInt8.ofNat r ≠ 34 := ne_of_toNat_ne (by rw [hc]; simp; omega)
        have n92 : UInt8.ofNat r ≠ 92 := ne_of_toNat_ne (by rw [hc]; simp; omega)
        have lt : ¬ (UInt8.ofNat r).toNat ≥ 128 := by rw [hc]; omega
        simp only [List.cons_append, List.nil_append, unquoteChar, n34, n92, hc, if_false, ne_eq, not_false_eq_true, if_true]
        rw [if_neg (by omega)]
    · have hb80 : 0x80 ≤ b.toNat := by
        by_cases hh : b.toNat < 0x80
        · have := (d.ascii hh).1; omega
        · omega
      rw [← d.enc]
      have hw := d.wpos
      obtain ⟨w', rfl⟩ : ∃ w', w = w' + 1 := ⟨w - 1, by omega⟩
      refine ⟨⟨b, rest.take w', by simp [List.take], ?_, ?_⟩, ?_⟩
      · exact ne_of_toNat_ne (by simp; omega)
      · exact ne_of_toNat_ne (by simp; omega)
      · intro tail
        refine ⟨r, true, ?_, ?_⟩
        · have hloc := d.local_ tail
          have hlen := d.len
          simp only [List.take, List.cons_append] at hloc hlen ⊢
          have n34 : b ≠ 34 := ne_of_toNat_ne (by simp; omega)
          have ge : b.toNat ≥ 128 := hb80
          simp only [unquoteChar, n34, ge, if_false, if_true, hloc]
          simp only [List.length_cons] at hlen
          have hl : (List.take w' rest).length = w' := by omega
          have : List.drop (w' + 1) (b :: (List.take w' rest ++ tail)) = tail := by
            simp only [List.drop_succ_cons]
            rw [List.drop_append]
            simp [hl]
          rw [this]
        · have : ¬ (r < 128) := hr80
          have e := d.enc
          simp only [List.take] at e
          simp only [outBytes, this, false_or, Bool.not_true]
          simp [e]
  rw [if_neg hp]
  -- not printable: r is a control character or r ≥ 0x80
  have hsmall : r < 0x80 → r < 0x20 ∨ r = 0x7F := by
    intro h
    have h100 : r < 0x100 := by omega
    simp [isPrint, h100] at hp
    omega
  have ctl : ∀ (letter : UInt8) (v : Nat), r = v → v < 0x80 →
      (∀ tail, unquoteChar (92 :: letter :: tail) = some (v, false, tail)) → QUnit [92, letter] ((b :: rest).take w) := by
    intro letter v hrv hv80 hu
    subst hrv
    rw [d.enc, encodeRune_ascii _ hv80]
    exact ⟨⟨92, _, rfl, by decide, by decide⟩, fun tail => ⟨_, false, hu tail, by simp [outBytes]⟩⟩
  by_cases h7 : r = 7
  · rw [if_pos h7]; exact ctl 97 7 h7 (by decide) (fun tail => by simp [unquoteChar])
  rw [if_neg h7]
  by_cases h8 : r = 8
  · rw [if_pos h8]; exact ctl 98 8 h8 (by decide) (fun tail => by simp [unquoteChar])
  rw [if_neg h8]
  by_cases h12 : r = 12
  · rw [if_pos h12]; exact ctl 102 12 h12 (by decide) (fun tail => by simp [unquoteChar])
  rw [if_neg h12]
  by_cases h10 : r = 10
  · rw [if_pos h10]; exact ctl 110 10 h10 (by decide) (fun tail => by simp [unquoteChar])
  rw [if_neg h10]
  by_cases h13 : r = 13
  · rw [if_pos h13]; exact ctl 114 13 h13 (by decide) (fun tail => by simp [unquoteChar])
  rw [if_neg h13]
  by_cases h9 : r = 9
  · rw [if_pos h9]; exact ctl 116 9 h9 (by decide) (fun tail => by simp [unquoteChar])
  rw [if_neg h9]
  by_cases h11 : r = 11
  · rw [if_pos h11]; exact ctl 118 11 h11 (by decide) (fun tail => by simp [unquoteChar])
  rw [if_neg h11]
  by_cases hx : r < 32 ∨ r = 127
  · -- \xhh
    rw [if_pos hx]
    have hr80 : r < 0x80 := by omega
    rw [d.enc, encodeRune_ascii r hr80]
    refine ⟨⟨92, _, rfl, by decide, by decide⟩, ?_⟩
    intro tail
    refine ⟨r, false, ?_, by simp [outBytes]⟩
    simp only [List.cons_append, unquoteChar]
    rw [readHexN_2]
    have : r % 256 = r := by omega
    simp [this]
  rw [if_neg hx]
  have hr80 : 0x80 ≤ r := by
    by_cases h : r < 0x80
    · have := hsmall h; omega
    · omega
  have hnv : ¬ ((!validRune r) = true) := by simp [hvalid]
  rw [if_neg hnv]
  by_cases hlt : r < 65536
  · -- \uhhhh
    rw [if_pos hlt]
    rw [d.enc]
    refine ⟨⟨92, _, rfl, by decide, by decide⟩, ?_⟩
    intro tail
    refine ⟨r, true, ?_, ?_⟩
    · simp only [List.cons_append, unquoteChar]
      have : r % 65536 = r := by omega
      simp [readHexN_4, this, hvalid]
    · have : ¬ r < 128 := by omega
      simp [outBytes, this]
  · -- \Uhhhhhhhh
    rw [if_neg hlt]
    rw [d.enc]
    refine ⟨⟨92, _, rfl, by decide, by decide⟩, ?_⟩
    intro tail
    refine ⟨r, true, ?_, ?_⟩
    · simp only [List.cons_append, unquoteChar]
      have : r % 4294967296 = r := by omega
      simp [readHexN_8, this, hvalid]
    · have : ¬ r < 128 := by omega
      simp [outBytes, this]

/-- one step of the Unquote loop over a quoted unit -/
theorem unquoteLoop_unit {U orig : Txt} (q : QUnit U orig) (fuel : Nat) (X : Txt) (acc : List UInt8) :
    unquoteLoop (fuel + 1) (U ++ X) acc = unquoteLoop fuel X (acc ++ orig) := by
  obtain ⟨c, U', rfl, n34, n10⟩ := q.ne
  obtain ⟨r, mb, hu, ho⟩ := q.rd X
  simp only [List.cons_append] at hu ⊢
  simp only [unquoteLoop, n34, n10, if_false, hu]
  rw [← ho]
  rfl

theorem quoteBody_nil (hi : Nat → Bool) (f : Nat) : quoteBody hi f [] = [] := by
  cases f <;> rfl

/-- Unquote's loop reads back exactly what Quote's loop wrote -/
theorem unquoteLoop_quoteBody (hi : Nat → Bool) : ∀ (f : Nat) (s : Txt), s.length ≤ f →
    ∀ (tail : Txt) (acc : List UInt8) (fuel : Nat), (quoteBody hi f s).length + 1 ≤ fuel →
    unquoteLoop fuel (quoteBody hi f s ++ 34 :: tail) acc = some (acc ++ s, tail) := by
  intro f
  induction f with
  | zero =>
    intro s hs tail acc fuel hf
    have : s = [] := by cases s <;> simp_all
    subst this
    obtain ⟨fuel', rfl⟩ : ∃ k, fuel = k + 1 := ⟨fuel - 1, by omega⟩
    simp [quoteBody, unquoteLoop]
  | succ f ih =>
    intro s hs tail acc fuel hf
    match s, hs with
    | [], _ =>
      obtain ⟨fuel', rfl⟩ : ∃ k, fuel = k + 1 := ⟨fuel - 1, by omega⟩
      simp [quoteBody, unquoteLoop]
    | b :: rest, hs =>
      obtain ⟨fuel', rfl⟩ : ∃ k, fuel = k + 1 := ⟨fuel - 1, by omega⟩
      rcases hrw : decodeRune (b :: rest) with ⟨r, w⟩
      have hq : quoteBody hi (f + 1) (b :: rest) =
          (if w = 1 ∧ r = runeError
            then 92 :: 120 :: (hex2 b.toNat ++ quoteBody hi f rest)
            else escRune hi r ++ quoteBody hi f ((b :: rest).drop w)) := by
        simp only [quoteBody, hrw]
      rw [hq] at hf ⊢
      by_cases hinv : w = 1 ∧ r = runeError
      · rw [if_pos hinv] at hf ⊢
        have hu := unquoteLoop_unit (qunit_hexbyte b) fuel' (quoteBody hi f rest ++ 34 :: tail) acc
        have e : 92 :: 120 :: (hex2 b.toNat ++ quoteBody hi f rest) ++ 34 :: tail
            = (92 :: 120 :: hex2 b.toNat) ++ (quoteBody hi f rest ++ 34 :: tail) := by simp
        rw [e, hu]
        rw [ih rest (by simpa using hs) tail (acc ++ [b]) fuel' (by simp at hf ⊢; omega)]
        simp
      · rw [if_neg hinv] at hf ⊢
        have d := decodeRune_ok b rest r w hrw hinv
        have hu := unquoteLoop_unit (qunit_escRune hi b rest r w d) fuel'
          (quoteBody hi f ((b :: rest).drop w) ++ 34 :: tail) acc
        rw [List.append_assoc, hu]
        have hw := d.wpos
        have hlen : ((b :: rest).drop w).length ≤ f := by
          simp only [List.length_drop, List.length_cons] at hs ⊢; omega
        obtain ⟨c, U', hU, _, _⟩ := (qunit_escRune hi b rest r w d).ne
        rw [ih _ hlen tail _ fuel' (by rw [hU] at hf; simp at hf ⊢; omega)]
        rw [List.append_assoc, List.take_append_drop]

/-- `strconv.Unquote(strconv.Quote(s)) = s`, for every byte string and every IsPrint table -/
theorem unquote_quote (hi : Nat → Bool) (s : Txt) : unquote (quote hi s) = some s := by
  unfold quote unquote
  simp only
  rw [unquoteLoop_quoteBody hi s.length s (Nat.le_refl _) [] [] _ (by simp)]
  simp

/-! ## Specifier, UnlockKey -/

theorem dropZeros_spec (l : List UInt8) :
    l = List.replicate (l.length - (dropZeros l).length) 0 ++ dropZeros l ∧ (dropZeros l).length ≤ l.length := by
  induction l with
  | nil => simp [dropZeros]
  | cons c cs ih =>
    unfold dropZeros
    split
    · rename_i h0
      subst h0
      obtain ⟨h1, h2⟩ := ih
      refine ⟨?_, by simp; omega⟩
      have : (0 :: cs).length - (dropZeros cs).length = (cs.length - (dropZeros cs).length) + 1 := by
        simp; omega
      rw [this, List.replicate_succ, List.cons_append, ← h1]
    · simp

theorem trimZeros_spec (s : List UInt8) :
    s = trimZeros s ++ List.replicate (s.length - (trimZeros s).length) 0 ∧ (trimZeros s).length ≤ s.length := by
  obtain ⟨h1, h2⟩ := dropZeros_spec s.reverse
  unfold trimZeros
  refine ⟨?_, by simpa using h2⟩
  have := congrArg List.reverse h1
  simp only [List.reverse_reverse, List.reverse_append, List.reverse_replicate, List.length_reverse] at this
  simpa using this

theorem isAlnum_ne_quote {c : UInt8} (h : isAlnum c = true) : c ≠ 34 := by
  apply ne_of_toNat_ne
  simp [isAlnum] at h
  simp; omega

/-- `Specifier`: parse (print s) = s for all byte strings of the specifier's length -/
theorem parseSpec_specString (hi : Nat → Bool) (n : Nat) (s : List UInt8) (hs : s.length = n) :
    parseSpec n (specString hi s) = some s := by
  obtain ⟨h1, h2⟩ := trimZeros_spec s
  have fin : ∀ body, body = some (trimZeros s) →
      (match body with
        | none => none
        | some b => if b.length > n then none else some (b ++ List.replicate (n - b.length) 0)) = some s := by
    intro body hb
    subst hb
    have : ¬ (trimZeros s).length > n := by omega
    simp only [this, if_false]
    rw [← hs, ← h1]
  unfold specString
  simp only
  split
  · rename_i hal
    unfold parseSpec
    apply fin
    match hq : trimZeros s with
    | [] => rfl
    | c :: cs =>
      have : isAlnum c = true := by
        rw [hq] at hal; simp at hal; exact hal.1
      have hne := isAlnum_ne_quote this
      split
      · rename_i x heq
        simp at heq
        exact absurd heq.1 hne
      · rfl
  · unfold parseSpec
    apply fin
    have hq : quote hi (trimZeros s) = 34 :: (quoteBody hi (trimZeros s).length (trimZeros s) ++ [34]) := rfl
    rw [hq]
    simp only
    rw [← hq, unquote_quote]

theorem splitLast_append (c : UInt8) (a b : Txt) (h : ∀ x ∈ b, x ≠ c) :
    splitLast c (a ++ c :: b) = some (a, b) := by
  unfold splitLast
  have : (a ++ c :: b).reverse = b.reverse ++ c :: a.reverse := by simp
  rw [this, splitFirst_append c b.reverse a.reverse (by simpa using h)]
  simp

/-- `UnlockKey`: parse (print k) = k -/
theorem parseUk_ukText (hi : Nat → Bool) (n : Nat) (uk : UnlockKey) (h : uk.alg.length = n) :
    parseUk n (ukText hi uk) = some uk := by
  unfold parseUk ukText
  have hcol : ∀ x ∈ hexEnc uk.key, x ≠ 58 := by
    intro x hx
    have := isHex_range (hexEnc_isHex uk.key x hx)
    exact ne_of_toNat_ne (by simp; omega)
  rw [splitLast_append 58 _ _ hcol]
  simp [parseSpec_specString hi n uk.alg h, hexDec_hexEnc]

end Sia.Text
