import SiaProofs.Lemmas.MerkleRhp
/-!
  Helper lemmas for C16, part 2: trailing zeros, `nextSubtreeSize`, popcount and
  the counting arguments behind `RangeProofSize`.
-/
set_option linter.unusedVariables false
set_option linter.unusedSectionVars false
namespace Sia.Rhp

/-! ### trailing zeros -/

theorem tz_odd {x : Nat} (h : x % 2 = 1) : tz x = 0 := by
  rw [tz]
  have : x ≠ 0 := by omega
  simp [this, h]

theorem tz_even {x : Nat} (h0 : x ≠ 0) (h : x % 2 = 0) : tz x = 1 + tz (x / 2) := by
  rw [tz]
  have : ¬ (x % 2 = 1) := by omega
  simp [h0, this]

theorem two_pow_succ_dvd_iff (k x : Nat) : 2 ^ (k + 1) ∣ x ↔ x % 2 = 0 ∧ 2 ^ k ∣ x / 2 := by
  constructor
  · rintro ⟨c, hc⟩
    have e : x = 2 * (2 ^ k * c) := by rw [hc, two_pow_succ', Nat.mul_assoc]
    constructor
    · rw [e]; exact Nat.mul_mod_right _ _
    · refine ⟨c, ?_⟩
      rw [e]; exact Nat.mul_div_cancel_left _ (by omega)
  · rintro ⟨h2, c, hc⟩
    refine ⟨c, ?_⟩
    have : x = 2 * (x / 2) := by omega
    rw [this, hc, two_pow_succ', Nat.mul_assoc]

theorem pow_dvd_iff_le_tz : ∀ (k x : Nat), x ≠ 0 → (2 ^ k ∣ x ↔ k ≤ tz x) := by
  intro k
  induction k with
  | zero => intro x _; simp
  | succ k ih =>
    intro x hx
    rw [two_pow_succ_dvd_iff]
    by_cases h : x % 2 = 1
    · rw [tz_odd h]; omega
    · have h0 : x % 2 = 0 := by omega
      rw [tz_even hx h0, ih (x / 2) (by omega)]
      omega

theorem tz_dvd {x : Nat} (hx : x ≠ 0) : 2 ^ tz x ∣ x :=
  (pow_dvd_iff_le_tz (tz x) x hx).2 (Nat.le_refl _)

theorem tz_unique {x k : Nat} (hx : x ≠ 0) (h1 : 2 ^ k ∣ x) (h2 : ¬ 2 ^ (k + 1) ∣ x) : tz x = k := by
  have a := (pow_dvd_iff_le_tz k x hx).1 h1
  have b := (pow_dvd_iff_le_tz (k + 1) x hx)
  have : ¬ (k + 1 ≤ tz x) := fun h => h2 (b.2 h)
  omega

theorem tz_two_pow (k : Nat) : tz (2 ^ k) = k := by
  have hp := Nat.two_pow_pos k
  apply tz_unique (by omega) (Nat.dvd_refl _)
  intro h
  have := Nat.le_of_dvd hp h
  rw [two_pow_succ'] at this; omega

theorem two_pow_tz_le {x : Nat} (hx : x ≠ 0) : 2 ^ tz x ≤ x :=
  Nat.le_of_dvd (by omega) (tz_dvd hx)

/-! ### nextSubtreeSize -/

/-- the next subtree is an aligned power of two that stays inside `[i, j)` -/
theorem nss_spec {i j : Nat} (h : i < j) :
    ∃ k, nextSubtreeSize i j = 2 ^ k ∧ 2 ^ k ∣ i ∧ i + 2 ^ k ≤ j := by
  have hd : j - i ≠ 0 := by omega
  have hlog := Nat.log2_self_le hd
  unfold nextSubtreeSize
  simp only
  by_cases h0 : i = 0
  · subst h0
    refine ⟨(j - 0).log2, by simp, Nat.dvd_zero _, ?_⟩
    simp at hlog ⊢; exact hlog
  · by_cases h1 : tz i > (j - i).log2
    · refine ⟨(j - i).log2, by simp [h1], ?_, by omega⟩
      exact Nat.dvd_trans (Nat.pow_dvd_pow 2 (Nat.le_of_lt h1)) (tz_dvd h0)
    · refine ⟨tz i, by simp [h0, h1], tz_dvd h0, ?_⟩
      have : 2 ^ tz i ≤ 2 ^ (j - i).log2 := Nat.pow_le_pow_right (by omega) (by omega)
      omega

/-- far from the right bound the next subtree is exactly `2^tz i` -/
theorem nss_big {i J : Nat} (h0 : 0 < i) (hJ : 2 * i ≤ J) : nextSubtreeSize i J = 2 ^ tz i := by
  have hi : i ≠ 0 := by omega
  have h1 : 2 ^ tz i ≤ J - i := by have := two_pow_tz_le hi; omega
  have h2 : tz i ≤ (J - i).log2 := (Nat.le_log2 (by omega)).2 h1
  unfold nextSubtreeSize
  simp only
  have : ¬ (tz i > (J - i).log2) := by omega
  simp [hi, this]

end Sia.Rhp
