import SiaProofs.Lemmas.LedgerC01Loops
/-!
# C01 helper lemmas, part 3: miner payouts and siafund claims
-/
namespace Sia.Ledger

theorem validateMinerPayouts_ok {L : Ledger} {b : Block} (h : validateMinerPayouts L b = .ok ()) :
    (b.payouts.map (·.2.value)).sum = blockReward L + b.fees1.sum + b.fees2.sum := by
  unfold validateMinerPayouts at h
  simp only [] at h
  split at h
  · cases h
  · split at h
    · rename_i e1 he1
      have h1 := sumChecked_some he1
      simp only [List.sum_cons] at h1
      simp only [pure, Except.pure, bind, Except.bind] at h
      unfold Block.fees2 Block.v2txns Block.fees1
      split at h
      · rename_i x y txns hv2
        split at h
        · rename_i s hs
          have h2 := sumChecked_some hs
          simp only [List.sum_cons] at h2
          split at h
          · cases h
          · split at h
            · cases h
            · split at h
              · cases h
              · rename_i sum hsum
                have h3 := sumChecked_some hsum
                split at h
                · cases h
                · rename_i hne
                  simp only [ne_eq, Decidable.not_not] at hne
                  rw [hv2]; simp only []
                  rw [← h3, hne, h2, h1]
        · cases h
      · rename_i hv2
        split at h
        · cases h
        · split at h
          · cases h
          · rename_i sum hsum
            have h3 := sumChecked_some hsum
            split at h
            · cases h
            · rename_i hne
              simp only [ne_eq, Decidable.not_not] at hne
              rw [hv2]; simp only [List.map_nil, List.sum_nil, Nat.add_zero]
              rw [← h3, hne, h1]
    · cases h

theorem validateOrphan_ok {L : Ledger} {b : Block} (h : validateOrphan L b = .ok ()) :
    validateMinerPayouts L b = .ok () := by
  unfold validateOrphan at h
  simp only [] at h
  split at h <;> split at h <;>
    (rw [bind_eq_ok] at h; obtain ⟨u, hr, _⟩ := h; first | exact hr | cases hr)

/-- `claimPortion` returns exactly the floor share, and only when nothing under/overflows -/
theorem claimPortion_ok {pool cs : Cur} {v : Nat} {c : Cur} :
    claimPortion pool cs v = .ok c ↔
      (cs ≤ pool ∧ (pool - cs) / 10000 * v < curLimit ∧ c = (pool - cs) / 10000 * v) := by
  unfold claimPortion siafundCount
  rw [bind_eq_ok]
  constructor
  · rintro ⟨d, h1, h2⟩
    rw [subC_ok] at h1; rw [mul64C_ok] at h2
    obtain ⟨h1a, rfl⟩ := h1
    exact ⟨h1a, h2.1, h2.2⟩
  · rintro ⟨h1, h2, h3⟩
    exact ⟨pool - cs, subC_ok.mpr ⟨h1, rfl⟩, mul64C_ok.mpr ⟨h2, h3⟩⟩

end Sia.Ledger
