/-
  SiaProofs.Lemmas.MultiproofBits — the numLeaves inference of
  V2TransactionsMultiproof.EncodeTo recovers every proof length in DecodeFrom.
-/
import SiaProofs.Lemmas.UpdateProof
namespace Sia.Multiproof
open Sia.ElemAcc

theorem testBit_clearBits (N h j : Nat) : (clearBits N h).testBit j = (decide (h ≤ j) && N.testBit j) := by
  have e : clearBits N h = 2 ^ h * (N / 2 ^ h) := by
    unfold clearBits
    have := Nat.div_add_mod N (2 ^ h); omega
  rw [e, Nat.testBit_two_pow_mul, Nat.testBit_div_two_pow]
  by_cases hj : h ≤ j
  · have : j - h + h = j := by omega
    simp [hj, this]
  · simp [hj]

/-- the term a leaf of the tree of height `h` contributes is `N` with its low `h` bits cleared -/
theorem term_eq {N h idx : Nat} (hin : InTree N h idx) : clearBits idx h ||| 2 ^ h = clearBits N h := by
  obtain ⟨hbit, hlo, hhi⟩ := hin
  have hdiv : idx / 2 ^ (h + 1) = N / 2 ^ (h + 1) := by
    have := div_eq_of_block (treeStart_dvd N h) hlo (by have := pow_succ2 h; omega)
    rw [this]; unfold treeStart; rw [Nat.mul_div_cancel _ (Nat.two_pow_pos _)]
  apply Nat.eq_of_testBit_eq
  intro j
  rw [Nat.testBit_or, testBit_clearBits, testBit_clearBits, Nat.testBit_two_pow]
  rcases Nat.lt_trichotomy j h with hlt | rfl | hgt
  · have h1 : ¬ (h ≤ j) := by omega
    have h2 : ¬ (h = j) := by omega
    simp [h1, h2]
  · simp [hbit]
  · have h1 : h ≤ j := by omega
    have h2 : ¬ (h = j) := by omega
    have e1 : idx.testBit j = (idx / 2 ^ (h + 1)).testBit (j - (h + 1)) := by
      rw [Nat.testBit_div_two_pow]; congr 1; omega
    have e2 : N.testBit j = (N / 2 ^ (h + 1)).testBit (j - (h + 1)) := by
      rw [Nat.testBit_div_two_pow]; congr 1; omega
    simp [h1, h2, e1, e2, hdiv]

theorem testBit_foldl_or {α : Type} (f : α → Nat) (l : List α) (acc j : Nat) :
    (l.foldl (fun a x => a ||| f x) acc).testBit j = true ↔ acc.testBit j = true ∨ ∃ x ∈ l, (f x).testBit j = true := by
  induction l generalizing acc with
  | nil => simp
  | cons a l ih =>
    simp only [List.foldl_cons]
    rw [ih, Nat.testBit_or]
    simp only [Bool.or_eq_true, List.mem_cons, exists_eq_or_imp]
    tauto

theorem div_eq_of_testBit_ge {A B k : Nat} (h : ∀ j, k ≤ j → A.testBit j = B.testBit j) : A / 2 ^ k = B / 2 ^ k := by
  apply Nat.eq_of_testBit_eq
  intro i
  rw [Nat.testBit_div_two_pow, Nat.testBit_div_two_pow]
  exact h _ (by omega)

/-- **The numLeaves inference recovers every proof length.** For leaves `(idx_i, len_i)`
    of one forest with `N` leaves (`InTree N len_i idx_i`), the value
    `N' = OR_i ((idx_i &^ (2^len_i − 1)) | 2^len_i)` written by the encoder need not be
    `N`, but `idx_i < N'` and `bits.Len64(idx_i ^ N') − 1 = len_i` for every leaf. -/
theorem numLeaves_recovers (N : Nat) {α : Type} (idx len : α → Nat) (leaves : List α)
    (hin : ∀ l ∈ leaves, InTree N (len l) (idx l)) :
    let N' := leaves.foldl (fun acc l => acc ||| (clearBits (idx l) (len l) ||| 2 ^ len l)) 0
    ∀ l ∈ leaves, idx l < N' ∧ bitLen (idx l ^^^ N') - 1 = len l := by
  intro N' l hl
  have hbits : ∀ j, len l ≤ j → N'.testBit j = N.testBit j := by
    intro j hj
    have hiff := testBit_foldl_or (fun l => clearBits (idx l) (len l) ||| 2 ^ len l) leaves 0 j
    cases hN : N.testBit j with
    | true =>
      apply hiff.2
      right
      refine ⟨l, hl, ?_⟩
      rw [term_eq (hin l hl), testBit_clearBits]; simp [hj, hN]
    | false =>
      cases hN' : N'.testBit j with
      | false => rfl
      | true =>
        rcases hiff.1 hN' with h0 | ⟨x, hx, hxb⟩
        · simp at h0
        · rw [term_eq (hin x hx), testBit_clearBits] at hxb
          simp [hN] at hxb
  have hd1 : N' / 2 ^ (len l + 1) = N / 2 ^ (len l + 1) := div_eq_of_testBit_ge (fun j hj => hbits j (by omega))
  obtain ⟨hbit, hlo, hhi⟩ := hin l hl
  have hin' : InTree N' (len l) (idx l) := by
    refine ⟨by rw [hbits _ (Nat.le_refl _)]; exact hbit, ?_, ?_⟩ <;> (unfold treeStart at *; rw [hd1]; assumption)
  refine ⟨inTree_lt hin', ?_⟩
  have := treeHeight_unique hin'
  unfold treeHeight at this
  rw [Nat.xor_comm]; exact this

end Sia.Multiproof
