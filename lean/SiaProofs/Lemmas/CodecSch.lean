import SiaProofs.Lemmas.CodecAtom
/-! Induction lemmas over schemas (helpers for C11 / C10-decode). -/
namespace Sia.Codec

/-- every hand-modelled codec of the environment satisfies the leaf laws -/
def EnvOK (E : Env) : Prop := ∀ n, CodecOK (E.ext n)

theorem Env.default_ok : EnvOK Env.default := fun _ => Codec.unsupported_ok

/-! ### element loops -/

theorem encList_length_ge {g : Val → Bytes} {vs : List Val}
    (h : ∀ v ∈ vs, 1 ≤ (g v).length) : vs.length ≤ (encList g vs).length := by
  induction vs with
  | nil => simp [encList]
  | cons v vs ih =>
    have h1 := h v (by simp)
    have h2 := ih (fun w hw => h w (by simp [hw]))
    simp [encList]; omega

theorem decRep_roundtrip {f : Bytes → DecRes} {g : Val → Bytes} {vs : List Val}
    (h : ∀ v ∈ vs, ∀ rest, f (g v ++ rest) = .ok (v, rest)) (rest : Bytes) :
    decRep f vs.length (encList g vs ++ rest) = .ok (vs, rest) := by
  induction vs with
  | nil => simp [decRep, encList]
  | cons v vs ih =>
    simp only [List.length_cons, decRep, encList, List.append_assoc]
    rw [h v (by simp)]
    simp only
    rw [ih (fun w hw => h w (by simp [hw]))]

theorem decRep_trunc {f : Bytes → DecRes} {g : Val → Bytes} {vs : List Val}
    (hrt : ∀ v ∈ vs, ∀ rest, f (g v ++ rest) = .ok (v, rest))
    (htr : ∀ v ∈ vs, ∀ p q, p ++ q = g v → q ≠ [] → ∃ e, f p = .error e)
    {p q : Bytes} (h : p ++ q = encList g vs) (hq : q ≠ []) :
    ∃ e, decRep f vs.length p = .error e := by
  induction vs generalizing p with
  | nil => simp [encList] at h; exact absurd h.2 hq
  | cons v vs ih =>
    simp only [encList] at h
    simp only [List.length_cons, decRep]
    rcases prefix_split h with ⟨q', h1, hq'⟩ | ⟨p', h1, h2⟩
    · obtain ⟨e, he⟩ := htr v (by simp) p q' h1 hq'
      rw [he]; exact ⟨_, rfl⟩
    · subst h1
      rw [hrt v (by simp)]
      simp only
      obtain ⟨e, he⟩ := ih (fun w hw => hrt w (by simp [hw])) (fun w hw => htr w (by simp [hw])) h2
      rw [he]; exact ⟨_, rfl⟩

theorem decRep_sound {f : Bytes → DecRes} {P : Val → Prop}
    (hf : ∀ bs v r, f bs = .ok (v, r) → P v ∧ ∃ cs, bs = cs ++ r)
    {n : Nat} {bs rest : Bytes} {vs : List Val} (h : decRep f n bs = .ok (vs, rest)) :
    vs.length = n ∧ (∀ v ∈ vs, P v) ∧ ∃ cs, bs = cs ++ rest := by
  induction n generalizing bs vs with
  | zero =>
    simp only [decRep] at h
    injection h with h; injection h with e1 e2; subst e1; subst e2
    exact ⟨rfl, by simp, [], rfl⟩
  | succ n ih =>
    simp only [decRep] at h
    split at h
    · rename_i v bs1 h1
      split at h
      · rename_i vs' bs2 h2
        injection h with h; injection h with e1 e2; subst e1; subst e2
        obtain ⟨hp, c1, hc1⟩ := hf _ _ _ h1
        obtain ⟨hl, hall, c2, hc2⟩ := ih h2
        refine ⟨by simp [hl], ?_, c1 ++ c2, by rw [hc1, hc2]; simp⟩
        intro w hw
        rcases List.mem_cons.mp hw with rfl | hw
        · exact hp
        · exact hall w hw
      · cases h
    · cases h

theorem decRep_enc {f : Bytes → DecRes} {g : Val → Bytes}
    (hf : ∀ bs v r, f bs = .ok (v, r) → g v ++ r = bs)
    {n : Nat} {bs rest : Bytes} {vs : List Val} (h : decRep f n bs = .ok (vs, rest)) :
    encList g vs ++ rest = bs := by
  induction n generalizing bs vs with
  | zero =>
    simp only [decRep] at h
    injection h with h; injection h with e1 e2; subst e1; subst e2
    rfl
  | succ n ih =>
    simp only [decRep] at h
    split at h
    · rename_i v bs1 h1
      split at h
      · rename_i vs' bs2 h2
        injection h with h; injection h with e1 e2; subst e1; subst e2
        simp only [encList, List.append_assoc]
        rw [ih h2, hf _ _ _ h1]
      · cases h
    · cases h

theorem decRep_mono {f f' : Bytes → DecRes}
    (hf : ∀ bs r, f bs = .ok r → f' bs = .ok r)
    {n : Nat} {bs : Bytes} {r : List Val × Bytes} (h : decRep f n bs = .ok r) :
    decRep f' n bs = .ok r := by
  induction n generalizing bs r with
  | zero => simpa [decRep] using h
  | succ n ih =>
    simp only [decRep] at h ⊢
    split at h
    · rename_i v bs1 h1
      rw [hf _ _ h1]
      simp only
      split at h
      · rename_i vs' bs2 h2
        rw [ih h2]; exact h
      · cases h
    · cases h

theorem decRep_error {f : Bytes → DecRes} {n : Nat} {bs : Bytes} {e : DecErr}
    (h : decRep f n bs = .error e) : ∃ bs', f bs' = .error e := by
  induction n generalizing bs with
  | zero => simp [decRep] at h
  | succ n ih =>
    simp only [decRep] at h
    split at h
    · split at h
      · cases h
      · rename_i e' h2; injection h with h; subst h; exact ih h2
    · rename_i e' h1; injection h with h; subst h; exact ⟨_, h1⟩

end Sia.Codec
