import SiaProofs.Lemmas.LedgerC02Apply
/-!
# `validateBlock` and `midApplyBlock` as folds over the block's transactions
-/
namespace Sia.Ledger

def Block.txns2 (b : Block) : List Txn2 := match b.v2 with | some (_, _, txns) => txns | none => []
def Block.commitOk (b : Block) : Bool := match b.v2 with | some (_, c, _) => c | none => true

/-- validate a v1 transaction against the running mid-state, then apply it -/
def vb1Step (pid mw : Nat) (s : Mid) (t : Txn1) : VM Mid :=
  validateTransaction s t pid mw >>= fun _ => applyTransaction s t
def vb2Step (mw : Nat) (s : Mid) (t : Txn2) : VM Mid :=
  validateV2Transaction s t mw >>= fun _ => applyV2Transaction s t

theorem validateBlock_eq (L : Ledger) (b : Block) (pid : Id) :
    validateBlock L b pid = (do
      validateOrphan L b
      validateSupplement L b
      if ¬ b.commitOk then reject "commitment hash mismatch"
      else do
        let s ← b.txns1.foldlM (vb1Step pid b.maxWeight) (newMid L)
        b.txns2.foldlM (vb2Step b.maxWeight) s) := by
  unfold validateBlock Block.txns2 Block.commitOk
  simp only [← forIn_eq_foldlM]
  refine bind_congr' rfl (fun _ => bind_congr' rfl (fun _ => ?_))
  rcases hb : b.v2 with _ | ⟨h, c, txns⟩
  · simp only [vb1Step, vb2Step, bind_assoc, not_true_eq_false, if_false, List.forIn_nil, bind_pure]
  · cases c
    · simp [reject_bind]
    · simp only [vb1Step, vb2Step, bind_assoc, not_true_eq_false, if_false, bind_pure]

-- ================================================================= the supplement check

/-- the per-transaction body of `validateSupplement` -/
def suppStep (L : Ledger) (t : Txn1) : VM Unit :=
  if ¬ t.supp.scIns.all L.hasSc then reject "siacoin element is not present in the accumulator"
  else if ¬ t.supp.sfIns.all L.hasSf then reject "siafund element is not present in the accumulator"
  else if ¬ t.supp.revised.all L.hasFc1 then reject "revised file contract is not present in the accumulator"
  else if ¬ t.supp.proofs.all (fun p => L.hasFc1 p.1) then reject "valid file contract is not present in the accumulator"
  else pure ()

theorem validateSupplement_eq (L : Ledger) (b : Block) :
    validateSupplement L b =
      (if L.child ≥ L.P.v2Require ∧ (b.txns1.length ≠ 0 ∨ b.expiring.length ≠ 0) then
        reject "v1 block supplements are not allowed after v2 hardfork is complete"
      else if ¬ b.suppLenOk then reject "incorrect number of transactions"
      else do
        forIn b.txns1 PUnit.unit (fun t _ => suppStep L t >>= fun _ => pure (ForInStep.yield PUnit.unit))
        if ¬ b.expiring.all (fun p => L.hasFc1 p.1) then reject "expiring file contract is not present in the accumulator"
        else pure ()) := by
  unfold validateSupplement
  simp only [reject_bind]
  congr 1
  congr 1
  refine bind_congr' ?_ (fun _ => rfl)
  congr 1; funext t _
  unfold suppStep
  simp only [ite_bind', reject_bind, pure_bind]

/-- every element record of an accepted supplement is an element of the ledger -/
structure SuppRules (L : Ledger) (b : Block) : Prop where
  era : ¬ (L.child ≥ L.P.v2Require ∧ (b.txns1.length ≠ 0 ∨ b.expiring.length ≠ 0))
  len : b.suppLenOk = true
  sc : ∀ t ∈ b.txns1, ∀ e ∈ t.supp.scIns, e ∈ L.sc
  sf : ∀ t ∈ b.txns1, ∀ e ∈ t.supp.sfIns, e ∈ L.sf
  revised : ∀ t ∈ b.txns1, ∀ e ∈ t.supp.revised, e ∈ L.fc1
  proofs : ∀ t ∈ b.txns1, ∀ p ∈ t.supp.proofs, p.1 ∈ L.fc1
  expiring : ∀ p ∈ b.expiring, p.1 ∈ L.fc1

theorem suppStep_ok_iff (L : Ledger) (t : Txn1) : suppStep L t = .ok () ↔
    ((∀ e ∈ t.supp.scIns, e ∈ L.sc) ∧ (∀ e ∈ t.supp.sfIns, e ∈ L.sf) ∧ (∀ e ∈ t.supp.revised, e ∈ L.fc1) ∧
      (∀ p ∈ t.supp.proofs, p.1 ∈ L.fc1)) := by
  unfold suppStep
  simp only [ite_reject_ok_iff, Decidable.not_not, pure_eq_ok, and_true, List.all_eq_true,
    Ledger.hasSc, Ledger.hasSf, Ledger.hasFc1, List.contains_iff_mem]

theorem validateSupplement_ok_iff (L : Ledger) (b : Block) : validateSupplement L b = .ok () ↔ SuppRules L b := by
  rw [validateSupplement_eq, ite_reject_ok_iff, ite_reject_ok_iff, bind_unit_ok_iff, forIn_step_ok_iff, ite_reject_ok_iff]
  simp only [suppStep_ok_iff, Decidable.not_not, pure_eq_ok, and_true, List.all_eq_true, Ledger.hasFc1,
    List.contains_iff_mem]
  constructor
  · rintro ⟨h0, hl, h1, h2⟩
    exact ⟨h0, hl, fun t ht => (h1 t ht).1, fun t ht => (h1 t ht).2.1, fun t ht => (h1 t ht).2.2.1,
      fun t ht => (h1 t ht).2.2.2, h2⟩
  · rintro ⟨h0, hl, h1, h2, h3, h4, h5⟩
    exact ⟨h0, hl, fun t ht => ⟨h1 t ht, h2 t ht, h3 t ht, h4 t ht⟩, h5⟩

theorem validateSupplement_noPanic (L : Ledger) (b : Block) : NoPanic (validateSupplement L b) := by
  rw [validateSupplement_eq]
  split
  · simp
  split
  · simp
  refine bind_noPanic (forIn_step_noPanic _ (fun t => ?_) _) (fun _ _ => ?_)
  · unfold suppStep
    repeat' split
    all_goals simp
  · split <;> simp

-- ================================================================= accepted blocks never repeat a consumed id

/-- Folding steps over a list where each accepted step consumes `keys x`: all of them fresh with
respect to `spends`, pairwise distinct, and recorded in `spends` afterwards.  Then the ids consumed
by the whole fold are pairwise distinct and all recorded. -/
theorem foldlM_keys_nodup {α} {step : Mid → α → VM Mid} (keys : α → List Id)
    (h : ∀ s x s', step s x = .ok s' →
      (keys x).Nodup ∧ (∀ k ∈ keys x, k ∉ s.spends) ∧ (∀ k ∈ s.spends, k ∈ s'.spends) ∧ (∀ k ∈ keys x, k ∈ s'.spends))
    (l : List α) (s s' : Mid) (prev : List Id) (hprev : prev.Nodup ∧ ∀ k ∈ prev, k ∈ s.spends)
    (hf : l.foldlM step s = .ok s') :
    (prev ++ (l.map keys).flatten).Nodup ∧ (∀ k ∈ prev ++ (l.map keys).flatten, k ∈ s'.spends) ∧
      (∀ k ∈ s.spends, k ∈ s'.spends) := by
  induction l generalizing s prev with
  | nil =>
    simp at hf; subst hf
    simpa using ⟨hprev.1, hprev.2⟩
  | cons a l ih =>
    rw [List.foldlM_cons] at hf
    obtain ⟨s1, h1, h2⟩ := bind_ok_iff.1 hf
    obtain ⟨k1, k2, k3, k4⟩ := h s a s1 h1
    have hprev' : (prev ++ keys a).Nodup ∧ ∀ k ∈ prev ++ keys a, k ∈ s1.spends := by
      refine ⟨List.nodup_append.2 ⟨hprev.1, k1, ?_⟩, ?_⟩
      · intro x hx y hy hxy
        subst hxy
        exact k2 x hy (hprev.2 x hx)
      · intro k hk
        rcases List.mem_append.1 hk with hk | hk
        · exact k3 k (hprev.2 k hk)
        · exact k4 k hk
    obtain ⟨r1, r2, r3⟩ := ih s1 (prev ++ keys a) hprev' h2
    simp only [List.map_cons, List.flatten_cons, ← List.append_assoc]
    exact ⟨r1, r2, fun k hk => r3 k (k3 k hk)⟩

end Sia.Ledger
