import SiaProofs.Lemmas.LedgerC01V1
/-!
# C01 helper lemmas, part 11b: steps that do not touch siafund elements
-/
namespace Sia.Ledger

/-- same siafund diffs over the same base ledger -/
def SfSame (ms ms' : Mid) : Prop := ms'.sfes = ms.sfes ∧ ms'.base = ms.base

theorem SfSame.refl (ms : Mid) : SfSame ms ms := ⟨rfl, rfl⟩
theorem SfSame.trans {a b c : Mid} (h1 : SfSame a b) (h2 : SfSame b c) : SfSame a c :=
  ⟨h2.1.trans h1.1, h2.2.trans h1.2⟩

theorem SfSame.sfW {ms ms' : Mid} (h : SfSame ms ms') (w : SfElem → Nat) : sfW w ms' = sfW w ms :=
  sfW_congr w h.2 h.1

theorem foldlM_sfSame {α : Type} (f : Mid → α → VM Mid) (hstep : ∀ b a b', f b a = .ok b' → SfSame b b') :
    ∀ (l : List α) (b b' : Mid), l.foldlM f b = .ok b' → SfSame b b' := by
  intro l
  induction l with
  | nil => intro b b' h; simp only [List.foldlM_nil] at h; cases h; exact SfSame.refl _
  | cons a l ih =>
    intro b b' h
    rw [List.foldlM_cons, bind_eq_ok] at h
    obtain ⟨b1, h1, h2⟩ := h
    exact (hstep _ _ _ h1).trans (ih _ _ h2)

theorem sfSame_putSc (ms : Mid) (id : Id) (f : ScDiff → ScDiff) : SfSame ms (ms.putSc id f) :=
  ⟨putSc_sfes _ _ _, putSc_base_c1 _ _ _⟩
theorem sfSame_putFc1 (ms : Mid) (id : Id) (f : Fc1Diff → Fc1Diff) : SfSame ms (ms.putFc1 id f) :=
  ⟨putFc1_sfes _ _ _, putFc1_base_c1 _ _ _⟩
theorem sfSame_putFc2 (ms : Mid) (id : Id) (f : Fc2Diff → Fc2Diff) : SfSame ms (ms.putFc2 id f) :=
  ⟨putFc2_sfes _ _ _, putFc2_base_c1 _ _ _⟩

theorem sfSame_spendSc (ms : Mid) (e : ScElem) : SfSame ms (ms.spendSc e) := by
  unfold Mid.spendSc; exact ⟨putSc_sfes _ _ _, putSc_base_c1 _ _ _⟩
theorem sfSame_createSc (ms : Mid) (id : Id) (o : ScOut) (m : Nat) : SfSame ms (ms.createSc id o m) := by
  unfold Mid.createSc; exact sfSame_putSc _ _ _
theorem sfSame_createImmatureSc (ms : Mid) (id : Id) (o : ScOut) : SfSame ms (ms.createImmatureSc id o) := by
  unfold Mid.createImmatureSc; exact sfSame_createSc _ _ _ _

theorem sfSame_payOuts (l : List (ScOut × Id)) : ∀ ms : Mid, SfSame ms (payOuts ms l) := by
  induction l with
  | nil => intro ms; exact SfSame.refl _
  | cons a l ih =>
    intro ms
    unfold payOuts; simp only [List.foldl_cons]
    exact (sfSame_createImmatureSc ms a.2 a.1).trans (ih _)

theorem sfSame_createFc1 {ms ms' : Mid} {id : Id} {fc : Fc1} (h : ms.createFc1 id fc = .ok ms') : SfSame ms ms' := by
  unfold Mid.createFc1 at h; simp only [] at h
  rw [bind_eq_ok] at h; obtain ⟨p, _, h⟩ := h
  cases h; exact ⟨putFc1_sfes _ _ _, putFc1_base_c1 _ _ _⟩

theorem sfSame_createFc2 {ms ms' : Mid} {id : Id} {fc : Fc2} (h : ms.createFc2 id fc = .ok ms') : SfSame ms ms' := by
  unfold Mid.createFc2 at h; simp only [] at h
  rw [bind_eq_ok] at h; obtain ⟨t, _, h⟩ := h
  rw [bind_eq_ok] at h; obtain ⟨p, _, h⟩ := h
  cases h; exact ⟨putFc2_sfes _ _ _, putFc2_base_c1 _ _ _⟩

theorem sfSame_reviseFc1 (ms : Mid) (e : Fc1Elem) (rev : Fc1) : SfSame ms (ms.reviseFc1 e rev) := by
  unfold Mid.reviseFc1; exact sfSame_putFc1 _ _ _
theorem sfSame_reviseFc2 (ms : Mid) (e : Fc2Elem) (rev : Fc2) : SfSame ms (ms.reviseFc2 e rev) := by
  unfold Mid.reviseFc2; exact sfSame_putFc2 _ _ _
theorem sfSame_resolveFc1 (ms : Mid) (e : Fc1Elem) (v : Bool) : SfSame ms (ms.resolveFc1 e v) := by
  unfold Mid.resolveFc1; exact ⟨putFc1_sfes _ _ _, putFc1_base_c1 _ _ _⟩
theorem sfSame_resolveFc2 {ms ms' : Mid} {e : Fc2Elem} {k : ResKind} (h : ms.resolveFc2 e k = .ok ms') : SfSame ms ms' := by
  unfold Mid.resolveFc2 at h
  split at h
  · split at h
    · cases h
    · cases h; exact ⟨putFc2_sfes _ _ _, putFc2_base_c1 _ _ _⟩
  · cases h; exact ⟨putFc2_sfes _ _ _, putFc2_base_c1 _ _ _⟩

theorem sfSame_stepRes2 {ms ms' : Mid} {r : Resolution2} (h : stepRes2 ms r = .ok ms') : SfSame ms ms' := by
  unfold stepRes2 at h
  cases hres : r.res with
  | renewal rn =>
    rw [hres] at h; simp only [] at h
    rw [bind_eq_ok] at h; obtain ⟨m1, h1, h⟩ := h
    rw [bind_eq_ok] at h; obtain ⟨m2, h2, h⟩ := h
    cases h
    exact (sfSame_resolveFc2 h1).trans ((sfSame_createFc2 h2).trans
      ((sfSame_createImmatureSc _ _ _).trans (sfSame_createImmatureSc _ _ _)))
  | proof a b c d =>
    rw [hres] at h; simp only [] at h
    rw [bind_eq_ok] at h; obtain ⟨m1, h1, h⟩ := h
    cases h
    exact (sfSame_resolveFc2 h1).trans ((sfSame_createImmatureSc _ _ _).trans (sfSame_createImmatureSc _ _ _))
  | expiration =>
    rw [hres] at h; simp only [] at h
    rw [bind_eq_ok] at h; obtain ⟨m1, h1, h⟩ := h
    cases h
    exact (sfSame_resolveFc2 h1).trans ((sfSame_createImmatureSc _ _ _).trans (sfSame_createImmatureSc _ _ _))

theorem sfSame_scIns2 {l : List ScIn2} {ms ms' : Mid} (h : l.foldlM stepScIn2 ms = .ok ms') : SfSame ms ms' :=
  foldlM_sfSame _ (fun b a b' hh => by cases hh; exact sfSame_spendSc _ _) _ _ _ h
theorem sfSame_scOuts {l : List (Id × ScOut)} {ms ms' : Mid} (h : l.foldlM stepScOut ms = .ok ms') : SfSame ms ms' :=
  foldlM_sfSame _ (fun b a b' hh => by cases hh; exact sfSame_createSc _ _ _ _) _ _ _ h
theorem sfSame_fcs2 {l : List (Id × Fc2 × Bool)} {ms ms' : Mid} (h : l.foldlM stepFc2 ms = .ok ms') : SfSame ms ms' :=
  foldlM_sfSame _ (fun b a b' hh => sfSame_createFc2 hh) _ _ _ h
theorem sfSame_revs2 {l : List Rev2} {ms ms' : Mid} (h : l.foldlM stepRev2 ms = .ok ms') : SfSame ms ms' :=
  foldlM_sfSame _ (fun b a b' hh => by cases hh; exact sfSame_reviseFc2 _ _ _) _ _ _ h
theorem sfSame_ress2 {l : List Resolution2} {ms ms' : Mid} (h : l.foldlM stepRes2 ms = .ok ms') : SfSame ms ms' :=
  foldlM_sfSame _ (fun b a b' hh => sfSame_stepRes2 hh) _ _ _ h

theorem sfSame_scIns1 {supp : Supp1} {l : List ScIn1} {ms ms' : Mid} (h : l.foldlM (stepScIn1 supp) ms = .ok ms') :
    SfSame ms ms' :=
  foldlM_sfSame _ (fun b a b' hh => by
    unfold stepScIn1 at hh
    split at hh
    · cases hh
    · cases hh; exact sfSame_spendSc _ _) _ _ _ h
theorem sfSame_fcs1 {l : List (Id × Fc1)} {ms ms' : Mid} (h : l.foldlM stepFc1 ms = .ok ms') : SfSame ms ms' :=
  foldlM_sfSame _ (fun b a b' hh => sfSame_createFc1 hh) _ _ _ h
theorem sfSame_revs1 {supp : Supp1} {l : List Rev1} {ms ms' : Mid} (h : l.foldlM (stepRev1 supp) ms = .ok ms') :
    SfSame ms ms' :=
  foldlM_sfSame _ (fun b a b' hh => by
    unfold stepRev1 at hh
    split at hh
    · cases hh
    · cases hh; exact sfSame_reviseFc1 _ _ _) _ _ _ h
theorem sfSame_proofs1 {supp : Supp1} {l : List Proof1} {ms ms' : Mid} (h : l.foldlM (stepProof1 supp) ms = .ok ms') :
    SfSame ms ms' :=
  foldlM_sfSame _ (fun b a b' hh => by
    unfold stepProof1 at hh
    split at hh
    · cases hh
    · cases hh; exact (sfSame_resolveFc1 _ _ _).trans (sfSame_payOuts _ _)) _ _ _ h
theorem sfSame_payouts {l : List (Id × ScOut)} {ms ms' : Mid} (h : l.foldlM stepPayout ms = .ok ms') : SfSame ms ms' :=
  foldlM_sfSame _ (fun b a b' hh => by cases hh; exact sfSame_createImmatureSc _ _ _) _ _ _ h
theorem sfSame_expiring {l : List (Fc1Elem × List Id)} {ms ms' : Mid} (h : l.foldlM stepExpire ms = .ok ms') :
    SfSame ms ms' :=
  foldlM_sfSame _ (fun b a b' hh => by
    unfold stepExpire at hh; cases hh
    split
    · exact SfSame.refl _
    · exact (sfSame_resolveFc1 _ _ _).trans (sfSame_payOuts _ _)) _ _ _ h
theorem sfSame_subsidy (ms : Mid) (b : Block) (sub : Option ScOut) : SfSame ms (applySubsidy ms b sub) := by
  unfold applySubsidy; cases sub with
  | none => exact SfSame.refl _
  | some o => exact sfSame_createImmatureSc _ _ _

/-- with the siafund elements fixed, raising the pool by `D` raises `Psi` by `D · sfTot` and keeps `CsOk` -/
theorem Psi_shift {ms ms' : Mid} (h : SfSame ms ms') (D : Nat) (hp : ms'.pool = ms.pool + D) (hcs : CsOk ms) :
    Psi ms' = Psi ms + D * sfTot ms ∧ CsOk ms' := by
  unfold Psi CsOk at *
  rw [hp, h.sfW, h.sfW, sfTot_eq_sfW]
  exact sfW_pool_shift ms ms.pool D hcs

theorem sum_map_zero {α : Type} (l : List α) (f : α → Nat) (h : ∀ x ∈ l, f x = 0) : (l.map f).sum = 0 := by
  induction l with
  | nil => rfl
  | cons a l ih =>
    simp only [List.map_cons, List.sum_cons]
    rw [h a List.mem_cons_self, ih (fun x hx => h x (List.mem_cons_of_mem _ hx))]

/-- the siafund-input stage: live weight drops by the weight of what was spent -/
theorem Psi_spend_stage {ms2 ms3 : Mid} (p : Cur) (hp2 : ms2.pool = p) (hp3 : ms3.pool = p)
    (g : (SfElem → Nat) → Nat) (hW : ∀ w, sfW w ms3 + g w = sfW w ms2) (hcs : CsOk ms2) :
    CsOk ms3 ∧ Psi ms3 + g (psiW p) = Psi ms2 := by
  unfold CsOk Psi at *
  rw [hp2] at hcs
  rw [hp3, hp2]
  have h1 := hW (csBad p)
  exact ⟨by omega, hW (psiW p)⟩

/-- the siafund-output stage: new elements start with nothing to claim -/
theorem Psi_create_stage {ms3 ms4 : Mid} (p : Cur) (hp3 : ms3.pool = p) (hp4 : ms4.pool = p)
    (news : List SfElem) (hnew : ∀ o ∈ news, o.claimStart = p)
    (hW : ∀ w, sfW w ms4 = sfW w ms3 + (news.map w).sum) (hcs : CsOk ms3) :
    CsOk ms4 ∧ Psi ms4 = Psi ms3 := by
  unfold CsOk Psi at *
  rw [hp3] at hcs
  rw [hp4, hp3]
  have z1 : (news.map (csBad p)).sum = 0 := by
    apply sum_map_zero
    intro o ho
    unfold csBad; rw [hnew o ho]; simp
  have z2 : (news.map (psiW p)).sum = 0 := by
    apply sum_map_zero
    intro o ho
    unfold psiW; rw [hnew o ho]; simp
  exact ⟨by rw [hW, hcs, z1], by rw [hW, z2]; rfl⟩

theorem claimVal_le_psiW (p cs : Cur) (v : Nat) : 10000 * claimVal p cs v ≤ v * (p - cs) := by
  unfold claimVal
  have := Nat.div_mul_le_self (p - cs) 10000
  calc 10000 * ((p - cs) / 10000 * v) = ((p - cs) / 10000 * 10000) * v := by
        rw [Nat.mul_comm 10000, Nat.mul_assoc, Nat.mul_comm v, ← Nat.mul_assoc]
    _ ≤ (p - cs) * v := Nat.mul_le_mul_right v this
    _ = v * (p - cs) := Nat.mul_comm _ _

theorem sum_scaled_le {α : Type} (l : List α) (f g : α → Nat) (c : Nat) (h : ∀ x ∈ l, c * f x ≤ g x) :
    c * (l.map f).sum ≤ (l.map g).sum := by
  induction l with
  | nil => simp
  | cons a l ih =>
    simp only [List.map_cons, List.sum_cons, Nat.mul_add]
    have := h a List.mem_cons_self
    have := ih (fun x hx => h x (List.mem_cons_of_mem _ hx))
    omega

end Sia.Ledger
