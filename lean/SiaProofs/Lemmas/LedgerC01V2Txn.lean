import SiaProofs.Lemmas.LedgerC01V2Val
import SiaProofs.Lemmas.LedgerC01SolvFrame
/-!
# C01 helper lemmas, part 10: one v2 transaction conserves value
-/
namespace Sia.Ledger

theorem isSpent_of_mem {ms : Mid} {id : Id} (h : id ∈ ms.spends) : ms.isSpent id = true := by
  unfold Mid.isSpent; exact List.contains_iff_mem.mpr h

/-- a base siacoin element that has not been spent in the block has no diff -/
theorem scDiff?_none_of_base {T} {ms : Mid} (hI : Inv T ms) {e : ScElem} (he : e ∈ ms.base.sc)
    (hs : ms.isSpent e.id = false) : ms.scDiff? e.id = none := by
  cases hv : ms.scDiff? e.id with
  | none => rfl
  | some d =>
    obtain ⟨hm, hid⟩ := scDiff?_mem hv
    have hd := hI.sc d hm
    have hb : d.e.id ∈ baseIds ms.base Kind.sc := by rw [hid]; exact List.mem_map_of_mem he
    cases hcd : d.created with
    | true => exact absurd hb (hd.1 hcd)
    | false =>
      have := isSpent_of_mem (hd.2.2 (hd.2.1 hcd).1)
      rw [hid, hs] at this; cases this

theorem sfDiff?_none_of_base {T} {ms : Mid} (hI : Inv T ms) {e : SfElem} (he : e ∈ ms.base.sf)
    (hs : ms.isSpent e.id = false) : ms.sfDiff? e.id = none := by
  cases hv : ms.sfDiff? e.id with
  | none => rfl
  | some d =>
    obtain ⟨hm, hid⟩ := sfDiff?_mem hv
    have hd := hI.sf d hm
    have hb : d.e.id ∈ baseIds ms.base Kind.sf := by rw [hid]; exact List.mem_map_of_mem he
    cases hcd : d.created with
    | true => exact absurd hb (hd.1 hcd)
    | false =>
      have := isSpent_of_mem (hd.2.2 (hd.2.1 hcd).1)
      rw [hid, hs] at this; cases this

theorem spendable_of_ScIn2Ok {T} {ms : Mid} (hc : Ctx T ms.base) (hI : Inv T ms)
    (hfix : ms.base.child ≥ ms.base.P.ephemeralFix) {sci : ScIn2} (h : ScIn2Ok ms sci) :
    SpendableSc T ms sci.parent := by
  obtain ⟨hs, _, hl⟩ := h
  cases hleaf : sci.parent.leaf with
  | some v =>
    rw [hleaf] at hl; simp only [] at hl
    have he : sci.parent ∈ ms.base.sc := by unfold Ledger.hasSc at hl; exact List.contains_iff_mem.mp hl
    refine ⟨hc.base Kind.sc _ (List.mem_map_of_mem he), ?_⟩
    rw [scDiff?_none_of_base hI he hs]; exact he
  | none =>
    rw [hleaf] at hl; simp only [] at hl
    unfold validateEphemeralSc at hl
    split at hl
    · cases hl
    · rename_i j hj
      split at hl
      · cases hl
      · rename_i hc1
        split at hl
        · rename_i hlt; exact absurd hfix (Nat.not_le_of_lt hlt)
        · simp only [] at hl
          split at hl
          · cases hl
          · rename_i hid
            split at hl
            · cases hl
            · rename_i hva
              have hmat : sci.parent.maturity = (ms.sces.getD j default).e.maturity := by
                split at hl
                · cases hl
                · rename_i hm; exact Decidable.not_not.mp hm
              have hjlt : j < ms.sces.length := by
                rcases Nat.lt_or_ge j ms.sces.length with h | h
                · exact h
                · exact absurd (Or.inl h) hc1
              have hgd : ms.sces.getD j default = ms.sces[j] := by
                rw [List.getD_eq_getElem?_getD, List.getElem?_eq_getElem hjlt]; rfl
              rw [hgd] at hc1 hid hva hmat
              have hid' : ms.sces[j].e.id = sci.parent.id := by
                have : ¬ sci.parent.id ≠ ms.sces[j].e.id := hid
                exact (Decidable.not_not.mp this).symm
              have hmem : ms.sces[j] ∈ ms.sces := List.getElem_mem hjlt
              have hv : ms.scDiff? sci.parent.id = some ms.sces[j] := by
                rw [scDiff?_eq, hj]; simp [hjlt, hid']
              have hT : T Kind.sc sci.parent.id := by
                apply hI.struct.typed Kind.sc
                show sci.parent.id ∈ ms.sces.map (·.e.id)
                rw [← hid']; exact List.mem_map_of_mem hmem
              refine ⟨hT, ?_⟩
              rw [hv]; simp only []
              constructor
              · cases hsp : ms.sces[j].spent with
                | false => rfl
                | true =>
                  have := isSpent_of_mem ((hI.sc _ hmem).2.2 hsp)
                  rw [hid', hs] at this; cases this
              · have : ¬ (sci.parent.value ≠ ms.sces[j].e.value ∨ sci.parent.addr ≠ ms.sces[j].e.addr) := hva
                have h1 : ¬ sci.parent.value ≠ ms.sces[j].e.value := fun hh => this (Or.inl hh)
                exact ⟨(Decidable.not_not.mp h1).symm, hmat.symm⟩

theorem spendable_of_SfIn2Ok {T} {ms : Mid} (hc : Ctx T ms.base) (hI : Inv T ms)
    (hfix : ms.base.child ≥ ms.base.P.ephemeralFix) {sfi : SfIn2} (h : SfIn2Ok ms sfi) :
    SpendableSf T ms sfi.parent := by
  obtain ⟨hs, hl⟩ := h
  cases hleaf : sfi.parent.leaf with
  | some v =>
    rw [hleaf] at hl; simp only [] at hl
    have he : sfi.parent ∈ ms.base.sf := by unfold Ledger.hasSf at hl; exact List.contains_iff_mem.mp hl
    refine ⟨hc.base Kind.sf _ (List.mem_map_of_mem he), ?_⟩
    rw [sfDiff?_none_of_base hI he hs]; exact he
  | none =>
    rw [hleaf] at hl; simp only [] at hl
    unfold validateEphemeralSf at hl
    split at hl
    · cases hl
    · split at hl
      · cases hl
      · first
        | cases hl
        | (split at hl
           · cases hl
           · rename_i hlt; exact absurd hfix hlt)

theorem live_of_base {T} {ms : Mid} (hc : Ctx T ms.base) (hI : Inv T ms) {e : Fc2Elem}
    (hs : ms.isSpent e.id = false) (hb : ms.base.hasFc2 e = true) : LiveFc2 T ms e := by
  have he : e ∈ ms.base.fc2 := by unfold Ledger.hasFc2 at hb; exact List.contains_iff_mem.mp hb
  refine ⟨hc.base Kind.fc2 _ (List.mem_map_of_mem he), he, ?_⟩
  cases hv : ms.fc2Diff? e.id with
  | none => trivial
  | some d =>
    simp only []
    obtain ⟨hm, hid⟩ := fc2Diff?_mem hv
    cases hr : d.resolution with
    | none => rfl
    | some k =>
      have := isSpent_of_mem ((hI.fc2 d hm).2.2.1 (by rw [hr]; rfl))
      rw [hid, hs] at this; cases this

theorem rev_of_Rev2Ok {T} {ms : Mid} (hc : Ctx T ms.base) (hI : Inv T ms)
    (hfix : ms.base.child ≥ ms.base.P.ephemeralFix) {r : Rev2} (h : Rev2Ok ms r) :
    LiveFc2 T ms r.parent ∧ r.rev.val = r.parent.fc.val ∧ r.rev.missedHost ≤ r.rev.host.value := by
  obtain ⟨hs, hb, hv⟩ := h
  have hl := live_of_base hc hI hs hb
  refine ⟨hl, ?_⟩
  rw [validateRevision2_eq_c1] at hv
  obtain ⟨h1, h2⟩ := validateRevision2Core_ok hv
  refine ⟨?_, h2 hfix⟩
  rw [h1]
  -- the contract "as it currently stands" has the value of the base contract
  unfold curFc2
  cases hlk : ms.lookup r.parent.id with
  | none => rfl
  | some i =>
    obtain ⟨d, hd1, hd2, hd3⟩ := hI.struct.fc2Diff?_of_lookup hc.disj hl.1 hlk
    have hgd : ms.v2fces.getD i default = d := by rw [List.getD_eq_getElem?_getD, hd1]; rfl
    simp only [hgd]
    obtain ⟨_, hde⟩ := hl.diff hc hI hd3
    have hok := (hI.fc2 d (fc2Diff?_mem hd3).1).2.2.2.1
    unfold Fc2Diff.current at hok
    cases hr : d.revision with
    | none => rfl
    | some rv => rw [hr] at hok; simp only [] at hok ⊢; rw [hde] at hok; exact hok

theorem res_of_Res2Ok {T} {ms : Mid} (hc : Ctx T ms.base) (hI : Inv T ms)
    (hm2 : ∀ e ∈ ms.base.fc2, e.fc.missedHost ≤ e.fc.host.value) {revised : List Id} {r : Resolution2}
    (h : Res2Ok ms revised r) : LiveFc2 T ms r.parent ∧ resNewOk r ∧ r.parent.fc.missedHost ≤ r.parent.fc.host.value := by
  obtain ⟨hs, _, hb, hm⟩ := h
  have hlv := live_of_base hc hI hs hb
  refine ⟨hlv, ?_, hm2 _ hlv.2.1⟩
  unfold resNewOk
  cases hres : r.res with
  | renewal rn => rw [hres] at hm; exact hm.2
  | proof a b c d => trivial
  | expiration => trivial

-- ------------------------------------------------------------------ the transaction

/-- ids created by a v2 transaction, in creation order, with their kinds -/
def Txn2.created (t : Txn2) : List (Kind × Id) :=
  t.scOuts.map (fun x => (Kind.sc, x.1)) ++ (t.sfIns.map (fun i => (Kind.sc, i.claimId)) ++
  (t.sfOuts.map (fun x => (Kind.sf, x.1)) ++ (t.fcs.map (fun x => (Kind.fc2, x.1)) ++
  t.ress.flatMap Resolution2.created)))

/-- sum of the claim outputs a v2 transaction creates when the pool stands at `pool` -/
def Txn2.claims (pool : Cur) (t : Txn2) : Nat :=
  (t.sfIns.map (fun i => claimVal pool i.parent.claimStart i.parent.value)).sum

/-- siafund tax collected by a v2 transaction (formations and renewals) -/
def Txn2.taxes (t : Txn2) : Nat := (t.fcs.map (fun x => x.2.1.val / 25)).sum + (t.ress.map resTax).sum

/-- value forfeited by the missed-expiration resolutions of a v2 transaction -/
def Txn2.forfeits (t : Txn2) : Nat :=
  (t.ress.map (fun r => match r.res with
    | .expiration => r.parent.fc.host.value - r.parent.fc.missedHost
    | _ => 0)).sum

theorem finish2_fields (ms : Mid) (t : Txn2) :
    (finish2 ms t).base = ms.base ∧ (finish2 ms t).elements = ms.elements ∧ (finish2 ms t).spends = ms.spends ∧
    (finish2 ms t).sces = ms.sces ∧ (finish2 ms t).sfes = ms.sfes ∧ (finish2 ms t).fces = ms.fces ∧
    (finish2 ms t).v2fces = ms.v2fces ∧ (finish2 ms t).pool = ms.pool := by
  unfold finish2
  cases t.newFoundation with
  | none => exact ⟨rfl, rfl, rfl, rfl, rfl, rfl, rfl, rfl⟩
  | some a => simp only []; split <;> exact ⟨rfl, rfl, rfl, rfl, rfl, rfl, rfl, rfl⟩

theorem Phi_scalars {ms ms' : Mid} (h1 : ms'.base = ms.base) (h4 : ms'.sces = ms.sces) (h6 : ms'.fces = ms.fces)
    (h7 : ms'.v2fces = ms.v2fces) (h8 : ms'.pool = ms.pool) : Phi ms' = Phi ms := by
  unfold Phi; rw [scTot_congr h1 h4, fc1Tot_congr h1 h6, fc2Tot_congr h1 h7, h8]

theorem ress_sums (l : List Resolution2)
    (h : ∀ r ∈ l, match r.res with
      | .renewal rn => rn.finalRenter.value + rn.renterRollover + rn.finalHost.value + rn.hostRollover = r.parent.fc.val
      | _ => True) :
    (l.map resOut).sum + (l.map resCost).sum =
      (l.map resIn).sum + (l.map resRoll).sum + (l.map (fun r => match r.res with
        | .expiration => r.parent.fc.host.value - r.parent.fc.missedHost
        | _ => 0)).sum := by
  induction l with
  | nil => rfl
  | cons a l ih =>
    have ih' := ih (fun r hr => h r (List.mem_cons_of_mem _ hr))
    have ha := h a List.mem_cons_self
    simp only [List.map_cons, List.sum_cons]
    cases hres : a.res with
    | renewal rn =>
      rw [hres] at ha; simp only [] at ha
      have e1 : resOut a = a.parent.fc.val := by unfold resOut; rw [hres]
      have e2 : resCost a = rn.newContract.val + rn.newContract.val / 25 := by unfold resCost; rw [hres]
      have e3 : resIn a = rn.newContract.val + rn.newContract.val / 25 + rn.finalRenter.value + rn.finalHost.value := by
        unfold resIn; rw [hres]
      have e4 : resRoll a = rn.renterRollover + rn.hostRollover := by unfold resRoll; rw [hres]
      rw [e1, e2, e3, e4]; simp only []; c1_omega
    | proof p q r s =>
      have e1 : resOut a = 0 := by unfold resOut; rw [hres]
      have e2 : resCost a = 0 := by unfold resCost; rw [hres]
      have e3 : resIn a = 0 := by unfold resIn; rw [hres]
      have e4 : resRoll a = 0 := by unfold resRoll; rw [hres]
      rw [e1, e2, e3, e4]; simp only []; omega
    | expiration =>
      have e1 : resOut a = a.parent.fc.host.value - a.parent.fc.missedHost := by unfold resOut; rw [hres]
      have e2 : resCost a = 0 := by unfold resCost; rw [hres]
      have e3 : resIn a = 0 := by unfold resIn; rw [hres]
      have e4 : resRoll a = 0 := by unfold resRoll; rw [hres]
      rw [e1, e2, e3, e4]; simp only []; c1_omega

theorem v2txn_conserves {T} {ms ms' : Mid} {t : Txn2} {mw : Nat} {R : List (Kind × Id)}
    (hc : Ctx T ms.base) (hfix : ms.base.child ≥ ms.base.P.ephemeralFix) (hI : Inv T ms)
    (hm2 : ∀ e ∈ ms.base.fc2, e.fc.missedHost ≤ e.fc.host.value)
    (hF : Fresh T ms (t.created ++ R))
    (hnw : (t.sfOuts.map (·.2.1)).sum < u64Limit) (hsfb : sfTot ms < u64Limit)
    (hv : validateV2Transaction ms t mw = .ok ()) (ha : applyV2Transaction ms t = .ok ms') :
    Inv T ms' ∧ Fresh T ms' R ∧ ms'.base = ms.base ∧
    Phi ms' + t.fee + t.forfeits = Phi ms + t.claims ms.pool ∧ sfTot ms' = sfTot ms ∧ ms.pool ≤ ms'.pool ∧
    (CsOk ms → CsOk ms' ∧ Psi ms' + 10000 * t.claims ms.pool ≤ Psi ms + (ms'.pool - ms.pool) * sfTot ms) ∧
    ms'.pool = ms.pool + t.taxes ∧
    (1 ≤ ms.base.P.maturityDelay →
      scW (wImm ms.base.child) ms + t.claims ms.pool ≤ scW (wImm ms.base.child) ms') := by
  obtain ⟨hv1, hv2, hv3⟩ := validateV2Transaction_ok hv
  obtain ⟨hsc, hscn, hbal⟩ := validateV2Siacoins_ok hv1
  obtain ⟨hsf, hsfn, hsfbal⟩ := validateV2Siafunds_ok hv2
  obtain ⟨hfcs, hrevs, hrevn, hress, hresn⟩ := validateV2FileContracts_ok hv3
  rw [applyV2Transaction_eq_c1] at ha
  rw [bind_eq_ok] at ha; obtain ⟨ms1, a1, ha⟩ := ha
  rw [bind_eq_ok] at ha; obtain ⟨ms2, a2, ha⟩ := ha
  rw [bind_eq_ok] at ha; obtain ⟨ms3, a3, ha⟩ := ha
  rw [bind_eq_ok] at ha; obtain ⟨ms4, a4, ha⟩ := ha
  rw [bind_eq_ok] at ha; obtain ⟨ms5, a5, ha⟩ := ha
  rw [bind_eq_ok] at ha; obtain ⟨ms6, a6, ha⟩ := ha
  rw [bind_eq_ok] at ha; obtain ⟨ms7, a7, ha⟩ := ha
  cases ha
  -- preconditions, all relative to the state before the transaction
  have pSc : ∀ sci ∈ t.scIns, SpendableSc T ms sci.parent := fun sci h => spendable_of_ScIn2Ok hc hI hfix (hsc sci h)
  have pSf : ∀ sfi ∈ t.sfIns, SpendableSf T ms sfi.parent := fun sfi h => spendable_of_SfIn2Ok hc hI hfix (hsf sfi h)
  have pRev := fun r h => rev_of_Rev2Ok hc hI hfix (hrevs r h)
  have pRes := fun r h => res_of_Res2Ok hc hI hm2 (hress r h)
  unfold Txn2.created at hF
  simp only [List.append_assoc] at hF
  -- 1. siacoin inputs
  obtain ⟨r1, e1P, e1S, e1p, e1W⟩ := loop_scIns2 t.scIns ms ms1 hc hI pSc hscn a1
  have F1 := hF.agree r1.agree (by
    intro q hq hm
    obtain ⟨sci, hs, he⟩ := List.mem_map.mp hm
    exact (pSc sci hs).not_fresh hF q hq he.symm)
  have hc1 : Ctx T ms1.base := by rw [r1.base]; exact hc
  -- 2. siacoin outputs
  obtain ⟨r2, F2, e2P, e2S, e2p, e2W⟩ := loop_scOuts t.scOuts ms1 ms2 _ hc1 r1.inv F1 a2
  have hc2 : Ctx T ms2.base := by rw [r2.base]; exact hc1
  -- membership of created ids in the fresh list
  have inF_scOut : ∀ x, x ∈ t.scOuts.map (·.1) → ∃ q ∈ (t.scOuts.map (fun x => (Kind.sc, x.1)) ++ (t.sfIns.map (fun i => (Kind.sc, i.claimId)) ++
      (t.sfOuts.map (fun x => (Kind.sf, x.1)) ++ (t.fcs.map (fun x => (Kind.fc2, x.1)) ++ (t.ress.flatMap Resolution2.created ++ R))))), q.2 = x := by
    intro x hx
    obtain ⟨o, ho, he⟩ := List.mem_map.mp hx
    exact ⟨(Kind.sc, o.1), List.mem_append_left _ (List.mem_map_of_mem ho), he⟩
  have inF_claim : ∀ x, x ∈ t.sfIns.map (·.claimId) → ∃ q ∈ (t.scOuts.map (fun x => (Kind.sc, x.1)) ++ (t.sfIns.map (fun i => (Kind.sc, i.claimId)) ++
      (t.sfOuts.map (fun x => (Kind.sf, x.1)) ++ (t.fcs.map (fun x => (Kind.fc2, x.1)) ++ (t.ress.flatMap Resolution2.created ++ R))))), q.2 = x := by
    intro x hx
    obtain ⟨o, ho, he⟩ := List.mem_map.mp hx
    exact ⟨(Kind.sc, o.claimId), List.mem_append_right _ (List.mem_append_left _ (List.mem_map_of_mem ho)), he⟩
  have inF_sfOut : ∀ x, x ∈ t.sfOuts.map (·.1) → ∃ q ∈ (t.scOuts.map (fun x => (Kind.sc, x.1)) ++ (t.sfIns.map (fun i => (Kind.sc, i.claimId)) ++
      (t.sfOuts.map (fun x => (Kind.sf, x.1)) ++ (t.fcs.map (fun x => (Kind.fc2, x.1)) ++ (t.ress.flatMap Resolution2.created ++ R))))), q.2 = x := by
    intro x hx
    obtain ⟨o, ho, he⟩ := List.mem_map.mp hx
    exact ⟨(Kind.sf, o.1), List.mem_append_right _ (List.mem_append_right _ (List.mem_append_left _ (List.mem_map_of_mem ho))), he⟩
  have inF_fc : ∀ x, x ∈ t.fcs.map (·.1) → ∃ q ∈ (t.scOuts.map (fun x => (Kind.sc, x.1)) ++ (t.sfIns.map (fun i => (Kind.sc, i.claimId)) ++
      (t.sfOuts.map (fun x => (Kind.sf, x.1)) ++ (t.fcs.map (fun x => (Kind.fc2, x.1)) ++ (t.ress.flatMap Resolution2.created ++ R))))), q.2 = x := by
    intro x hx
    obtain ⟨o, ho, he⟩ := List.mem_map.mp hx
    exact ⟨(Kind.fc2, o.1), List.mem_append_right _ (List.mem_append_right _ (List.mem_append_right _
      (List.mem_append_left _ (List.mem_map_of_mem ho)))), he⟩
  -- 3. siafund inputs
  have pSf2 : ∀ sfi ∈ t.sfIns, SpendableSf T ms2 sfi.parent := by
    intro sfi h
    have h0 := pSf sfi h
    refine (h0.agree r1.agree ?_).agree r2.agree ?_
    · intro hm
      obtain ⟨sci, hs, he⟩ := List.mem_map.mp hm
      have := hc.disj _ _ _ (pSc sci hs).1 (he ▸ h0.1); cases this
    · intro hm
      obtain ⟨q, hq, he⟩ := inF_scOut _ hm
      exact h0.not_fresh hF q hq he
  obtain ⟨r3, F3, e3P, e3S, e3p, e3W, e3Wc⟩ := loop_sfIns2 t.sfIns ms2 ms3 _ hc2 r2.inv pSf2 hsfn F2 a3
  have hc3 : Ctx T ms3.base := by rw [r3.base]; exact hc2
  -- 4. siafund outputs
  obtain ⟨r4, F4, e4P, e4S, e4p, e4W⟩ := loop_sfOuts t.sfOuts ms3 ms4 _ hc3 r3.inv F3 a4
  have hc4 : Ctx T ms4.base := by rw [r4.base]; exact hc3
  -- 5. contract formations
  obtain ⟨r5, F5, e5P, e5S, e5p⟩ := loop_fcs2 t.fcs ms4 ms5 _ hc4 r4.inv hfcs F4 a5
  have hc5 : Ctx T ms5.base := by rw [r5.base]; exact hc4
  -- a live base contract stays live through steps 1-5
  have live5 : ∀ e, LiveFc2 T ms e → LiveFc2 T ms5 e := by
    intro e h0
    have nf := h0.not_fresh hF
    refine ((((h0.agree r1.agree ?_).agree r2.agree ?_).agree r3.agree ?_).agree r4.agree ?_).agree r5.agree ?_
    · intro hm
      obtain ⟨sci, hs, he⟩ := List.mem_map.mp hm
      have := hc.disj _ _ _ (pSc sci hs).1 (he ▸ h0.1); cases this
    · intro hm; obtain ⟨q, hq, he⟩ := inF_scOut _ hm; exact nf q hq he
    · rintro (hm | hm)
      · obtain ⟨sfi, hs, he⟩ := List.mem_map.mp hm
        have := hc.disj _ _ _ (pSf sfi hs).1 (he ▸ h0.1); cases this
      · obtain ⟨q, hq, he⟩ := inF_claim _ hm; exact nf q hq he
    · intro hm; obtain ⟨q, hq, he⟩ := inF_sfOut _ hm; exact nf q hq he
    · intro hm; obtain ⟨q, hq, he⟩ := inF_fc _ hm; exact nf q hq he
  -- 6. revisions
  have pRev5 : ∀ r ∈ t.revs, LiveFc2 T ms5 r.parent ∧ r.rev.val = r.parent.fc.val ∧ r.rev.missedHost ≤ r.rev.host.value :=
    fun r h => ⟨live5 _ (pRev r h).1, (pRev r h).2⟩
  obtain ⟨r6, e6P, e6S, e6p⟩ := loop_revs2 t.revs ms5 ms6 hc5 r5.inv pRev5 hrevn a6
  have hc6 : Ctx T ms6.base := by rw [r6.base]; exact hc5
  have F6 := F5.agree r6.agree (by
    intro q hq hm
    obtain ⟨r, hr, he⟩ := List.mem_map.mp hm
    exact (pRev5 r hr).1.not_fresh F5 q hq he.symm)
  -- 7. resolutions
  have pRes6 : ∀ r ∈ t.ress, LiveFc2 T ms6 r.parent ∧ resNewOk r ∧ r.parent.fc.missedHost ≤ r.parent.fc.host.value := by
    intro r h
    refine ⟨(live5 _ (pRes r h).1).agree r6.agree ?_, (pRes r h).2⟩
    exact (hress r h).2.1
  obtain ⟨r7, F7, e7P, e7S, e7p, e7W⟩ := loop_ress2 t.ress ms6 ms7 R hc6 r6.inv pRes6 hresn F6 a7
  -- 8. scalars
  obtain ⟨f1, f2, f3, f4, f5, f6, f7, f8⟩ := finish2_fields ms7 t
  have hb7 : ms7.base = ms.base := by
    rw [r7.base, r6.base, r5.base, r4.base, r3.base, r2.base, r1.base]
  -- siafund supply is unchanged after the siafund stages
  have hS4 : sfTot ms4 = sfTot ms := by
    have hin : (t.sfIns.map (·.parent.value)).sum < u64Limit := by
      have : sfTot ms3 + (t.sfIns.map (·.parent.value)).sum = sfTot ms := by rw [← e1S, ← e2S]; exact e3S
      omega
    have h1 := Nat.mod_eq_of_lt hin
    have h2 := Nat.mod_eq_of_lt hnw
    have h3 : (t.sfIns.map (·.parent.value)).sum = (t.sfOuts.map (·.2.1)).sum := h1.symm.trans (hsfbal.trans h2)
    have : sfTot ms3 + (t.sfIns.map (·.parent.value)).sum = sfTot ms := by rw [← e1S, ← e2S]; exact e3S
    omega
  refine ⟨r7.inv.scalars f1 f2 f3 f4 f5 f6 f7, ?_, f1.trans hb7, ?_, ?_, ?_, ?_, ?_, ?_⟩
  · exact F7.agree (agree_scalars f1 f2 f3 f4 f5 f6 f7 (fun _ => False)) (fun _ _ h => h)
  · rw [Phi_scalars f1 f4 f6 f7 f8]
    have hrs := ress_sums t.ress (fun r hr => by
      have := (hress r hr).2.2.2
      cases hres : r.res with
      | renewal rn => rw [hres] at this; exact this.1
      | proof a b c d => trivial
      | expiration => trivial)
    unfold Txn2.claims Txn2.forfeits
    rw [e2p, e1p] at e3P
    clear hv hv1 hv2 hv3 a1 a2 a3 a4 a5 a6 a7 hF F1 F2 F3 F4 F5 F6 F7
    c1_omega
  · rw [sfTot_congr f1 f5, e7S, e6S, e5S, hS4]
  · rw [f8, e7p, e6p, e5p, e4p, e3p, e2p, e1p]
    unfold Cur; omega
  · intro hcs
    -- stages 1-2 leave siafunds and the pool alone
    have s12 : SfSame ms ms2 := (sfSame_scIns2 a1).trans (sfSame_scOuts a2)
    have hp2 : ms2.pool = ms.pool := by rw [e2p, e1p]
    obtain ⟨q2, c2⟩ := Psi_shift s12 0 (by rw [hp2]; rfl) hcs
    -- stage 3: siafund inputs
    obtain ⟨c3, q3⟩ := Psi_spend_stage ms.pool hp2 (e3p.trans hp2)
      (fun w => (t.sfIns.map (fun i => w i.parent)).sum) e3W c2
    -- stage 4: siafund outputs
    have hp3 : ms3.pool = ms.pool := e3p.trans hp2
    obtain ⟨c4, q4⟩ := Psi_create_stage ms.pool hp3 (e4p.trans hp3)
      (t.sfOuts.map (fun x => (⟨x.1, x.2.1, x.2.2, ms3.pool, none⟩ : SfElem)))
      (by intro o ho; obtain ⟨x, _, rfl⟩ := List.mem_map.mp ho; exact hp3)
      (by intro w; rw [e4W w, List.map_map]; rfl) c3
    -- stages 5-8: only the pool moves
    obtain ⟨q5, c5⟩ := Psi_shift (sfSame_fcs2 a5) _ e5p c4
    obtain ⟨q6, c6⟩ := Psi_shift (sfSame_revs2 a6) 0 (by rw [e6p]; rfl) c5
    obtain ⟨q7, c7⟩ := Psi_shift (sfSame_ress2 a7) _ e7p c6
    obtain ⟨q8, c8⟩ := Psi_shift (ms := ms7) (ms' := finish2 ms7 t) ⟨f5, f1⟩ 0 (by rw [f8]; rfl) c7
    refine ⟨c8, ?_⟩
    have hcl : 10000 * t.claims ms.pool ≤ (t.sfIns.map (fun i => psiW ms.pool i.parent)).sum := by
      unfold Txn2.claims
      apply sum_scaled_le
      intro i _
      exact claimVal_le_psiW _ _ _
    have hpool : (finish2 ms7 t).pool - ms.pool =
        (t.fcs.map (fun x => x.2.1.val / 25)).sum + (t.ress.map resTax).sum := by
      rw [f8, e7p, e6p, e5p, e4p, e3p, e2p, e1p]; unfold Cur; omega
    rw [hpool, q8, q7, q6, q5, q4]
    have hS5 : sfTot ms5 = sfTot ms := e5S.trans hS4
    have hS6 : sfTot ms6 = sfTot ms := e6S.trans hS5
    have hS7 : sfTot ms7 = sfTot ms := e7S.trans hS6
    rw [hS4, hS6, hS7, Nat.add_mul]
    simp only [Nat.zero_mul, Nat.add_zero] at q2 ⊢
    clear hv hv1 hv2 hv3 a1 a2 a3 a4 a5 a6 a7 hF F1 F2 F3 F4 F5 F6 F7 e3W e4W hbal hsfbal
    omega
  · unfold Txn2.taxes
    rw [f8, e7p, e6p, e5p, e4p, e3p, e2p, e1p]; exact Nat.add_assoc _ _ _
  · intro hmd
    have h1 := e1W (wImm ms.base.child) (wImm_congr _)
    have z1 : (t.scIns.map (fun i => wImm ms.base.child i.parent)).sum = 0 := by
      apply sum_map_zero; intro sci hm
      unfold wImm; rw [if_pos (hsc sci hm).2.1]
    have h2 := e2W (wImm ms.base.child)
    have z2 : (t.scOuts.map (fun x => wImm ms.base.child ⟨x.1, x.2.value, x.2.addr, 0, none⟩)).sum = 0 := by
      apply sum_map_zero; intro x _
      unfold wImm; rw [if_pos (Nat.zero_le _)]
    have h3 := e3Wc (wImm ms.base.child)
    have hb2 : ms2.base = ms.base := by rw [r2.base, r1.base]
    have z3 : (t.sfIns.map (fun i => wImm ms.base.child ⟨i.claimId,
        claimVal ms2.pool i.parent.claimStart i.parent.value, i.claimAddr, maturityHeight ms2.base, none⟩)).sum =
        t.claims ms.pool := by
      unfold Txn2.claims
      congr 1; apply List.map_congr_left; intro i _
      unfold wImm maturityHeight
      rw [hb2, e2p, e1p]
      have : ¬ (ms.base.child + ms.base.P.maturityDelay ≤ ms.base.child) := by omega
      simp only []
      rw [if_neg this]
    have h4 := foldlM_scW_same stepSfOut (fun b a b' hh w => by cases hh; exact scW_createSf _ _ _ _ w) _ _ _ a4
      (wImm ms.base.child)
    have h5 := foldlM_scW_same stepFc2 (fun b a b' hh w => scW_createFc2 hh w) _ _ _ a5 (wImm ms.base.child)
    have h6 := foldlM_scW_same stepRev2 (fun b a b' hh w => by cases hh; exact scW_reviseFc2 _ _ _ w) _ _ _ a6
      (wImm ms.base.child)
    have h7 := e7W (wImm ms.base.child)
    have h8 : scW (wImm ms.base.child) (finish2 ms7 t) = scW (wImm ms.base.child) ms7 := scW_congr _ f1 f4
    rw [z3] at h3
    rw [z2] at h2
    rw [z1] at h1
    omega

end Sia.Ledger
