import SiaProofs.Lemmas.MerkleRhpSize
/-!
  Helper lemmas for C16, part 5: under node-hash injectivity the verifier's computation
  is injective in the hashes it is fed (soundness of range proofs).
-/
set_option linter.unusedVariables false
set_option linter.unusedSectionVars false
namespace Sia.Rhp
open HashOps

variable {H : Type} [HashOps H]

def NodeInj (H : Type) [HashOps H] : Prop := ∀ a b c d : H, node a b = node c d → a = c ∧ b = d

theorem HashInj.nodeInj (h : HashInj H) : NodeInj H := h.node_inj

/-- heights of a stack -/
def shape (s : Stack H) : List Nat := s.map Prod.fst

theorem toStack_shape (t t' : Nat → H) : ∀ (m i : Nat), shape (toStack t m i) = shape (toStack t' m i) := by
  intro m
  induction m using Nat.strongRecOn with
  | _ m ih =>
    intro i
    by_cases h0 : m = 0
    · subst h0; simp [toStack_zero]
    · by_cases h1 : m % 2 = 1
      · rw [toStack_odd t m i h1, toStack_odd t' m i h1]
        simp only [shape, List.map_cons]
        have := ih (m / 2) (by omega) (i + 1)
        simp only [shape] at this
        rw [this]
      · rw [toStack_even t m i (by omega), toStack_even t' m i (by omega)]
        exact ih (m / 2) (by omega) (i + 1)

theorem stack_shape_of_n {a1 a2 : Acc H} (h : a1.n = a2.n) : shape a1.stack = shape a2.stack := by
  unfold Acc.stack; rw [h]; exact toStack_shape _ _ _ _

theorem sInsert_inj (hinj : NodeInj H) : ∀ (s1 s2 : Stack H) (x y : H) (i : Nat),
    shape s1 = shape s2 → sInsert s1 x i = sInsert s2 y i → s1 = s2 ∧ x = y := by
  intro s1
  induction s1 with
  | nil =>
    intro s2 x y i hsh heq
    cases s2 with
    | nil => simp [sInsert] at heq; exact ⟨rfl, heq⟩
    | cons b r => simp [shape] at hsh
  | cons a r1 ih =>
    intro s2 x y i hsh heq
    cases s2 with
    | nil => simp [shape] at hsh
    | cons b r2 =>
      obtain ⟨j, ta⟩ := a
      obtain ⟨j', tb⟩ := b
      simp only [shape, List.map_cons, List.cons.injEq] at hsh
      obtain ⟨hj, hr⟩ := hsh
      subst hj
      simp only [sInsert] at heq
      by_cases hji : j = i
      · simp only [hji, if_true] at heq
        obtain ⟨h1, h2⟩ := ih r2 (node ta x) (node tb y) (i + 1) hr heq
        obtain ⟨h3, h4⟩ := hinj _ _ _ _ h2
        subst h1 h3 h4
        exact ⟨rfl, rfl⟩
      · simp only [hji, if_false, List.cons.injEq, Prod.mk.injEq, true_and] at heq
        obtain ⟨hx, hta, hr'⟩ := heq
        subst hx hta hr'
        exact ⟨rfl, rfl⟩

theorem foldl_sStep_inj (hinj : NodeInj H) : ∀ (r1 r2 : Stack H) (t1 t2 : H),
    shape r1 = shape r2 → r1.foldl sStep (some t1) = r2.foldl sStep (some t2) → t1 = t2 ∧ r1 = r2 := by
  intro r1
  induction r1 with
  | nil =>
    intro r2 t1 t2 hsh heq
    cases r2 with
    | nil => simp at heq; exact ⟨heq, rfl⟩
    | cons b r => simp [shape] at hsh
  | cons a r1 ih =>
    intro r2 t1 t2 hsh heq
    cases r2 with
    | nil => simp [shape] at hsh
    | cons b r2 =>
      obtain ⟨j, ta⟩ := a
      obtain ⟨j', tb⟩ := b
      simp only [shape, List.map_cons, List.cons.injEq] at hsh
      obtain ⟨hj, hr⟩ := hsh
      subst hj
      simp only [List.foldl_cons, sStep] at heq
      obtain ⟨h1, h2⟩ := ih r2 (node ta t1) (node tb t2) hr heq
      obtain ⟨h3, h4⟩ := hinj _ _ _ _ h1
      subst h2 h3 h4
      exact ⟨rfl, rfl⟩

theorem foldl_sStep_some (r : Stack H) (t : H) : ∃ v, r.foldl sStep (some t) = some v := by
  induction r generalizing t with
  | nil => exact ⟨t, rfl⟩
  | cons a r ih => simp only [List.foldl_cons, sStep]; exact ih _

theorem sRoot_inj (hinj : NodeInj H) (s1 s2 : Stack H) (hsh : shape s1 = shape s2)
    (heq : sRoot s1 = sRoot s2) : s1 = s2 := by
  cases s1 with
  | nil =>
    cases s2 with
    | nil => rfl
    | cons b r => simp [shape] at hsh
  | cons a r1 =>
    cases s2 with
    | nil => simp [shape] at hsh
    | cons b r2 =>
      obtain ⟨j, ta⟩ := a
      obtain ⟨j', tb⟩ := b
      simp only [shape, List.map_cons, List.cons.injEq] at hsh
      obtain ⟨hj, hr⟩ := hsh
      subst hj
      unfold sRoot at heq
      simp only [List.foldl_cons, sStep] at heq
      obtain ⟨v1, hv1⟩ := foldl_sStep_some r1 ta
      obtain ⟨v2, hv2⟩ := foldl_sStep_some r2 tb
      rw [hv1, hv2] at heq
      simp only [Option.getD_some] at heq
      subst heq
      obtain ⟨h1, h2⟩ := foldl_sStep_inj hinj r1 r2 ta tb hr (by rw [hv1, hv2])
      subst h1 h2
      rfl

/-- equal plain roots of equal-length lists ⇒ equal lists -/
theorem root_injective_aux (hinj : NodeInj H) : ∀ (l1 l2 : List H), l1.length = l2.length →
    metaRoot l1 = metaRoot l2 → l1 = l2 := by
  intro l1 l2 hlen h
  generalize hn : l1.length = n
  induction n using Nat.strongRecOn generalizing l1 l2 with
  | _ n ih =>
    by_cases h0 : n = 0
    · subst h0
      rw [List.eq_nil_of_length_eq_zero hn, List.eq_nil_of_length_eq_zero (by omega : l2.length = 0)]
    · by_cases h1 : n = 1
      · subst h1
        obtain ⟨x, hx⟩ := List.length_eq_one_iff.1 hn
        obtain ⟨y, hy⟩ := List.length_eq_one_iff.1 (by omega : l2.length = 1)
        subst hx hy
        rw [metaRoot_singleton, metaRoot_singleton] at h; rw [h]
      · have h2 : 2 ≤ l1.length := by omega
        have h2' : 2 ≤ l2.length := by omega
        rw [metaRoot_split _ h2, metaRoot_split _ h2', ← hlen] at h
        obtain ⟨ha, hb⟩ := hinj _ _ _ _ h
        have hlt := splitPoint_lt h2
        have hpos := splitPoint_pos l1.length
        have e1 := ih (l1.take (splitPoint l1.length)).length (by simp [List.length_take]; omega) _ _
          (by simp only [List.length_take]; rw [hlen]) ha rfl
        have e2 := ih (l1.drop (splitPoint l1.length)).length (by simp [List.length_drop]; omega) _ _
          (by simp only [List.length_drop]; rw [hlen]) hb rfl
        rw [← List.take_append_drop (splitPoint l1.length) l1,
          ← List.take_append_drop (splitPoint l1.length) l2, e1, e2]

/-! ### accumulator level -/

theorem insertNode_n (a : Acc H) (x : H) (k : Nat) : (a.insertNode x k).n = a.n + 2 ^ k := rfl

theorem insertNode_inj (hinj : NodeInj H) (a1 a2 : Acc H) (x y : H) (k : Nat)
    (hn : a1.n = a2.n) (hd : 2 ^ k ∣ a1.n)
    (heq : (a1.insertNode x k).stack = (a2.insertNode y k).stack) : a1.stack = a2.stack ∧ x = y := by
  rw [stack_insertNode a1 x k hd, stack_insertNode a2 y k (by rw [← hn]; exact hd)] at heq
  exact sInsert_inj hinj _ _ x y k (stack_shape_of_n hn) heq

theorem root_inj (hinj : NodeInj H) (a1 a2 : Acc H) (hn : a1.n = a2.n) (heq : a1.root = a2.root) :
    a1.stack = a2.stack := by
  rw [root_stack, root_stack] at heq
  exact sRoot_inj hinj _ _ (stack_shape_of_n hn) heq

/-- equal-length proofs drive `insertRange` through the same positions -/
theorem insertRange_same_flow : ∀ (p1 p2 : List H) (a1 a2 : Acc H) (i j : Nat),
    p1.length = p2.length → a1.n = a2.n →
      (insertRange a1 p1 i j).1.n = (insertRange a2 p2 i j).1.n ∧
      (insertRange a1 p1 i j).2.length = (insertRange a2 p2 i j).2.length := by
  intro p1
  induction p1 with
  | nil =>
    intro p2 a1 a2 i j hl hn
    cases p2 with
    | nil => simp [insertRange, hn]
    | cons y ys => simp at hl
  | cons x xs ih =>
    intro p2 a1 a2 i j hl hn
    cases p2 with
    | nil => simp at hl
    | cons y ys =>
      by_cases hlt : i < j
      · rw [insertRange_cons a1 x xs i j hlt, insertRange_cons a2 y ys i j hlt]
        exact ih ys _ _ _ j (by simpa using hl) (by simp [insertNode_n, hn])
      · rw [insertRange_done a1 _ i j hlt, insertRange_done a2 _ i j hlt]
        exact ⟨hn, hl⟩

/-- if two equal-length proofs lead `insertRange` to the same stack and the same leftover,
they started from the same stack and are equal -/
theorem insertRange_inj (hinj : NodeInj H) : ∀ (p1 p2 : List H) (a1 a2 : Acc H) (i j : Nat),
    p1.length = p2.length → a1.n = i → a2.n = i →
      (insertRange a1 p1 i j).1.stack = (insertRange a2 p2 i j).1.stack →
      (insertRange a1 p1 i j).2 = (insertRange a2 p2 i j).2 →
      a1.stack = a2.stack ∧ p1 = p2 := by
  intro p1
  induction p1 with
  | nil =>
    intro p2 a1 a2 i j hl h1 h2 hs hr
    cases p2 with
    | nil => simp [insertRange] at hs; exact ⟨hs, rfl⟩
    | cons y ys => simp at hl
  | cons x xs ih =>
    intro p2 a1 a2 i j hl h1 h2 hs hr
    cases p2 with
    | nil => simp at hl
    | cons y ys =>
      by_cases hlt : i < j
      · rw [insertRange_cons a1 x xs i j hlt, insertRange_cons a2 y ys i j hlt] at hs hr
        obtain ⟨k, hk, hdvd, hle⟩ := nss_spec hlt
        rw [hk, tz_two_pow] at hs hr
        obtain ⟨hs', hxy⟩ := ih ys _ _ (i + 2 ^ k) j (by simpa using hl)
          (by simp [insertNode_n, h1]) (by simp [insertNode_n, h2]) hs hr
        obtain ⟨hst, hx⟩ := insertNode_inj hinj a1 a2 x y k (by rw [h1, h2]) (by rw [h1]; exact hdvd) hs'
        subst hx hxy
        exact ⟨hst, rfl⟩
      · rw [insertRange_done a1 _ i j hlt, insertRange_done a2 _ i j hlt] at hs hr
        simp only at hs hr
        exact ⟨hs, hr⟩

theorem foldl_insertLeaf_n (a : Acc H) (d : List H) :
    (d.foldl (fun a h => a.insertNode h 0) a).n = a.n + d.length := by
  induction d generalizing a with
  | nil => simp
  | cons x xs ih => simp only [List.foldl_cons, List.length_cons]; rw [ih]; simp [insertNode_n]; omega

theorem foldl_insertLeaf_inj (hinj : NodeInj H) : ∀ (d1 d2 : List H) (a1 a2 : Acc H),
    d1.length = d2.length → a1.n = a2.n →
      (d1.foldl (fun a h => a.insertNode h 0) a1).stack = (d2.foldl (fun a h => a.insertNode h 0) a2).stack →
      a1.stack = a2.stack ∧ d1 = d2 := by
  intro d1
  induction d1 with
  | nil =>
    intro d2 a1 a2 hl hn hs
    cases d2 with
    | nil => simp at hs; exact ⟨hs, rfl⟩
    | cons y ys => simp at hl
  | cons x xs ih =>
    intro d2 a1 a2 hl hn hs
    cases d2 with
    | nil => simp at hl
    | cons y ys =>
      simp only [List.foldl_cons] at hs
      obtain ⟨hs', hxy⟩ := ih ys _ _ (by simpa using hl) (by simp [insertNode_n, hn]) hs
      obtain ⟨hst, hx⟩ := insertNode_inj hinj a1 a2 x y 0 hn (by simp) hs'
      subst hx hxy
      exact ⟨hst, rfl⟩

/-! ### the verifier's accumulator -/

/-- the three phases of `VerifySectorRangeProof` after its guards -/
def rangeAcc (proof data : List H) (s e : Nat) : Acc H × List H :=
  let s1 := insertRange Acc.empty proof 0 s
  let acc := data.foldl (fun a h => a.insertNode h 0) s1.1
  insertRange acc s1.2 e maxUint64

theorem verify_eq [DecidableEq H] (proof data : List H) (s e n : Nat) (root : H)
    (hn : n ≠ 0) (hd : data.length = e - s) (hr : ¬ (e > n ∨ s > e ∨ s = e))
    (hl : proof.length = rangeProofSize n s e) :
    verifySectorRangeProof proof data s e n root = .ok (decide ((rangeAcc proof data s e).1.root = root)) := by
  unfold verifySectorRangeProof rangeAcc
  simp [hn, hd, hr, hl]

/-- the honest run: accepted, and the accumulator ends up representing the whole list -/
theorem rangeAcc_honest (ls : List H) (s e : Nat) (hse : s < e) (hen : e ≤ ls.length)
    (hn : ls.length ≤ 2 ^ 30) :
    let P := buildRange ls 0 s ++ buildRange ls e maxInt32
    let D := (ls.drop s).take (e - s)
    (insertRange Acc.empty P 0 s).1.n = s ∧
    (insertRange Acc.empty P 0 s).2 = buildRange ls e maxInt32 ∧
    (rangeAcc P D s e).2 = [] ∧ InvC (rangeAcc P D s e).1 ls := by
  intro P D
  have h0 : Inv (Acc.empty : Acc H) (ls.take 0) := by simpa using Inv.empty
  obtain ⟨a1, ha1, hinv1⟩ := insertRange_buildRange_exact ls s (by omega) s 0 Acc.empty
    (buildRange ls e maxInt32) rfl (Nat.zero_le _) h0
  have hinv2 := Inv.foldl_range ls s e (by omega) hinv1
  have hJ1 : 2 * (ls.length - 1) ≤ maxInt32 := by unfold maxInt32; omega
  have hJ2 : ∀ i, 0 < i → i < ls.length → nextSubtreeSize i maxUint64 = 2 ^ tz i ∧ i < maxUint64 := by
    intro i h0 hlt
    exact ⟨nss_big h0 (by unfold maxUint64; omega), by unfold maxUint64; omega⟩
  obtain ⟨a3, ha3, hinv3⟩ := insertRange_buildRange_right ls maxInt32 maxUint64 hJ1 hJ2
    (ls.length - e) e _ rfl (by omega) hen hinv2
  have e1 : insertRange Acc.empty P 0 s = (a1, buildRange ls e maxInt32) := ha1
  refine ⟨?_, ?_, ?_, ?_⟩
  · rw [e1]; show a1.n = s
    rw [hinv1.2]; simp; omega
  · rw [e1]
  · show (rangeAcc P D s e).2 = []
    unfold rangeAcc; simp only [e1]; rw [ha3]
  · show InvC (rangeAcc P D s e).1 ls
    unfold rangeAcc; simp only [e1]; rw [ha3]; exact hinv3

end Sia.Rhp
