import SiaProofs.Lemmas.TextJson
/-! JSON tree of the accumulator updates: leaf and map round trips. -/
namespace Sia.Text
open Json

/-! ## elementLeaf and the update maps -/

open Sia.ElemAcc

section
variable {H : Type} (encH : H → Json) (decH : Json → Option H) (zero : H)

/-- what is needed of the hash codec: decoding undoes encoding, and no hash is written as null -/
structure HashCodec : Prop where
  law : ∀ h, decH (encH h) = some h
  nonnull : ∀ h, encH h ≠ .null

theorem leafOfTree_obj (fs : List (Txt × Json)) : leafOfTree decH zero (.obj fs) =
    match fieldOr fs (key! "leafIndex") 0 (toNatBits 64),
          fieldOr fs (key! "merkleProof") [] (fun j => (toSlice decH j).map (·.getD [])),
          fieldOr fs (key! "elementHash") zero decH, fieldOr fs (key! "spent") false Json.toBool with
    | some i, some p, some e, some s => some ⟨e, s, i, p⟩
    | _, _, _, _ => none := rfl

theorem proofField (hc : HashCodec encH decH) (p : List H) :
    Option.map (fun x => x.getD []) (toSlice decH (Json.arr (p.map encH))) = some p := by
  have hp : decList decH (p.map encH) = some p := decList_map encH decH p (fun a _ => hc.law a)
  rw [toSlice, hp]
  rfl

theorem leafOfTree_leafToTree (hc : HashCodec encH decH) (l : Leaf H) (hi : l.index < 2 ^ 64) :
    leafOfTree decH zero (leafToTree encH l) = some l := by
  obtain ⟨e, s, i, p⟩ := l
  have hn := toNatBits_ofNat 64 i hi
  cases p with
  | nil =>
    have e0 : leafToTree encH ⟨e, s, i, []⟩ = .obj [(key! "leafIndex", ofNat i), (key! "elementHash", encH e), (key! "spent", .bool s)] := by
      simp [leafToTree, omitEmpty]
    rw [e0, leafOfTree_obj]
    rw [fieldOr_hit _ (key! "leafIndex") _ _ (ofNat i) (by simp [getF]) (by simp [ofNat]),
      fieldOr_miss _ (key! "merkleProof") _ _ (by simp [getF]),
      fieldOr_hit _ (key! "elementHash") _ _ (encH e) (by simp [getF]) (hc.nonnull e),
      fieldOr_hit _ (key! "spent") _ _ (.bool s) (by simp [getF]) (by simp)]
    rw [hn, hc.law]
    rfl
  | cons a as =>
    have e0 : leafToTree encH ⟨e, s, i, a :: as⟩ = .obj [(key! "leafIndex", ofNat i), (key! "merkleProof", .arr ((a :: as).map encH)), (key! "elementHash", encH e), (key! "spent", .bool s)] := by
      simp [leafToTree, omitEmpty]
    rw [e0, leafOfTree_obj]
    rw [fieldOr_hit _ (key! "leafIndex") _ _ (ofNat i) (by simp [getF]) (by simp [ofNat]),
      fieldOr_hit _ (key! "merkleProof") _ _ (.arr ((a :: as).map encH)) (by simp [getF]) (by simp),
      fieldOr_hit _ (key! "elementHash") _ _ (encH e) (by simp [getF]) (hc.nonnull e),
      fieldOr_hit _ (key! "spent") _ _ (.bool s) (by simp [getF]) (by simp)]
    rw [hn, hc.law, proofField encH decH hc]
    rfl

/-- the old encoding loses the element hash and the spent flag: they come back as zero values -/
theorem leafOfTree_leafToTreeOld (hc : HashCodec encH decH) (l : Leaf H) (hi : l.index < 2 ^ 64) :
    leafOfTree decH zero (leafToTreeOld encH l) = some { l with elem := zero, spent := false } := by
  obtain ⟨e, s, i, p⟩ := l
  have hn := toNatBits_ofNat 64 i hi
  cases p with
  | nil =>
    have e0 : leafToTreeOld encH ⟨e, s, i, []⟩ = .obj [(key! "leafIndex", ofNat i)] := by
      simp [leafToTreeOld, omitEmpty]
    rw [e0, leafOfTree_obj]
    rw [fieldOr_hit _ (key! "leafIndex") _ _ (ofNat i) (by simp [getF]) (by simp [ofNat]),
      fieldOr_miss _ (key! "merkleProof") _ _ (by simp [getF]),
      fieldOr_miss _ (key! "elementHash") _ _ (by simp [getF]),
      fieldOr_miss _ (key! "spent") _ _ (by simp [getF])]
    rw [hn]
  | cons a as =>
    have e0 : leafToTreeOld encH ⟨e, s, i, a :: as⟩ = .obj [(key! "leafIndex", ofNat i), (key! "merkleProof", .arr ((a :: as).map encH))] := by
      simp [leafToTreeOld, omitEmpty]
    rw [e0, leafOfTree_obj]
    rw [fieldOr_hit _ (key! "leafIndex") _ _ (ofNat i) (by simp [getF]) (by simp [ofNat]),
      fieldOr_hit _ (key! "merkleProof") _ _ (.arr ((a :: as).map encH)) (by simp [getF]) (by simp),
      fieldOr_miss _ (key! "elementHash") _ _ (by simp [getF]),
      fieldOr_miss _ (key! "spent") _ _ (by simp [getF])]
    rw [hn, proofField encH decH hc]

end

/-- filing the entries written for the heights `ks` (distinct, below 64) gives back the
    non-empty entries of `f` at those heights (each element as the decoder reads it, `φ`)
    and leaves the others alone -/
theorem fileEntries_mapEntries {α β : Type} (enc : α → Json) (dec : Json → Option β) (φ : α → β) (f : Nat → List α)
    (hlaw : ∀ k, ∀ a ∈ f k, dec (enc a) = some (φ a)) :
    ∀ (ks : List Nat) (acc : Nat → List β), ks.Nodup → (∀ k ∈ ks, k < 64) →
    ∃ g, fileEntries dec (mapEntries enc f ks) acc = some g ∧
      ∀ k, g k = if k ∈ ks ∧ f k ≠ [] then (f k).map φ else acc k := by
  intro ks
  induction ks with
  | nil => intro acc _ _; exact ⟨acc, rfl, by simp⟩
  | cons k ks ih =>
    intro acc hnd hlt
    have hk : k < 64 := hlt k (by simp)
    have hnd' : ks.Nodup := (List.nodup_cons.mp hnd).2
    have hkn : k ∉ ks := (List.nodup_cons.mp hnd).1
    by_cases he : (f k).isEmpty = true
    · obtain ⟨g, hg, hgk⟩ := ih acc hnd' (fun x hx => hlt x (by simp [hx]))
      refine ⟨g, by simp [mapEntries, he, hg], ?_⟩
      intro j
      rw [hgk j]
      have hfe : f k = [] := by simpa using he
      by_cases hj : j = k
      · subst hj; simp [hkn, hfe]
      · simp [hj]
    · obtain ⟨g, hg, hgk⟩ := ih (setFn acc k ((f k).map φ)) hnd' (fun x hx => hlt x (by simp [hx]))
      have hpk : parseInt64 (natToDec k) = some (k : Int) := parseInt64_natToDec k (by omega)
      have hdl : decList dec ((f k).map enc) = some ((f k).map φ) := decList_map_gen enc dec φ (f k) (hlaw k)
      have hrange : (0 : Int) ≤ (k : Int) ∧ (k : Int) < 64 := ⟨by omega, by exact_mod_cast hk⟩
      refine ⟨g, ?_, ?_⟩
      · simp only [mapEntries, he, Bool.false_eq_true, if_false, fileEntries, hpk, toSlice, hdl, Option.map_some]
        simp only [hrange, and_self, if_true, Int.toNat_natCast, Option.getD_some]
        exact hg
      · intro j
        rw [hgk j]
        have hfe : f k ≠ [] := by simpa using he
        by_cases hj : j = k
        · subst hj; simp [hkn, hfe, setFn]
        · simp [hj, setFn]

theorem keyOrder_spec : keyOrder.Nodup ∧ (∀ k ∈ keyOrder, k < 64) ∧ (∀ k, k < 64 → k ∈ keyOrder) := by
  refine ⟨by decide, by decide, ?_⟩
  intro k hk
  have : ∀ j : Fin 64, j.val ∈ keyOrder := by decide
  exact this ⟨k, hk⟩

/-- `map[int][]T` through its tree: each element comes back as the decoder reads it -/
theorem mapOfTree_mapToTree_gen {α β : Type} (enc : α → Json) (dec : Json → Option β) (φ : α → β) (f : Nat → List α)
    (hlaw : ∀ k, ∀ a ∈ f k, dec (enc a) = some (φ a)) :
    ∃ g, mapOfTree dec (mapToTree enc f) = some g ∧ ∀ k, g k = if k < 64 then (f k).map φ else [] := by
  obtain ⟨hnd, hlt, hall⟩ := keyOrder_spec
  obtain ⟨g, hg, hgk⟩ := fileEntries_mapEntries enc dec φ f hlaw keyOrder (fun _ => []) hnd hlt
  refine ⟨g, by simp [mapOfTree, mapToTree, hg], ?_⟩
  intro k
  rw [hgk k]
  by_cases hk : k < 64
  · simp only [hall k hk, true_and, hk, if_true]
    by_cases hf : f k = []
    · simp [hf]
    · simp [hf]
  · have : k ∉ keyOrder := fun h => hk (hlt k h)
    simp [this, hk]

/-- `map[int][]T` round trip of a `[64][]T` -/
theorem mapOfTree_mapToTree {α : Type} (enc : α → Json) (dec : Json → Option α) (f : Nat → List α)
    (hlaw : ∀ k, ∀ a ∈ f k, dec (enc a) = some a) :
    ∃ g, mapOfTree dec (mapToTree enc f) = some g ∧ ∀ k, g k = if k < 64 then f k else [] := by
  obtain ⟨g, hg, hgk⟩ := mapOfTree_mapToTree_gen enc dec id f hlaw
  exact ⟨g, hg, by simpa using hgk⟩

end Sia.Text
