import SiaProofs.Lemmas.CodecPolicy
/-! `wf` / `guarded` of a schema depend on the environment only through "every ext codec occupies
≥ 1 byte and is guarded" — so they can be decided once (under `Env.default`) and transported. -/
namespace Sia.Codec

/-- every ext codec of the environment occupies at least one byte and is guarded -/
structure ExtsFine (E : Env) : Prop where
  min : ∀ n, 1 ≤ (E.ext n).minLen
  grd : ∀ n, (E.ext n).guarded = true

theorem Env.default_fine : ExtsFine Env.default := ⟨fun _ => Nat.le_refl 1, fun _ => rfl⟩

theorem Env.with_fine {E : Env} (hE : ExtsFine E) (name : String) {c : Codec}
    (hm : 1 ≤ c.minLen) (hg : c.guarded = true) : ExtsFine (E.with name c) := by
  constructor <;> intro n <;> simp only [Env.with] <;> split
  · exact hm
  · exact hE.min n
  · exact hg
  · exact hE.grd n

theorem atom_minLen_lim (a : Atom) (l l' : Nat) : (a.codec l).minLen = (a.codec l').minLen := by
  cases a <;> rfl
theorem atom_guarded_lim (a : Atom) (l l' : Nat) : (a.codec l).guarded = (a.codec l').guarded := by
  cases a <;> rfl

/-- the encoding of every value occupies at least one byte (syntactically) -/
def Sch.posLen : Sch → Bool
  | .atom a => decide (1 ≤ (a.codec 0).minLen)
  | .nil => false
  | .cons _ s r => s.posLen || r.posLen
  | _ => true

theorem minLen_pos_iff {E : Env} (hE : ExtsFine E) (s : Sch) : 1 ≤ s.minLen E ↔ s.posLen = true := by
  induction s with
  | atom a => simp [Sch.minLen, Sch.posLen, atom_minLen_lim a E.lim 0]
  | nil => simp [Sch.minLen, Sch.posLen]
  | cons l s r ihs ihr =>
    simp only [Sch.minLen, Sch.posLen, Bool.or_eq_true]
    rw [← ihs, ← ihr]; omega
  | slice s _ => simp [Sch.minLen, Sch.posLen]
  | opt s _ => simp [Sch.minLen, Sch.posLen]
  | uslice s _ => simp [Sch.minLen, Sch.posLen]
  | aslice s _ => simp [Sch.minLen, Sch.posLen]
  | ext n => simp [Sch.minLen, Sch.posLen, hE.min n]

theorem wf_congr {E E' : Env} (hE : ExtsFine E) (hE' : ExtsFine E') (s : Sch) : s.wf E = s.wf E' := by
  induction s with
  | atom a => rfl
  | nil => rfl
  | cons l s r ihs ihr => simp [Sch.wf, ihs, ihr]
  | slice s ih =>
    simp only [Sch.wf, ih]
    congr 1
    exact decide_eq_decide.mpr ((minLen_pos_iff hE s).trans (minLen_pos_iff hE' s).symm)
  | opt s ih => simp [Sch.wf, ih]
  | uslice s ih =>
    simp only [Sch.wf, ih]
    congr 1
    exact decide_eq_decide.mpr ((minLen_pos_iff hE s).trans (minLen_pos_iff hE' s).symm)
  | aslice s ih =>
    simp only [Sch.wf, ih]
    congr 1
    exact decide_eq_decide.mpr ((minLen_pos_iff hE s).trans (minLen_pos_iff hE' s).symm)
  | ext n => rfl

theorem guarded_congr {E E' : Env} (hE : ExtsFine E) (hE' : ExtsFine E') (s : Sch) :
    s.guarded E = s.guarded E' := by
  induction s with
  | atom a => simp [Sch.guarded, atom_guarded_lim a E.lim E'.lim]
  | nil => rfl
  | cons l s r ihs ihr => simp [Sch.guarded, ihs, ihr]
  | slice s ih => simp [Sch.guarded, ih]
  | opt s ih => simp [Sch.guarded, ih]
  | uslice s _ => rfl
  | aslice s ih => simp [Sch.guarded, ih]
  | ext n => simp [Sch.guarded, hE.grd n, hE'.grd n]

/-- decide `wf` once under the default environment -/
theorem wf_of_default {E : Env} (hE : ExtsFine E) (s : Sch) (h : s.wf Env.default = true) : s.wf E = true := by
  rw [wf_congr hE Env.default_fine]; exact h

theorem guarded_of_default {E : Env} (hE : ExtsFine E) (s : Sch) (h : s.guarded Env.default = true) :
    s.guarded E = true := by
  rw [guarded_congr hE Env.default_fine]; exact h

namespace Policy

theorem node_guarded {E : Env} (hE : ExtsFine E) (f : Nat) : (node E f).guarded = true := by
  have huc : Sch.guarded E Gen.encSchema_Types_UnlockConditions = true :=
    guarded_of_default hE _ (by decide)
  induction f with
  | zero =>
    simp [node, Codec.tagged, tagGuarded, Codec.ofSch, Sch.guarded, Atom.codec, threshSch, Sch.seq, childEnv,
      Env.with, Codec.list8, Codec.fail, huc]
  | succ f ih =>
    simp [node, Codec.tagged, tagGuarded, Codec.ofSch, Sch.guarded, Atom.codec, threshSch, Sch.seq, childEnv,
      Env.with, Codec.list8, huc, ih]

theorem codec_guarded {E : Env} (hE : ExtsFine E) : (codec E).guarded = true := by
  simp [codec, Codec.tagged, tagGuarded, node_guarded hE]

theorem codec_minLen (E : Env) : (codec E).minLen = 1 := rfl

end Policy
end Sia.Codec
