import SiaProofs.Lemmas.LedgerC01Value
/-!
# C01 helper lemmas, part 5: structure of the mid-state's element index, `Mid.put*`

`Struct T ms`: the shared `elements` index is consistent with the four diff slices,
and every recorded id has the kind `T` assigns to it.  `Agree ms ms' P`: the two
mid-states look the same at every id outside `P`.  Then, for each of the four kinds,
the effect of `Mid.put<Kind>` on structure, views, membership and totals
(the four blocks are instances of one template).
-/
namespace Sia.Ledger

def Mid.fc2Diff? (ms : Mid) (id : Id) : Option Fc2Diff :=
  match ms.lookup id with
  | some i => if i < ms.v2fces.length ∧ (ms.v2fces.getD i default).e.id = id then some (ms.v2fces.getD i default) else none
  | none => none

def Mid.idsOf (ms : Mid) : Kind → List Id
  | .sc => ms.scIds
  | .sf => ms.sfIds
  | .fc1 => ms.fc1Ids
  | .fc2 => ms.fc2Ids
  | .att => []

structure Struct (T : Kind → Id → Prop) (ms : Mid) : Prop where
  idx : ∀ k i id, (ms.idsOf k)[i]? = some id → ms.lookup id = some i
  kind : ∀ id i, ms.lookup id = some i → ∃ k, (ms.idsOf k)[i]? = some id
  typed : ∀ k id, id ∈ ms.idsOf k → T k id

/-- kinds are disjoint -/
def TDisj (T : Kind → Id → Prop) : Prop := ∀ k k' id, T k id → T k' id → k = k'

theorem Struct.same {T} {ms ms' : Mid} (h : Struct T ms) (he : ms'.elements = ms.elements)
    (hi : ∀ k, ms'.idsOf k = ms.idsOf k) : Struct T ms' := by
  constructor
  · intro k i id hk; rw [hi] at hk; have := h.idx k i id hk; unfold Mid.lookup at *; rw [he]; exact this
  · intro id i hl; unfold Mid.lookup at hl; rw [he] at hl
    obtain ⟨k, hk⟩ := h.kind id i hl; exact ⟨k, by rw [hi]; exact hk⟩
  · intro k id hm; rw [hi] at hm; exact h.typed k id hm

theorem lookup_snoc (l : List (Id × Nat)) (id x : Id) (n : Nat) :
    (l ++ [(id, n)]).lookup x = (l.lookup x).or (if x = id then some n else none) := by
  rw [List.lookup_append]
  congr 1
  simp only [List.lookup_cons, List.lookup_nil]
  by_cases h : x = id
  · simp [h]
  · have hb : (x == id) = false := beq_false_of_ne h
    simp [h, hb]

theorem Struct.ext {T} {ms ms' : Mid} (h : Struct T ms) (k : Kind) (id : Id)
    (hn : ms.lookup id = none) (hT : T k id)
    (he : ms'.elements = ms.elements ++ [(id, (ms.idsOf k).length)])
    (hk : ms'.idsOf k = ms.idsOf k ++ [id])
    (ho : ∀ k', k' ≠ k → ms'.idsOf k' = ms.idsOf k') : Struct T ms' := by
  have hl : ∀ x, ms'.lookup x = (ms.lookup x).or (if x = id then some (ms.idsOf k).length else none) := by
    intro x; unfold Mid.lookup; rw [he]; exact lookup_snoc _ _ _ _
  constructor
  · intro k' i x hx
    rw [hl]
    by_cases hkk : k' = k
    · subst hkk
      rw [hk] at hx
      by_cases hi : i < (ms.idsOf k').length
      · rw [List.getElem?_append_left hi] at hx
        rw [h.idx k' i x hx]; rfl
      · have hi' : (ms.idsOf k').length ≤ i := Nat.le_of_not_lt hi
        rw [List.getElem?_append_right hi'] at hx
        have : i - (ms.idsOf k').length = 0 ∧ x = id := by
          cases hj : i - (ms.idsOf k').length with
          | zero => rw [hj] at hx; simp at hx; exact ⟨rfl, hx.symm⟩
          | succ j => rw [hj] at hx; simp at hx
        obtain ⟨h0, rfl⟩ := this
        rw [hn]; simp only [Option.or, if_true]
        congr 1; omega
    · rw [ho k' hkk] at hx
      rw [h.idx k' i x hx]; rfl
  · intro x i hx
    rw [hl] at hx
    cases hlx : ms.lookup x with
    | some j =>
      rw [hlx] at hx
      have hji : j = i := by simpa [Option.or] using hx
      subst hji
      obtain ⟨k', hk'⟩ := h.kind x j hlx
      refine ⟨k', ?_⟩
      by_cases hkk : k' = k
      · subst hkk; rw [hk]
        have hj : j < (ms.idsOf k').length := by
          rcases Nat.lt_or_ge j (ms.idsOf k').length with hlt | hge
          · exact hlt
          · rw [List.getElem?_eq_none_iff.mpr hge] at hk'; cases hk'
        rw [List.getElem?_append_left hj]; exact hk'
      · rw [ho k' hkk]; exact hk'
    | none =>
      rw [hlx] at hx; simp only [Option.or] at hx
      split at hx
      · rename_i hxid; cases hx; subst hxid
        exact ⟨k, by rw [hk]; simp⟩
      · cases hx
  · intro k' x hm
    by_cases hkk : k' = k
    · subst hkk; rw [hk] at hm
      rcases List.mem_append.mp hm with hm | hm
      · exact h.typed k' x hm
      · simp at hm; subst hm; exact hT
    · rw [ho k' hkk] at hm; exact h.typed k' x hm

theorem Struct.lookup_kind {T} {ms : Mid} (h : Struct T ms) (hd : TDisj T) {k : Kind} {id : Id} {i : Nat}
    (hT : T k id) (hl : ms.lookup id = some i) : (ms.idsOf k)[i]? = some id := by
  obtain ⟨k', hk'⟩ := h.kind id i hl
  have : T k' id := h.typed k' id (List.mem_of_getElem? hk')
  rw [hd k k' id hT this]; exact hk'

theorem Struct.not_mem_of_lookup_none {T} {ms : Mid} (h : Struct T ms) {k : Kind} {id : Id}
    (hl : ms.lookup id = none) : id ∉ ms.idsOf k := by
  intro hm
  obtain ⟨i, hi⟩ := List.getElem?_of_mem hm
  rw [h.idx k i id hi] at hl; cases hl

/-- the two mid-states agree at every id outside `P` -/
def Agree (ms ms' : Mid) (P : Id → Prop) : Prop :=
  ms'.base = ms.base ∧ ∀ x, ¬ P x →
    ms'.lookup x = ms.lookup x ∧ ms'.scDiff? x = ms.scDiff? x ∧ ms'.sfDiff? x = ms.sfDiff? x ∧
    ms'.fc1Diff? x = ms.fc1Diff? x ∧ ms'.fc2Diff? x = ms.fc2Diff? x ∧ ms'.isSpent x = ms.isSpent x

theorem Agree.refl (ms : Mid) (P : Id → Prop) : Agree ms ms P :=
  ⟨rfl, fun _ _ => ⟨rfl, rfl, rfl, rfl, rfl, rfl⟩⟩

theorem Agree.mono {ms ms' : Mid} {P Q : Id → Prop} (h : Agree ms ms' P) (hpq : ∀ x, P x → Q x) : Agree ms ms' Q :=
  ⟨h.1, fun x hx => h.2 x (fun hp => hx (hpq x hp))⟩

theorem Agree.trans {ms ms' ms'' : Mid} {P : Id → Prop} (h1 : Agree ms ms' P) (h2 : Agree ms' ms'' P) : Agree ms ms'' P := by
  refine ⟨h2.1.trans h1.1, fun x hx => ?_⟩
  obtain ⟨a1, a2, a3, a4, a5, a6⟩ := h1.2 x hx
  obtain ⟨b1, b2, b3, b4, b5, b6⟩ := h2.2 x hx
  exact ⟨b1.trans a1, b2.trans a2, b3.trans a3, b4.trans a4, b5.trans a5, b6.trans a6⟩

theorem isSpent_cons (ms : Mid) (id x : Id) (h : x ≠ id) :
    ({ ms with spends := id :: ms.spends } : Mid).isSpent x = ms.isSpent x := by
  unfold Mid.isSpent
  simp only [List.contains_cons]
  have : (x == id) = false := by simp [h]
  rw [this]; rfl

-- ------------------------------------------------------------------ kind: sc

theorem putSc_base_c1 (ms : Mid) (id : Id) (f : ScDiff → ScDiff) : (ms.putSc id f).base = ms.base := by
  unfold Mid.putSc; split <;> rfl
theorem putSc_spends_c1 (ms : Mid) (id : Id) (f : ScDiff → ScDiff) : (ms.putSc id f).spends = ms.spends := by
  unfold Mid.putSc; split <;> rfl
theorem putSc_pool (ms : Mid) (id : Id) (f : ScDiff → ScDiff) : (ms.putSc id f).pool = ms.pool := by
  unfold Mid.putSc; split <;> rfl
theorem putSc_sfes (ms : Mid) (id : Id) (f : ScDiff → ScDiff) : (ms.putSc id f).sfes = ms.sfes := by
  unfold Mid.putSc; split <;> rfl
theorem putSc_fces (ms : Mid) (id : Id) (f : ScDiff → ScDiff) : (ms.putSc id f).fces = ms.fces := by
  unfold Mid.putSc; split <;> rfl
theorem putSc_v2fces (ms : Mid) (id : Id) (f : ScDiff → ScDiff) : (ms.putSc id f).v2fces = ms.v2fces := by
  unfold Mid.putSc; split <;> rfl


theorem scDiff?_eq (ms : Mid) (id : Id) :
    ms.scDiff? id = (ms.lookup id).bind (fun i => (ms.sces[i]?).bind (fun d => if d.e.id = id then some d else none)) := by
  unfold Mid.scDiff?
  cases ms.lookup id with
  | none => rfl
  | some i =>
    simp only [Option.bind_some, List.getD_eq_getElem?_getD]
    by_cases hi : i < ms.sces.length
    · rw [List.getElem?_eq_getElem hi]; simp [hi]
    · rw [List.getElem?_eq_none_iff.mpr (Nat.le_of_not_lt hi)]; simp [hi]

theorem scDiff?_some {ms : Mid} {id : Id} {d : ScDiff} (h : ms.scDiff? id = some d) :
    ∃ i, ms.lookup id = some i ∧ ms.sces[i]? = some d ∧ d.e.id = id := by
  rw [scDiff?_eq] at h
  cases hl : ms.lookup id with
  | none => rw [hl] at h; cases h
  | some i =>
    rw [hl] at h; simp only [Option.bind_some] at h
    cases hd : ms.sces[i]? with
    | none => rw [hd] at h; cases h
    | some d' =>
      rw [hd] at h; simp only [Option.bind_some] at h
      split at h
      · cases h; exact ⟨i, rfl, hd, by assumption⟩
      · cases h

theorem scDiff?_mem {ms : Mid} {id : Id} {d : ScDiff} (h : ms.scDiff? id = some d) : d ∈ ms.sces ∧ d.e.id = id := by
  obtain ⟨i, _, hd, hid⟩ := scDiff?_some h
  exact ⟨List.mem_of_getElem? hd, hid⟩

theorem scDiff?_none_of_lookup {ms : Mid} {id : Id} (h : ms.lookup id = none) : ms.scDiff? id = none := by
  rw [scDiff?_eq, h]; rfl

theorem Struct.scDiff?_of_lookup {T} {ms : Mid} (hS : Struct T ms) (hd : TDisj T) {id : Id} {i : Nat}
    (hT : T .sc id) (hl : ms.lookup id = some i) : ∃ d, ms.sces[i]? = some d ∧ d.e.id = id ∧ ms.scDiff? id = some d := by
  have hk := hS.lookup_kind hd hT hl
  simp only [Mid.idsOf, Mid.scIds, List.getElem?_map] at hk
  cases hd' : ms.sces[i]? with
  | none => rw [hd'] at hk; cases hk
  | some d =>
    rw [hd'] at hk; simp only [Option.map_some, Option.some.injEq] at hk
    refine ⟨d, rfl, hk, ?_⟩
    rw [scDiff?_eq, hl]; simp [hd', hk]

theorem Struct.scDiff?_none {T} {ms : Mid} (hS : Struct T ms) (hd : TDisj T) {id : Id}
    (hT : T .sc id) (h : ms.scDiff? id = none) : ms.lookup id = none := by
  cases hl : ms.lookup id with
  | none => rfl
  | some i =>
    obtain ⟨d, _, _, h'⟩ := hS.scDiff?_of_lookup hd hT hl
    rw [h] at h'; cases h'

theorem Struct.scDiff?_of_mem {T} {ms : Mid} (hS : Struct T ms) {d : ScDiff} (hm : d ∈ ms.sces) :
    ms.scDiff? d.e.id = some d := by
  obtain ⟨i, hi⟩ := List.getElem?_of_mem hm
  have : (ms.idsOf .sc)[i]? = some d.e.id := by simp [Mid.idsOf, Mid.scIds, hi]
  have hl := hS.idx .sc i d.e.id this
  rw [scDiff?_eq, hl]; simp [hi]

/-- the two ways `putSc` can go -/
theorem putSc_cases {T} {ms : Mid} (hS : Struct T ms) (hd : TDisj T) {id : Id} (hT : T .sc id) (f : ScDiff → ScDiff) :
    (∃ i d, ms.lookup id = some i ∧ ms.sces[i]? = some d ∧ d.e.id = id ∧ ms.scDiff? id = some d ∧
        ms.putSc id f = { ms with sces := ms.sces.set i (f d) }) ∨
    (ms.lookup id = none ∧ ms.scDiff? id = none ∧
        ms.putSc id f = { ms with sces := ms.sces ++ [f default], elements := ms.elements ++ [(id, ms.sces.length)] }) := by
  cases hl : ms.lookup id with
  | none =>
    right; refine ⟨rfl, scDiff?_none_of_lookup hl, ?_⟩
    unfold Mid.putSc; rw [hl]
  | some i =>
    left
    obtain ⟨d, hd1, hd2, hd3⟩ := hS.scDiff?_of_lookup hd hT hl
    refine ⟨i, d, rfl, hd1, hd2, hd3, ?_⟩
    unfold Mid.putSc listSet; rw [hl]; simp only []
    rw [List.getD_eq_getElem?_getD, hd1]; rfl

/-- the diff written by `putSc` -/
def scNew (ms : Mid) (id : Id) (f : ScDiff → ScDiff) : ScDiff := f ((ms.scDiff? id).getD default)

theorem putSc_struct {T} {ms : Mid} (hS : Struct T ms) (hd : TDisj T) {id : Id} (hT : T .sc id) (f : ScDiff → ScDiff)
    (hf : (scNew ms id f).e.id = id) : Struct T (ms.putSc id f) := by
  rcases putSc_cases hS hd hT f with ⟨i, d, hl, hi, hid, hv, he⟩ | ⟨hl, hv, he⟩
  · rw [he]
    refine Struct.same (ms' := { ms with sces := ms.sces.set i (f d) }) hS rfl ?_
    intro k
    cases k <;> try rfl
    simp only [Mid.idsOf, Mid.scIds]
    apply map_set_same _ _ _ _ _ hi
    unfold scNew at hf; rw [hv] at hf; simp only [Option.getD_some] at hf
    rw [hf, hid]
  · rw [he]
    unfold scNew at hf; rw [hv] at hf; simp only [Option.getD_none] at hf
    apply hS.ext .sc id hl hT
    · simp [Mid.idsOf, Mid.scIds]
    · simp [Mid.idsOf, Mid.scIds, hf]
    · intro k' hk'; cases k' <;> first | rfl | exact absurd rfl hk'

theorem putSc_view {T} {ms : Mid} (hS : Struct T ms) (hd : TDisj T) {id : Id} (hT : T .sc id) (f : ScDiff → ScDiff)
    (hf : (scNew ms id f).e.id = id) : (ms.putSc id f).scDiff? id = some (scNew ms id f) := by
  have hS' := putSc_struct hS hd hT f hf
  rcases putSc_cases hS hd hT f with ⟨i, d, hl, hi, hid, hv, he⟩ | ⟨hl, hv, he⟩
  · unfold scNew at hf ⊢; rw [hv] at hf ⊢; simp only [Option.getD_some] at hf ⊢
    rw [scDiff?_eq, he]
    have hlt : i < ms.sces.length := by
      rcases Nat.lt_or_ge i ms.sces.length with h | h
      · exact h
      · rw [List.getElem?_eq_none_iff.mpr h] at hi; cases hi
    show (ms.lookup id).bind _ = _
    rw [hl]; simp [List.getElem?_set, hlt, hf]
  · unfold scNew at hf ⊢; rw [hv] at hf ⊢; simp only [Option.getD_none] at hf ⊢
    rw [scDiff?_eq, he]
    have : ({ ms with sces := ms.sces ++ [f default], elements := ms.elements ++ [(id, ms.sces.length)] } : Mid).lookup id
        = some ms.sces.length := by
      unfold Mid.lookup at hl ⊢; simp only []; rw [lookup_snoc, hl]; simp
    rw [this]; simp [hf]

theorem putSc_mem {T} {ms : Mid} (hS : Struct T ms) (hd : TDisj T) {id : Id} (hT : T .sc id) (f : ScDiff → ScDiff)
    {d' : ScDiff} (hm : d' ∈ (ms.putSc id f).sces) : d' ∈ ms.sces ∨ d' = scNew ms id f := by
  rcases putSc_cases hS hd hT f with ⟨i, d, hl, hi, hid, hv, he⟩ | ⟨hl, hv, he⟩
  · rw [he] at hm; simp only [] at hm
    unfold scNew; rw [hv]; simp only [Option.getD_some]
    rcases List.mem_or_eq_of_mem_set hm with h | h
    · exact Or.inl h
    · exact Or.inr h
  · rw [he] at hm; simp only [] at hm
    unfold scNew; rw [hv]; simp only [Option.getD_none]
    rcases List.mem_append.mp hm with h | h
    · exact Or.inl h
    · simp at h; exact Or.inr h

theorem putSc_agree {T} {ms : Mid} (hS : Struct T ms) (hd : TDisj T) {id : Id} (hT : T .sc id) (f : ScDiff → ScDiff)
    (hf : (scNew ms id f).e.id = id) : Agree ms (ms.putSc id f) (· = id) := by
  refine ⟨putSc_base_c1 ms id f, fun x hx => ?_⟩
  have hx' : x ≠ id := hx
  rcases putSc_cases hS hd hT f with ⟨i, d, hl, hi, hid, hv, he⟩ | ⟨hl, hv, he⟩
  · unfold scNew at hf; rw [hv] at hf; simp only [Option.getD_some] at hf
    rw [he]
    refine ⟨rfl, ?_, rfl, rfl, rfl, rfl⟩
    rw [scDiff?_eq, scDiff?_eq]
    show (ms.lookup x).bind _ = _
    cases hlx : ms.lookup x with
    | none => rfl
    | some j =>
      simp only [Option.bind_some, List.getElem?_set]
      by_cases hij : i = j
      · subst hij
        have hlt : i < ms.sces.length := by
          rcases Nat.lt_or_ge i ms.sces.length with h | h
          · exact h
          · rw [List.getElem?_eq_none_iff.mpr h] at hi; cases hi
        have h1 : ¬ (f d).e.id = x := fun hh => hx' (hh ▸ hf)
        have h2 : ¬ d.e.id = x := fun hh => hx' (hh ▸ hid)
        have hg : ms.sces[i] = d := by
          have := List.getElem?_eq_getElem hlt; rw [this] at hi; exact Option.some.inj hi
        simp [hlt, hi, h1, h2, hg]
      · simp [hij]
  · unfold scNew at hf; rw [hv] at hf; simp only [Option.getD_none] at hf
    rw [he]
    have hlk : ∀ y, y ≠ id → ({ ms with sces := ms.sces ++ [f default], elements := ms.elements ++ [(id, ms.sces.length)] } : Mid).lookup y
        = ms.lookup y := by
      intro y hy; unfold Mid.lookup; simp only []; rw [lookup_snoc]; simp [hy]
    refine ⟨hlk x hx', ?_, ?_, ?_, ?_, rfl⟩
    · rw [scDiff?_eq, scDiff?_eq, hlk x hx']
      cases hlx : ms.lookup x with
      | none => rfl
      | some j =>
        simp only [Option.bind_some]
        by_cases hj : j < ms.sces.length
        · rw [List.getElem?_append_left hj]
        · have hj' : ms.sces.length ≤ j := Nat.le_of_not_lt hj
          rw [List.getElem?_eq_none_iff.mpr hj', List.getElem?_append_right hj']
          cases hjj : j - ms.sces.length with
          | zero =>
            have h1 : ¬ (f default).e.id = x := fun hh => hx' (hh ▸ hf)
            simp [h1]
          | succ n => simp
    · unfold Mid.sfDiff?; rw [hlk x hx']
    · unfold Mid.fc1Diff?; rw [hlk x hx']
    · unfold Mid.fc2Diff?; rw [hlk x hx']

theorem putSc_tot_found {T} {ms : Mid} (hS : Struct T ms) (hd : TDisj T) {id : Id} (hT : T .sc id) (f : ScDiff → ScDiff)
    (hf : (scNew ms id f).e.id = id) {d : ScDiff} (hv : ms.scDiff? id = some d) :
    scTot (ms.putSc id f) + scDv d = scTot ms + scDv (scNew ms id f) := by
  rcases putSc_cases hS hd hT f with ⟨i, d', hl, hi, hid, hv', he⟩ | ⟨hl, hv', he⟩
  · rw [hv] at hv'; cases hv'
    unfold scNew at hf ⊢; rw [hv] at hf ⊢; simp only [Option.getD_some] at hf ⊢
    rw [he]; unfold scTot Mid.scIds; simp only []
    rw [map_set_same _ _ _ _ _ hi (by rw [hf, hid])]
    have := sum_map_set ms.sces scDv i (f d) d hi
    omega
  · rw [hv] at hv'; cases hv'

theorem putSc_tot_fresh {T} {ms : Mid} (hS : Struct T ms) (hd : TDisj T) {id : Id} (hT : T .sc id) (f : ScDiff → ScDiff)
    (hf : (scNew ms id f).e.id = id) (hv : ms.scDiff? id = none) (hb : id ∉ ms.base.sc.map (·.id)) :
    scTot (ms.putSc id f) = scTot ms + scDv (scNew ms id f) := by
  rcases putSc_cases hS hd hT f with ⟨i, d', hl, hi, hid, hv', he⟩ | ⟨hl, hv', he⟩
  · rw [hv] at hv'; cases hv'
  · unfold scNew at hf ⊢; rw [hv] at hf ⊢; simp only [Option.getD_none] at hf ⊢
    rw [he]; unfold scTot Mid.scIds; simp only [List.map_append, List.map_cons, List.map_nil, List.sum_append, List.sum_cons, List.sum_nil]
    rw [hf, untouched_append_notin _ _ _ _ hb]
    omega

theorem putSc_tot_base {T} {ms : Mid} (hS : Struct T ms) (hd : TDisj T) {id : Id} (hT : T .sc id) (f : ScDiff → ScDiff)
    (hf : (scNew ms id f).e.id = id) (hv : ms.scDiff? id = none) {e : ScElem} (he : e ∈ ms.base.sc) (heid : e.id = id)
    (hn : (ms.base.sc.map (·.id)).Nodup) :
    scTot (ms.putSc id f) + e.value = scTot ms + scDv (scNew ms id f) := by
  rcases putSc_cases hS hd hT f with ⟨i, d', hl, hi, hid, hv', he'⟩ | ⟨hl, hv', he'⟩
  · rw [hv] at hv'; cases hv'
  · unfold scNew at hf ⊢; rw [hv] at hf ⊢; simp only [Option.getD_none] at hf ⊢
    rw [he']; unfold scTot Mid.scIds; simp only [List.map_append, List.map_cons, List.map_nil, List.sum_append, List.sum_cons, List.sum_nil]
    have hni : e.id ∉ ms.sces.map (·.e.id) := by
      have := hS.not_mem_of_lookup_none (k := .sc) hl
      rw [heid]; exact this
    have := untouched_append_in ms.base.sc (·.id) (·.value) (ms.sces.map (·.e.id)) e hn he hni
    rw [hf, ← heid]
    omega

-- ------------------------------------------------------------------ kind: sf

theorem putSf_base_c1 (ms : Mid) (id : Id) (f : SfDiff → SfDiff) : (ms.putSf id f).base = ms.base := by
  unfold Mid.putSf; split <;> rfl
theorem putSf_spends_c1 (ms : Mid) (id : Id) (f : SfDiff → SfDiff) : (ms.putSf id f).spends = ms.spends := by
  unfold Mid.putSf; split <;> rfl
theorem putSf_pool (ms : Mid) (id : Id) (f : SfDiff → SfDiff) : (ms.putSf id f).pool = ms.pool := by
  unfold Mid.putSf; split <;> rfl
theorem putSf_sces (ms : Mid) (id : Id) (f : SfDiff → SfDiff) : (ms.putSf id f).sces = ms.sces := by
  unfold Mid.putSf; split <;> rfl
theorem putSf_fces (ms : Mid) (id : Id) (f : SfDiff → SfDiff) : (ms.putSf id f).fces = ms.fces := by
  unfold Mid.putSf; split <;> rfl
theorem putSf_v2fces (ms : Mid) (id : Id) (f : SfDiff → SfDiff) : (ms.putSf id f).v2fces = ms.v2fces := by
  unfold Mid.putSf; split <;> rfl


theorem sfDiff?_eq (ms : Mid) (id : Id) :
    ms.sfDiff? id = (ms.lookup id).bind (fun i => (ms.sfes[i]?).bind (fun d => if d.e.id = id then some d else none)) := by
  unfold Mid.sfDiff?
  cases ms.lookup id with
  | none => rfl
  | some i =>
    simp only [Option.bind_some, List.getD_eq_getElem?_getD]
    by_cases hi : i < ms.sfes.length
    · rw [List.getElem?_eq_getElem hi]; simp [hi]
    · rw [List.getElem?_eq_none_iff.mpr (Nat.le_of_not_lt hi)]; simp [hi]

theorem sfDiff?_some {ms : Mid} {id : Id} {d : SfDiff} (h : ms.sfDiff? id = some d) :
    ∃ i, ms.lookup id = some i ∧ ms.sfes[i]? = some d ∧ d.e.id = id := by
  rw [sfDiff?_eq] at h
  cases hl : ms.lookup id with
  | none => rw [hl] at h; cases h
  | some i =>
    rw [hl] at h; simp only [Option.bind_some] at h
    cases hd : ms.sfes[i]? with
    | none => rw [hd] at h; cases h
    | some d' =>
      rw [hd] at h; simp only [Option.bind_some] at h
      split at h
      · cases h; exact ⟨i, rfl, hd, by assumption⟩
      · cases h

theorem sfDiff?_mem {ms : Mid} {id : Id} {d : SfDiff} (h : ms.sfDiff? id = some d) : d ∈ ms.sfes ∧ d.e.id = id := by
  obtain ⟨i, _, hd, hid⟩ := sfDiff?_some h
  exact ⟨List.mem_of_getElem? hd, hid⟩

theorem sfDiff?_none_of_lookup {ms : Mid} {id : Id} (h : ms.lookup id = none) : ms.sfDiff? id = none := by
  rw [sfDiff?_eq, h]; rfl

theorem Struct.sfDiff?_of_lookup {T} {ms : Mid} (hS : Struct T ms) (hd : TDisj T) {id : Id} {i : Nat}
    (hT : T .sf id) (hl : ms.lookup id = some i) : ∃ d, ms.sfes[i]? = some d ∧ d.e.id = id ∧ ms.sfDiff? id = some d := by
  have hk := hS.lookup_kind hd hT hl
  simp only [Mid.idsOf, Mid.sfIds, List.getElem?_map] at hk
  cases hd' : ms.sfes[i]? with
  | none => rw [hd'] at hk; cases hk
  | some d =>
    rw [hd'] at hk; simp only [Option.map_some, Option.some.injEq] at hk
    refine ⟨d, rfl, hk, ?_⟩
    rw [sfDiff?_eq, hl]; simp [hd', hk]

theorem Struct.sfDiff?_none {T} {ms : Mid} (hS : Struct T ms) (hd : TDisj T) {id : Id}
    (hT : T .sf id) (h : ms.sfDiff? id = none) : ms.lookup id = none := by
  cases hl : ms.lookup id with
  | none => rfl
  | some i =>
    obtain ⟨d, _, _, h'⟩ := hS.sfDiff?_of_lookup hd hT hl
    rw [h] at h'; cases h'

theorem Struct.sfDiff?_of_mem {T} {ms : Mid} (hS : Struct T ms) {d : SfDiff} (hm : d ∈ ms.sfes) :
    ms.sfDiff? d.e.id = some d := by
  obtain ⟨i, hi⟩ := List.getElem?_of_mem hm
  have : (ms.idsOf .sf)[i]? = some d.e.id := by simp [Mid.idsOf, Mid.sfIds, hi]
  have hl := hS.idx .sf i d.e.id this
  rw [sfDiff?_eq, hl]; simp [hi]

/-- the two ways `putSf` can go -/
theorem putSf_cases {T} {ms : Mid} (hS : Struct T ms) (hd : TDisj T) {id : Id} (hT : T .sf id) (f : SfDiff → SfDiff) :
    (∃ i d, ms.lookup id = some i ∧ ms.sfes[i]? = some d ∧ d.e.id = id ∧ ms.sfDiff? id = some d ∧
        ms.putSf id f = { ms with sfes := ms.sfes.set i (f d) }) ∨
    (ms.lookup id = none ∧ ms.sfDiff? id = none ∧
        ms.putSf id f = { ms with sfes := ms.sfes ++ [f default], elements := ms.elements ++ [(id, ms.sfes.length)] }) := by
  cases hl : ms.lookup id with
  | none =>
    right; refine ⟨rfl, sfDiff?_none_of_lookup hl, ?_⟩
    unfold Mid.putSf; rw [hl]
  | some i =>
    left
    obtain ⟨d, hd1, hd2, hd3⟩ := hS.sfDiff?_of_lookup hd hT hl
    refine ⟨i, d, rfl, hd1, hd2, hd3, ?_⟩
    unfold Mid.putSf listSet; rw [hl]; simp only []
    rw [List.getD_eq_getElem?_getD, hd1]; rfl

/-- the diff written by `putSf` -/
def sfNew (ms : Mid) (id : Id) (f : SfDiff → SfDiff) : SfDiff := f ((ms.sfDiff? id).getD default)

theorem putSf_struct {T} {ms : Mid} (hS : Struct T ms) (hd : TDisj T) {id : Id} (hT : T .sf id) (f : SfDiff → SfDiff)
    (hf : (sfNew ms id f).e.id = id) : Struct T (ms.putSf id f) := by
  rcases putSf_cases hS hd hT f with ⟨i, d, hl, hi, hid, hv, he⟩ | ⟨hl, hv, he⟩
  · rw [he]
    refine Struct.same (ms' := { ms with sfes := ms.sfes.set i (f d) }) hS rfl ?_
    intro k
    cases k <;> try rfl
    simp only [Mid.idsOf, Mid.sfIds]
    apply map_set_same _ _ _ _ _ hi
    unfold sfNew at hf; rw [hv] at hf; simp only [Option.getD_some] at hf
    rw [hf, hid]
  · rw [he]
    unfold sfNew at hf; rw [hv] at hf; simp only [Option.getD_none] at hf
    apply hS.ext .sf id hl hT
    · simp [Mid.idsOf, Mid.sfIds]
    · simp [Mid.idsOf, Mid.sfIds, hf]
    · intro k' hk'; cases k' <;> first | rfl | exact absurd rfl hk'

theorem putSf_view {T} {ms : Mid} (hS : Struct T ms) (hd : TDisj T) {id : Id} (hT : T .sf id) (f : SfDiff → SfDiff)
    (hf : (sfNew ms id f).e.id = id) : (ms.putSf id f).sfDiff? id = some (sfNew ms id f) := by
  have hS' := putSf_struct hS hd hT f hf
  rcases putSf_cases hS hd hT f with ⟨i, d, hl, hi, hid, hv, he⟩ | ⟨hl, hv, he⟩
  · unfold sfNew at hf ⊢; rw [hv] at hf ⊢; simp only [Option.getD_some] at hf ⊢
    rw [sfDiff?_eq, he]
    have hlt : i < ms.sfes.length := by
      rcases Nat.lt_or_ge i ms.sfes.length with h | h
      · exact h
      · rw [List.getElem?_eq_none_iff.mpr h] at hi; cases hi
    show (ms.lookup id).bind _ = _
    rw [hl]; simp [List.getElem?_set, hlt, hf]
  · unfold sfNew at hf ⊢; rw [hv] at hf ⊢; simp only [Option.getD_none] at hf ⊢
    rw [sfDiff?_eq, he]
    have : ({ ms with sfes := ms.sfes ++ [f default], elements := ms.elements ++ [(id, ms.sfes.length)] } : Mid).lookup id
        = some ms.sfes.length := by
      unfold Mid.lookup at hl ⊢; simp only []; rw [lookup_snoc, hl]; simp
    rw [this]; simp [hf]

theorem putSf_mem {T} {ms : Mid} (hS : Struct T ms) (hd : TDisj T) {id : Id} (hT : T .sf id) (f : SfDiff → SfDiff)
    {d' : SfDiff} (hm : d' ∈ (ms.putSf id f).sfes) : d' ∈ ms.sfes ∨ d' = sfNew ms id f := by
  rcases putSf_cases hS hd hT f with ⟨i, d, hl, hi, hid, hv, he⟩ | ⟨hl, hv, he⟩
  · rw [he] at hm; simp only [] at hm
    unfold sfNew; rw [hv]; simp only [Option.getD_some]
    rcases List.mem_or_eq_of_mem_set hm with h | h
    · exact Or.inl h
    · exact Or.inr h
  · rw [he] at hm; simp only [] at hm
    unfold sfNew; rw [hv]; simp only [Option.getD_none]
    rcases List.mem_append.mp hm with h | h
    · exact Or.inl h
    · simp at h; exact Or.inr h

theorem putSf_agree {T} {ms : Mid} (hS : Struct T ms) (hd : TDisj T) {id : Id} (hT : T .sf id) (f : SfDiff → SfDiff)
    (hf : (sfNew ms id f).e.id = id) : Agree ms (ms.putSf id f) (· = id) := by
  refine ⟨putSf_base_c1 ms id f, fun x hx => ?_⟩
  have hx' : x ≠ id := hx
  rcases putSf_cases hS hd hT f with ⟨i, d, hl, hi, hid, hv, he⟩ | ⟨hl, hv, he⟩
  · unfold sfNew at hf; rw [hv] at hf; simp only [Option.getD_some] at hf
    rw [he]
    refine ⟨rfl, rfl, ?_, rfl, rfl, rfl⟩
    rw [sfDiff?_eq, sfDiff?_eq]
    show (ms.lookup x).bind _ = _
    cases hlx : ms.lookup x with
    | none => rfl
    | some j =>
      simp only [Option.bind_some, List.getElem?_set]
      by_cases hij : i = j
      · subst hij
        have hlt : i < ms.sfes.length := by
          rcases Nat.lt_or_ge i ms.sfes.length with h | h
          · exact h
          · rw [List.getElem?_eq_none_iff.mpr h] at hi; cases hi
        have h1 : ¬ (f d).e.id = x := fun hh => hx' (hh ▸ hf)
        have h2 : ¬ d.e.id = x := fun hh => hx' (hh ▸ hid)
        have hg : ms.sfes[i] = d := by
          have := List.getElem?_eq_getElem hlt; rw [this] at hi; exact Option.some.inj hi
        simp [hlt, hi, h1, h2, hg]
      · simp [hij]
  · unfold sfNew at hf; rw [hv] at hf; simp only [Option.getD_none] at hf
    rw [he]
    have hlk : ∀ y, y ≠ id → ({ ms with sfes := ms.sfes ++ [f default], elements := ms.elements ++ [(id, ms.sfes.length)] } : Mid).lookup y
        = ms.lookup y := by
      intro y hy; unfold Mid.lookup; simp only []; rw [lookup_snoc]; simp [hy]
    refine ⟨hlk x hx', ?_, ?_, ?_, ?_, rfl⟩
    · unfold Mid.scDiff?; rw [hlk x hx']
    · rw [sfDiff?_eq, sfDiff?_eq, hlk x hx']
      cases hlx : ms.lookup x with
      | none => rfl
      | some j =>
        simp only [Option.bind_some]
        by_cases hj : j < ms.sfes.length
        · rw [List.getElem?_append_left hj]
        · have hj' : ms.sfes.length ≤ j := Nat.le_of_not_lt hj
          rw [List.getElem?_eq_none_iff.mpr hj', List.getElem?_append_right hj']
          cases hjj : j - ms.sfes.length with
          | zero =>
            have h1 : ¬ (f default).e.id = x := fun hh => hx' (hh ▸ hf)
            simp [h1]
          | succ n => simp
    · unfold Mid.fc1Diff?; rw [hlk x hx']
    · unfold Mid.fc2Diff?; rw [hlk x hx']

theorem putSf_tot_found {T} {ms : Mid} (hS : Struct T ms) (hd : TDisj T) {id : Id} (hT : T .sf id) (f : SfDiff → SfDiff)
    (hf : (sfNew ms id f).e.id = id) {d : SfDiff} (hv : ms.sfDiff? id = some d) :
    sfTot (ms.putSf id f) + sfDv d = sfTot ms + sfDv (sfNew ms id f) := by
  rcases putSf_cases hS hd hT f with ⟨i, d', hl, hi, hid, hv', he⟩ | ⟨hl, hv', he⟩
  · rw [hv] at hv'; cases hv'
    unfold sfNew at hf ⊢; rw [hv] at hf ⊢; simp only [Option.getD_some] at hf ⊢
    rw [he]; unfold sfTot Mid.sfIds; simp only []
    rw [map_set_same _ _ _ _ _ hi (by rw [hf, hid])]
    have := sum_map_set ms.sfes sfDv i (f d) d hi
    omega
  · rw [hv] at hv'; cases hv'

theorem putSf_tot_fresh {T} {ms : Mid} (hS : Struct T ms) (hd : TDisj T) {id : Id} (hT : T .sf id) (f : SfDiff → SfDiff)
    (hf : (sfNew ms id f).e.id = id) (hv : ms.sfDiff? id = none) (hb : id ∉ ms.base.sf.map (·.id)) :
    sfTot (ms.putSf id f) = sfTot ms + sfDv (sfNew ms id f) := by
  rcases putSf_cases hS hd hT f with ⟨i, d', hl, hi, hid, hv', he⟩ | ⟨hl, hv', he⟩
  · rw [hv] at hv'; cases hv'
  · unfold sfNew at hf ⊢; rw [hv] at hf ⊢; simp only [Option.getD_none] at hf ⊢
    rw [he]; unfold sfTot Mid.sfIds; simp only [List.map_append, List.map_cons, List.map_nil, List.sum_append, List.sum_cons, List.sum_nil]
    rw [hf, untouched_append_notin _ _ _ _ hb]
    omega

theorem putSf_tot_base {T} {ms : Mid} (hS : Struct T ms) (hd : TDisj T) {id : Id} (hT : T .sf id) (f : SfDiff → SfDiff)
    (hf : (sfNew ms id f).e.id = id) (hv : ms.sfDiff? id = none) {e : SfElem} (he : e ∈ ms.base.sf) (heid : e.id = id)
    (hn : (ms.base.sf.map (·.id)).Nodup) :
    sfTot (ms.putSf id f) + e.value = sfTot ms + sfDv (sfNew ms id f) := by
  rcases putSf_cases hS hd hT f with ⟨i, d', hl, hi, hid, hv', he'⟩ | ⟨hl, hv', he'⟩
  · rw [hv] at hv'; cases hv'
  · unfold sfNew at hf ⊢; rw [hv] at hf ⊢; simp only [Option.getD_none] at hf ⊢
    rw [he']; unfold sfTot Mid.sfIds; simp only [List.map_append, List.map_cons, List.map_nil, List.sum_append, List.sum_cons, List.sum_nil]
    have hni : e.id ∉ ms.sfes.map (·.e.id) := by
      have := hS.not_mem_of_lookup_none (k := .sf) hl
      rw [heid]; exact this
    have := untouched_append_in ms.base.sf (·.id) (·.value) (ms.sfes.map (·.e.id)) e hn he hni
    rw [hf, ← heid]
    omega

-- ------------------------------------------------------------------ kind: fc1

theorem putFc1_base_c1 (ms : Mid) (id : Id) (f : Fc1Diff → Fc1Diff) : (ms.putFc1 id f).base = ms.base := by
  unfold Mid.putFc1; split <;> rfl
theorem putFc1_spends_c1 (ms : Mid) (id : Id) (f : Fc1Diff → Fc1Diff) : (ms.putFc1 id f).spends = ms.spends := by
  unfold Mid.putFc1; split <;> rfl
theorem putFc1_pool (ms : Mid) (id : Id) (f : Fc1Diff → Fc1Diff) : (ms.putFc1 id f).pool = ms.pool := by
  unfold Mid.putFc1; split <;> rfl
theorem putFc1_sces_c1 (ms : Mid) (id : Id) (f : Fc1Diff → Fc1Diff) : (ms.putFc1 id f).sces = ms.sces := by
  unfold Mid.putFc1; split <;> rfl
theorem putFc1_sfes (ms : Mid) (id : Id) (f : Fc1Diff → Fc1Diff) : (ms.putFc1 id f).sfes = ms.sfes := by
  unfold Mid.putFc1; split <;> rfl
theorem putFc1_v2fces (ms : Mid) (id : Id) (f : Fc1Diff → Fc1Diff) : (ms.putFc1 id f).v2fces = ms.v2fces := by
  unfold Mid.putFc1; split <;> rfl


theorem fc1Diff?_eq (ms : Mid) (id : Id) :
    ms.fc1Diff? id = (ms.lookup id).bind (fun i => (ms.fces[i]?).bind (fun d => if d.e.id = id then some d else none)) := by
  unfold Mid.fc1Diff?
  cases ms.lookup id with
  | none => rfl
  | some i =>
    simp only [Option.bind_some, List.getD_eq_getElem?_getD]
    by_cases hi : i < ms.fces.length
    · rw [List.getElem?_eq_getElem hi]; simp [hi]
    · rw [List.getElem?_eq_none_iff.mpr (Nat.le_of_not_lt hi)]; simp [hi]

theorem fc1Diff?_some {ms : Mid} {id : Id} {d : Fc1Diff} (h : ms.fc1Diff? id = some d) :
    ∃ i, ms.lookup id = some i ∧ ms.fces[i]? = some d ∧ d.e.id = id := by
  rw [fc1Diff?_eq] at h
  cases hl : ms.lookup id with
  | none => rw [hl] at h; cases h
  | some i =>
    rw [hl] at h; simp only [Option.bind_some] at h
    cases hd : ms.fces[i]? with
    | none => rw [hd] at h; cases h
    | some d' =>
      rw [hd] at h; simp only [Option.bind_some] at h
      split at h
      · cases h; exact ⟨i, rfl, hd, by assumption⟩
      · cases h

theorem fc1Diff?_mem {ms : Mid} {id : Id} {d : Fc1Diff} (h : ms.fc1Diff? id = some d) : d ∈ ms.fces ∧ d.e.id = id := by
  obtain ⟨i, _, hd, hid⟩ := fc1Diff?_some h
  exact ⟨List.mem_of_getElem? hd, hid⟩

theorem fc1Diff?_none_of_lookup {ms : Mid} {id : Id} (h : ms.lookup id = none) : ms.fc1Diff? id = none := by
  rw [fc1Diff?_eq, h]; rfl

theorem Struct.fc1Diff?_of_lookup {T} {ms : Mid} (hS : Struct T ms) (hd : TDisj T) {id : Id} {i : Nat}
    (hT : T .fc1 id) (hl : ms.lookup id = some i) : ∃ d, ms.fces[i]? = some d ∧ d.e.id = id ∧ ms.fc1Diff? id = some d := by
  have hk := hS.lookup_kind hd hT hl
  simp only [Mid.idsOf, Mid.fc1Ids, List.getElem?_map] at hk
  cases hd' : ms.fces[i]? with
  | none => rw [hd'] at hk; cases hk
  | some d =>
    rw [hd'] at hk; simp only [Option.map_some, Option.some.injEq] at hk
    refine ⟨d, rfl, hk, ?_⟩
    rw [fc1Diff?_eq, hl]; simp [hd', hk]

theorem Struct.fc1Diff?_none {T} {ms : Mid} (hS : Struct T ms) (hd : TDisj T) {id : Id}
    (hT : T .fc1 id) (h : ms.fc1Diff? id = none) : ms.lookup id = none := by
  cases hl : ms.lookup id with
  | none => rfl
  | some i =>
    obtain ⟨d, _, _, h'⟩ := hS.fc1Diff?_of_lookup hd hT hl
    rw [h] at h'; cases h'

theorem Struct.fc1Diff?_of_mem {T} {ms : Mid} (hS : Struct T ms) {d : Fc1Diff} (hm : d ∈ ms.fces) :
    ms.fc1Diff? d.e.id = some d := by
  obtain ⟨i, hi⟩ := List.getElem?_of_mem hm
  have : (ms.idsOf .fc1)[i]? = some d.e.id := by simp [Mid.idsOf, Mid.fc1Ids, hi]
  have hl := hS.idx .fc1 i d.e.id this
  rw [fc1Diff?_eq, hl]; simp [hi]

/-- the two ways `putFc1` can go -/
theorem putFc1_cases {T} {ms : Mid} (hS : Struct T ms) (hd : TDisj T) {id : Id} (hT : T .fc1 id) (f : Fc1Diff → Fc1Diff) :
    (∃ i d, ms.lookup id = some i ∧ ms.fces[i]? = some d ∧ d.e.id = id ∧ ms.fc1Diff? id = some d ∧
        ms.putFc1 id f = { ms with fces := ms.fces.set i (f d) }) ∨
    (ms.lookup id = none ∧ ms.fc1Diff? id = none ∧
        ms.putFc1 id f = { ms with fces := ms.fces ++ [f default], elements := ms.elements ++ [(id, ms.fces.length)] }) := by
  cases hl : ms.lookup id with
  | none =>
    right; refine ⟨rfl, fc1Diff?_none_of_lookup hl, ?_⟩
    unfold Mid.putFc1; rw [hl]
  | some i =>
    left
    obtain ⟨d, hd1, hd2, hd3⟩ := hS.fc1Diff?_of_lookup hd hT hl
    refine ⟨i, d, rfl, hd1, hd2, hd3, ?_⟩
    unfold Mid.putFc1 listSet; rw [hl]; simp only []
    rw [List.getD_eq_getElem?_getD, hd1]; rfl

/-- the diff written by `putFc1` -/
def fc1New (ms : Mid) (id : Id) (f : Fc1Diff → Fc1Diff) : Fc1Diff := f ((ms.fc1Diff? id).getD default)

theorem putFc1_struct {T} {ms : Mid} (hS : Struct T ms) (hd : TDisj T) {id : Id} (hT : T .fc1 id) (f : Fc1Diff → Fc1Diff)
    (hf : (fc1New ms id f).e.id = id) : Struct T (ms.putFc1 id f) := by
  rcases putFc1_cases hS hd hT f with ⟨i, d, hl, hi, hid, hv, he⟩ | ⟨hl, hv, he⟩
  · rw [he]
    refine Struct.same (ms' := { ms with fces := ms.fces.set i (f d) }) hS rfl ?_
    intro k
    cases k <;> try rfl
    simp only [Mid.idsOf, Mid.fc1Ids]
    apply map_set_same _ _ _ _ _ hi
    unfold fc1New at hf; rw [hv] at hf; simp only [Option.getD_some] at hf
    rw [hf, hid]
  · rw [he]
    unfold fc1New at hf; rw [hv] at hf; simp only [Option.getD_none] at hf
    apply hS.ext .fc1 id hl hT
    · simp [Mid.idsOf, Mid.fc1Ids]
    · simp [Mid.idsOf, Mid.fc1Ids, hf]
    · intro k' hk'; cases k' <;> first | rfl | exact absurd rfl hk'

theorem putFc1_view {T} {ms : Mid} (hS : Struct T ms) (hd : TDisj T) {id : Id} (hT : T .fc1 id) (f : Fc1Diff → Fc1Diff)
    (hf : (fc1New ms id f).e.id = id) : (ms.putFc1 id f).fc1Diff? id = some (fc1New ms id f) := by
  have hS' := putFc1_struct hS hd hT f hf
  rcases putFc1_cases hS hd hT f with ⟨i, d, hl, hi, hid, hv, he⟩ | ⟨hl, hv, he⟩
  · unfold fc1New at hf ⊢; rw [hv] at hf ⊢; simp only [Option.getD_some] at hf ⊢
    rw [fc1Diff?_eq, he]
    have hlt : i < ms.fces.length := by
      rcases Nat.lt_or_ge i ms.fces.length with h | h
      · exact h
      · rw [List.getElem?_eq_none_iff.mpr h] at hi; cases hi
    show (ms.lookup id).bind _ = _
    rw [hl]; simp [List.getElem?_set, hlt, hf]
  · unfold fc1New at hf ⊢; rw [hv] at hf ⊢; simp only [Option.getD_none] at hf ⊢
    rw [fc1Diff?_eq, he]
    have : ({ ms with fces := ms.fces ++ [f default], elements := ms.elements ++ [(id, ms.fces.length)] } : Mid).lookup id
        = some ms.fces.length := by
      unfold Mid.lookup at hl ⊢; simp only []; rw [lookup_snoc, hl]; simp
    rw [this]; simp [hf]

theorem putFc1_mem {T} {ms : Mid} (hS : Struct T ms) (hd : TDisj T) {id : Id} (hT : T .fc1 id) (f : Fc1Diff → Fc1Diff)
    {d' : Fc1Diff} (hm : d' ∈ (ms.putFc1 id f).fces) : d' ∈ ms.fces ∨ d' = fc1New ms id f := by
  rcases putFc1_cases hS hd hT f with ⟨i, d, hl, hi, hid, hv, he⟩ | ⟨hl, hv, he⟩
  · rw [he] at hm; simp only [] at hm
    unfold fc1New; rw [hv]; simp only [Option.getD_some]
    rcases List.mem_or_eq_of_mem_set hm with h | h
    · exact Or.inl h
    · exact Or.inr h
  · rw [he] at hm; simp only [] at hm
    unfold fc1New; rw [hv]; simp only [Option.getD_none]
    rcases List.mem_append.mp hm with h | h
    · exact Or.inl h
    · simp at h; exact Or.inr h

theorem putFc1_agree {T} {ms : Mid} (hS : Struct T ms) (hd : TDisj T) {id : Id} (hT : T .fc1 id) (f : Fc1Diff → Fc1Diff)
    (hf : (fc1New ms id f).e.id = id) : Agree ms (ms.putFc1 id f) (· = id) := by
  refine ⟨putFc1_base_c1 ms id f, fun x hx => ?_⟩
  have hx' : x ≠ id := hx
  rcases putFc1_cases hS hd hT f with ⟨i, d, hl, hi, hid, hv, he⟩ | ⟨hl, hv, he⟩
  · unfold fc1New at hf; rw [hv] at hf; simp only [Option.getD_some] at hf
    rw [he]
    refine ⟨rfl, rfl, rfl, ?_, rfl, rfl⟩
    rw [fc1Diff?_eq, fc1Diff?_eq]
    show (ms.lookup x).bind _ = _
    cases hlx : ms.lookup x with
    | none => rfl
    | some j =>
      simp only [Option.bind_some, List.getElem?_set]
      by_cases hij : i = j
      · subst hij
        have hlt : i < ms.fces.length := by
          rcases Nat.lt_or_ge i ms.fces.length with h | h
          · exact h
          · rw [List.getElem?_eq_none_iff.mpr h] at hi; cases hi
        have h1 : ¬ (f d).e.id = x := fun hh => hx' (hh ▸ hf)
        have h2 : ¬ d.e.id = x := fun hh => hx' (hh ▸ hid)
        have hg : ms.fces[i] = d := by
          have := List.getElem?_eq_getElem hlt; rw [this] at hi; exact Option.some.inj hi
        simp [hlt, hi, h1, h2, hg]
      · simp [hij]
  · unfold fc1New at hf; rw [hv] at hf; simp only [Option.getD_none] at hf
    rw [he]
    have hlk : ∀ y, y ≠ id → ({ ms with fces := ms.fces ++ [f default], elements := ms.elements ++ [(id, ms.fces.length)] } : Mid).lookup y
        = ms.lookup y := by
      intro y hy; unfold Mid.lookup; simp only []; rw [lookup_snoc]; simp [hy]
    refine ⟨hlk x hx', ?_, ?_, ?_, ?_, rfl⟩
    · unfold Mid.scDiff?; rw [hlk x hx']
    · unfold Mid.sfDiff?; rw [hlk x hx']
    · rw [fc1Diff?_eq, fc1Diff?_eq, hlk x hx']
      cases hlx : ms.lookup x with
      | none => rfl
      | some j =>
        simp only [Option.bind_some]
        by_cases hj : j < ms.fces.length
        · rw [List.getElem?_append_left hj]
        · have hj' : ms.fces.length ≤ j := Nat.le_of_not_lt hj
          rw [List.getElem?_eq_none_iff.mpr hj', List.getElem?_append_right hj']
          cases hjj : j - ms.fces.length with
          | zero =>
            have h1 : ¬ (f default).e.id = x := fun hh => hx' (hh ▸ hf)
            simp [h1]
          | succ n => simp
    · unfold Mid.fc2Diff?; rw [hlk x hx']

theorem putFc1_tot_found {T} {ms : Mid} (hS : Struct T ms) (hd : TDisj T) {id : Id} (hT : T .fc1 id) (f : Fc1Diff → Fc1Diff)
    (hf : (fc1New ms id f).e.id = id) {d : Fc1Diff} (hv : ms.fc1Diff? id = some d) :
    fc1Tot (ms.putFc1 id f) + fc1Dv d = fc1Tot ms + fc1Dv (fc1New ms id f) := by
  rcases putFc1_cases hS hd hT f with ⟨i, d', hl, hi, hid, hv', he⟩ | ⟨hl, hv', he⟩
  · rw [hv] at hv'; cases hv'
    unfold fc1New at hf ⊢; rw [hv] at hf ⊢; simp only [Option.getD_some] at hf ⊢
    rw [he]; unfold fc1Tot Mid.fc1Ids; simp only []
    rw [map_set_same _ _ _ _ _ hi (by rw [hf, hid])]
    have := sum_map_set ms.fces fc1Dv i (f d) d hi
    omega
  · rw [hv] at hv'; cases hv'

theorem putFc1_tot_fresh {T} {ms : Mid} (hS : Struct T ms) (hd : TDisj T) {id : Id} (hT : T .fc1 id) (f : Fc1Diff → Fc1Diff)
    (hf : (fc1New ms id f).e.id = id) (hv : ms.fc1Diff? id = none) (hb : id ∉ ms.base.fc1.map (·.id)) :
    fc1Tot (ms.putFc1 id f) = fc1Tot ms + fc1Dv (fc1New ms id f) := by
  rcases putFc1_cases hS hd hT f with ⟨i, d', hl, hi, hid, hv', he⟩ | ⟨hl, hv', he⟩
  · rw [hv] at hv'; cases hv'
  · unfold fc1New at hf ⊢; rw [hv] at hf ⊢; simp only [Option.getD_none] at hf ⊢
    rw [he]; unfold fc1Tot Mid.fc1Ids; simp only [List.map_append, List.map_cons, List.map_nil, List.sum_append, List.sum_cons, List.sum_nil]
    rw [hf, untouched_append_notin _ _ _ _ hb]
    omega

theorem putFc1_tot_base {T} {ms : Mid} (hS : Struct T ms) (hd : TDisj T) {id : Id} (hT : T .fc1 id) (f : Fc1Diff → Fc1Diff)
    (hf : (fc1New ms id f).e.id = id) (hv : ms.fc1Diff? id = none) {e : Fc1Elem} (he : e ∈ ms.base.fc1) (heid : e.id = id)
    (hn : (ms.base.fc1.map (·.id)).Nodup) :
    fc1Tot (ms.putFc1 id f) + e.fc.val = fc1Tot ms + fc1Dv (fc1New ms id f) := by
  rcases putFc1_cases hS hd hT f with ⟨i, d', hl, hi, hid, hv', he'⟩ | ⟨hl, hv', he'⟩
  · rw [hv] at hv'; cases hv'
  · unfold fc1New at hf ⊢; rw [hv] at hf ⊢; simp only [Option.getD_none] at hf ⊢
    rw [he']; unfold fc1Tot Mid.fc1Ids; simp only [List.map_append, List.map_cons, List.map_nil, List.sum_append, List.sum_cons, List.sum_nil]
    have hni : e.id ∉ ms.fces.map (·.e.id) := by
      have := hS.not_mem_of_lookup_none (k := .fc1) hl
      rw [heid]; exact this
    have := untouched_append_in ms.base.fc1 (·.id) (·.fc.val) (ms.fces.map (·.e.id)) e hn he hni
    rw [hf, ← heid]
    omega

-- ------------------------------------------------------------------ kind: fc2

theorem putFc2_base_c1 (ms : Mid) (id : Id) (f : Fc2Diff → Fc2Diff) : (ms.putFc2 id f).base = ms.base := by
  unfold Mid.putFc2; split <;> rfl
theorem putFc2_spends_c1 (ms : Mid) (id : Id) (f : Fc2Diff → Fc2Diff) : (ms.putFc2 id f).spends = ms.spends := by
  unfold Mid.putFc2; split <;> rfl
theorem putFc2_pool (ms : Mid) (id : Id) (f : Fc2Diff → Fc2Diff) : (ms.putFc2 id f).pool = ms.pool := by
  unfold Mid.putFc2; split <;> rfl
theorem putFc2_sces_c1 (ms : Mid) (id : Id) (f : Fc2Diff → Fc2Diff) : (ms.putFc2 id f).sces = ms.sces := by
  unfold Mid.putFc2; split <;> rfl
theorem putFc2_sfes (ms : Mid) (id : Id) (f : Fc2Diff → Fc2Diff) : (ms.putFc2 id f).sfes = ms.sfes := by
  unfold Mid.putFc2; split <;> rfl
theorem putFc2_fces (ms : Mid) (id : Id) (f : Fc2Diff → Fc2Diff) : (ms.putFc2 id f).fces = ms.fces := by
  unfold Mid.putFc2; split <;> rfl


theorem fc2Diff?_eq (ms : Mid) (id : Id) :
    ms.fc2Diff? id = (ms.lookup id).bind (fun i => (ms.v2fces[i]?).bind (fun d => if d.e.id = id then some d else none)) := by
  unfold Mid.fc2Diff?
  cases ms.lookup id with
  | none => rfl
  | some i =>
    simp only [Option.bind_some, List.getD_eq_getElem?_getD]
    by_cases hi : i < ms.v2fces.length
    · rw [List.getElem?_eq_getElem hi]; simp [hi]
    · rw [List.getElem?_eq_none_iff.mpr (Nat.le_of_not_lt hi)]; simp [hi]

theorem fc2Diff?_some {ms : Mid} {id : Id} {d : Fc2Diff} (h : ms.fc2Diff? id = some d) :
    ∃ i, ms.lookup id = some i ∧ ms.v2fces[i]? = some d ∧ d.e.id = id := by
  rw [fc2Diff?_eq] at h
  cases hl : ms.lookup id with
  | none => rw [hl] at h; cases h
  | some i =>
    rw [hl] at h; simp only [Option.bind_some] at h
    cases hd : ms.v2fces[i]? with
    | none => rw [hd] at h; cases h
    | some d' =>
      rw [hd] at h; simp only [Option.bind_some] at h
      split at h
      · cases h; exact ⟨i, rfl, hd, by assumption⟩
      · cases h

theorem fc2Diff?_mem {ms : Mid} {id : Id} {d : Fc2Diff} (h : ms.fc2Diff? id = some d) : d ∈ ms.v2fces ∧ d.e.id = id := by
  obtain ⟨i, _, hd, hid⟩ := fc2Diff?_some h
  exact ⟨List.mem_of_getElem? hd, hid⟩

theorem fc2Diff?_none_of_lookup {ms : Mid} {id : Id} (h : ms.lookup id = none) : ms.fc2Diff? id = none := by
  rw [fc2Diff?_eq, h]; rfl

theorem Struct.fc2Diff?_of_lookup {T} {ms : Mid} (hS : Struct T ms) (hd : TDisj T) {id : Id} {i : Nat}
    (hT : T .fc2 id) (hl : ms.lookup id = some i) : ∃ d, ms.v2fces[i]? = some d ∧ d.e.id = id ∧ ms.fc2Diff? id = some d := by
  have hk := hS.lookup_kind hd hT hl
  simp only [Mid.idsOf, Mid.fc2Ids, List.getElem?_map] at hk
  cases hd' : ms.v2fces[i]? with
  | none => rw [hd'] at hk; cases hk
  | some d =>
    rw [hd'] at hk; simp only [Option.map_some, Option.some.injEq] at hk
    refine ⟨d, rfl, hk, ?_⟩
    rw [fc2Diff?_eq, hl]; simp [hd', hk]

theorem Struct.fc2Diff?_none {T} {ms : Mid} (hS : Struct T ms) (hd : TDisj T) {id : Id}
    (hT : T .fc2 id) (h : ms.fc2Diff? id = none) : ms.lookup id = none := by
  cases hl : ms.lookup id with
  | none => rfl
  | some i =>
    obtain ⟨d, _, _, h'⟩ := hS.fc2Diff?_of_lookup hd hT hl
    rw [h] at h'; cases h'

theorem Struct.fc2Diff?_of_mem {T} {ms : Mid} (hS : Struct T ms) {d : Fc2Diff} (hm : d ∈ ms.v2fces) :
    ms.fc2Diff? d.e.id = some d := by
  obtain ⟨i, hi⟩ := List.getElem?_of_mem hm
  have : (ms.idsOf .fc2)[i]? = some d.e.id := by simp [Mid.idsOf, Mid.fc2Ids, hi]
  have hl := hS.idx .fc2 i d.e.id this
  rw [fc2Diff?_eq, hl]; simp [hi]

/-- the two ways `putFc2` can go -/
theorem putFc2_cases {T} {ms : Mid} (hS : Struct T ms) (hd : TDisj T) {id : Id} (hT : T .fc2 id) (f : Fc2Diff → Fc2Diff) :
    (∃ i d, ms.lookup id = some i ∧ ms.v2fces[i]? = some d ∧ d.e.id = id ∧ ms.fc2Diff? id = some d ∧
        ms.putFc2 id f = { ms with v2fces := ms.v2fces.set i (f d) }) ∨
    (ms.lookup id = none ∧ ms.fc2Diff? id = none ∧
        ms.putFc2 id f = { ms with v2fces := ms.v2fces ++ [f default], elements := ms.elements ++ [(id, ms.v2fces.length)] }) := by
  cases hl : ms.lookup id with
  | none =>
    right; refine ⟨rfl, fc2Diff?_none_of_lookup hl, ?_⟩
    unfold Mid.putFc2; rw [hl]
  | some i =>
    left
    obtain ⟨d, hd1, hd2, hd3⟩ := hS.fc2Diff?_of_lookup hd hT hl
    refine ⟨i, d, rfl, hd1, hd2, hd3, ?_⟩
    unfold Mid.putFc2 listSet; rw [hl]; simp only []
    rw [List.getD_eq_getElem?_getD, hd1]; rfl

/-- the diff written by `putFc2` -/
def fc2New (ms : Mid) (id : Id) (f : Fc2Diff → Fc2Diff) : Fc2Diff := f ((ms.fc2Diff? id).getD default)

theorem putFc2_struct {T} {ms : Mid} (hS : Struct T ms) (hd : TDisj T) {id : Id} (hT : T .fc2 id) (f : Fc2Diff → Fc2Diff)
    (hf : (fc2New ms id f).e.id = id) : Struct T (ms.putFc2 id f) := by
  rcases putFc2_cases hS hd hT f with ⟨i, d, hl, hi, hid, hv, he⟩ | ⟨hl, hv, he⟩
  · rw [he]
    refine Struct.same (ms' := { ms with v2fces := ms.v2fces.set i (f d) }) hS rfl ?_
    intro k
    cases k <;> try rfl
    simp only [Mid.idsOf, Mid.fc2Ids]
    apply map_set_same _ _ _ _ _ hi
    unfold fc2New at hf; rw [hv] at hf; simp only [Option.getD_some] at hf
    rw [hf, hid]
  · rw [he]
    unfold fc2New at hf; rw [hv] at hf; simp only [Option.getD_none] at hf
    apply hS.ext .fc2 id hl hT
    · simp [Mid.idsOf, Mid.fc2Ids]
    · simp [Mid.idsOf, Mid.fc2Ids, hf]
    · intro k' hk'; cases k' <;> first | rfl | exact absurd rfl hk'

theorem putFc2_view {T} {ms : Mid} (hS : Struct T ms) (hd : TDisj T) {id : Id} (hT : T .fc2 id) (f : Fc2Diff → Fc2Diff)
    (hf : (fc2New ms id f).e.id = id) : (ms.putFc2 id f).fc2Diff? id = some (fc2New ms id f) := by
  have hS' := putFc2_struct hS hd hT f hf
  rcases putFc2_cases hS hd hT f with ⟨i, d, hl, hi, hid, hv, he⟩ | ⟨hl, hv, he⟩
  · unfold fc2New at hf ⊢; rw [hv] at hf ⊢; simp only [Option.getD_some] at hf ⊢
    rw [fc2Diff?_eq, he]
    have hlt : i < ms.v2fces.length := by
      rcases Nat.lt_or_ge i ms.v2fces.length with h | h
      · exact h
      · rw [List.getElem?_eq_none_iff.mpr h] at hi; cases hi
    show (ms.lookup id).bind _ = _
    rw [hl]; simp [List.getElem?_set, hlt, hf]
  · unfold fc2New at hf ⊢; rw [hv] at hf ⊢; simp only [Option.getD_none] at hf ⊢
    rw [fc2Diff?_eq, he]
    have : ({ ms with v2fces := ms.v2fces ++ [f default], elements := ms.elements ++ [(id, ms.v2fces.length)] } : Mid).lookup id
        = some ms.v2fces.length := by
      unfold Mid.lookup at hl ⊢; simp only []; rw [lookup_snoc, hl]; simp
    rw [this]; simp [hf]

theorem putFc2_mem {T} {ms : Mid} (hS : Struct T ms) (hd : TDisj T) {id : Id} (hT : T .fc2 id) (f : Fc2Diff → Fc2Diff)
    {d' : Fc2Diff} (hm : d' ∈ (ms.putFc2 id f).v2fces) : d' ∈ ms.v2fces ∨ d' = fc2New ms id f := by
  rcases putFc2_cases hS hd hT f with ⟨i, d, hl, hi, hid, hv, he⟩ | ⟨hl, hv, he⟩
  · rw [he] at hm; simp only [] at hm
    unfold fc2New; rw [hv]; simp only [Option.getD_some]
    rcases List.mem_or_eq_of_mem_set hm with h | h
    · exact Or.inl h
    · exact Or.inr h
  · rw [he] at hm; simp only [] at hm
    unfold fc2New; rw [hv]; simp only [Option.getD_none]
    rcases List.mem_append.mp hm with h | h
    · exact Or.inl h
    · simp at h; exact Or.inr h

theorem putFc2_agree {T} {ms : Mid} (hS : Struct T ms) (hd : TDisj T) {id : Id} (hT : T .fc2 id) (f : Fc2Diff → Fc2Diff)
    (hf : (fc2New ms id f).e.id = id) : Agree ms (ms.putFc2 id f) (· = id) := by
  refine ⟨putFc2_base_c1 ms id f, fun x hx => ?_⟩
  have hx' : x ≠ id := hx
  rcases putFc2_cases hS hd hT f with ⟨i, d, hl, hi, hid, hv, he⟩ | ⟨hl, hv, he⟩
  · unfold fc2New at hf; rw [hv] at hf; simp only [Option.getD_some] at hf
    rw [he]
    refine ⟨rfl, rfl, rfl, rfl, ?_, rfl⟩
    rw [fc2Diff?_eq, fc2Diff?_eq]
    show (ms.lookup x).bind _ = _
    cases hlx : ms.lookup x with
    | none => rfl
    | some j =>
      simp only [Option.bind_some, List.getElem?_set]
      by_cases hij : i = j
      · subst hij
        have hlt : i < ms.v2fces.length := by
          rcases Nat.lt_or_ge i ms.v2fces.length with h | h
          · exact h
          · rw [List.getElem?_eq_none_iff.mpr h] at hi; cases hi
        have h1 : ¬ (f d).e.id = x := fun hh => hx' (hh ▸ hf)
        have h2 : ¬ d.e.id = x := fun hh => hx' (hh ▸ hid)
        have hg : ms.v2fces[i] = d := by
          have := List.getElem?_eq_getElem hlt; rw [this] at hi; exact Option.some.inj hi
        simp [hlt, hi, h1, h2, hg]
      · simp [hij]
  · unfold fc2New at hf; rw [hv] at hf; simp only [Option.getD_none] at hf
    rw [he]
    have hlk : ∀ y, y ≠ id → ({ ms with v2fces := ms.v2fces ++ [f default], elements := ms.elements ++ [(id, ms.v2fces.length)] } : Mid).lookup y
        = ms.lookup y := by
      intro y hy; unfold Mid.lookup; simp only []; rw [lookup_snoc]; simp [hy]
    refine ⟨hlk x hx', ?_, ?_, ?_, ?_, rfl⟩
    · unfold Mid.scDiff?; rw [hlk x hx']
    · unfold Mid.sfDiff?; rw [hlk x hx']
    · unfold Mid.fc1Diff?; rw [hlk x hx']
    · rw [fc2Diff?_eq, fc2Diff?_eq, hlk x hx']
      cases hlx : ms.lookup x with
      | none => rfl
      | some j =>
        simp only [Option.bind_some]
        by_cases hj : j < ms.v2fces.length
        · rw [List.getElem?_append_left hj]
        · have hj' : ms.v2fces.length ≤ j := Nat.le_of_not_lt hj
          rw [List.getElem?_eq_none_iff.mpr hj', List.getElem?_append_right hj']
          cases hjj : j - ms.v2fces.length with
          | zero =>
            have h1 : ¬ (f default).e.id = x := fun hh => hx' (hh ▸ hf)
            simp [h1]
          | succ n => simp

theorem putFc2_tot_found {T} {ms : Mid} (hS : Struct T ms) (hd : TDisj T) {id : Id} (hT : T .fc2 id) (f : Fc2Diff → Fc2Diff)
    (hf : (fc2New ms id f).e.id = id) {d : Fc2Diff} (hv : ms.fc2Diff? id = some d) :
    fc2Tot (ms.putFc2 id f) + fc2Dv d = fc2Tot ms + fc2Dv (fc2New ms id f) := by
  rcases putFc2_cases hS hd hT f with ⟨i, d', hl, hi, hid, hv', he⟩ | ⟨hl, hv', he⟩
  · rw [hv] at hv'; cases hv'
    unfold fc2New at hf ⊢; rw [hv] at hf ⊢; simp only [Option.getD_some] at hf ⊢
    rw [he]; unfold fc2Tot Mid.fc2Ids; simp only []
    rw [map_set_same _ _ _ _ _ hi (by rw [hf, hid])]
    have := sum_map_set ms.v2fces fc2Dv i (f d) d hi
    omega
  · rw [hv] at hv'; cases hv'

theorem putFc2_tot_fresh {T} {ms : Mid} (hS : Struct T ms) (hd : TDisj T) {id : Id} (hT : T .fc2 id) (f : Fc2Diff → Fc2Diff)
    (hf : (fc2New ms id f).e.id = id) (hv : ms.fc2Diff? id = none) (hb : id ∉ ms.base.fc2.map (·.id)) :
    fc2Tot (ms.putFc2 id f) = fc2Tot ms + fc2Dv (fc2New ms id f) := by
  rcases putFc2_cases hS hd hT f with ⟨i, d', hl, hi, hid, hv', he⟩ | ⟨hl, hv', he⟩
  · rw [hv] at hv'; cases hv'
  · unfold fc2New at hf ⊢; rw [hv] at hf ⊢; simp only [Option.getD_none] at hf ⊢
    rw [he]; unfold fc2Tot Mid.fc2Ids; simp only [List.map_append, List.map_cons, List.map_nil, List.sum_append, List.sum_cons, List.sum_nil]
    rw [hf, untouched_append_notin _ _ _ _ hb]
    omega

theorem putFc2_tot_base {T} {ms : Mid} (hS : Struct T ms) (hd : TDisj T) {id : Id} (hT : T .fc2 id) (f : Fc2Diff → Fc2Diff)
    (hf : (fc2New ms id f).e.id = id) (hv : ms.fc2Diff? id = none) {e : Fc2Elem} (he : e ∈ ms.base.fc2) (heid : e.id = id)
    (hn : (ms.base.fc2.map (·.id)).Nodup) :
    fc2Tot (ms.putFc2 id f) + e.fc.val = fc2Tot ms + fc2Dv (fc2New ms id f) := by
  rcases putFc2_cases hS hd hT f with ⟨i, d', hl, hi, hid, hv', he'⟩ | ⟨hl, hv', he'⟩
  · rw [hv] at hv'; cases hv'
  · unfold fc2New at hf ⊢; rw [hv] at hf ⊢; simp only [Option.getD_none] at hf ⊢
    rw [he']; unfold fc2Tot Mid.fc2Ids; simp only [List.map_append, List.map_cons, List.map_nil, List.sum_append, List.sum_cons, List.sum_nil]
    have hni : e.id ∉ ms.v2fces.map (·.e.id) := by
      have := hS.not_mem_of_lookup_none (k := .fc2) hl
      rw [heid]; exact this
    have := untouched_append_in ms.base.fc2 (·.id) (·.fc.val) (ms.v2fces.map (·.e.id)) e hn he hni
    rw [hf, ← heid]
    omega

end Sia.Ledger
