import SiaProofs.Lemmas.LedgerC01ScW
import SiaProofs.Lemmas.LedgerC01Fees
/-!
# C01 helper lemmas, part 8: the loops of `applyV2Transaction`
-/
namespace Sia.Ledger

/-- the state reached by a loop: invariant, same base, agreement outside the touched ids -/
structure Reached (T : Kind → Id → Prop) (ms ms' : Mid) (P : Id → Prop) : Prop where
  inv : Inv T ms'
  base : ms'.base = ms.base
  agree : Agree ms ms' P

theorem Agree.step {ms ms1 ms' : Mid} {P : Id → Prop} {id : Id} (h1 : Agree ms ms1 (· = id)) (h2 : Agree ms1 ms' P) :
    Agree ms ms' (fun x => x = id ∨ P x) :=
  (h1.mono (fun _ h => Or.inl h)).trans (h2.mono (fun _ h => Or.inr h))

-- ------------------------------------------------------------------ siacoin inputs

theorem loop_scIns2 {T} (l : List ScIn2) : ∀ (ms ms' : Mid), Ctx T ms.base → Inv T ms →
    (∀ sci ∈ l, SpendableSc T ms sci.parent) → (l.map (·.parent.id)).Nodup →
    l.foldlM stepScIn2 ms = .ok ms' →
    Reached T ms ms' (· ∈ l.map (·.parent.id)) ∧
    Phi ms' + (l.map (·.parent.value)).sum = Phi ms ∧ sfTot ms' = sfTot ms ∧ ms'.pool = ms.pool ∧
    ∀ w : ScElem → Nat, (∀ a b : ScElem, a.value = b.value → a.maturity = b.maturity → w a = w b) →
      scW w ms' + (l.map (fun i => w i.parent)).sum = scW w ms := by
  induction l with
  | nil =>
    intro ms ms' _ hI _ _ h
    simp only [List.foldlM_nil] at h; cases h
    exact ⟨⟨hI, rfl, Agree.refl _ _⟩, by simp, rfl, rfl, by simp⟩
  | cons a l ih =>
    intro ms ms' hc hI hs hn h
    rw [List.foldlM_cons, bind_eq_ok] at h
    obtain ⟨ms1, h1, h2⟩ := h
    cases h1
    simp only [List.map_cons, List.nodup_cons] at hn
    obtain ⟨hI1, hA1, hP1, hS1, hp1, hb1⟩ := spendSc_spec hc hI (hs a List.mem_cons_self)
    have hs1 : ∀ sci ∈ l, SpendableSc T (ms.spendSc a.parent) sci.parent := by
      intro sci hm
      apply (hs sci (List.mem_cons_of_mem _ hm)).agree hA1
      intro he; exact hn.1 (he ▸ List.mem_map_of_mem hm)
    obtain ⟨hR, hP, hS, hp, hW⟩ := ih _ ms' (hb1 ▸ hc) hI1 hs1 hn.2 h2
    refine ⟨⟨hR.inv, hR.base.trans hb1, ?_⟩, ?_, hS.trans hS1, hp.trans hp1, ?_⟩
    · exact (hA1.step hR.agree).mono (fun x hx => by simpa using hx)
    · simp only [List.map_cons, List.sum_cons]; omega
    · intro w hw
      have h1 := hW w hw
      have h3 := spendSc_w w hw hc hI (hs a List.mem_cons_self)
      simp only [List.map_cons, List.sum_cons]
      omega

-- ------------------------------------------------------------------ siacoin outputs

theorem loop_scOuts {T} (l : List (Id × ScOut)) : ∀ (ms ms' : Mid) (R : List (Kind × Id)), Ctx T ms.base → Inv T ms →
    Fresh T ms (l.map (fun x => (Kind.sc, x.1)) ++ R) →
    l.foldlM stepScOut ms = .ok ms' →
    Reached T ms ms' (· ∈ l.map (·.1)) ∧ Fresh T ms' R ∧
    Phi ms' = Phi ms + (l.map (·.2.value)).sum ∧ sfTot ms' = sfTot ms ∧ ms'.pool = ms.pool ∧
    ∀ w : ScElem → Nat, scW w ms' = scW w ms + (l.map (fun x => w ⟨x.1, x.2.value, x.2.addr, 0, none⟩)).sum := by
  induction l with
  | nil =>
    intro ms ms' R _ hI hF h
    simp only [List.foldlM_nil] at h; cases h
    exact ⟨⟨hI, rfl, Agree.refl _ _⟩, hF, by simp, rfl, rfl, by simp⟩
  | cons a l ih =>
    intro ms ms' R hc hI hF h
    rw [List.foldlM_cons, bind_eq_ok] at h
    obtain ⟨ms1, h1, h2⟩ := h
    cases h1
    simp only [List.map_cons, List.cons_append] at hF
    obtain ⟨hI1, hA1, hF1, hP1, hS1, hp1, hb1⟩ := createSc_spec hc hI hF a.2 0
    obtain ⟨hR, hF', hP, hS, hp, hW⟩ := ih _ ms' R (hb1 ▸ hc) hI1 hF1 h2
    refine ⟨⟨hR.inv, hR.base.trans hb1, ?_⟩, hF', ?_, hS.trans hS1, hp.trans hp1, ?_⟩
    · exact (hA1.step hR.agree).mono (fun x hx => by simpa using hx)
    · simp only [List.map_cons, List.sum_cons]; omega
    · intro w
      have h1 := hW w
      have h2 := createSc_w w hc hI hF a.2 0
      simp only [List.map_cons, List.sum_cons]
      omega

-- ------------------------------------------------------------------ siafund inputs (v2)

/-- exact claim value of a siafund output spent while the pool stands at `pool` -/
def claimVal (pool cs : Cur) (v : Nat) : Cur := (pool - cs) / 10000 * v

theorem loop_sfIns2 {T} (l : List SfIn2) : ∀ (ms ms' : Mid) (R : List (Kind × Id)), Ctx T ms.base → Inv T ms →
    (∀ sfi ∈ l, SpendableSf T ms sfi.parent) → (l.map (·.parent.id)).Nodup →
    Fresh T ms (l.map (fun i => (Kind.sc, i.claimId)) ++ R) →
    l.foldlM stepSfIn2 ms = .ok ms' →
    Reached T ms ms' (fun x => x ∈ l.map (·.parent.id) ∨ x ∈ l.map (·.claimId)) ∧ Fresh T ms' R ∧
    Phi ms' = Phi ms + (l.map (fun i => claimVal ms.pool i.parent.claimStart i.parent.value)).sum ∧
    sfTot ms' + (l.map (·.parent.value)).sum = sfTot ms ∧ ms'.pool = ms.pool ∧
    (∀ w : SfElem → Nat, sfW w ms' + (l.map (fun i => w i.parent)).sum = sfW w ms) ∧
    ∀ w : ScElem → Nat, scW w ms' = scW w ms + (l.map (fun i => w ⟨i.claimId,
      claimVal ms.pool i.parent.claimStart i.parent.value, i.claimAddr, maturityHeight ms.base, none⟩)).sum := by
  induction l with
  | nil =>
    intro ms ms' R _ hI _ _ hF h
    simp only [List.foldlM_nil] at h; cases h
    exact ⟨⟨hI, rfl, Agree.refl _ _⟩, hF, by simp, by simp, rfl, by simp, by simp⟩
  | cons a l ih =>
    intro ms ms' R hc hI hs hn hF h
    rw [List.foldlM_cons, bind_eq_ok] at h
    obtain ⟨ms1, h1, h2⟩ := h
    unfold stepSfIn2 at h1
    rw [bind_eq_ok] at h1; obtain ⟨c, hcl, h1⟩ := h1
    cases h1
    simp only [List.map_cons, List.nodup_cons, List.cons_append] at hn hF
    have hsa := hs a List.mem_cons_self
    obtain ⟨hI1, hA1, hP1, hS1, hp1, hb1⟩ := spendSf_spec hc hI hsa
    rw [hp1, claimPortion_ok] at hcl
    have hF1 : Fresh T (ms.spendSf a.parent) ((Kind.sc, a.claimId) :: (l.map (fun i => (Kind.sc, i.claimId)) ++ R)) :=
      hF.agree hA1 (fun q hq => hsa.not_fresh hF q hq)
    unfold Mid.createImmatureSc at h2
    obtain ⟨hI2, hA2, hF2, hP2, hS2, hp2, hb2⟩ :=
      createSc_spec (hb1 ▸ hc) hI1 hF1 { value := c, addr := a.claimAddr } (maturityHeight (ms.spendSf a.parent).base)
    have hA12 := hA1.step hA2
    have hs2 : ∀ sfi ∈ l, SpendableSf T (((ms.spendSf a.parent).createSc a.claimId { value := c, addr := a.claimAddr }
        (maturityHeight (ms.spendSf a.parent).base))) sfi.parent := by
      intro sfi hm
      have hsf := hs sfi (List.mem_cons_of_mem _ hm)
      apply hsf.agree hA12
      rintro (he | he)
      · exact hn.1 (he ▸ List.mem_map_of_mem hm)
      · exact hsf.not_fresh hF (Kind.sc, a.claimId) List.mem_cons_self he.symm
    obtain ⟨hR, hF', hP, hS, hp, hW, hWc⟩ := ih _ ms' R (by rw [hb2, hb1]; exact hc) hI2 hs2 hn.2 hF2 h2
    refine ⟨⟨hR.inv, hR.base.trans (hb2.trans hb1), ?_⟩, hF', ?_, ?_, hp.trans (hp2.trans hp1), ?_, ?_⟩
    · refine (hA12.mono (fun _ h => Or.inl h) |>.trans (hR.agree.mono (fun _ h => Or.inr h))).mono ?_
      intro x hx; simp only [List.map_cons, List.mem_cons]
      rcases hx with (h | h) | (h | h)
      · exact Or.inl (Or.inl h)
      · exact Or.inr (Or.inl h)
      · exact Or.inl (Or.inr h)
      · exact Or.inr (Or.inr h)
    · simp only [List.map_cons, List.sum_cons]
      rw [hP, hP2, hP1, hp2, hp1]
      have : claimVal ms.pool a.parent.claimStart a.parent.value = c := by unfold claimVal; exact hcl.2.2.symm
      rw [this]; simp only []; omega
    · simp only [List.map_cons, List.sum_cons]; omega
    · intro w
      have h1 := hW w
      have h2 : sfW w ((ms.spendSf a.parent).createSc a.claimId { value := c, addr := a.claimAddr }
          (maturityHeight (ms.spendSf a.parent).base)) = sfW w (ms.spendSf a.parent) :=
        sfW_congr w hb2 (by unfold Mid.createSc; exact putSc_sfes _ _ _)
      have h3 := spendSf_w w hc hI hsa
      simp only [List.map_cons, List.sum_cons]
      omega
    · intro w
      have h1 := hWc w
      rw [hp2, hp1, hb2, hb1] at h1
      have h2 : scW w ((ms.spendSf a.parent).createSc a.claimId { value := c, addr := a.claimAddr }
          (maturityHeight (ms.spendSf a.parent).base)) = scW w (ms.spendSf a.parent) +
          w ⟨a.claimId, c, a.claimAddr, maturityHeight (ms.spendSf a.parent).base, none⟩ :=
        createSc_w w (hb1 ▸ hc) hI1 hF1 { value := c, addr := a.claimAddr } (maturityHeight (ms.spendSf a.parent).base)
      have h3 : scW w (ms.spendSf a.parent) = scW w ms :=
        scW_congr w hb1 (by unfold Mid.spendSf; exact putSf_sces _ _ _)
      have hcv : claimVal ms.pool a.parent.claimStart a.parent.value = c := by unfold claimVal; exact hcl.2.2.symm
      rw [hb1] at h2
      simp only [List.map_cons, List.sum_cons]
      rw [hcv]
      omega

-- ------------------------------------------------------------------ siafund outputs

theorem loop_sfOuts {T} (l : List (Id × Nat × Addr)) : ∀ (ms ms' : Mid) (R : List (Kind × Id)), Ctx T ms.base → Inv T ms →
    Fresh T ms (l.map (fun x => (Kind.sf, x.1)) ++ R) →
    l.foldlM stepSfOut ms = .ok ms' →
    Reached T ms ms' (· ∈ l.map (·.1)) ∧ Fresh T ms' R ∧
    Phi ms' = Phi ms ∧ sfTot ms' = sfTot ms + (l.map (·.2.1)).sum ∧ ms'.pool = ms.pool ∧
    ∀ w : SfElem → Nat, sfW w ms' = sfW w ms + (l.map (fun x => w ⟨x.1, x.2.1, x.2.2, ms.pool, none⟩)).sum := by
  induction l with
  | nil =>
    intro ms ms' R _ hI hF h
    simp only [List.foldlM_nil] at h; cases h
    exact ⟨⟨hI, rfl, Agree.refl _ _⟩, hF, rfl, by simp, rfl, by simp⟩
  | cons a l ih =>
    intro ms ms' R hc hI hF h
    rw [List.foldlM_cons, bind_eq_ok] at h
    obtain ⟨ms1, h1, h2⟩ := h
    cases h1
    simp only [List.map_cons, List.cons_append] at hF
    obtain ⟨hI1, hA1, hF1, hP1, hS1, hp1, hb1⟩ := createSf_spec hc hI hF a.2.1 a.2.2
    obtain ⟨hR, hF', hP, hS, hp, hW⟩ := ih _ ms' R (hb1 ▸ hc) hI1 hF1 h2
    refine ⟨⟨hR.inv, hR.base.trans hb1, ?_⟩, hF', hP.trans hP1, ?_, hp.trans hp1, ?_⟩
    · exact (hA1.step hR.agree).mono (fun x hx => by simpa using hx)
    · simp only [List.map_cons, List.sum_cons]; omega
    · intro w
      have h1 := hW w
      rw [hp1] at h1
      have h2 := createSf_w w hc hI hF a.2.1 a.2.2
      simp only [List.map_cons, List.sum_cons]
      omega

-- ------------------------------------------------------------------ v2 contract formations

theorem loop_fcs2 {T} (l : List (Id × Fc2 × Bool)) : ∀ (ms ms' : Mid) (R : List (Kind × Id)), Ctx T ms.base → Inv T ms →
    (∀ x ∈ l, x.2.1.missedHost ≤ x.2.1.host.value) →
    Fresh T ms (l.map (fun x => (Kind.fc2, x.1)) ++ R) →
    l.foldlM stepFc2 ms = .ok ms' →
    Reached T ms ms' (· ∈ l.map (·.1)) ∧ Fresh T ms' R ∧
    Phi ms' = Phi ms + (l.map (fun x => x.2.1.val + x.2.1.val / 25)).sum ∧ sfTot ms' = sfTot ms ∧
    ms'.pool = ms.pool + (l.map (fun x => x.2.1.val / 25)).sum := by
  induction l with
  | nil =>
    intro ms ms' R _ hI _ hF h
    simp only [List.foldlM_nil] at h; cases h
    exact ⟨⟨hI, rfl, Agree.refl _ _⟩, hF, by simp, rfl, by simp⟩
  | cons a l ih =>
    intro ms ms' R hc hI hm hF h
    rw [List.foldlM_cons, bind_eq_ok] at h
    obtain ⟨ms1, h1, h2⟩ := h
    unfold stepFc2 at h1
    simp only [List.map_cons, List.cons_append] at hF
    obtain ⟨hI1, hA1, hF1, hP1, hS1, hp1, hb1⟩ := createFc2_spec hc hI hF (hm a List.mem_cons_self) h1
    obtain ⟨hR, hF', hP, hS, hp⟩ := ih _ ms' R (hb1 ▸ hc) hI1 (fun x hx => hm x (List.mem_cons_of_mem _ hx)) hF1 h2
    refine ⟨⟨hR.inv, hR.base.trans hb1, ?_⟩, hF', ?_, hS.trans hS1, ?_⟩
    · exact (hA1.step hR.agree).mono (fun x hx => by simpa using hx)
    · simp only [List.map_cons, List.sum_cons]; rw [hP, hP1]; omega
    · simp only [List.map_cons, List.sum_cons]; rw [hp, hp1]; exact Nat.add_assoc _ _ _

-- ------------------------------------------------------------------ v2 revisions

theorem loop_revs2 {T} (l : List Rev2) : ∀ (ms ms' : Mid), Ctx T ms.base → Inv T ms →
    (∀ r ∈ l, LiveFc2 T ms r.parent ∧ r.rev.val = r.parent.fc.val ∧ r.rev.missedHost ≤ r.rev.host.value) →
    (l.map (·.parent.id)).Nodup →
    l.foldlM stepRev2 ms = .ok ms' →
    Reached T ms ms' (· ∈ l.map (·.parent.id)) ∧
    Phi ms' = Phi ms ∧ sfTot ms' = sfTot ms ∧ ms'.pool = ms.pool := by
  induction l with
  | nil =>
    intro ms ms' _ hI _ _ h
    simp only [List.foldlM_nil] at h; cases h
    exact ⟨⟨hI, rfl, Agree.refl _ _⟩, rfl, rfl, rfl⟩
  | cons a l ih =>
    intro ms ms' hc hI hs hn h
    rw [List.foldlM_cons, bind_eq_ok] at h
    obtain ⟨ms1, h1, h2⟩ := h
    cases h1
    simp only [List.map_cons, List.nodup_cons] at hn
    obtain ⟨hl, hv, hm⟩ := hs a List.mem_cons_self
    obtain ⟨hI1, hA1, hP1, hS1, hp1, hb1⟩ := reviseFc2_spec hc hI hl hv hm
    have hs1 : ∀ r ∈ l, LiveFc2 T (ms.reviseFc2 a.parent a.rev) r.parent ∧ r.rev.val = r.parent.fc.val ∧
        r.rev.missedHost ≤ r.rev.host.value := by
      intro r hr
      obtain ⟨h1, h2, h3⟩ := hs r (List.mem_cons_of_mem _ hr)
      refine ⟨h1.agree hA1 ?_, h2, h3⟩
      intro he; exact hn.1 (he ▸ List.mem_map_of_mem hr)
    obtain ⟨hR, hP, hS, hp⟩ := ih _ ms' (hb1 ▸ hc) hI1 hs1 hn.2 h2
    refine ⟨⟨hR.inv, hR.base.trans hb1, ?_⟩, hP.trans hP1, hS.trans hS1, hp.trans hp1⟩
    exact (hA1.step hR.agree).mono (fun x hx => by simpa using hx)

-- ------------------------------------------------------------------ v2 resolutions

def Resolution2.created (r : Resolution2) : List (Kind × Id) :=
  match r.res with
  | .renewal rn => [(Kind.fc2, rn.newId), (Kind.sc, r.renterOutId), (Kind.sc, r.hostOutId)]
  | _ => [(Kind.sc, r.renterOutId), (Kind.sc, r.hostOutId)]

/-- value leaving the ledger's accounts at a resolution (besides what `resIn` puts back) -/
def resOut (r : Resolution2) : Nat :=
  match r.res with
  | .renewal _ => r.parent.fc.val
  | .proof _ _ _ _ => 0
  | .expiration => r.parent.fc.host.value - r.parent.fc.missedHost

def resIn (r : Resolution2) : Nat :=
  match r.res with
  | .renewal rn => rn.newContract.val + rn.newContract.val / 25 + rn.finalRenter.value + rn.finalHost.value
  | _ => 0

def resTax (r : Resolution2) : Nat :=
  match r.res with
  | .renewal rn => rn.newContract.val / 25
  | _ => 0

def resNewOk (r : Resolution2) : Prop :=
  match r.res with
  | .renewal rn => rn.newContract.missedHost ≤ rn.newContract.host.value
  | _ => True

theorem two_outputs {T} {ms : Mid} (hc : Ctx T ms.base) (hI : Inv T ms) {i1 i2 : Id} {R : List (Kind × Id)}
    (hF : Fresh T ms ((Kind.sc, i1) :: (Kind.sc, i2) :: R)) (o1 o2 : ScOut) :
    Inv T ((ms.createImmatureSc i1 o1).createImmatureSc i2 o2) ∧
    Agree ms ((ms.createImmatureSc i1 o1).createImmatureSc i2 o2) (fun x => x = i1 ∨ x = i2) ∧
    Fresh T ((ms.createImmatureSc i1 o1).createImmatureSc i2 o2) R ∧
    Phi ((ms.createImmatureSc i1 o1).createImmatureSc i2 o2) = Phi ms + o1.value + o2.value ∧
    sfTot ((ms.createImmatureSc i1 o1).createImmatureSc i2 o2) = sfTot ms ∧
    ((ms.createImmatureSc i1 o1).createImmatureSc i2 o2).pool = ms.pool ∧
    ((ms.createImmatureSc i1 o1).createImmatureSc i2 o2).base = ms.base ∧
    ∀ w : ScElem → Nat, scW w ms ≤ scW w ((ms.createImmatureSc i1 o1).createImmatureSc i2 o2) := by
  unfold Mid.createImmatureSc
  obtain ⟨hI1, hA1, hF1, hP1, hS1, hp1, hb1⟩ := createSc_spec hc hI hF o1 (maturityHeight ms.base)
  obtain ⟨hI2, hA2, hF2, hP2, hS2, hp2, hb2⟩ := createSc_spec (by rw [hb1]; exact hc) hI1 hF1 o2
    (maturityHeight (ms.createSc i1 o1 (maturityHeight ms.base)).base)
  refine ⟨hI2, hA1.step hA2, hF2, by rw [hP2, hP1], hS2.trans hS1, hp2.trans hp1, hb2.trans hb1, ?_⟩
  intro w
  have h1 := createSc_w w hc hI hF o1 (maturityHeight ms.base)
  have h2 := createSc_w w (by rw [hb1]; exact hc) hI1 hF1 o2 (maturityHeight (ms.createSc i1 o1 (maturityHeight ms.base)).base)
  omega

theorem stepRes2_spec {T} {ms ms' : Mid} (hc : Ctx T ms.base) (hI : Inv T ms) {r : Resolution2} {R : List (Kind × Id)}
    (hl : LiveFc2 T ms r.parent) (hF : Fresh T ms (r.created ++ R)) (hnew : resNewOk r)
    (hmh : r.parent.fc.missedHost ≤ r.parent.fc.host.value) (h : stepRes2 ms r = .ok ms') :
    Inv T ms' ∧ Agree ms ms' (fun x => x = r.parent.id ∨ x ∈ r.created.map (·.2)) ∧ Fresh T ms' R ∧
    Phi ms' + resOut r = Phi ms + resIn r ∧ sfTot ms' = sfTot ms ∧ ms'.pool = ms.pool + resTax r ∧
    ms'.base = ms.base ∧ ∀ w : ScElem → Nat, scW w ms ≤ scW w ms' := by
  unfold stepRes2 at h
  unfold Resolution2.created at hF ⊢
  unfold resOut resIn resTax
  unfold resNewOk at hnew
  cases hres : r.res with
  | renewal rn =>
    rw [hres] at h hF hnew; simp only [] at h hF hnew ⊢
    rw [bind_eq_ok] at h; obtain ⟨ms1, h1, h⟩ := h
    rw [bind_eq_ok] at h; obtain ⟨ms2, h2, h⟩ := h
    cases h
    obtain ⟨hI1, hA1, hP1, hS1, hp1, hb1⟩ := resolveFc2_spec hc hI hl hmh h1
    have hF1 := hF.agree hA1 (fun q hq => hl.not_fresh hF q hq)
    simp only [List.cons_append, List.nil_append] at hF1
    obtain ⟨hI2, hA2, hF2, hP2, hS2, hp2, hb2⟩ := createFc2_spec (hb1 ▸ hc) hI1 hF1 hnew h2
    obtain ⟨hI3, hA3, hF3, hP3, hS3, hp3, hb3, hw3⟩ := two_outputs (by rw [hb2, hb1]; exact hc) hI2 hF2 rn.finalRenter rn.finalHost
    refine ⟨hI3, ?_, hF3, ?_, hS3.trans (hS2.trans hS1), ?_, hb3.trans (hb2.trans hb1), ?_⟩
    rotate_left 3
    · intro w; have := hw3 w; rw [scW_createFc2 h2 w, scW_resolveFc2 h1 w] at this; exact this
    · refine ((hA1.mono ?_).trans ((hA2.mono ?_).trans (hA3.mono ?_)))
      · intro x hx; exact Or.inl hx
      · intro x hx; right; simp only [List.map_cons, List.mem_cons]; exact Or.inl hx
      · intro x hx; right; simp only [List.map_cons, List.map_nil, List.mem_cons, List.mem_nil_iff, or_false]
        rcases hx with hx | hx
        · exact Or.inr (Or.inl hx)
        · exact Or.inr (Or.inr hx)
    · rw [hP3, hP2]; omega
    · rw [hp3, hp2, hp1]
  | proof a b c d =>
    rw [hres] at h hF; simp only [] at h hF ⊢
    rw [bind_eq_ok] at h; obtain ⟨ms1, h1, h⟩ := h
    cases h
    obtain ⟨hI1, hA1, hP1, hS1, hp1, hb1⟩ := resolveFc2_spec hc hI hl hmh h1
    have hF1 := hF.agree hA1 (fun q hq => hl.not_fresh hF q hq)
    simp only [List.cons_append, List.nil_append] at hF1
    obtain ⟨hI3, hA3, hF3, hP3, hS3, hp3, hb3, hw3⟩ := two_outputs (hb1 ▸ hc) hI1 hF1 r.parent.fc.renter r.parent.fc.host
    refine ⟨hI3, ?_, hF3, ?_, hS3.trans hS1, ?_, hb3.trans hb1, ?_⟩
    rotate_left 3
    · intro w; have := hw3 w; rw [scW_resolveFc2 h1 w] at this; exact this
    · refine ((hA1.mono ?_).trans (hA3.mono ?_))
      · intro x hx; exact Or.inl hx
      · intro x hx; right; simp only [List.map_cons, List.map_nil, List.mem_cons, List.mem_nil_iff, or_false]; exact hx
    · rw [hP3]; unfold Fc2.val at hP1; omega
    · rw [hp3, hp1]; rfl
  | expiration =>
    rw [hres] at h hF; simp only [] at h hF ⊢
    rw [bind_eq_ok] at h; obtain ⟨ms1, h1, h⟩ := h
    cases h
    obtain ⟨hI1, hA1, hP1, hS1, hp1, hb1⟩ := resolveFc2_spec hc hI hl hmh h1
    have hF1 := hF.agree hA1 (fun q hq => hl.not_fresh hF q hq)
    simp only [List.cons_append, List.nil_append] at hF1
    obtain ⟨hI3, hA3, hF3, hP3, hS3, hp3, hb3, hw3⟩ := two_outputs (hb1 ▸ hc) hI1 hF1 r.parent.fc.renter
      { value := r.parent.fc.missedHost, addr := r.parent.fc.host.addr }
    refine ⟨hI3, ?_, hF3, ?_, hS3.trans hS1, ?_, hb3.trans hb1, ?_⟩
    rotate_left 3
    · intro w; have := hw3 w; rw [scW_resolveFc2 h1 w] at this; exact this
    · refine ((hA1.mono ?_).trans (hA3.mono ?_))
      · intro x hx; exact Or.inl hx
      · intro x hx; right; simp only [List.map_cons, List.map_nil, List.mem_cons, List.mem_nil_iff, or_false]; exact hx
    · have hP3' : Phi ((ms1.createImmatureSc r.renterOutId r.parent.fc.renter).createImmatureSc r.hostOutId
          { value := r.parent.fc.missedHost, addr := r.parent.fc.host.addr }) =
          Phi ms1 + r.parent.fc.renter.value + r.parent.fc.missedHost := hP3
      rw [hP3']; unfold Fc2.val at hP1; unfold Cur at *; omega
    · rw [hp3, hp1]; rfl

theorem loop_ress2 {T} (l : List Resolution2) : ∀ (ms ms' : Mid) (R : List (Kind × Id)), Ctx T ms.base → Inv T ms →
    (∀ r ∈ l, LiveFc2 T ms r.parent ∧ resNewOk r ∧ r.parent.fc.missedHost ≤ r.parent.fc.host.value) →
    (l.map (·.parent.id)).Nodup →
    Fresh T ms (l.flatMap Resolution2.created ++ R) →
    l.foldlM stepRes2 ms = .ok ms' →
    Reached T ms ms' (fun x => x ∈ l.map (·.parent.id) ∨ x ∈ (l.flatMap Resolution2.created).map (·.2)) ∧
    Fresh T ms' R ∧
    Phi ms' + (l.map resOut).sum = Phi ms + (l.map resIn).sum ∧ sfTot ms' = sfTot ms ∧
    ms'.pool = ms.pool + (l.map resTax).sum ∧ ∀ w : ScElem → Nat, scW w ms ≤ scW w ms' := by
  induction l with
  | nil =>
    intro ms ms' R _ hI _ _ hF h
    simp only [List.foldlM_nil] at h; cases h
    exact ⟨⟨hI, rfl, Agree.refl _ _⟩, hF, by simp, rfl, by simp, fun _ => Nat.le_refl _⟩
  | cons a l ih =>
    intro ms ms' R hc hI hs hn hF h
    rw [List.foldlM_cons, bind_eq_ok] at h
    obtain ⟨ms1, h1, h2⟩ := h
    simp only [List.map_cons, List.nodup_cons, List.flatMap_cons, List.append_assoc] at hn hF
    obtain ⟨hla, hna, hma⟩ := hs a List.mem_cons_self
    obtain ⟨hI1, hA1, hF1, hP1, hS1, hp1, hb1, hw1⟩ := stepRes2_spec hc hI hla hF hna hma h1
    have hs1 : ∀ r ∈ l, LiveFc2 T ms1 r.parent ∧ resNewOk r ∧ r.parent.fc.missedHost ≤ r.parent.fc.host.value := by
      intro r hr
      obtain ⟨h1, h2⟩ := hs r (List.mem_cons_of_mem _ hr)
      refine ⟨h1.agree hA1 ?_, h2⟩
      rintro (he | he)
      · exact hn.1 (he ▸ List.mem_map_of_mem hr)
      · obtain ⟨q, hq, hq2⟩ := List.mem_map.mp he
        exact h1.not_fresh hF q (List.mem_append_left _ hq) hq2
    obtain ⟨hR, hF', hP, hS, hp, hw⟩ := ih _ ms' R (hb1 ▸ hc) hI1 hs1 hn.2 hF1 h2
    refine ⟨⟨hR.inv, hR.base.trans hb1, ?_⟩, hF', ?_, hS.trans hS1, ?_, fun w => Nat.le_trans (hw1 w) (hw w)⟩
    · refine ((hA1.mono ?_).trans (hR.agree.mono ?_))
      · intro x hx; simp only [List.map_cons, List.mem_cons, List.flatMap_cons, List.map_append, List.mem_append]
        rcases hx with hx | hx
        · exact Or.inl (Or.inl hx)
        · exact Or.inr (Or.inl hx)
      · intro x hx; simp only [List.map_cons, List.mem_cons, List.flatMap_cons, List.map_append, List.mem_append]
        rcases hx with hx | hx
        · exact Or.inl (Or.inr hx)
        · exact Or.inr (Or.inr hx)
    · simp only [List.map_cons, List.sum_cons]; omega
    · simp only [List.map_cons, List.sum_cons]; rw [hp, hp1]; exact Nat.add_assoc _ _ _

end Sia.Ledger
