/-
  SiaProofs.Lemmas.UpdateProof — `updateProof` (consensus/merkle.go:426): a holder's
  proof is brought to the rewritten forest from the closest updated leaf of its tree.
-/
import SiaProofs.Lemmas.Forest
set_option linter.unusedSectionVars false
namespace Sia.ElemAcc
section
variable {H : Type} [Hasher H] [Inhabited H]

theorem best_fold (idx : Nat) : ∀ (us : List (Leaf H)) (u0 : Leaf H),
    let best := us.foldl (fun best ul =>
      if mergeHeight idx ul.index < mergeHeight idx best.index then ul else best) u0
    best ∈ u0 :: us ∧ ∀ u ∈ u0 :: us, mergeHeight idx best.index ≤ mergeHeight idx u.index := by
  intro us
  induction us with
  | nil => intro u0; simp
  | cons a us ih =>
    intro u0
    simp only [List.foldl_cons]
    by_cases h : mergeHeight idx a.index < mergeHeight idx u0.index
    · rw [if_pos h]
      obtain ⟨m1, m2⟩ := ih a
      refine ⟨?_, ?_⟩
      · rcases List.mem_cons.1 m1 with e | e
        · rw [e]; simp
        · exact List.mem_cons_of_mem _ (List.mem_cons_of_mem _ e)
      · intro u hu
        rcases List.mem_cons.1 hu with rfl | hu'
        · have := m2 a (by simp); omega
        · exact m2 u hu'
    · rw [if_neg h]
      obtain ⟨m1, m2⟩ := ih u0
      refine ⟨?_, ?_⟩
      · rcases List.mem_cons.1 m1 with e | e
        · rw [e]; simp
        · exact List.mem_cons_of_mem _ (List.mem_cons_of_mem _ e)
      · intro u hu
        rcases List.mem_cons.1 hu with rfl | hu'
        · exact m2 u (by simp)
        · rcases List.mem_cons.1 hu' with rfl | hu''
          · have := m2 u0 (by simp); omega
          · exact m2 u (List.mem_cons_of_mem _ hu'')

/-- two positions of the same aligned block agree above the block height -/
theorem div_eq_of_block {S k p : Nat} (hS : 2 ^ k ∣ S) (h1 : S ≤ p) (h2 : p < S + 2 ^ k) : p / 2 ^ k = S / 2 ^ k := by
  obtain ⟨c, rfl⟩ := hS
  rw [Nat.mul_div_cancel_left _ (Nat.two_pow_pos k)]
  apply Nat.div_eq_of_lt_le
  · rw [Nat.mul_comm]; exact h1
  · rw [Nat.add_mul, Nat.mul_comm c]; omega

theorem block_bounds (p k : Nat) : p / 2 ^ k * 2 ^ k ≤ p ∧ p < p / 2 ^ k * 2 ^ k + 2 ^ k := by
  have h1 := Nat.div_add_mod p (2 ^ k)
  have h2 := Nat.mod_lt p (Nat.two_pow_pos k)
  generalize 2 ^ k = P at *
  rw [Nat.mul_comm] at h1
  omega

theorem set_append_cons' {α : Type} (A B : List α) (y x : α) : (A ++ y :: B).set A.length x = A ++ x :: B := by
  induction A with
  | nil => simp
  | cons a A ih => simp [ih]

theorem copyInto_exact {α : Type} (dst a ext : List α) (h : dst.length = a.length) :
    copyInto dst (a ++ ext) = a := by
  unfold copyInto
  rw [h, List.take_append_of_le_length (Nat.le_refl _), List.take_length,
    List.drop_eq_nil_of_le (by simp; omega)]
  simp

theorem splice_shape {α : Type} (A0 : List α) (x0 : α) (C0 B1 : List α) (y1 : α) (C1 ext : List α) (r : α) (k : Nat)
    (hA : A0.length = k) (hB : B1.length = k) (hC : C0.length = C1.length) :
    (((A0 ++ [x0]) ++ C0).take (k + 1) ++
        copyInto (((A0 ++ [x0]) ++ C0).drop (k + 1)) ((((B1 ++ [y1]) ++ C1) ++ ext).drop (k + 1))).set (k + 1 - 1) r
      = (A0 ++ [r]) ++ C1 ∧
    (((B1 ++ [y1]) ++ C1) ++ ext).take (k + 1 - 1) = B1 := by
  have hA1 : (A0 ++ [x0]).length = k + 1 := by simp [hA]
  have hB1 : (B1 ++ [y1]).length = k + 1 := by simp [hB]
  constructor
  · rw [List.take_append_of_le_length (by omega), ← hA1, List.take_length, List.drop_append_of_le_length (by omega),
      List.drop_length, List.nil_append, List.append_assoc (B1 ++ [y1]) C1 ext, hA1, ← hB1,
      List.drop_append_of_le_length (Nat.le_refl _), List.drop_length, List.nil_append, copyInto_exact _ _ _ hC,
      hB1, Nat.add_sub_cancel, List.append_assoc A0 [x0] C1, ← hA]
    have := set_append_cons' A0 C1 x0 r
    simpa using this
  · rw [Nat.add_sub_cancel, List.append_assoc, List.append_assoc, List.take_append_of_le_length (by omega), ← hB, List.take_length]

/-- the situation of `updateProof` inside one tree `(b,S)`: `ls1` is `ls0` rewritten at
    the positions of the group `g`, whose members carry their `ls1`-paths (possibly
    extended by tree growth) -/
structure GroupOK (ls0 ls1 : List H) (b S : Nat) (g : List (Leaf H)) : Prop where
  aligned : 2 ^ b ∣ S
  range : ∀ u ∈ g, S ≤ u.index ∧ u.index < S + 2 ^ b
  proof : ∀ u ∈ g, ∃ ext, u.proof = subPath ls1 0 u.index b S ++ ext
  hash : ∀ u ∈ g, ls1.getD u.index default = u.hash
  same : ∀ q, S ≤ q → q < S + 2 ^ b → (∀ u ∈ g, u.index ≠ q) → ls1.getD q default = ls0.getD q default

/-- **updateProof is correct inside a tree**: a holder's old path becomes the path in the
    rewritten forest. -/
theorem updateProof_spec (ls0 ls1 : List H) (b S : Nat) (g : List (Leaf H)) (ok : GroupOK ls0 ls1 b S g)
    (updated : Nat → List (Leaf H)) (hg : updated b = g)
    (j : Nat) (hj1 : S ≤ j) (hj2 : j < S + 2 ^ b) :
    updateProof j (subPath ls0 0 j b S) updated = .ok (subPath ls1 0 j b S) := by
  have hlen0 : (subPath ls0 0 j b S).length = b := by rw [subPath_length]; omega
  unfold updateProof
  rw [hlen0, hg]
  match g, ok with
  | [], ok =>
    dsimp only
    congr 1
    apply subPath_ext
    intro q h1 h2
    exact (ok.same q h1 h2 (fun u hu => by simp at hu)).symm
  | u0 :: us, ok =>
    dsimp only
    obtain ⟨hbm, hbmin⟩ := best_fold j us u0
    generalize us.foldl (fun best ul =>
      if mergeHeight j ul.index < mergeHeight j best.index then ul else best) u0 = best at *
    obtain ⟨ext, hbp⟩ := ok.proof best hbm
    obtain ⟨hb1, hb2⟩ := ok.range best hbm
    by_cases hbj : best.index = j
    · rw [if_pos hbj, hbp, hbj]
      congr 1
      exact copyInto_exact _ _ _ (by rw [hlen0, subPath_length]; omega)
    · rw [if_neg hbj]
      have hmhpos := mergeHeight_pos (n := j) (i := best.index) hbj
      -- the merge height and the blocks involved
      have hmhle : mergeHeight j best.index ≤ b := by
        rw [mergeHeight_le_iff, div_eq_of_block ok.aligned hj1 hj2, div_eq_of_block ok.aligned hb1 hb2]
      generalize hmh : mergeHeight j best.index = mh at *
      obtain ⟨k, rfl⟩ : ∃ k, mh = k + 1 := ⟨mh - 1, by omega⟩
      have hle : mergeHeight j best.index ≤ k + 1 := by omega
      have hnle : ¬ mergeHeight j best.index ≤ k := by omega
      rw [mergeHeight_le_iff] at hle hnle
      have hp := pow_succ2 k
      have hpos := Nat.two_pow_pos k
      -- the common (k+1)-block s', and the two k-blocks
      obtain ⟨hs1, hs2⟩ := block_bounds j (k + 1)
      obtain ⟨hs1b, hs2b⟩ := block_bounds best.index (k + 1)
      rw [← hle] at hs1b hs2b
      generalize hs' : j / 2 ^ (k + 1) * 2 ^ (k + 1) = s' at *
      have hs'al : 2 ^ (k + 1) ∣ s' := by rw [← hs']; exact Nat.dvd_mul_left _ _
      have hs'S : S ≤ s' := by
        rcases Nat.lt_or_ge s' S with hlt | hge
        · have := mul_succ_le_of_lt hs'al (Nat.dvd_trans (Nat.pow_dvd_pow 2 hmhle) ok.aligned) hlt; omega
        · exact hge
      have hs'lt : s' < S + 2 ^ b := by omega
      have hs'k : 2 ^ k ∣ s' := dvd_of_dvd_succ hs'al
      have hs'k2 : 2 ^ k ∣ s' + 2 ^ k := dvd_add_pow hs'al
      have hSk1 : 2 ^ (k + 1) ∣ S := Nat.dvd_trans (Nat.pow_dvd_pow 2 hmhle) ok.aligned
      have hcont : s' + 2 ^ (k + 1) ≤ S + 2 ^ b :=
        mul_succ_le_of_lt hs'al ((Nat.dvd_add_right hSk1).2 (Nat.pow_dvd_pow 2 hmhle)) hs'lt
      have hbl : best.proof.length = b + ext.length := by rw [hbp, List.length_append, subPath_length]; omega
      rw [if_neg (by omega)]
      congr 1
      -- no rewritten leaf lies in j's k-block
      have hclean : ∀ sj, 2 ^ k ∣ sj → sj ≤ j → j < sj + 2 ^ k → S ≤ sj → sj + 2 ^ k ≤ S + 2 ^ b →
          subPath ls1 0 j k sj = subPath ls0 0 j k sj := by
        intro sj hal h1 h2 h3 h4
        apply subPath_ext
        intro q hq1 hq2
        apply ok.same q (by omega) (by omega)
        intro u hu hq
        have := hbmin u hu
        have hle' : mergeHeight j u.index ≤ k := by
          rw [mergeHeight_le_iff, hq, div_eq_of_block hal h1 h2, div_eq_of_block hal hq1 hq2]
        omega
      have hcomp : ∀ (ls : List H) (p : Nat), s' ≤ p → p < s' + 2 ^ (k + 1) →
          subPath ls 0 p b S = subPath ls 0 p (k + 1) s' ++ subPath ls (k + 1) s' b S :=
        fun ls p h1 h2 => subPath_comp ls hs'al h1 h2 b S hmhle ok.aligned hs'S hs'lt
      have hC : (subPath ls0 (k + 1) s' b S).length = (subPath ls1 (k + 1) s' b S).length := by
        rw [subPath_length, subPath_length]
      by_cases hjl : j < s' + 2 ^ k
      · -- j in the left half, best in the right half
        have hbr : s' + 2 ^ k ≤ best.index := by
          rcases Nat.lt_or_ge best.index (s' + 2 ^ k) with h | h
          · exact absurd (by rw [div_eq_of_block hs'k hs1 hjl, div_eq_of_block hs'k hs1b h]) hnle
          · exact h
        rw [hbp, hcomp ls0 j hs1 hs2, hcomp ls1 j hs1 hs2, hcomp ls1 best.index hs1b hs2b,
          subPath_left ls0 (Nat.zero_le _) hjl, subPath_left ls1 (Nat.zero_le _) hjl,
          subPath_right ls1 (Nat.zero_le _) hbr]
        obtain ⟨e1, e2⟩ := splice_shape (subPath ls0 0 j k s') (subRoot ls0 k (s' + 2 ^ k)) (subPath ls0 (k + 1) s' b S)
          (subPath ls1 0 best.index k (s' + 2 ^ k)) (subRoot ls1 k s') (subPath ls1 (k + 1) s' b S) ext
          (proofRoot best.hash best.index (subPath ls1 0 best.index k (s' + 2 ^ k))) k
          (by rw [subPath_length]; omega) (by rw [subPath_length]; omega) hC
        rw [e2, e1, ← ok.hash best hbm, proofRoot_path_block ls1 hs'k2 hbr (by omega),
          hclean s' hs'k hs1 hjl hs'S (by omega)]
      · -- j in the right half, best in the left half
        have hjr : s' + 2 ^ k ≤ j := by omega
        have hbl' : best.index < s' + 2 ^ k := by
          rcases Nat.lt_or_ge best.index (s' + 2 ^ k) with h | h
          · exact h
          · exact absurd (by rw [div_eq_of_block hs'k2 hjr (by omega), div_eq_of_block hs'k2 h (by omega)]) hnle
        rw [hbp, hcomp ls0 j hs1 hs2, hcomp ls1 j hs1 hs2, hcomp ls1 best.index hs1b hs2b,
          subPath_right ls0 (Nat.zero_le _) hjr, subPath_right ls1 (Nat.zero_le _) hjr,
          subPath_left ls1 (Nat.zero_le _) hbl']
        obtain ⟨e1, e2⟩ := splice_shape (subPath ls0 0 j k (s' + 2 ^ k)) (subRoot ls0 k s') (subPath ls0 (k + 1) s' b S)
          (subPath ls1 0 best.index k s') (subRoot ls1 k (s' + 2 ^ k)) (subPath ls1 (k + 1) s' b S) ext
          (proofRoot best.hash best.index (subPath ls1 0 best.index k s')) k
          (by rw [subPath_length]; omega) (by rw [subPath_length]; omega) hC
        rw [e2, e1, ← ok.hash best hbm, proofRoot_path_block ls1 hs'k hs1b hbl',
          hclean (s' + 2 ^ k) hs'k2 hjr (by omega) (by omega) (by omega)]

end
end Sia.ElemAcc
