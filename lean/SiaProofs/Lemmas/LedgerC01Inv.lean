import SiaProofs.Lemmas.LedgerC01Put
/-!
# C01 helper lemmas, part 6: the mid-state invariant and the effect of each primitive

`Ctx T L`: static facts about the base ledger and the id typing `T`.
`Inv T ms`: index structure plus one well-formedness predicate per diff.
`Fresh T ms R`: the ids still to be created are unused.
Each `Mid.create*/spend*/revise*/resolve*` preserves `Inv`, changes the potential by
the obvious amount, and leaves every other id untouched (`Agree`).
-/
namespace Sia.Ledger

def baseIds (L : Ledger) : Kind → List Id
  | .sc => L.sc.map (·.id)
  | .sf => L.sf.map (·.id)
  | .fc1 => L.fc1.map (·.id)
  | .fc2 => L.fc2.map (·.id)
  | .att => []

structure Ctx (T : Kind → Id → Prop) (L : Ledger) : Prop where
  disj : TDisj T
  base : ∀ k id, id ∈ baseIds L k → T k id
  nodup : ∀ k, (baseIds L k).Nodup
  fc1_bal : ∀ e ∈ L.fc1, sumVals e.fc.valid = sumVals e.fc.missed

def ScOk (L : Ledger) (sp : List Id) (d : ScDiff) : Prop :=
  (d.created = true → d.e.id ∉ baseIds L .sc) ∧
  (d.created = false → d.spent = true ∧ d.e ∈ L.sc) ∧
  (d.spent = true → d.e.id ∈ sp)

def SfOk (L : Ledger) (sp : List Id) (d : SfDiff) : Prop :=
  (d.created = true → d.e.id ∉ baseIds L .sf) ∧
  (d.created = false → d.spent = true ∧ d.e ∈ L.sf) ∧
  (d.spent = true → d.e.id ∈ sp)

def Fc1Ok (L : Ledger) (sp : List Id) (d : Fc1Diff) : Prop :=
  (d.created = true → d.e.id ∉ baseIds L .fc1) ∧
  (d.created = false → d.e ∈ L.fc1) ∧
  (d.resolved = true → d.e.id ∈ sp) ∧
  (d.resolved = false → d.current.fc.val = d.e.fc.val ∧
    sumVals d.current.fc.valid = sumVals d.current.fc.missed)

def Fc2Ok (L : Ledger) (sp : List Id) (d : Fc2Diff) : Prop :=
  (d.created = true → d.e.id ∉ baseIds L .fc2) ∧
  (d.created = false → d.e ∈ L.fc2) ∧
  (d.resolution.isSome = true → d.e.id ∈ sp) ∧
  d.current.fc.val = d.e.fc.val ∧
  d.current.fc.missedHost ≤ d.current.fc.host.value

/-- the id is recorded as consumed by a diff of some kind -/
def SpentView (ms : Mid) (id : Id) : Prop :=
  (∃ d, ms.scDiff? id = some d ∧ d.spent = true) ∨ (∃ d, ms.sfDiff? id = some d ∧ d.spent = true) ∨
  (∃ d, ms.fc1Diff? id = some d ∧ d.resolved = true) ∨ (∃ d, ms.fc2Diff? id = some d ∧ d.resolution.isSome = true)

theorem SpentView.agree {ms ms' : Mid} {x : Id} {P : Id → Prop} (h : SpentView ms x) (ha : Agree ms ms' P) (hp : ¬ P x) :
    SpentView ms' x := by
  obtain ⟨_, a1, a2, a3, a4, _⟩ := ha.2 x hp
  unfold SpentView; rw [a1, a2, a3, a4]; exact h

structure Inv (T : Kind → Id → Prop) (ms : Mid) : Prop where
  struct : Struct T ms
  sc : ∀ d ∈ ms.sces, ScOk ms.base ms.spends d
  sf : ∀ d ∈ ms.sfes, SfOk ms.base ms.spends d
  fc1 : ∀ d ∈ ms.fces, Fc1Ok ms.base ms.spends d
  fc2 : ∀ d ∈ ms.v2fces, Fc2Ok ms.base ms.spends d
  /-- no id is consumed twice in the block -/
  nodup : ms.spends.Nodup
  /-- every consumed id has a diff saying so -/
  spent : ∀ id ∈ ms.spends, SpentView ms id

theorem Inv.not_spent_of_lookup_none {T} {ms : Mid} (hI : Inv T ms) {x : Id} (h : ms.lookup x = none) : x ∉ ms.spends := by
  intro hx
  rcases hI.spent x hx with ⟨d, hd, _⟩ | ⟨d, hd, _⟩ | ⟨d, hd, _⟩ | ⟨d, hd, _⟩
  · obtain ⟨i, hi, _⟩ := scDiff?_some hd; rw [h] at hi; cases hi
  · obtain ⟨i, hi, _⟩ := sfDiff?_some hd; rw [h] at hi; cases hi
  · obtain ⟨i, hi, _⟩ := fc1Diff?_some hd; rw [h] at hi; cases hi
  · obtain ⟨i, hi, _⟩ := fc2Diff?_some hd; rw [h] at hi; cases hi

theorem Inv.kind_of_sc {T} {ms : Mid} (hI : Inv T ms) {x : Id} {d : ScDiff} (h : ms.scDiff? x = some d) : T Kind.sc x := by
  obtain ⟨hm, hid⟩ := scDiff?_mem h
  rw [← hid]; exact hI.struct.typed Kind.sc _ (List.mem_map_of_mem hm)
theorem Inv.kind_of_sf {T} {ms : Mid} (hI : Inv T ms) {x : Id} {d : SfDiff} (h : ms.sfDiff? x = some d) : T Kind.sf x := by
  obtain ⟨hm, hid⟩ := sfDiff?_mem h
  rw [← hid]; exact hI.struct.typed Kind.sf _ (List.mem_map_of_mem hm)
theorem Inv.kind_of_fc1 {T} {ms : Mid} (hI : Inv T ms) {x : Id} {d : Fc1Diff} (h : ms.fc1Diff? x = some d) : T Kind.fc1 x := by
  obtain ⟨hm, hid⟩ := fc1Diff?_mem h
  rw [← hid]; exact hI.struct.typed Kind.fc1 _ (List.mem_map_of_mem hm)
theorem Inv.kind_of_fc2 {T} {ms : Mid} (hI : Inv T ms) {x : Id} {d : Fc2Diff} (h : ms.fc2Diff? x = some d) : T Kind.fc2 x := by
  obtain ⟨hm, hid⟩ := fc2Diff?_mem h
  rw [← hid]; exact hI.struct.typed Kind.fc2 _ (List.mem_map_of_mem hm)

theorem Inv.not_spent_sc {T} {ms : Mid} (hI : Inv T ms) (hd : TDisj T) {x : Id} (hT : T Kind.sc x)
    (h : ∀ d, ms.scDiff? x = some d → d.spent = false) : x ∉ ms.spends := by
  intro hx
  rcases hI.spent x hx with ⟨d, hv, hs⟩ | ⟨d, hv, _⟩ | ⟨d, hv, _⟩ | ⟨d, hv, _⟩
  · rw [h d hv] at hs; cases hs
  · cases hd _ _ _ hT (hI.kind_of_sf hv)
  · cases hd _ _ _ hT (hI.kind_of_fc1 hv)
  · cases hd _ _ _ hT (hI.kind_of_fc2 hv)
theorem Inv.not_spent_sf {T} {ms : Mid} (hI : Inv T ms) (hd : TDisj T) {x : Id} (hT : T Kind.sf x)
    (h : ∀ d, ms.sfDiff? x = some d → d.spent = false) : x ∉ ms.spends := by
  intro hx
  rcases hI.spent x hx with ⟨d, hv, _⟩ | ⟨d, hv, hs⟩ | ⟨d, hv, _⟩ | ⟨d, hv, _⟩
  · cases hd _ _ _ hT (hI.kind_of_sc hv)
  · rw [h d hv] at hs; cases hs
  · cases hd _ _ _ hT (hI.kind_of_fc1 hv)
  · cases hd _ _ _ hT (hI.kind_of_fc2 hv)
theorem Inv.not_spent_fc1 {T} {ms : Mid} (hI : Inv T ms) (hd : TDisj T) {x : Id} (hT : T Kind.fc1 x)
    (h : ∀ d, ms.fc1Diff? x = some d → d.resolved = false) : x ∉ ms.spends := by
  intro hx
  rcases hI.spent x hx with ⟨d, hv, _⟩ | ⟨d, hv, _⟩ | ⟨d, hv, hs⟩ | ⟨d, hv, _⟩
  · cases hd _ _ _ hT (hI.kind_of_sc hv)
  · cases hd _ _ _ hT (hI.kind_of_sf hv)
  · rw [h d hv] at hs; cases hs
  · cases hd _ _ _ hT (hI.kind_of_fc2 hv)
theorem Inv.not_spent_fc2 {T} {ms : Mid} (hI : Inv T ms) (hd : TDisj T) {x : Id} (hT : T Kind.fc2 x)
    (h : ∀ d, ms.fc2Diff? x = some d → d.resolution = none) : x ∉ ms.spends := by
  intro hx
  rcases hI.spent x hx with ⟨d, hv, _⟩ | ⟨d, hv, _⟩ | ⟨d, hv, _⟩ | ⟨d, hv, hs⟩
  · cases hd _ _ _ hT (hI.kind_of_sc hv)
  · cases hd _ _ _ hT (hI.kind_of_sf hv)
  · cases hd _ _ _ hT (hI.kind_of_fc1 hv)
  · rw [h d hv] at hs; cases hs

theorem ScOk.mono {L sp sp'} {d : ScDiff} (h : ScOk L sp d) (hs : ∀ x ∈ sp, x ∈ sp') : ScOk L sp' d :=
  ⟨h.1, h.2.1, fun hh => hs _ (h.2.2 hh)⟩
theorem SfOk.mono {L sp sp'} {d : SfDiff} (h : SfOk L sp d) (hs : ∀ x ∈ sp, x ∈ sp') : SfOk L sp' d :=
  ⟨h.1, h.2.1, fun hh => hs _ (h.2.2 hh)⟩
theorem Fc1Ok.mono {L sp sp'} {d : Fc1Diff} (h : Fc1Ok L sp d) (hs : ∀ x ∈ sp, x ∈ sp') : Fc1Ok L sp' d :=
  ⟨h.1, h.2.1, fun hh => hs _ (h.2.2.1 hh), h.2.2.2⟩
theorem Fc2Ok.mono {L sp sp'} {d : Fc2Diff} (h : Fc2Ok L sp d) (hs : ∀ x ∈ sp, x ∈ sp') : Fc2Ok L sp' d :=
  ⟨h.1, h.2.1, fun hh => hs _ (h.2.2.1 hh), h.2.2.2⟩

/-- ids still to be created: pairwise distinct, typed, unused so far and absent from the base ledger -/
def Fresh (T : Kind → Id → Prop) (ms : Mid) (R : List (Kind × Id)) : Prop :=
  (R.map (·.2)).Nodup ∧ ∀ p ∈ R, T p.1 p.2 ∧ ms.lookup p.2 = none ∧ ∀ k, p.2 ∉ baseIds ms.base k

theorem Fresh.tail {T ms p R} (h : Fresh T ms (p :: R)) : Fresh T ms R := by
  refine ⟨?_, fun q hq => h.2 q (List.mem_cons_of_mem _ hq)⟩
  have := h.1; simp only [List.map_cons, List.nodup_cons] at this; exact this.2

theorem Fresh.sublist {T ms R R'} (h : Fresh T ms R) (hs : R'.Sublist R) : Fresh T ms R' :=
  ⟨(hs.map _).nodup h.1, fun q hq => h.2 q (hs.subset hq)⟩

theorem Fresh.drop_append {T ms A R} (h : Fresh T ms (A ++ R)) : Fresh T ms R :=
  h.sublist (List.sublist_append_right A R)

theorem Fresh.head_not_mem {T ms k id R} (h : Fresh T ms ((k, id) :: R)) : ∀ q ∈ R, q.2 ≠ id := by
  intro q hq he
  have := h.1; simp only [List.map_cons, List.nodup_cons] at this
  exact this.1 (he ▸ List.mem_map_of_mem hq)

/-- `Fresh` survives any change that agrees outside ids which are not in `R` -/
theorem Fresh.agree {T ms ms' R} {P : Id → Prop} (h : Fresh T ms R) (ha : Agree ms ms' P)
    (hp : ∀ q ∈ R, ¬ P q.2) : Fresh T ms' R := by
  refine ⟨h.1, fun q hq => ?_⟩
  obtain ⟨h1, h2, h3⟩ := h.2 q hq
  refine ⟨h1, ?_, ?_⟩
  · rw [(ha.2 q.2 (hp q hq)).1]; exact h2
  · rw [ha.1]; exact h3

-- ------------------------------------------------------------------ totals only depend on base and own slice

theorem scTot_congr {ms ms' : Mid} (hb : ms'.base = ms.base) (hs : ms'.sces = ms.sces) : scTot ms' = scTot ms := by
  unfold scTot Mid.scIds; rw [hb, hs]
theorem sfTot_congr {ms ms' : Mid} (hb : ms'.base = ms.base) (hs : ms'.sfes = ms.sfes) : sfTot ms' = sfTot ms := by
  unfold sfTot Mid.sfIds; rw [hb, hs]
theorem fc1Tot_congr {ms ms' : Mid} (hb : ms'.base = ms.base) (hs : ms'.fces = ms.fces) : fc1Tot ms' = fc1Tot ms := by
  unfold fc1Tot Mid.fc1Ids; rw [hb, hs]
theorem fc2Tot_congr {ms ms' : Mid} (hb : ms'.base = ms.base) (hs : ms'.v2fces = ms.v2fces) : fc2Tot ms' = fc2Tot ms := by
  unfold fc2Tot Mid.fc2Ids; rw [hb, hs]

-- ------------------------------------------------------------------ Inv after a put

theorem putSc_inv {T} {ms : Mid} (hI : Inv T ms) (hd : TDisj T) {id : Id} (hT : T .sc id) (f : ScDiff → ScDiff)
    (hf : (scNew ms id f).e.id = id) (hok : ScOk ms.base ms.spends (scNew ms id f))
    (hns : id ∉ ms.spends) : Inv T (ms.putSc id f) := by
  have hA := putSc_agree hI.struct hd hT f hf
  refine ⟨?_, ?_, ?_, ?_, ?_, by rw [putSc_spends_c1]; exact hI.nodup, ?_⟩
  rotate_left 5
  · intro y hy
    rw [putSc_spends_c1] at hy
    exact (hI.spent y hy).agree hA (fun h => hns (h ▸ hy))
  · exact putSc_struct hI.struct hd hT f hf
  · intro d hm; rw [putSc_base_c1, putSc_spends_c1]
    rcases putSc_mem hI.struct hd hT f hm with h | h
    · exact hI.sc d h
    · rw [h]; exact hok
  · rw [putSc_base_c1, putSc_spends_c1, putSc_sfes]; exact hI.sf
  · rw [putSc_base_c1, putSc_spends_c1, putSc_fces]; exact hI.fc1
  · rw [putSc_base_c1, putSc_spends_c1, putSc_v2fces]; exact hI.fc2

theorem putSf_inv {T} {ms : Mid} (hI : Inv T ms) (hd : TDisj T) {id : Id} (hT : T .sf id) (f : SfDiff → SfDiff)
    (hf : (sfNew ms id f).e.id = id) (hok : SfOk ms.base ms.spends (sfNew ms id f))
    (hns : id ∉ ms.spends) : Inv T (ms.putSf id f) := by
  have hA := putSf_agree hI.struct hd hT f hf
  refine ⟨?_, ?_, ?_, ?_, ?_, by rw [putSf_spends_c1]; exact hI.nodup, ?_⟩
  rotate_left 5
  · intro y hy
    rw [putSf_spends_c1] at hy
    exact (hI.spent y hy).agree hA (fun h => hns (h ▸ hy))
  · exact putSf_struct hI.struct hd hT f hf
  · rw [putSf_base_c1, putSf_spends_c1, putSf_sces]; exact hI.sc
  · intro d hm; rw [putSf_base_c1, putSf_spends_c1]
    rcases putSf_mem hI.struct hd hT f hm with h | h
    · exact hI.sf d h
    · rw [h]; exact hok
  · rw [putSf_base_c1, putSf_spends_c1, putSf_fces]; exact hI.fc1
  · rw [putSf_base_c1, putSf_spends_c1, putSf_v2fces]; exact hI.fc2

theorem putFc1_inv {T} {ms : Mid} (hI : Inv T ms) (hd : TDisj T) {id : Id} (hT : T .fc1 id) (f : Fc1Diff → Fc1Diff)
    (hf : (fc1New ms id f).e.id = id) (hok : Fc1Ok ms.base ms.spends (fc1New ms id f))
    (hns : id ∉ ms.spends) : Inv T (ms.putFc1 id f) := by
  have hA := putFc1_agree hI.struct hd hT f hf
  refine ⟨?_, ?_, ?_, ?_, ?_, by rw [putFc1_spends_c1]; exact hI.nodup, ?_⟩
  rotate_left 5
  · intro y hy
    rw [putFc1_spends_c1] at hy
    exact (hI.spent y hy).agree hA (fun h => hns (h ▸ hy))
  · exact putFc1_struct hI.struct hd hT f hf
  · rw [putFc1_base_c1, putFc1_spends_c1, putFc1_sces_c1]; exact hI.sc
  · rw [putFc1_base_c1, putFc1_spends_c1, putFc1_sfes]; exact hI.sf
  · intro d hm; rw [putFc1_base_c1, putFc1_spends_c1]
    rcases putFc1_mem hI.struct hd hT f hm with h | h
    · exact hI.fc1 d h
    · rw [h]; exact hok
  · rw [putFc1_base_c1, putFc1_spends_c1, putFc1_v2fces]; exact hI.fc2

theorem putFc2_inv {T} {ms : Mid} (hI : Inv T ms) (hd : TDisj T) {id : Id} (hT : T .fc2 id) (f : Fc2Diff → Fc2Diff)
    (hf : (fc2New ms id f).e.id = id) (hok : Fc2Ok ms.base ms.spends (fc2New ms id f))
    (hns : id ∉ ms.spends) : Inv T (ms.putFc2 id f) := by
  have hA := putFc2_agree hI.struct hd hT f hf
  refine ⟨?_, ?_, ?_, ?_, ?_, by rw [putFc2_spends_c1]; exact hI.nodup, ?_⟩
  rotate_left 5
  · intro y hy
    rw [putFc2_spends_c1] at hy
    exact (hI.spent y hy).agree hA (fun h => hns (h ▸ hy))
  · exact putFc2_struct hI.struct hd hT f hf
  · rw [putFc2_base_c1, putFc2_spends_c1, putFc2_sces_c1]; exact hI.sc
  · rw [putFc2_base_c1, putFc2_spends_c1, putFc2_sfes]; exact hI.sf
  · rw [putFc2_base_c1, putFc2_spends_c1, putFc2_fces]; exact hI.fc1
  · intro d hm; rw [putFc2_base_c1, putFc2_spends_c1]
    rcases putFc2_mem hI.struct hd hT f hm with h | h
    · exact hI.fc2 d h
    · rw [h]; exact hok


/-- variant of `putSc_inv` that records more spent ids at the same time -/
theorem putSc_inv' {T} {ms : Mid} (hI : Inv T ms) (hd : TDisj T) {id : Id} (hT : T .sc id) (f : ScDiff → ScDiff)
    (hf : (scNew ms id f).e.id = id) (sp' : List Id) (hsub : ∀ x ∈ ms.spends, x ∈ sp')
    (hok : ScOk ms.base sp' (scNew ms id f)) (hnd : sp'.Nodup) (hmem : ∀ y ∈ sp', y = id ∨ y ∈ ms.spends)
    (hsp : (scNew ms id f).spent = true) : Inv T { ms.putSc id f with spends := sp' } := by
  have h0 := putSc_struct hI.struct hd hT f hf
  have hA := putSc_agree hI.struct hd hT f hf
  have hV := putSc_view hI.struct hd hT f hf
  refine ⟨?_, ?_, ?_, ?_, ?_, hnd, ?_⟩
  rotate_left 5
  · intro y hy
    by_cases hyi : y = id
    · subst hyi
      exact (Or.inl) ⟨_, hV, hsp⟩
    · rcases hmem y hy with h | h
      · exact absurd h hyi
      · have h' := (hI.spent y h).agree hA hyi
        exact h'
  · exact h0.same rfl (fun k => by cases k <;> rfl)
  · intro d hm; show ScOk (ms.putSc id f).base sp' d; rw [putSc_base_c1]
    rcases putSc_mem hI.struct hd hT f hm with h | h
    · exact (hI.sc d h).mono hsub
    · rw [h]; exact hok
  · intro d hm; show SfOk (ms.putSc id f).base sp' d; rw [putSc_base_c1]
    have hm' : d ∈ (ms.putSc id f).sfes := hm
    rw [putSc_sfes] at hm'; exact (hI.sf d hm').mono hsub
  · intro d hm; show Fc1Ok (ms.putSc id f).base sp' d; rw [putSc_base_c1]
    have hm' : d ∈ (ms.putSc id f).fces := hm
    rw [putSc_fces] at hm'; exact (hI.fc1 d hm').mono hsub
  · intro d hm; show Fc2Ok (ms.putSc id f).base sp' d; rw [putSc_base_c1]
    have hm' : d ∈ (ms.putSc id f).v2fces := hm
    rw [putSc_v2fces] at hm'; exact (hI.fc2 d hm').mono hsub

theorem putSf_inv' {T} {ms : Mid} (hI : Inv T ms) (hd : TDisj T) {id : Id} (hT : T .sf id) (f : SfDiff → SfDiff)
    (hf : (sfNew ms id f).e.id = id) (sp' : List Id) (hsub : ∀ x ∈ ms.spends, x ∈ sp')
    (hok : SfOk ms.base sp' (sfNew ms id f)) (hnd : sp'.Nodup) (hmem : ∀ y ∈ sp', y = id ∨ y ∈ ms.spends)
    (hsp : (sfNew ms id f).spent = true) : Inv T { ms.putSf id f with spends := sp' } := by
  have h0 := putSf_struct hI.struct hd hT f hf
  have hA := putSf_agree hI.struct hd hT f hf
  have hV := putSf_view hI.struct hd hT f hf
  refine ⟨?_, ?_, ?_, ?_, ?_, hnd, ?_⟩
  rotate_left 5
  · intro y hy
    by_cases hyi : y = id
    · subst hyi
      exact (fun h => Or.inr (Or.inl h)) ⟨_, hV, hsp⟩
    · rcases hmem y hy with h | h
      · exact absurd h hyi
      · have h' := (hI.spent y h).agree hA hyi
        exact h'
  · exact h0.same rfl (fun k => by cases k <;> rfl)
  · intro d hm; show ScOk (ms.putSf id f).base sp' d; rw [putSf_base_c1]
    have hm' : d ∈ (ms.putSf id f).sces := hm
    rw [putSf_sces] at hm'; exact (hI.sc d hm').mono hsub
  · intro d hm; show SfOk (ms.putSf id f).base sp' d; rw [putSf_base_c1]
    rcases putSf_mem hI.struct hd hT f hm with h | h
    · exact (hI.sf d h).mono hsub
    · rw [h]; exact hok
  · intro d hm; show Fc1Ok (ms.putSf id f).base sp' d; rw [putSf_base_c1]
    have hm' : d ∈ (ms.putSf id f).fces := hm
    rw [putSf_fces] at hm'; exact (hI.fc1 d hm').mono hsub
  · intro d hm; show Fc2Ok (ms.putSf id f).base sp' d; rw [putSf_base_c1]
    have hm' : d ∈ (ms.putSf id f).v2fces := hm
    rw [putSf_v2fces] at hm'; exact (hI.fc2 d hm').mono hsub

theorem putFc1_inv' {T} {ms : Mid} (hI : Inv T ms) (hd : TDisj T) {id : Id} (hT : T .fc1 id) (f : Fc1Diff → Fc1Diff)
    (hf : (fc1New ms id f).e.id = id) (sp' : List Id) (hsub : ∀ x ∈ ms.spends, x ∈ sp')
    (hok : Fc1Ok ms.base sp' (fc1New ms id f)) (hnd : sp'.Nodup) (hmem : ∀ y ∈ sp', y = id ∨ y ∈ ms.spends)
    (hsp : (fc1New ms id f).resolved = true) : Inv T { ms.putFc1 id f with spends := sp' } := by
  have h0 := putFc1_struct hI.struct hd hT f hf
  have hA := putFc1_agree hI.struct hd hT f hf
  have hV := putFc1_view hI.struct hd hT f hf
  refine ⟨?_, ?_, ?_, ?_, ?_, hnd, ?_⟩
  rotate_left 5
  · intro y hy
    by_cases hyi : y = id
    · subst hyi
      exact (fun h => Or.inr (Or.inr (Or.inl h))) ⟨_, hV, hsp⟩
    · rcases hmem y hy with h | h
      · exact absurd h hyi
      · have h' := (hI.spent y h).agree hA hyi
        exact h'
  · exact h0.same rfl (fun k => by cases k <;> rfl)
  · intro d hm; show ScOk (ms.putFc1 id f).base sp' d; rw [putFc1_base_c1]
    have hm' : d ∈ (ms.putFc1 id f).sces := hm
    rw [putFc1_sces_c1] at hm'; exact (hI.sc d hm').mono hsub
  · intro d hm; show SfOk (ms.putFc1 id f).base sp' d; rw [putFc1_base_c1]
    have hm' : d ∈ (ms.putFc1 id f).sfes := hm
    rw [putFc1_sfes] at hm'; exact (hI.sf d hm').mono hsub
  · intro d hm; show Fc1Ok (ms.putFc1 id f).base sp' d; rw [putFc1_base_c1]
    rcases putFc1_mem hI.struct hd hT f hm with h | h
    · exact (hI.fc1 d h).mono hsub
    · rw [h]; exact hok
  · intro d hm; show Fc2Ok (ms.putFc1 id f).base sp' d; rw [putFc1_base_c1]
    have hm' : d ∈ (ms.putFc1 id f).v2fces := hm
    rw [putFc1_v2fces] at hm'; exact (hI.fc2 d hm').mono hsub

theorem putFc2_inv' {T} {ms : Mid} (hI : Inv T ms) (hd : TDisj T) {id : Id} (hT : T .fc2 id) (f : Fc2Diff → Fc2Diff)
    (hf : (fc2New ms id f).e.id = id) (sp' : List Id) (hsub : ∀ x ∈ ms.spends, x ∈ sp')
    (hok : Fc2Ok ms.base sp' (fc2New ms id f)) (hnd : sp'.Nodup) (hmem : ∀ y ∈ sp', y = id ∨ y ∈ ms.spends)
    (hsp : (fc2New ms id f).resolution.isSome = true) : Inv T { ms.putFc2 id f with spends := sp' } := by
  have h0 := putFc2_struct hI.struct hd hT f hf
  have hA := putFc2_agree hI.struct hd hT f hf
  have hV := putFc2_view hI.struct hd hT f hf
  refine ⟨?_, ?_, ?_, ?_, ?_, hnd, ?_⟩
  rotate_left 5
  · intro y hy
    by_cases hyi : y = id
    · subst hyi
      exact (fun h => Or.inr (Or.inr (Or.inr h))) ⟨_, hV, hsp⟩
    · rcases hmem y hy with h | h
      · exact absurd h hyi
      · have h' := (hI.spent y h).agree hA hyi
        exact h'
  · exact h0.same rfl (fun k => by cases k <;> rfl)
  · intro d hm; show ScOk (ms.putFc2 id f).base sp' d; rw [putFc2_base_c1]
    have hm' : d ∈ (ms.putFc2 id f).sces := hm
    rw [putFc2_sces_c1] at hm'; exact (hI.sc d hm').mono hsub
  · intro d hm; show SfOk (ms.putFc2 id f).base sp' d; rw [putFc2_base_c1]
    have hm' : d ∈ (ms.putFc2 id f).sfes := hm
    rw [putFc2_sfes] at hm'; exact (hI.sf d hm').mono hsub
  · intro d hm; show Fc1Ok (ms.putFc2 id f).base sp' d; rw [putFc2_base_c1]
    have hm' : d ∈ (ms.putFc2 id f).fces := hm
    rw [putFc2_fces] at hm'; exact (hI.fc1 d hm').mono hsub
  · intro d hm; show Fc2Ok (ms.putFc2 id f).base sp' d; rw [putFc2_base_c1]
    rcases putFc2_mem hI.struct hd hT f hm with h | h
    · exact (hI.fc2 d h).mono hsub
    · rw [h]; exact hok

/-- updating scalar fields (pool, Foundation addresses, attestation count) keeps the invariant -/
theorem Inv.scalars {T} {ms ms' : Mid} (hI : Inv T ms) (h1 : ms'.base = ms.base) (h2 : ms'.elements = ms.elements)
    (h3 : ms'.spends = ms.spends) (h4 : ms'.sces = ms.sces) (h5 : ms'.sfes = ms.sfes) (h6 : ms'.fces = ms.fces)
    (h7 : ms'.v2fces = ms.v2fces) : Inv T ms' := by
  constructor
  · exact hI.struct.same h2 (fun k => by cases k <;> simp [Mid.idsOf, Mid.scIds, Mid.sfIds, Mid.fc1Ids, Mid.fc2Ids, h4, h5, h6, h7])
  · rw [h1, h3, h4]; exact hI.sc
  · rw [h1, h3, h5]; exact hI.sf
  · rw [h1, h3, h6]; exact hI.fc1
  · rw [h1, h3, h7]; exact hI.fc2
  · rw [h3]; exact hI.nodup
  · intro y hy
    rw [h3] at hy
    have hl : ms'.lookup y = ms.lookup y := by unfold Mid.lookup; rw [h2]
    have := hI.spent y hy
    unfold SpentView at this ⊢
    unfold Mid.scDiff? Mid.sfDiff? Mid.fc1Diff? Mid.fc2Diff? at this ⊢
    rw [hl, h4, h5, h6, h7]; exact this

theorem agree_scalars {ms ms' : Mid} (h1 : ms'.base = ms.base) (h2 : ms'.elements = ms.elements)
    (h3 : ms'.spends = ms.spends) (h4 : ms'.sces = ms.sces) (h5 : ms'.sfes = ms.sfes) (h6 : ms'.fces = ms.fces)
    (h7 : ms'.v2fces = ms.v2fces) (P : Id → Prop) : Agree ms ms' P := by
  refine ⟨h1, fun x _ => ?_⟩
  have hl : ms'.lookup x = ms.lookup x := by unfold Mid.lookup; rw [h2]
  refine ⟨hl, ?_, ?_, ?_, ?_, ?_⟩
  · unfold Mid.scDiff?; rw [hl, h4]
  · unfold Mid.sfDiff?; rw [hl, h5]
  · unfold Mid.fc1Diff?; rw [hl, h6]
  · unfold Mid.fc2Diff?; rw [hl, h7]
  · unfold Mid.isSpent; rw [h3]

theorem agree_addSpend (ms : Mid) (id : Id) : Agree ms { ms with spends := id :: ms.spends } (· = id) :=
  ⟨rfl, fun x hx => ⟨rfl, rfl, rfl, rfl, rfl, isSpent_cons ms id x hx⟩⟩

end Sia.Ledger
