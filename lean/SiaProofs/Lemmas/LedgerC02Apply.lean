import SiaProofs.Lemmas.LedgerC08Fold
/-!
# `applyTransaction` / `applyV2Transaction` as folds of named per-item steps,
and what they do to the `spends` list of the mid-state
-/
namespace Sia.Ledger

theorem forIn_eq_foldlM {α β} (f : β → α → VM β) (l : List α) (s : β) :
    forIn l s (fun x s => f s x >>= fun s' => pure (ForInStep.yield s')) = l.foldlM f s := by
  induction l generalizing s with
  | nil => rfl
  | cons a l ih =>
    rw [List.forIn_cons, List.foldlM_cons, bind_assoc]
    congr 1; funext s'
    rw [pure_bind]
    exact ih s'

theorem bind_congr' {α β} {a a' : VM α} {f f' : α → VM β} (h1 : a = a') (h2 : ∀ x, f x = f' x) :
    (a >>= f) = (a' >>= f') := by
  subst h1; congr 1; funext x; exact h2 x

/-- an invariant of the state is preserved by a successful `foldlM` -/
theorem foldlM_inv {α β} {f : β → α → VM β} (I : β → Prop)
    (hstep : ∀ s x s', I s → f s x = .ok s' → I s') (l : List α) (s s' : β)
    (h0 : I s) (h : l.foldlM f s = .ok s') : I s' := by
  induction l generalizing s with
  | nil => simp at h; exact h ▸ h0
  | cons a l ih =>
    rw [List.foldlM_cons] at h
    obtain ⟨s1, h1, h2⟩ := bind_ok_iff.1 h
    exact ih s1 (hstep s a s1 h0 h1) h2

/-- an invariant that also records something about every processed element -/
theorem foldlM_inv_mem {α β} {f : β → α → VM β} (I : β → Prop) (R : α → β → Prop)
    (hI : ∀ s x s', I s → f s x = .ok s' → I s' ∧ R x s')
    (hR : ∀ y s x s', R y s → I s → f s x = .ok s' → R y s') (l : List α) (s s' : β)
    (h0 : I s) (h : l.foldlM f s = .ok s') : I s' ∧ ∀ x ∈ l, R x s' := by
  induction l generalizing s with
  | nil => simp at h; subst h; exact ⟨h0, by simp⟩
  | cons a l ih =>
    rw [List.foldlM_cons] at h
    obtain ⟨s1, h1, h2⟩ := bind_ok_iff.1 h
    obtain ⟨hI1, hR1⟩ := hI s a s1 h0 h1
    obtain ⟨hI', hall⟩ := ih s1 hI1 h2
    refine ⟨hI', ?_⟩
    intro x hx
    rcases List.mem_cons.1 hx with rfl | hx
    · exact (foldlM_inv (fun s => I s ∧ R x s)
        (fun s y s' hs hf => ⟨(hI s y s' hs.1 hf).1, hR x s y s' hs.2 hs.1 hf⟩) l s1 s' ⟨hI1, hR1⟩ h2).2
    · exact hall x hx

-- ================================================================= v2 application as folds

def a2ScIn (s : Mid) (sci : ScIn2) : VM Mid := pure (s.spendSc sci.parent)
def a2ScOut (s : Mid) (x : Id × ScOut) : VM Mid := pure (s.createSc x.1 x.2)
def a2SfIn (s : Mid) (sfi : SfIn2) : VM Mid := do
  let c ← claimPortion (s.spendSf sfi.parent).pool sfi.parent.claimStart sfi.parent.value
  pure ((s.spendSf sfi.parent).createImmatureSc sfi.claimId { value := c, addr := sfi.claimAddr })
def a2SfOut (s : Mid) (x : Id × Nat × Addr) : VM Mid := pure (s.createSf x.1 x.2.1 x.2.2)
def a2Fc (s : Mid) (x : Id × Fc2 × Bool) : VM Mid := s.createFc2 x.1 x.2.1
def a2Rev (s : Mid) (r : Rev2) : VM Mid := pure (s.reviseFc2 r.parent r.rev)

/-- the two outputs a resolution pays: (renter output, host output) -/
def Resolution2.payouts (r : Resolution2) : ScOut × ScOut :=
  match r.res with
  | .renewal rn => (rn.finalRenter, rn.finalHost)
  | .proof _ _ _ _ => (r.parent.fc.renter, r.parent.fc.host)
  | .expiration => (r.parent.fc.renter, { value := r.parent.fc.missedHost, addr := r.parent.fc.host.addr })

def Res2.kind : Res2 → ResKind
  | .renewal _ => .renewal
  | .proof _ _ _ _ => .proof
  | .expiration => .expiration

/-- a renewal also forms the new contract -/
def a2ResNew (s1 : Mid) (r : Resolution2) : VM Mid :=
  match r.res with
  | .renewal rn => s1.createFc2 rn.newId rn.newContract
  | _ => pure s1

/-- one iteration of the resolution loop of `applyV2Transaction` -/
def a2Res (s : Mid) (r : Resolution2) : VM Mid :=
  s.resolveFc2 r.parent r.res.kind >>= fun s1 =>
  a2ResNew s1 r >>= fun s2 =>
  pure ((s2.createImmatureSc r.renterOutId r.payouts.1).createImmatureSc r.hostOutId r.payouts.2)

/-- the trailing attestation count and Foundation address update -/
def a2Final (s : Mid) (t : Txn2) : Mid :=
  let s := { s with natts := s.natts + t.natts }
  match t.newFoundation with
  | some a => if a ≠ s.base.P.voidAddr then { s with fPrimary := a, fFailsafe := a } else { s with fPrimary := a }
  | none => s

theorem applyV2Transaction_eq (ms : Mid) (t : Txn2) :
    applyV2Transaction ms t = (do
      let s ← t.scIns.foldlM a2ScIn ms
      let s ← t.scOuts.foldlM a2ScOut s
      let s ← t.sfIns.foldlM a2SfIn s
      let s ← t.sfOuts.foldlM a2SfOut s
      let s ← t.fcs.foldlM a2Fc s
      let s ← t.revs.foldlM a2Rev s
      let s ← t.ress.foldlM a2Res s
      pure (a2Final s t)) := by
  unfold applyV2Transaction
  simp only [← forIn_eq_foldlM]
  refine bind_congr' ?_ (fun s => ?_)
  · first | rfl | (congr 1; funext x s; simp only [a2ScIn, pure_bind])
  refine bind_congr' ?_ (fun s => ?_)
  · first | rfl | (congr 1; funext x s; simp only [a2ScOut, pure_bind])
  refine bind_congr' ?_ (fun s => ?_)
  · first | rfl | (congr 1; funext x s; simp only [a2SfIn, pure_bind, bind_assoc])
  refine bind_congr' ?_ (fun s => ?_)
  · first | rfl | (congr 1; funext x s; simp only [a2SfOut, pure_bind])
  refine bind_congr' ?_ (fun s => ?_)
  · first | rfl | (congr 1; funext x s; simp only [a2Fc])
  refine bind_congr' ?_ (fun s => ?_)
  · first | rfl | (congr 1; funext x s; simp only [a2Rev, pure_bind])
  refine bind_congr' ?_ (fun s => ?_)
  · congr 1; funext r s
    unfold a2Res a2ResNew Resolution2.payouts Res2.kind
    cases r.res <;> simp only [pure_bind, bind_assoc]
  · unfold a2Final
    simp only []
    cases t.newFoundation with
    | none => rfl
    | some a => simp only []; split <;> rfl

-- ================================================================= v1 application as folds

def a1ScIn (t : Txn1) (s : Mid) (sci : ScIn1) : VM Mid :=
  match s.scElement t.supp sci.parent with
  | none => gopanic "missing SiacoinElement"
  | some e => pure (s.spendSc e)
def a1ScOut (s : Mid) (x : Id × ScOut) : VM Mid := pure (s.createSc x.1 x.2)
def a1SfIn (t : Txn1) (s : Mid) (sfi : SfIn1) : VM Mid :=
  match s.sfElement t.supp sfi.parent with
  | none => gopanic "missing SiafundElement"
  | some e => do
    let c ← claimPortion s.pool e.claimStart e.value
    pure ((s.spendSf e).createImmatureSc sfi.claimId { value := c, addr := sfi.claimAddr })
def a1SfOut (s : Mid) (x : Id × Nat × Addr) : VM Mid := pure (s.createSf x.1 x.2.1 x.2.2)
def a1Fc (s : Mid) (x : Id × Fc1) : VM Mid := s.createFc1 x.1 x.2
def a1Rev (t : Txn1) (s : Mid) (r : Rev1) : VM Mid :=
  match s.fc1Element t.supp r.parent with
  | none => gopanic "missing FileContractElement"
  | some e => pure (s.reviseFc1 e r.fc)
def a1Payout (s : Mid) (x : ScOut × Id) : VM Mid := pure (s.createImmatureSc x.2 x.1)
def a1Proof (t : Txn1) (s : Mid) (sp : Proof1) : VM Mid :=
  match s.fc1Element t.supp sp.parent with
  | none => gopanic "missing V1StorageProofSupplement"
  | some e => (e.fc.valid.zip sp.outIds).foldlM a1Payout (s.resolveFc1 e true)
def a1Final (s : Mid) (t : Txn1) : Mid :=
  if s.base.child ≥ s.base.P.hfFoundation + 1 then
    match t.foundation with
    | some (some (p, f), _) => { s with fPrimary := p, fFailsafe := f }
    | some (none, _) => { s with fPrimary := 0, fFailsafe := 0 }
    | none => s
  else s

theorem applyTransaction_eq (ms : Mid) (t : Txn1) :
    applyTransaction ms t = (do
      let s ← t.scIns.foldlM (a1ScIn t) ms
      let s ← t.scOuts.foldlM a1ScOut s
      let s ← t.sfIns.foldlM (a1SfIn t) s
      let s ← t.sfOuts.foldlM a1SfOut s
      let s ← t.fcs.foldlM a1Fc s
      let s ← t.revs.foldlM (a1Rev t) s
      let s ← t.proofs.foldlM (a1Proof t) s
      pure (a1Final s t)) := by
  unfold applyTransaction
  simp only [← forIn_eq_foldlM]
  refine bind_congr' ?_ (fun s => ?_)
  · congr 1; funext x s; unfold a1ScIn
    cases s.scElement t.supp x.parent <;> simp only [pure_bind, gopanic_bind]
  refine bind_congr' ?_ (fun s => ?_)
  · first | rfl | (congr 1; funext x s; simp only [a1ScOut, pure_bind])
  refine bind_congr' ?_ (fun s => ?_)
  · congr 1; funext x s; unfold a1SfIn
    cases s.sfElement t.supp x.parent <;> simp only [pure_bind, gopanic_bind, bind_assoc]
  refine bind_congr' ?_ (fun s => ?_)
  · first | rfl | (congr 1; funext x s; simp only [a1SfOut, pure_bind])
  refine bind_congr' ?_ (fun s => ?_)
  · first | rfl | (congr 1; funext x s; simp only [a1Fc])
  refine bind_congr' ?_ (fun s => ?_)
  · congr 1; funext x s; unfold a1Rev
    cases s.fc1Element t.supp x.parent <;> simp only [pure_bind, gopanic_bind]
  refine bind_congr' ?_ (fun s => ?_)
  · congr 1; funext x s; unfold a1Proof
    cases s.fc1Element t.supp x.parent with
    | none => simp only [gopanic_bind]
    | some e =>
      simp only []
      rw [← forIn_eq_foldlM]
      first | rfl | (congr 1; congr 1; funext y s; simp only [a1Payout, pure_bind])
  · unfold a1Final
    split
    · split <;> (rename_i heq; rw [heq])
    · rfl

-- ================================================================= element lookups return the element asked for

theorem scDiff?_id {ms : Mid} {id : Id} {d : ScDiff} (h : ms.scDiff? id = some d) : d.e.id = id := by
  unfold Mid.scDiff? at h
  split at h
  · split at h
    · rename_i hc; cases h; exact hc.2
    · cases h
  · cases h

theorem sfDiff?_id {ms : Mid} {id : Id} {d : SfDiff} (h : ms.sfDiff? id = some d) : d.e.id = id := by
  unfold Mid.sfDiff? at h
  split at h
  · split at h
    · rename_i hc; cases h; exact hc.2
    · cases h
  · cases h

theorem fc1Diff?_id {ms : Mid} {id : Id} {d : Fc1Diff} (h : ms.fc1Diff? id = some d) : d.e.id = id := by
  unfold Mid.fc1Diff? at h
  split at h
  · split at h
    · rename_i hc; cases h; exact hc.2
    · cases h
  · cases h

theorem Fc1Diff.current_id (d : Fc1Diff) : d.current.id = d.e.id := by
  unfold Fc1Diff.current; split <;> rfl

theorem scElement_id {ms : Mid} {ts : Supp1} {id : Id} {e : ScElem} (h : ms.scElement ts id = some e) : e.id = id := by
  unfold Mid.scElement at h
  split at h
  · rename_i d hd; cases h; exact scDiff?_id hd
  · simpa using List.find?_some h

theorem sfElement_id {ms : Mid} {ts : Supp1} {id : Id} {e : SfElem} (h : ms.sfElement ts id = some e) : e.id = id := by
  unfold Mid.sfElement at h
  split at h
  · rename_i d hd; cases h; exact sfDiff?_id hd
  · simpa using List.find?_some h

theorem fc1Element_id {ms : Mid} {ts : Supp1} {id : Id} {e : Fc1Elem} (h : ms.fc1Element ts id = some e) : e.id = id := by
  unfold Mid.fc1Element at h
  split at h
  · rename_i d hd; cases h; rw [Fc1Diff.current_id]; exact fc1Diff?_id hd
  · split at h
    · rename_i e' he; cases h; simpa using List.find?_some he
    · cases hf : ts.proofs.find? (·.1.id = id) with
      | none => rw [hf] at h; cases h
      | some x =>
        rw [hf] at h; cases h
        simpa using List.find?_some hf

-- ================================================================= effect on `spends`

@[simp] theorem putSc_spends (ms : Mid) (id : Id) (f : ScDiff → ScDiff) : (ms.putSc id f).spends = ms.spends := by
  unfold Mid.putSc; split <;> rfl
@[simp] theorem putSf_spends (ms : Mid) (id : Id) (f : SfDiff → SfDiff) : (ms.putSf id f).spends = ms.spends := by
  unfold Mid.putSf; split <;> rfl
@[simp] theorem putFc1_spends (ms : Mid) (id : Id) (f : Fc1Diff → Fc1Diff) : (ms.putFc1 id f).spends = ms.spends := by
  unfold Mid.putFc1; split <;> rfl
@[simp] theorem putFc2_spends (ms : Mid) (id : Id) (f : Fc2Diff → Fc2Diff) : (ms.putFc2 id f).spends = ms.spends := by
  unfold Mid.putFc2; split <;> rfl
@[simp] theorem createSc_spends (ms : Mid) (id : Id) (o : ScOut) (m : Nat) : (ms.createSc id o m).spends = ms.spends := by
  simp [Mid.createSc]
@[simp] theorem createImmatureSc_spends (ms : Mid) (id : Id) (o : ScOut) : (ms.createImmatureSc id o).spends = ms.spends := by
  simp [Mid.createImmatureSc]
@[simp] theorem createSf_spends (ms : Mid) (id : Id) (v : Nat) (a : Addr) : (ms.createSf id v a).spends = ms.spends := by
  simp [Mid.createSf]
@[simp] theorem spendSc_spends (ms : Mid) (e : ScElem) : (ms.spendSc e).spends = e.id :: ms.spends := by
  simp [Mid.spendSc]
@[simp] theorem spendSf_spends (ms : Mid) (e : SfElem) : (ms.spendSf e).spends = e.id :: ms.spends := by
  simp [Mid.spendSf]
@[simp] theorem reviseFc1_spends (ms : Mid) (e : Fc1Elem) (r : Fc1) : (ms.reviseFc1 e r).spends = ms.spends := by
  simp [Mid.reviseFc1]
@[simp] theorem reviseFc2_spends (ms : Mid) (e : Fc2Elem) (r : Fc2) : (ms.reviseFc2 e r).spends = ms.spends := by
  simp [Mid.reviseFc2]
@[simp] theorem resolveFc1_spends (ms : Mid) (e : Fc1Elem) (v : Bool) : (ms.resolveFc1 e v).spends = e.id :: ms.spends := by
  simp [Mid.resolveFc1]

theorem createFc1_spends {ms ms' : Mid} {id : Id} {fc : Fc1} (h : ms.createFc1 id fc = .ok ms') : ms'.spends = ms.spends := by
  unfold Mid.createFc1 at h
  obtain ⟨p, _, h⟩ := bind_ok_iff.1 h
  simp at h; subst h; simp

theorem createFc2_spends {ms ms' : Mid} {id : Id} {fc : Fc2} (h : ms.createFc2 id fc = .ok ms') : ms'.spends = ms.spends := by
  unfold Mid.createFc2 at h
  obtain ⟨tax, _, h⟩ := bind_ok_iff.1 h
  obtain ⟨p, _, h⟩ := bind_ok_iff.1 h
  simp at h; subst h; simp

theorem resolveFc2_spends {ms ms' : Mid} {e : Fc2Elem} {k : ResKind} (h : ms.resolveFc2 e k = .ok ms') :
    ms'.spends = e.id :: ms.spends := by
  unfold Mid.resolveFc2 at h
  split at h
  · split at h
    · cases h
    · simp at h; subst h; simp
  · simp at h; subst h; simp

/-- a fold whose steps prepend `key x` to `spends` -/
theorem foldlM_spends_cons {α} {f : Mid → α → VM Mid} (key : α → Id)
    (hstep : ∀ s x s', f s x = .ok s' → s'.spends = key x :: s.spends) (l : List α) (s s' : Mid)
    (h : l.foldlM f s = .ok s') : s'.spends = (l.map key).reverse ++ s.spends := by
  induction l generalizing s with
  | nil => simp at h; subst h; simp
  | cons a l ih =>
    rw [List.foldlM_cons] at h
    obtain ⟨s1, h1, h2⟩ := bind_ok_iff.1 h
    rw [ih s1 h2, hstep s a s1 h1]; simp

/-- a fold whose steps leave `spends` alone -/
theorem foldlM_spends_same {α} {f : Mid → α → VM Mid}
    (hstep : ∀ s x s', f s x = .ok s' → s'.spends = s.spends) (l : List α) (s s' : Mid)
    (h : l.foldlM f s = .ok s') : s'.spends = s.spends :=
  foldlM_inv (fun x => x.spends = s.spends) (fun a x b ha hf => by rw [hstep a x b hf, ha]) l s s' rfl h

theorem a2Final_spends (s : Mid) (t : Txn2) : (a2Final s t).spends = s.spends := by
  unfold a2Final; simp only []; split
  · split <;> rfl
  · rfl

theorem a1Final_spends (s : Mid) (t : Txn1) : (a1Final s t).spends = s.spends := by
  unfold a1Final; split
  · split <;> rfl
  · rfl

/-- `applyV2Transaction` adds to `spends` exactly the ids of the spent siacoin and siafund parents
and of the resolved contracts (and nothing for revisions). -/
theorem applyV2Transaction_spends {ms ms' : Mid} {t : Txn2} (h : applyV2Transaction ms t = .ok ms') :
    ms'.spends = (t.ress.map (·.parent.id)).reverse ++ ((t.sfIns.map (·.parent.id)).reverse ++
      ((t.scIns.map (·.parent.id)).reverse ++ ms.spends)) := by
  rw [applyV2Transaction_eq] at h
  obtain ⟨s1, h1, h⟩ := bind_ok_iff.1 h
  obtain ⟨s2, h2, h⟩ := bind_ok_iff.1 h
  obtain ⟨s3, h3, h⟩ := bind_ok_iff.1 h
  obtain ⟨s4, h4, h⟩ := bind_ok_iff.1 h
  obtain ⟨s5, h5, h⟩ := bind_ok_iff.1 h
  obtain ⟨s6, h6, h⟩ := bind_ok_iff.1 h
  obtain ⟨s7, h7, h⟩ := bind_ok_iff.1 h
  simp at h; subst h
  rw [a2Final_spends]
  have e1 := foldlM_spends_cons (fun sci : ScIn2 => sci.parent.id)
    (fun s x s' hs => by simp [a2ScIn] at hs; subst hs; simp) _ _ _ h1
  have e2 := foldlM_spends_same (fun s x s' hs => by simp [a2ScOut] at hs; subst hs; simp) _ _ _ h2
  have e3 := foldlM_spends_cons (fun sfi : SfIn2 => sfi.parent.id)
    (fun s x s' hs => by
      unfold a2SfIn at hs
      obtain ⟨c, _, hs⟩ := bind_ok_iff.1 hs
      simp at hs; subst hs; simp) _ _ _ h3
  have e4 := foldlM_spends_same (fun s x s' hs => by simp [a2SfOut] at hs; subst hs; simp) _ _ _ h4
  have e5 := foldlM_spends_same (fun s x s' hs => createFc2_spends hs) _ _ _ h5
  have e6 := foldlM_spends_same (fun s x s' hs => by simp [a2Rev] at hs; subst hs; simp) _ _ _ h6
  have e7 := foldlM_spends_cons (fun r : Resolution2 => r.parent.id)
    (fun s x s' hs => by
      unfold a2Res at hs
      obtain ⟨r1, hr1, hs⟩ := bind_ok_iff.1 hs
      obtain ⟨r2, hr2, hs⟩ := bind_ok_iff.1 hs
      simp at hs; subst hs
      have : r2.spends = r1.spends := by
        unfold a2ResNew at hr2
        split at hr2
        · exact createFc2_spends hr2
        · simp at hr2; rw [hr2]
      simp [this, resolveFc2_spends hr1]) _ _ _ h7
  rw [e7, e6, e5, e4, e3, e2, e1]

/-- `applyTransaction` adds to `spends` exactly the ids of the spent siacoin and siafund parents and
of the contracts resolved by storage proofs (and nothing for revisions). -/
theorem applyTransaction_spends {ms ms' : Mid} {t : Txn1} (h : applyTransaction ms t = .ok ms') :
    ms'.spends = (t.proofs.map (·.parent)).reverse ++ ((t.sfIns.map (·.parent)).reverse ++
      ((t.scIns.map (·.parent)).reverse ++ ms.spends)) := by
  rw [applyTransaction_eq] at h
  obtain ⟨s1, h1, h⟩ := bind_ok_iff.1 h
  obtain ⟨s2, h2, h⟩ := bind_ok_iff.1 h
  obtain ⟨s3, h3, h⟩ := bind_ok_iff.1 h
  obtain ⟨s4, h4, h⟩ := bind_ok_iff.1 h
  obtain ⟨s5, h5, h⟩ := bind_ok_iff.1 h
  obtain ⟨s6, h6, h⟩ := bind_ok_iff.1 h
  obtain ⟨s7, h7, h⟩ := bind_ok_iff.1 h
  simp at h; subst h
  rw [a1Final_spends]
  have e1 := foldlM_spends_cons (fun sci : ScIn1 => sci.parent)
    (fun s x s' hs => by
      unfold a1ScIn at hs
      split at hs
      · cases hs
      · rename_i e he; simp at hs; subst hs; simp [scElement_id he]) _ _ _ h1
  have e2 := foldlM_spends_same (fun s x s' hs => by simp [a1ScOut] at hs; subst hs; simp) _ _ _ h2
  have e3 := foldlM_spends_cons (fun sfi : SfIn1 => sfi.parent)
    (fun s x s' hs => by
      unfold a1SfIn at hs
      split at hs
      · cases hs
      · rename_i e he
        obtain ⟨c, _, hs⟩ := bind_ok_iff.1 hs
        simp at hs; subst hs; simp [sfElement_id he]) _ _ _ h3
  have e4 := foldlM_spends_same (fun s x s' hs => by simp [a1SfOut] at hs; subst hs; simp) _ _ _ h4
  have e5 := foldlM_spends_same (fun s x s' hs => createFc1_spends hs) _ _ _ h5
  have e6 := foldlM_spends_same (fun s x s' hs => by
      unfold a1Rev at hs
      split at hs
      · cases hs
      · simp at hs; subst hs; simp) _ _ _ h6
  have e7 := foldlM_spends_cons (fun sp : Proof1 => sp.parent)
    (fun s x s' hs => by
      unfold a1Proof at hs
      split at hs
      · cases hs
      · rename_i e he
        have := foldlM_spends_same (fun s x s' hs => by simp [a1Payout] at hs; subst hs; simp) _ _ _ hs
        rw [this]; simp [fc1Element_id he]) _ _ _ h7
  rw [e7, e6, e5, e4, e3, e2, e1]

end Sia.Ledger
