import SiaProofs.Lemmas.LedgerC01Loops
/-!
# C01 helper lemmas, part 4: the value function and the potential of a mid-state

`V L` is the value function of C01.  `Phi ms` is the value of the ledger that
`ms.commit` would produce; it is written as a sum over "untouched base elements" and
"diff contributions" so that the effect of each `Mid.put*` can be computed.
-/
namespace Sia.Ledger

def sumVals (l : List ScOut) : Nat := (l.map (·.value)).sum
def Fc1.val (fc : Fc1) : Nat := sumVals fc.valid
def Fc2.val (fc : Fc2) : Nat := fc.renter.value + fc.host.value

/-- value function of C01: unspent outputs + value locked in v1 and v2 contracts + unclaimed tax pool -/
def V (L : Ledger) : Nat :=
  (L.sc.map (·.value)).sum + (L.fc1.map (·.fc.val)).sum + (L.fc2.map (·.fc.val)).sum + L.pool

/-- number of siafunds in unspent outputs -/
def SFtot (L : Ledger) : Nat := (L.sf.map (·.value)).sum

-- ------------------------------------------------------------------ generic list lemmas

/-- base elements whose id is not among `ids` -/
def untouched {E : Type} (base : List E) (eid : E → Id) (ids : List Id) : List E :=
  base.filter (fun e => !ids.contains (eid e))

theorem sum_filter_map {α : Type} (l : List α) (p : α → Bool) (g : α → Nat) :
    ((l.filter p).map g).sum = (l.map (fun x => if p x then g x else 0)).sum := by
  induction l with
  | nil => rfl
  | cons a l ih =>
    simp only [List.filter_cons, List.map_cons, List.sum_cons]
    cases p a <;> simp [ih]

theorem untouched_append_notin {E : Type} (base : List E) (eid : E → Id) (ids : List Id) (id : Id)
    (h : id ∉ base.map eid) : untouched base eid (ids ++ [id]) = untouched base eid ids := by
  unfold untouched
  apply List.filter_congr
  intro e he
  have : eid e ≠ id := fun hh => h (hh ▸ List.mem_map_of_mem he)
  simp [List.contains_append, this]

theorem untouched_append_in {E : Type} (base : List E) (eid : E → Id) (ev : E → Nat) (ids : List Id) (e : E)
    (hn : (base.map eid).Nodup) (he : e ∈ base) (hid : eid e ∉ ids) :
    ((untouched base eid (ids ++ [eid e])).map ev).sum + ev e = ((untouched base eid ids).map ev).sum := by
  unfold untouched
  induction base with
  | nil => cases he
  | cons a base ih =>
    simp only [List.map_cons, List.nodup_cons] at hn
    rcases List.mem_cons.mp he with rfl | he'
    · -- e is the head; it is dropped on the left, kept on the right, tail is unaffected
      have htail : base.filter (fun x => !(ids ++ [eid e]).contains (eid x)) = base.filter (fun x => !ids.contains (eid x)) := by
        apply List.filter_congr
        intro x hx
        have : eid x ≠ eid e := fun hh => hn.1 (hh ▸ List.mem_map_of_mem hx)
        simp [List.contains_append, this]
      have h1 : (!(ids ++ [eid e]).contains (eid e)) = false := by simp [List.contains_append]
      have h2 : (!ids.contains (eid e)) = true := by simp [hid]
      rw [List.filter_cons, List.filter_cons, h1, h2, htail]
      simp only [Bool.false_eq_true, if_false, if_true, List.map_cons, List.sum_cons]
      omega
    · have hne : eid a ≠ eid e := fun hh => hn.1 (hh ▸ List.mem_map_of_mem he')
      have hc : (!(ids ++ [eid e]).contains (eid a)) = (!ids.contains (eid a)) := by
        simp [hne]
      rw [List.filter_cons, List.filter_cons, hc]
      have := ih hn.2 he'
      cases (!ids.contains (eid a))
      · simpa using this
      · simp only [List.map_cons, List.sum_cons, if_true]; omega

theorem sum_map_set {α : Type} (l : List α) (g : α → Nat) (i : Nat) (x y : α) (h : l[i]? = some y) :
    ((l.set i x).map g).sum + g y = (l.map g).sum + g x := by
  induction l generalizing i with
  | nil => simp at h
  | cons a l ih =>
    cases i with
    | zero => simp only [List.getElem?_cons_zero, Option.some.injEq] at h; subst h
              simp only [List.set_cons_zero, List.map_cons, List.sum_cons]; omega
    | succ i => simp only [List.getElem?_cons_succ] at h
                have := ih i h
                simp only [List.set_cons_succ, List.map_cons, List.sum_cons]; omega

theorem map_set_same {α β : Type} (l : List α) (g : α → β) (i : Nat) (x y : α) (h : l[i]? = some y) (hg : g x = g y) :
    (l.set i x).map g = l.map g := by
  rw [List.map_set]
  apply List.ext_getElem?
  intro j
  rw [List.getElem?_set]
  split
  · rename_i hij; subst hij
    have hl : i < l.length := by
      rcases Nat.lt_or_ge i l.length with hlt | hge
      · exact hlt
      · rw [List.getElem?_eq_none_iff.mpr hge] at h; cases h
    simp only [List.length_map, hl, if_true, List.getElem?_map, h, Option.map_some, hg]
  · rfl

-- ------------------------------------------------------------------ potentials

def scDv (d : ScDiff) : Nat := if d.spent then 0 else d.e.value
def sfDv (d : SfDiff) : Nat := if d.spent then 0 else d.e.value
def fc1Dv (d : Fc1Diff) : Nat := if d.resolved then 0 else d.current.fc.val
def Fc2Diff.current (d : Fc2Diff) : Fc2Elem :=
  match d.revision with
  | some r => { d.e with fc := r }
  | none => d.e
def fc2Dv (d : Fc2Diff) : Nat := if d.resolution.isNone then d.current.fc.val else 0

def Mid.scIds (ms : Mid) : List Id := ms.sces.map (·.e.id)
def Mid.sfIds (ms : Mid) : List Id := ms.sfes.map (·.e.id)
def Mid.fc1Ids (ms : Mid) : List Id := ms.fces.map (·.e.id)
def Mid.fc2Ids (ms : Mid) : List Id := ms.v2fces.map (·.e.id)

def scTot (ms : Mid) : Nat :=
  ((untouched ms.base.sc (·.id) ms.scIds).map (·.value)).sum + (ms.sces.map scDv).sum
def sfTot (ms : Mid) : Nat :=
  ((untouched ms.base.sf (·.id) ms.sfIds).map (·.value)).sum + (ms.sfes.map sfDv).sum
def fc1Tot (ms : Mid) : Nat :=
  ((untouched ms.base.fc1 (·.id) ms.fc1Ids).map (·.fc.val)).sum + (ms.fces.map fc1Dv).sum
def fc2Tot (ms : Mid) : Nat :=
  ((untouched ms.base.fc2 (·.id) ms.fc2Ids).map (·.fc.val)).sum + (ms.v2fces.map fc2Dv).sum

/-- the potential: value of the ledger this mid-state commits to -/
def Phi (ms : Mid) : Nat := scTot ms + fc1Tot ms + fc2Tot ms + ms.pool

theorem filter_any_eq {E D : Type} (base : List E) (eid : E → Id) (diffs : List D) (did : D → Id) :
    base.filter (fun e => decide (¬ (diffs.any (fun d => decide (did d = eid e))) = true)) =
      untouched base eid (diffs.map did) := by
  unfold untouched
  apply List.filter_congr
  intro e _
  have : (diffs.any (fun d => decide (did d = eid e))) = (diffs.map did).contains (eid e) := by
    induction diffs with
    | nil => rfl
    | cons d ds ih =>
      simp only [List.any_cons, List.map_cons, List.contains_cons, ih]
      congr 1
      by_cases h : did d = eid e
      · simp [h]
      · have h' : ¬ eid e = did d := fun hh => h hh.symm
        simp [h, h']
  rw [this]
  cases (diffs.map did).contains (eid e) <;> simp

theorem sum_live {D E : Type} (l : List D) (p : D → Bool) (cur : D → E) (ev : E → Nat) (dv : D → Nat)
    (h : ∀ d, dv d = if p d then ev (cur d) else 0) :
    (((l.filter p).map cur).map ev).sum = (l.map dv).sum := by
  rw [List.map_map, sum_filter_map]
  congr 1; apply List.map_congr_left; intro d _; rw [h]; rfl

theorem V_commit (ms : Mid) (bid : Id) : V (ms.commit bid) = Phi ms := by
  unfold V Phi Mid.commit scTot fc1Tot fc2Tot
  simp only [List.map_append, List.sum_append]
  rw [filter_any_eq ms.base.sc (·.id) ms.sces (·.e.id), filter_any_eq ms.base.fc1 (·.id) ms.fces (·.e.id),
    filter_any_eq ms.base.fc2 (·.id) ms.v2fces (·.e.id)]
  rw [sum_live ms.sces _ _ _ scDv (by intro d; unfold scDv; cases d.spent <;> simp),
    sum_live ms.fces _ _ _ fc1Dv (by intro d; unfold fc1Dv; cases d.resolved <;> simp),
    sum_live ms.v2fces _ _ _ fc2Dv (by intro d; unfold fc2Dv Fc2Diff.current; cases d.resolution.isNone <;> cases d.revision <;> simp)]
  rfl

theorem SF_commit (ms : Mid) (bid : Id) : SFtot (ms.commit bid) = sfTot ms := by
  unfold SFtot Mid.commit sfTot
  simp only [List.map_append, List.sum_append]
  rw [filter_any_eq ms.base.sf (·.id) ms.sfes (·.e.id)]
  rw [sum_live ms.sfes _ _ _ sfDv (by intro d; unfold sfDv; cases d.spent <;> simp)]
  rfl

end Sia.Ledger
