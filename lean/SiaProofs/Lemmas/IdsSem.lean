import SiaModel.Ids.Derive
import SiaProofs.Props.C11
/-!
# Lemmas about the id model (`SiaModel/Ids`): preimage algebra, the semantic encoding
-/
namespace Sia.Ids
open Sia.Codec

theorem append_ne_of_not_prefix {a b x y : Bytes} (h1 : ¬ a <+: b) (h2 : ¬ b <+: a) : a ++ x ≠ b ++ y := by
  intro h
  have ha : a <+: (b ++ y) := ⟨x, h⟩
  have hb : b <+: (b ++ y) := List.prefix_append b y
  rcases List.prefix_or_prefix_of_prefix ha hb with h | h
  · exact h1 h
  · exact h2 h

end Sia.Ids
