import SiaModel.Ids.Derive
import SiaProofs.Props.C11
/-!
# Lemmas about the id model (`SiaModel/Ids`): preimage algebra, the semantic encoding
-/
namespace Sia.Ids
open Sia.Codec

theorem append_ne_of_not_prefix {a b x y : Bytes} (h1 : ¬ a <+: b) (h2 : ¬ b <+: a) : a ++ x ≠ b ++ y := by
  intro h
  have ha : a <+: (b ++ y) := ⟨x, h⟩
  have hb : b <+: (b ++ y) := List.prefix_append b y
  rcases List.prefix_or_prefix_of_prefix ha hb with h | h
  · exact h1 h
  · exact h2 h

/-! ## list helpers -/

/-- if `f` determines `g`, equal `f`-images give equal `g`-images -/
theorem map_eq_of_map_eq {α β γ} {f : α → β} {g : α → γ} (hfg : ∀ a a', f a = f a' → g a = g a') :
    ∀ {l l' : List α}, l.map f = l'.map f → l.map g = l'.map g
  | [], [], _ => rfl
  | [], _ :: _, h => by simp at h
  | _ :: _, [], h => by simp at h
  | a :: l, a' :: l', h => by
    simp only [List.map_cons, List.cons.injEq] at h ⊢
    exact ⟨hfg a a' h.1, map_eq_of_map_eq hfg h.2⟩

theorem map_inj_of_inj {α β} {f : α → β} (hf : ∀ a a', f a = f a' → a = a') {l l' : List α}
    (h : l.map f = l'.map f) : l = l' := by
  have := map_eq_of_map_eq (g := id) (fun a a' h => hf a a' h) h
  simpa using this

/-! ## value trees are injective -/

theorem curVal_inj {n m : Nat} (h : curVal n = curVal m) : n = m := by
  simp only [curVal, rec, Val.pair.injEq, Val.nat.injEq, and_true] at h
  have h1 := Nat.div_add_mod n W64
  have h2 := Nat.div_add_mod m W64
  rw [h.1, h.2] at h1
  omega

theorem scoVal_inj {a b : SiacoinOutput} (h : scoVal a = scoVal b) : a = b := by
  simp only [scoVal, rec, Val.pair.injEq, Val.bytes.injEq, and_true] at h
  cases a; cases b
  simp only [SiacoinOutput.mk.injEq]
  exact ⟨curVal_inj h.1, h.2⟩

theorem sfoVal_inj {a b : SiafundOutput} (h : sfoVal a = sfoVal b) : a = b := by
  simp only [sfoVal, rec, Val.pair.injEq, Val.bytes.injEq, Val.nat.injEq, and_true] at h
  cases a; cases b
  simp only [SiafundOutput.mk.injEq]
  exact h

theorem bytesList_inj {l l' : List Bytes} (h : l.map Val.bytes = l'.map Val.bytes) : l = l' :=
  map_inj_of_inj (fun a a' h => by simpa using h) h

theorem fcVal_inj {a b : V2FileContract} (h : fcVal a = fcVal b) : a = b := by
  simp only [fcVal, rec, Val.pair.injEq, Val.bytes.injEq, Val.nat.injEq, and_true] at h
  obtain ⟨h1, h2, h3, h4, h5, h6, h7, h8, h9, h10, h11, h12, h13, h14⟩ := h
  cases a; cases b
  simp only [V2FileContract.mk.injEq]
  exact ⟨h1, h2, h3, h4, h5, scoVal_inj h6, scoVal_inj h7, curVal_inj h8, curVal_inj h9, h10, h11, h12, h13, h14⟩

theorem renewalVal_inj {a b : V2Renewal} (h : renewalVal a = renewalVal b) : a = b := by
  simp only [renewalVal, rec, Val.pair.injEq, Val.bytes.injEq, and_true] at h
  obtain ⟨h1, h2, h3, h4, h5, h6, h7⟩ := h
  cases a; cases b
  simp only [V2Renewal.mk.injEq]
  exact ⟨scoVal_inj h1, scoVal_inj h2, curVal_inj h3, curVal_inj h4, fcVal_inj h5, h6, h7⟩

theorem seVal_inj {a b : StateElement} (h : seVal a = seVal b) : a = b := by
  simp only [seVal, rec, Val.pair.injEq, Val.nat.injEq, Val.list.injEq, and_true] at h
  cases a; cases b
  simp only [StateElement.mk.injEq]
  exact ⟨h.1, bytesList_inj h.2⟩

theorem cieVal_inj {a b : ChainIndexElement} (h : cieVal a = cieVal b) : a = b := by
  simp only [cieVal, rec, Val.pair.injEq, Val.bytes.injEq, Val.nat.injEq, and_true] at h
  obtain ⟨h1, h2, h3, h4⟩ := h
  cases a; cases b
  simp only [ChainIndexElement.mk.injEq]
  exact ⟨seVal_inj h1, h2, h3, h4⟩

theorem spVal_inj {a b : V2StorageProof} (h : spVal a = spVal b) : a = b := by
  simp only [spVal, rec, Val.pair.injEq, Val.bytes.injEq, Val.list.injEq, and_true] at h
  obtain ⟨h1, h2, h3⟩ := h
  cases a; cases b
  simp only [V2StorageProof.mk.injEq]
  exact ⟨cieVal_inj h1, h2, bytesList_inj h3⟩

theorem attVal_inj {a b : Attestation} (h : attVal a = attVal b) : a = b := by
  simp only [attVal, rec, Val.pair.injEq, Val.bytes.injEq, and_true] at h
  cases a; cases b
  simp only [Attestation.mk.injEq]
  exact h

theorem optBytes_inj {a b : Option Bytes} (h : optBytes a = optBytes b) : a = b := by
  cases a <;> cases b <;> simp_all [optBytes]

/-! ## `strip` / `stripCode` and the semantic value -/

@[simp] theorem nilSigs_nilSigs (fc : V2FileContract) : fc.nilSigs.nilSigs = fc.nilSigs := rfl
@[simp] theorem renewal_nilSigs_nilSigs (r : V2Renewal) : r.nilSigs.nilSigs = r.nilSigs := rfl
@[simp] theorem dropIndexProof_idem (p : V2StorageProof) : p.dropIndexProof.dropIndexProof = p.dropIndexProof := rfl

@[simp] theorem stripBody_kind (b : V2ResolutionBody) : (stripBody b).kind = b.kind := by cases b <;> rfl
@[simp] theorem payloadVal_stripBody (b : V2ResolutionBody) : payloadVal (stripBody b) = payloadVal b := by cases b <;> rfl
@[simp] theorem stripBody_idem (b : V2ResolutionBody) : stripBody (stripBody b) = stripBody b := by cases b <;> rfl

@[simp] theorem idOnlySc_id (e : SiacoinElement) : (idOnlySc e).id = e.id := rfl
@[simp] theorem idOnlySf_id (e : SiafundElement) : (idOnlySf e).id = e.id := rfl
@[simp] theorem idOnlyFc_id (e : V2FileContractElement) : (idOnlyFc e).id = e.id := rfl

def stripRes (r : V2Resolution) : V2Resolution := { parent := idOnlyFc r.parent, body := stripBody r.body }

theorem resVals_strip (rs : List V2Resolution) : resVals (rs.map stripRes) = resVals rs := by
  induction rs with
  | nil => rfl
  | cons r rs ih => simp [resVals, stripRes, ih]

theorem strip_kinds (t : V2Txn) : (strip t).kinds = t.kinds := by
  simp [V2Txn.kinds, strip, List.map_map, Function.comp_def]

theorem stripCode_kinds (b : Bool) (t : V2Txn) : (stripCode b t).kinds = t.kinds := by
  cases b
  · simp [stripCode, V2Txn.kinds, strip, List.map_map, Function.comp_def]
  · simp [stripCode, strip_kinds]

theorem stripCode_true (t : V2Txn) : stripCode true t = strip t := rfl

/-- the semantic value only reads what `stripCode` keeps -/
theorem semVal_stripCode (b : Bool) (t : V2Txn) : semVal b (stripCode b t) = semVal b t := by
  have hres : resVals (t.resolutions.map fun r => ({ parent := idOnlyFc r.parent, body := stripBody r.body } : V2Resolution)) = resVals t.resolutions :=
    resVals_strip t.resolutions
  cases b <;>
    simp [semVal, stripCode, strip, List.map_map, Function.comp_def, sfInVal, hres, rec]

theorem semEncodeG_stripCode (b : Bool) (t : V2Txn) : semEncodeG b (stripCode b t) = semEncodeG b t := by
  unfold semEncodeG
  rw [semVal_stripCode, stripCode_kinds]

/-- what `strip` keeps of a resolution is determined by the parent id and the payload value -/
theorem stripRes_of_vals {r r' : V2Resolution} (hid : r.parent.id = r'.parent.id)
    (hp : payloadVal r.body = payloadVal r'.body) : stripRes r = stripRes r' := by
  have hb : stripBody r.body = stripBody r'.body := by
    cases hr : r.body with
    | renewal a =>
      cases hr' : r'.body with
      | renewal a' =>
        rw [hr, hr'] at hp
        simp only [payloadVal] at hp
        simp [stripBody, renewalVal_inj hp]
      | storageProof p' =>
        rw [hr, hr'] at hp
        simp [payloadVal, renewalVal, spVal, rec] at hp
      | expiration =>
        rw [hr, hr'] at hp
        simp [payloadVal, renewalVal, rec] at hp
    | storageProof p =>
      cases hr' : r'.body with
      | renewal a' =>
        rw [hr, hr'] at hp
        simp [payloadVal, renewalVal, spVal, rec] at hp
      | storageProof p' =>
        rw [hr, hr'] at hp
        simp only [payloadVal] at hp
        simp [stripBody, spVal_inj hp]
      | expiration =>
        rw [hr, hr'] at hp
        simp [payloadVal, spVal, rec] at hp
    | expiration =>
      cases hr' : r'.body with
      | renewal a' =>
        rw [hr, hr'] at hp
        simp [payloadVal, renewalVal, rec] at hp
      | storageProof p' =>
        rw [hr, hr'] at hp
        simp [payloadVal, spVal, rec] at hp
      | expiration => rfl
  simp [stripRes, idOnlyFc, hid, hb]

theorem resVals_inj : ∀ {rs rs' : List V2Resolution}, resVals rs = resVals rs' → rs.map stripRes = rs'.map stripRes
  | [], [], _ => rfl
  | [], _ :: _, h => by simp [resVals] at h
  | _ :: _, [], h => by simp [resVals] at h
  | r :: rs, r' :: rs', h => by
    simp only [resVals, Val.pair.injEq, Val.bytes.injEq] at h
    simp only [List.map_cons, List.cons.injEq]
    exact ⟨stripRes_of_vals h.1 h.2.1, resVals_inj h.2.2⟩

/-- equal semantic values ⇒ equal effect-bearing content as far as the code binds it -/
theorem semVal_inj (b : Bool) {t t' : V2Txn} (h : semVal b t = semVal b t') : stripCode b t = stripCode b t' := by
  simp only [semVal, rec, Val.pair.injEq, Val.list.injEq, Val.bytes.injEq, Val.nat.injEq, and_true] at h
  obtain ⟨h1, h2, h3, h4, h5, h6, _, h8, h9, h10, h11, h12⟩ := h
  have e1 : t.siacoinInputs.map (fun i => ({ parent := idOnlySc i.parent, satisfied := default } : V2SiacoinInput)) =
      t'.siacoinInputs.map (fun i => { parent := idOnlySc i.parent, satisfied := default }) :=
    map_eq_of_map_eq (fun a a' ha => by simp only [Val.bytes.injEq] at ha; simp [idOnlySc, ha]) h1
  have e2 := map_inj_of_inj (fun a a' => scoVal_inj) h2
  have e4 := map_inj_of_inj (fun a a' => sfoVal_inj) h4
  have e5 : t.fileContracts.map (·.nilSigs) = t'.fileContracts.map (·.nilSigs) :=
    map_eq_of_map_eq (fun a a' ha => fcVal_inj ha) h5
  have e6 : t.revisions.map (fun r => ({ parent := idOnlyFc r.parent, revision := r.revision.nilSigs } : V2Revision)) =
      t'.revisions.map (fun r => { parent := idOnlyFc r.parent, revision := r.revision.nilSigs }) :=
    map_eq_of_map_eq (fun a a' ha => by
      simp only [rec, Val.pair.injEq, Val.bytes.injEq, and_true] at ha
      simp [idOnlyFc, ha.1, fcVal_inj ha.2]) h6
  have e8 : t.resolutions.map (fun r => ({ parent := idOnlyFc r.parent, body := stripBody r.body } : V2Resolution)) =
      t'.resolutions.map (fun r => { parent := idOnlyFc r.parent, body := stripBody r.body }) := resVals_inj h8
  have e9 := map_inj_of_inj (fun a a' => attVal_inj) h9
  have e11 := optBytes_inj h11
  have e12 := curVal_inj h12
  cases b
  · have e3 : t.siafundInputs.map (fun i => ({ parent := idOnlySf i.parent, claimAddress := [], satisfied := default } : V2SiafundInput)) =
        t'.siafundInputs.map (fun i => { parent := idOnlySf i.parent, claimAddress := [], satisfied := default }) :=
      map_eq_of_map_eq (fun a a' ha => by
        simp only [sfInVal, Bool.false_eq_true, if_false, Val.bytes.injEq] at ha
        simp [idOnlySf, ha]) h3
    simp only [stripCode, strip, Bool.false_eq_true, if_false, List.map_map, Function.comp_def]
    rw [e1, e2, e3, e4, e5, e6, e8, e9, h10, e11, e12]
  · have e3 : t.siafundInputs.map (fun i => ({ parent := idOnlySf i.parent, claimAddress := i.claimAddress, satisfied := default } : V2SiafundInput)) =
        t'.siafundInputs.map (fun i => { parent := idOnlySf i.parent, claimAddress := i.claimAddress, satisfied := default }) :=
      map_eq_of_map_eq (fun a a' ha => by
        simp only [sfInVal, if_true, rec, Val.pair.injEq, Val.bytes.injEq, and_true] at ha
        simp [idOnlySf, ha.1, ha.2]) h3
    simp only [stripCode, strip, if_true]
    rw [e1, e2, e3, e4, e5, e6, e8, e9, h10, e11, e12]

/-! ## the semantic schema is well-formed; the encoding is injective among equal kind lists -/

theorem payloadSch_wf (k : ResKind) : (payloadSch k).wf Env.default = true := by cases k <;> decide +kernel

theorem resSch_wf : ∀ ks, (resSch ks).wf Env.default = true
  | [] => rfl
  | k :: ks => by
    simp only [resSch, Sch.wf, Bool.and_eq_true]
    exact ⟨by decide, payloadSch_wf k, resSch_wf ks⟩

theorem semSch_wf (b : Bool) (ks : List ResKind) : (semSch b ks).wf Env.default = true := by
  simp only [semSch, Sch.seq, Sch.wf, Bool.and_eq_true]
  refine ⟨by decide +kernel, by decide +kernel, ?_, by decide +kernel, by decide +kernel, by decide +kernel, by decide +kernel,
    resSch_wf ks, by decide +kernel, by decide +kernel, by decide +kernel, by decide +kernel, trivial⟩
  cases b <;> decide +kernel

/-- **injectivity of the semantic encoding** among well-formed transactions with the same list of
resolution kinds: equal bytes ⇒ equal effect-bearing content (as far as the code binds it) -/
theorem semEncodeG_inj (b : Bool) {t t' : V2Txn} (hw : WFG b t) (hw' : WFG b t') (hk : t.kinds = t'.kinds)
    (h : semEncodeG b t = semEncodeG b t') : stripCode b t = stripCode b t' := by
  unfold semEncodeG at h
  unfold WFG at hw hw'
  rw [hk] at h hw
  exact semVal_inj b (C11.c11_injective Env.default_ok (semSch b t'.kinds) (semSch_wf b _) _ _ hw hw' h)

theorem semEncodeG_of_stripCode (b : Bool) {t t' : V2Txn} (h : stripCode b t = stripCode b t') :
    semEncodeG b t = semEncodeG b t' := by
  rw [← semEncodeG_stripCode b t, ← semEncodeG_stripCode b t', h]

/-- `strip` = what the code binds + the claim addresses -/
theorem strip_eq_iff (t t' : V2Txn) :
    strip t = strip t' ↔ (stripCode false t = stripCode false t' ∧
      t.siafundInputs.map (·.claimAddress) = t'.siafundInputs.map (·.claimAddress)) := by
  constructor
  · intro h
    refine ⟨by simp [stripCode, h], ?_⟩
    have := congrArg (fun x => x.siafundInputs.map (·.claimAddress)) h
    simpa [strip, List.map_map, Function.comp_def] using this
  · rintro ⟨h, hc⟩
    have hsf : (strip t).siafundInputs = (strip t').siafundInputs := by
      have h3 := congrArg V2Txn.siafundInputs h
      simp only [stripCode, strip, Bool.false_eq_true, if_false, List.map_map, Function.comp_def] at h3
      simp only [strip]
      -- both the claim-less projection and the claim addresses agree position by position
      generalize t.siafundInputs = l at h3 hc
      generalize t'.siafundInputs = l' at h3 hc
      induction l generalizing l' with
      | nil => cases l' <;> simp_all
      | cons a l ih =>
        cases l' with
        | nil => simp at h3
        | cons a' l' =>
          simp only [List.map_cons, List.cons.injEq, V2SiafundInput.mk.injEq, and_true] at h3 hc ⊢
          exact ⟨⟨h3.1, hc.1⟩, ih l' h3.2 hc.2⟩
    have e := h
    simp only [stripCode, Bool.false_eq_true, if_false] at e
    have : strip t = { strip t with siafundInputs := (strip t).siafundInputs } := rfl
    cases hs : strip t with
    | mk a1 a2 a3 a4 a5 a6 a7 a8 a9 a10 a11 =>
      cases hs' : strip t' with
      | mk b1 b2 b3 b4 b5 b6 b7 b8 b9 b10 b11 =>
        rw [hs, hs'] at e hsf
        simp only [V2Txn.mk.injEq] at e hsf ⊢
        exact ⟨e.1, e.2.1, hsf, e.2.2.2⟩

end Sia.Ids
