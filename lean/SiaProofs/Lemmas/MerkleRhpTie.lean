import SiaProofs.Lemmas.MerkleRhpSize
import SiaModel.Gen.CodeRhp2
/-!
  Helper lemmas for C16, part 7: the Go bit formulas (as generated into
  `Gen.Rhp2.nextSubtreeSize` / `Gen.Rhp2.RangeProofSize`) equal the hand models.
-/
set_option linter.unusedVariables false
namespace Sia.Rhp

theorem trailingZerosAux_eq : ∀ (fuel x : Nat), 0 < x → x < 2 ^ fuel → Go.trailingZerosAux fuel x = tz x := by
  intro fuel
  induction fuel with
  | zero => intro x h0 h1; simp at h1; omega
  | succ f ih =>
    intro x h0 h1
    rw [two_pow_succ'] at h1
    simp only [Go.trailingZerosAux]
    by_cases h : x % 2 = 1
    · simp [h, tz_odd h]
    · simp only [h, if_false]
      rw [tz_even (by omega) (by omega), ih (x / 2) (by omega) (by omega)]

theorem popAux_eq : ∀ (fuel x : Nat), x < 2 ^ fuel → Go.popAux fuel x = popcount x := by
  intro fuel
  induction fuel with
  | zero => intro x h; have : x = 0 := by simpa using h
            subst this; simp [Go.popAux, popcount_zero]
  | succ f ih =>
    intro x h
    rw [two_pow_succ'] at h
    simp only [Go.popAux]
    rw [popcount_unfold x, ih (x / 2) (by omega)]

/-- `bits.Len64` without the Int cast -/
def bitLen (x : Nat) : Nat := if x = 0 then 0 else Nat.log2 x + 1

theorem bits_Len64_eq (x : Nat) : Go.bits_Len64 x = (bitLen x : Int) := by
  unfold Go.bits_Len64 bitLen
  by_cases h : x = 0 <;> simp [h]

theorem bitLen_half {y : Nat} (hy : y ≠ 0) : bitLen y = bitLen (y / 2) + 1 := by
  unfold bitLen
  rw [Nat.log2_def y]
  by_cases h2 : 2 ≤ y
  · have : y / 2 ≠ 0 := by omega
    simp [hy, h2, this]
  · have : y / 2 = 0 := by omega
    simp [hy, h2, this]

theorem xor_eq_zero {a b : Nat} (h : a ^^^ b = 0) : a = b := by
  apply Nat.eq_of_testBit_eq
  intro i
  have := Nat.testBit_xor a b i
  rw [h] at this
  simp at this
  cases ha : a.testBit i <;> cases hb : b.testBit i <;> simp_all

theorem bitLen_xor : ∀ (d a b : Nat), a + b = d → bitLen (a ^^^ b) = diffLen a b := by
  intro d
  induction d using Nat.strongRecOn with
  | _ d ih =>
    intro a b hd
    by_cases hab : a = b
    · subst hab; simp [Nat.xor_self, bitLen, diffLen_self]
    · have hne : a ^^^ b ≠ 0 := fun h => hab (xor_eq_zero h)
      rw [bitLen_half hne, diffLen_ne hab, Nat.xor_div_two]
      rw [ih (a / 2 + b / 2) (by omega) (a / 2) (b / 2) rfl]

theorem bitLen_le {x W : Nat} (h : x < 2 ^ W) : bitLen x ≤ W := by
  unfold bitLen
  by_cases h0 : x = 0
  · simp [h0]
  · simp only [h0, if_false]
    have := (Nat.log2_lt h0).2 h
    omega

theorem xor_lt {a b W : Nat} (ha : a < 2 ^ W) (hb : b < 2 ^ W) : a ^^^ b < 2 ^ W :=
  Nat.xor_lt_two_pow ha hb

/-- zero bits of `x` below `L`, as Go computes them: popcount(^x & (2^L - 1)) on `W`-bit words -/
theorem popcount_andNot_mask : ∀ (L W x : Nat), L ≤ W → x < 2 ^ W →
    popcount ((2 ^ W - 1 - x) &&& (2 ^ L - 1)) = zerosBelow x L := by
  intro L
  induction L with
  | zero => intro W x _ _; simp [zerosBelow, popcount_zero]
  | succ L ih =>
    intro W x hLW hx
    obtain ⟨W', rfl⟩ : ∃ W', W = W' + 1 := ⟨W - 1, by omega⟩
    rw [two_pow_succ'] at hx
    have hpW := Nat.two_pow_pos W'
    have hpL := Nat.two_pow_pos L
    rw [popcount_unfold, Nat.and_div_two]
    have e1 : (2 ^ (W' + 1) - 1 - x) / 2 = 2 ^ W' - 1 - x / 2 := by rw [two_pow_succ']; omega
    have e2 : (2 ^ (L + 1) - 1) / 2 = 2 ^ L - 1 := by rw [two_pow_succ']; omega
    rw [e1, e2, ih W' (x / 2) (by omega) (by omega)]
    simp only [zerosBelow]
    congr 1
    have e3 : (2 ^ (W' + 1) - 1 - x &&& 2 ^ (L + 1) - 1) % 2 ^ 1
        = (2 ^ (W' + 1) - 1 - x) % 2 ^ 1 &&& (2 ^ (L + 1) - 1) % 2 ^ 1 := Nat.and_mod_two_pow
    simp only [Nat.pow_one] at e3
    rw [e3]
    have e4 : (2 ^ (L + 1) - 1) % 2 = 1 := by rw [two_pow_succ']; omega
    have e5 : (2 ^ (W' + 1) - 1 - x) % 2 = 1 - x % 2 := by rw [two_pow_succ']; omega
    rw [e4, e5, Nat.and_one_is_mod]
    omega


theorem popAux_le : ∀ (fuel x : Nat), Go.popAux fuel x ≤ fuel := by
  intro fuel
  induction fuel with
  | zero => intro x; simp [Go.popAux]
  | succ f ih => intro x; simp only [Go.popAux]; have := ih (x / 2); omega

theorem zerosBelow_le : ∀ (x L : Nat), zerosBelow x L ≤ L := by
  intro x L
  induction L generalizing x with
  | zero => simp [zerosBelow]
  | succ L ih => simp only [zerosBelow]; have := ih (x / 2); omega

end Sia.Rhp
