import SiaProofs.Lemmas.LedgerC10Total
import SiaProofs.Lemmas.LedgerC01WF
/-!
# C10 helper lemmas: invariants of the mid-state that survive the legacy window

Below `EphemeralOutputHeight` a v2 transaction may spend an "ephemeral" parent whose claimed record is not compared
with the diff it indexes, so the shared `elements` index can point a siacoin / siafund id at a diff that carries a
different id: `Struct` (and with it `Inv`) no longer holds.  What still holds, and suffices for the absence of
panics and for a well-formed committed ledger, is collected here:

* `LiveW T ms`: the *live* (unspent / unresolved) diffs of every kind carry pairwise distinct, correctly typed ids
  that are keys of the index;
* `KeyOk T ms k` for the two contract kinds: a key typed as a contract id points at the diff that carries it;
* membership invariants (`Num`): bounds on the diffs that do not depend on the index at all.
-/
namespace Sia.Ledger

-- ------------------------------------------------------------------ lists

theorem filter_map_set_sublist {D : Type} (l : List D) (i : Nat) (x : D) (live : D → Bool) (g : D → Id)
    (h : ∀ d, l[i]? = some d → live x = true → live d = true ∧ g x = g d) :
    (((l.set i x).filter live).map g).Sublist ((l.filter live).map g) := by
  induction l generalizing i with
  | nil => simp
  | cons a l ih =>
    cases i with
    | zero =>
      rw [List.set_cons_zero]
      cases hx : live x with
      | true =>
        obtain ⟨h1, h2⟩ := h a rfl hx
        rw [List.filter_cons_of_pos hx, List.filter_cons_of_pos h1, List.map_cons, List.map_cons, h2]
        exact List.Sublist.refl _
      | false =>
        rw [List.filter_cons_of_neg (by simp [hx])]
        exact ((List.sublist_cons_self a l).filter live).map g
    | succ i =>
      rw [List.set_cons_succ]
      have ih' := ih i (fun d hd => h d (by simpa using hd))
      cases ha : live a with
      | true =>
        rw [List.filter_cons_of_pos ha, List.filter_cons_of_pos ha, List.map_cons, List.map_cons]
        exact ih'.cons_cons _
      | false =>
        rw [List.filter_cons_of_neg (by simp [ha]), List.filter_cons_of_neg (by simp [ha])]
        exact ih'

theorem getD_mem_or_default_w {D : Type} [Inhabited D] (l : List D) (i : Nat) :
    l.getD i default ∈ l ∨ (l.length ≤ i ∧ l.getD i default = default) := by
  by_cases h : i < l.length
  · left; rw [List.getD_eq_getElem?_getD, List.getElem?_eq_getElem h]; exact List.getElem_mem h
  · right; refine ⟨by omega, ?_⟩
    rw [List.getD_eq_getElem?_getD, List.getElem?_eq_none (by omega)]; rfl

theorem lookup_snoc_some {l : List (Id × Nat)} {id x : Id} {n i : Nat} (h : (l ++ [(id, n)]).lookup x = some i) :
    l.lookup x = some i ∨ (l.lookup x = none ∧ x = id ∧ i = n) := by
  rw [lookup_snoc] at h
  cases hl : l.lookup x with
  | some j => rw [hl] at h; left; simpa using h
  | none =>
    rw [hl] at h
    right
    by_cases hx : x = id
    · simp [hx] at h; exact ⟨rfl, hx, h.symm⟩
    · simp [hx] at h

-- ------------------------------------------------------------------ live ids and keys

/-- ids of the diffs that `commit` turns into ledger elements -/
def Mid.liveIds (ms : Mid) : Kind → List Id
  | .sc => (ms.sces.filter (fun d => ¬ d.spent)).map (·.e.id)
  | .sf => (ms.sfes.filter (fun d => ¬ d.spent)).map (·.e.id)
  | .fc1 => (ms.fces.filter (fun d => ¬ d.resolved)).map (·.e.id)
  | .fc2 => (ms.v2fces.filter (fun d => d.resolution.isNone)).map (·.e.id)
  | .att => []

structure LiveW (T : Kind → Id → Prop) (ms : Mid) : Prop where
  typed : ∀ k, ∀ id ∈ ms.liveIds k, T k id ∧ ms.lookup id ≠ none
  nodup : ∀ k, (ms.liveIds k).Nodup

/-- a key typed with kind `k` points at the diff of kind `k` that carries it -/
def KeyOk (T : Kind → Id → Prop) (ms : Mid) (k : Kind) : Prop :=
  ∀ id i, T k id → ms.lookup id = some i → (ms.idsOf k)[i]? = some id

theorem map_set_same_w {D : Type} (l : List D) (i : Nat) (x : D) (g : D → Id)
    (h : ∀ d, l[i]? = some d → g x = g d) : (l.set i x).map g = l.map g := by
  induction l generalizing i with
  | nil => rfl
  | cons a l ih =>
    cases i with
    | zero => rw [List.set_cons_zero, List.map_cons, List.map_cons, h a rfl]
    | succ i => rw [List.set_cons_succ, List.map_cons, List.map_cons, ih i (fun d hd => h d (by simpa using hd))]

-- ------------------------------------------------------------------ kind: Kind.sc

theorem putSc_raw (ms : Mid) (id : Id) (f : ScDiff → ScDiff) :
    (∃ i, ms.lookup id = some i ∧ (ms.putSc id f).sces = ms.sces.set i (f (ms.sces.getD i default)) ∧
      (ms.putSc id f).elements = ms.elements) ∨
    (ms.lookup id = none ∧ (ms.putSc id f).sces = ms.sces ++ [f default] ∧
      (ms.putSc id f).elements = ms.elements ++ [(id, ms.sces.length)]) := by
  unfold Mid.putSc
  cases h : ms.lookup id with
  | some i => left; exact ⟨i, rfl, rfl, rfl⟩
  | none => right; exact ⟨rfl, rfl, rfl⟩

theorem putSc_base_w (ms : Mid) (id : Id) (f : ScDiff → ScDiff) : (ms.putSc id f).base = ms.base := by
  unfold Mid.putSc; split <;> rfl
theorem putSc_pool_w (ms : Mid) (id : Id) (f : ScDiff → ScDiff) : (ms.putSc id f).pool = ms.pool := by
  unfold Mid.putSc; split <;> rfl
theorem putSc_sfes_w (ms : Mid) (id : Id) (f : ScDiff → ScDiff) : (ms.putSc id f).sfes = ms.sfes := by
  unfold Mid.putSc; split <;> rfl
theorem putSc_fces_w (ms : Mid) (id : Id) (f : ScDiff → ScDiff) : (ms.putSc id f).fces = ms.fces := by
  unfold Mid.putSc; split <;> rfl
theorem putSc_v2fces_w (ms : Mid) (id : Id) (f : ScDiff → ScDiff) : (ms.putSc id f).v2fces = ms.v2fces := by
  unfold Mid.putSc; split <;> rfl
theorem putSc_spends_w (ms : Mid) (id : Id) (f : ScDiff → ScDiff) : (ms.putSc id f).spends = ms.spends := by
  unfold Mid.putSc; split <;> rfl

theorem putSc_lookup_mono {ms : Mid} {id : Id} {f : ScDiff → ScDiff} {x : Id} {i : Nat} (h : ms.lookup x = some i) :
    (ms.putSc id f).lookup x = some i := by
  rcases putSc_raw ms id f with ⟨j, _, _, he⟩ | ⟨_, _, he⟩
  · unfold Mid.lookup at *; rw [he]; exact h
  · unfold Mid.lookup at *; rw [he, lookup_snoc, h]; rfl

theorem putSc_lookup_cases {ms : Mid} {id : Id} {f : ScDiff → ScDiff} {x : Id} {i : Nat}
    (h : (ms.putSc id f).lookup x = some i) :
    ms.lookup x = some i ∨ (ms.lookup id = none ∧ x = id ∧ i = ms.sces.length) := by
  rcases putSc_raw ms id f with ⟨j, _, _, he⟩ | ⟨hn, _, he⟩
  · left; unfold Mid.lookup at *; rw [he] at h; exact h
  · unfold Mid.lookup at h; rw [he] at h
    rcases lookup_snoc_some h with h1 | ⟨_, h2, h3⟩
    · left; exact h1
    · right; exact ⟨hn, h2, h3⟩

theorem putSc_lookup_self (ms : Mid) (id : Id) (f : ScDiff → ScDiff) : (ms.putSc id f).lookup id ≠ none := by
  rcases putSc_raw ms id f with ⟨j, hj, _, he⟩ | ⟨hn, _, he⟩
  · unfold Mid.lookup at *; rw [he, hj]; simp
  · unfold Mid.lookup at *; rw [he, lookup_snoc, hn]; simp

theorem putSc_lookup_ne {ms : Mid} {id : Id} {f : ScDiff → ScDiff} {x : Id} (hx : x ≠ id) :
    (ms.putSc id f).lookup x = ms.lookup x := by
  rcases putSc_raw ms id f with ⟨j, _, _, he⟩ | ⟨_, _, he⟩
  · unfold Mid.lookup; rw [he]
  · unfold Mid.lookup; rw [he, lookup_snoc]; simp [hx]

theorem putSc_forall {P : ScDiff → Prop} (ms : Mid) (id : Id) (f : ScDiff → ScDiff) (h : ∀ d ∈ ms.sces, P d)
    (hf : ∀ d, (d ∈ ms.sces ∨ d = default) → P (f d)) : ∀ d ∈ (ms.putSc id f).sces, P d := by
  intro d hd
  rcases putSc_raw ms id f with ⟨i, _, hs, _⟩ | ⟨_, hs, _⟩
  · rw [hs] at hd
    rcases List.mem_or_eq_of_mem_set hd with h1 | h1
    · exact h d h1
    · subst h1
      rcases getD_mem_or_default_w ms.sces i with h2 | ⟨_, h2⟩
      · exact hf _ (Or.inl h2)
      · exact hf _ (Or.inr h2)
  · rw [hs] at hd
    rcases List.mem_append.mp hd with h1 | h1
    · exact h d h1
    · rw [List.mem_singleton] at h1; subst h1; exact hf _ (Or.inr rfl)

theorem putSc_forall' {P : ScDiff → Prop} (ms : Mid) (id : Id) (f : ScDiff → ScDiff) (h : ∀ d ∈ ms.sces, P d)
    (hfound : ∀ i d, ms.lookup id = some i → ms.sces[i]? = some d → P d → P (f d))
    (hnew : ms.lookup id = none → P (f default)) : ∀ d ∈ (ms.putSc id f).sces, P d := by
  intro d hd
  rcases putSc_raw ms id f with ⟨i, hi, hs, _⟩ | ⟨hn, hs, _⟩
  · rw [hs] at hd
    by_cases hlt : i < ms.sces.length
    · rcases List.mem_or_eq_of_mem_set hd with h1 | h1
      · exact h d h1
      · subst h1
        have hg : ms.sces.getD i default = ms.sces[i] := by
          rw [List.getD_eq_getElem?_getD, List.getElem?_eq_getElem hlt]; rfl
        rw [hg]
        exact hfound i _ hi (List.getElem?_eq_getElem hlt) (h _ (List.getElem_mem hlt))
    · rw [List.set_eq_of_length_le (by omega)] at hd; exact h d hd
  · rw [hs] at hd
    rcases List.mem_append.mp hd with h1 | h1
    · exact h d h1
    · rw [List.mem_singleton] at h1; subst h1; exact hnew hn

theorem putSc_other_w (ms : Mid) (id : Id) (f : ScDiff → ScDiff) {k : Kind} (hk : k ≠ Kind.sc) :
    (ms.putSc id f).liveIds k = ms.liveIds k ∧ (ms.putSc id f).idsOf k = ms.idsOf k := by
  unfold Mid.putSc
  split <;> cases k <;> first | exact absurd rfl hk | exact ⟨rfl, rfl⟩

theorem putSc_liveIds (ms : Mid) (id : Id) (f : ScDiff → ScDiff)
    (hfound : ∀ i d, ms.lookup id = some i → ms.sces[i]? = some d → (f d).spent = false → d.spent = false ∧ (f d).e.id = d.e.id) :
    ((ms.putSc id f).liveIds Kind.sc).Sublist (ms.liveIds Kind.sc) ∨
    (ms.lookup id = none ∧ (f default).spent = false ∧ (ms.putSc id f).liveIds Kind.sc = ms.liveIds Kind.sc ++ [(f default).e.id]) := by
  rcases putSc_raw ms id f with ⟨i, hi, hs, _⟩ | ⟨hn, hs, _⟩
  · left
    have := filter_map_set_sublist ms.sces i (f (ms.sces.getD i default)) (fun d => ¬ d.spent) (·.e.id) (by
      intro d hd hl
      have hg : ms.sces.getD i default = d := by rw [List.getD_eq_getElem?_getD, hd]; rfl
      rw [hg] at hl ⊢
      have := hfound i d hi hd (by simpa using hl)
      exact ⟨by simpa using this.1, this.2⟩)
    simp only [Mid.liveIds]; rw [hs]; exact this
  · by_cases hl : (f default).spent = false
    · right
      refine ⟨hn, hl, ?_⟩
      simp only [Mid.liveIds]; rw [hs, List.filter_append, List.map_append]
      congr 1
      rw [List.filter_cons_of_pos (by simpa using hl)]; rfl
    · left
      simp only [Mid.liveIds]; rw [hs, List.filter_append, List.map_append]
      rw [List.filter_cons_of_neg (by simpa using hl)]
      simp

theorem putSc_live {T} {ms : Mid} (hL : LiveW T ms) (id : Id) (f : ScDiff → ScDiff)
    (hnew : ms.lookup id = none → (f default).spent = false → (f default).e.id = id ∧ T Kind.sc id)
    (hfound : ∀ i d, ms.lookup id = some i → ms.sces[i]? = some d → (f d).spent = false → d.spent = false ∧ (f d).e.id = d.e.id) :
    LiveW T (ms.putSc id f) := by
  have hmono : ∀ x, ms.lookup x ≠ none → (ms.putSc id f).lookup x ≠ none := by
    intro x b
    cases hlk : ms.lookup x with
    | none => exact absurd hlk b
    | some j => rw [putSc_lookup_mono hlk]; simp
  constructor
  · intro k x hx
    by_cases hk : k = Kind.sc
    · subst hk
      rcases putSc_liveIds ms id f hfound with hs | ⟨hn, hl, he⟩
      · obtain ⟨a, b⟩ := hL.typed _ x (hs.subset hx)
        exact ⟨a, hmono x b⟩
      · rw [he] at hx
        rcases List.mem_append.mp hx with h1 | h1
        · obtain ⟨a, b⟩ := hL.typed _ x h1
          exact ⟨a, hmono x b⟩
        · rw [List.mem_singleton] at h1
          obtain ⟨h2, h3⟩ := hnew hn hl
          rw [h1, h2]; exact ⟨h3, putSc_lookup_self ms id f⟩
    · rw [(putSc_other_w ms id f hk).1] at hx
      obtain ⟨a, b⟩ := hL.typed k x hx
      exact ⟨a, hmono x b⟩
  · intro k
    by_cases hk : k = Kind.sc
    · subst hk
      rcases putSc_liveIds ms id f hfound with hs | ⟨hn, hl, he⟩
      · exact hs.nodup (hL.nodup _)
      · rw [he, List.nodup_append]
        refine ⟨hL.nodup _, by simp, ?_⟩
        intro a ha b hb hab
        rw [List.mem_singleton] at hb
        obtain ⟨h2, _⟩ := hnew hn hl
        have := (hL.typed _ a ha).2
        rw [hab, hb, h2] at this
        exact this hn
    · rw [(putSc_other_w ms id f hk).1]; exact hL.nodup k

theorem putSc_key_other {T} {ms : Mid} (hd : TDisj T) {k : Kind} (hk : k ≠ Kind.sc) (hK : KeyOk T ms k) (id : Id)
    (f : ScDiff → ScDiff) (hT : ms.lookup id = none → T Kind.sc id) : KeyOk T (ms.putSc id f) k := by
  intro x i hx hl
  rw [(putSc_other_w ms id f hk).2]
  rcases putSc_lookup_cases hl with h1 | ⟨h1, h2, _⟩
  · exact hK x i hx h1
  · subst h2; exact absurd (hd _ _ _ hx (hT h1)) hk

theorem putSc_key_self {T} {ms : Mid} (hK : KeyOk T ms Kind.sc) (id : Id) (f : ScDiff → ScDiff)
    (hnew : ms.lookup id = none → (f default).e.id = id)
    (hfound : ∀ i d, ms.lookup id = some i → ms.sces[i]? = some d → (f d).e.id = d.e.id) :
    KeyOk T (ms.putSc id f) Kind.sc := by
  intro x j hx hl
  rcases putSc_raw ms id f with ⟨i, hi, hs, he⟩ | ⟨hn, hs, he⟩
  · have hids : (ms.putSc id f).idsOf Kind.sc = ms.idsOf Kind.sc := by
      simp only [Mid.idsOf, Mid.scIds]; rw [hs]
      exact map_set_same_w _ _ _ _ (fun d hd => by
        have hg : ms.sces.getD i default = d := by rw [List.getD_eq_getElem?_getD, hd]; rfl
        rw [hg]; exact hfound i d hi hd)
    rw [hids]
    have : ms.lookup x = some j := by unfold Mid.lookup at *; rw [he] at hl; exact hl
    exact hK x j hx this
  · have hids : (ms.putSc id f).idsOf Kind.sc = ms.idsOf Kind.sc ++ [id] := by
      simp only [Mid.idsOf, Mid.scIds]; rw [hs, List.map_append, List.map_cons, List.map_nil, hnew hn]
    rw [hids]
    rcases putSc_lookup_cases hl with h1 | ⟨_, h2, h3⟩
    · have := hK x j hx h1
      have hlt : j < (ms.idsOf Kind.sc).length := by
        apply Decidable.byContradiction; intro hc
        rw [List.getElem?_eq_none (by omega)] at this; cases this
      rw [List.getElem?_append_left hlt]; exact this
    · subst h2; subst h3
      have : ms.sces.length = (ms.idsOf Kind.sc).length := by simp only [Mid.idsOf, Mid.scIds, List.length_map]
      rw [this, List.getElem?_append_right (Nat.le_refl _)]; simp


-- ------------------------------------------------------------------ kind: Kind.sf

theorem putSf_raw (ms : Mid) (id : Id) (f : SfDiff → SfDiff) :
    (∃ i, ms.lookup id = some i ∧ (ms.putSf id f).sfes = ms.sfes.set i (f (ms.sfes.getD i default)) ∧
      (ms.putSf id f).elements = ms.elements) ∨
    (ms.lookup id = none ∧ (ms.putSf id f).sfes = ms.sfes ++ [f default] ∧
      (ms.putSf id f).elements = ms.elements ++ [(id, ms.sfes.length)]) := by
  unfold Mid.putSf
  cases h : ms.lookup id with
  | some i => left; exact ⟨i, rfl, rfl, rfl⟩
  | none => right; exact ⟨rfl, rfl, rfl⟩

theorem putSf_base_w (ms : Mid) (id : Id) (f : SfDiff → SfDiff) : (ms.putSf id f).base = ms.base := by
  unfold Mid.putSf; split <;> rfl
theorem putSf_pool_w (ms : Mid) (id : Id) (f : SfDiff → SfDiff) : (ms.putSf id f).pool = ms.pool := by
  unfold Mid.putSf; split <;> rfl
theorem putSf_sces_w (ms : Mid) (id : Id) (f : SfDiff → SfDiff) : (ms.putSf id f).sces = ms.sces := by
  unfold Mid.putSf; split <;> rfl
theorem putSf_fces_w (ms : Mid) (id : Id) (f : SfDiff → SfDiff) : (ms.putSf id f).fces = ms.fces := by
  unfold Mid.putSf; split <;> rfl
theorem putSf_v2fces_w (ms : Mid) (id : Id) (f : SfDiff → SfDiff) : (ms.putSf id f).v2fces = ms.v2fces := by
  unfold Mid.putSf; split <;> rfl
theorem putSf_spends_w (ms : Mid) (id : Id) (f : SfDiff → SfDiff) : (ms.putSf id f).spends = ms.spends := by
  unfold Mid.putSf; split <;> rfl

theorem putSf_lookup_mono {ms : Mid} {id : Id} {f : SfDiff → SfDiff} {x : Id} {i : Nat} (h : ms.lookup x = some i) :
    (ms.putSf id f).lookup x = some i := by
  rcases putSf_raw ms id f with ⟨j, _, _, he⟩ | ⟨_, _, he⟩
  · unfold Mid.lookup at *; rw [he]; exact h
  · unfold Mid.lookup at *; rw [he, lookup_snoc, h]; rfl

theorem putSf_lookup_cases {ms : Mid} {id : Id} {f : SfDiff → SfDiff} {x : Id} {i : Nat}
    (h : (ms.putSf id f).lookup x = some i) :
    ms.lookup x = some i ∨ (ms.lookup id = none ∧ x = id ∧ i = ms.sfes.length) := by
  rcases putSf_raw ms id f with ⟨j, _, _, he⟩ | ⟨hn, _, he⟩
  · left; unfold Mid.lookup at *; rw [he] at h; exact h
  · unfold Mid.lookup at h; rw [he] at h
    rcases lookup_snoc_some h with h1 | ⟨_, h2, h3⟩
    · left; exact h1
    · right; exact ⟨hn, h2, h3⟩

theorem putSf_lookup_self (ms : Mid) (id : Id) (f : SfDiff → SfDiff) : (ms.putSf id f).lookup id ≠ none := by
  rcases putSf_raw ms id f with ⟨j, hj, _, he⟩ | ⟨hn, _, he⟩
  · unfold Mid.lookup at *; rw [he, hj]; simp
  · unfold Mid.lookup at *; rw [he, lookup_snoc, hn]; simp

theorem putSf_lookup_ne {ms : Mid} {id : Id} {f : SfDiff → SfDiff} {x : Id} (hx : x ≠ id) :
    (ms.putSf id f).lookup x = ms.lookup x := by
  rcases putSf_raw ms id f with ⟨j, _, _, he⟩ | ⟨_, _, he⟩
  · unfold Mid.lookup; rw [he]
  · unfold Mid.lookup; rw [he, lookup_snoc]; simp [hx]

theorem putSf_forall {P : SfDiff → Prop} (ms : Mid) (id : Id) (f : SfDiff → SfDiff) (h : ∀ d ∈ ms.sfes, P d)
    (hf : ∀ d, (d ∈ ms.sfes ∨ d = default) → P (f d)) : ∀ d ∈ (ms.putSf id f).sfes, P d := by
  intro d hd
  rcases putSf_raw ms id f with ⟨i, _, hs, _⟩ | ⟨_, hs, _⟩
  · rw [hs] at hd
    rcases List.mem_or_eq_of_mem_set hd with h1 | h1
    · exact h d h1
    · subst h1
      rcases getD_mem_or_default_w ms.sfes i with h2 | ⟨_, h2⟩
      · exact hf _ (Or.inl h2)
      · exact hf _ (Or.inr h2)
  · rw [hs] at hd
    rcases List.mem_append.mp hd with h1 | h1
    · exact h d h1
    · rw [List.mem_singleton] at h1; subst h1; exact hf _ (Or.inr rfl)

theorem putSf_forall' {P : SfDiff → Prop} (ms : Mid) (id : Id) (f : SfDiff → SfDiff) (h : ∀ d ∈ ms.sfes, P d)
    (hfound : ∀ i d, ms.lookup id = some i → ms.sfes[i]? = some d → P d → P (f d))
    (hnew : ms.lookup id = none → P (f default)) : ∀ d ∈ (ms.putSf id f).sfes, P d := by
  intro d hd
  rcases putSf_raw ms id f with ⟨i, hi, hs, _⟩ | ⟨hn, hs, _⟩
  · rw [hs] at hd
    by_cases hlt : i < ms.sfes.length
    · rcases List.mem_or_eq_of_mem_set hd with h1 | h1
      · exact h d h1
      · subst h1
        have hg : ms.sfes.getD i default = ms.sfes[i] := by
          rw [List.getD_eq_getElem?_getD, List.getElem?_eq_getElem hlt]; rfl
        rw [hg]
        exact hfound i _ hi (List.getElem?_eq_getElem hlt) (h _ (List.getElem_mem hlt))
    · rw [List.set_eq_of_length_le (by omega)] at hd; exact h d hd
  · rw [hs] at hd
    rcases List.mem_append.mp hd with h1 | h1
    · exact h d h1
    · rw [List.mem_singleton] at h1; subst h1; exact hnew hn

theorem putSf_other_w (ms : Mid) (id : Id) (f : SfDiff → SfDiff) {k : Kind} (hk : k ≠ Kind.sf) :
    (ms.putSf id f).liveIds k = ms.liveIds k ∧ (ms.putSf id f).idsOf k = ms.idsOf k := by
  unfold Mid.putSf
  split <;> cases k <;> first | exact absurd rfl hk | exact ⟨rfl, rfl⟩

theorem putSf_liveIds (ms : Mid) (id : Id) (f : SfDiff → SfDiff)
    (hfound : ∀ i d, ms.lookup id = some i → ms.sfes[i]? = some d → (f d).spent = false → d.spent = false ∧ (f d).e.id = d.e.id) :
    ((ms.putSf id f).liveIds Kind.sf).Sublist (ms.liveIds Kind.sf) ∨
    (ms.lookup id = none ∧ (f default).spent = false ∧ (ms.putSf id f).liveIds Kind.sf = ms.liveIds Kind.sf ++ [(f default).e.id]) := by
  rcases putSf_raw ms id f with ⟨i, hi, hs, _⟩ | ⟨hn, hs, _⟩
  · left
    have := filter_map_set_sublist ms.sfes i (f (ms.sfes.getD i default)) (fun d => ¬ d.spent) (·.e.id) (by
      intro d hd hl
      have hg : ms.sfes.getD i default = d := by rw [List.getD_eq_getElem?_getD, hd]; rfl
      rw [hg] at hl ⊢
      have := hfound i d hi hd (by simpa using hl)
      exact ⟨by simpa using this.1, this.2⟩)
    simp only [Mid.liveIds]; rw [hs]; exact this
  · by_cases hl : (f default).spent = false
    · right
      refine ⟨hn, hl, ?_⟩
      simp only [Mid.liveIds]; rw [hs, List.filter_append, List.map_append]
      congr 1
      rw [List.filter_cons_of_pos (by simpa using hl)]; rfl
    · left
      simp only [Mid.liveIds]; rw [hs, List.filter_append, List.map_append]
      rw [List.filter_cons_of_neg (by simpa using hl)]
      simp

theorem putSf_live {T} {ms : Mid} (hL : LiveW T ms) (id : Id) (f : SfDiff → SfDiff)
    (hnew : ms.lookup id = none → (f default).spent = false → (f default).e.id = id ∧ T Kind.sf id)
    (hfound : ∀ i d, ms.lookup id = some i → ms.sfes[i]? = some d → (f d).spent = false → d.spent = false ∧ (f d).e.id = d.e.id) :
    LiveW T (ms.putSf id f) := by
  have hmono : ∀ x, ms.lookup x ≠ none → (ms.putSf id f).lookup x ≠ none := by
    intro x b
    cases hlk : ms.lookup x with
    | none => exact absurd hlk b
    | some j => rw [putSf_lookup_mono hlk]; simp
  constructor
  · intro k x hx
    by_cases hk : k = Kind.sf
    · subst hk
      rcases putSf_liveIds ms id f hfound with hs | ⟨hn, hl, he⟩
      · obtain ⟨a, b⟩ := hL.typed _ x (hs.subset hx)
        exact ⟨a, hmono x b⟩
      · rw [he] at hx
        rcases List.mem_append.mp hx with h1 | h1
        · obtain ⟨a, b⟩ := hL.typed _ x h1
          exact ⟨a, hmono x b⟩
        · rw [List.mem_singleton] at h1
          obtain ⟨h2, h3⟩ := hnew hn hl
          rw [h1, h2]; exact ⟨h3, putSf_lookup_self ms id f⟩
    · rw [(putSf_other_w ms id f hk).1] at hx
      obtain ⟨a, b⟩ := hL.typed k x hx
      exact ⟨a, hmono x b⟩
  · intro k
    by_cases hk : k = Kind.sf
    · subst hk
      rcases putSf_liveIds ms id f hfound with hs | ⟨hn, hl, he⟩
      · exact hs.nodup (hL.nodup _)
      · rw [he, List.nodup_append]
        refine ⟨hL.nodup _, by simp, ?_⟩
        intro a ha b hb hab
        rw [List.mem_singleton] at hb
        obtain ⟨h2, _⟩ := hnew hn hl
        have := (hL.typed _ a ha).2
        rw [hab, hb, h2] at this
        exact this hn
    · rw [(putSf_other_w ms id f hk).1]; exact hL.nodup k

theorem putSf_key_other {T} {ms : Mid} (hd : TDisj T) {k : Kind} (hk : k ≠ Kind.sf) (hK : KeyOk T ms k) (id : Id)
    (f : SfDiff → SfDiff) (hT : ms.lookup id = none → T Kind.sf id) : KeyOk T (ms.putSf id f) k := by
  intro x i hx hl
  rw [(putSf_other_w ms id f hk).2]
  rcases putSf_lookup_cases hl with h1 | ⟨h1, h2, _⟩
  · exact hK x i hx h1
  · subst h2; exact absurd (hd _ _ _ hx (hT h1)) hk

theorem putSf_key_self {T} {ms : Mid} (hK : KeyOk T ms Kind.sf) (id : Id) (f : SfDiff → SfDiff)
    (hnew : ms.lookup id = none → (f default).e.id = id)
    (hfound : ∀ i d, ms.lookup id = some i → ms.sfes[i]? = some d → (f d).e.id = d.e.id) :
    KeyOk T (ms.putSf id f) Kind.sf := by
  intro x j hx hl
  rcases putSf_raw ms id f with ⟨i, hi, hs, he⟩ | ⟨hn, hs, he⟩
  · have hids : (ms.putSf id f).idsOf Kind.sf = ms.idsOf Kind.sf := by
      simp only [Mid.idsOf, Mid.sfIds]; rw [hs]
      exact map_set_same_w _ _ _ _ (fun d hd => by
        have hg : ms.sfes.getD i default = d := by rw [List.getD_eq_getElem?_getD, hd]; rfl
        rw [hg]; exact hfound i d hi hd)
    rw [hids]
    have : ms.lookup x = some j := by unfold Mid.lookup at *; rw [he] at hl; exact hl
    exact hK x j hx this
  · have hids : (ms.putSf id f).idsOf Kind.sf = ms.idsOf Kind.sf ++ [id] := by
      simp only [Mid.idsOf, Mid.sfIds]; rw [hs, List.map_append, List.map_cons, List.map_nil, hnew hn]
    rw [hids]
    rcases putSf_lookup_cases hl with h1 | ⟨_, h2, h3⟩
    · have := hK x j hx h1
      have hlt : j < (ms.idsOf Kind.sf).length := by
        apply Decidable.byContradiction; intro hc
        rw [List.getElem?_eq_none (by omega)] at this; cases this
      rw [List.getElem?_append_left hlt]; exact this
    · subst h2; subst h3
      have : ms.sfes.length = (ms.idsOf Kind.sf).length := by simp only [Mid.idsOf, Mid.sfIds, List.length_map]
      rw [this, List.getElem?_append_right (Nat.le_refl _)]; simp


-- ------------------------------------------------------------------ kind: Kind.fc1

theorem putFc1_raw (ms : Mid) (id : Id) (f : Fc1Diff → Fc1Diff) :
    (∃ i, ms.lookup id = some i ∧ (ms.putFc1 id f).fces = ms.fces.set i (f (ms.fces.getD i default)) ∧
      (ms.putFc1 id f).elements = ms.elements) ∨
    (ms.lookup id = none ∧ (ms.putFc1 id f).fces = ms.fces ++ [f default] ∧
      (ms.putFc1 id f).elements = ms.elements ++ [(id, ms.fces.length)]) := by
  unfold Mid.putFc1
  cases h : ms.lookup id with
  | some i => left; exact ⟨i, rfl, rfl, rfl⟩
  | none => right; exact ⟨rfl, rfl, rfl⟩

theorem putFc1_base_w (ms : Mid) (id : Id) (f : Fc1Diff → Fc1Diff) : (ms.putFc1 id f).base = ms.base := by
  unfold Mid.putFc1; split <;> rfl
theorem putFc1_pool_w (ms : Mid) (id : Id) (f : Fc1Diff → Fc1Diff) : (ms.putFc1 id f).pool = ms.pool := by
  unfold Mid.putFc1; split <;> rfl
theorem putFc1_sces_w (ms : Mid) (id : Id) (f : Fc1Diff → Fc1Diff) : (ms.putFc1 id f).sces = ms.sces := by
  unfold Mid.putFc1; split <;> rfl
theorem putFc1_sfes_w (ms : Mid) (id : Id) (f : Fc1Diff → Fc1Diff) : (ms.putFc1 id f).sfes = ms.sfes := by
  unfold Mid.putFc1; split <;> rfl
theorem putFc1_v2fces_w (ms : Mid) (id : Id) (f : Fc1Diff → Fc1Diff) : (ms.putFc1 id f).v2fces = ms.v2fces := by
  unfold Mid.putFc1; split <;> rfl
theorem putFc1_spends_w (ms : Mid) (id : Id) (f : Fc1Diff → Fc1Diff) : (ms.putFc1 id f).spends = ms.spends := by
  unfold Mid.putFc1; split <;> rfl

theorem putFc1_lookup_mono {ms : Mid} {id : Id} {f : Fc1Diff → Fc1Diff} {x : Id} {i : Nat} (h : ms.lookup x = some i) :
    (ms.putFc1 id f).lookup x = some i := by
  rcases putFc1_raw ms id f with ⟨j, _, _, he⟩ | ⟨_, _, he⟩
  · unfold Mid.lookup at *; rw [he]; exact h
  · unfold Mid.lookup at *; rw [he, lookup_snoc, h]; rfl

theorem putFc1_lookup_cases {ms : Mid} {id : Id} {f : Fc1Diff → Fc1Diff} {x : Id} {i : Nat}
    (h : (ms.putFc1 id f).lookup x = some i) :
    ms.lookup x = some i ∨ (ms.lookup id = none ∧ x = id ∧ i = ms.fces.length) := by
  rcases putFc1_raw ms id f with ⟨j, _, _, he⟩ | ⟨hn, _, he⟩
  · left; unfold Mid.lookup at *; rw [he] at h; exact h
  · unfold Mid.lookup at h; rw [he] at h
    rcases lookup_snoc_some h with h1 | ⟨_, h2, h3⟩
    · left; exact h1
    · right; exact ⟨hn, h2, h3⟩

theorem putFc1_lookup_self (ms : Mid) (id : Id) (f : Fc1Diff → Fc1Diff) : (ms.putFc1 id f).lookup id ≠ none := by
  rcases putFc1_raw ms id f with ⟨j, hj, _, he⟩ | ⟨hn, _, he⟩
  · unfold Mid.lookup at *; rw [he, hj]; simp
  · unfold Mid.lookup at *; rw [he, lookup_snoc, hn]; simp

theorem putFc1_lookup_ne {ms : Mid} {id : Id} {f : Fc1Diff → Fc1Diff} {x : Id} (hx : x ≠ id) :
    (ms.putFc1 id f).lookup x = ms.lookup x := by
  rcases putFc1_raw ms id f with ⟨j, _, _, he⟩ | ⟨_, _, he⟩
  · unfold Mid.lookup; rw [he]
  · unfold Mid.lookup; rw [he, lookup_snoc]; simp [hx]

theorem putFc1_forall {P : Fc1Diff → Prop} (ms : Mid) (id : Id) (f : Fc1Diff → Fc1Diff) (h : ∀ d ∈ ms.fces, P d)
    (hf : ∀ d, (d ∈ ms.fces ∨ d = default) → P (f d)) : ∀ d ∈ (ms.putFc1 id f).fces, P d := by
  intro d hd
  rcases putFc1_raw ms id f with ⟨i, _, hs, _⟩ | ⟨_, hs, _⟩
  · rw [hs] at hd
    rcases List.mem_or_eq_of_mem_set hd with h1 | h1
    · exact h d h1
    · subst h1
      rcases getD_mem_or_default_w ms.fces i with h2 | ⟨_, h2⟩
      · exact hf _ (Or.inl h2)
      · exact hf _ (Or.inr h2)
  · rw [hs] at hd
    rcases List.mem_append.mp hd with h1 | h1
    · exact h d h1
    · rw [List.mem_singleton] at h1; subst h1; exact hf _ (Or.inr rfl)

theorem putFc1_forall' {P : Fc1Diff → Prop} (ms : Mid) (id : Id) (f : Fc1Diff → Fc1Diff) (h : ∀ d ∈ ms.fces, P d)
    (hfound : ∀ i d, ms.lookup id = some i → ms.fces[i]? = some d → P d → P (f d))
    (hnew : ms.lookup id = none → P (f default)) : ∀ d ∈ (ms.putFc1 id f).fces, P d := by
  intro d hd
  rcases putFc1_raw ms id f with ⟨i, hi, hs, _⟩ | ⟨hn, hs, _⟩
  · rw [hs] at hd
    by_cases hlt : i < ms.fces.length
    · rcases List.mem_or_eq_of_mem_set hd with h1 | h1
      · exact h d h1
      · subst h1
        have hg : ms.fces.getD i default = ms.fces[i] := by
          rw [List.getD_eq_getElem?_getD, List.getElem?_eq_getElem hlt]; rfl
        rw [hg]
        exact hfound i _ hi (List.getElem?_eq_getElem hlt) (h _ (List.getElem_mem hlt))
    · rw [List.set_eq_of_length_le (by omega)] at hd; exact h d hd
  · rw [hs] at hd
    rcases List.mem_append.mp hd with h1 | h1
    · exact h d h1
    · rw [List.mem_singleton] at h1; subst h1; exact hnew hn

theorem putFc1_other_w (ms : Mid) (id : Id) (f : Fc1Diff → Fc1Diff) {k : Kind} (hk : k ≠ Kind.fc1) :
    (ms.putFc1 id f).liveIds k = ms.liveIds k ∧ (ms.putFc1 id f).idsOf k = ms.idsOf k := by
  unfold Mid.putFc1
  split <;> cases k <;> first | exact absurd rfl hk | exact ⟨rfl, rfl⟩

theorem putFc1_liveIds (ms : Mid) (id : Id) (f : Fc1Diff → Fc1Diff)
    (hfound : ∀ i d, ms.lookup id = some i → ms.fces[i]? = some d → (f d).resolved = false → d.resolved = false ∧ (f d).e.id = d.e.id) :
    ((ms.putFc1 id f).liveIds Kind.fc1).Sublist (ms.liveIds Kind.fc1) ∨
    (ms.lookup id = none ∧ (f default).resolved = false ∧ (ms.putFc1 id f).liveIds Kind.fc1 = ms.liveIds Kind.fc1 ++ [(f default).e.id]) := by
  rcases putFc1_raw ms id f with ⟨i, hi, hs, _⟩ | ⟨hn, hs, _⟩
  · left
    have := filter_map_set_sublist ms.fces i (f (ms.fces.getD i default)) (fun d => ¬ d.resolved) (·.e.id) (by
      intro d hd hl
      have hg : ms.fces.getD i default = d := by rw [List.getD_eq_getElem?_getD, hd]; rfl
      rw [hg] at hl ⊢
      have := hfound i d hi hd (by simpa using hl)
      exact ⟨by simpa using this.1, this.2⟩)
    simp only [Mid.liveIds]; rw [hs]; exact this
  · by_cases hl : (f default).resolved = false
    · right
      refine ⟨hn, hl, ?_⟩
      simp only [Mid.liveIds]; rw [hs, List.filter_append, List.map_append]
      congr 1
      rw [List.filter_cons_of_pos (by simpa using hl)]; rfl
    · left
      simp only [Mid.liveIds]; rw [hs, List.filter_append, List.map_append]
      rw [List.filter_cons_of_neg (by simpa using hl)]
      simp

theorem putFc1_live {T} {ms : Mid} (hL : LiveW T ms) (id : Id) (f : Fc1Diff → Fc1Diff)
    (hnew : ms.lookup id = none → (f default).resolved = false → (f default).e.id = id ∧ T Kind.fc1 id)
    (hfound : ∀ i d, ms.lookup id = some i → ms.fces[i]? = some d → (f d).resolved = false → d.resolved = false ∧ (f d).e.id = d.e.id) :
    LiveW T (ms.putFc1 id f) := by
  have hmono : ∀ x, ms.lookup x ≠ none → (ms.putFc1 id f).lookup x ≠ none := by
    intro x b
    cases hlk : ms.lookup x with
    | none => exact absurd hlk b
    | some j => rw [putFc1_lookup_mono hlk]; simp
  constructor
  · intro k x hx
    by_cases hk : k = Kind.fc1
    · subst hk
      rcases putFc1_liveIds ms id f hfound with hs | ⟨hn, hl, he⟩
      · obtain ⟨a, b⟩ := hL.typed _ x (hs.subset hx)
        exact ⟨a, hmono x b⟩
      · rw [he] at hx
        rcases List.mem_append.mp hx with h1 | h1
        · obtain ⟨a, b⟩ := hL.typed _ x h1
          exact ⟨a, hmono x b⟩
        · rw [List.mem_singleton] at h1
          obtain ⟨h2, h3⟩ := hnew hn hl
          rw [h1, h2]; exact ⟨h3, putFc1_lookup_self ms id f⟩
    · rw [(putFc1_other_w ms id f hk).1] at hx
      obtain ⟨a, b⟩ := hL.typed k x hx
      exact ⟨a, hmono x b⟩
  · intro k
    by_cases hk : k = Kind.fc1
    · subst hk
      rcases putFc1_liveIds ms id f hfound with hs | ⟨hn, hl, he⟩
      · exact hs.nodup (hL.nodup _)
      · rw [he, List.nodup_append]
        refine ⟨hL.nodup _, by simp, ?_⟩
        intro a ha b hb hab
        rw [List.mem_singleton] at hb
        obtain ⟨h2, _⟩ := hnew hn hl
        have := (hL.typed _ a ha).2
        rw [hab, hb, h2] at this
        exact this hn
    · rw [(putFc1_other_w ms id f hk).1]; exact hL.nodup k

theorem putFc1_key_other {T} {ms : Mid} (hd : TDisj T) {k : Kind} (hk : k ≠ Kind.fc1) (hK : KeyOk T ms k) (id : Id)
    (f : Fc1Diff → Fc1Diff) (hT : ms.lookup id = none → T Kind.fc1 id) : KeyOk T (ms.putFc1 id f) k := by
  intro x i hx hl
  rw [(putFc1_other_w ms id f hk).2]
  rcases putFc1_lookup_cases hl with h1 | ⟨h1, h2, _⟩
  · exact hK x i hx h1
  · subst h2; exact absurd (hd _ _ _ hx (hT h1)) hk

theorem putFc1_key_self {T} {ms : Mid} (hK : KeyOk T ms Kind.fc1) (id : Id) (f : Fc1Diff → Fc1Diff)
    (hnew : ms.lookup id = none → (f default).e.id = id)
    (hfound : ∀ i d, ms.lookup id = some i → ms.fces[i]? = some d → (f d).e.id = d.e.id) :
    KeyOk T (ms.putFc1 id f) Kind.fc1 := by
  intro x j hx hl
  rcases putFc1_raw ms id f with ⟨i, hi, hs, he⟩ | ⟨hn, hs, he⟩
  · have hids : (ms.putFc1 id f).idsOf Kind.fc1 = ms.idsOf Kind.fc1 := by
      simp only [Mid.idsOf, Mid.fc1Ids]; rw [hs]
      exact map_set_same_w _ _ _ _ (fun d hd => by
        have hg : ms.fces.getD i default = d := by rw [List.getD_eq_getElem?_getD, hd]; rfl
        rw [hg]; exact hfound i d hi hd)
    rw [hids]
    have : ms.lookup x = some j := by unfold Mid.lookup at *; rw [he] at hl; exact hl
    exact hK x j hx this
  · have hids : (ms.putFc1 id f).idsOf Kind.fc1 = ms.idsOf Kind.fc1 ++ [id] := by
      simp only [Mid.idsOf, Mid.fc1Ids]; rw [hs, List.map_append, List.map_cons, List.map_nil, hnew hn]
    rw [hids]
    rcases putFc1_lookup_cases hl with h1 | ⟨_, h2, h3⟩
    · have := hK x j hx h1
      have hlt : j < (ms.idsOf Kind.fc1).length := by
        apply Decidable.byContradiction; intro hc
        rw [List.getElem?_eq_none (by omega)] at this; cases this
      rw [List.getElem?_append_left hlt]; exact this
    · subst h2; subst h3
      have : ms.fces.length = (ms.idsOf Kind.fc1).length := by simp only [Mid.idsOf, Mid.fc1Ids, List.length_map]
      rw [this, List.getElem?_append_right (Nat.le_refl _)]; simp


-- ------------------------------------------------------------------ kind: Kind.fc2

theorem putFc2_raw (ms : Mid) (id : Id) (f : Fc2Diff → Fc2Diff) :
    (∃ i, ms.lookup id = some i ∧ (ms.putFc2 id f).v2fces = ms.v2fces.set i (f (ms.v2fces.getD i default)) ∧
      (ms.putFc2 id f).elements = ms.elements) ∨
    (ms.lookup id = none ∧ (ms.putFc2 id f).v2fces = ms.v2fces ++ [f default] ∧
      (ms.putFc2 id f).elements = ms.elements ++ [(id, ms.v2fces.length)]) := by
  unfold Mid.putFc2
  cases h : ms.lookup id with
  | some i => left; exact ⟨i, rfl, rfl, rfl⟩
  | none => right; exact ⟨rfl, rfl, rfl⟩

theorem putFc2_base_w (ms : Mid) (id : Id) (f : Fc2Diff → Fc2Diff) : (ms.putFc2 id f).base = ms.base := by
  unfold Mid.putFc2; split <;> rfl
theorem putFc2_pool_w (ms : Mid) (id : Id) (f : Fc2Diff → Fc2Diff) : (ms.putFc2 id f).pool = ms.pool := by
  unfold Mid.putFc2; split <;> rfl
theorem putFc2_sces_w (ms : Mid) (id : Id) (f : Fc2Diff → Fc2Diff) : (ms.putFc2 id f).sces = ms.sces := by
  unfold Mid.putFc2; split <;> rfl
theorem putFc2_sfes_w (ms : Mid) (id : Id) (f : Fc2Diff → Fc2Diff) : (ms.putFc2 id f).sfes = ms.sfes := by
  unfold Mid.putFc2; split <;> rfl
theorem putFc2_fces_w (ms : Mid) (id : Id) (f : Fc2Diff → Fc2Diff) : (ms.putFc2 id f).fces = ms.fces := by
  unfold Mid.putFc2; split <;> rfl
theorem putFc2_spends_w (ms : Mid) (id : Id) (f : Fc2Diff → Fc2Diff) : (ms.putFc2 id f).spends = ms.spends := by
  unfold Mid.putFc2; split <;> rfl

theorem putFc2_lookup_mono {ms : Mid} {id : Id} {f : Fc2Diff → Fc2Diff} {x : Id} {i : Nat} (h : ms.lookup x = some i) :
    (ms.putFc2 id f).lookup x = some i := by
  rcases putFc2_raw ms id f with ⟨j, _, _, he⟩ | ⟨_, _, he⟩
  · unfold Mid.lookup at *; rw [he]; exact h
  · unfold Mid.lookup at *; rw [he, lookup_snoc, h]; rfl

theorem putFc2_lookup_cases {ms : Mid} {id : Id} {f : Fc2Diff → Fc2Diff} {x : Id} {i : Nat}
    (h : (ms.putFc2 id f).lookup x = some i) :
    ms.lookup x = some i ∨ (ms.lookup id = none ∧ x = id ∧ i = ms.v2fces.length) := by
  rcases putFc2_raw ms id f with ⟨j, _, _, he⟩ | ⟨hn, _, he⟩
  · left; unfold Mid.lookup at *; rw [he] at h; exact h
  · unfold Mid.lookup at h; rw [he] at h
    rcases lookup_snoc_some h with h1 | ⟨_, h2, h3⟩
    · left; exact h1
    · right; exact ⟨hn, h2, h3⟩

theorem putFc2_lookup_self (ms : Mid) (id : Id) (f : Fc2Diff → Fc2Diff) : (ms.putFc2 id f).lookup id ≠ none := by
  rcases putFc2_raw ms id f with ⟨j, hj, _, he⟩ | ⟨hn, _, he⟩
  · unfold Mid.lookup at *; rw [he, hj]; simp
  · unfold Mid.lookup at *; rw [he, lookup_snoc, hn]; simp

theorem putFc2_lookup_ne {ms : Mid} {id : Id} {f : Fc2Diff → Fc2Diff} {x : Id} (hx : x ≠ id) :
    (ms.putFc2 id f).lookup x = ms.lookup x := by
  rcases putFc2_raw ms id f with ⟨j, _, _, he⟩ | ⟨_, _, he⟩
  · unfold Mid.lookup; rw [he]
  · unfold Mid.lookup; rw [he, lookup_snoc]; simp [hx]

theorem putFc2_forall {P : Fc2Diff → Prop} (ms : Mid) (id : Id) (f : Fc2Diff → Fc2Diff) (h : ∀ d ∈ ms.v2fces, P d)
    (hf : ∀ d, (d ∈ ms.v2fces ∨ d = default) → P (f d)) : ∀ d ∈ (ms.putFc2 id f).v2fces, P d := by
  intro d hd
  rcases putFc2_raw ms id f with ⟨i, _, hs, _⟩ | ⟨_, hs, _⟩
  · rw [hs] at hd
    rcases List.mem_or_eq_of_mem_set hd with h1 | h1
    · exact h d h1
    · subst h1
      rcases getD_mem_or_default_w ms.v2fces i with h2 | ⟨_, h2⟩
      · exact hf _ (Or.inl h2)
      · exact hf _ (Or.inr h2)
  · rw [hs] at hd
    rcases List.mem_append.mp hd with h1 | h1
    · exact h d h1
    · rw [List.mem_singleton] at h1; subst h1; exact hf _ (Or.inr rfl)

theorem putFc2_forall' {P : Fc2Diff → Prop} (ms : Mid) (id : Id) (f : Fc2Diff → Fc2Diff) (h : ∀ d ∈ ms.v2fces, P d)
    (hfound : ∀ i d, ms.lookup id = some i → ms.v2fces[i]? = some d → P d → P (f d))
    (hnew : ms.lookup id = none → P (f default)) : ∀ d ∈ (ms.putFc2 id f).v2fces, P d := by
  intro d hd
  rcases putFc2_raw ms id f with ⟨i, hi, hs, _⟩ | ⟨hn, hs, _⟩
  · rw [hs] at hd
    by_cases hlt : i < ms.v2fces.length
    · rcases List.mem_or_eq_of_mem_set hd with h1 | h1
      · exact h d h1
      · subst h1
        have hg : ms.v2fces.getD i default = ms.v2fces[i] := by
          rw [List.getD_eq_getElem?_getD, List.getElem?_eq_getElem hlt]; rfl
        rw [hg]
        exact hfound i _ hi (List.getElem?_eq_getElem hlt) (h _ (List.getElem_mem hlt))
    · rw [List.set_eq_of_length_le (by omega)] at hd; exact h d hd
  · rw [hs] at hd
    rcases List.mem_append.mp hd with h1 | h1
    · exact h d h1
    · rw [List.mem_singleton] at h1; subst h1; exact hnew hn

theorem putFc2_other_w (ms : Mid) (id : Id) (f : Fc2Diff → Fc2Diff) {k : Kind} (hk : k ≠ Kind.fc2) :
    (ms.putFc2 id f).liveIds k = ms.liveIds k ∧ (ms.putFc2 id f).idsOf k = ms.idsOf k := by
  unfold Mid.putFc2
  split <;> cases k <;> first | exact absurd rfl hk | exact ⟨rfl, rfl⟩

theorem putFc2_liveIds (ms : Mid) (id : Id) (f : Fc2Diff → Fc2Diff)
    (hfound : ∀ i d, ms.lookup id = some i → ms.v2fces[i]? = some d → (f d).resolution.isNone = true → d.resolution.isNone = true ∧ (f d).e.id = d.e.id) :
    ((ms.putFc2 id f).liveIds Kind.fc2).Sublist (ms.liveIds Kind.fc2) ∨
    (ms.lookup id = none ∧ (f default).resolution.isNone = true ∧ (ms.putFc2 id f).liveIds Kind.fc2 = ms.liveIds Kind.fc2 ++ [(f default).e.id]) := by
  rcases putFc2_raw ms id f with ⟨i, hi, hs, _⟩ | ⟨hn, hs, _⟩
  · left
    have := filter_map_set_sublist ms.v2fces i (f (ms.v2fces.getD i default)) (fun d => d.resolution.isNone) (·.e.id) (by
      intro d hd hl
      have hg : ms.v2fces.getD i default = d := by rw [List.getD_eq_getElem?_getD, hd]; rfl
      rw [hg] at hl ⊢
      have := hfound i d hi hd (by simpa using hl)
      exact ⟨by simpa using this.1, this.2⟩)
    simp only [Mid.liveIds]; rw [hs]; exact this
  · by_cases hl : (f default).resolution.isNone = true
    · right
      refine ⟨hn, hl, ?_⟩
      simp only [Mid.liveIds]; rw [hs, List.filter_append, List.map_append]
      congr 1
      rw [List.filter_cons_of_pos (by simpa using hl)]; rfl
    · left
      simp only [Mid.liveIds]; rw [hs, List.filter_append, List.map_append]
      rw [List.filter_cons_of_neg (by simpa using hl)]
      simp

theorem putFc2_live {T} {ms : Mid} (hL : LiveW T ms) (id : Id) (f : Fc2Diff → Fc2Diff)
    (hnew : ms.lookup id = none → (f default).resolution.isNone = true → (f default).e.id = id ∧ T Kind.fc2 id)
    (hfound : ∀ i d, ms.lookup id = some i → ms.v2fces[i]? = some d → (f d).resolution.isNone = true → d.resolution.isNone = true ∧ (f d).e.id = d.e.id) :
    LiveW T (ms.putFc2 id f) := by
  have hmono : ∀ x, ms.lookup x ≠ none → (ms.putFc2 id f).lookup x ≠ none := by
    intro x b
    cases hlk : ms.lookup x with
    | none => exact absurd hlk b
    | some j => rw [putFc2_lookup_mono hlk]; simp
  constructor
  · intro k x hx
    by_cases hk : k = Kind.fc2
    · subst hk
      rcases putFc2_liveIds ms id f hfound with hs | ⟨hn, hl, he⟩
      · obtain ⟨a, b⟩ := hL.typed _ x (hs.subset hx)
        exact ⟨a, hmono x b⟩
      · rw [he] at hx
        rcases List.mem_append.mp hx with h1 | h1
        · obtain ⟨a, b⟩ := hL.typed _ x h1
          exact ⟨a, hmono x b⟩
        · rw [List.mem_singleton] at h1
          obtain ⟨h2, h3⟩ := hnew hn hl
          rw [h1, h2]; exact ⟨h3, putFc2_lookup_self ms id f⟩
    · rw [(putFc2_other_w ms id f hk).1] at hx
      obtain ⟨a, b⟩ := hL.typed k x hx
      exact ⟨a, hmono x b⟩
  · intro k
    by_cases hk : k = Kind.fc2
    · subst hk
      rcases putFc2_liveIds ms id f hfound with hs | ⟨hn, hl, he⟩
      · exact hs.nodup (hL.nodup _)
      · rw [he, List.nodup_append]
        refine ⟨hL.nodup _, by simp, ?_⟩
        intro a ha b hb hab
        rw [List.mem_singleton] at hb
        obtain ⟨h2, _⟩ := hnew hn hl
        have := (hL.typed _ a ha).2
        rw [hab, hb, h2] at this
        exact this hn
    · rw [(putFc2_other_w ms id f hk).1]; exact hL.nodup k

theorem putFc2_key_other {T} {ms : Mid} (hd : TDisj T) {k : Kind} (hk : k ≠ Kind.fc2) (hK : KeyOk T ms k) (id : Id)
    (f : Fc2Diff → Fc2Diff) (hT : ms.lookup id = none → T Kind.fc2 id) : KeyOk T (ms.putFc2 id f) k := by
  intro x i hx hl
  rw [(putFc2_other_w ms id f hk).2]
  rcases putFc2_lookup_cases hl with h1 | ⟨h1, h2, _⟩
  · exact hK x i hx h1
  · subst h2; exact absurd (hd _ _ _ hx (hT h1)) hk

theorem putFc2_key_self {T} {ms : Mid} (hK : KeyOk T ms Kind.fc2) (id : Id) (f : Fc2Diff → Fc2Diff)
    (hnew : ms.lookup id = none → (f default).e.id = id)
    (hfound : ∀ i d, ms.lookup id = some i → ms.v2fces[i]? = some d → (f d).e.id = d.e.id) :
    KeyOk T (ms.putFc2 id f) Kind.fc2 := by
  intro x j hx hl
  rcases putFc2_raw ms id f with ⟨i, hi, hs, he⟩ | ⟨hn, hs, he⟩
  · have hids : (ms.putFc2 id f).idsOf Kind.fc2 = ms.idsOf Kind.fc2 := by
      simp only [Mid.idsOf, Mid.fc2Ids]; rw [hs]
      exact map_set_same_w _ _ _ _ (fun d hd => by
        have hg : ms.v2fces.getD i default = d := by rw [List.getD_eq_getElem?_getD, hd]; rfl
        rw [hg]; exact hfound i d hi hd)
    rw [hids]
    have : ms.lookup x = some j := by unfold Mid.lookup at *; rw [he] at hl; exact hl
    exact hK x j hx this
  · have hids : (ms.putFc2 id f).idsOf Kind.fc2 = ms.idsOf Kind.fc2 ++ [id] := by
      simp only [Mid.idsOf, Mid.fc2Ids]; rw [hs, List.map_append, List.map_cons, List.map_nil, hnew hn]
    rw [hids]
    rcases putFc2_lookup_cases hl with h1 | ⟨_, h2, h3⟩
    · have := hK x j hx h1
      have hlt : j < (ms.idsOf Kind.fc2).length := by
        apply Decidable.byContradiction; intro hc
        rw [List.getElem?_eq_none (by omega)] at this; cases this
      rw [List.getElem?_append_left hlt]; exact this
    · subst h2; subst h3
      have : ms.v2fces.length = (ms.idsOf Kind.fc2).length := by simp only [Mid.idsOf, Mid.fc2Ids, List.length_map]
      rw [this, List.getElem?_append_right (Nat.le_refl _)]; simp

-- ------------------------------------------------------------------ the invariants

def NcP (L : Ledger) (d : Fc2Diff) : Prop := d.created = true → d.e.id ∉ baseIds L .fc2
def Fc2P (d : Fc2Diff) : Prop := d.e.fc.val < curLimit ∧ ∀ r, d.revision = some r → r.val < curLimit
def BalP (d : Fc1Diff) : Prop := d.resolved = false → sumVals d.current.fc.valid = sumVals d.current.fc.missed
def Fc1P (d : Fc1Diff) : Prop := sumVals d.current.fc.valid < curLimit ∧ sumVals d.current.fc.missed < curLimit
def SfP (pool : Cur) (d : SfDiff) : Prop := d.spent = false → d.e.claimStart ≤ pool ∧ d.e.value ≤ 10000

/-- the structural part: what is left of `Inv` when ephemeral parents are not compared with their diffs -/
structure LI (T : Kind → Id → Prop) (ms : Mid) : Prop where
  live : LiveW T ms
  key1 : KeyOk T ms .fc1
  key2 : KeyOk T ms .fc2
  /-- a diff that creates a v2 contract does not carry the id of a contract of the ledger -/
  nc : ∀ d ∈ ms.v2fces, NcP ms.base d
  bal : ∀ d ∈ ms.fces, BalP d

/-- the numeric part: bounds on single diffs, none on their sum -/
structure Num (ms : Mid) : Prop where
  sf : ∀ d ∈ ms.sfes, SfP ms.pool d
  fc1 : ∀ d ∈ ms.fces, Fc1P d
  fc2 : ∀ d ∈ ms.v2fces, Fc2P d
  lo : ms.base.pool ≤ ms.pool
  hi : ms.pool < curLimit

/-- bounds on the single elements of a ledger -/
structure NumL (L : Ledger) : Prop where
  sf : ∀ e ∈ L.sf, e.claimStart ≤ L.pool ∧ e.value ≤ 10000
  fc1 : ∀ e ∈ L.fc1, sumVals e.fc.valid < curLimit ∧ sumVals e.fc.missed < curLimit
  fc2 : ∀ e ∈ L.fc2, e.fc.val < curLimit
  pool : L.pool < curLimit

structure WI (T : Kind → Id → Prop) (ms : Mid) (R : List (Kind × Id)) : Prop where
  li : LI T ms
  fresh : Fresh T ms R
  num : Num ms

theorem LI.congr {T} {ms ms' : Mid} (h : LI T ms) (hb : ms'.base = ms.base) (he : ms'.elements = ms.elements)
    (h1 : ms'.sces = ms.sces) (h2 : ms'.sfes = ms.sfes) (h3 : ms'.fces = ms.fces) (h4 : ms'.v2fces = ms.v2fces) :
    LI T ms' := by
  have hl : ∀ k, ms'.liveIds k = ms.liveIds k := by intro k; cases k <;> simp only [Mid.liveIds, h1, h2, h3, h4]
  have hi : ∀ k, ms'.idsOf k = ms.idsOf k := by
    intro k; cases k <;> simp only [Mid.idsOf, Mid.scIds, Mid.sfIds, Mid.fc1Ids, Mid.fc2Ids, h1, h2, h3, h4]
  have hlk : ∀ x, ms'.lookup x = ms.lookup x := by intro x; unfold Mid.lookup; rw [he]
  refine ⟨⟨?_, ?_⟩, ?_, ?_, ?_, ?_⟩
  · intro k id hid; rw [hl] at hid; rw [hlk]; exact h.live.typed k id hid
  · intro k; rw [hl]; exact h.live.nodup k
  · intro x i hx hlx; rw [hi]; rw [hlk] at hlx; exact h.key1 x i hx hlx
  · intro x i hx hlx; rw [hi]; rw [hlk] at hlx; exact h.key2 x i hx hlx
  · rw [h4, hb]; exact h.nc
  · rw [h3]; exact h.bal

theorem Fresh.of_lookup {T} {ms ms' : Mid} {R} (h : Fresh T ms R) (hb : ms'.base = ms.base)
    (hl : ∀ p ∈ R, ms'.lookup p.2 = ms.lookup p.2) : Fresh T ms' R := by
  refine ⟨h.1, fun p hp => ?_⟩
  obtain ⟨a, b, c⟩ := h.2 p hp
  exact ⟨a, by rw [hl p hp]; exact b, by rw [hb]; exact c⟩

theorem Fresh.ne_of_lookup {T} {ms : Mid} {R} (h : Fresh T ms R) {id : Id} (hid : ms.lookup id ≠ none) :
    ∀ p ∈ R, p.2 ≠ id := by
  intro p hp he; exact hid (he ▸ (h.2 p hp).2.1)

theorem Fresh.ne_of_base {T} {ms : Mid} {R} (h : Fresh T ms R) {id : Id} {k : Kind} (hid : id ∈ baseIds ms.base k) :
    ∀ p ∈ R, p.2 ≠ id := by
  intro p hp he; exact (h.2 p hp).2.2 k (he ▸ hid)

theorem Num.congr {ms ms' : Mid} (h : Num ms) (hb : ms'.base = ms.base) (hp : ms'.pool = ms.pool)
    (h2 : ms'.sfes = ms.sfes) (h3 : ms'.fces = ms.fces) (h4 : ms'.v2fces = ms.v2fces) : Num ms' :=
  ⟨by rw [h2, hp]; exact h.sf, by rw [h3]; exact h.fc1, by rw [h4]; exact h.fc2, by rw [hb, hp]; exact h.lo,
    by rw [hp]; exact h.hi⟩

/-- the pool only grows -/
theorem Num.pool {ms ms' : Mid} (h : Num ms) (hb : ms'.base = ms.base) (hp : ms.pool ≤ ms'.pool) (hh : ms'.pool < curLimit)
    (h2 : ms'.sfes = ms.sfes) (h3 : ms'.fces = ms.fces) (h4 : ms'.v2fces = ms.v2fces) : Num ms' :=
  ⟨by rw [h2]; intro d hd hs; obtain ⟨a, b⟩ := h.sf d hd hs; exact ⟨Nat.le_trans a hp, b⟩,
    by rw [h3]; exact h.fc1, by rw [h4]; exact h.fc2, by rw [hb]; exact Nat.le_trans h.lo hp, hh⟩

theorem WI.congr {T} {ms ms' : Mid} {R} (h : WI T ms R) (hb : ms'.base = ms.base) (he : ms'.elements = ms.elements)
    (hp : ms'.pool = ms.pool)
    (h1 : ms'.sces = ms.sces) (h2 : ms'.sfes = ms.sfes) (h3 : ms'.fces = ms.fces) (h4 : ms'.v2fces = ms.v2fces) :
    WI T ms' R :=
  ⟨h.li.congr hb he h1 h2 h3 h4, h.fresh.of_lookup hb (fun _ _ => by unfold Mid.lookup; rw [he]), h.num.congr hb hp h2 h3 h4⟩

theorem WI.tail {T} {ms : Mid} {p R} (h : WI T ms (p :: R)) : WI T ms R := ⟨h.li, h.fresh.tail, h.num⟩
theorem WI.drop {T} {ms : Mid} {A R} (h : WI T ms (A ++ R)) : WI T ms R := ⟨h.li, h.fresh.drop_append, h.num⟩
theorem WI.sub {T} {ms : Mid} {R R'} (h : WI T ms R) (hs : R'.Sublist R) : WI T ms R' := ⟨h.li, h.fresh.sublist hs, h.num⟩

theorem KeyOk.elem_id {T} {ms : Mid} {k : Kind} (hK : KeyOk T ms k) {id : Id} {i : Nat} (hT : T k id)
    (hl : ms.lookup id = some i) : (ms.idsOf k)[i]? = some id := hK id i hT hl

-- ------------------------------------------------------------------ `put` and the bundle

theorem putSc_wi {T} {ms : Mid} {R} (hd : TDisj T) (h : WI T ms R) (id : Id) (f : ScDiff → ScDiff)
    (hT : ms.lookup id = none → T .sc id) (hne : ∀ p ∈ R, p.2 ≠ id)
    (hnew : ms.lookup id = none → (f default).spent = false → (f default).e.id = id)
    (hfound : ∀ i d, ms.lookup id = some i → ms.sces[i]? = some d → (f d).spent = false →
      d.spent = false ∧ (f d).e.id = d.e.id) : WI T (ms.putSc id f) R := by
  refine ⟨⟨putSc_live h.li.live id f (fun hn hl => ⟨hnew hn hl, hT hn⟩) hfound,
    putSc_key_other hd (by decide) h.li.key1 id f hT, putSc_key_other hd (by decide) h.li.key2 id f hT, ?_, ?_⟩, ?_, ?_⟩
  · rw [putSc_v2fces_w, putSc_base_w]; exact h.li.nc
  · rw [putSc_fces_w]; exact h.li.bal
  · exact h.fresh.of_lookup (putSc_base_w _ _ _) (fun p hp => putSc_lookup_ne (hne p hp))
  · exact h.num.congr (putSc_base_w _ _ _) (putSc_pool_w _ _ _) (putSc_sfes_w _ _ _) (putSc_fces_w _ _ _) (putSc_v2fces_w _ _ _)

theorem putSf_wi {T} {ms : Mid} {R} (hd : TDisj T) (h : WI T ms R) (id : Id) (f : SfDiff → SfDiff)
    (hT : ms.lookup id = none → T .sf id) (hne : ∀ p ∈ R, p.2 ≠ id)
    (hnew : ms.lookup id = none → ((f default).spent = false → (f default).e.id = id) ∧ SfP ms.pool (f default))
    (hfound : ∀ i d, ms.lookup id = some i → ms.sfes[i]? = some d → SfP ms.pool d →
      ((f d).spent = false → d.spent = false ∧ (f d).e.id = d.e.id) ∧ SfP ms.pool (f d)) : WI T (ms.putSf id f) R := by
  refine ⟨⟨putSf_live h.li.live id f (fun hn hl => ⟨(hnew hn).1 hl, hT hn⟩)
      (fun i d hi hd => (hfound i d hi hd (h.num.sf d (List.mem_of_getElem? hd))).1),
    putSf_key_other hd (by decide) h.li.key1 id f hT, putSf_key_other hd (by decide) h.li.key2 id f hT, ?_, ?_⟩, ?_, ?_⟩
  · rw [putSf_v2fces_w, putSf_base_w]; exact h.li.nc
  · rw [putSf_fces_w]; exact h.li.bal
  · exact h.fresh.of_lookup (putSf_base_w _ _ _) (fun p hp => putSf_lookup_ne (hne p hp))
  · refine ⟨?_, by rw [putSf_fces_w]; exact h.num.fc1, by rw [putSf_v2fces_w]; exact h.num.fc2,
      by rw [putSf_pool_w, putSf_base_w]; exact h.num.lo, by rw [putSf_pool_w]; exact h.num.hi⟩
    rw [putSf_pool_w]
    exact putSf_forall' ms id f h.num.sf (fun i d hi hd hP => (hfound i d hi hd hP).2) (fun hn => (hnew hn).2)

theorem KeyOk.at {T} {ms : Mid} {k : Kind} (hK : KeyOk T ms k) {id : Id} {i : Nat} (hT : T k id)
    (hl : ms.lookup id = some i) : (ms.idsOf k)[i]? = some id := hK id i hT hl

theorem putFc1_wi {T} {ms : Mid} {R} (hd : TDisj T) (h : WI T ms R) (id : Id) (f : Fc1Diff → Fc1Diff)
    (hT : T .fc1 id) (hne : ∀ p ∈ R, p.2 ≠ id)
    (hnew : ms.lookup id = none → (f default).e.id = id ∧ BalP (f default) ∧ Fc1P (f default))
    (hfound : ∀ d ∈ ms.fces, d.e.id = id → BalP d → Fc1P d →
      (f d).e.id = id ∧ ((f d).resolved = false → d.resolved = false) ∧ BalP (f d) ∧ Fc1P (f d)) :
    WI T (ms.putFc1 id f) R := by
  have hk : ∀ i d, ms.lookup id = some i → ms.fces[i]? = some d → d ∈ ms.fces ∧ d.e.id = id := by
    intro i d hi hdi
    have := h.li.key1 id i hT hi
    simp only [Mid.idsOf, Mid.fc1Ids, List.getElem?_map, hdi, Option.map_some] at this
    exact ⟨List.mem_of_getElem? hdi, Option.some.inj this⟩
  have hf : ∀ i d, ms.lookup id = some i → ms.fces[i]? = some d →
      (f d).e.id = id ∧ ((f d).resolved = false → d.resolved = false) ∧ BalP (f d) ∧ Fc1P (f d) ∧ d.e.id = id := by
    intro i d hi hdi
    obtain ⟨hm, he⟩ := hk i d hi hdi
    obtain ⟨a, b, c, e⟩ := hfound d hm he (h.li.bal d hm) (h.num.fc1 d hm)
    exact ⟨a, b, c, e, he⟩
  refine ⟨⟨putFc1_live h.li.live id f (fun hn _ => ⟨(hnew hn).1, hT⟩)
      (fun i d hi hdi hl => by obtain ⟨a, b, _, _, e⟩ := hf i d hi hdi; exact ⟨b hl, a.trans e.symm⟩),
    putFc1_key_self h.li.key1 id f (fun hn => (hnew hn).1)
      (fun i d hi hdi => by obtain ⟨a, _, _, _, e⟩ := hf i d hi hdi; exact a.trans e.symm),
    putFc1_key_other hd (by decide) h.li.key2 id f (fun _ => hT), ?_, ?_⟩, ?_, ?_⟩
  · rw [putFc1_v2fces_w, putFc1_base_w]; exact h.li.nc
  · exact putFc1_forall' ms id f h.li.bal (fun i d hi hdi _ => (hf i d hi hdi).2.2.1) (fun hn => (hnew hn).2.1)
  · exact h.fresh.of_lookup (putFc1_base_w _ _ _) (fun p hp => putFc1_lookup_ne (hne p hp))
  · refine ⟨by rw [putFc1_pool_w, putFc1_sfes_w]; exact h.num.sf, ?_, by rw [putFc1_v2fces_w]; exact h.num.fc2,
      by rw [putFc1_pool_w, putFc1_base_w]; exact h.num.lo, by rw [putFc1_pool_w]; exact h.num.hi⟩
    exact putFc1_forall' ms id f h.num.fc1 (fun i d hi hdi _ => (hf i d hi hdi).2.2.2.1) (fun hn => (hnew hn).2.2)

theorem putFc2_wi {T} {ms : Mid} {R} (hd : TDisj T) (h : WI T ms R) (id : Id) (f : Fc2Diff → Fc2Diff)
    (hT : T .fc2 id) (hne : ∀ p ∈ R, p.2 ≠ id)
    (hnew : ms.lookup id = none → (f default).e.id = id ∧ NcP ms.base (f default) ∧ Fc2P (f default))
    (hfound : ∀ d ∈ ms.v2fces, d.e.id = id → NcP ms.base d → Fc2P d →
      (f d).e.id = id ∧ ((f d).resolution.isNone = true → d.resolution.isNone = true) ∧ NcP ms.base (f d) ∧ Fc2P (f d)) :
    WI T (ms.putFc2 id f) R := by
  have hk : ∀ i d, ms.lookup id = some i → ms.v2fces[i]? = some d → d ∈ ms.v2fces ∧ d.e.id = id := by
    intro i d hi hdi
    have := h.li.key2 id i hT hi
    simp only [Mid.idsOf, Mid.fc2Ids, List.getElem?_map, hdi, Option.map_some] at this
    exact ⟨List.mem_of_getElem? hdi, Option.some.inj this⟩
  have hf : ∀ i d, ms.lookup id = some i → ms.v2fces[i]? = some d →
      (f d).e.id = id ∧ ((f d).resolution.isNone = true → d.resolution.isNone = true) ∧ NcP ms.base (f d) ∧ Fc2P (f d) ∧
      d.e.id = id := by
    intro i d hi hdi
    obtain ⟨hm, he⟩ := hk i d hi hdi
    obtain ⟨a, b, c, e⟩ := hfound d hm he (h.li.nc d hm) (h.num.fc2 d hm)
    exact ⟨a, b, c, e, he⟩
  refine ⟨⟨putFc2_live h.li.live id f (fun hn _ => ⟨(hnew hn).1, hT⟩)
      (fun i d hi hdi hl => by obtain ⟨a, b, _, _, e⟩ := hf i d hi hdi; exact ⟨b hl, a.trans e.symm⟩),
    putFc2_key_other hd (by decide) h.li.key1 id f (fun _ => hT),
    putFc2_key_self h.li.key2 id f (fun hn => (hnew hn).1)
      (fun i d hi hdi => by obtain ⟨a, _, _, _, e⟩ := hf i d hi hdi; exact a.trans e.symm), ?_, ?_⟩, ?_, ?_⟩
  · rw [putFc2_base_w]
    exact putFc2_forall' ms id f h.li.nc (fun i d hi hdi _ => (hf i d hi hdi).2.2.1) (fun hn => (hnew hn).2.1)
  · rw [putFc2_fces_w]; exact h.li.bal
  · exact h.fresh.of_lookup (putFc2_base_w _ _ _) (fun p hp => putFc2_lookup_ne (hne p hp))
  · refine ⟨by rw [putFc2_pool_w, putFc2_sfes_w]; exact h.num.sf, by rw [putFc2_fces_w]; exact h.num.fc1, ?_,
      by rw [putFc2_pool_w, putFc2_base_w]; exact h.num.lo, by rw [putFc2_pool_w]; exact h.num.hi⟩
    exact putFc2_forall' ms id f h.num.fc2 (fun i d hi hdi _ => (hf i d hi hdi).2.2.2.1) (fun hn => (hnew hn).2.2)

-- ------------------------------------------------------------------ primitives

/-- the base ledger is kept and keys of the index are never removed -/
def Ext (ms ms' : Mid) : Prop := ms'.base = ms.base ∧ ∀ x, ms.lookup x ≠ none → ms'.lookup x ≠ none

theorem Ext.refl (ms : Mid) : Ext ms ms := ⟨rfl, fun _ h => h⟩
theorem Ext.trans {a b c : Mid} (h1 : Ext a b) (h2 : Ext b c) : Ext a c :=
  ⟨h2.1.trans h1.1, fun x h => h2.2 x (h1.2 x h)⟩

theorem putSc_ext (ms : Mid) (id : Id) (f : ScDiff → ScDiff) : Ext ms (ms.putSc id f) :=
  ⟨putSc_base_w _ _ _, fun x b => by
    cases hlk : ms.lookup x with
    | none => exact absurd hlk b
    | some j => rw [putSc_lookup_mono hlk]; simp⟩
theorem putSf_ext (ms : Mid) (id : Id) (f : SfDiff → SfDiff) : Ext ms (ms.putSf id f) :=
  ⟨putSf_base_w _ _ _, fun x b => by
    cases hlk : ms.lookup x with
    | none => exact absurd hlk b
    | some j => rw [putSf_lookup_mono hlk]; simp⟩
theorem putFc1_ext (ms : Mid) (id : Id) (f : Fc1Diff → Fc1Diff) : Ext ms (ms.putFc1 id f) :=
  ⟨putFc1_base_w _ _ _, fun x b => by
    cases hlk : ms.lookup x with
    | none => exact absurd hlk b
    | some j => rw [putFc1_lookup_mono hlk]; simp⟩
theorem putFc2_ext (ms : Mid) (id : Id) (f : Fc2Diff → Fc2Diff) : Ext ms (ms.putFc2 id f) :=
  ⟨putFc2_base_w _ _ _, fun x b => by
    cases hlk : ms.lookup x with
    | none => exact absurd hlk b
    | some j => rw [putFc2_lookup_mono hlk]; simp⟩

theorem spendSc_wi {T} {ms : Mid} {R} (hc : Ctx T ms.base) (h : WI T ms R) (e : ScElem)
    (hk : ms.lookup e.id ≠ none ∨ e.id ∈ baseIds ms.base .sc) :
    WI T (ms.spendSc e) R ∧ Ext ms (ms.spendSc e) ∧ (ms.spendSc e).pool = ms.pool := by
  have hT : ms.lookup e.id = none → T .sc e.id := fun hn => by
    rcases hk with h1 | h1
    · exact absurd hn h1
    · exact hc.base _ _ h1
  have hne : ∀ p ∈ R, p.2 ≠ e.id := by
    rcases hk with h1 | h1
    · exact h.fresh.ne_of_lookup h1
    · exact h.fresh.ne_of_base h1
  have hput := putSc_wi hc.disj h e.id (fun d => { d with e := e, spent := true }) hT hne
    (fun _ hl => by simp at hl) (fun _ _ _ _ hl => by simp at hl)
  exact ⟨hput.congr rfl rfl rfl rfl rfl rfl rfl, putSc_ext _ _ _, putSc_pool_w _ _ _⟩

theorem createSc_wi {T} {ms : Mid} {R} (hc : Ctx T ms.base) {id : Id} (h : WI T ms ((Kind.sc, id) :: R)) (o : ScOut) (m : Nat) :
    WI T (ms.createSc id o m) R ∧ Ext ms (ms.createSc id o m) ∧ (ms.createSc id o m).pool = ms.pool := by
  obtain ⟨hT, hn, _⟩ := h.fresh.2 _ List.mem_cons_self
  have hput := putSc_wi hc.disj h.tail id
    (fun d => { d with e := { id := id, value := o.value, addr := o.addr, maturity := m, leaf := none }, created := true })
    (fun _ => hT) (fun p hp => h.fresh.head_not_mem p hp) (fun _ _ => rfl) (fun i d hi => by rw [hn] at hi; cases hi)
  exact ⟨hput, putSc_ext _ _ _, putSc_pool_w _ _ _⟩

theorem createImm_wi {T} {ms : Mid} {R} (hc : Ctx T ms.base) {id : Id} (h : WI T ms ((Kind.sc, id) :: R)) (o : ScOut) :
    WI T (ms.createImmatureSc id o) R ∧ Ext ms (ms.createImmatureSc id o) ∧
    (ms.createImmatureSc id o).pool = ms.pool := createSc_wi hc h o _

theorem spendSf_wi {T} {ms : Mid} {R} (hc : Ctx T ms.base) (h : WI T ms R) (e : SfElem)
    (hk : ms.lookup e.id ≠ none ∨ e.id ∈ baseIds ms.base .sf) :
    WI T (ms.spendSf e) R ∧ Ext ms (ms.spendSf e) ∧ (ms.spendSf e).pool = ms.pool := by
  have hT : ms.lookup e.id = none → T .sf e.id := fun hn => by
    rcases hk with h1 | h1
    · exact absurd hn h1
    · exact hc.base _ _ h1
  have hne : ∀ p ∈ R, p.2 ≠ e.id := by
    rcases hk with h1 | h1
    · exact h.fresh.ne_of_lookup h1
    · exact h.fresh.ne_of_base h1
  have hput := putSf_wi hc.disj h e.id (fun d => { d with e := e, spent := true }) hT hne
    (fun _ => ⟨fun hl => by simp at hl, fun hl => by simp at hl⟩)
    (fun _ _ _ _ _ => ⟨fun hl => by simp at hl, fun hl => by simp at hl⟩)
  exact ⟨hput.congr rfl rfl rfl rfl rfl rfl rfl, putSf_ext _ _ _, putSf_pool_w _ _ _⟩

theorem createSf_wi {T} {ms : Mid} {R} (hc : Ctx T ms.base) {id : Id} (h : WI T ms ((Kind.sf, id) :: R)) (v : Nat) (a : Addr)
    (hv : v ≤ 10000) :
    WI T (ms.createSf id v a) R ∧ Ext ms (ms.createSf id v a) ∧ (ms.createSf id v a).pool = ms.pool := by
  obtain ⟨hT, hn, _⟩ := h.fresh.2 _ List.mem_cons_self
  have hput := putSf_wi hc.disj h.tail id
    (fun d => { d with e := { id := id, value := v, addr := a, claimStart := ms.pool, leaf := none }, created := true })
    (fun _ => hT) (fun p hp => h.fresh.head_not_mem p hp) (fun _ => ⟨fun _ => rfl, fun _ => ⟨Nat.le_refl _, hv⟩⟩)
    (fun i d hi => by rw [hn] at hi; cases hi)
  exact ⟨hput, putSf_ext _ _ _, putSf_pool_w _ _ _⟩

theorem default_fc2P : Fc2P (default : Fc2Diff) := ⟨by decide, fun r hr => by cases hr⟩

theorem createFc2_wi {T} {ms : Mid} {R} (hc : Ctx T ms.base) {id : Id} (h : WI T ms ((Kind.fc2, id) :: R)) (fc : Fc2)
    (hv : fc.val < curLimit) (hp : ms.pool + fc.val / 25 < curLimit) :
    ∃ ms', ms.createFc2 id fc = .ok ms' ∧ WI T ms' R ∧ Ext ms ms' ∧ ms'.pool = ms.pool + fc.val / 25 := by
  obtain ⟨hT, hn, hb⟩ := h.fresh.2 _ List.mem_cons_self
  have hput := putFc2_wi hc.disj h.tail id (fun d => { d with e := { id := id, fc := fc, leaf := none }, created := true })
    hT (fun p hp => h.fresh.head_not_mem p hp)
    (fun _ => ⟨rfl, fun _ => hb _, hv, fun r hr => by cases hr⟩)
    (fun d _ _ _ hP => ⟨rfl, fun hl => hl, fun _ => hb _, hv, hP.2⟩)
  unfold Mid.createFc2 v2Tax
  simp only []
  unfold Fc2.val at hv hp
  have e1 : addC fc.renter.value fc.host.value = .ok (fc.renter.value + fc.host.value) := addC_ok.mpr ⟨hv, rfl⟩
  rw [e1]
  simp only [bind, Except.bind, pure, Except.pure]
  have e2 : addC (ms.putFc2 id fun d => { d with e := { id := id, fc := fc, leaf := none }, created := true }).pool
      ((fc.renter.value + fc.host.value) / 25) = .ok (ms.pool + (fc.renter.value + fc.host.value) / 25) := by
    rw [putFc2_pool_w]; exact addC_ok.mpr ⟨hp, rfl⟩
  rw [e2]
  refine ⟨_, rfl, ⟨hput.li.congr rfl rfl rfl rfl rfl rfl, hput.fresh.of_lookup rfl (fun _ _ => rfl), ?_⟩, putFc2_ext _ _ _, rfl⟩
  exact hput.num.pool rfl (by show (ms.putFc2 id _).pool ≤ ms.pool + _; rw [putFc2_pool_w]; exact Nat.le_add_right _ _) hp rfl rfl rfl

theorem mem_base_fc2 {L : Ledger} {e : Fc2Elem} (h : L.hasFc2 e = true) : e ∈ L.fc2 ∧ e.id ∈ baseIds L .fc2 := by
  have : e ∈ L.fc2 := by unfold Ledger.hasFc2 at h; exact List.contains_iff_mem.mp h
  exact ⟨this, List.mem_map_of_mem this⟩

theorem reviseFc2_wi {T} {ms : Mid} {R} (hc : Ctx T ms.base) (h : WI T ms R) (e : Fc2Elem) (rev : Fc2)
    (he : e ∈ ms.base.fc2) (hev : e.fc.val < curLimit) (hrv : rev.val < curLimit) :
    WI T (ms.reviseFc2 e rev) R ∧ Ext ms (ms.reviseFc2 e rev) ∧ (ms.reviseFc2 e rev).pool = ms.pool := by
  have hid : e.id ∈ baseIds ms.base .fc2 := List.mem_map_of_mem he
  refine ⟨?_, putFc2_ext _ _ _, putFc2_pool_w _ _ _⟩
  unfold Mid.reviseFc2
  refine putFc2_wi hc.disj h e.id _ (hc.base _ _ hid) (h.fresh.ne_of_base hid) ?_ ?_
  · intro _
    show _ = e.id ∧ NcP ms.base { (default : Fc2Diff) with e := e, revision := some rev } ∧
      Fc2P { (default : Fc2Diff) with e := e, revision := some rev }
    refine ⟨rfl, fun hcr => absurd (show false = true from hcr) Bool.false_ne_true, ⟨hev, fun r hr => ?_⟩⟩
    cases hr; exact hrv
  · intro d _ hde hN hP
    by_cases h1 : d.created = true
    · rw [if_pos h1]
      exact ⟨hde, fun hl => hl, fun _ => hN h1, ⟨hrv, hP.2⟩⟩
    · rw [if_neg h1]
      by_cases h2 : d.revision.isSome = true
      · rw [if_pos h2]
        exact ⟨hde, fun hl => hl, fun hcr => absurd hcr h1, ⟨hP.1, fun r hr => by cases hr; exact hrv⟩⟩
      · rw [if_neg h2]
        exact ⟨rfl, fun hl => hl, fun hcr => absurd hcr h1, ⟨hev, fun r hr => by cases hr; exact hrv⟩⟩

theorem resolveFc2_wi {T} {ms : Mid} {R} (hc : Ctx T ms.base) (h : WI T ms R) (e : Fc2Elem) (k : ResKind)
    (he : e ∈ ms.base.fc2) (hev : e.fc.val < curLimit) :
    ∃ ms', ms.resolveFc2 e k = .ok ms' ∧ WI T ms' R ∧ Ext ms ms' ∧ ms'.pool = ms.pool := by
  have hid : e.id ∈ baseIds ms.base .fc2 := List.mem_map_of_mem he
  have hput : WI T (ms.putFc2 e.id fun d => { d with e := e, resolution := some k }) R := by
    refine putFc2_wi hc.disj h e.id _ (hc.base _ _ hid) (h.fresh.ne_of_base hid) ?_ ?_
    · intro _
      exact ⟨rfl, fun hcr => absurd (show false = true from hcr) Bool.false_ne_true, ⟨hev, fun r hr => by cases hr⟩⟩
    · intro d _ hde hN hP
      refine ⟨rfl, fun hl => (by cases hl), fun hcr => ?_, ⟨hev, hP.2⟩⟩
      exact absurd (hde ▸ hid) (hN hcr)
  have hres : ∀ m : Mid, m = { (ms.putFc2 e.id fun d => { d with e := e, resolution := some k }) with
      spends := e.id :: (ms.putFc2 e.id fun d => { d with e := e, resolution := some k }).spends } →
      WI T m R ∧ Ext ms m ∧ m.pool = ms.pool := by
    intro m hm; subst hm
    exact ⟨hput.congr rfl rfl rfl rfl rfl rfl rfl, putFc2_ext _ _ _, putFc2_pool_w _ _ _⟩
  unfold Mid.resolveFc2
  cases hlk : ms.lookup e.id with
  | none => exact ⟨_, rfl, hres _ rfl⟩
  | some i =>
    simp only []
    have hk := h.li.key2 e.id i (hc.base _ _ hid) hlk
    simp only [Mid.idsOf, Mid.fc2Ids, List.getElem?_map] at hk
    cases hdi : ms.v2fces[i]? with
    | none => rw [hdi] at hk; cases hk
    | some d =>
      rw [hdi] at hk
      have hde : d.e.id = e.id := Option.some.inj hk
      have hgd : ms.v2fces.getD i default = d := by rw [List.getD_eq_getElem?_getD, hdi]; rfl
      have hncr : d.created = false := by
        cases hcr : d.created with
        | false => rfl
        | true => exact absurd (hde ▸ hid) (h.li.nc d (List.mem_of_getElem? hdi) hcr)
      rw [hgd, hncr]
      exact ⟨_, rfl, hres _ rfl⟩

theorem resolveFc1_wi {T} {ms : Mid} {R} (hc : Ctx T ms.base) (h : WI T ms R) (e : Fc1Elem) (v : Bool)
    (he : e ∈ ms.base.fc1) (hev : sumVals e.fc.valid < curLimit ∧ sumVals e.fc.missed < curLimit) :
    WI T (ms.resolveFc1 e v) R ∧ Ext ms (ms.resolveFc1 e v) ∧ (ms.resolveFc1 e v).pool = ms.pool := by
  have hid : e.id ∈ baseIds ms.base .fc1 := List.mem_map_of_mem he
  have hput : WI T (ms.putFc1 e.id fun d =>
      if d.revision.isSome then { d with resolved := true, valid := v } else { d with e := e, resolved := true, valid := v }) R := by
    refine putFc1_wi hc.disj h e.id _ (hc.base _ _ hid) (h.fresh.ne_of_base hid) ?_ ?_
    · intro _
      show _ = e.id ∧ BalP { (default : Fc1Diff) with e := e, resolved := true, valid := v } ∧
        Fc1P { (default : Fc1Diff) with e := e, resolved := true, valid := v }
      exact ⟨rfl, fun hr => (by cases hr), hev⟩
    · intro d _ hde hB hP
      by_cases h2 : d.revision.isSome = true
      · rw [if_pos h2]
        exact ⟨hde, fun hl => (by cases hl), fun hr => (by cases hr), hP⟩
      · rw [if_neg h2]
        refine ⟨rfl, fun hl => (by cases hl), fun hr => (by cases hr), ?_⟩
        have hn : d.revision = none := by
          cases hr : d.revision with
          | none => rfl
          | some r => rw [hr] at h2; exact absurd rfl h2
        unfold Fc1P Fc1Diff.current; simp only [hn]; exact hev
  exact ⟨hput.congr rfl rfl rfl rfl rfl rfl rfl, putFc1_ext _ _ _, putFc1_pool_w _ _ _⟩

-- ------------------------------------------------------------------ folds that return and keep an invariant

theorem foldlM_ok_inv {α β : Type} (f : β → α → VM β) (I : β → List α → Prop)
    (step : ∀ b a rest, I b (a :: rest) → ∃ b', f b a = .ok b' ∧ I b' rest) :
    ∀ (l : List α) (b : β), I b l → ∃ b', l.foldlM f b = .ok b' ∧ I b' [] := by
  intro l
  induction l with
  | nil => intro b h; exact ⟨b, rfl, h⟩
  | cons a l ih =>
    intro b h
    obtain ⟨b1, h1, h2⟩ := step b a l h
    obtain ⟨b2, h3, h4⟩ := ih b1 h2
    exact ⟨b2, by rw [List.foldlM_cons, h1]; exact h3, h4⟩

-- ------------------------------------------------------------------ what validation says about v2 inputs

/-- the parent of an accepted v2 input is a key of the index (ephemeral) or an element of the ledger -/
def Known (ms : Mid) (k : Kind) (id : Id) : Prop := ms.lookup id ≠ none ∨ id ∈ baseIds ms.base k

theorem Known.ext {ms ms' : Mid} {k : Kind} {id : Id} (h : Known ms k id) (hx : Ext ms ms') : Known ms' k id := by
  rcases h with h | h
  · exact Or.inl (hx.2 _ h)
  · exact Or.inr (by rw [hx.1]; exact h)

theorem known_of_ScIn2Ok {ms : Mid} {sci : ScIn2} (h : ScIn2Ok ms sci) : Known ms .sc sci.parent.id := by
  obtain ⟨_, _, h3⟩ := h
  cases hl : sci.parent.leaf with
  | none =>
    rw [hl] at h3; simp only [] at h3
    left; intro hn
    unfold validateEphemeralSc at h3; rw [hn] at h3; cases h3
  | some _ =>
    rw [hl] at h3; simp only [] at h3
    right; unfold Ledger.hasSc at h3
    exact List.mem_map_of_mem (List.contains_iff_mem.mp h3)

/-- the claim of an accepted v2 siafund input is computable at pool `p` -/
def ClaimOk (p : Cur) (sfi : SfIn2) : Prop :=
  sfi.parent.claimStart ≤ p ∧ (p - sfi.parent.claimStart) / 10000 * sfi.parent.value < curLimit

theorem claim_of_SfIn2Ok {ms : Mid} {sfi : SfIn2} (hN : NumL ms.base) (hn : Num ms) (h : SfIn2Ok ms sfi) :
    Known ms .sf sfi.parent.id ∧ ClaimOk ms.pool sfi := by
  obtain ⟨_, h3⟩ := h
  cases hl : sfi.parent.leaf with
  | none =>
    rw [hl] at h3; simp only [] at h3
    unfold validateEphemeralSf at h3
    cases hlk : ms.lookup sfi.parent.id with
    | none => rw [hlk] at h3; cases h3
    | some j =>
      rw [hlk] at h3; simp only [] at h3
      refine ⟨Or.inl (by rw [hlk]; simp), ?_⟩
      split at h3
      · cases h3
      · split at h3
        · cases h3
        · split at h3
          · cases h3
          · rename_i hcs
            split at h3
            · cases h3
            · rename_i hpr
              unfold siafundCount at hpr
              exact ⟨Nat.le_of_not_lt hcs, Nat.lt_of_not_le hpr⟩
  | some _ =>
    rw [hl] at h3; simp only [] at h3
    unfold Ledger.hasSf at h3
    have hm : sfi.parent ∈ ms.base.sf := List.contains_iff_mem.mp h3
    refine ⟨Or.inr (List.mem_map_of_mem hm), ?_⟩
    obtain ⟨a, b⟩ := hN.sf _ hm
    have hlo := hn.lo
    have hhi := hn.hi
    refine ⟨Nat.le_trans a hlo, ?_⟩
    have a1 : (ms.pool - sfi.parent.claimStart) / 10000 * sfi.parent.value ≤ (ms.pool - sfi.parent.claimStart) / 10000 * 10000 :=
      Nat.mul_le_mul_left _ b
    have a2 : (ms.pool - sfi.parent.claimStart) / 10000 * 10000 ≤ ms.pool - sfi.parent.claimStart := Nat.div_mul_le_self _ _
    have a3 : ms.pool - sfi.parent.claimStart ≤ ms.pool := Nat.sub_le _ _
    unfold Cur at *; omega

-- ------------------------------------------------------------------ the loops of a v2 transaction

theorem weak_scIns2 {T} {ms0 : Mid} {R} (hc : Ctx T ms0.base) (l : List ScIn2) (h : WI T ms0 R)
    (hk : ∀ sci ∈ l, Known ms0 .sc sci.parent.id) :
    ∃ ms', l.foldlM stepScIn2 ms0 = .ok ms' ∧ WI T ms' R ∧ Ext ms0 ms' ∧ ms'.pool = ms0.pool := by
  obtain ⟨ms', h1, h2⟩ := foldlM_ok_inv stepScIn2
    (fun ms rest => WI T ms R ∧ Ext ms0 ms ∧ ms.pool = ms0.pool ∧ ∀ sci ∈ rest, Known ms0 .sc sci.parent.id)
    (by
      rintro ms a rest ⟨hw, hx, hp, hks⟩
      obtain ⟨w, x, p⟩ := spendSc_wi (by rw [hx.1]; exact hc) hw a.parent ((hks a List.mem_cons_self).ext hx)
      exact ⟨_, rfl, w, hx.trans x, p.trans hp, fun s hs => hks s (List.mem_cons_of_mem _ hs)⟩)
    l ms0 ⟨h, Ext.refl _, rfl, hk⟩
  exact ⟨ms', h1, h2.1, h2.2.1, h2.2.2.1⟩

theorem weak_scOuts {T} {ms0 : Mid} {R} (hc : Ctx T ms0.base) (l : List (Id × ScOut))
    (h : WI T ms0 (l.map (fun x => (Kind.sc, x.1)) ++ R)) :
    ∃ ms', l.foldlM stepScOut ms0 = .ok ms' ∧ WI T ms' R ∧ Ext ms0 ms' ∧ ms'.pool = ms0.pool := by
  obtain ⟨ms', h1, h2⟩ := foldlM_ok_inv stepScOut
    (fun ms rest => WI T ms (rest.map (fun x => (Kind.sc, x.1)) ++ R) ∧ Ext ms0 ms ∧ ms.pool = ms0.pool)
    (by
      rintro ms a rest ⟨hw, hx, hp⟩
      simp only [List.map_cons, List.cons_append] at hw
      obtain ⟨w, x, p⟩ := createSc_wi (by rw [hx.1]; exact hc) hw a.2 0
      exact ⟨_, rfl, w, hx.trans x, p.trans hp⟩)
    l ms0 ⟨h, Ext.refl _, rfl⟩
  exact ⟨ms', h1, h2.1, h2.2.1, h2.2.2⟩

theorem weak_sfIns2 {T} {ms0 : Mid} {R} (hc : Ctx T ms0.base) (l : List SfIn2)
    (h : WI T ms0 (l.map (fun i => (Kind.sc, i.claimId)) ++ R))
    (hk : ∀ sfi ∈ l, Known ms0 .sf sfi.parent.id ∧ ClaimOk ms0.pool sfi) :
    ∃ ms', l.foldlM stepSfIn2 ms0 = .ok ms' ∧ WI T ms' R ∧ Ext ms0 ms' ∧ ms'.pool = ms0.pool := by
  obtain ⟨ms', h1, h2⟩ := foldlM_ok_inv stepSfIn2
    (fun ms rest => WI T ms (rest.map (fun i => (Kind.sc, i.claimId)) ++ R) ∧ Ext ms0 ms ∧ ms.pool = ms0.pool ∧
      ∀ sfi ∈ rest, Known ms0 .sf sfi.parent.id ∧ ClaimOk ms0.pool sfi)
    (by
      rintro ms a rest ⟨hw, hx, hp, hks⟩
      simp only [List.map_cons, List.cons_append] at hw
      have hc' : Ctx T ms.base := by rw [hx.1]; exact hc
      obtain ⟨hka, hca⟩ := hks a List.mem_cons_self
      obtain ⟨w1, x1, p1⟩ := spendSf_wi hc' hw a.parent (hka.ext hx)
      have hcl : claimPortion (ms.spendSf a.parent).pool a.parent.claimStart a.parent.value =
          .ok ((ms0.pool - a.parent.claimStart) / 10000 * a.parent.value) := by
        rw [p1, hp]; exact claimPortion_ok.mpr ⟨hca.1, hca.2, rfl⟩
      obtain ⟨w2, x2, p2⟩ := createImm_wi (by rw [x1.1]; exact hc') w1
        { value := (ms0.pool - a.parent.claimStart) / 10000 * a.parent.value, addr := a.claimAddr }
      refine ⟨_, by unfold stepSfIn2; rw [hcl]; rfl, w2, hx.trans (x1.trans x2), (p2.trans p1).trans hp,
        fun s hs => hks s (List.mem_cons_of_mem _ hs)⟩)
    l ms0 ⟨h, Ext.refl _, rfl, hk⟩
  exact ⟨ms', h1, h2.1, h2.2.1, h2.2.2.1⟩

theorem weak_sfOuts {T} {ms0 : Mid} {R} (hc : Ctx T ms0.base) (l : List (Id × Nat × Addr))
    (h : WI T ms0 (l.map (fun x => (Kind.sf, x.1)) ++ R)) (hv : ∀ x ∈ l, x.2.1 ≤ 10000) :
    ∃ ms', l.foldlM stepSfOut ms0 = .ok ms' ∧ WI T ms' R ∧ Ext ms0 ms' ∧ ms'.pool = ms0.pool := by
  obtain ⟨ms', h1, h2⟩ := foldlM_ok_inv stepSfOut
    (fun ms rest => WI T ms (rest.map (fun x => (Kind.sf, x.1)) ++ R) ∧ Ext ms0 ms ∧ ms.pool = ms0.pool ∧
      ∀ x ∈ rest, x.2.1 ≤ 10000)
    (by
      rintro ms a rest ⟨hw, hx, hp, hvs⟩
      simp only [List.map_cons, List.cons_append] at hw
      obtain ⟨w, x, p⟩ := createSf_wi (by rw [hx.1]; exact hc) hw a.2.1 a.2.2 (hvs a List.mem_cons_self)
      exact ⟨_, rfl, w, hx.trans x, p.trans hp, fun s hs => hvs s (List.mem_cons_of_mem _ hs)⟩)
    l ms0 ⟨h, Ext.refl _, rfl, hv⟩
  exact ⟨ms', h1, h2.1, h2.2.1, h2.2.2.1⟩

theorem weak_fcs2 {T} {ms0 : Mid} {R} (hc : Ctx T ms0.base) (l : List (Id × Fc2 × Bool))
    (h : WI T ms0 (l.map (fun x => (Kind.fc2, x.1)) ++ R)) (hv : ∀ x ∈ l, x.2.1.val < curLimit)
    (hp : ms0.pool + (l.map (fun x => x.2.1.val / 25)).sum < curLimit) :
    ∃ ms', l.foldlM stepFc2 ms0 = .ok ms' ∧ WI T ms' R ∧ Ext ms0 ms' ∧
      ms'.pool = ms0.pool + (l.map (fun x => x.2.1.val / 25)).sum := by
  obtain ⟨ms', h1, h2⟩ := foldlM_ok_inv stepFc2
    (fun ms rest => WI T ms (rest.map (fun x => (Kind.fc2, x.1)) ++ R) ∧ Ext ms0 ms ∧
      ms.pool + (rest.map (fun x => x.2.1.val / 25)).sum = ms0.pool + (l.map (fun x => x.2.1.val / 25)).sum ∧
      ∀ x ∈ rest, x.2.1.val < curLimit)
    (by
      rintro ms a rest ⟨hw, hx, hpl, hvs⟩
      simp only [List.map_cons, List.cons_append, List.sum_cons] at hw hpl
      obtain ⟨m1, e1, w, x, p⟩ := createFc2_wi (by rw [hx.1]; exact hc) hw a.2.1 (hvs a List.mem_cons_self)
        (by unfold Cur at *; omega)
      exact ⟨m1, e1, w, hx.trans x, by rw [p]; unfold Cur at *; omega, fun s hs => hvs s (List.mem_cons_of_mem _ hs)⟩)
    l ms0 ⟨h, Ext.refl _, rfl, hv⟩
  refine ⟨ms', h1, h2.1, h2.2.1, ?_⟩
  have := h2.2.2.1
  simp only [List.map_nil, List.sum_nil, Nat.add_zero] at this
  exact this

theorem weak_revs2 {T} {ms0 : Mid} {R} (hc : Ctx T ms0.base) (hN : NumL ms0.base) (l : List Rev2) (h : WI T ms0 R)
    (hk : ∀ r ∈ l, r.parent ∈ ms0.base.fc2 ∧ r.rev.val < curLimit) :
    ∃ ms', l.foldlM stepRev2 ms0 = .ok ms' ∧ WI T ms' R ∧ Ext ms0 ms' ∧ ms'.pool = ms0.pool := by
  obtain ⟨ms', h1, h2⟩ := foldlM_ok_inv stepRev2
    (fun ms rest => WI T ms R ∧ Ext ms0 ms ∧ ms.pool = ms0.pool ∧ ∀ r ∈ rest, r.parent ∈ ms0.base.fc2 ∧ r.rev.val < curLimit)
    (by
      rintro ms a rest ⟨hw, hx, hp, hks⟩
      obtain ⟨hm, hr⟩ := hks a List.mem_cons_self
      obtain ⟨w, x, p⟩ := reviseFc2_wi (by rw [hx.1]; exact hc) hw a.parent a.rev (by rw [hx.1]; exact hm) (hN.fc2 _ hm) hr
      exact ⟨_, rfl, w, hx.trans x, p.trans hp, fun s hs => hks s (List.mem_cons_of_mem _ hs)⟩)
    l ms0 ⟨h, Ext.refl _, rfl, hk⟩
  exact ⟨ms', h1, h2.1, h2.2.1, h2.2.2.1⟩

theorem weak_ress2 {T} {ms0 : Mid} {R} (hc : Ctx T ms0.base) (hN : NumL ms0.base) (l : List Resolution2)
    (h : WI T ms0 (l.flatMap Resolution2.created ++ R))
    (hk : ∀ r ∈ l, r.parent ∈ ms0.base.fc2 ∧ ∀ rn, r.res = .renewal rn → rn.newContract.val < curLimit)
    (hp : ms0.pool + (l.map resTax).sum < curLimit) :
    ∃ ms', l.foldlM stepRes2 ms0 = .ok ms' ∧ WI T ms' R ∧ Ext ms0 ms' ∧ ms'.pool = ms0.pool + (l.map resTax).sum := by
  obtain ⟨ms', h1, h2⟩ := foldlM_ok_inv stepRes2
    (fun ms rest => WI T ms (rest.flatMap Resolution2.created ++ R) ∧ Ext ms0 ms ∧
      ms.pool + (rest.map resTax).sum = ms0.pool + (l.map resTax).sum ∧
      ∀ r ∈ rest, r.parent ∈ ms0.base.fc2 ∧ ∀ rn, r.res = .renewal rn → rn.newContract.val < curLimit)
    (by
      rintro ms a rest ⟨hw, hx, hpl, hks⟩
      simp only [List.flatMap_cons, List.map_cons, List.sum_cons, List.append_assoc] at hw hpl
      obtain ⟨hm, hr⟩ := hks a List.mem_cons_self
      have hc' : Ctx T ms.base := by rw [hx.1]; exact hc
      have hks' : ∀ r ∈ rest, r.parent ∈ ms0.base.fc2 ∧ ∀ rn, r.res = .renewal rn → rn.newContract.val < curLimit :=
        fun s hs => hks s (List.mem_cons_of_mem _ hs)
      unfold stepRes2
      cases hres : a.res with
      | renewal rn =>
        simp only []
        have hcr : Resolution2.created a = [(Kind.fc2, rn.newId), (Kind.sc, a.renterOutId), (Kind.sc, a.hostOutId)] := by
          unfold Resolution2.created; rw [hres]
        have htax : resTax a = rn.newContract.val / 25 := by unfold resTax; rw [hres]
        rw [hcr] at hw; rw [htax] at hpl
        simp only [List.cons_append, List.nil_append] at hw
        obtain ⟨m1, e1, w1, x1, p1⟩ := resolveFc2_wi hc' hw a.parent ResKind.renewal (by rw [hx.1]; exact hm) (hN.fc2 _ hm)
        have hc1 : Ctx T m1.base := by rw [x1.1]; exact hc'
        obtain ⟨m2, e2, w2, x2, p2⟩ := createFc2_wi hc1 w1 rn.newContract (hr rn hres) (by rw [p1]; unfold Cur at *; omega)
        have hc2 : Ctx T m2.base := by rw [x2.1]; exact hc1
        obtain ⟨w3, x3, p3⟩ := createImm_wi hc2 w2 rn.finalRenter
        obtain ⟨w4, x4, p4⟩ := createImm_wi (by rw [x3.1]; exact hc2) w3 rn.finalHost
        rw [e1]; simp only [bind, Except.bind]; rw [e2]
        exact ⟨_, rfl, w4, hx.trans (x1.trans (x2.trans (x3.trans x4))),
          by rw [p4, p3, p2, p1]; unfold Cur at *; omega, hks'⟩
      | proof p q s u =>
        simp only []
        have hcr : Resolution2.created a = [(Kind.sc, a.renterOutId), (Kind.sc, a.hostOutId)] := by
          unfold Resolution2.created; rw [hres]
        have htax : resTax a = 0 := by unfold resTax; rw [hres]
        rw [hcr] at hw; rw [htax] at hpl
        simp only [List.cons_append, List.nil_append] at hw
        obtain ⟨m1, e1, w1, x1, p1⟩ := resolveFc2_wi hc' hw a.parent ResKind.proof (by rw [hx.1]; exact hm) (hN.fc2 _ hm)
        have hc1 : Ctx T m1.base := by rw [x1.1]; exact hc'
        obtain ⟨w3, x3, p3⟩ := createImm_wi hc1 w1 a.parent.fc.renter
        obtain ⟨w4, x4, p4⟩ := createImm_wi (by rw [x3.1]; exact hc1) w3 a.parent.fc.host
        rw [e1]
        exact ⟨_, rfl, w4, hx.trans (x1.trans (x3.trans x4)), by rw [p4, p3, p1]; unfold Cur at *; omega, hks'⟩
      | expiration =>
        simp only []
        have hcr : Resolution2.created a = [(Kind.sc, a.renterOutId), (Kind.sc, a.hostOutId)] := by
          unfold Resolution2.created; rw [hres]
        have htax : resTax a = 0 := by unfold resTax; rw [hres]
        rw [hcr] at hw; rw [htax] at hpl
        simp only [List.cons_append, List.nil_append] at hw
        obtain ⟨m1, e1, w1, x1, p1⟩ := resolveFc2_wi hc' hw a.parent ResKind.expiration (by rw [hx.1]; exact hm) (hN.fc2 _ hm)
        have hc1 : Ctx T m1.base := by rw [x1.1]; exact hc'
        obtain ⟨w3, x3, p3⟩ := createImm_wi hc1 w1 a.parent.fc.renter
        obtain ⟨w4, x4, p4⟩ := createImm_wi (by rw [x3.1]; exact hc1) w3
          { value := a.parent.fc.missedHost, addr := a.parent.fc.host.addr }
        rw [e1]
        exact ⟨_, rfl, w4, hx.trans (x1.trans (x3.trans x4)), by rw [p4, p3, p1]; unfold Cur at *; omega, hks'⟩)
    l ms0 ⟨h, Ext.refl _, rfl, hk⟩
  refine ⟨ms', h1, h2.1, h2.2.1, ?_⟩
  have := h2.2.2.1
  simp only [List.map_nil, List.sum_nil, Nat.add_zero] at this
  exact this

theorem Ext.of_scalars {ms ms' : Mid} (hb : ms'.base = ms.base) (he : ms'.elements = ms.elements) : Ext ms ms' :=
  ⟨hb, fun x h => by unfold Mid.lookup at *; rw [he]; exact h⟩

/-- an accepted v2 transaction is applied without panic and keeps the weak invariant; no hypothesis on the
ephemeral-output height -/
theorem v2txn_weak {T} {ms : Mid} {t : Txn2} {mw : Nat} {R : List (Kind × Id)}
    (hc : Ctx T ms.base) (hN : NumL ms.base) (h : WI T ms (t.created ++ R))
    (hfcv : ∀ x ∈ t.fcs, x.2.1.val < curLimit)
    (hrnv : ∀ r ∈ t.ress, ∀ rn, r.res = .renewal rn → rn.newContract.val < curLimit)
    (hrevv : ∀ r ∈ t.revs, r.rev.val < curLimit)
    (hsfv : ∀ x ∈ t.sfOuts, x.2.1 ≤ 10000)
    (hpool : ms.pool + t.taxes < curLimit)
    (hv : validateV2Transaction ms t mw = .ok ()) :
    ∃ ms', applyV2Transaction ms t = .ok ms' ∧ WI T ms' R ∧ Ext ms ms' ∧ ms'.pool = ms.pool + t.taxes := by
  obtain ⟨hv1, hv2, hv3⟩ := validateV2Transaction_ok hv
  obtain ⟨hsc, _, _⟩ := validateV2Siacoins_ok hv1
  obtain ⟨hsf, _, _⟩ := validateV2Siafunds_ok hv2
  obtain ⟨_, hrevs, _, hress, _⟩ := validateV2FileContracts_ok hv3
  unfold Txn2.created at h
  simp only [List.append_assoc] at h
  unfold Txn2.taxes at hpool ⊢
  -- 1. siacoin inputs
  obtain ⟨ms1, a1, w1, x1, p1⟩ := weak_scIns2 hc t.scIns h (fun sci hs => known_of_ScIn2Ok (hsc sci hs))
  have hc1 : Ctx T ms1.base := by rw [x1.1]; exact hc
  -- 2. siacoin outputs
  obtain ⟨ms2, a2, w2, x2, p2⟩ := weak_scOuts hc1 t.scOuts w1
  have hc2 : Ctx T ms2.base := by rw [x2.1]; exact hc1
  have x02 : Ext ms ms2 := x1.trans x2
  have p02 : ms2.pool = ms.pool := p2.trans p1
  -- 3. siafund inputs
  obtain ⟨ms3, a3, w3, x3, p3⟩ := weak_sfIns2 hc2 t.sfIns w2 (fun sfi hs => by
    obtain ⟨k, c⟩ := claim_of_SfIn2Ok hN h.num (hsf sfi hs)
    exact ⟨k.ext x02, by rw [p02]; exact c⟩)
  have hc3 : Ctx T ms3.base := by rw [x3.1]; exact hc2
  -- 4. siafund outputs
  obtain ⟨ms4, a4, w4, x4, p4⟩ := weak_sfOuts hc3 t.sfOuts w3 hsfv
  have hc4 : Ctx T ms4.base := by rw [x4.1]; exact hc3
  have p04 : ms4.pool = ms.pool := (p4.trans p3).trans p02
  -- 5. contract formations
  obtain ⟨ms5, a5, w5, x5, p5⟩ := weak_fcs2 hc4 t.fcs w4 hfcv (by rw [p04]; unfold Cur at *; omega)
  have hc5 : Ctx T ms5.base := by rw [x5.1]; exact hc4
  have x05 : Ext ms ms5 := x02.trans (x3.trans (x4.trans x5))
  have hN5 : NumL ms5.base := by rw [x05.1]; exact hN
  -- 6. revisions
  obtain ⟨ms6, a6, w6, x6, p6⟩ := weak_revs2 hc5 hN5 t.revs w5 (fun r hr => by
    obtain ⟨_, hb, _⟩ := hrevs r hr
    exact ⟨by rw [x05.1]; exact (mem_base_fc2 hb).1, hrevv r hr⟩)
  have hc6 : Ctx T ms6.base := by rw [x6.1]; exact hc5
  have x06 : Ext ms ms6 := x05.trans x6
  have hN6 : NumL ms6.base := by rw [x06.1]; exact hN
  -- 7. resolutions
  obtain ⟨ms7, a7, w7, x7, p7⟩ := weak_ress2 hc6 hN6 t.ress w6 (fun r hr => by
    obtain ⟨_, _, hb, _⟩ := hress r hr
    exact ⟨by rw [x06.1]; exact (mem_base_fc2 hb).1, hrnv r hr⟩)
    (by rw [p6, p5, p04]; unfold Cur at *; omega)
  obtain ⟨f1, f2, f3, f4, f5, f6, f7, f8⟩ := finish2_fields ms7 t
  refine ⟨finish2 ms7 t, ?_, w7.congr f1 f2 f8 f4 f5 f6 f7, (x06.trans x7).trans (Ext.of_scalars f1 f2), ?_⟩
  · rw [applyV2Transaction_eq_c1, bind_eq_ok]; refine ⟨ms1, a1, ?_⟩
    rw [bind_eq_ok]; refine ⟨ms2, a2, ?_⟩
    rw [bind_eq_ok]; refine ⟨ms3, a3, ?_⟩
    rw [bind_eq_ok]; refine ⟨ms4, a4, ?_⟩
    rw [bind_eq_ok]; refine ⟨ms5, a5, ?_⟩
    rw [bind_eq_ok]; refine ⟨ms6, a6, ?_⟩
    rw [bind_eq_ok]; exact ⟨ms7, a7, rfl⟩
  · rw [f8, p7, p6, p5, p04]; unfold Cur at *; omega

-- ------------------------------------------------------------------ from the full invariant to the weak one

theorem li_of_inv {T} {ms : Mid} (hc : Ctx T ms.base) (hI : Inv T ms) : LI T ms := by
  have hsub : ∀ k, (ms.liveIds k).Sublist (ms.idsOf k) := by
    intro k
    cases k
    · exact (List.filter_sublist (l := ms.sces)).map _
    · exact (List.filter_sublist (l := ms.sfes)).map _
    · exact (List.filter_sublist (l := ms.fces)).map _
    · exact (List.filter_sublist (l := ms.v2fces)).map _
    · exact List.Sublist.refl _
  have hkey : ∀ k, KeyOk T ms k := by
    intro k id i hT hl
    obtain ⟨k', hk'⟩ := hI.struct.kind id i hl
    have : T k' id := hI.struct.typed k' id (List.mem_of_getElem? hk')
    rw [hc.disj _ _ _ hT this]; exact hk'
  refine ⟨⟨?_, fun k => (hsub k).nodup (hI.struct.nodup_ids k)⟩, hkey _, hkey _, fun d hd => (hI.fc2 d hd).1,
    fun d hd hr => ((hI.fc1 d hd).2.2.2 hr).2⟩
  intro k id hid
  have hm := (hsub k).subset hid
  refine ⟨hI.struct.typed k id hm, ?_⟩
  obtain ⟨i, hi, he⟩ := List.mem_iff_getElem.mp hm
  rw [hI.struct.idx k i id (by rw [List.getElem?_eq_getElem hi, he])]; simp

-- ------------------------------------------------------------------ the numeric part through a v1 transaction

theorem fc1P_of_element {ms : Mid} {supp : Supp1} (hn : Num ms) (hN : NumL ms.base) (hs : SuppOk ms.base supp)
    {id : Id} {p : Fc1Elem} (h : ms.fc1Element supp id = some p) :
    sumVals p.fc.valid < curLimit ∧ sumVals p.fc.missed < curLimit := by
  unfold Mid.fc1Element at h
  cases hd : ms.fc1Diff? id with
  | some d =>
    rw [hd] at h; simp only [] at h; cases h
    exact hn.fc1 d (fc1Diff?_mem hd).1
  | none =>
    rw [hd] at h; simp only [] at h
    cases hr : supp.revised.find? (·.id = id) with
    | some e =>
      rw [hr] at h; simp only [] at h; cases h
      exact hN.fc1 _ (hs.rev _ (List.mem_of_find?_eq_some hr))
    | none =>
      rw [hr] at h; simp only [] at h
      cases hp : supp.proofs.find? (·.1.id = id) with
      | none => rw [hp] at h; cases h
      | some q =>
        rw [hp] at h; simp only [Option.map_some] at h; cases h
        exact hN.fc1 _ (hs.proof _ (List.mem_of_find?_eq_some hp))

theorem spendSc_base_w (ms : Mid) (e : ScElem) : (ms.spendSc e).base = ms.base := putSc_base_w _ _ _
theorem createSc_base_w (ms : Mid) (id : Id) (o : ScOut) (m : Nat) : (ms.createSc id o m).base = ms.base := putSc_base_w _ _ _
theorem createImm_base_w (ms : Mid) (id : Id) (o : ScOut) : (ms.createImmatureSc id o).base = ms.base := putSc_base_w _ _ _
theorem spendSf_base_w (ms : Mid) (e : SfElem) : (ms.spendSf e).base = ms.base := putSf_base_w _ _ _
theorem createSf_base_w (ms : Mid) (id : Id) (v : Nat) (a : Addr) : (ms.createSf id v a).base = ms.base := putSf_base_w _ _ _
theorem reviseFc1_base_w (ms : Mid) (e : Fc1Elem) (r : Fc1) : (ms.reviseFc1 e r).base = ms.base := putFc1_base_w _ _ _
theorem resolveFc1_base_w (ms : Mid) (e : Fc1Elem) (v : Bool) : (ms.resolveFc1 e v).base = ms.base := putFc1_base_w _ _ _

theorem num_spendSc {ms : Mid} (h : Num ms) (e : ScElem) : Num (ms.spendSc e) :=
  h.congr (putSc_base_w _ _ _) (putSc_pool_w _ _ _) (putSc_sfes_w _ _ _) (putSc_fces_w _ _ _) (putSc_v2fces_w _ _ _)

theorem num_createSc {ms : Mid} (h : Num ms) (id : Id) (o : ScOut) (m : Nat) : Num (ms.createSc id o m) :=
  h.congr (putSc_base_w _ _ _) (putSc_pool_w _ _ _) (putSc_sfes_w _ _ _) (putSc_fces_w _ _ _) (putSc_v2fces_w _ _ _)

theorem num_payOuts {ms : Mid} (l : List (ScOut × Id)) (h : Num ms) : Num (payOuts ms l) ∧ (payOuts ms l).base = ms.base := by
  unfold payOuts
  induction l generalizing ms with
  | nil => exact ⟨h, rfl⟩
  | cons a l ih =>
    rw [List.foldl_cons]
    obtain ⟨a1, a2⟩ := ih (num_createSc h a.2 a.1 _)
    exact ⟨a1, a2.trans (createImm_base_w _ _ _)⟩

theorem num_spendSf {ms : Mid} (h : Num ms) (e : SfElem) : Num (ms.spendSf e) := by
  have : Num (ms.putSf e.id fun d => { d with e := e, spent := true }) := by
    refine ⟨?_, by rw [putSf_fces_w]; exact h.fc1, by rw [putSf_v2fces_w]; exact h.fc2,
      by rw [putSf_pool_w, putSf_base_w]; exact h.lo, by rw [putSf_pool_w]; exact h.hi⟩
    rw [putSf_pool_w]
    exact putSf_forall ms e.id _ h.sf (fun d _ hl => by simp at hl)
  exact this.congr rfl rfl rfl rfl rfl

theorem num_createSf {ms : Mid} (h : Num ms) (id : Id) (v : Nat) (a : Addr) (hv : v ≤ 10000) : Num (ms.createSf id v a) := by
  unfold Mid.createSf
  refine ⟨?_, by rw [putSf_fces_w]; exact h.fc1, by rw [putSf_v2fces_w]; exact h.fc2,
    by rw [putSf_pool_w, putSf_base_w]; exact h.lo, by rw [putSf_pool_w]; exact h.hi⟩
  rw [putSf_pool_w]
  exact putSf_forall ms id _ h.sf (fun d _ _ => ⟨Nat.le_refl _, hv⟩)

theorem num_createFc1 {ms ms' : Mid} (h : Num ms) (id : Id) (fc : Fc1)
    (hv : sumVals fc.valid < curLimit ∧ sumVals fc.missed < curLimit) (ha : ms.createFc1 id fc = .ok ms') :
    Num ms' ∧ ms'.base = ms.base := by
  unfold Mid.createFc1 at ha
  simp only [] at ha
  rw [bind_eq_ok] at ha
  obtain ⟨p, hp, ha⟩ := ha
  cases ha
  rw [addC_ok, putFc1_pool_w] at hp
  have hput : Num (ms.putFc1 id fun d => { d with e := { id := id, fc := fc, leaf := none }, created := true }) := by
    refine ⟨by rw [putFc1_pool_w, putFc1_sfes_w]; exact h.sf, ?_, by rw [putFc1_v2fces_w]; exact h.fc2,
      by rw [putFc1_pool_w, putFc1_base_w]; exact h.lo, by rw [putFc1_pool_w]; exact h.hi⟩
    refine putFc1_forall' ms id _ h.fc1 (fun i d _ _ hP => ?_) (fun _ => hv)
    unfold Fc1P Fc1Diff.current at hP ⊢
    cases hr : d.revision with
    | none => simp only []; exact hv
    | some r => rw [hr] at hP; simp only [] at hP ⊢; exact hP
  refine ⟨hput.pool rfl (by show (ms.putFc1 id _).pool ≤ p; rw [putFc1_pool_w, hp.2]; exact Nat.le_add_right _ _)
    (by show p < curLimit; rw [hp.2]; exact hp.1) rfl rfl rfl, putFc1_base_w _ _ _⟩

theorem num_reviseFc1 {ms : Mid} (h : Num ms) (e : Fc1Elem) (rev : Fc1)
    (hv : sumVals rev.valid < curLimit ∧ sumVals rev.missed < curLimit) : Num (ms.reviseFc1 e rev) := by
  unfold Mid.reviseFc1
  simp only []
  refine ⟨by rw [putFc1_pool_w, putFc1_sfes_w]; exact h.sf, ?_, by rw [putFc1_v2fces_w]; exact h.fc2,
    by rw [putFc1_pool_w, putFc1_base_w]; exact h.lo, by rw [putFc1_pool_w]; exact h.hi⟩
  have hstep : ∀ d : Fc1Diff, (d.created = true → Fc1P d) → Fc1P
      (if d.created then { d with e := { d.e with fc := { rev with payout := e.fc.payout } } }
        else if d.revision.isSome then { d with revision := some { rev with payout := e.fc.payout } }
        else { d with e := e, revision := some { rev with payout := e.fc.payout } }) := by
    intro d hP
    by_cases h1 : d.created = true
    · rw [if_pos h1]
      have hP := hP h1
      unfold Fc1P Fc1Diff.current at hP ⊢
      cases hr : d.revision with
      | none => simp only []; exact hv
      | some r => rw [hr] at hP; simp only [] at hP ⊢; exact hP
    · rw [if_neg h1]
      by_cases h2 : d.revision.isSome = true
      · rw [if_pos h2]; exact hv
      · rw [if_neg h2]; exact hv
  exact putFc1_forall' ms e.id _ h.fc1 (fun i d _ _ hP => hstep d (fun _ => hP))
    (fun _ => hstep default (fun hcr => absurd (show false = true from hcr) Bool.false_ne_true))

theorem num_resolveFc1 {ms : Mid} (h : Num ms) (e : Fc1Elem) (v : Bool)
    (hv : sumVals e.fc.valid < curLimit ∧ sumVals e.fc.missed < curLimit) : Num (ms.resolveFc1 e v) := by
  have hput : Num (ms.putFc1 e.id fun d =>
      if d.revision.isSome then { d with resolved := true, valid := v } else { d with e := e, resolved := true, valid := v }) := by
    refine ⟨by rw [putFc1_pool_w, putFc1_sfes_w]; exact h.sf, ?_, by rw [putFc1_v2fces_w]; exact h.fc2,
      by rw [putFc1_pool_w, putFc1_base_w]; exact h.lo, by rw [putFc1_pool_w]; exact h.hi⟩
    refine putFc1_forall' ms e.id _ h.fc1 (fun i d _ _ hP => ?_) (fun _ => hv)
    by_cases h2 : d.revision.isSome = true
    · rw [if_pos h2]; exact hP
    · rw [if_neg h2]
      have hn : d.revision = none := by
        cases hr : d.revision with
        | none => rfl
        | some r => rw [hr] at h2; exact absurd rfl h2
      unfold Fc1P Fc1Diff.current; simp only [hn]; exact hv
  exact hput.congr rfl rfl rfl rfl rfl

/-- `Num` is kept by an applied v1 transaction whose created values passed the overflow pre-check -/
theorem v1txn_num {ms ms' : Mid} {t : Txn1} (hn : Num ms) (hN : NumL ms.base) (hs : SuppOk ms.base t.supp)
    (hsfv : ∀ x ∈ t.sfOuts, x.2.1 ≤ 10000)
    (hfcv : ∀ x ∈ t.fcs, sumVals x.2.valid < curLimit ∧ sumVals x.2.missed < curLimit)
    (hrevv : ∀ r ∈ t.revs, sumVals r.fc.valid < curLimit ∧ sumVals r.fc.missed < curLimit)
    (ha : applyTransaction ms t = .ok ms') : Num ms' := by
  rw [applyTransaction_eq_c1] at ha
  rw [bind_eq_ok] at ha; obtain ⟨ms1, a1, ha⟩ := ha
  rw [bind_eq_ok] at ha; obtain ⟨ms2, a2, ha⟩ := ha
  rw [bind_eq_ok] at ha; obtain ⟨ms3, a3, ha⟩ := ha
  rw [bind_eq_ok] at ha; obtain ⟨ms4, a4, ha⟩ := ha
  rw [bind_eq_ok] at ha; obtain ⟨ms5, a5, ha⟩ := ha
  rw [bind_eq_ok] at ha; obtain ⟨ms6, a6, ha⟩ := ha
  rw [bind_eq_ok] at ha; obtain ⟨ms7, a7, ha⟩ := ha
  cases ha
  have b1 := foldlM_inv_c1 (stepScIn1 t.supp) (fun m _ => Num m ∧ m.base = ms.base) (by
    rintro m a rest m' ⟨h1, h2⟩ hst
    unfold stepScIn1 at hst
    cases he : m.scElement t.supp a.parent with
    | none => rw [he] at hst; cases hst
    | some e => rw [he] at hst; cases hst; exact ⟨num_spendSc h1 e, (spendSc_base_w _ _).trans h2⟩) _ _ _ ⟨hn, rfl⟩ a1
  have b2 := foldlM_inv_c1 stepScOut (fun m _ => Num m ∧ m.base = ms.base) (by
    rintro m a rest m' ⟨h1, h2⟩ hst
    cases hst; exact ⟨num_createSc h1 _ _ _, (createSc_base_w _ _ _ _).trans h2⟩) _ _ _ b1 a2
  have b3 := foldlM_inv_c1 (stepSfIn1 t.supp) (fun m _ => Num m ∧ m.base = ms.base) (by
    rintro m a rest m' ⟨h1, h2⟩ hst
    unfold stepSfIn1 at hst
    cases he : m.sfElement t.supp a.parent with
    | none => rw [he] at hst; cases hst
    | some e =>
      rw [he] at hst; simp only [] at hst
      rw [bind_eq_ok] at hst; obtain ⟨c, _, hst⟩ := hst
      cases hst
      exact ⟨num_createSc (num_spendSf h1 e) _ _ _, ((createImm_base_w _ _ _).trans (spendSf_base_w _ _)).trans h2⟩) _ _ _ b2 a3
  have b4 := foldlM_inv_c1 stepSfOut (fun m rest => (Num m ∧ m.base = ms.base) ∧ ∀ x ∈ rest, x.2.1 ≤ 10000) (by
    rintro m a rest m' ⟨⟨h1, h2⟩, h3⟩ hst
    cases hst
    exact ⟨⟨num_createSf h1 _ _ _ (h3 a List.mem_cons_self), (createSf_base_w _ _ _ _).trans h2⟩,
      fun x hx => h3 x (List.mem_cons_of_mem _ hx)⟩) _ _ _ ⟨b3, hsfv⟩ a4
  have b5 := foldlM_inv_c1 stepFc1 (fun m rest => (Num m ∧ m.base = ms.base) ∧
      ∀ x ∈ rest, sumVals x.2.valid < curLimit ∧ sumVals x.2.missed < curLimit) (by
    rintro m a rest m' ⟨⟨h1, h2⟩, h3⟩ hst
    obtain ⟨c1, c2⟩ := num_createFc1 h1 a.1 a.2 (h3 a List.mem_cons_self) hst
    exact ⟨⟨c1, c2.trans h2⟩, fun x hx => h3 x (List.mem_cons_of_mem _ hx)⟩) _ _ _ ⟨b4.1, hfcv⟩ a5
  have b6 := foldlM_inv_c1 (stepRev1 t.supp) (fun m rest => (Num m ∧ m.base = ms.base) ∧
      ∀ r ∈ rest, sumVals r.fc.valid < curLimit ∧ sumVals r.fc.missed < curLimit) (by
    rintro m a rest m' ⟨⟨h1, h2⟩, h3⟩ hst
    unfold stepRev1 at hst
    cases he : m.fc1Element t.supp a.parent with
    | none => rw [he] at hst; cases hst
    | some e =>
      rw [he] at hst; cases hst
      exact ⟨⟨num_reviseFc1 h1 e a.fc (h3 a List.mem_cons_self), (reviseFc1_base_w _ _ _).trans h2⟩,
        fun x hx => h3 x (List.mem_cons_of_mem _ hx)⟩) _ _ _ ⟨b5.1, hrevv⟩ a6
  have b7 := foldlM_inv_c1 (stepProof1 t.supp) (fun m _ => Num m ∧ m.base = ms.base) (by
    rintro m a rest m' ⟨h1, h2⟩ hst
    unfold stepProof1 at hst
    cases he : m.fc1Element t.supp a.parent with
    | none => rw [he] at hst; cases hst
    | some e =>
      rw [he] at hst; cases hst
      have hb := fc1P_of_element h1 (by rw [h2]; exact hN) (by rw [h2]; exact hs) he
      obtain ⟨c1, c2⟩ := num_payOuts (e.fc.valid.zip a.outIds) (num_resolveFc1 h1 e true hb)
      exact ⟨c1, (c2.trans (resolveFc1_base_w _ _ _)).trans h2⟩) _ _ _ b6.1 a7
  obtain ⟨f1, f2, f3, f4, f5, f6, f7, f8⟩ := foundation1_fields ms7 t
  exact b7.1.congr f1 f8 f5 f6 f7

-- ------------------------------------------------------------------ the tail of a block: payouts, subsidy, expirations

theorem payOuts_wi {T} (l : List (ScOut × Id)) : ∀ {ms : Mid} {R : List (Kind × Id)}, Ctx T ms.base →
    WI T ms (l.map (fun x => (Kind.sc, x.2)) ++ R) →
    WI T (payOuts ms l) R ∧ Ext ms (payOuts ms l) ∧ (payOuts ms l).pool = ms.pool := by
  induction l with
  | nil => intro ms R _ h; exact ⟨h, Ext.refl _, rfl⟩
  | cons a l ih =>
    intro ms R hc h
    simp only [List.map_cons, List.cons_append] at h
    obtain ⟨w, x, p⟩ := createImm_wi hc h a.1
    obtain ⟨w2, x2, p2⟩ := ih (by rw [x.1]; exact hc) w
    unfold payOuts at *
    rw [List.foldl_cons]
    exact ⟨w2, x.trans x2, p2.trans p⟩

theorem weak_payouts {T} {ms0 : Mid} {R} (hc : Ctx T ms0.base) (l : List (Id × ScOut))
    (h : WI T ms0 (l.map (fun x => (Kind.sc, x.1)) ++ R)) :
    ∃ ms', l.foldlM stepPayout ms0 = .ok ms' ∧ WI T ms' R ∧ Ext ms0 ms' ∧ ms'.pool = ms0.pool := by
  obtain ⟨ms', h1, h2⟩ := foldlM_ok_inv stepPayout
    (fun ms rest => WI T ms (rest.map (fun x => (Kind.sc, x.1)) ++ R) ∧ Ext ms0 ms ∧ ms.pool = ms0.pool)
    (by
      rintro ms a rest ⟨hw, hx, hp⟩
      simp only [List.map_cons, List.cons_append] at hw
      obtain ⟨w, x, p⟩ := createImm_wi (by rw [hx.1]; exact hc) hw a.2
      exact ⟨_, rfl, w, hx.trans x, p.trans hp⟩)
    l ms0 ⟨h, Ext.refl _, rfl⟩
  exact ⟨ms', h1, h2.1, h2.2.1, h2.2.2⟩

theorem subsidy_wi {T} {ms : Mid} {R} (hc : Ctx T ms.base) (b : Block) (o : Option ScOut)
    (h : WI T ms ((Kind.sc, b.foundationOutId) :: R)) :
    WI T (applySubsidy ms b o) R ∧ Ext ms (applySubsidy ms b o) ∧ (applySubsidy ms b o).pool = ms.pool := by
  unfold applySubsidy
  cases o with
  | none => exact ⟨h.tail, Ext.refl _, rfl⟩
  | some o => exact createImm_wi hc h o

theorem weak_expire {T} {ms0 : Mid} {R} (hc : Ctx T ms0.base) (hN : NumL ms0.base) (l : List (Fc1Elem × List Id))
    (h : WI T ms0 (l.flatMap (fun x => x.2.map (fun i => (Kind.sc, i))) ++ R)) (hk : ∀ x ∈ l, x.1 ∈ ms0.base.fc1) :
    ∃ ms', l.foldlM stepExpire ms0 = .ok ms' ∧ WI T ms' R ∧ Ext ms0 ms' ∧ ms'.pool = ms0.pool := by
  obtain ⟨ms', h1, h2⟩ := foldlM_ok_inv stepExpire
    (fun ms rest => WI T ms (rest.flatMap (fun x => x.2.map (fun i => (Kind.sc, i))) ++ R) ∧ Ext ms0 ms ∧
      ms.pool = ms0.pool ∧ ∀ x ∈ rest, x.1 ∈ ms0.base.fc1)
    (by
      rintro ms a rest ⟨hw, hx, hp, hks⟩
      simp only [List.flatMap_cons, List.append_assoc] at hw
      have hks' : ∀ x ∈ rest, x.1 ∈ ms0.base.fc1 := fun s hs => hks s (List.mem_cons_of_mem _ hs)
      have hc' : Ctx T ms.base := by rw [hx.1]; exact hc
      unfold stepExpire
      by_cases hsp : ms.isSpent a.1.id = true
      · rw [if_pos hsp]
        exact ⟨_, rfl, hw.drop, hx, hp, hks'⟩
      · rw [if_neg hsp]
        have hm := hks a List.mem_cons_self
        obtain ⟨w1, x1, p1⟩ := resolveFc1_wi hc' hw a.1 false (by rw [hx.1]; exact hm) (hN.fc1 _ hm)
        have hsub : ((a.1.fc.missed.zip a.2).map (fun x => (Kind.sc, x.2)) ++
            (rest.flatMap (fun x => x.2.map (fun i => (Kind.sc, i))) ++ R)).Sublist
            (a.2.map (fun i => (Kind.sc, i)) ++ (rest.flatMap (fun x => x.2.map (fun i => (Kind.sc, i))) ++ R)) := by
          apply List.Sublist.append_right
          have := (zip_snd_sublist a.1.fc.missed a.2).map (fun i => (Kind.sc, i))
          rw [List.map_map] at this
          exact this
        obtain ⟨w2, x2, p2⟩ := payOuts_wi (a.1.fc.missed.zip a.2) (by rw [x1.1]; exact hc') (w1.sub hsub)
        exact ⟨_, rfl, w2, hx.trans (x1.trans x2), (p2.trans p1).trans hp, hks'⟩)
    l ms0 ⟨h, Ext.refl _, rfl, hk⟩
  exact ⟨ms', h1, h2.1, h2.2.1, h2.2.2.1⟩

-- ------------------------------------------------------------------ committing a mid-state that satisfies the weak invariant

theorem commit_ids_live {E D : Type} (base : List E) (eid : E → Id) (diffs : List D) (did : D → Id)
    (live : D → Bool) (cur : D → E) (hcur : ∀ d, eid (cur d) = did d)
    (hb : (base.map eid).Nodup) (hd : ((diffs.filter live).map did).Nodup) :
    ((untouched base eid (diffs.map did) ++ (diffs.filter live).map cur).map eid).Nodup ∧
    ∀ x ∈ (untouched base eid (diffs.map did) ++ (diffs.filter live).map cur).map eid,
      x ∈ base.map eid ∨ x ∈ (diffs.filter live).map did := by
  have e2 : ((diffs.filter live).map cur).map eid = (diffs.filter live).map did := by
    rw [List.map_map]; apply List.map_congr_left; intro d _; exact hcur d
  rw [List.map_append, e2]
  have s1 : ((untouched base eid (diffs.map did)).map eid).Sublist (base.map eid) :=
    (List.filter_sublist (l := base)).map eid
  have s2 : ((diffs.filter live).map did).Sublist (diffs.map did) :=
    (List.filter_sublist (l := diffs)).map did
  constructor
  · rw [List.nodup_append]
    refine ⟨s1.nodup hb, hd, ?_⟩
    intro a ha b hb' hab
    subst hab
    obtain ⟨e, he, rfl⟩ := List.mem_map.mp ha
    unfold untouched at he
    have := (List.mem_filter.mp he).2
    have hnc : (diffs.map did).contains (eid e) = false := by simpa using this
    have hc : (diffs.map did).contains (eid e) = true := List.contains_iff_mem.mpr (s2.subset hb')
    rw [hnc] at hc; cases hc
  · intro x hx
    rcases List.mem_append.mp hx with h | h
    · exact Or.inl (s1.subset h)
    · exact Or.inr h

/-- ids stay pairwise distinct across kinds, and v1 contracts stay balanced -/
theorem weak_commit_struct {T} {ms : Mid} (hc : Ctx T ms.base) (hL : LI T ms) (bid : Id) :
    (baseIds (ms.commit bid) .sc ++ baseIds (ms.commit bid) .sf ++ baseIds (ms.commit bid) .fc1 ++
      baseIds (ms.commit bid) .fc2).Nodup ∧
    ∀ e ∈ (ms.commit bid).fc1, sumVals e.fc.valid = sumVals e.fc.missed := by
  have k1 := commit_ids_live ms.base.sc (·.id) ms.sces (·.e.id) (fun d => ¬ d.spent) (·.e) (fun _ => rfl)
    (hc.nodup Kind.sc) (hL.live.nodup Kind.sc)
  have k2 := commit_ids_live ms.base.sf (·.id) ms.sfes (·.e.id) (fun d => ¬ d.spent) (·.e) (fun _ => rfl)
    (hc.nodup Kind.sf) (hL.live.nodup Kind.sf)
  have k3 := commit_ids_live ms.base.fc1 (·.id) ms.fces (·.e.id) (fun d => ¬ d.resolved) (·.current) Fc1Diff.current_id_c1
    (hc.nodup Kind.fc1) (hL.live.nodup Kind.fc1)
  have k4 := commit_ids_live ms.base.fc2 (·.id) ms.v2fces (·.e.id) (fun d => d.resolution.isNone) (·.current) Fc2Diff.current_id
    (hc.nodup Kind.fc2) (hL.live.nodup Kind.fc2)
  constructor
  · unfold baseIds; simp only []
    rw [commit_sc, commit_sf, commit_fc1, commit_fc2]
    apply nodup_four hc.disj _ _ _ _ k1.1 k2.1 k3.1 k4.1
    · intro x hx; rcases k1.2 x hx with h | h
      · exact hc.base Kind.sc x h
      · exact (hL.live.typed Kind.sc x h).1
    · intro x hx; rcases k2.2 x hx with h | h
      · exact hc.base Kind.sf x h
      · exact (hL.live.typed Kind.sf x h).1
    · intro x hx; rcases k3.2 x hx with h | h
      · exact hc.base Kind.fc1 x h
      · exact (hL.live.typed Kind.fc1 x h).1
    · intro x hx; rcases k4.2 x hx with h | h
      · exact hc.base Kind.fc2 x h
      · exact (hL.live.typed Kind.fc2 x h).1
  · intro e he
    rw [commit_fc1] at he
    rcases List.mem_append.mp he with h | h
    · unfold untouched at h; exact hc.fc1_bal e (List.mem_filter.mp h).1
    · obtain ⟨d, hd, rfl⟩ := List.mem_map.mp h
      obtain ⟨hm, hl⟩ := List.mem_filter.mp hd
      have hnr : d.resolved = false := by simpa using hl
      exact hL.bal d hm hnr

theorem commit_pool (ms : Mid) (bid : Id) : (ms.commit bid).pool = ms.pool := rfl

/-- the element-wise bounds are kept -/
theorem weak_commit_num {ms : Mid} (hn : Num ms) (hN : NumL ms.base) (bid : Id) : NumL (ms.commit bid) := by
  refine ⟨?_, ?_, ?_, by rw [commit_pool]; exact hn.hi⟩
  · intro e he
    rw [commit_pool]
    rw [commit_sf] at he
    rcases List.mem_append.mp he with h | h
    · unfold untouched at h
      obtain ⟨a, b⟩ := hN.sf e (List.mem_filter.mp h).1
      exact ⟨Nat.le_trans a hn.lo, b⟩
    · obtain ⟨d, hd, rfl⟩ := List.mem_map.mp h
      obtain ⟨hm, hl⟩ := List.mem_filter.mp hd
      exact hn.sf d hm (by simpa using hl)
  · intro e he
    rw [commit_fc1] at he
    rcases List.mem_append.mp he with h | h
    · unfold untouched at h; exact hN.fc1 e (List.mem_filter.mp h).1
    · obtain ⟨d, hd, rfl⟩ := List.mem_map.mp h
      exact hn.fc1 d (List.mem_filter.mp hd).1
  · intro e he
    rw [commit_fc2] at he
    rcases List.mem_append.mp he with h | h
    · unfold untouched at h; exact hN.fc2 e (List.mem_filter.mp h).1
    · obtain ⟨d, hd, rfl⟩ := List.mem_map.mp h
      obtain ⟨a, b⟩ := hn.fc2 d (List.mem_filter.mp hd).1
      unfold Fc2Diff.current
      cases hr : d.revision with
      | none => exact a
      | some r => exact b r hr

-- ------------------------------------------------------------------ blocks

theorem kind_unique_of_nodup {L : Ledger}
    (hn : (baseIds L .sc ++ baseIds L .sf ++ baseIds L .fc1 ++ baseIds L .fc2).Nodup)
    {k k' : Kind} {id : Id} (h1 : id ∈ baseIds L k) (h2 : id ∈ baseIds L k') : k = k' := by
  rw [List.nodup_append] at hn
  obtain ⟨h123, _, d4⟩ := hn
  rw [List.nodup_append] at h123
  obtain ⟨h12, _, d3⟩ := h123
  rw [List.nodup_append] at h12
  obtain ⟨_, _, d2⟩ := h12
  have hatt : ∀ x, x ∉ baseIds L Kind.att := fun x hx => by cases hx
  cases k <;> cases k' <;> first
    | rfl
    | exact absurd h1 (hatt _)
    | exact absurd h2 (hatt _)
    | exact absurd rfl (d2 _ h1 _ h2)
    | exact absurd rfl (d2 _ h2 _ h1)
    | exact absurd rfl (d3 _ (List.mem_append_left _ h1) _ h2)
    | exact absurd rfl (d3 _ (List.mem_append_right _ h1) _ h2)
    | exact absurd rfl (d3 _ (List.mem_append_left _ h2) _ h1)
    | exact absurd rfl (d3 _ (List.mem_append_right _ h2) _ h1)
    | exact absurd rfl (d4 _ (List.mem_append_left _ (List.mem_append_left _ h1)) _ h2)
    | exact absurd rfl (d4 _ (List.mem_append_left _ (List.mem_append_right _ h1)) _ h2)
    | exact absurd rfl (d4 _ (List.mem_append_right _ h1) _ h2)
    | exact absurd rfl (d4 _ (List.mem_append_left _ (List.mem_append_left _ h2)) _ h1)
    | exact absurd rfl (d4 _ (List.mem_append_left _ (List.mem_append_right _ h2)) _ h1)
    | exact absurd rfl (d4 _ (List.mem_append_right _ h2) _ h1)

theorem nodup_kind_of_nodup {L : Ledger}
    (hn : (baseIds L .sc ++ baseIds L .sf ++ baseIds L .fc1 ++ baseIds L .fc2).Nodup) (k : Kind) :
    (baseIds L k).Nodup := by
  rw [List.nodup_append] at hn
  obtain ⟨h123, n4, _⟩ := hn
  rw [List.nodup_append] at h123
  obtain ⟨h12, n3, _⟩ := h123
  rw [List.nodup_append] at h12
  obtain ⟨n1, n2, _⟩ := h12
  cases k
  · exact n1
  · exact n2
  · exact n3
  · exact n4
  · exact List.nodup_nil

theorem ctx_of_nodup {L : Ledger} {b : Block}
    (hn : (baseIds L .sc ++ baseIds L .sf ++ baseIds L .fc1 ++ baseIds L .fc2).Nodup)
    (hbal : ∀ e ∈ L.fc1, sumVals e.fc.valid = sumVals e.fc.missed) (hf : FreshIds L b) : Ctx (Tb L b) L := by
  refine ⟨?_, fun k id h => Or.inl h, nodup_kind_of_nodup hn, hbal⟩
  intro k k' id h1 h2
  rcases h1 with h1 | h1 <;> rcases h2 with h2 | h2
  · exact kind_unique_of_nodup hn h1 h2
  · exact absurd h1 (hf.2 _ h2 k)
  · exact absurd h2 (hf.2 _ h1 k')
  · have := base_unique b.created (·.2) hf.1 h1 h2 rfl
    exact (Prod.mk.inj this).1

theorem fold_stepV1_apply (pid : Id) (mw : Nat) (l : List Txn1) : ∀ ms ms' : Mid,
    l.foldlM (stepV1 pid mw) ms = .ok ms' → l.foldlM applyTransaction ms = .ok ms' := by
  induction l with
  | nil => intro ms ms' h; exact h
  | cons a l ih =>
    intro ms ms' h
    rw [List.foldlM_cons, bind_eq_ok] at h
    obtain ⟨m1, h1, h2⟩ := h
    unfold stepV1 at h1
    rw [bind_eq_ok] at h1
    obtain ⟨_, _, h1⟩ := h1
    rw [List.foldlM_cons, bind_eq_ok]
    exact ⟨m1, h1, ih m1 ms' h2⟩

theorem fold_stepV2_apply (mw : Nat) (l : List Txn2) : ∀ ms ms' : Mid,
    l.foldlM (stepV2 mw) ms = .ok ms' → l.foldlM applyV2Transaction ms = .ok ms' := by
  induction l with
  | nil => intro ms ms' h; exact h
  | cons a l ih =>
    intro ms ms' h
    rw [List.foldlM_cons, bind_eq_ok] at h
    obtain ⟨m1, h1, h2⟩ := h
    unfold stepV2 at h1
    rw [bind_eq_ok] at h1
    obtain ⟨_, _, h1⟩ := h1
    rw [List.foldlM_cons, bind_eq_ok]
    exact ⟨m1, h1, ih m1 ms' h2⟩

theorem num_newMid {L : Ledger} (hN : NumL L) : Num (newMid L) :=
  ⟨fun d hd => (by cases hd), fun d hd => (by cases hd), fun d hd => (by cases hd), Nat.le_refl _, hN.pool⟩

/-- the part of the block after the transactions, started from a state that satisfies the weak invariant -/
theorem weak_block_tail {T} {L : Ledger} {b : Block} {ms : Mid} (hc : Ctx T L) (hN : NumL L) (hb : ms.base = L)
    (hw : WI T ms (b.payouts.map (fun x => (Kind.sc, x.1)) ++
      ((Kind.sc, b.foundationOutId) :: b.expiring.flatMap (fun x => x.2.map (fun i => (Kind.sc, i))))))
    (hexp : ∀ x ∈ b.expiring, x.1 ∈ L.fc1) (sub : Option ScOut) :
    ∃ ms3 ms5, b.payouts.foldlM stepPayout ms = .ok ms3 ∧ ms3.base = L ∧
      b.expiring.foldlM stepExpire (applySubsidy ms3 b sub) = .ok ms5 ∧ WI T ms5 [] ∧ ms5.base = L := by
  obtain ⟨ms3, a3, w3, x3, _⟩ := weak_payouts (by rw [hb]; exact hc) b.payouts hw
  have hb3 : ms3.base = L := x3.1.trans hb
  obtain ⟨w4, x4, _⟩ := subsidy_wi (by rw [hb3]; exact hc) b sub w3
  have hb4 : (applySubsidy ms3 b sub).base = L := x4.1.trans hb3
  obtain ⟨ms5, a5, w5, x5, _⟩ := weak_expire (by rw [hb4]; exact hc) (by rw [hb4]; exact hN) b.expiring
    (by rw [List.append_nil]; exact w4) (fun x hx => by rw [hb4]; exact hexp x hx)
  exact ⟨ms3, ms5, a3, hb3, a5, w5, x5.1.trans hb4⟩

end Sia.Ledger
