import SiaProofs.Lemmas.CodecBitmap
import SiaModel.Codec.Policy
/-! The policy codec satisfies the leaf laws (`CodecOK`): `Codec.fail`, `Codec.list8`, and the
recursion on the remaining depth. -/
namespace Sia.Codec

theorem Codec.fail_ok : CodecOK Codec.fail := by
  constructor <;> simp [Codec.fail]

theorem decRep_consumed_ge {f : Bytes → DecRes}
    (hok : ∀ bs v r, f bs = .ok (v, r) → ∃ cs, bs = cs ++ r ∧ 1 ≤ cs.length)
    {n : Nat} {bs rest : Bytes} {vs : List Val} (h : decRep f n bs = .ok (vs, rest)) :
    vs.length + rest.length ≤ bs.length := by
  induction n generalizing bs vs with
  | zero =>
    simp only [decRep] at h
    injection h with h; injection h with e1 e2; subst e1; subst e2; simp
  | succ n ih =>
    simp only [decRep] at h
    split at h
    · rename_i v bs1 h1
      split at h
      · rename_i vs' bs2 h2
        injection h with h; injection h with e1 e2; subst e1; subst e2
        obtain ⟨cs, hb, hl⟩ := hok _ _ _ h1
        have := ih h2
        rw [hb]; simp; omega
      · cases h
    · cases h

theorem list8_ok {c : Codec} (hc : CodecOK c) (hm : 1 ≤ c.minLen) : CodecOK (Codec.list8 c) := by
  have hlen1 : ∀ n : Nat, n < 256 → leVal (leBytes 1 n) = n := by
    intro n h; rw [leVal_leBytes]; simp; omega
  constructor
  · -- roundtrip
    intro st k v rest hcan
    cases v <;> simp [Codec.list8] at hcan
    rename_i vs
    simp only [Codec.list8, List.append_assoc]
    rw [takeN_append' _ _ (leBytes_length 1 vs.length)]
    simp only [hlen1 _ hcan.1]
    rw [decRep_roundtrip (fun w hw r => hc.roundtrip st k w r (hcan.2 w hw))]
    rfl
  · -- minLen
    intro v hcan
    cases v <;> simp [Codec.list8] at hcan
    simp [Codec.list8, leBytes_length]
  · -- trunc
    intro st k v p q hcan h hq
    cases v <;> simp [Codec.list8] at hcan
    rename_i vs
    simp only [Codec.list8] at h ⊢
    rcases prefix_split h with ⟨q', h1, hq'⟩ | ⟨p', h1, h2⟩
    · have hl := prefix_len_lt h1 hq'
      rw [leBytes_length] at hl
      rw [takeN_short hl]; exact ⟨_, rfl⟩
    · subst h1
      rw [takeN_append' _ _ (leBytes_length 1 vs.length)]
      simp only [hlen1 _ hcan.1]
      obtain ⟨e, he⟩ := decRep_trunc (f := c.dec st k) (g := c.enc)
        (fun w hw r => hc.roundtrip st k w r (hcan.2 w hw))
        (fun w hw p q hpq hq => hc.trunc st k w p q (hcan.2 w hw) hpq hq) h2 hq
      rw [he]; exact ⟨_, rfl⟩
  · -- dec_sound
    intro st k bs v rest h
    simp only [Codec.list8] at h ⊢
    split at h
    · rename_i a r h1
      obtain ⟨hb, hl⟩ := takeN_ok h1
      obtain ⟨vs, h2, hv⟩ := okList_ok h
      subst hv
      obtain ⟨hlen, hall, cs, hcs⟩ := decRep_sound (P := fun v => c.canon v = true)
        (fun bs v r hf => let ⟨cn, cs, hb, _⟩ := hc.dec_sound st k bs v r hf; ⟨cn, cs, hb⟩) h2
      refine ⟨?_, a ++ cs, by rw [hb, hcs]; simp, by simp; omega⟩
      simp only [Bool.and_eq_true, decide_eq_true_eq, List.all_eq_true]
      exact ⟨by rw [hlen]; exact leVal_one_lt hl, hall⟩
    · cases h
  · -- strict_enc
    intro k bs v rest h
    simp only [Codec.list8] at h ⊢
    split at h
    · rename_i a r h1
      obtain ⟨hb, hl⟩ := takeN_ok h1
      obtain ⟨vs, h2, hv⟩ := okList_ok h
      subst hv
      have hlen := (decRep_sound (P := fun _ => True) (fun bs v r hf =>
        let ⟨_, cs, hb, _⟩ := hc.dec_sound true k bs v r hf; ⟨trivial, cs, hb⟩) h2).1
      simp only [List.append_assoc]
      rw [decRep_enc (g := c.enc) (fun bs v r hf => hc.strict_enc k bs v r hf) h2, hlen,
        leBytes_one_leVal hl, hb]
    · cases h
  · -- strict_lax
    intro k bs r h
    simp only [Codec.list8] at h ⊢
    split at h
    · unfold okList at h ⊢
      split at h
      · rename_i vs r2 h2
        rw [decRep_mono (f' := c.dec false k) (fun bs r hf => hc.strict_lax k bs r hf) h2]; exact h
      · cases h
    · cases h
  · -- no_panic
    intro hg st k bs
    simp only [Codec.list8] at hg ⊢
    split
    · unfold okList
      split
      · simp
      · rename_i e h2; intro h; injection h with h; subst h
        obtain ⟨bs', hb⟩ := decRep_error h2
        exact hc.no_panic hg st k bs' hb
    · rename_i e h1; have := (takeN_error h1).1; subst this; simp
  · -- alloc_ok
    intro hg k bs v rest h
    simp only [Codec.list8] at hg h ⊢
    split at h
    · rename_i a r h1
      obtain ⟨hb, hl⟩ := takeN_ok h1
      obtain ⟨vs, h2, _⟩ := okList_ok h
      have hok : ∀ bs v r, c.dec false k bs = .ok (v, r) →
          ∃ cs, bs = cs ++ r ∧ 1 ≤ cs.length ∧ c.alloc k bs ≤ c.depth * cs.length := by
        intro bs v r hd
        obtain ⟨_, cs, hbs, hml⟩ := hc.dec_sound false k bs v r hd
        have ha := hc.alloc_ok hg k bs v r hd
        rw [hbs, List.length_append, Nat.mul_add] at ha
        exact ⟨cs, hbs, by omega, by rw [hbs]; omega⟩
      obtain ⟨cs, hcs, ha⟩ := (C10D.allocRep_bounds (k := k) hok (fun bs => hc.alloc_err hg k bs) (leVal a) r).2 vs rest h2
      have hcount := (decRep_sound (P := fun _ => True) (fun bs v r hf =>
        let ⟨_, cs, hb, _⟩ := hc.dec_sound false k bs v r hf; ⟨trivial, cs, hb⟩) h2).1
      -- every element consumed at least one byte: count ≤ consumed
      have hge := decRep_consumed_ge (fun bs v r hd => let ⟨cs, h1, h2, _⟩ := hok bs v r hd; ⟨cs, h1, h2⟩) h2
      rw [hcs, List.length_append] at hge
      rw [hcs] at ha
      rw [Nat.add_mul, Nat.one_mul] at ha
      rw [hb, hcs]
      simp only [List.length_append, Nat.mul_add, Nat.add_mul]
      omega
    · cases h
  · -- alloc_err
    intro hg k bs
    simp only [Codec.list8] at hg ⊢
    split
    · rename_i a r h1
      obtain ⟨hb, hl⟩ := takeN_ok h1
      have hok : ∀ bs v r, c.dec false k bs = .ok (v, r) →
          ∃ cs, bs = cs ++ r ∧ 1 ≤ cs.length ∧ c.alloc k bs ≤ c.depth * cs.length := by
        intro bs v r hd
        obtain ⟨_, cs, hbs, hml⟩ := hc.dec_sound false k bs v r hd
        have ha := hc.alloc_ok hg k bs v r hd
        rw [hbs, List.length_append, Nat.mul_add] at ha
        exact ⟨cs, hbs, by omega, by rw [hbs]; omega⟩
      have hA := (C10D.allocRep_bounds (k := k) hok (fun bs => hc.alloc_err hg k bs) (leVal a) r).1
      have h255 := leVal_one_lt hl
      have e1 : bs.length = 1 + r.length := by rw [hb]; simp [hl]
      have : (c.depth + 1) * (r.length + k) ≤ (c.depth + 1) * (bs.length + k) := Nat.mul_le_mul_left _ (by omega)
      have h2 : (c.depth + 256) * (bs.length + k) = (c.depth + 1) * (bs.length + k) + 255 * (bs.length + k) := by
        rw [show c.depth + 256 = (c.depth + 1) + 255 by omega, Nat.add_mul]
      omega
    · omega

theorem tagsOK_nil : TagsOK [] := by intro t c h; simp [findTag] at h

theorem tagsOK_cons {t : Nat} {c : Codec} {cs : List (Nat × Codec)} (hc : CodecOK c) (hcs : TagsOK cs) :
    TagsOK ((t, c) :: cs) := by
  intro u d h
  simp only [findTag] at h
  split at h
  · injection h with h; subst h; exact hc
  · exact hcs u d h

namespace Policy

theorem uc_wf (E : Env) : Gen.encSchema_Types_UnlockConditions.wf E = true := by
  simp [Gen.encSchema_Types_UnlockConditions, Gen.encSchema_Types_UnlockKey, Gen.encSchema_Types_Specifier,
    Sch.wf, Sch.minLen, Atom.codec]

theorem thresh_wf (E : Env) : threshSch.wf E = true := by
  simp [threshSch, Sch.seq, Sch.wf]

theorem node_minLen (E : Env) (f : Nat) : (node E f).minLen = 1 := by
  cases f <;> rfl

theorem node_ok {E : Env} (hE : EnvOK E) (f : Nat) : CodecOK (node E f) := by
  induction f with
  | zero =>
    have hch : EnvOK (childEnv E Codec.fail) := Env.with_ok hE _ (list8_ok Codec.fail_ok (by simp [Codec.fail]))
    exact tagged_ok (tagsOK_cons (ofSch_ok hE _ rfl) <| tagsOK_cons (ofSch_ok hE _ rfl) <|
      tagsOK_cons (ofSch_ok hE _ rfl) <| tagsOK_cons (ofSch_ok hE _ rfl) <|
      tagsOK_cons (ofSch_ok hch _ (thresh_wf _)) <| tagsOK_cons (ofSch_ok hE _ rfl) <|
      tagsOK_cons (ofSch_ok hE _ (uc_wf E)) tagsOK_nil)
  | succ f ih =>
    have hch : EnvOK (childEnv E (node E f)) :=
      Env.with_ok hE _ (list8_ok ih (by rw [node_minLen]; exact Nat.le_refl 1))
    exact tagged_ok (tagsOK_cons (ofSch_ok hE _ rfl) <| tagsOK_cons (ofSch_ok hE _ rfl) <|
      tagsOK_cons (ofSch_ok hE _ rfl) <| tagsOK_cons (ofSch_ok hE _ rfl) <|
      tagsOK_cons (ofSch_ok hch _ (thresh_wf _)) <| tagsOK_cons (ofSch_ok hE _ rfl) <|
      tagsOK_cons (ofSch_ok hE _ (uc_wf E)) tagsOK_nil)

/-- the `SpendPolicy` codec satisfies every leaf law -/
theorem codec_ok {E : Env} (hE : EnvOK E) : CodecOK (codec E) :=
  tagged_ok (tagsOK_cons (node_ok hE maxDepth) tagsOK_nil)

end Policy

end Sia.Codec
