/-
  SiaProofs.Lemmas.Forest — structural facts about the naive forest (`subRoot`,
  `subPath`) and their relation to `proofRoot`.
-/
import SiaProofs.Lemmas.Bits
namespace Sia.ElemAcc

/-- hash injectivity of interior nodes (a hypothesis of the soundness theorems, never an axiom) -/
def NodeInj (H : Type) [Hasher H] : Prop := ∀ a b c d : H, node a b = node c d → a = c ∧ b = d

section
variable {H : Type} [Hasher H] [Inhabited H]

theorem subRoot_ext {ls ls' : List H} : ∀ (h s : Nat),
    (∀ q, s ≤ q → q < s + 2 ^ h → ls.getD q default = ls'.getD q default) →
    subRoot ls h s = subRoot ls' h s := by
  intro h
  induction h with
  | zero => intro s hq; simp only [subRoot]; exact hq s (Nat.le_refl _) (by simp)
  | succ h ih =>
    intro s hq
    simp only [subRoot]
    have hp := pow_succ2 h
    rw [ih s (fun q h1 h2 => hq q h1 (by omega)), ih (s + 2 ^ h) (fun q h1 h2 => hq q (by omega) (by omega))]

theorem halvingRoot_take (h : Nat) : ∀ (l : List H), halvingRoot h (l.take (2 ^ h)) = halvingRoot h l := by
  induction h with
  | zero => intro l; cases l <;> simp [halvingRoot, List.take]
  | succ h ih =>
    intro l
    have hp := pow_succ2 h
    simp only [halvingRoot]
    rw [List.take_take, List.drop_take, hp]
    have e1 : min (2 ^ h) (2 * 2 ^ h) = 2 ^ h := by omega
    have e2 : 2 * 2 ^ h - 2 ^ h = 2 ^ h := by omega
    rw [e1, e2, ih (l.drop (2 ^ h))]

/-- the index-arithmetic `subRoot` is the plain "halve the list" Merkle root of the slice -/
theorem subRoot_eq_halving (ls : List H) : ∀ (h s : Nat), subRoot ls h s = halvingRoot h (ls.drop s) := by
  intro h
  induction h with
  | zero => intro s; simp [subRoot, halvingRoot, List.getD, List.head?_drop, List.headD_eq_head?_getD]
  | succ h ih =>
    intro s
    simp only [subRoot, halvingRoot]
    rw [ih s, ih (s + 2 ^ h), halvingRoot_take, List.drop_drop]

theorem subPath_ext {ls ls' : List H} (h p : Nat) : ∀ (Ht S : Nat),
    (∀ q, S ≤ q → q < S + 2 ^ Ht → ls.getD q default = ls'.getD q default) →
    subPath ls h p Ht S = subPath ls' h p Ht S := by
  intro Ht
  induction Ht with
  | zero => intro S _; simp [subPath]
  | succ Ht ih =>
    intro S hq
    have hp := pow_succ2 Ht
    simp only [subPath]
    rw [ih S (fun q h1 h2 => hq q h1 (by omega)), ih (S + 2 ^ Ht) (fun q h1 h2 => hq q (by omega) (by omega)),
      subRoot_ext Ht S (fun q h1 h2 => hq q h1 (by omega)),
      subRoot_ext Ht (S + 2 ^ Ht) (fun q h1 h2 => hq q (by omega) (by omega))]

theorem subPath_length (ls : List H) (h p : Nat) : ∀ (Ht S : Nat), (subPath ls h p Ht S).length = Ht - h := by
  intro Ht
  induction Ht with
  | zero => intro S; simp [subPath]
  | succ Ht ih =>
    intro S
    simp only [subPath]
    split
    · simp; omega
    · split <;> simp [ih] <;> omega

theorem subPath_self (ls : List H) (h p S : Nat) : subPath ls h p h S = [] := by
  cases h with
  | zero => simp [subPath]
  | succ h => simp [subPath]

theorem subPath_left (ls : List H) {h p Ht S : Nat} (hh : h ≤ Ht) (hp : p < S + 2 ^ Ht) :
    subPath ls h p (Ht + 1) S = subPath ls h p Ht S ++ [subRoot ls Ht (S + 2 ^ Ht)] := by
  simp only [subPath]
  rw [if_neg (by omega), if_pos hp]

theorem subPath_right (ls : List H) {h p Ht S : Nat} (hh : h ≤ Ht) (hp : S + 2 ^ Ht ≤ p) :
    subPath ls h p (Ht + 1) S = subPath ls h p Ht (S + 2 ^ Ht) ++ [subRoot ls Ht S] := by
  simp only [subPath]
  rw [if_neg (by omega), if_neg (by omega)]

theorem proofRootFrom_append (idx : Nat) (a b : List H) : ∀ (lvl : Nat) (x : H),
    proofRootFrom idx lvl x (a ++ b) = proofRootFrom idx (lvl + a.length) (proofRootFrom idx lvl x a) b := by
  induction a with
  | nil => intro lvl x; simp [proofRootFrom]
  | cons y a ih =>
    intro lvl x
    simp only [List.cons_append, proofRootFrom, List.length_cons]
    rw [ih]; congr 1; omega

/-- start of the aligned block of size `2^k` containing `p` -/
theorem anc_eq {S k p : Nat} (hS : 2 ^ k ∣ S) (h1 : S ≤ p) (h2 : p < S + 2 ^ k) : p / 2 ^ k * 2 ^ k = S := by
  obtain ⟨c, rfl⟩ := hS
  have : p / 2 ^ k = c := by
    apply Nat.div_eq_of_lt_le
    · rw [Nat.mul_comm]; exact h1
    · rw [Nat.add_mul, Nat.mul_comm c]; omega
  rw [this, Nat.mul_comm]

theorem dvd_of_dvd_succ {S k : Nat} (hS : 2 ^ (k + 1) ∣ S) : 2 ^ k ∣ S :=
  Nat.dvd_trans ⟨2, by rw [Nat.pow_succ]⟩ hS

theorem dvd_add_pow {S k : Nat} (hS : 2 ^ (k + 1) ∣ S) : 2 ^ k ∣ S + 2 ^ k :=
  (Nat.dvd_add_right (dvd_of_dvd_succ hS)).2 (Nat.dvd_refl _)

theorem testBit_aligned {S Ht p : Nat} (hS : 2 ^ (Ht + 1) ∣ S) (h1 : S ≤ p) (h2 : p < S + 2 ^ (Ht + 1)) :
    p.testBit Ht = decide (S + 2 ^ Ht ≤ p) := by
  obtain ⟨c, rfl⟩ := hS
  have hp := pow_succ2 Ht
  have hS' : 2 ^ (Ht + 1) * c = 2 * (c * 2 ^ Ht) := by rw [hp]; ring
  rw [hS'] at h1 h2 ⊢
  by_cases hlt : p < 2 * (c * 2 ^ Ht) + 2 ^ Ht
  · have d := digits_clear (n := p) (h := Ht) (c := c) (r := p - 2 * (c * 2 ^ Ht)) (by omega) (by omega)
    rw [d.1]; simp; omega
  · have d := digits_set (n := p) (h := Ht) (c := c) (r := p - 2 * (c * 2 ^ Ht) - 2 ^ Ht) (by omega) (by omega)
    rw [d.1]; simp; omega

theorem mul_succ_le_of_lt {d a b : Nat} (ha : d ∣ a) (hb : d ∣ b) (hlt : a < b) : a + d ≤ b := by
  obtain ⟨x, rfl⟩ := ha
  obtain ⟨y, rfl⟩ := hb
  rcases Nat.eq_zero_or_pos d with h0 | hpos
  · subst h0; simp at hlt
  · have hxy : x < y := Nat.lt_of_mul_lt_mul_left hlt
    have : d * (x + 1) ≤ d * y := Nat.mul_le_mul_left d hxy
    rw [Nat.mul_add, Nat.mul_one] at this
    exact this

/-- Paths compose: the path from the `h0`-block of `p` up to `(Ht,S)` is its path up to an
    intermediate aligned subtree `(h,s)` followed by the path of that subtree up to `(Ht,S)`. -/
theorem subPath_comp' (ls : List H) {h0 h s p : Nat} (h0h : h0 ≤ h) (hs : 2 ^ h ∣ s) (h1 : s ≤ p) (h2 : p < s + 2 ^ h) :
    ∀ (Ht S : Nat), h ≤ Ht → 2 ^ Ht ∣ S → S ≤ s → s < S + 2 ^ Ht →
    subPath ls h0 p Ht S = subPath ls h0 p h s ++ subPath ls h s Ht S := by
  intro Ht
  induction Ht with
  | zero =>
    intro S hh _ h3 h4
    have : h = 0 := by omega
    subst this
    simp [subPath]
  | succ Ht ih =>
    intro S hh hS h3 h4
    have hp := pow_succ2 Ht
    by_cases he : h = Ht + 1
    · subst he
      have : s = S := by
        rcases Nat.lt_or_ge S s with hlt | hge
        · have := mul_succ_le_of_lt hS hs hlt; omega
        · omega
      subst this
      simp [subPath_self]
    · have hh' : h ≤ Ht := by omega
      have hsM : 2 ^ h ∣ S + 2 ^ Ht :=
        (Nat.dvd_add_right (Nat.dvd_trans (Nat.pow_dvd_pow 2 (by omega)) hS)).2 (Nat.pow_dvd_pow 2 hh')
      by_cases hl : s < S + 2 ^ Ht
      · have hle := mul_succ_le_of_lt hs hsM hl
        rw [subPath_left ls (by omega) (by omega : p < S + 2 ^ Ht), subPath_left ls hh' hl,
          ih S hh' (dvd_of_dvd_succ hS) h3 hl, List.append_assoc]
      · have hge : S + 2 ^ Ht ≤ s := by omega
        rw [subPath_right ls (by omega) (by omega : S + 2 ^ Ht ≤ p), subPath_right ls hh' hge,
          ih (S + 2 ^ Ht) hh' (dvd_add_pow hS) hge (by omega), List.append_assoc]

theorem subPath_comp (ls : List H) {h s p : Nat} (hs : 2 ^ h ∣ s) (h1 : s ≤ p) (h2 : p < s + 2 ^ h) :
    ∀ (Ht S : Nat), h ≤ Ht → 2 ^ Ht ∣ S → S ≤ s → s < S + 2 ^ Ht →
    subPath ls 0 p Ht S = subPath ls 0 p h s ++ subPath ls h s Ht S :=
  subPath_comp' ls (Nat.zero_le _) hs h1 h2

/-- one level: the path from a `k`-block to the enclosing `(k+1)`-block is the sibling's root -/
theorem subPath_one_left (ls : List H) (k s' : Nat) :
    subPath ls k s' (k + 1) s' = [subRoot ls k (s' + 2 ^ k)] := by
  rw [subPath_left ls (Nat.le_refl _) (by have := Nat.two_pow_pos k; omega), subPath_self]; rfl

theorem subPath_one_right (ls : List H) (k s' : Nat) :
    subPath ls k (s' + 2 ^ k) (k + 1) s' = [subRoot ls k s'] := by
  rw [subPath_right ls (Nat.le_refl _) (Nat.le_refl _), subPath_self]; rfl

/-- Completeness at the level of `proofRoot`: hashing the subtree root containing `p`
    up along the naive sibling path gives the enclosing subtree's root. -/
theorem proofRootFrom_subPath (ls : List H) : ∀ (Ht S p h : Nat),
    2 ^ Ht ∣ S → S ≤ p → p < S + 2 ^ Ht → h ≤ Ht →
    proofRootFrom p h (subRoot ls h (p / 2 ^ h * 2 ^ h)) (subPath ls h p Ht S) = subRoot ls Ht S := by
  intro Ht
  induction Ht with
  | zero =>
    intro S p h _ h1 h2 hh
    have : h = 0 := by omega
    subst this
    have : p = S := by simp at h2; omega
    subst this
    simp [subPath, proofRootFrom]
  | succ Ht ih =>
    intro S p h hS h1 h2 hh
    have hp := pow_succ2 Ht
    by_cases he : h = Ht + 1
    · subst he
      rw [subPath_self, anc_eq hS h1 h2]; simp [proofRootFrom]
    · have hh' : h ≤ Ht := by omega
      have hbit := testBit_aligned hS h1 h2
      by_cases hl : p < S + 2 ^ Ht
      · rw [subPath_left ls hh' hl, proofRootFrom_append, ih S p h (dvd_of_dvd_succ hS) h1 hl hh', subPath_length]
        have : h + (Ht - h) = Ht := by omega
        rw [this]
        simp only [proofRootFrom]
        rw [hbit]
        have : ¬ (S + 2 ^ Ht ≤ p) := by omega
        simp [this, subRoot]
      · have hl' : S + 2 ^ Ht ≤ p := by omega
        rw [subPath_right ls hh' hl', proofRootFrom_append,
          ih (S + 2 ^ Ht) p h (dvd_add_pow hS) hl' (by omega) hh', subPath_length]
        have : h + (Ht - h) = Ht := by omega
        rw [this]
        simp only [proofRootFrom]
        rw [hbit]
        simp [hl', subRoot]

theorem path_eq (ls : List H) (i : Nat) :
    path ls i = subPath ls 0 i (treeHeight ls.length i) (treeStart ls.length (treeHeight ls.length i)) := rfl

theorem path_length (ls : List H) (i : Nat) : (path ls i).length = treeHeight ls.length i := by
  rw [path_eq, subPath_length]; omega

theorem proofRoot_path_block (ls : List H) {Ht S p : Nat} (hS : 2 ^ Ht ∣ S) (h1 : S ≤ p) (h2 : p < S + 2 ^ Ht) :
    proofRoot (ls.getD p default) p (subPath ls 0 p Ht S) = subRoot ls Ht S := by
  have := proofRootFrom_subPath ls Ht S p 0 hS h1 h2 (Nat.zero_le _)
  simpa [proofRoot, subRoot] using this

/-- Soundness at the level of `proofRoot`: under node injectivity, a leaf hash and a
    proof that hash up to the root of a naive subtree are the genuine leaf and path. -/
theorem proofRoot_sound (inj : NodeInj H) (ls : List H) (idx : Nat) (x : H) : ∀ (Ht S : Nat) (proof : List H),
    proof.length = Ht → 2 ^ Ht ∣ S → proofRoot x idx proof = subRoot ls Ht S →
    x = ls.getD (S + idx % 2 ^ Ht) default ∧ proof = subPath ls 0 (S + idx % 2 ^ Ht) Ht S := by
  intro Ht
  induction Ht with
  | zero =>
    intro S proof hl _ hr
    have : proof = [] := List.eq_nil_of_length_eq_zero hl
    subst this
    simp [proofRoot, proofRootFrom, subRoot, subPath] at hr ⊢
    simpa [Nat.mod_one] using hr
  | succ Ht ih =>
    intro S proof hl hS hr
    have hp := pow_succ2 Ht
    rcases List.eq_nil_or_concat proof with h0 | ⟨a, q, h0⟩
    · subst h0; simp at hl
    · rw [List.concat_eq_append] at h0
      subst h0
      have hla : a.length = Ht := by simpa using hl
      unfold proofRoot at hr
      rw [proofRootFrom_append] at hr
      simp only [proofRootFrom, Nat.zero_add, hla, subRoot] at hr
      have hmod := mod_succ_testBit idx Ht
      have hlt : idx % 2 ^ Ht < 2 ^ Ht := Nat.mod_lt _ (Nat.two_pow_pos Ht)
      by_cases hb : idx.testBit Ht = true
      · rw [hb] at hr hmod
        simp only [if_true] at hr hmod
        obtain ⟨e1, e2⟩ := inj _ _ _ _ hr
        have := ih (S + 2 ^ Ht) a hla (dvd_add_pow hS) e2
        have hpos : S + idx % 2 ^ (Ht + 1) = S + 2 ^ Ht + idx % 2 ^ Ht := by omega
        rw [hpos, subPath_right ls (Nat.zero_le _) (by omega), ← this.2, e1]
        exact ⟨this.1, rfl⟩
      · have hb' : idx.testBit Ht = false := by simpa using hb
        rw [hb'] at hr hmod
        simp only [Bool.false_eq_true, if_false] at hr hmod
        obtain ⟨e1, e2⟩ := inj _ _ _ _ hr
        have := ih S a hla (dvd_of_dvd_succ hS) e1
        have hpos : S + idx % 2 ^ (Ht + 1) = S + idx % 2 ^ Ht := by omega
        rw [hpos, subPath_left ls (Nat.zero_le _) (by omega), ← this.2, e2]
        exact ⟨this.1, rfl⟩

end
end Sia.ElemAcc

namespace Sia.ElemAcc
section
variable {H : Type} [Hasher H] [Inhabited H]

/-- The forest an accumulator denotes: entries of `trees` at heights without a tree are
    stale in the Go array and are masked. -/
def Acc.toForest (acc : Acc H) : Forest H where
  numLeaves := acc.numLeaves
  trees := fun h => if hasTree acc.numLeaves h then some (acc.trees h) else none

theorem toForest_eq_iff (acc : Acc H) (ls : List H) :
    acc.toForest = forestOf ls ↔
      acc.numLeaves = ls.length ∧
      ∀ h, ls.length.testBit h = true → acc.trees h = subRoot ls h (treeStart ls.length h) := by
  constructor
  · intro h
    have h1 : acc.numLeaves = ls.length := congrArg Forest.numLeaves h
    refine ⟨h1, fun k hk => ?_⟩
    have h2 := congrFun (congrArg Forest.trees h) k
    simp only [Acc.toForest, forestOf, h1, hasTree, hk, if_true] at h2
    exact Option.some.inj h2
  · rintro ⟨h1, h2⟩
    simp only [Acc.toForest, forestOf, h1]
    congr 1
    funext k
    by_cases hk : ls.length.testBit k = true
    · simp [hasTree, hk, h2 k hk]
    · simp [hasTree, hk]

end
end Sia.ElemAcc
