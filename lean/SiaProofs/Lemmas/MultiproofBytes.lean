/-
  SiaProofs.Lemmas.MultiproofBytes — the byte-level round trip of
  V2TransactionsMultiproof over an abstract transaction-set codec.
-/
import SiaModel.Merkle.MultiproofBytes
import SiaProofs.Lemmas.Multiproof
import SiaProofs.Lemmas.CodecPrim
set_option linter.unusedSectionVars false
namespace Sia.Multiproof
open Sia.Codec Sia.ElemAcc

/-- the laws of a transaction-set codec: the proofs are a lens, the plain codec round-trips -/
structure TxSetOK {T : Type} (ops : TxSetOps T) (CanonP : T → Prop) (Good : T → Prop) : Prop where
  leaves_set : ∀ t (ps : List (List Hash32)), Good t → ps.length = (ops.leaves t).length →
    ops.leaves (ops.setProofs t ps) = List.zipWith (fun l p => { l with proof := p }) (ops.leaves t) ps
  set_self : ∀ t, Good t → ops.setProofs t ((ops.leaves t).map (·.proof)) = t
  set_set : ∀ t ps qs, ps.length = (ops.leaves t).length → qs.length = (ops.leaves t).length →
    ops.setProofs (ops.setProofs t ps) qs = ops.setProofs t qs
  tags : ∀ t, ∀ a ∈ ops.leaves t, ∀ b ∈ ops.leaves t, a.tag = b.tag → a = b
  roundtrip : ∀ t rest, CanonP t → ops.decP (ops.encP t ++ rest) = .ok (t, rest)

theorem readHashes_flatten (hs : List Hash32) (rest : Bytes) :
    readHashes hs.length ((hs.map (·.val)).flatten ++ rest) = .ok (hs, rest) := by
  induction hs with
  | nil => simp [readHashes]
  | cons h t ih =>
    obtain ⟨hb, hl⟩ := h
    simp only [List.length_cons, List.map_cons, List.flatten_cons, readHashes, List.append_assoc]
    have h1 : 32 ≤ (hb ++ ((t.map (·.val)).flatten ++ rest)).length := by simp [hl]
    rw [dif_pos h1]
    generalize (t.map (·.val)).flatten ++ rest = more at *
    have h2 : (hb ++ more).drop 32 = more := by
      have := List.drop_left (l₁ := hb) (l₂ := more)
      rwa [hl] at this
    have h3 : (hb ++ more).take 32 = hb := by
      have := List.take_left (l₁ := hb) (l₂ := more)
      rwa [hl] at this
    simp only [h2, ih]
    congr 3
    apply Subtype.ext
    exact h3

theorem foldl_or_lt {α : Type} (f : α → Nat) (l : List α) (acc : Nat) (hacc : acc < 2 ^ 64)
    (hf : ∀ x ∈ l, f x < 2 ^ 64) : l.foldl (fun a x => a ||| f x) acc < 2 ^ 64 := by
  induction l generalizing acc with
  | nil => exact hacc
  | cons a t ih =>
    simp only [List.foldl_cons]
    exact ih _ (Nat.or_lt_two_pow hacc (hf a (by simp))) (fun x hx => hf x (List.mem_cons_of_mem _ hx))

section
variable {T : Type} [Hasher Hash32]

theorem inferNumLeaves_lt (leaves : List (MLeaf Hash32)) (h : ∀ l ∈ leaves, l.index < 2 ^ 64 ∧ l.proof.length < 64) :
    inferNumLeaves leaves < 2 ^ 64 := by
  unfold inferNumLeaves
  apply foldl_or_lt (fun l : MLeaf Hash32 => clearBits l.index l.proof.length ||| 2 ^ l.proof.length) leaves 0 (by omega)
  intro l hl
  obtain ⟨h1, h2⟩ := h l hl
  apply Nat.or_lt_two_pow
  · unfold clearBits; omega
  · exact Nat.pow_lt_pow_right (by omega) h2

theorem zipWith_const_nil (ls : List (MLeaf Hash32)) :
    List.zipWith (fun (l : MLeaf Hash32) (p : List Hash32) => ({ l with proof := p } : MLeaf Hash32)) ls (ls.map fun _ => []) =
      ls.map fun l => { l with proof := [] } := by
  induction ls with
  | nil => rfl
  | cons a t ih => simp [ih]

/-- **Byte-level round trip of the multiproof codec**, for any transaction-set codec that
    satisfies `TxSetOK`. -/
theorem bytes_roundtrip (ops : TxSetOps T) (CanonP Good : T → Prop) (ok : TxSetOK ops CanonP Good)
    (ls : List Hash32) (t : T) (hgood : Good t) (hv : ∀ l ∈ ops.leaves t, Valid ls l) (hn : ls.length < 2 ^ 64)
    (hcanon : CanonP (ops.strip t)) (tail : Bytes) :
    decodeBytes ops (encodeBytes ops t ++ tail) = .ok (t, tail) := by
  have hlen0 : ((ops.leaves t).map fun _ => ([] : List Hash32)).length = (ops.leaves t).length := by simp
  have hstripLeaves : ops.leaves (ops.strip t) = (ops.leaves t).map fun l => { l with proof := [] } := by
    unfold TxSetOps.strip
    rw [ok.leaves_set t _ hgood hlen0, zipWith_const_nil]
  have hNlt : inferNumLeaves (ops.leaves t) < W64 := by
    have := inferNumLeaves_lt (ops.leaves t) (fun l hl => by
      have v := hv l hl
      exact ⟨by have := v.lt; omega, valid_len_lt ls hn v⟩)
    unfold W64; omega
  have hin : ∀ l ∈ ops.leaves t, InTree ls.length l.proof.length l.index := by
    intro l hl
    have v := hv l hl
    have := treeHeight_spec v.lt
    rw [v.proof, path_length]; exact this
  have hrec := numLeaves_recovers ls.length (fun l : MLeaf Hash32 => l.index) (fun l => l.proof.length) (ops.leaves t) hin
  simp only at hrec
  have hN : inferNumLeaves (ops.leaves t) =
      (ops.leaves t).foldl (fun acc l => acc ||| (clearBits l.index l.proof.length ||| 2 ^ l.proof.length)) 0 := rfl
  rw [← hN] at hrec
  have hsized : sizeProofs ((ops.leaves t).map fun l => ({ l with proof := [] } : MLeaf Hash32)) (inferNumLeaves (ops.leaves t)) =
      (ops.leaves t).map zeroProof := by
    unfold sizeProofs
    rw [List.map_map]
    apply List.map_congr_left
    intro l hl
    simp only [Function.comp, zeroProof]
    rw [(hrec l hl).2]
  have hany : (((ops.leaves t).map fun l => ({ l with proof := [] } : MLeaf Hash32)).any
      fun l => decide (l.index ≥ inferNumLeaves (ops.leaves t))) = false := by
    rw [List.any_eq_false]
    intro l hl
    obtain ⟨l1, hl1, rfl⟩ := List.mem_map.1 hl
    have := (hrec l1 hl1).1
    simp; omega
  obtain ⟨e1, e2⟩ := expand_compute ls (ops.leaves t) hv (ok.tags t) hn zeroProof zeroProof_shape
  unfold encodeBytes decodeBytes
  rw [List.append_assoc, ok.roundtrip _ _ hcanon]
  simp only []
  rw [List.append_assoc, readU64_append hNlt]
  simp only [hstripLeaves, hany, hsized, Bool.false_eq_true, if_false]
  rw [← e2, readHashes_flatten]
  simp only [e1]
  unfold TxSetOps.strip
  rw [ok.set_set t _ _ hlen0 (by simp), ok.set_self t hgood]

end

end Sia.Multiproof
