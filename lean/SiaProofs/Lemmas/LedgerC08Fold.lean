import SiaModel.Ledger.Model
/-!
# Generic lemmas about the `VM = Except Fail` monad, `for … in` loops and `foldlM`
used by the C02 / C07 / C08 proofs about the ledger model.
-/
namespace Sia.Ledger

/-- `omega` does not look through the `Cur`/`Id`/`Addr` abbreviations of `Nat` -/
macro "cur_omega" : tactic => `(tactic| ((try simp only [Cur, Id, Addr] at *); omega))

instance {α} [DecidableEq α] : DecidableEq (VM α) := fun a b =>
  match a, b with
  | .ok x, .ok y => if h : x = y then isTrue (by rw [h]) else isFalse (by intro h'; cases h'; exact h rfl)
  | .error x, .error y => if h : x = y then isTrue (by rw [h]) else isFalse (by intro h'; cases h'; exact h rfl)
  | .ok _, .error _ => isFalse (by intro h; cases h)
  | .error _, .ok _ => isFalse (by intro h; cases h)

/-- the computation ends in a (non-panicking) rejection -/
def Rejected {α} (x : VM α) : Prop := ∃ msg, x = .error (.reject msg)
/-- the computation is not accepted (it rejects or panics) -/
def NotOk {α} (x : VM α) : Prop := ∀ r, x ≠ .ok r
/-- the computation does not panic -/
def NoPanic {α} (x : VM α) : Prop := ∀ msg, x ≠ .error (.panic msg)

theorem Rejected.notOk {α} {x : VM α} (h : Rejected x) : NotOk x := by
  obtain ⟨m, rfl⟩ := h; intro r hr; cases hr

theorem Rejected.noPanic {α} {x : VM α} (h : Rejected x) : NoPanic x := by
  obtain ⟨m, rfl⟩ := h; intro r hr; cases hr

theorem rejected_of_notOk_noPanic {α} {x : VM α} (h : NotOk x) (hp : NoPanic x) : Rejected x := by
  cases x with
  | ok a => exact absurd rfl (h a)
  | error e => cases e with
    | reject m => exact ⟨m, rfl⟩
    | panic m => exact absurd rfl (hp m)

theorem notOk_iff_error {α} {x : VM α} : NotOk x ↔ ∃ e, x = .error e := by
  cases x with
  | ok a => exact ⟨fun h => absurd rfl (h a), fun ⟨e, h⟩ => by cases h⟩
  | error e => exact ⟨fun _ => ⟨e, rfl⟩, fun _ r h => by cases h⟩

@[simp] theorem rejected_reject {α} (m : String) : Rejected (reject m : VM α) := ⟨m, rfl⟩
@[simp] theorem notOk_reject {α} (m : String) : NotOk (reject m : VM α) := (rejected_reject m).notOk
@[simp] theorem noPanic_reject {α} (m : String) : NoPanic (reject m : VM α) := (rejected_reject m).noPanic
@[simp] theorem noPanic_ok {α} (a : α) : NoPanic (Except.ok a : VM α) := by intro m h; cases h
@[simp] theorem noPanic_pure {α} (a : α) : NoPanic (pure a : VM α) := by intro m h; cases h
@[simp] theorem reject_ne_ok {α} (m : String) (a : α) : (reject m : VM α) ≠ .ok a := by intro h; cases h
@[simp] theorem gopanic_ne_ok {α} (m : String) (a : α) : (gopanic m : VM α) ≠ .ok a := by intro h; cases h
@[simp] theorem pure_eq_ok {α} (a b : α) : ((pure a : VM α) = .ok b) ↔ b = a := by
  constructor
  · intro h; cases h; rfl
  · rintro rfl; rfl
@[simp] theorem ok_eq_ok {α} (a b : α) : ((Except.ok a : VM α) = .ok b) ↔ b = a := by
  constructor
  · intro h; cases h; rfl
  · rintro rfl; rfl

theorem bind_ok_iff {α β} {x : VM α} {f : α → VM β} {r : β} :
    (x >>= f) = .ok r ↔ ∃ a, x = .ok a ∧ f a = .ok r := by
  cases x with
  | ok a => simp [bind, Except.bind]
  | error e => simp [bind, Except.bind]

theorem bind_unit_ok_iff {β} {x : VM PUnit} {f : PUnit → VM β} {r : β} :
    (x >>= f) = .ok r ↔ x = .ok ⟨⟩ ∧ f ⟨⟩ = .ok r := by
  rw [bind_ok_iff]; constructor
  · rintro ⟨⟨⟩, h⟩; exact h
  · intro h; exact ⟨⟨⟩, h⟩

theorem bind_rejected_left {α β} {x : VM α} (f : α → VM β) (h : Rejected x) : Rejected (x >>= f) := by
  obtain ⟨m, rfl⟩ := h; exact ⟨m, rfl⟩

theorem bind_notOk_left {α β} {x : VM α} (f : α → VM β) (h : NotOk x) : NotOk (x >>= f) := by
  intro r hr; obtain ⟨a, ha, _⟩ := bind_ok_iff.1 hr; exact h a ha

theorem bind_notOk_right {α β} (x : VM α) {f : α → VM β} (h : ∀ a, x = .ok a → NotOk (f a)) : NotOk (x >>= f) := by
  intro r hr; obtain ⟨a, ha, hf⟩ := bind_ok_iff.1 hr; exact h a ha r hf

theorem bind_noPanic {α β} {x : VM α} {f : α → VM β} (hx : NoPanic x) (hf : ∀ a, x = .ok a → NoPanic (f a)) :
    NoPanic (x >>= f) := by
  cases x with
  | ok a => exact hf a rfl
  | error e => intro m h; exact hx m (by simpa [bind, Except.bind] using h)

theorem bind_rejected_right {α β} {x : VM α} {f : α → VM β} (hx : NoPanic x)
    (hf : ∀ a, x = .ok a → Rejected (f a)) : Rejected (x >>= f) := by
  cases x with
  | ok a => exact hf a rfl
  | error e => cases e with
    | reject m => exact ⟨m, rfl⟩
    | panic m => exact absurd rfl (hx m)

/-- if `x` is ok or rejected then `x >>= f` is rejected as soon as every continuation is -/
theorem bind_rejected_of {α β} {x : VM α} {f : α → VM β} (hx : NoPanic x)
    (hf : ∀ a, Rejected (f a)) : Rejected (x >>= f) := bind_rejected_right hx (fun a _ => hf a)

theorem ok_bind {α β} (a : α) (f : α → VM β) : ((Except.ok a : VM α) >>= f) = f a := rfl

theorem addC_ok_iff (a b c : Cur) : addC a b = .ok c ↔ (c = a + b ∧ a + b < curLimit) := by
  unfold addC
  split
  · simp [*]
  · simp [*]

theorem addC_eq_ok {a b : Cur} (h : a + b < curLimit) : addC a b = .ok (a + b) :=
  (addC_ok_iff a b _).2 ⟨rfl, h⟩

theorem subC_ok_iff (a b c : Cur) : subC a b = .ok c ↔ (c = a - b ∧ b ≤ a) := by
  unfold subC
  split
  · simp [*]
  · simp [*]

theorem reject_bind {α β} (m : String) (f : α → VM β) : (reject m >>= f) = reject m := rfl
theorem gopanic_bind {α β} (m : String) (f : α → VM β) : (gopanic m >>= f) = gopanic m := rfl

theorem ite_bind' {α β} (c : Prop) [Decidable c] (a b : VM α) (f : α → VM β) :
    ((if c then a else b) >>= f) = if c then a >>= f else b >>= f := by split <;> rfl

theorem seq_unit_ok_iff {x y : VM Unit} : (do x; y) = .ok () ↔ (x = .ok () ∧ y = .ok ()) := by
  rw [bind_ok_iff]; constructor
  · rintro ⟨⟨⟩, h⟩; exact h
  · intro h; exact ⟨(), h⟩

theorem ite_reject_ok_iff {α} (c : Prop) [Decidable c] (m : String) (y : VM α) (r : α) :
    (if c then reject m else y) = .ok r ↔ (¬ c ∧ y = .ok r) := by
  split <;> simp_all

theorem ite_reject_noPanic {α} (c : Prop) [Decidable c] (m : String) (y : VM α) (h : NoPanic y) :
    NoPanic (if c then reject m else y) := by
  split <;> simp_all

-- ------------------------------------------------------------------ unit `for` loops

/-- A `for x in l do …` loop without mutable state, whose body never `break`s, succeeds iff every
iteration succeeds. `P` is the acceptance predicate of one iteration. -/
theorem forIn_unit_ok_iff {α} {body : α → PUnit → VM (ForInStep PUnit)} {P : α → Prop}
    (h : ∀ x r, body x ⟨⟩ = .ok r ↔ (r = .yield ⟨⟩ ∧ P x)) (l : List α) :
    forIn l PUnit.unit body = .ok PUnit.unit ↔ ∀ x ∈ l, P x := by
  induction l with
  | nil => simp [pure, Except.pure]
  | cons a l ih =>
    rw [List.forIn_cons, bind_ok_iff]
    constructor
    · rintro ⟨r, hr, hrest⟩
      obtain ⟨rfl, hp⟩ := (h a r).1 hr
      intro x hx
      rcases List.mem_cons.1 hx with rfl | hx
      · exact hp
      · exact ih.1 hrest x hx
    · intro hall
      refine ⟨.yield ⟨⟩, (h a _).2 ⟨rfl, hall a (List.mem_cons_self)⟩, ?_⟩
      exact ih.2 (fun x hx => hall x (List.mem_cons_of_mem _ hx))

/-- the same for a body in the factored form `step x; continue` -/
theorem forIn_step_ok_iff {α} (f : α → VM Unit) (l : List α) :
    forIn l PUnit.unit (fun x _ => f x >>= fun _ => pure (ForInStep.yield PUnit.unit)) = .ok PUnit.unit ↔
      ∀ x ∈ l, f x = .ok () := by
  apply forIn_unit_ok_iff
  intro x r
  rw [bind_ok_iff]
  constructor
  · rintro ⟨⟨⟩, h1, h2⟩; simp at h2; exact ⟨h2, h1⟩
  · rintro ⟨rfl, h⟩; exact ⟨(), h, rfl⟩

theorem forIn_step_noPanic {α} (f : α → VM Unit) (h : ∀ x, NoPanic (f x)) (l : List α) :
    NoPanic (forIn l PUnit.unit (fun x _ => f x >>= fun _ => pure (ForInStep.yield PUnit.unit))) := by
  induction l with
  | nil => simp [pure, Except.pure]
  | cons a l ih =>
    rw [List.forIn_cons]
    refine bind_noPanic (bind_noPanic (h a) (fun _ _ => by simp)) ?_
    intro r _
    cases r with
    | done b => simp [pure, Except.pure]
    | yield b => exact ih

theorem forIn_unit_noPanic {α} {body : α → PUnit → VM (ForInStep PUnit)}
    (h : ∀ x, NoPanic (body x ⟨⟩)) (l : List α) : NoPanic (forIn l PUnit.unit body) := by
  induction l with
  | nil => simp [pure, Except.pure]
  | cons a l ih =>
    rw [List.forIn_cons]
    refine bind_noPanic (h a) ?_
    intro r _
    cases r with
    | done b => simp [pure, Except.pure]
    | yield b => exact ih

-- ------------------------------------------------------------------ `foldlM` with a determined state

/-- every element satisfies `P` at the state reached by folding `upd` over the elements before it -/
def FoldAll {α β} (P : β → α → Prop) (upd : β → α → β) : β → List α → Prop
  | _, [] => True
  | s, x :: l => P s x ∧ FoldAll P upd (upd s x) l

theorem foldlM_ok_iff {α β} {f : β → α → VM β} {upd : β → α → β} {P : β → α → Prop}
    (h : ∀ s x s', f s x = .ok s' ↔ (s' = upd s x ∧ P s x)) (l : List α) (s s' : β) :
    l.foldlM f s = .ok s' ↔ (s' = l.foldl upd s ∧ FoldAll P upd s l) := by
  induction l generalizing s with
  | nil => simp [FoldAll]
  | cons a l ih =>
    rw [List.foldlM_cons, bind_ok_iff]
    constructor
    · rintro ⟨s1, h1, h2⟩
      obtain ⟨rfl, hp⟩ := (h s a s1).1 h1
      obtain ⟨rfl, hall⟩ := (ih _).1 h2
      exact ⟨rfl, hp, hall⟩
    · rintro ⟨rfl, hp, hall⟩
      exact ⟨upd s a, (h s a _).2 ⟨rfl, hp⟩, (ih _).2 ⟨rfl, hall⟩⟩

theorem foldlM_noPanic {α β} {f : β → α → VM β} (h : ∀ s x, NoPanic (f s x)) (l : List α) (s : β) :
    NoPanic (l.foldlM f s) := by
  induction l generalizing s with
  | nil => simp [pure, Except.pure]
  | cons a l ih =>
    rw [List.foldlM_cons]
    exact bind_noPanic (h s a) (fun s1 _ => ih s1)

/-- `FoldAll` for a "seen list" state: each element's key must be fresh, and the keys are prepended. -/
theorem foldAll_seen_iff {α κ} [DecidableEq κ] (key : α → κ) (Q : α → Prop) (l : List α) (s : List κ) :
    FoldAll (fun s x => key x ∉ s ∧ Q x) (fun s x => key x :: s) s l ↔
      ((∀ x ∈ l, key x ∉ s ∧ Q x) ∧ (l.map key).Nodup) := by
  induction l generalizing s with
  | nil => simp [FoldAll]
  | cons a l ih =>
    simp only [FoldAll, ih, List.mem_cons, List.map_cons, List.nodup_cons, List.mem_map, not_or]
    constructor
    · rintro ⟨⟨h1, h2⟩, h3, h4⟩
      refine ⟨?_, ?_, h4⟩
      · rintro x (rfl | hx)
        · exact ⟨h1, h2⟩
        · exact ⟨(h3 x hx).1.2, (h3 x hx).2⟩
      · rintro ⟨x, hx, hk⟩
        exact (h3 x hx).1.1 hk
    · rintro ⟨h1, h2, h3⟩
      refine ⟨h1 a (Or.inl rfl), ?_, h3⟩
      intro x hx
      refine ⟨⟨?_, (h1 x (Or.inr hx)).1⟩, (h1 x (Or.inr hx)).2⟩
      intro hk
      exact h2 ⟨x, hx, hk⟩

theorem foldl_seen {α κ} (key : α → κ) (l : List α) (s : List κ) :
    l.foldl (fun s x => key x :: s) s = (l.map key).reverse ++ s := by
  induction l generalizing s with
  | nil => simp
  | cons a l ih => simp [ih]

/-- `FoldAll` whose predicate ignores the state -/
theorem foldAll_const_iff {α β} (Q : α → Prop) (upd : β → α → β) (l : List α) (s : β) :
    FoldAll (fun _ x => Q x) upd s l ↔ ∀ x ∈ l, Q x := by
  induction l generalizing s with
  | nil => simp [FoldAll]
  | cons a l ih => simp [FoldAll, ih]

theorem foldAll_and_iff {α β} (P : β → α → Prop) (Q : α → Prop) (upd : β → α → β) (l : List α) (s : β) :
    FoldAll (fun s x => P s x ∧ Q x) upd s l ↔ (FoldAll P upd s l ∧ ∀ x ∈ l, Q x) := by
  induction l generalizing s with
  | nil => simp [FoldAll]
  | cons a l ih =>
    simp only [FoldAll, ih, List.mem_cons, forall_eq_or_imp]
    constructor
    · rintro ⟨⟨h1, h2⟩, h3, h4⟩; exact ⟨⟨h1, h3⟩, h2, h4⟩
    · rintro ⟨⟨h1, h3⟩, h2, h4⟩; exact ⟨⟨h1, h2⟩, h3, h4⟩

theorem foldAll_congr {α β} {P P' : β → α → Prop} {upd : β → α → β} (h : ∀ s x, P s x ↔ P' s x)
    (l : List α) (s : β) : FoldAll P upd s l ↔ FoldAll P' upd s l := by
  induction l generalizing s with
  | nil => simp [FoldAll]
  | cons a l ih => simp only [FoldAll, ih, h]

theorem FoldAll.imp {α β} {P P' : β → α → Prop} {upd : β → α → β} (h : ∀ s x, P s x → P' s x)
    {s : β} {l : List α} (hall : FoldAll P upd s l) : FoldAll P' upd s l := by
  induction l generalizing s with
  | nil => trivial
  | cons a l ih => exact ⟨h _ _ hall.1, ih hall.2⟩

end Sia.Ledger
