import SiaProofs.Lemmas.MerkleRhpConvert
import SiaProofs.Lemmas.MerkleRhpDiffGen
import SiaProofs.Lemmas.StorageProofTree
/-!
  Helper lemmas for C16/C07, part 15: `ConvertProofOrdering` on the UNBALANCED tree over `n` roots.
  The left-to-right single-leaf proof of `BuildSectorRangeProof` (lefts, then rights) is converted
  into the honest leaf-to-root path `spPath` — also where a node on the path has no sibling
  (iterations of the loop that place nothing).
-/
set_option linter.unusedVariables false
set_option linter.unusedSectionVars false
namespace Sia.Rhp
open HashOps Sia.SP

variable {H : Type} [HashOps H]

/-- `Conv sk t idx L R p`: the loop of `ConvertProofOrdering` on index bits `idx`, lefts `L` and
rights `R` emits `p` within `t` iterations and ends with all index bits used; `sk = false` means
that every iteration places a hash (balanced tree) -/
inductive Conv : Bool → Nat → Nat → List H → List H → List H → Prop
  | done (sk : Bool) : Conv sk 0 0 [] [] []
  | left {sk : Bool} {t idx : Nat} {L R p : List H} (x : H) :
      idx % 2 = 1 → Conv sk t (idx / 2) L R p → Conv sk (t + 1) idx (L ++ [x]) R (x :: p)
  | right {sk : Bool} {t idx : Nat} {L R p : List H} (x : H) :
      idx % 2 = 0 → Conv sk t (idx / 2) L R p → Conv sk (t + 1) idx L (x :: R) (x :: p)
  | skip {t idx : Nat} {L p : List H} :
      idx % 2 = 0 → L ≠ [] → Conv true t (idx / 2) L [] p → Conv true (t + 1) idx L [] p

theorem Conv.sound {sk : Bool} {t idx : Nat} {L R p : List H} (h : Conv sk t idx L R p) :
    ∀ fuel, t ≤ fuel → convertLoop fuel idx L R = .ok p := by
  induction h with
  | done sk => intro fuel _; exact convertLoop_nil fuel 0
  | @left sk t idx L R p x hodd _ ih =>
    intro fuel hf
    obtain ⟨f, rfl⟩ : ∃ f, fuel = f + 1 := ⟨fuel - 1, by omega⟩
    simp only [convertLoop]
    have h0 : ¬ ((L ++ [x]).length + R.length = 0) := by simp
    simp only [h0, if_false, hodd, if_true, List.getLast?_append, List.getLast?_singleton, List.dropLast_concat]
    rw [ih f (by omega)]
    simp [bind, Except.bind, pure, Except.pure]
  | @right sk t idx L R p x heven _ ih =>
    intro fuel hf
    obtain ⟨f, rfl⟩ : ∃ f, fuel = f + 1 := ⟨fuel - 1, by omega⟩
    simp only [convertLoop]
    have h0 : ¬ (L.length + (x :: R).length = 0) := by simp
    have h1 : ¬ (idx % 2 = 1) := by omega
    simp only [h0, if_false, h1]
    rw [ih f (by omega)]
    simp [bind, Except.bind, pure, Except.pure]
  | @skip t idx L p heven hne _ ih =>
    intro fuel hf
    obtain ⟨f, rfl⟩ : ∃ f, fuel = f + 1 := ⟨fuel - 1, by omega⟩
    simp only [convertLoop]
    have h0 : ¬ (L.length + ([] : List H).length = 0) := by
      cases L with
      | nil => exact absurd rfl hne
      | cons a l => simp
    have h1 : ¬ (idx % 2 = 1) := by omega
    simp only [h0, if_false, h1]
    exact ih f (by omega)

theorem Conv.mono {t idx : Nat} {L R p : List H} (h : Conv false t idx L R p) : Conv true t idx L R p := by
  generalize hsk : false = sk at h
  induction h with
  | done sk => exact Conv.done true
  | left x ho _ ih => exact Conv.left x ho (ih hsk)
  | right x he _ ih => exact Conv.right x he (ih hsk)
  | skip _ _ _ _ => cases hsk

/-- a right sibling above a balanced subtree -/
theorem Conv.snoc_right {t idx : Nat} {L R p : List H} (h : Conv false t idx L R p) (Y : H) :
    Conv false (t + 1) idx L (R ++ [Y]) (p ++ [Y]) := by
  generalize hsk : false = sk at h
  induction h with
  | done sk =>
    subst hsk
    have := Conv.right (sk := false) (t := 0) (idx := 0) (L := []) (R := []) (p := []) Y (by decide) (Conv.done false)
    simpa using this
  | left x ho _ ih => subst hsk; exact Conv.left x ho (ih rfl)
  | right x he _ ih => subst hsk; exact Conv.right x he (ih rfl)
  | skip _ _ _ _ => cases hsk

theorem pow_half (T : Nat) (idx : Nat) : (idx + 2 ^ (T + 1)) / 2 = idx / 2 + 2 ^ T ∧ (idx + 2 ^ (T + 1)) % 2 = idx % 2 := by
  rw [two_pow_succ']; omega

/-- a left sibling above a balanced subtree of height `t` -/
theorem Conv.cons_left_perfect {t idx : Nat} {L R p : List H} (h : Conv false t idx L R p) (X : H) :
    Conv false (t + 1) (idx + 2 ^ t) (X :: L) R (p ++ [X]) := by
  generalize hsk : false = sk at h
  induction h with
  | done sk =>
    subst hsk
    have := Conv.left (sk := false) (t := 0) (idx := 1) (L := []) (R := []) (p := []) X (by decide) (Conv.done false)
    simpa using this
  | @left sk t idx L R p x ho _ ih =>
    subst hsk
    have hh := pow_half t idx
    have := Conv.left (sk := false) (idx := idx + 2 ^ (t + 1)) x (by rw [hh.2]; exact ho) (by rw [hh.1]; exact ih rfl)
    simpa using this
  | @right sk t idx L R p x he _ ih =>
    subst hsk
    have hh := pow_half t idx
    exact Conv.right (sk := false) (idx := idx + 2 ^ (t + 1)) x (by rw [hh.2]; exact he) (by rw [hh.1]; exact ih rfl)
  | skip _ _ _ _ => cases hsk

theorem Conv.skipTo (X : H) : ∀ d, Conv true (d + 1) (2 ^ d) [X] [] [X] := by
  intro d
  induction d with
  | zero =>
    have := Conv.left (sk := true) (t := 0) (idx := 1) (L := []) (R := []) (p := []) X (by decide) (Conv.done true)
    simpa using this
  | succ d ih =>
    have e : 2 ^ (d + 1) / 2 = 2 ^ d := by rw [two_pow_succ']; omega
    have e2 : 2 ^ (d + 1) % 2 = 0 := by rw [two_pow_succ']; omega
    exact Conv.skip e2 (by simp) (by rw [e]; exact ih)

/-- a left sibling above any subtree that is finished after `t ≤ T` iterations -/
theorem Conv.cons_left {t idx : Nat} {L R p : List H} (h : Conv true t idx L R p) (X : H) :
    ∀ T, t ≤ T → Conv true (T + 1) (idx + 2 ^ T) (X :: L) R (p ++ [X]) := by
  generalize hsk : true = sk at h
  induction h with
  | done sk =>
    intro T _
    subst hsk
    have := Conv.skipTo X T
    simpa using this
  | @left sk t idx L R p x ho _ ih =>
    intro T hT
    subst hsk
    obtain ⟨T', rfl⟩ : ∃ T', T = T' + 1 := ⟨T - 1, by omega⟩
    have hh := pow_half T' idx
    have := Conv.left (sk := true) (idx := idx + 2 ^ (T' + 1)) x (by rw [hh.2]; exact ho) (by rw [hh.1]; exact ih rfl T' (by omega))
    simpa using this
  | @right sk t idx L R p x he _ ih =>
    intro T hT
    subst hsk
    obtain ⟨T', rfl⟩ : ∃ T', T = T' + 1 := ⟨T - 1, by omega⟩
    have hh := pow_half T' idx
    exact Conv.right (sk := true) (idx := idx + 2 ^ (T' + 1)) x (by rw [hh.2]; exact he) (by rw [hh.1]; exact ih rfl T' (by omega))
  | @skip t idx L p he hne _ ih =>
    intro T hT
    obtain ⟨T', rfl⟩ : ∃ T', T = T' + 1 := ⟨T - 1, by omega⟩
    have hh := pow_half T' idx
    exact Conv.skip (by rw [hh.2]; exact he) (by simp) (by rw [hh.1]; exact ih rfl T' (by omega))

/-! ### how the left-to-right proof of a tree decomposes into those of its two halves -/

theorem tz_shift {T a : Nat} (h0 : 0 < a) (ha : a < 2 ^ T) : tz (2 ^ T + a) = tz a := by
  have hane : a ≠ 0 := by omega
  have hle := two_pow_tz_le hane
  have htT : tz a < T := by
    have : 2 ^ tz a < 2 ^ T := by omega
    exact (Nat.pow_lt_pow_iff_right (by omega)).1 this
  apply tz_unique (by omega)
  · exact Nat.dvd_add (Nat.pow_dvd_pow 2 (by omega)) (tz_dvd hane)
  · intro h
    have d1 : 2 ^ (tz a + 1) ∣ 2 ^ T := Nat.pow_dvd_pow 2 (by omega)
    have d2 : 2 ^ (tz a + 1) ∣ a := (Nat.dvd_add_right d1).1 h
    have := (pow_dvd_iff_le_tz (tz a + 1) a hane).1 d2
    omega

/-- `nextSubtreeSize` inside the right half is the one of the shifted indices -/
theorem nss_shift {T a b : Nat} (hab : a < b) (hb : b ≤ 2 ^ T) :
    nextSubtreeSize (2 ^ T + a) (2 ^ T + b) = nextSubtreeSize a b := by
  have hp := Nat.two_pow_pos T
  unfold nextSubtreeSize
  have e : 2 ^ T + b - (2 ^ T + a) = b - a := by omega
  simp only [e]
  have hne : ¬ (2 ^ T + a = 0) := by omega
  by_cases h0 : a = 0
  · subst h0
    simp only [Nat.add_zero, Nat.sub_zero, tz_two_pow]
    have hne' : ¬ (2 ^ T = 0) := by omega
    have hlog : b.log2 ≤ T := by
      have hb2 : b < 2 ^ (T + 1) := by rw [two_pow_succ']; omega
      have := (Nat.log2_lt (by omega : b ≠ 0)).2 hb2
      omega
    by_cases hgt : T > b.log2
    · simp [hne', hgt]
    · have : b.log2 = T := by omega
      simp [hne', this]
  · rw [tz_shift (by omega) (by omega)]
    simp [hne, h0]

theorem getElem?_take_lt (ls : List H) (k x : Nat) (hx : x < k) : (ls.take k)[x]? = ls[x]? := by
  rw [List.getElem?_take]; simp [hx]

/-- i in the left half: the lefts are those of the left half -/
theorem lefts_left (ls : List H) (k i : Nat) (hik : i ≤ k) (hk : k ≤ ls.length) :
    buildRange ls 0 i = buildRange (ls.take k) 0 i :=
  buildRange_congr ls (ls.take k) i (by omega) (by simp [List.length_take]; omega) i 0 rfl
    (fun x _ hx => getElem?_take_lt ls k x (by omega))

/-- i in the left half: the rights are those of the left half followed by the root of the right half -/
theorem rights_left (ls : List H) (T J : Nat) (h1 : 2 ^ T < ls.length) (h2 : ls.length ≤ 2 ^ (T + 1))
    (hJ : 2 * (ls.length - 1) ≤ J) :
    ∀ (d x : Nat), 2 ^ T - x = d → 0 < x → x ≤ 2 ^ T →
      buildRange ls x J = buildRange (ls.take (2 ^ T)) x J ++ [metaRoot (ls.drop (2 ^ T))] := by
  have hp := Nat.two_pow_pos T
  rw [two_pow_succ'] at h2
  have hlenL : (ls.take (2 ^ T)).length = 2 ^ T := by simp [List.length_take]; omega
  intro d
  induction d using Nat.strongRecOn with
  | _ d ih =>
    intro x hd hx0 hxk
    by_cases hlt : x < 2 ^ T
    · have hfit := pow2_step hx0 hlt
      have hpx := Nat.two_pow_pos (tz x)
      have e1 : nextSubtreeSize x J = 2 ^ tz x := nss_big hx0 (by omega)
      rw [buildRange_step ls x J ⟨by omega, by omega⟩, buildRange_step (ls.take (2 ^ T)) x J ⟨by omega, by rw [hlenL]; exact hlt⟩, e1]
      have n1 : ¬ (x + 2 ^ tz x > ls.length) := by omega
      have n2 : ¬ (x + 2 ^ tz x > (ls.take (2 ^ T)).length) := by rw [hlenL]; omega
      simp only [n1, n2, if_false, List.cons_append]
      rw [ih (2 ^ T - (x + 2 ^ tz x)) (by omega) _ rfl (by omega) hfit]
      congr 2
      have := seg_eq_of_agree ls (ls.take (2 ^ T)) x (x + 2 ^ tz x) (by omega) (by rw [hlenL]; exact hfit)
        (fun j _ hj => getElem?_take_lt ls (2 ^ T) j (by omega))
      have e : x + 2 ^ tz x - x = 2 ^ tz x := by omega
      rw [e] at this
      exact this
    · have hxe : x = 2 ^ T := by omega
      subst hxe
      have e1 : nextSubtreeSize (2 ^ T) J = 2 ^ T := by rw [nss_big hp (by omega), tz_two_pow]
      rw [buildRange_step ls (2 ^ T) J ⟨by omega, h1⟩, e1]
      rw [buildRange_done (ls.take (2 ^ T)) (2 ^ T) J (by rw [hlenL]; omega)]
      have hsz : (if 2 ^ T + 2 ^ T > ls.length then ls.length - 2 ^ T else 2 ^ T) = ls.length - 2 ^ T := by
        by_cases hc : 2 ^ T + 2 ^ T > ls.length
        · simp [hc]
        · simp [hc]; omega
      rw [hsz]
      have e2 : 2 ^ T + (ls.length - 2 ^ T) = ls.length := by omega
      rw [e2, buildRange_done ls ls.length J (by omega)]
      simp only [List.nil_append]
      congr 2
      apply List.take_of_length_le; simp

/-- walks inside the right half are walks of the right half (between bounds inside it) -/
theorem buildRange_shift (ls : List H) (T : Nat) (hk : 2 ^ T ≤ ls.length) :
    ∀ (d a b : Nat), b - a = d → b ≤ 2 ^ T →
      buildRange ls (2 ^ T + a) (2 ^ T + b) = buildRange (ls.drop (2 ^ T)) a b := by
  intro d
  induction d using Nat.strongRecOn with
  | _ d ih =>
    intro a b hd hb
    have hlenR : (ls.drop (2 ^ T)).length = ls.length - 2 ^ T := by simp
    by_cases hc : a < b ∧ 2 ^ T + a < ls.length
    · have hn := nextSubtreeSize_pos a b
      rw [buildRange_step ls _ _ ⟨by omega, hc.2⟩, buildRange_step (ls.drop (2 ^ T)) a b ⟨hc.1, by rw [hlenR]; omega⟩,
        nss_shift hc.1 hb, hlenR]
      have hcl : (2 ^ T + a + nextSubtreeSize a b > ls.length) ↔ (a + nextSubtreeSize a b > ls.length - 2 ^ T) := by omega
      by_cases hclip : a + nextSubtreeSize a b > ls.length - 2 ^ T
      · have hclip' := hcl.2 hclip
        simp only [hclip, hclip', if_true]
        rw [List.drop_drop]
        have e : ls.length - (2 ^ T + a) = ls.length - 2 ^ T - a := by omega
        rw [e]
        congr 1
        have e2 : 2 ^ T + a + (ls.length - 2 ^ T - a) = ls.length := by omega
        have e3 : a + (ls.length - 2 ^ T - a) = (ls.drop (2 ^ T)).length := by rw [hlenR]; omega
        rw [e2, e3, buildRange_done ls ls.length _ (by omega), buildRange_done (ls.drop (2 ^ T)) _ b (by omega)]
      · have hclip' : ¬ (2 ^ T + a + nextSubtreeSize a b > ls.length) := fun h => hclip (hcl.1 h)
        simp only [hclip, hclip', if_false]
        rw [List.drop_drop]
        congr 1
        have e : 2 ^ T + a + nextSubtreeSize a b = 2 ^ T + (a + nextSubtreeSize a b) := by omega
        rw [e]
        exact ih (b - (a + nextSubtreeSize a b)) (by omega) _ b rfl hb
    · rw [buildRange_done ls _ _ (by omega), buildRange_done (ls.drop (2 ^ T)) a b (by rw [hlenR]; omega)]

/-- i in the right half: the lefts are the root of the left half followed by those of the right half -/
theorem lefts_right (ls : List H) (T i : Nat) (h1 : 2 ^ T ≤ i) (h2 : i < 2 ^ (T + 1)) (hi : i ≤ ls.length) :
    buildRange ls 0 i = metaRoot (ls.take (2 ^ T)) :: buildRange (ls.drop (2 ^ T)) 0 (i - 2 ^ T) := by
  have hp := Nat.two_pow_pos T
  have hlog : i.log2 = T := by
    rw [Nat.log2_eq_iff (by omega)]; exact ⟨h1, h2⟩
  have e1 : nextSubtreeSize 0 i = 2 ^ T := by
    unfold nextSubtreeSize; simp [hlog]
  have hsh := buildRange_shift ls T (by omega) (i - 2 ^ T) 0 (i - 2 ^ T) rfl (by rw [two_pow_succ'] at h2; omega)
  simp only [Nat.add_zero] at hsh
  have e : 2 ^ T + (i - 2 ^ T) = i := by omega
  rw [e] at hsh
  rw [buildRange_step ls 0 i ⟨by omega, by omega⟩, e1]
  have n1 : ¬ (2 ^ T > ls.length) := by omega
  simp only [Nat.zero_add, n1, if_false, List.drop_zero]
  rw [hsh]

/-- i in the right half: the rights are those of the right half -/
theorem rights_right (ls : List H) (T J : Nat) (h1 : 2 ^ T < ls.length) (h2 : ls.length ≤ 2 ^ (T + 1))
    (hJ : 2 * (ls.length - 1) ≤ J) :
    ∀ (d a : Nat), ls.length - 2 ^ T - a = d → 0 < a →
      buildRange ls (2 ^ T + a) J = buildRange (ls.drop (2 ^ T)) a J := by
  have hp := Nat.two_pow_pos T
  rw [two_pow_succ'] at h2
  have hlenR : (ls.drop (2 ^ T)).length = ls.length - 2 ^ T := by simp
  intro d
  induction d using Nat.strongRecOn with
  | _ d ih =>
    intro a hd ha0
    by_cases hlt : 2 ^ T + a < ls.length
    · have haT : a < 2 ^ T := by omega
      have hpa := Nat.two_pow_pos (tz a)
      have e1 : nextSubtreeSize (2 ^ T + a) J = 2 ^ tz a := by rw [nss_big (by omega) (by omega), tz_shift ha0 haT]
      have e2 : nextSubtreeSize a J = 2 ^ tz a := nss_big ha0 (by omega)
      rw [buildRange_step ls _ J ⟨by omega, hlt⟩, buildRange_step (ls.drop (2 ^ T)) a J ⟨by omega, by rw [hlenR]; omega⟩,
        e1, e2, hlenR]
      have hcl : (2 ^ T + a + 2 ^ tz a > ls.length) ↔ (a + 2 ^ tz a > ls.length - 2 ^ T) := by omega
      by_cases hclip : a + 2 ^ tz a > ls.length - 2 ^ T
      · have hclip' := hcl.2 hclip
        simp only [hclip, hclip', if_true]
        rw [List.drop_drop]
        have e : ls.length - (2 ^ T + a) = ls.length - 2 ^ T - a := by omega
        rw [e]
        congr 1
        have e2' : 2 ^ T + a + (ls.length - 2 ^ T - a) = ls.length := by omega
        have e3 : a + (ls.length - 2 ^ T - a) = (ls.drop (2 ^ T)).length := by rw [hlenR]; omega
        rw [e2', e3, buildRange_done ls ls.length J (by omega), buildRange_done (ls.drop (2 ^ T)) _ J (by omega)]
      · have hclip' : ¬ (2 ^ T + a + 2 ^ tz a > ls.length) := fun h => hclip (hcl.1 h)
        simp only [hclip, hclip', if_false]
        rw [List.drop_drop]
        congr 1
        have e : 2 ^ T + a + 2 ^ tz a = 2 ^ T + (a + 2 ^ tz a) := by omega
        rw [e]
        exact ih (ls.length - 2 ^ T - (a + 2 ^ tz a)) (by omega) _ rfl (by omega)
    · rw [buildRange_done ls _ J (by omega), buildRange_done (ls.drop (2 ^ T)) a J (by rw [hlenR]; omega)]


/-! ### the conversion of the honest left-to-right proof is the honest leaf-to-root path -/

theorem conv_spPath (J : Nat) : ∀ (n : Nat) (ls : List H) (i : Nat), ls.length = n → i < n → 2 * (n - 1) ≤ J →
    (∀ h, n ≤ 2 ^ h → ∃ t, t ≤ h ∧ Conv true t i (buildRange ls 0 i) (buildRange ls (i + 1) J) (spPath ls i)) ∧
    (∀ T, n = 2 ^ T → Conv false T i (buildRange ls 0 i) (buildRange ls (i + 1) J) (spPath ls i)) := by
  intro n
  induction n using Nat.strongRecOn with
  | _ n ih =>
    intro ls i hn hi hJ
    by_cases hs : ls.length < 2
    · have h1 : n = 1 := by omega
      subst h1
      have hi0 : i = 0 := by omega
      subst hi0
      rw [buildRange_done ls 0 0 (by omega), buildRange_done ls (0 + 1) J (by omega), spPath_small ls 0 hs]
      refine ⟨fun h _ => ⟨0, Nat.zero_le _, Conv.done true⟩, ?_⟩
      intro T hT
      have : T = 0 := by
        cases T with
        | zero => rfl
        | succ T => rw [two_pow_succ'] at hT; have := Nat.two_pow_pos T; omega
      subst this
      exact Conv.done false
    · obtain ⟨hk, hlo, hhi⟩ := split_facts (n := ls.length) (by omega)
      have hp := Nat.two_pow_pos (ls.length - 1).log2
      have hhi' := hhi
      rw [two_pow_succ'] at hhi'
      generalize hT0 : (ls.length - 1).log2 = T0 at *
      have hlt1 : 2 ^ T0 < ls.length := by omega
      have hle2 : ls.length ≤ 2 ^ (T0 + 1) := by rw [two_pow_succ']; omega
      -- T0 + 1 is the height of this tree
      have hheight : ∀ h, n ≤ 2 ^ h → T0 + 1 ≤ h := by
        intro h hh
        have : 2 ^ T0 < 2 ^ h := by omega
        have := (Nat.pow_lt_pow_iff_right (by omega : 1 < 2)).1 this
        omega
      have hperf : ∀ T, n = 2 ^ T → T = T0 + 1 := by
        intro T hT
        have a1 : 2 ^ T0 < 2 ^ T := by omega
        have a2 : 2 ^ T ≤ 2 ^ (T0 + 1) := by omega
        have b1 := (Nat.pow_lt_pow_iff_right (by omega : 1 < 2)).1 a1
        have b2 : T ≤ T0 + 1 := by
          apply Nat.le_of_not_lt
          intro hgt
          have := Nat.pow_lt_pow_right (a := 2) (by omega) hgt
          omega
        omega
      by_cases hik : i < 2 ^ T0
      · -- left (perfect) half
        have hlenL : (ls.take (2 ^ T0)).length = 2 ^ T0 := by simp [List.length_take]; omega
        have hrec := (ih (2 ^ T0) (by omega) (ls.take (2 ^ T0)) i hlenL hik (by omega)).2 T0 rfl
        have hc := hrec.snoc_right (metaRoot (ls.drop (2 ^ T0)))
        rw [← lefts_left ls (2 ^ T0) i (by omega) (by omega),
          ← rights_left ls T0 J hlt1 hle2 (by omega) (2 ^ T0 - (i + 1)) (i + 1) rfl (by omega) (by omega)] at hc
        have hsp : spPath ls i = spPath (ls.take (2 ^ T0)) i ++ [metaRoot (ls.drop (2 ^ T0))] := by
          have := spPath_left ls i (by omega) (by rw [hk]; exact hik)
          rw [hk] at this; exact this
        rw [← hsp] at hc
        refine ⟨fun h hh => ⟨T0 + 1, hheight h hh, hc.mono⟩, ?_⟩
        intro T hT
        rw [hperf T hT]; exact hc
      · -- right half
        have hik' : 2 ^ T0 ≤ i := by omega
        have hlenR : (ls.drop (2 ^ T0)).length = n - 2 ^ T0 := by simp [List.length_drop]; omega
        have hl := lefts_right ls T0 i hik' (by rw [two_pow_succ']; omega) (by omega)
        have hr := rights_right ls T0 J hlt1 hle2 (by omega) (ls.length - 2 ^ T0 - (i - 2 ^ T0 + 1)) (i - 2 ^ T0 + 1) rfl (by omega)
        have e1 : 2 ^ T0 + (i - 2 ^ T0 + 1) = i + 1 := by omega
        rw [e1] at hr
        have hsp : spPath ls i = spPath (ls.drop (2 ^ T0)) (i - 2 ^ T0) ++ [metaRoot (ls.take (2 ^ T0))] := by
          have := spPath_right ls i (by omega) (by rw [hk]; omega)
          rw [hk] at this; exact this
        have hIH := ih (n - 2 ^ T0) (by omega) (ls.drop (2 ^ T0)) (i - 2 ^ T0) hlenR (by omega) (by omega)
        have eidx : i - 2 ^ T0 + 2 ^ T0 = i := by omega
        rw [hl, hr, hsp]
        constructor
        · intro h hh
          obtain ⟨t, ht, hc⟩ := hIH.1 T0 (by omega)
          have := hc.cons_left (metaRoot (ls.take (2 ^ T0))) T0 ht
          rw [eidx] at this
          exact ⟨T0 + 1, hheight h hh, this⟩
        · intro T hT
          rw [hperf T hT]
          have hc := hIH.2 T0 (by rw [hT, hperf T hT, two_pow_succ']; omega)
          have := hc.cons_left_perfect (metaRoot (ls.take (2 ^ T0)))
          rw [eidx] at this
          exact this

/-- `ConvertProofOrdering(BuildSectorRangeProof(roots, i, i+1), i)` is the honest leaf-to-root
path, for every number of roots up to 2^30 -/
theorem convertProofOrdering_spPath (ls : List H) (i : Nat) (hi : i < ls.length) (hn : ls.length ≤ 2 ^ 30) :
    convertProofOrdering (buildRange ls 0 i ++ buildRange ls (i + 1) maxInt32) i = .ok (spPath ls i) := by
  have hn' : ls.length ≤ 1073741824 := hn
  obtain ⟨t, ht, hc⟩ := (conv_spPath maxInt32 ls.length ls i rfl hi (by unfold maxInt32; omega)).1 30 hn
  unfold convertProofOrdering
  have hL : (buildRange ls 0 i).length = popcount i := buildRange_length_left ls i (by omega)
  have hg : ¬ (popcount i > (buildRange ls 0 i ++ buildRange ls (i + 1) maxInt32).length) := by
    simp only [List.length_append]; omega
  simp only [hg, if_false]
  rw [← hL, List.take_left' rfl, List.drop_left' rfl]
  exact hc.sound _ (by omega)

end Sia.Rhp
