import SiaProofs.Lemmas.LedgerC02Payout
/-!
# The index invariant of mid-states

`ms.elements` maps an id to the index of its diff.  For every slice of diffs, the diff at index `i`
carries an id that `elements` maps to `i`.  This holds for `newMid` and is preserved by every
operation of the model (even if ids of different kinds collide), and it implies that the ids of the
diffs of one kind are pairwise distinct.
-/
namespace Sia.Ledger

def IdxOK (el : List (Id × Nat)) (ids : List Id) : Prop :=
  ∀ i (h : i < ids.length), el.lookup ids[i] = some i

theorem IdxOK.nodup {el : List (Id × Nat)} {ids : List Id} (h : IdxOK el ids) : ids.Nodup := by
  rw [List.Nodup, List.pairwise_iff_getElem]
  intro i j hi hj hij heq
  have h1 := h i hi
  have h2 := h j hj
  rw [heq, h2] at h1
  cases h1
  omega

theorem lookup_append_some {el : List (Id × Nat)} {k : Id} {v : Nat} (x : List (Id × Nat))
    (h : el.lookup k = some v) : (el ++ x).lookup k = some v := by
  induction el with
  | nil => cases h
  | cons a l ih =>
    obtain ⟨k', v'⟩ := a
    simp only [List.cons_append, List.lookup] at h ⊢
    split
    · rename_i heq; rw [heq] at h; exact h
    · rename_i heq; rw [heq] at h; exact ih h

theorem lookup_append_none {el : List (Id × Nat)} {k : Id} (n : Nat) (h : el.lookup k = none) :
    (el ++ [(k, n)]).lookup k = some n := by
  induction el with
  | nil => simp
  | cons a l ih =>
    obtain ⟨k', v'⟩ := a
    simp only [List.cons_append, List.lookup] at h ⊢
    split
    · rename_i heq; rw [heq] at h; cases h
    · rename_i heq; rw [heq] at h; exact ih h

theorem IdxOK.append_el {el : List (Id × Nat)} {ids : List Id} (h : IdxOK el ids) (x : List (Id × Nat)) :
    IdxOK (el ++ x) ids := fun i hi => lookup_append_some x (h i hi)

theorem idxOK_put_some {δ} (eid : δ → Id) (el : List (Id × Nat)) (l : List δ) (i : Nat) (id : Id) (f : δ → δ)
    (dflt : δ) (h : IdxOK el (l.map eid)) (hl : el.lookup id = some i)
    (hf : eid (f (l.getD i dflt)) = id ∨ eid (f (l.getD i dflt)) = eid (l.getD i dflt)) :
    IdxOK el ((l.set i (f (l.getD i dflt))).map eid) := by
  intro j hj
  simp only [List.length_map, List.length_set] at hj
  simp only [List.getElem_map, List.getElem_set]
  split
  · rename_i hij
    subst hij
    rcases hf with hf | hf
    · rw [hf]; exact hl
    · rw [hf]
      have : l.getD i dflt = l[i] := by simp [List.getD, hj]
      rw [this]
      have := h i (by simpa using hj)
      simpa using this
  · have := h j (by simpa using hj)
    simpa using this

theorem idxOK_put_none {δ} (eid : δ → Id) (el : List (Id × Nat)) (l : List δ) (id : Id) (x : δ)
    (h : IdxOK el (l.map eid)) (hl : el.lookup id = none) (hx : eid x = id) :
    IdxOK (el ++ [(id, l.length)]) ((l ++ [x]).map eid) := by
  intro j hj
  simp only [List.length_map, List.length_append, List.length_cons, List.length_nil] at hj
  simp only [List.getElem_map]
  by_cases hlt : j < l.length
  · rw [List.getElem_append_left hlt]
    have := h j (by simpa using hlt)
    exact lookup_append_some _ (by simpa using this)
  · have hj' : j = l.length := by omega
    subst hj'
    rw [List.getElem_append_right (by omega)]
    simp only [Nat.sub_self, List.getElem_cons_zero, hx]
    exact lookup_append_none _ hl

/-- the index invariant for all four kinds of diffs -/
structure MidJ (ms : Mid) : Prop where
  sc : IdxOK ms.elements (ms.sces.map (·.e.id))
  sf : IdxOK ms.elements (ms.sfes.map (·.e.id))
  fc1 : IdxOK ms.elements (ms.fces.map (·.e.id))
  fc2 : IdxOK ms.elements (ms.v2fces.map (·.e.id))

theorem newMid_J (L : Ledger) : MidJ (newMid L) :=
  { sc := fun _ h => absurd h (Nat.not_lt_zero _), sf := fun _ h => absurd h (Nat.not_lt_zero _),
    fc1 := fun _ h => absurd h (Nat.not_lt_zero _), fc2 := fun _ h => absurd h (Nat.not_lt_zero _) }

theorem putSc_J (ms : Mid) (id : Id) (f : ScDiff → ScDiff) (hJ : MidJ ms)
    (hf : ∀ d, (f d).e.id = id ∨ (f d).e.id = d.e.id) (hd : (f default).e.id = id) : MidJ (ms.putSc id f) := by
  unfold Mid.putSc
  cases hl : ms.lookup id with
  | some i => exact ⟨idxOK_put_some (fun d : ScDiff => d.e.id) _ _ i id f default hJ.sc hl (hf _), hJ.sf, hJ.fc1, hJ.fc2⟩
  | none =>
    exact ⟨idxOK_put_none (fun d : ScDiff => d.e.id) _ _ id _ hJ.sc hl hd, hJ.sf.append_el _, hJ.fc1.append_el _, hJ.fc2.append_el _⟩

theorem putSf_J (ms : Mid) (id : Id) (f : SfDiff → SfDiff) (hJ : MidJ ms)
    (hf : ∀ d, (f d).e.id = id ∨ (f d).e.id = d.e.id) (hd : (f default).e.id = id) : MidJ (ms.putSf id f) := by
  unfold Mid.putSf
  cases hl : ms.lookup id with
  | some i => exact ⟨hJ.sc, idxOK_put_some (fun d : SfDiff => d.e.id) _ _ i id f default hJ.sf hl (hf _), hJ.fc1, hJ.fc2⟩
  | none =>
    exact ⟨hJ.sc.append_el _, idxOK_put_none (fun d : SfDiff => d.e.id) _ _ id _ hJ.sf hl hd, hJ.fc1.append_el _, hJ.fc2.append_el _⟩

theorem putFc1_J (ms : Mid) (id : Id) (f : Fc1Diff → Fc1Diff) (hJ : MidJ ms)
    (hf : ∀ d, (f d).e.id = id ∨ (f d).e.id = d.e.id) (hd : (f default).e.id = id) : MidJ (ms.putFc1 id f) := by
  unfold Mid.putFc1
  cases hl : ms.lookup id with
  | some i => exact ⟨hJ.sc, hJ.sf, idxOK_put_some (fun d : Fc1Diff => d.e.id) _ _ i id f default hJ.fc1 hl (hf _), hJ.fc2⟩
  | none =>
    exact ⟨hJ.sc.append_el _, hJ.sf.append_el _, idxOK_put_none (fun d : Fc1Diff => d.e.id) _ _ id _ hJ.fc1 hl hd, hJ.fc2.append_el _⟩

theorem putFc2_J (ms : Mid) (id : Id) (f : Fc2Diff → Fc2Diff) (hJ : MidJ ms)
    (hf : ∀ d, (f d).e.id = id ∨ (f d).e.id = d.e.id) (hd : (f default).e.id = id) : MidJ (ms.putFc2 id f) := by
  unfold Mid.putFc2
  cases hl : ms.lookup id with
  | some i => exact ⟨hJ.sc, hJ.sf, hJ.fc1, idxOK_put_some (fun d : Fc2Diff => d.e.id) _ _ i id f default hJ.fc2 hl (hf _)⟩
  | none =>
    exact ⟨hJ.sc.append_el _, hJ.sf.append_el _, hJ.fc1.append_el _, idxOK_put_none (fun d : Fc2Diff => d.e.id) _ _ id _ hJ.fc2 hl hd⟩

-- ------------------------------------------------------------------ every operation preserves the invariant

theorem MidJ.of_same {ms ms' : Mid} (h : MidJ ms) (e0 : ms'.elements = ms.elements) (e1 : ms'.sces = ms.sces)
    (e2 : ms'.sfes = ms.sfes) (e3 : ms'.fces = ms.fces) (e4 : ms'.v2fces = ms.v2fces) : MidJ ms' :=
  { sc := by rw [e0, e1]; exact h.sc, sf := by rw [e0, e2]; exact h.sf,
    fc1 := by rw [e0, e3]; exact h.fc1, fc2 := by rw [e0, e4]; exact h.fc2 }

theorem createSc_J (ms : Mid) (id : Id) (o : ScOut) (m : Nat) (h : MidJ ms) : MidJ (ms.createSc id o m) :=
  putSc_J ms id _ h (fun _ => Or.inl rfl) rfl

theorem createImmatureSc_J (ms : Mid) (id : Id) (o : ScOut) (h : MidJ ms) : MidJ (ms.createImmatureSc id o) :=
  createSc_J ms id o _ h

theorem spendSc_J (ms : Mid) (e : ScElem) (h : MidJ ms) : MidJ (ms.spendSc e) :=
  (putSc_J ms e.id (fun d => { d with e := e, spent := true }) h (fun _ => Or.inl rfl) rfl).of_same rfl rfl rfl rfl rfl

theorem createSf_J (ms : Mid) (id : Id) (v : Nat) (a : Addr) (h : MidJ ms) : MidJ (ms.createSf id v a) :=
  putSf_J ms id _ h (fun _ => Or.inl rfl) rfl

theorem spendSf_J (ms : Mid) (e : SfElem) (h : MidJ ms) : MidJ (ms.spendSf e) :=
  (putSf_J ms e.id (fun d => { d with e := e, spent := true }) h (fun _ => Or.inl rfl) rfl).of_same rfl rfl rfl rfl rfl

theorem createFc1_J {ms ms' : Mid} {id : Id} {fc : Fc1} (h : MidJ ms) (hc : ms.createFc1 id fc = .ok ms') : MidJ ms' := by
  unfold Mid.createFc1 at hc
  obtain ⟨p, _, hc⟩ := bind_ok_iff.1 hc
  cases hc
  exact (putFc1_J ms id _ h (fun _ => Or.inl rfl) rfl).of_same rfl rfl rfl rfl rfl

theorem reviseFc1_J (ms : Mid) (e : Fc1Elem) (rev : Fc1) (h : MidJ ms) : MidJ (ms.reviseFc1 e rev) := by
  unfold Mid.reviseFc1
  refine putFc1_J ms e.id _ h (fun d => ?_) rfl
  simp only []
  split
  · exact Or.inr rfl
  · split
    · exact Or.inr rfl
    · exact Or.inl rfl

theorem resolveFc1_J (ms : Mid) (e : Fc1Elem) (v : Bool) (h : MidJ ms) : MidJ (ms.resolveFc1 e v) := by
  unfold Mid.resolveFc1
  refine (putFc1_J ms e.id _ h (fun d => ?_) rfl).of_same rfl rfl rfl rfl rfl
  split
  · exact Or.inr rfl
  · exact Or.inl rfl

theorem createFc2_J {ms ms' : Mid} {id : Id} {fc : Fc2} (h : MidJ ms) (hc : ms.createFc2 id fc = .ok ms') : MidJ ms' := by
  unfold Mid.createFc2 at hc
  obtain ⟨tax, _, hc⟩ := bind_ok_iff.1 hc
  obtain ⟨p, _, hc⟩ := bind_ok_iff.1 hc
  cases hc
  exact (putFc2_J ms id _ h (fun _ => Or.inl rfl) rfl).of_same rfl rfl rfl rfl rfl

theorem reviseFc2_J (ms : Mid) (e : Fc2Elem) (rev : Fc2) (h : MidJ ms) : MidJ (ms.reviseFc2 e rev) := by
  unfold Mid.reviseFc2
  refine putFc2_J ms e.id _ h (fun d => ?_) rfl
  simp only []
  split
  · exact Or.inr rfl
  · split
    · exact Or.inr rfl
    · exact Or.inl rfl

theorem resolveFc2_J {ms ms' : Mid} {e : Fc2Elem} {k : ResKind} (h : MidJ ms) (hc : ms.resolveFc2 e k = .ok ms') :
    MidJ ms' := by
  unfold Mid.resolveFc2 at hc
  split at hc
  · split at hc
    · cases hc
    · cases hc
      exact (putFc2_J ms e.id _ h (fun _ => Or.inl rfl) rfl).of_same rfl rfl rfl rfl rfl
  · cases hc
    exact (putFc2_J ms e.id _ h (fun _ => Or.inl rfl) rfl).of_same rfl rfl rfl rfl rfl

theorem a2Final_J (s : Mid) (t : Txn2) (h : MidJ s) : MidJ (a2Final s t) := by
  unfold a2Final; simp only []; split
  · split <;> exact h.of_same rfl rfl rfl rfl rfl
  · exact h.of_same rfl rfl rfl rfl rfl

theorem a1Final_J (s : Mid) (t : Txn1) (h : MidJ s) : MidJ (a1Final s t) := by
  unfold a1Final; split
  · split <;> first | exact h | exact h.of_same rfl rfl rfl rfl rfl
  · exact h

theorem payouts_J (l : List (ScOut × Id)) (s s' : Mid) (h : MidJ s) (hf : l.foldlM a1Payout s = .ok s') : MidJ s' :=
  foldlM_inv MidJ (fun s x s' hs hx => by simp [a1Payout] at hx; subst hx; exact createImmatureSc_J _ _ _ hs) l s s' h hf

theorem applyV2Transaction_J {ms ms' : Mid} {t : Txn2} (hJ : MidJ ms) (h : applyV2Transaction ms t = .ok ms') : MidJ ms' := by
  rw [applyV2Transaction_eq] at h
  obtain ⟨s1, h1, h⟩ := bind_ok_iff.1 h
  obtain ⟨s2, h2, h⟩ := bind_ok_iff.1 h
  obtain ⟨s3, h3, h⟩ := bind_ok_iff.1 h
  obtain ⟨s4, h4, h⟩ := bind_ok_iff.1 h
  obtain ⟨s5, h5, h⟩ := bind_ok_iff.1 h
  obtain ⟨s6, h6, h⟩ := bind_ok_iff.1 h
  obtain ⟨s7, h7, h⟩ := bind_ok_iff.1 h
  simp at h; subst h
  apply a2Final_J
  have e1 := foldlM_inv MidJ (fun s x s' hs hx => by simp [a2ScIn] at hx; subst hx; exact spendSc_J _ _ hs) _ _ _ hJ h1
  have e2 := foldlM_inv MidJ (fun s x s' hs hx => by simp [a2ScOut] at hx; subst hx; exact createSc_J _ _ _ _ hs) _ _ _ e1 h2
  have e3 := foldlM_inv MidJ (fun s x s' hs hx => by
      unfold a2SfIn at hx
      obtain ⟨c, _, hx⟩ := bind_ok_iff.1 hx
      simp at hx; subst hx
      exact createImmatureSc_J _ _ _ (spendSf_J _ _ hs)) _ _ _ e2 h3
  have e4 := foldlM_inv MidJ (fun s x s' hs hx => by simp [a2SfOut] at hx; subst hx; exact createSf_J _ _ _ _ hs) _ _ _ e3 h4
  have e5 := foldlM_inv MidJ (fun s x s' hs hx => createFc2_J hs hx) _ _ _ e4 h5
  have e6 := foldlM_inv MidJ (fun s x s' hs hx => by simp [a2Rev] at hx; subst hx; exact reviseFc2_J _ _ _ hs) _ _ _ e5 h6
  exact foldlM_inv MidJ (fun s x s' hs hx => by
      unfold a2Res at hx
      obtain ⟨r1, hr1, hx⟩ := bind_ok_iff.1 hx
      obtain ⟨r2, hr2, hx⟩ := bind_ok_iff.1 hx
      simp at hx; subst hx
      have j1 := resolveFc2_J hs hr1
      have j2 : MidJ r2 := by
        unfold a2ResNew at hr2
        split at hr2
        · exact createFc2_J j1 hr2
        · simp at hr2; subst hr2; exact j1
      exact createImmatureSc_J _ _ _ (createImmatureSc_J _ _ _ j2)) _ _ _ e6 h7

theorem applyTransaction_J {ms ms' : Mid} {t : Txn1} (hJ : MidJ ms) (h : applyTransaction ms t = .ok ms') : MidJ ms' := by
  rw [applyTransaction_eq] at h
  obtain ⟨s1, h1, h⟩ := bind_ok_iff.1 h
  obtain ⟨s2, h2, h⟩ := bind_ok_iff.1 h
  obtain ⟨s3, h3, h⟩ := bind_ok_iff.1 h
  obtain ⟨s4, h4, h⟩ := bind_ok_iff.1 h
  obtain ⟨s5, h5, h⟩ := bind_ok_iff.1 h
  obtain ⟨s6, h6, h⟩ := bind_ok_iff.1 h
  obtain ⟨s7, h7, h⟩ := bind_ok_iff.1 h
  simp at h; subst h
  apply a1Final_J
  have e1 := foldlM_inv MidJ (fun s x s' hs hx => by
      unfold a1ScIn at hx
      split at hx
      · cases hx
      · simp at hx; subst hx; exact spendSc_J _ _ hs) _ _ _ hJ h1
  have e2 := foldlM_inv MidJ (fun s x s' hs hx => by simp [a1ScOut] at hx; subst hx; exact createSc_J _ _ _ _ hs) _ _ _ e1 h2
  have e3 := foldlM_inv MidJ (fun s x s' hs hx => by
      unfold a1SfIn at hx
      split at hx
      · cases hx
      · obtain ⟨c, _, hx⟩ := bind_ok_iff.1 hx
        simp at hx; subst hx
        exact createImmatureSc_J _ _ _ (spendSf_J _ _ hs)) _ _ _ e2 h3
  have e4 := foldlM_inv MidJ (fun s x s' hs hx => by simp [a1SfOut] at hx; subst hx; exact createSf_J _ _ _ _ hs) _ _ _ e3 h4
  have e5 := foldlM_inv MidJ (fun s x s' hs hx => createFc1_J hs hx) _ _ _ e4 h5
  have e6 := foldlM_inv MidJ (fun s x s' hs hx => by
      unfold a1Rev at hx
      split at hx
      · cases hx
      · simp at hx; subst hx; exact reviseFc1_J _ _ _ hs) _ _ _ e5 h6
  exact foldlM_inv MidJ (fun s x s' hs hx => by
      unfold a1Proof at hx
      split at hx
      · cases hx
      · exact payouts_J _ _ _ (resolveFc1_J _ _ _ hs) hx) _ _ _ e6 h7

/-- the invariant holds for every mid-state `midApplyBlock` (hence `applyBlock`) produces -/
theorem midApplyBlock_J {L : Ledger} {b : Block} {ms : Mid} (h : midApplyBlock (newMid L) b = .ok ms) : MidJ ms := by
  rw [midApplyBlock_eq] at h
  split at h
  · cases h
  obtain ⟨s1, h1, h⟩ := bind_ok_iff.1 h
  obtain ⟨s2, h2, h⟩ := bind_ok_iff.1 h
  obtain ⟨s3, h3, h⟩ := bind_ok_iff.1 h
  obtain ⟨sub, _, h⟩ := bind_ok_iff.1 h
  have e1 := foldlM_inv MidJ (fun s x s' hs hx => applyTransaction_J hs hx) _ _ _ (newMid_J L) h1
  have e2 := foldlM_inv MidJ (fun s x s' hs hx => applyV2Transaction_J hs hx) _ _ _ e1 h2
  have e3 := foldlM_inv MidJ (fun s x s' hs hx => by simp [mbPayout] at hx; subst hx; exact createImmatureSc_J _ _ _ hs) _ _ _ e2 h3
  have hexp : ∀ s0 : Mid, MidJ s0 → b.expiring.foldlM mbExpire s0 = .ok ms → MidJ ms := fun s0 h0 hf =>
    foldlM_inv (f := mbExpire) MidJ (fun s x s' hs hx => by
      unfold mbExpire at hx
      split at hx
      · simp at hx; subst hx; exact hs
      · exact payouts_J _ _ _ (resolveFc1_J _ _ _ hs) hx) _ _ _ h0 hf
  cases sub with
  | none => exact hexp _ e3 h
  | some o => exact hexp _ (createImmatureSc_J _ _ _ e3) h

/-- … and for the mid-state `validateBlock` returns -/
theorem validateBlock_J {L : Ledger} {b : Block} {pid : Id} {ms : Mid} (h : validateBlock L b pid = .ok ms) : MidJ ms := by
  rw [validateBlock_eq] at h
  obtain ⟨_, _, h⟩ := bind_ok_iff.1 h
  obtain ⟨_, _, h⟩ := bind_ok_iff.1 h
  split at h
  · exact absurd h (reject_ne_ok _ _)
  obtain ⟨s0, h1, h2⟩ := bind_ok_iff.1 h
  have e1 := foldlM_inv MidJ (fun s x s' hs hx => by
      obtain ⟨_, _, ha⟩ := bind_ok_iff.1 hx
      exact applyTransaction_J hs ha) _ _ _ (newMid_J L) h1
  exact foldlM_inv MidJ (fun s x s' hs hx => by
      obtain ⟨_, _, ha⟩ := bind_ok_iff.1 hx
      exact applyV2Transaction_J hs ha) _ _ _ e1 h2

end Sia.Ledger
