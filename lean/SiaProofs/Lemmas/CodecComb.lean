import SiaProofs.Props.C10Decode
import SiaModel.Codec.Comb
/-! Leaf-codec combinators preserve the leaf laws (`CodecOK`). -/
namespace Sia.Codec

theorem ofSch_ok {E : Env} (hE : EnvOK E) (s : Sch) (hwf : s.wf E = true) : CodecOK (Codec.ofSch E s) := by
  constructor
  · intro st k v rest hc; exact C11.c11_roundtrip_gen hE st k s hwf v rest hc
  · intro v hc; exact C11.minLen_le hE s v hc
  · intro st k v p q hc h hq; exact C11.c11_truncation_fails hE st k s hwf v hc p q h hq
  · intro st k bs v rest h; exact C11.c11_decode_canon hE st k s bs v rest h
  · intro k bs v rest h; exact C11.strict_reencode hE k s bs v rest h
  · intro k bs r h; exact C11.strict_sub_real hE k s bs r h
  · intro hg st k bs; exact C10D.c10_decode_total hE st k s hg bs
  · intro hg k bs v rest h
    obtain ⟨cs, hb, _, ha⟩ := (C10D.alloc_bounds hE k s hwf hg bs).2 v rest h
    simp only [Codec.ofSch] at *
    rw [hb, List.length_append, Nat.mul_add]
    rw [hb] at ha; omega
  · intro hg k bs; exact (C10D.alloc_bounds hE k s hwf hg bs).1

theorem Env.with_ok {E : Env} (hE : EnvOK E) (name : String) {c : Codec} (hc : CodecOK c) :
    EnvOK (E.with name c) := by
  intro n
  simp only [Env.with]
  split
  · exact hc
  · exact hE n

/-! ### tagged -/

def TagsOK (cs : List (Nat × Codec)) : Prop := ∀ t c, findTag t cs = some c → CodecOK c

theorem findTag_depth {t : Nat} {cs : List (Nat × Codec)} {c : Codec} (h : findTag t cs = some c) :
    c.depth ≤ tagDepth cs := by
  induction cs with
  | nil => simp [findTag] at h
  | cons p cs ih =>
    obtain ⟨u, d⟩ := p
    simp only [findTag] at h
    simp only [tagDepth]
    split at h
    · injection h with h; subst h; exact Nat.le_max_left _ _
    · exact Nat.le_trans (ih h) (Nat.le_max_right _ _)

theorem findTag_guarded {t : Nat} {cs : List (Nat × Codec)} {c : Codec} (h : findTag t cs = some c)
    (hg : tagGuarded cs = true) : c.guarded = true := by
  induction cs with
  | nil => simp [findTag] at h
  | cons p cs ih =>
    obtain ⟨u, d⟩ := p
    simp only [findTag] at h
    simp only [tagGuarded, Bool.and_eq_true] at hg
    split at h
    · injection h with h; subst h; exact hg.1
    · exact ih h hg.2

theorem leVal_one_lt {a : Bytes} (h : a.length = 1) : leVal a < 256 := by
  have := leVal_lt a; rw [h] at this; simpa using this

theorem leBytes_one_leVal {a : Bytes} (h : a.length = 1) : leBytes 1 (leVal a) = a := by
  rw [← h, leBytes_leVal]

theorem tagged_ok {cs : List (Nat × Codec)} (hcs : TagsOK cs) : CodecOK (Codec.tagged cs) := by
  constructor
  · -- roundtrip
    intro st k v rest hc
    simp only [Codec.tagged] at hc ⊢
    split at hc
    · rename_i t x
      simp only [Bool.and_eq_true, decide_eq_true_eq] at hc
      split at hc
      · rename_i c hf
        simp only [List.append_assoc]
        rw [takeN_append' _ _ (leBytes_length 1 t)]
        have e : leVal (leBytes 1 t) = t := by rw [leVal_leBytes]; simp; omega
        simp only [e, hf]
        rw [(hcs t c hf).roundtrip st k x rest hc.2]
      · exact absurd hc.2 (by simp)
    · exact absurd hc (by simp)
  · -- minLen
    intro v hc
    simp only [Codec.tagged] at hc ⊢
    split at hc
    · rename_i t x
      simp only [Bool.and_eq_true, decide_eq_true_eq] at hc
      split at hc
      · rename_i c hf; simp [leBytes_length]
      · exact absurd hc.2 (by simp)
    · exact absurd hc (by simp)
  · -- trunc
    intro st k v p q hc h hq
    simp only [Codec.tagged] at hc h ⊢
    split at hc
    · rename_i t x
      simp only [Bool.and_eq_true, decide_eq_true_eq] at hc
      split at hc
      · rename_i c hf
        simp only [hf] at h
        rcases prefix_split h with ⟨q', h1, hq'⟩ | ⟨p', h1, h2⟩
        · have hl := prefix_len_lt h1 hq'
          rw [leBytes_length] at hl
          rw [takeN_short hl]; exact ⟨_, rfl⟩
        · subst h1
          rw [takeN_append' _ _ (leBytes_length 1 t)]
          have e : leVal (leBytes 1 t) = t := by rw [leVal_leBytes]; simp; omega
          simp only [e, hf]
          obtain ⟨e', he⟩ := (hcs t c hf).trunc st k x p' q hc.2 h2 hq
          rw [he]; exact ⟨_, rfl⟩
      · exact absurd hc.2 (by simp)
    · exact absurd hc (by simp)
  · -- dec_sound
    intro st k bs v rest h
    simp only [Codec.tagged] at h ⊢
    split at h
    · rename_i a r h1
      obtain ⟨hb, hl⟩ := takeN_ok h1
      split at h
      · rename_i c hf
        split at h
        · rename_i x r' h2
          injection h with h; injection h with e1 e2; subst e1; subst e2
          obtain ⟨hcx, cs', hcs', _⟩ := (hcs _ c hf).dec_sound st k r x r' h2
          refine ⟨?_, a ++ cs', by rw [hb, hcs']; simp, by simp; omega⟩
          simp only [hf, Bool.and_eq_true, decide_eq_true_eq]
          exact ⟨leVal_one_lt hl, hcx⟩
        · cases h
      · cases h
    · cases h
  · -- strict_enc
    intro k bs v rest h
    simp only [Codec.tagged] at h ⊢
    split at h
    · rename_i a r h1
      obtain ⟨hb, hl⟩ := takeN_ok h1
      split at h
      · rename_i c hf
        split at h
        · rename_i x r' h2
          injection h with h; injection h with e1 e2; subst e1; subst e2
          simp only [hf]
          rw [leBytes_one_leVal hl, List.append_assoc, (hcs _ c hf).strict_enc k r x r' h2, hb]
        · cases h
      · cases h
    · cases h
  · -- strict_lax
    intro k bs r h
    simp only [Codec.tagged] at h ⊢
    split at h
    · rename_i a r1 h1
      split at h
      · rename_i c hf
        split at h
        · rename_i x r' h2
          rw [(hcs _ c hf).strict_lax k r1 _ h2]; exact h
        · cases h
      · cases h
    · cases h
  · -- no_panic
    intro hg st k bs
    simp only [Codec.tagged] at hg ⊢
    split
    · split
      · rename_i c hf
        split
        · simp
        · rename_i e h2; intro h; injection h with h; subst h
          exact (hcs _ c hf).no_panic (findTag_guarded hf hg) st k _ h2
      · simp
    · rename_i e h1; have := (takeN_error h1).1; subst this; simp
  · -- alloc_ok
    intro hg k bs v rest h
    simp only [Codec.tagged] at hg h ⊢
    split at h
    · rename_i a r h1
      obtain ⟨hb, hl⟩ := takeN_ok h1
      split at h
      · rename_i c hf
        split at h
        · rename_i x r' h2
          injection h with h; injection h with e1 e2; subst e2
          have ok := hcs _ c hf
          obtain ⟨_, cs', hcs', _⟩ := ok.dec_sound false k r x r' h2
          have ha := ok.alloc_ok (findTag_guarded hf hg) k r x r' h2
          have hd := findTag_depth hf
          have m1 := Nat.mul_le_mul_right cs'.length hd
          rw [hcs', List.length_append, Nat.mul_add] at ha
          rw [hb, hcs']
          simp only [List.length_append, Nat.mul_add]
          omega
        · cases h
      · cases h
    · cases h
  · -- alloc_err
    intro hg k bs
    simp only [Codec.tagged] at hg ⊢
    split
    · rename_i a r h1
      obtain ⟨hb, hl⟩ := takeN_ok h1
      split
      · rename_i c hf
        have ha := (hcs _ c hf).alloc_err (findTag_guarded hf hg) k r
        have hd := findTag_depth hf
        have m1 := Nat.mul_le_mul_right (r.length + k) hd
        have m2 : tagDepth cs * (r.length + k) ≤ tagDepth cs * (bs.length + k) :=
          Nat.mul_le_mul_left _ (by rw [hb]; simp)
        omega
      · omega
    · omega

end Sia.Codec
