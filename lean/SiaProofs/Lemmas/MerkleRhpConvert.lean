import SiaProofs.Lemmas.MerkleRhpBuildProof
/-!
  Helper lemmas for C16, part 11: `ConvertProofOrdering` turns the left-to-right single-leaf
  proof into the leaf-to-root path.
-/
set_option linter.unusedVariables false
set_option linter.unusedSectionVars false
namespace Sia.Rhp
open HashOps

variable {H : Type} [HashOps H]

/-- lefts and rights of the single-leaf proof for leaf `i` inside the aligned block `[b, b+2^f)` -/
def lrOf (ls : List H) (i : Nat) : Nat → Nat → List H × List H
  | 0, _ => ([], [])
  | f + 1, b =>
    if i < b + 2 ^ f then
      ((lrOf ls i f b).1, (lrOf ls i f b).2 ++ [metaRoot ((ls.drop (b + 2 ^ f)).take (2 ^ f))])
    else
      (metaRoot ((ls.drop b).take (2 ^ f)) :: (lrOf ls i f (b + 2 ^ f)).1, (lrOf ls i f (b + 2 ^ f)).2)

/-- the siblings of leaf `i` from the leaf up to the root of the block -/
def pathOf (ls : List H) (i : Nat) : Nat → Nat → List H
  | 0, _ => []
  | f + 1, b =>
    if i < b + 2 ^ f then pathOf ls i f b ++ [metaRoot ((ls.drop (b + 2 ^ f)).take (2 ^ f))]
    else pathOf ls i f (b + 2 ^ f) ++ [metaRoot ((ls.drop b).take (2 ^ f))]

theorem buildProofRec_outside (ls : List H) (i f b : Nat) (h : b + 2 ^ f ≤ i ∨ i + 1 ≤ b) :
    buildProofRec ls i (i + 1) f b (b + 2 ^ f) = [metaRoot ((ls.drop b).take (2 ^ f))] := by
  have hp := Nat.two_pow_pos f
  rw [buildProofRec_unfold]
  have h1 : ¬ (b ≥ i ∧ b + 2 ^ f ≤ i + 1) := by omega
  have h2 : b + 2 ^ f ≤ i ∨ b ≥ i + 1 := by omega
  have e : b + 2 ^ f - b = 2 ^ f := by omega
  simp only [h1, if_false, h2, if_true, e]

theorem buildProofRec_single (ls : List H) (i : Nat) : ∀ (f b : Nat), b ≤ i → i < b + 2 ^ f →
    buildProofRec ls i (i + 1) f b (b + 2 ^ f) = (lrOf ls i f b).1 ++ (lrOf ls i f b).2 := by
  intro f
  induction f with
  | zero =>
    intro b h1 h2
    rw [buildProofRec_unfold]
    simp only [Nat.pow_zero] at h2 ⊢
    have : b ≥ i ∧ b + 1 ≤ i + 1 := by omega
    simp [this, lrOf]
  | succ f ih =>
    intro b h1 h2
    have hp := Nat.two_pow_pos f
    rw [two_pow_succ'] at h2
    rw [buildProofRec_unfold]
    have c1 : ¬ (b ≥ i ∧ b + 2 ^ (f + 1) ≤ i + 1) := by rw [two_pow_succ']; omega
    have c2 : ¬ (b + 2 ^ (f + 1) ≤ i ∨ b ≥ i + 1) := by rw [two_pow_succ']; omega
    have emid : (b + (b + 2 ^ (f + 1))) / 2 = b + 2 ^ f := by rw [two_pow_succ']; omega
    have ej : b + 2 ^ (f + 1) = (b + 2 ^ f) + 2 ^ f := by rw [two_pow_succ']; omega
    simp only [c1, if_false, c2, emid]
    rw [ej]
    by_cases hlt : i < b + 2 ^ f
    · rw [ih b h1 hlt, buildProofRec_outside ls i f (b + 2 ^ f) (Or.inr (by omega))]
      simp [lrOf, hlt, List.append_assoc]
    · rw [ih (b + 2 ^ f) (by omega) (by omega), buildProofRec_outside ls i f b (Or.inl (by omega))]
      simp [lrOf, hlt]

theorem lrOf_left_length (ls : List H) (i : Nat) : ∀ (f b : Nat), b ≤ i → i < b + 2 ^ f →
    (lrOf ls i f b).1.length = popcount (i - b) := by
  intro f
  induction f with
  | zero =>
    intro b h1 h2
    have : i - b = 0 := by simp at h2; omega
    simp [lrOf, this, popcount_zero]
  | succ f ih =>
    intro b h1 h2
    have hp := Nat.two_pow_pos f
    rw [two_pow_succ'] at h2
    by_cases hlt : i < b + 2 ^ f
    · simp only [lrOf, hlt, if_true]
      exact ih b h1 hlt
    · simp only [lrOf, hlt, if_false, List.length_cons]
      rw [ih (b + 2 ^ f) (by omega) (by omega)]
      have e : i - b = 2 ^ f + (i - (b + 2 ^ f)) := by omega
      rw [e, popcount_pow_add f _ (by omega)]
      omega

theorem lrOf_total_length (ls : List H) (i : Nat) : ∀ (f b : Nat),
    (lrOf ls i f b).1.length + (lrOf ls i f b).2.length = f := by
  intro f
  induction f with
  | zero => intro b; simp [lrOf]
  | succ f ih =>
    intro b
    by_cases hlt : i < b + 2 ^ f
    · simp only [lrOf, hlt, if_true, List.length_append, List.length_cons, List.length_nil]
      have := ih b; omega
    · simp only [lrOf, hlt, if_false, List.length_cons]
      have := ih (b + 2 ^ f); omega

/-- folding the path from the leaf reaches the root of the block, then continues with `rest` -/
theorem leafToRoot_path (ls : List H) (i : Nat) (hi : i < ls.length) : ∀ (f b y : Nat) (rest : List H),
    b ≤ i → i < b + 2 ^ f → b + 2 ^ f ≤ ls.length →
    leafToRoot ls[i] ((i - b) + 2 ^ f * y) (pathOf ls i f b ++ rest)
      = leafToRoot (metaRoot ((ls.drop b).take (2 ^ f))) y rest := by
  intro f
  induction f with
  | zero =>
    intro b y rest h1 h2 h3
    have hb : b = i := by simp at h2; omega
    subst hb
    simp only [pathOf, List.nil_append, Nat.sub_self, Nat.pow_zero, Nat.zero_add, Nat.one_mul]
    have : (ls.drop b).take 1 = [ls[b]] := by
      rw [List.drop_eq_getElem_cons hi]; rfl
    rw [this, metaRoot_singleton]
  | succ f ih =>
    intro b y rest h1 h2 h3
    have hp := Nat.two_pow_pos f
    rw [two_pow_succ'] at h2 h3
    have hsplit : (ls.drop b).take (2 ^ (f + 1))
        = (ls.drop b).take (2 ^ f) ++ (ls.drop (b + 2 ^ f)).take (2 ^ f) := by
      rw [two_pow_succ']
      have : 2 * 2 ^ f = 2 ^ f + 2 ^ f := by omega
      rw [this, List.take_add, List.drop_drop]
    have hlenL : ((ls.drop b).take (2 ^ f)).length = 2 ^ f := by
      simp [List.length_take, List.length_drop]; omega
    have hlenR : ((ls.drop (b + 2 ^ f)).take (2 ^ f)).length = 2 ^ f := by
      simp [List.length_take, List.length_drop]; omega
    by_cases hlt : i < b + 2 ^ f
    · simp only [pathOf, hlt, if_true, List.append_assoc]
      have e : (i - b) + 2 ^ (f + 1) * y = (i - b) + 2 ^ f * (2 * y) := by
        rw [two_pow_succ', Nat.mul_assoc, Nat.mul_left_comm]
      rw [e, ih b (2 * y) _ h1 hlt (by omega)]
      simp only [List.cons_append, List.nil_append, leafToRoot]
      have e1 : 2 * y % 2 = 0 := by omega
      have e2 : 2 * y / 2 = y := by omega
      simp only [e1, e2, Nat.zero_ne_one, if_false]
      rw [hsplit, metaRoot_append _ _ f hlenL (by omega) (by omega)]
    · simp only [pathOf, hlt, if_false, List.append_assoc]
      have e : (i - b) + 2 ^ (f + 1) * y = (i - (b + 2 ^ f)) + 2 ^ f * (2 * y + 1) := by
        rw [two_pow_succ', Nat.mul_add, Nat.mul_one, ← Nat.mul_assoc, Nat.mul_comm (2 ^ f) 2]
        omega
      rw [e, ih (b + 2 ^ f) (2 * y + 1) _ (by omega) (by omega) (by omega)]
      simp only [List.cons_append, List.nil_append, leafToRoot]
      have e1 : (2 * y + 1) % 2 = 1 := by omega
      have e2 : (2 * y + 1) / 2 = y := by omega
      simp only [e1, e2, if_true]
      rw [hsplit, metaRoot_append _ _ f hlenL (by omega) (by omega)]

theorem convertLoop_nil (fuel idx : Nat) : convertLoop fuel idx ([] : List H) [] = .ok [] := by
  cases fuel <;> simp [convertLoop]

/-- the loop of `ConvertProofOrdering` consumes the block's lefts (from the back) and rights (from
the front) in leaf-to-root order, then continues with the outer lefts `X` and rights `Y` -/
theorem convertLoop_block (ls : List H) (i : Nat) : ∀ (f b y fuel : Nat) (X Y : List H),
    b ≤ i → i < b + 2 ^ f → f ≤ fuel →
    convertLoop fuel ((i - b) + 2 ^ f * y) (X ++ (lrOf ls i f b).1) ((lrOf ls i f b).2 ++ Y)
      = (convertLoop (fuel - f) y X Y).map (fun r => pathOf ls i f b ++ r) := by
  intro f
  induction f with
  | zero =>
    intro b y fuel X Y h1 h2 h3
    have : i - b = 0 := by simp at h2; omega
    simp only [lrOf, pathOf, this, List.append_nil, List.nil_append, Nat.pow_zero, Nat.one_mul,
      Nat.zero_add, Nat.sub_zero]
    cases convertLoop fuel y X Y <;> rfl
  | succ f ih =>
    intro b y fuel X Y h1 h2 h3
    have hp := Nat.two_pow_pos f
    rw [two_pow_succ'] at h2
    obtain ⟨fuel', rfl⟩ : ∃ fuel', fuel = fuel' + 1 := ⟨fuel - 1, by omega⟩
    by_cases hlt : i < b + 2 ^ f
    · simp only [lrOf, pathOf, hlt, if_true, List.append_assoc]
      have e : (i - b) + 2 ^ (f + 1) * y = (i - b) + 2 ^ f * (2 * y) := by
        rw [two_pow_succ', Nat.mul_assoc, Nat.mul_left_comm]
      rw [e, ih b (2 * y) (fuel' + 1) X _ h1 hlt (by omega)]
      have ef : fuel' + 1 - f = (fuel' - f) + 1 := by omega
      have ef2 : fuel' + 1 - (f + 1) = fuel' - f := by omega
      rw [ef, ef2]
      simp only [List.cons_append, List.nil_append, convertLoop]
      have e1 : 2 * y % 2 = 0 := by omega
      have e2 : 2 * y / 2 = y := by omega
      have e3 : ¬ (X.length + (Y.length + 1) = 0) := by omega
      simp only [List.length_cons, e3, if_false, e1, Nat.zero_ne_one, e2]
      cases convertLoop (fuel' - f) y X Y <;> simp [Except.map, bind, Except.bind, pure, Except.pure]
    · simp only [lrOf, pathOf, hlt, if_false, List.append_assoc]
      have e : (i - b) + 2 ^ (f + 1) * y = (i - (b + 2 ^ f)) + 2 ^ f * (2 * y + 1) := by
        rw [two_pow_succ', Nat.mul_add, Nat.mul_one, ← Nat.mul_assoc, Nat.mul_comm (2 ^ f) 2]
        omega
      have eX : X ++ metaRoot ((ls.drop b).take (2 ^ f)) :: (lrOf ls i f (b + 2 ^ f)).1
          = (X ++ [metaRoot ((ls.drop b).take (2 ^ f))]) ++ (lrOf ls i f (b + 2 ^ f)).1 := by simp
      rw [e, eX, ih (b + 2 ^ f) (2 * y + 1) (fuel' + 1) _ Y (by omega) (by omega) (by omega)]
      have ef : fuel' + 1 - f = (fuel' - f) + 1 := by omega
      have ef2 : fuel' + 1 - (f + 1) = fuel' - f := by omega
      rw [ef, ef2]
      simp only [convertLoop]
      have e1 : (2 * y + 1) % 2 = 1 := by omega
      have e2 : (2 * y + 1) / 2 = y := by omega
      have e3 : ¬ ((X ++ [metaRoot ((ls.drop b).take (2 ^ f))]).length + Y.length = 0) := by simp
      simp only [e3, if_false, e1, if_true, e2, List.getLast?_append, List.getLast?_singleton,
        List.dropLast_concat]
      cases convertLoop (fuel' - f) y X Y <;> simp [Except.map, bind, Except.bind, pure, Except.pure]

end Sia.Rhp
