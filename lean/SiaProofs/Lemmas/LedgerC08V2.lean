import SiaProofs.Lemmas.LedgerC08Fold
/-!
# The v2 validators of the ledger model as conjunctions of named rules

Each validator of `SiaModel/Ledger/Model.lean` is re-expressed (with a proof of equality to the
model's definition) through a per-item step function, and acceptance of the step is characterised
by an explicit rule structure.  C02 / C07 / C08 read the rules off these characterisations.
-/
namespace Sia.Ledger

-- ================================================================= siacoin inputs

/-- per-input body of the first loop of `validateV2Siacoins` (copied verbatim from the model) -/
def scIn2Step (ms : Mid) (seen : List Id) (sci : ScIn2) : VM (List Id) := do
    if ms.isSpent sci.parent.id then reject "siacoin input double-spends parent output"
    else if seen.contains sci.parent.id then reject "siacoin input double-spends parent output (previously spent by input)"
    else if sci.parent.maturity > ms.base.child then reject "siacoin input has immature parent"
    else
      (match sci.parent.leaf with
       | none => validateEphemeralSc ms sci
       | some _ => if ms.base.hasSc sci.parent then pure () else reject "siacoin input spends output not present in the accumulator")
      if ¬ sci.addrOk then reject "claims incorrect policy for parent address"
      else if ¬ sci.authOk then reject "failed to satisfy spend policy"
      else pure (sci.parent.id :: seen)

/-- the balance part of `validateV2Siacoins` (copied verbatim from the model) -/
def v2ScBalance (t : Txn2) : VM Unit := do
  let inputSum0 ← t.scIns.foldlM (fun (s : Cur) sci => if s + sci.parent.value < curLimit then pure (s + sci.parent.value) else reject "siacoin inputs overflow") 0
  let outputSum0 ← t.scOuts.foldlM (fun (s : Cur) o => if o.2.value = 0 then reject "siacoin output has zero value" else addC s o.2.value) 0
  let outputSum1 ← t.fcs.foldlM (fun s (_, fc, _) => do
    let a ← addC s fc.renter.value
    let b ← addC a fc.host.value
    let tax ← v2Tax fc
    addC b tax) outputSum0
  let (inputSum, outputSum2) ← t.ress.foldlM (fun ((i, o) : Cur × Cur) r => match r.res with
    | .renewal rn => do
      let i1 ← if i + rn.renterRollover < curLimit then pure (i + rn.renterRollover) else reject "siacoin inputs overflow"
      let i2 ← if i1 + rn.hostRollover < curLimit then pure (i1 + rn.hostRollover) else reject "siacoin inputs overflow"
      let a ← addC o rn.newContract.renter.value
      let b ← addC a rn.newContract.host.value
      let tax ← v2Tax rn.newContract
      let c ← addC b tax
      pure (i2, c)
    | _ => pure (i, o)) (inputSum0, outputSum1)
  let outputSum ← addC outputSum2 t.fee
  if inputSum ≠ outputSum then reject "siacoin inputs do not equal outputs" else pure ()

theorem validateV2Siacoins_eq (ms : Mid) (t : Txn2) :
    validateV2Siacoins ms t = (do let _ ← t.scIns.foldlM (scIn2Step ms) []; v2ScBalance t) := rfl

/-- existence rule of a v2 siacoin input: a non-ephemeral parent must be an element of the ledger,
an ephemeral one must have been created earlier in the block (with matching content from
`ephemeralFix` on) -/
def ScIn2Present (ms : Mid) (sci : ScIn2) : Prop :=
  match sci.parent.leaf with
  | none => validateEphemeralSc ms sci = .ok ()
  | some _ => ms.base.hasSc sci.parent = true

instance (ms : Mid) (sci : ScIn2) : Decidable (ScIn2Present ms sci) := by
  unfold ScIn2Present; split <;> infer_instance

/-- all rules a v2 siacoin input has to satisfy on its own -/
structure ScIn2Rules (ms : Mid) (sci : ScIn2) : Prop where
  notSpent : ms.isSpent sci.parent.id = false
  mature : sci.parent.maturity ≤ ms.base.child
  present : ScIn2Present ms sci
  addrOk : sci.addrOk = true
  authOk : sci.authOk = true

theorem scIn2Rules_iff (ms : Mid) (sci : ScIn2) : ScIn2Rules ms sci ↔
    (ms.isSpent sci.parent.id = false ∧ sci.parent.maturity ≤ ms.base.child ∧ ScIn2Present ms sci ∧
      sci.addrOk = true ∧ sci.authOk = true) :=
  ⟨fun h => ⟨h.1, h.2, h.3, h.4, h.5⟩, fun h => ⟨h.1, h.2.1, h.2.2.1, h.2.2.2.1, h.2.2.2.2⟩⟩

theorem scIn2Step_ok_iff (ms : Mid) (seen : List Id) (sci : ScIn2) (s' : List Id) :
    scIn2Step ms seen sci = .ok s' ↔ (s' = sci.parent.id :: seen ∧ (sci.parent.id ∉ seen ∧ ScIn2Rules ms sci)) := by
  unfold scIn2Step
  rw [scIn2Rules_iff]
  split
  · simp_all
  split
  · simp_all
  split
  · simp_all; intros; omega
  rw [bind_unit_ok_iff]
  unfold ScIn2Present
  split
  · split
    · simp_all
    split
    · simp_all
    simp_all
    exact And.comm
  · split
    · split
      · simp_all
      split
      · simp_all
      simp_all
    · simp_all

theorem validateEphemeralSc_noPanic (ms : Mid) (sci : ScIn2) : NoPanic (validateEphemeralSc ms sci) := by
  unfold validateEphemeralSc
  split
  · simp
  · simp only []
    repeat' split
    all_goals simp

theorem scIn2Step_noPanic (ms : Mid) (seen : List Id) (sci : ScIn2) : NoPanic (scIn2Step ms seen sci) := by
  unfold scIn2Step
  split
  · simp
  split
  · simp
  split
  · simp
  refine bind_noPanic ?_ ?_
  · split
    · exact validateEphemeralSc_noPanic ms sci
    · split <;> simp
  · intro _ _
    repeat' split
    all_goals simp

/-- `validateV2Siacoins` accepts iff every input satisfies its rules, no parent id is listed twice,
and the balance part accepts. -/
theorem validateV2Siacoins_ok_iff (ms : Mid) (t : Txn2) :
    validateV2Siacoins ms t = .ok () ↔
      ((∀ sci ∈ t.scIns, ScIn2Rules ms sci) ∧ (t.scIns.map (·.parent.id)).Nodup ∧ v2ScBalance t = .ok ()) := by
  rw [validateV2Siacoins_eq, bind_ok_iff]
  constructor
  · rintro ⟨s, hs, hb⟩
    rw [foldlM_ok_iff (scIn2Step_ok_iff ms)] at hs
    have := (foldAll_seen_iff (fun sci : ScIn2 => sci.parent.id) (ScIn2Rules ms) t.scIns []).1 hs.2
    exact ⟨fun sci h => (this.1 sci h).2, this.2, hb⟩
  · rintro ⟨h1, h2, h3⟩
    refine ⟨_, (foldlM_ok_iff (scIn2Step_ok_iff ms) _ _ _).2 ⟨rfl, ?_⟩, h3⟩
    exact (foldAll_seen_iff (fun sci : ScIn2 => sci.parent.id) (ScIn2Rules ms) t.scIns []).2
      ⟨fun sci h => ⟨by simp, h1 sci h⟩, h2⟩

/-- if the input rules are violated the validator *rejects* (it does not panic) -/
theorem validateV2Siacoins_rejected (ms : Mid) (t : Txn2)
    (h : ¬ ((∀ sci ∈ t.scIns, ScIn2Rules ms sci) ∧ (t.scIns.map (·.parent.id)).Nodup)) :
    Rejected (validateV2Siacoins ms t) := by
  rw [validateV2Siacoins_eq]
  apply bind_rejected_left
  apply rejected_of_notOk_noPanic
  · intro s hs
    rw [foldlM_ok_iff (scIn2Step_ok_iff ms)] at hs
    have := (foldAll_seen_iff (fun sci : ScIn2 => sci.parent.id) (ScIn2Rules ms) t.scIns []).1 hs.2
    exact h ⟨fun sci h => (this.1 sci h).2, this.2⟩
  · exact foldlM_noPanic (scIn2Step_noPanic ms) _ _

-- ================================================================= siafund inputs

def sfIn2Step (ms : Mid) (seen : List Id) (sfi : SfIn2) : VM (List Id) := do
    if ms.isSpent sfi.parent.id then reject "siafund input double-spends parent output"
    else if seen.contains sfi.parent.id then reject "siafund input double-spends parent output (previously spent by input)"
    else
      (match sfi.parent.leaf with
       | none => validateEphemeralSf ms sfi
       | some _ => if ms.base.hasSf sfi.parent then pure () else reject "siafund input spends output not present in the accumulator")
      if ¬ sfi.addrOk then reject "claims incorrect policy for parent address"
      else if ¬ sfi.authOk then reject "failed to satisfy spend policy"
      else pure (sfi.parent.id :: seen)

def v2SfBalance (t : Txn2) : VM Unit := do
  let inputSum := t.sfIns.foldl (fun s i => (s + i.parent.value) % u64Limit) 0
  let outputSum ← t.sfOuts.foldlM (fun (s : Nat) (_, v, _) => if v = 0 then reject "siafund output has zero value" else pure ((s + v) % u64Limit)) 0
  if inputSum ≠ outputSum then reject "siafund inputs do not equal outputs" else pure ()

theorem validateV2Siafunds_eq (ms : Mid) (t : Txn2) :
    validateV2Siafunds ms t = (do let _ ← t.sfIns.foldlM (sfIn2Step ms) []; v2SfBalance t) := rfl

def SfIn2Present (ms : Mid) (sfi : SfIn2) : Prop :=
  match sfi.parent.leaf with
  | none => validateEphemeralSf ms sfi = .ok ()
  | some _ => ms.base.hasSf sfi.parent = true

instance (ms : Mid) (sfi : SfIn2) : Decidable (SfIn2Present ms sfi) := by
  unfold SfIn2Present; split <;> infer_instance

structure SfIn2Rules (ms : Mid) (sfi : SfIn2) : Prop where
  notSpent : ms.isSpent sfi.parent.id = false
  present : SfIn2Present ms sfi
  addrOk : sfi.addrOk = true
  authOk : sfi.authOk = true

theorem sfIn2Rules_iff (ms : Mid) (sfi : SfIn2) : SfIn2Rules ms sfi ↔
    (ms.isSpent sfi.parent.id = false ∧ SfIn2Present ms sfi ∧ sfi.addrOk = true ∧ sfi.authOk = true) :=
  ⟨fun h => ⟨h.1, h.2, h.3, h.4⟩, fun h => ⟨h.1, h.2.1, h.2.2.1, h.2.2.2⟩⟩

theorem sfIn2Step_ok_iff (ms : Mid) (seen : List Id) (sfi : SfIn2) (s' : List Id) :
    sfIn2Step ms seen sfi = .ok s' ↔ (s' = sfi.parent.id :: seen ∧ (sfi.parent.id ∉ seen ∧ SfIn2Rules ms sfi)) := by
  unfold sfIn2Step
  rw [sfIn2Rules_iff]
  split
  · simp_all
  split
  · simp_all
  rw [bind_unit_ok_iff]
  unfold SfIn2Present
  split
  · split
    · simp_all
    split
    · simp_all
    simp_all
    exact And.comm
  · split
    · split
      · simp_all
      split
      · simp_all
      simp_all
    · simp_all

theorem sfIn2Step_noPanic (ms : Mid) (seen : List Id) (sfi : SfIn2) : NoPanic (sfIn2Step ms seen sfi) := by
  unfold sfIn2Step
  split
  · simp
  split
  · simp
  refine bind_noPanic ?_ ?_
  · split
    · unfold validateEphemeralSf
      repeat' split
      all_goals simp
    · split <;> simp
  · intro _ _
    repeat' split
    all_goals simp

theorem validateV2Siafunds_ok_iff (ms : Mid) (t : Txn2) :
    validateV2Siafunds ms t = .ok () ↔
      ((∀ sfi ∈ t.sfIns, SfIn2Rules ms sfi) ∧ (t.sfIns.map (·.parent.id)).Nodup ∧ v2SfBalance t = .ok ()) := by
  rw [validateV2Siafunds_eq, bind_ok_iff]
  constructor
  · rintro ⟨s, hs, hb⟩
    rw [foldlM_ok_iff (sfIn2Step_ok_iff ms)] at hs
    have := (foldAll_seen_iff (fun sfi : SfIn2 => sfi.parent.id) (SfIn2Rules ms) t.sfIns []).1 hs.2
    exact ⟨fun sfi h => (this.1 sfi h).2, this.2, hb⟩
  · rintro ⟨h1, h2, h3⟩
    refine ⟨_, (foldlM_ok_iff (sfIn2Step_ok_iff ms) _ _ _).2 ⟨rfl, ?_⟩, h3⟩
    exact (foldAll_seen_iff (fun sfi : SfIn2 => sfi.parent.id) (SfIn2Rules ms) t.sfIns []).2
      ⟨fun sfi h => ⟨by simp, h1 sfi h⟩, h2⟩

theorem validateV2Siafunds_rejected (ms : Mid) (t : Txn2)
    (h : ¬ ((∀ sfi ∈ t.sfIns, SfIn2Rules ms sfi) ∧ (t.sfIns.map (·.parent.id)).Nodup)) :
    Rejected (validateV2Siafunds ms t) := by
  rw [validateV2Siafunds_eq]
  apply bind_rejected_left
  apply rejected_of_notOk_noPanic
  · intro s hs
    rw [foldlM_ok_iff (sfIn2Step_ok_iff ms)] at hs
    have := (foldAll_seen_iff (fun sfi : SfIn2 => sfi.parent.id) (SfIn2Rules ms) t.sfIns []).1 hs.2
    exact h ⟨fun sfi h => (this.1 sfi h).2, this.2⟩
  · exact foldlM_noPanic (sfIn2Step_noPanic ms) _ _

-- ================================================================= file contracts

/-- rules of `validateContract2` (formation and renewal's new contract) -/
structure Contract2Rules (child : Nat) (fc : Fc2) (sigOk : Bool) : Prop where
  filesize : fc.filesize ≤ fc.capacity
  proofHeight : child ≤ fc.proofHeight
  exp : fc.proofHeight < fc.expHeight
  value : ¬ (fc.renter.value = 0 ∧ fc.host.value = 0)
  missed : fc.missedHost ≤ fc.host.value
  collateral : fc.totalCollateral ≤ fc.host.value
  sig : sigOk = true

theorem validateContract2_ok_iff (ms : Mid) (fc : Fc2) (sigOk : Bool) :
    validateContract2 ms fc sigOk = .ok () ↔ Contract2Rules ms.base.child fc sigOk := by
  unfold validateContract2
  constructor
  · intro h
    repeat' split at h
    all_goals first | exact absurd h (reject_ne_ok _ _) | skip
    constructor <;> first | cur_omega | assumption
  · rintro ⟨h1, h2, h3, h4, h5, h6, h7⟩
    rw [if_neg (by cur_omega), if_neg (by cur_omega), if_neg (by cur_omega), if_neg h4, if_neg (by cur_omega),
      if_neg (by cur_omega), if_pos h7]
    rfl

theorem validateContract2_noPanic (ms : Mid) (fc : Fc2) (sigOk : Bool) : NoPanic (validateContract2 ms fc sigOk) := by
  unfold validateContract2
  repeat' split
  all_goals simp

/-- rules of `validateParent2` -/
structure Parent2Rules (ms : Mid) (revised resolved : List Id) (e : Fc2Elem) : Prop where
  notSpent : ms.isSpent e.id = false
  notRevised : e.id ∉ revised
  notResolved : e.id ∉ resolved
  present : ms.base.hasFc2 e = true

theorem validateParent2_ok_iff (ms : Mid) (revised resolved : List Id) (e : Fc2Elem) :
    validateParent2 ms revised resolved e = .ok () ↔ Parent2Rules ms revised resolved e := by
  unfold validateParent2
  constructor
  · intro h
    repeat' split at h
    all_goals first | exact absurd h (reject_ne_ok _ _) | skip
    constructor <;> simp_all
  · rintro ⟨h1, h2, h3, h4⟩
    repeat' split
    all_goals first | rfl | (exfalso; simp_all; done)

theorem validateParent2_noPanic (ms : Mid) (revised resolved : List Id) (e : Fc2Elem) :
    NoPanic (validateParent2 ms revised resolved e) := by
  unfold validateParent2
  repeat' split
  all_goals simp

/-- the contract "as it currently stands" for a v2 revision: the latest in-block revision if there
is one, else the version presented in the transaction -/
def Mid.curFc2 (ms : Mid) (e : Fc2Elem) : Fc2 :=
  match ms.lookup e.id with
  | some i => match (ms.v2fces.getD i default).revision with
    | some r => r
    | none => e.fc
  | none => e.fc

/-- rules of `validateRevision2` relative to the current contract `cur` -/
structure Revision2Rules (child ephemeralFix : Nat) (cur rev : Fc2) (sigOk : Bool) : Prop where
  curNoOverflow : cur.renter.value + cur.host.value < curLimit
  revNoOverflow : rev.renter.value + rev.host.value < curLimit
  capacity : cur.capacity ≤ rev.capacity
  filesize : rev.filesize ≤ rev.capacity
  curProofHeight : child ≤ cur.proofHeight
  revNum : cur.revNum < rev.revNum
  sum : rev.renter.value + rev.host.value = cur.renter.value + cur.host.value
  missed : rev.missedHost ≤ cur.missedHost
  missedFix : ephemeralFix ≤ child → rev.missedHost ≤ rev.host.value
  collateral : rev.totalCollateral = cur.totalCollateral
  proofHeight : child ≤ rev.proofHeight
  exp : rev.proofHeight < rev.expHeight
  sig : sigOk = true

/-- `validateRevision2` with the current contract made a parameter (copied from the model) -/
def revision2Check (child ephemeralFix : Nat) (cur rev : Fc2) (sigCurOk : Bool) : VM Unit := do
  let curSum ← addC cur.renter.value cur.host.value
  let revSum ← addC rev.renter.value rev.host.value
  if rev.capacity < cur.capacity then reject "decreases capacity"
  else if rev.filesize > rev.capacity then reject "has filesize exceeding capacity"
  else if cur.proofHeight < child then reject "revises contract after its proof window has opened"
  else if rev.revNum ≤ cur.revNum then reject "does not increase revision number"
  else if revSum ≠ curSum then reject "modifies output sum"
  else if rev.missedHost > cur.missedHost then reject "has missed host value exceeding old value"
  else if child ≥ ephemeralFix ∧ rev.missedHost > rev.host.value then reject "has missed host value exceeding valid host value"
  else if rev.totalCollateral ≠ cur.totalCollateral then reject "modifies total collateral"
  else if rev.proofHeight < child then reject "has proof height that has already passed"
  else if rev.expHeight ≤ rev.proofHeight then reject "leaves no time between proof height and expiration height"
  else if sigCurOk then pure () else reject "has invalid signature"

theorem validateRevision2_eq (ms : Mid) (e : Fc2Elem) (rev : Fc2) (sigOk : Bool) :
    validateRevision2 ms e rev sigOk =
      revision2Check ms.base.child ms.base.P.ephemeralFix (ms.curFc2 e) rev sigOk := rfl

theorem revision2Check_ok_iff (child fix : Nat) (cur rev : Fc2) (sigOk : Bool) :
    revision2Check child fix cur rev sigOk = .ok () ↔ Revision2Rules child fix cur rev sigOk := by
  unfold revision2Check
  constructor
  · intro h
    obtain ⟨curSum, hc, h⟩ := bind_ok_iff.1 h
    obtain ⟨revSum, hr, h⟩ := bind_ok_iff.1 h
    obtain ⟨rfl, hc⟩ := (addC_ok_iff _ _ _).1 hc
    obtain ⟨rfl, hr⟩ := (addC_ok_iff _ _ _).1 hr
    repeat' split at h
    all_goals first | exact absurd h (reject_ne_ok _ _) | skip
    constructor <;> first | cur_omega | assumption | (intro; cur_omega)
  · rintro ⟨h1, h2, h3, h4, h5, h6, h7, h8, h9, h10, h11, h12, h13⟩
    rw [addC_eq_ok h1, addC_eq_ok h2]
    simp only [ok_bind]
    rw [if_neg (by cur_omega), if_neg (by cur_omega), if_neg (by cur_omega), if_neg (by cur_omega),
      if_neg (fun hn => hn h7), if_neg (by cur_omega), if_neg (fun hh => by have := h9 hh.1; cur_omega),
      if_neg (fun hn => hn h10), if_neg (by cur_omega), if_neg (by cur_omega), if_pos h13]
    rfl

theorem validateRevision2_ok_iff (ms : Mid) (e : Fc2Elem) (rev : Fc2) (sigOk : Bool) :
    validateRevision2 ms e rev sigOk = .ok () ↔
      Revision2Rules ms.base.child ms.base.P.ephemeralFix (ms.curFc2 e) rev sigOk := by
  rw [validateRevision2_eq, revision2Check_ok_iff]

/-- the renewal branch of the resolution loop, without the loop bookkeeping (copied from the model) -/
def renewalCheck (ms : Mid) (fc : Fc2) (rn : Renewal) : VM Unit :=
      if fc.renterKey ≠ rn.newContract.renterKey then reject "file contract renewal changes renter public key"
      else if fc.hostKey ≠ rn.newContract.hostKey then reject "file contract renewal changes host public key"
      else do
        let a ← addC rn.finalRenter.value rn.renterRollover
        let b ← addC a rn.finalHost.value
        let totalPayout ← addC b rn.hostRollover
        let existing ← addC fc.renter.value fc.host.value
        if totalPayout ≠ existing then reject "renewal payout does not match existing contract payout"
        else
          let c ← addC rn.newContract.renter.value rn.newContract.host.value
          let tax ← v2Tax rn.newContract
          let cost ← addC c tax
          let rollover ← addC rn.renterRollover rn.hostRollover
          if rollover > cost then reject "file contract renewal has rollover exceeding new contract cost"
          else
            validateContract2 ms rn.newContract rn.newSigOk
            if rn.sigOk then pure () else reject "file contract renewal has invalid signature"

/-- the kind-specific checks of one resolution -/
def res2Check (ms : Mid) (r : Resolution2) : VM Unit :=
    let fc := r.parent.fc
    match r.res with
    | .renewal rn => renewalCheck ms fc rn
    | .proof ih iid leafOk proofOk =>
      if ms.base.child < fc.proofHeight then reject "file contract storage proof cannot be submitted until after proof height"
      else if ih ≠ fc.proofHeight then reject "file contract storage proof has ProofIndex height that does not match contract ProofHeight"
      else if ¬ (leafOk ∧ ms.base.chain.contains (ih, iid)) then reject "file contract storage proof has invalid history proof"
      else if ¬ proofOk then reject "file contract storage proof has root that does not match contract Merkle root"
      else pure ()
    | .expiration =>
      if ms.base.child ≤ fc.expHeight then reject "file contract expiration cannot be submitted until after expiration height"
      else pure ()

def res2Step (ms : Mid) (revised resolved : List Id) (r : Resolution2) : VM (List Id) := do
    validateParent2 ms revised resolved r.parent
    res2Check ms r
    pure (r.parent.id :: resolved)

/-- the checks of one revision besides the duplicate bookkeeping -/
def rev2Check (ms : Mid) (r : Rev2) : VM Unit := do
    if r.parent.fc.proofHeight < ms.base.child then reject "file contract revision cannot be applied to contract after proof height"
    else validateRevision2 ms r.parent r.rev r.sigCurOk

def rev2Step (ms : Mid) (revised : List Id) (r : Rev2) : VM (List Id) := do
    validateParent2 ms revised [] r.parent
    rev2Check ms r
    pure (r.parent.id :: revised)

theorem validateV2FileContracts_eq (ms : Mid) (t : Txn2) :
    validateV2FileContracts ms t = (do
      forIn t.fcs PUnit.unit (fun x _ => validateContract2 ms x.2.1 x.2.2 >>= fun _ => pure (ForInStep.yield PUnit.unit))
      let revised ← t.revs.foldlM (rev2Step ms) []
      let _ ← t.ress.foldlM (res2Step ms revised) []
      pure ()) := by
  unfold validateV2FileContracts
  congr 1; funext _; congr 1
  · congr 1; funext revised r
    unfold rev2Step rev2Check
    congr 1; funext _
    simp only [ite_bind', reject_bind]
  · funext revised
    congr 1; congr 1; funext resolved r
    unfold res2Step res2Check renewalCheck
    congr 1; funext _
    cases r.res with
    | renewal rn => simp only [ite_bind', reject_bind, bind_assoc, pure_bind]
    | proof ih iid leafOk proofOk => simp only [ite_bind', reject_bind, pure_bind]
    | expiration => simp only [ite_bind', reject_bind, pure_bind]

/-- acceptance rules of one v2 revision -/
structure Rev2Rules (ms : Mid) (r : Rev2) : Prop where
  notSpent : ms.isSpent r.parent.id = false
  present : ms.base.hasFc2 r.parent = true
  parentProofHeight : ms.base.child ≤ r.parent.fc.proofHeight
  revision : Revision2Rules ms.base.child ms.base.P.ephemeralFix (ms.curFc2 r.parent) r.rev r.sigCurOk

theorem rev2Check_ok_iff (ms : Mid) (r : Rev2) : rev2Check ms r = .ok () ↔
    (ms.base.child ≤ r.parent.fc.proofHeight ∧
      Revision2Rules ms.base.child ms.base.P.ephemeralFix (ms.curFc2 r.parent) r.rev r.sigCurOk) := by
  unfold rev2Check
  rw [ite_reject_ok_iff, validateRevision2_ok_iff, Nat.not_lt]

theorem rev2Step_ok_iff (ms : Mid) (revised : List Id) (r : Rev2) (s' : List Id) :
    rev2Step ms revised r = .ok s' ↔ (s' = r.parent.id :: revised ∧ (r.parent.id ∉ revised ∧ Rev2Rules ms r)) := by
  unfold rev2Step
  rw [bind_unit_ok_iff, bind_unit_ok_iff, validateParent2_ok_iff, rev2Check_ok_iff, pure_eq_ok]
  constructor
  · rintro ⟨⟨h1, h2, _, h4⟩, ⟨h5, h6⟩, h7⟩
    exact ⟨h7, h2, h1, h4, h5, h6⟩
  · rintro ⟨h7, h2, h1, h4, h5, h6⟩
    exact ⟨⟨h1, h2, by simp, h4⟩, ⟨h5, h6⟩, h7⟩

/-- kind-specific acceptance rules of a v2 resolution -/
def Res2KindRules (ms : Mid) (r : Resolution2) : Prop :=
  match r.res with
  | .renewal rn => renewalCheck ms r.parent.fc rn = .ok ()
  | .proof ih iid leafOk proofOk =>
      r.parent.fc.proofHeight ≤ ms.base.child ∧ ih = r.parent.fc.proofHeight ∧ leafOk = true ∧
        (ih, iid) ∈ ms.base.chain ∧ proofOk = true
  | .expiration => r.parent.fc.expHeight < ms.base.child

theorem res2Check_ok_iff (ms : Mid) (r : Resolution2) : res2Check ms r = .ok () ↔ Res2KindRules ms r := by
  unfold res2Check Res2KindRules
  cases r.res with
  | renewal rn => exact Iff.rfl
  | proof ih iid leafOk proofOk =>
    simp only [ite_reject_ok_iff]
    simp
    intro _ _
    exact and_assoc
  | expiration =>
    simp only [ite_reject_ok_iff]
    simp

/-- acceptance rules of one v2 resolution (`revised` = contracts revised by this transaction) -/
structure Res2Rules (ms : Mid) (revised : List Id) (r : Resolution2) : Prop where
  notSpent : ms.isSpent r.parent.id = false
  notRevised : r.parent.id ∉ revised
  present : ms.base.hasFc2 r.parent = true
  kind : Res2KindRules ms r

theorem res2Step_ok_iff (ms : Mid) (revised resolved : List Id) (r : Resolution2) (s' : List Id) :
    res2Step ms revised resolved r = .ok s' ↔
      (s' = r.parent.id :: resolved ∧ (r.parent.id ∉ resolved ∧ Res2Rules ms revised r)) := by
  unfold res2Step
  rw [bind_unit_ok_iff, bind_unit_ok_iff, validateParent2_ok_iff, res2Check_ok_iff, pure_eq_ok]
  constructor
  · rintro ⟨⟨h1, h2, h3, h4⟩, h5, h7⟩
    exact ⟨h7, h3, h1, h2, h4, h5⟩
  · rintro ⟨h7, h3, h1, h2, h4, h5⟩
    exact ⟨⟨h1, h2, h3, h4⟩, h5, h7⟩

/-- `validateV2FileContracts` accepts iff every formation, revision and resolution satisfies its
rules, no contract is revised twice, resolved twice, or revised and resolved by the transaction. -/
theorem validateV2FileContracts_ok_iff (ms : Mid) (t : Txn2) :
    validateV2FileContracts ms t = .ok () ↔
      ((∀ x ∈ t.fcs, Contract2Rules ms.base.child x.2.1 x.2.2) ∧
       (∀ r ∈ t.revs, Rev2Rules ms r) ∧ (t.revs.map (·.parent.id)).Nodup ∧
       (∀ r ∈ t.ress, Res2Rules ms (t.revs.map (·.parent.id)).reverse r) ∧ (t.ress.map (·.parent.id)).Nodup) := by
  rw [validateV2FileContracts_eq, bind_unit_ok_iff, forIn_step_ok_iff]
  simp only [validateContract2_ok_iff]
  rw [bind_ok_iff]
  constructor
  · rintro ⟨h1, revised, h2, h3⟩
    rw [foldlM_ok_iff (rev2Step_ok_iff ms)] at h2
    obtain ⟨rfl, h2⟩ := h2
    have h2' := (foldAll_seen_iff (fun r : Rev2 => r.parent.id) (Rev2Rules ms) t.revs []).1 h2
    obtain ⟨s, h3, _⟩ := bind_ok_iff.1 h3
    rw [foldlM_ok_iff (res2Step_ok_iff ms _)] at h3
    have h3' := (foldAll_seen_iff (fun r : Resolution2 => r.parent.id) (Res2Rules ms _) t.ress []).1 h3.2
    rw [foldl_seen] at h3'
    simp only [List.append_nil] at h3'
    exact ⟨h1, fun r h => (h2'.1 r h).2, h2'.2, fun r h => (h3'.1 r h).2, h3'.2⟩
  · rintro ⟨h1, h2, h3, h4, h5⟩
    refine ⟨h1, _, (foldlM_ok_iff (rev2Step_ok_iff ms) _ _ _).2 ⟨rfl, ?_⟩, ?_⟩
    · exact (foldAll_seen_iff (fun r : Rev2 => r.parent.id) (Rev2Rules ms) t.revs []).2
        ⟨fun r h => ⟨by simp, h2 r h⟩, h3⟩
    · rw [bind_ok_iff]
      refine ⟨_, (foldlM_ok_iff (res2Step_ok_iff ms _) _ _ _).2 ⟨rfl, ?_⟩, rfl⟩
      rw [foldl_seen]
      simp only [List.append_nil]
      exact (foldAll_seen_iff (fun r : Resolution2 => r.parent.id) (Res2Rules ms _) t.ress []).2
        ⟨fun r h => ⟨by simp, h4 r h⟩, h5⟩

-- ================================================================= the whole transaction

/-- `validateV2Transaction` without the join points of the `do` elaboration -/
def v2TxnChecks (ms : Mid) (t : Txn2) (maxWeight : Nat) : VM Unit :=
  if ms.base.child < ms.base.P.v2Allow then reject "v2 transactions are not allowed until v2 hardfork begins"
  else do
    validateV2CurrencyOverflow t
    validateV2TaxPool ms t
    if t.weight = 0 then reject "transactions cannot be empty"
    else if t.weight > maxWeight then reject "transaction exceeds maximum block weight"
    else do
      validateV2Siacoins ms t
      validateV2Siafunds ms t
      validateV2FileContracts ms t
      if ¬ t.attsOk then reject "attestation invalid"
      else validateFoundationUpdate ms t

theorem validateV2Transaction_eq (ms : Mid) (t : Txn2) (maxWeight : Nat) :
    validateV2Transaction ms t maxWeight = v2TxnChecks ms t maxWeight := by
  unfold validateV2Transaction v2TxnChecks
  simp only [reject_bind]

theorem validateV2Transaction_ok_iff (ms : Mid) (t : Txn2) (maxWeight : Nat) :
    validateV2Transaction ms t maxWeight = .ok () ↔
      (ms.base.P.v2Allow ≤ ms.base.child ∧ (validateV2CurrencyOverflow t = .ok () ∧ validateV2TaxPool ms t = .ok ()) ∧ t.weight ≠ 0 ∧
       t.weight ≤ maxWeight ∧ validateV2Siacoins ms t = .ok () ∧ validateV2Siafunds ms t = .ok () ∧
       validateV2FileContracts ms t = .ok () ∧ t.attsOk = true ∧ validateFoundationUpdate ms t = .ok ()) := by
  rw [validateV2Transaction_eq]
  unfold v2TxnChecks
  simp only [ite_reject_ok_iff, seq_unit_ok_iff, Nat.not_lt, Decidable.not_not, ne_eq, and_assoc]

end Sia.Ledger
