import SiaProofs.Lemmas.StorageProofBits
import SiaProofs.Lemmas.MerkleRhpSound
/-!
  Helper lemmas for C07 (storage proofs), part 2: the verifier's fold as a chain with a
  direction rule, the honest path `spPath`, completeness.
-/
set_option linter.unusedVariables false
set_option linter.unusedSectionVars false
namespace Sia.SP
open Sia.Rhp Sia.Rhp.HashOps

variable {H : Type} [HashOps H]

/-- fold a proof from the leaf with a direction rule (`true` = sibling on the left) -/
def chainD (dirs : Nat → Bool) : Nat → H → List H → H
  | _, r, [] => r
  | j, r, p :: ps => chainD dirs (j + 1) (if dirs j then node p r else node r p) ps

theorem spLoop_eq_chainD (i sh : Nat) : ∀ (ps : List H) (j : Nat) (r : H),
    spLoop i sh j r ps = chainD (dirOf i sh) j r ps := by
  intro ps
  induction ps with
  | nil => intro j r; rfl
  | cons p ps ih =>
    intro j r
    simp only [spLoop, chainD]
    rw [ih]
    congr 1
    by_cases h : i / 2 ^ j % 2 = 1 ∨ j ≥ sh
    · simp [h, (dirOf_iff i sh j).1 h]
    · have : dirOf i sh j = false := by
        cases hd : dirOf i sh j with
        | false => rfl
        | true => exact absurd ((dirOf_iff i sh j).2 hd) h
      simp [h, this]

theorem chainD_snoc (dirs : Nat → Bool) : ∀ (ps : List H) (j : Nat) (r p : H),
    chainD dirs j r (ps ++ [p]) =
      if dirs (j + ps.length) then node p (chainD dirs j r ps) else node (chainD dirs j r ps) p := by
  intro ps
  induction ps with
  | nil => intro j r p; simp [chainD]
  | cons q ps ih =>
    intro j r p
    simp only [List.cons_append, chainD, List.length_cons]
    rw [ih]
    have : j + 1 + ps.length = j + (ps.length + 1) := by omega
    rw [this]

theorem chainD_congr (d1 d2 : Nat → Bool) : ∀ (ps : List H) (j : Nat) (r : H),
    (∀ x, j ≤ x → x < j + ps.length → d1 x = d2 x) → chainD d1 j r ps = chainD d2 j r ps := by
  intro ps
  induction ps with
  | nil => intro j r _; rfl
  | cons p ps ih =>
    intro j r h
    simp only [chainD]
    rw [h j (Nat.le_refl _) (by simp), ih (j + 1) _ (fun x h1 h2 => h x (by omega) (by simp at h2 ⊢; omega))]

/-- the v2 function is the same fold once the proof is long enough -/
theorem foldl_left_eq_chainD (dirs : Nat → Bool) : ∀ (ps : List H) (j : Nat) (r : H),
    (∀ x, j ≤ x → dirs x = true) → ps.foldl (fun root h => node h root) r = chainD dirs j r ps := by
  intro ps
  induction ps with
  | nil => intro j r _; rfl
  | cons p ps ih =>
    intro j r h
    simp only [List.foldl_cons, chainD, h j (Nat.le_refl _), if_true]
    exact ih (j + 1) _ (fun x hx => h x (by omega))

theorem leafToRoot_eq_chainD (i : Nat) : ∀ (ps : List H) (j : Nat) (r : H) (dirs : Nat → Bool),
    (∀ x, x < ps.length → dirs (j + x) = (i / 2 ^ j).testBit x) →
    leafToRoot r (i / 2 ^ j) ps = chainD dirs j r ps := by
  intro ps
  induction ps with
  | nil => intro j r dirs _; rfl
  | cons p ps ih =>
    intro j r dirs h
    simp only [leafToRoot, chainD]
    have h0 := h 0 (by simp)
    simp only [Nat.add_zero] at h0
    have hb : (i / 2 ^ j).testBit 0 = decide (i / 2 ^ j % 2 = 1) := by
      rw [Nat.testBit_eq_decide_div_mod_eq]; simp
    have hdiv : i / 2 ^ j / 2 = i / 2 ^ (j + 1) := by rw [Nat.div_div_eq_div_mul, Nat.pow_succ]
    rw [hdiv]
    have hnext := ih (j + 1) (if i / 2 ^ j % 2 = 1 then node p r else node r p) dirs (by
      intro x hx
      have := h (x + 1) (by simp; omega)
      have e : j + (x + 1) = j + 1 + x := by omega
      rw [e] at this
      rw [this, ← hdiv, Nat.testBit_succ])
    rw [hnext]
    congr 1
    rw [h0, hb]
    by_cases hc : i / 2 ^ j % 2 = 1 <;> simp [hc]

theorem storageProofRoot_eq_chainD (leafHash : H) (i fs : Nat) (proof : List H)
    (hlen : bitLen (i ^^^ lastLeafIndex fs) ≤ proof.length) :
    storageProofRoot leafHash i fs proof = chainD (dirOf i (bitLen (i ^^^ lastLeafIndex fs))) 0 leafHash proof := by
  unfold storageProofRoot proofRoot storageProofSubtreeHeight
  simp only
  have hn : ¬ (proof.length < bitLen (i ^^^ lastLeafIndex fs)) := by omega
  simp only [hn, if_false]
  generalize bitLen (i ^^^ lastLeafIndex fs) = sh at *
  have hsplit : proof = proof.take sh ++ proof.drop sh := (List.take_append_drop sh proof).symm
  have htl : (proof.take sh).length = sh := by simp [List.length_take]; omega
  -- first part: bits of the index
  have h1 : leafToRoot leafHash i (proof.take sh) = chainD (dirOf i sh) 0 leafHash (proof.take sh) := by
    have := leafToRoot_eq_chainD i (proof.take sh) 0 leafHash (dirOf i sh) (by
      intro x hx
      rw [htl] at hx
      simp only [Nat.zero_add, Nat.pow_zero, Nat.div_one, dirOf]
      have : ¬ (x ≥ sh) := by omega
      simp [this])
    simpa using this
  rw [h1]
  -- second part: all siblings on the left
  have h2 := foldl_left_eq_chainD (dirOf i sh) (proof.drop sh) sh
    (chainD (dirOf i sh) 0 leafHash (proof.take sh)) (by intro x hx; simp [dirOf, hx])
  rw [h2]
  -- glue
  have glue : ∀ (a b : List H) (j : Nat) (r : H), chainD (dirOf i sh) j r (a ++ b)
      = chainD (dirOf i sh) (j + a.length) (chainD (dirOf i sh) j r a) b := by
    intro a
    induction a with
    | nil => intro b j r; simp [chainD]
    | cons p a iha =>
      intro b j r
      simp only [List.cons_append, chainD, List.length_cons]
      rw [iha]
      have : j + 1 + a.length = j + (a.length + 1) := by omega
      rw [this]
  conv => rhs; rw [hsplit]
  rw [glue, htl, Nat.zero_add]

/-! ### the honest path -/

theorem spPath_small (ls : List H) (i : Nat) (h : ls.length < 2) : spPath ls i = [] := by
  rw [spPath]; simp [h]

theorem spPath_left (ls : List H) (i : Nat) (h : 2 ≤ ls.length) (hi : i < splitPoint ls.length) :
    spPath ls i = spPath (ls.take (splitPoint ls.length)) i ++ [metaRoot (ls.drop (splitPoint ls.length))] := by
  rw [spPath]
  have : ¬ (ls.length < 2) := by omega
  simp [this, hi]

theorem spPath_right (ls : List H) (i : Nat) (h : 2 ≤ ls.length) (hi : ¬ i < splitPoint ls.length) :
    spPath ls i = spPath (ls.drop (splitPoint ls.length)) (i - splitPoint ls.length)
      ++ [metaRoot (ls.take (splitPoint ls.length))] := by
  rw [spPath]
  have : ¬ (ls.length < 2) := by omega
  simp [this, hi]

/-- facts about the split point `k = 2^T`, `T = log2 (n-1)` -/
theorem split_facts {n : Nat} (h : 2 ≤ n) :
    splitPoint n = 2 ^ (n - 1).log2 ∧ 2 ^ (n - 1).log2 ≤ n - 1 ∧ n - 1 < 2 ^ ((n - 1).log2 + 1) :=
  ⟨rfl, Nat.log2_self_le (by omega), Nat.lt_log2_self⟩

theorem spPath_length_le : ∀ (t : Nat) (ls : List H) (i : Nat), 1 ≤ ls.length → ls.length ≤ 2 ^ t →
    (spPath ls i).length ≤ t := by
  intro t
  induction t with
  | zero =>
    intro ls i h1 h2
    rw [spPath_small ls i (by simp at h2; omega)]; simp
  | succ t ih =>
    intro ls i h1 h2
    by_cases hs : ls.length < 2
    · rw [spPath_small ls i hs]; simp
    · obtain ⟨hk, hlo, hhi⟩ := split_facts (n := ls.length) (by omega)
      rw [two_pow_succ'] at h2 hhi
      have hp := Nat.two_pow_pos (ls.length - 1).log2
      have hTt : (ls.length - 1).log2 ≤ t := by
        have : ls.length - 1 < 2 ^ (t + 1) := by rw [two_pow_succ']; omega
        have := (Nat.log2_lt (by omega)).2 this
        omega
      have hkt : 2 ^ (ls.length - 1).log2 ≤ 2 ^ t := Nat.pow_le_pow_right (by omega) hTt
      by_cases hi : i < splitPoint ls.length
      · rw [spPath_left ls i (by omega) hi]
        simp only [List.length_append, List.length_cons, List.length_nil]
        have := ih (ls.take (splitPoint ls.length)) i (by simp [List.length_take, hk]; omega)
          (by simp [List.length_take, hk]; omega)
        omega
      · rw [spPath_right ls i (by omega) hi]
        simp only [List.length_append, List.length_cons, List.length_nil]
        have := ih (ls.drop (splitPoint ls.length)) (i - splitPoint ls.length)
          (by simp [List.length_drop, hk]; omega) (by simp [List.length_drop, hk]; omega)
        omega

theorem spPath_length_pow : ∀ (t : Nat) (ls : List H) (i : Nat), ls.length = 2 ^ t → (spPath ls i).length = t := by
  intro t
  induction t with
  | zero => intro ls i h; rw [spPath_small ls i (by simp at h; omega)]; simp
  | succ t ih =>
    intro ls i h
    have hp := Nat.two_pow_pos t
    have h2 : 2 ≤ ls.length := by rw [h, two_pow_succ']; omega
    have hk : splitPoint ls.length = 2 ^ t := splitPoint_eq (by rw [h, two_pow_succ']; omega) (by rw [h]; exact Nat.le_refl _)
    by_cases hi : i < splitPoint ls.length
    · rw [spPath_left ls i h2 hi, hk]
      simp only [List.length_append, List.length_cons, List.length_nil]
      rw [ih _ i (by simp [List.length_take, h, two_pow_succ']; omega)]
    · rw [spPath_right ls i h2 hi, hk]
      simp only [List.length_append, List.length_cons, List.length_nil]
      rw [ih _ _ (by simp [List.length_drop, h, two_pow_succ']; omega)]

/-- Completeness of the fold with the verifier's direction rule, and the honest path is never
shorter than the merge height (so it passes the "too few proof hashes" guard). -/
theorem chainD_spPath : ∀ (n : Nat) (ls : List H) (i : Nat) (dirs : Nat → Bool), ls.length = n → i < n →
    (∀ j, j < (spPath ls i).length → dirs j = dirOf i (bitLen (i ^^^ (n - 1))) j) →
    chainD dirs 0 (ls.getD i zero) (spPath ls i) = metaRoot ls ∧
    bitLen (i ^^^ (n - 1)) ≤ (spPath ls i).length := by
  intro n
  induction n using Nat.strongRecOn with
  | _ n ih =>
    intro ls i dirs hn hi hd
    by_cases hs : ls.length < 2
    · have h1 : n = 1 := by omega
      subst h1
      have hi0 : i = 0 := by omega
      subst hi0
      obtain ⟨x, rfl⟩ := List.length_eq_one_iff.1 hn
      rw [spPath_small _ 0 (by simp)]
      simp [chainD, metaRoot_singleton, bitLen]
    · obtain ⟨hk, hlo, hhi⟩ := split_facts (n := ls.length) (by omega)
      have hp := Nat.two_pow_pos (ls.length - 1).log2
      have hhi' := hhi
      rw [two_pow_succ'] at hhi'
      generalize hT : (ls.length - 1).log2 = T at *
      have hsplit := metaRoot_split ls (by omega)
      rw [hk] at hsplit
      by_cases hik : i < splitPoint ls.length
      · -- left (perfect) half
        rw [hk] at hik
        have hlenL : (ls.take (2 ^ T)).length = 2 ^ T := by simp [List.length_take]; omega
        have hsh : bitLen (i ^^^ (n - 1)) = T + 1 := by
          rw [← hn]; exact bitLen_xor_top hik hlo hhi
        have hpl := spPath_length_pow T (ls.take (2 ^ T)) i hlenL
        rw [spPath_left ls i (by omega) (by rw [hk]; exact hik), hk] at hd ⊢
        rw [chainD_snoc, Nat.zero_add, hpl]
        have hdT : dirs T = false := by
          rw [hd T (by simp [hpl]), hsh]
          simp [dirOf, Nat.testBit_lt_two_pow hik]
        simp only [hdT, Bool.false_eq_true, if_false, List.length_append, hpl, List.length_cons, List.length_nil]
        have hrec := ih (2 ^ T) (by omega) (ls.take (2 ^ T)) i dirs hlenL hik (by
          intro j hj
          rw [hpl] at hj
          rw [hd j (by simp [hpl]; omega), hsh]
          simp only [dirOf]
          have h1 : ¬ (j ≥ T + 1) := by omega
          by_cases h2 : j ≥ bitLen (i ^^^ (2 ^ T - 1))
          · have := bit_above_merge hik hj h2
            simp [this]
          · simp [h1, h2])
        have hget : (ls.take (2 ^ T)).getD i zero = ls.getD i zero := by
          simp [List.getD_eq_getElem?_getD, List.getElem?_take, hik]
        rw [hget] at hrec
        rw [hrec.1, hsplit]
        exact ⟨rfl, by omega⟩
      · -- right half
        rw [hk] at hik
        have hlenR : (ls.drop (2 ^ T)).length = n - 2 ^ T := by simp [List.length_drop]; omega
        have hxor : i ^^^ (n - 1) = (i - 2 ^ T) ^^^ (n - 2 ^ T - 1) := by
          have := xor_sub_pow (a := i) (b := n - 1) (t := T) (by omega) (by omega) (by omega) (by omega)
          rw [this]; congr 1; omega
        have hle := spPath_length_le T (ls.drop (2 ^ T)) (i - 2 ^ T) (by omega) (by omega)
        rw [spPath_right ls i (by omega) (by rw [hk]; exact hik), hk] at hd ⊢
        rw [chainD_snoc, Nat.zero_add]
        have hrec := ih (n - 2 ^ T) (by omega) (ls.drop (2 ^ T)) (i - 2 ^ T) dirs hlenR (by omega) (by
          intro j hj
          rw [hd j (by simp; omega), hxor]
          simp only [dirOf]
          rw [testBit_sub_pow (by omega) (by omega)])
        have hget : (ls.drop (2 ^ T)).getD (i - 2 ^ T) zero = ls.getD i zero := by
          simp only [List.getD_eq_getElem?_getD, List.getElem?_drop]
          congr 2; omega
        rw [hget] at hrec
        have hdm : dirs (spPath (ls.drop (2 ^ T)) (i - 2 ^ T)).length = true := by
          rw [hd _ (by simp), hxor]
          simp only [dirOf]
          have := hrec.2
          simp [this]
        simp only [hdm, if_true, List.length_append, List.length_cons, List.length_nil]
        rw [hrec.1, hsplit]
        refine ⟨rfl, ?_⟩
        have := hrec.2
        rw [hxor]; omega

end Sia.SP
