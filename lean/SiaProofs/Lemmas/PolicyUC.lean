import SiaModel.Policy.Meaning
/-! Lemmas about the legacy-unlock-conditions loop and the time comparison (C14). -/
namespace Sia.Policy

theorem spec_ed_ne_entropy : specEd25519 ≠ specEntropy := by decide

/-- timestamps for which `time.Time` arithmetic does not wrap (±2^62 s ≈ ±146 billion years) -/
def InRange (x : Int) : Prop := -4611686018427387904 ≤ x ∧ x < 4611686018427387904

theorem timeAfter_iff {a b : Int} (ha : InRange a) (hb : InRange b) :
    timeAfter a b = true ↔ b < a := by
  unfold InRange at *
  simp only [timeAfter, goTimeSec, wrap64, decide_eq_true_eq, gt_iff_lt]
  have e1 : (a + 62135596800 + 9223372036854775808) % 18446744073709551616
      = a + 62135596800 + 9223372036854775808 := Int.emod_eq_of_lt (by omega) (by omega)
  have e2 : (b + 62135596800 + 9223372036854775808) % 18446744073709551616
      = b + 62135596800 + 9223372036854775808 := Int.emod_eq_of_lt (by omega) (by omega)
  rw [e1, e2]; omega

namespace UCMatch

theorem nil_keys {E : Env} {ss} (h : UCMatch E [] ss) : ss = [] := by
  cases h; rfl

theorem length_le {E : Env} {ks ss} (h : UCMatch E ks ss) : ss.length ≤ ks.length := by
  induction h with
  | done ks => simp
  | use _ _ _ ih => simp; omega
  | skip _ _ ih => simp at *; omega

theorem weaken {E : Env} {k ks ss} (hk : ¬ keyBlocked k) (h : UCMatch E ks ss) : UCMatch E (k :: ks) ss := by
  cases ss with
  | nil => exact .done _
  | cons s ss => exact .skip hk h

theorem drop {E : Env} {ks s ss} (h : UCMatch E ks (s :: ss)) : UCMatch E ks ss := by
  generalize hx : s :: ss = x at h
  induction h generalizing s ss with
  | done ks => cases hx
  | use hk _ h _ => cases hx; exact weaken hk h
  | skip hk _ ih => cases hx; exact weaken hk (ih rfl)

end UCMatch

/-- The loop of the `uc` branch ends with no signature outstanding exactly when the first
    `req` signatures can be assigned, in order, to distinct listed keys. -/
theorem ucLoop_ok_iff (E : Env) (ks : List UnlockKey) (req : Nat) (sigs sigs' : List ByteArray) :
    ucLoop E ks req sigs = .ok (0, sigs') ↔
      ∃ used, sigs = used ++ sigs' ∧ used.length = req ∧ UCMatch E ks used := by
  induction ks generalizing req sigs with
  | nil =>
    simp only [ucLoop, Except.ok.injEq, Prod.mk.injEq]
    constructor
    · rintro ⟨rfl, rfl⟩; exact ⟨[], rfl, rfl, .done _⟩
    · rintro ⟨used, rfl, rfl, h⟩
      have := h.nil_keys; subst this; simp
  | cons k ks ih =>
    unfold ucLoop
    split
    · -- break
      rename_i hb
      simp only [Except.ok.injEq, Prod.mk.injEq]
      constructor
      · rintro ⟨rfl, rfl⟩; exact ⟨[], rfl, rfl, .done _⟩
      · rintro ⟨used, rfl, hl, h⟩
        have hle := h.length_le
        rcases hb with hb | hb | hb
        · subst hb; cases used with
          | nil => simp
          | cons _ _ => simp at hl
        · omega
        · simp at hb; omega
    · rename_i hb
      have hb : req ≠ 0 ∧ req ≤ (k :: ks).length ∧ req ≤ sigs.length := by
        simp only [not_or] at hb; omega
      cases sigs with
      | nil => simp at hb; omega
      | cons s rest =>
        simp only
        -- shape of `used` on the right-hand side
        have used_cons : ∀ used : List ByteArray, s :: rest = used ++ sigs' → used.length = req →
            ∃ us, used = s :: us ∧ rest = us ++ sigs' := by
          intro used h1 h2
          cases used with
          | nil => simp at h2; omega
          | cons u us => simp at h1; exact ⟨us, by rw [h1.1], h1.2⟩
        by_cases hent : k.algorithm = specEntropy
        · simp only [hent, if_true]
          constructor
          · intro h; cases h
          · rintro ⟨used, h1, h2, h3⟩
            obtain ⟨us, rfl, -⟩ := used_cons used h1 h2
            cases h3 with
            | use hk _ _ => exact absurd hent hk
            | skip hk _ => exact absurd hent hk
        · simp only [hent, if_false]
          have use_case : keyAccepts E k s →
              ((ucLoop E ks (req - 1) rest = .ok (0, sigs')) ↔
                ∃ used, s :: rest = used ++ sigs' ∧ used.length = req ∧ UCMatch E (k :: ks) used) := by
            intro hacc
            rw [ih]
            constructor
            · rintro ⟨us, rfl, hl, hm⟩
              exact ⟨s :: us, rfl, by simp; omega, .use hent hacc hm⟩
            · rintro ⟨used, h1, h2, h3⟩
              obtain ⟨us, rfl, rfl⟩ := used_cons used h1 h2
              refine ⟨us, rfl, by simp at h2; omega, ?_⟩
              cases h3 with
              | use _ _ h => exact h
              | skip _ h => exact h.drop
          by_cases hed : k.algorithm = specEd25519
          · simp only [hed, if_true]
            by_cases hv : E.verifySig (pad32 k.key) E.sigHash s = true
            · simp only [hv, if_true]
              exact use_case (fun _ => hv)
            · have hv' : E.verifySig (pad32 k.key) E.sigHash s = false := by
                cases h : E.verifySig (pad32 k.key) E.sigHash s <;> simp_all
              simp only [hv', Bool.false_eq_true, if_false]
              rw [ih]
              constructor
              · rintro ⟨used, h1, h2, h3⟩
                obtain ⟨us, rfl, -⟩ := used_cons used h1 h2
                exact ⟨s :: us, h1, h2, .skip hent h3⟩
              · rintro ⟨used, h1, h2, h3⟩
                obtain ⟨us, rfl, -⟩ := used_cons used h1 h2
                refine ⟨s :: us, h1, h2, ?_⟩
                cases h3 with
                | use _ ha _ => exact absurd (ha hed) hv
                | skip _ h => exact h
          · simp only [hed, if_false]
            exact use_case (fun h => absurd h hed)

end Sia.Policy
