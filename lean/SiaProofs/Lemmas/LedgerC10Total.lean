import SiaProofs.Lemmas.LedgerC01V1Txn
/-!
# C10 helper lemmas (ledger model): the application loops cannot fail after validation

Every error of `applyTransaction` / `applyV2Transaction` is a Go panic.  Under the C01 mid-state
invariant, the preconditions validation establishes, `claimStart ≤ pool` for live siafund outputs
(`CsOk`), a siafund supply of at most 10000 and room for the collected tax in the pool, each loop of
the two functions returns.
-/
namespace Sia.Ledger

theorem foldlM_total_pure {α β : Type} (g : β → α → β) (l : List α) (s : β) :
    ∃ s', l.foldlM (fun b a => (pure (g b a) : VM β)) s = .ok s' := by
  induction l generalizing s with
  | nil => exact ⟨s, rfl⟩
  | cons a l ih => obtain ⟨s', h⟩ := ih (g s a); exact ⟨s', by rw [List.foldlM_cons]; exact h⟩

/-- a fold returns if every step returns in the state reached by the steps before it -/
theorem foldlM_total_of_prefix {α : Type} (f : Mid → α → VM Mid) (l : List α) (ms : Mid)
    (H : ∀ pre a post ms_pre, l = pre ++ a :: post → pre.foldlM f ms = .ok ms_pre → ∃ ms1, f ms_pre a = .ok ms1) :
    ∃ ms', l.foldlM f ms = .ok ms' := by
  have key : ∀ (post pre : List α) (m : Mid), l = pre ++ post → pre.foldlM f ms = .ok m →
      ∃ m', (pre ++ post).foldlM f ms = .ok m' := by
    intro post
    induction post with
    | nil => intro pre m _ hm; exact ⟨m, by rw [List.append_nil]; exact hm⟩
    | cons a post ih =>
      intro pre m hl hm
      obtain ⟨m1, h1⟩ := H pre a post m hl hm
      have h2 : (pre ++ [a]).foldlM f ms = .ok m1 := by
        rw [List.foldlM_append, hm]; simp only [List.foldlM_cons, List.foldlM_nil]
        show (f m a >>= fun x => pure x) = _
        rw [h1]; rfl
      have := ih (pre ++ [a]) m1 (by rw [hl]; simp) h2
      simpa using this
  obtain ⟨m', hm'⟩ := key l [] ms rfl rfl
  exact ⟨m', by simpa using hm'⟩

-- ------------------------------------------------------------------ single steps

theorem claimPortion_total {pool cs : Cur} {v : Nat} (h1 : cs ≤ pool) (h2 : v ≤ 10000) (h3 : pool < curLimit) :
    ∃ c, claimPortion pool cs v = .ok c := by
  refine ⟨(pool - cs) / 10000 * v, claimPortion_ok.mpr ⟨h1, ?_, rfl⟩⟩
  have a1 : (pool - cs) / 10000 * v ≤ (pool - cs) / 10000 * 10000 := Nat.mul_le_mul_left _ h2
  have a2 : (pool - cs) / 10000 * 10000 ≤ pool - cs := Nat.div_mul_le_self _ _
  have a3 : pool - cs ≤ pool := Nat.sub_le _ _
  unfold Cur at *; omega

theorem createFc2_total (ms : Mid) (id : Id) {fc : Fc2} (h1 : fc.val < curLimit) (h2 : ms.pool + fc.val / 25 < curLimit) :
    ∃ ms', ms.createFc2 id fc = .ok ms' ∧ ms'.pool = ms.pool + fc.val / 25 := by
  unfold Mid.createFc2 v2Tax
  simp only []
  unfold Fc2.val at h1 h2
  have e1 : addC fc.renter.value fc.host.value = .ok (fc.renter.value + fc.host.value) := addC_ok.mpr ⟨h1, rfl⟩
  rw [e1]
  simp only [bind, Except.bind, pure, Except.pure]
  have e2 : addC (ms.putFc2 id fun d => { d with e := { id := id, fc := fc, leaf := none }, created := true }).pool
      ((fc.renter.value + fc.host.value) / 25) = .ok (ms.pool + (fc.renter.value + fc.host.value) / 25) := by
    rw [putFc2_pool]; exact addC_ok.mpr ⟨h2, rfl⟩
  rw [e2]
  exact ⟨_, rfl, rfl⟩

theorem createFc1_total (ms : Mid) (id : Id) (fc : Fc1) (h2 : ms.pool + fileContractTax ms.base fc.payout < curLimit) :
    ∃ ms', ms.createFc1 id fc = .ok ms' ∧ ms'.pool = ms.pool + fileContractTax ms.base fc.payout ∧ ms'.base = ms.base := by
  unfold Mid.createFc1
  simp only []
  have e2 : addC (ms.putFc1 id fun d => { d with e := { id := id, fc := fc, leaf := none }, created := true }).pool
      (fileContractTax (ms.putFc1 id fun d => { d with e := { id := id, fc := fc, leaf := none }, created := true }).base fc.payout)
      = .ok (ms.pool + fileContractTax ms.base fc.payout) := by
    rw [putFc1_pool, putFc1_base_c1]; exact addC_ok.mpr ⟨h2, rfl⟩
  rw [e2]
  exact ⟨_, rfl, rfl, putFc1_base_c1 _ _ _⟩

theorem resolveFc2_total {T} {ms : Mid} (hc : Ctx T ms.base) (hI : Inv T ms) {e : Fc2Elem} (hl : LiveFc2 T ms e)
    (k : ResKind) : ∃ ms', ms.resolveFc2 e k = .ok ms' := by
  unfold Mid.resolveFc2
  cases hlk : ms.lookup e.id with
  | none => exact ⟨_, rfl⟩
  | some i =>
    simp only []
    obtain ⟨d, hd1, hd2, hd3⟩ := hI.struct.fc2Diff?_of_lookup hc.disj hl.1 hlk
    have hgd : ms.v2fces.getD i default = d := by rw [List.getD_eq_getElem?_getD, hd1]; rfl
    rw [hgd, (hl.diff hc hI hd3).1]
    exact ⟨_, rfl⟩

-- ------------------------------------------------------------------ v2 loops

theorem total_fcs2 (l : List (Id × Fc2 × Bool)) : ∀ (ms : Mid), (∀ x ∈ l, x.2.1.val < curLimit) →
    ms.pool + (l.map (fun x => x.2.1.val / 25)).sum < curLimit → ∃ ms', l.foldlM stepFc2 ms = .ok ms' := by
  induction l with
  | nil => intro ms _ _; exact ⟨ms, rfl⟩
  | cons a l ih =>
    intro ms h1 h2
    simp only [List.map_cons, List.sum_cons] at h2
    obtain ⟨ms1, e1, p1⟩ := createFc2_total ms a.1 (h1 a List.mem_cons_self) (by unfold Cur at *; omega)
    obtain ⟨ms', e2⟩ := ih ms1 (fun x hx => h1 x (List.mem_cons_of_mem _ hx)) (by rw [p1]; unfold Cur at *; omega)
    exact ⟨ms', by rw [List.foldlM_cons]; unfold stepFc2; rw [e1]; exact e2⟩

theorem total_sfIns2 {T} (l : List SfIn2) (ms : Mid) (R : List (Kind × Id)) (hc : Ctx T ms.base) (hI : Inv T ms)
    (hs : ∀ sfi ∈ l, SpendableSf T ms sfi.parent) (hn : (l.map (·.parent.id)).Nodup)
    (hF : Fresh T ms (l.map (fun i => (Kind.sc, i.claimId)) ++ R))
    (hcs : CsOk ms) (hS : sfTot ms ≤ 10000) (hp : ms.pool < curLimit) :
    ∃ ms', l.foldlM stepSfIn2 ms = .ok ms' := by
  apply foldlM_total_of_prefix
  intro pre a post ms_pre hl hpre
  subst hl
  simp only [List.map_append, List.map_cons, List.append_assoc] at hF hn
  obtain ⟨r, F, _, eS, ep, eW, _⟩ := loop_sfIns2 pre ms ms_pre _ hc hI
    (fun sfi h => hs sfi (List.mem_append_left _ h)) (List.nodup_append.mp hn).1 hF hpre
  have hsa := hs a (List.mem_append_right _ List.mem_cons_self)
  have hsa' : SpendableSf T ms_pre a.parent := by
    apply hsa.agree r.agree
    rintro (hm | hm)
    · have := (List.nodup_append.mp hn).2.2 _ hm _ List.mem_cons_self
      exact this rfl
    · obtain ⟨x, hx, he⟩ := List.mem_map.mp hm
      exact hsa.not_fresh hF (Kind.sc, x.claimId) (List.mem_append_left _ (List.mem_map_of_mem hx)) he
  have hc' : Ctx T ms_pre.base := by rw [r.base]; exact hc
  obtain ⟨_, _, _, hSv, hpp, _⟩ := spendSf_spec hc' r.inv hsa'
  have hcs0 : sfW (csBad ms.pool) ms_pre = 0 := by
    have := eW (csBad ms.pool); unfold CsOk at hcs; omega
  have hbad : csBad ms.pool a.parent = 0 := by
    have := spendSf_w (csBad ms.pool) hc' r.inv hsa'; omega
  have hle : a.parent.claimStart ≤ ms.pool := by
    unfold csBad at hbad
    by_cases h : a.parent.claimStart ≤ ms.pool
    · exact h
    · rw [if_neg h] at hbad; cases hbad
  have hv : a.parent.value ≤ 10000 := by omega
  unfold stepSfIn2
  rw [hpp, ep]
  obtain ⟨c, hcl⟩ := claimPortion_total hle hv hp
  rw [hcl]; exact ⟨_, rfl⟩

theorem total_ress2 {T} (l : List Resolution2) (ms : Mid) (R : List (Kind × Id)) (hc : Ctx T ms.base) (hI : Inv T ms)
    (hs : ∀ r ∈ l, LiveFc2 T ms r.parent ∧ resNewOk r ∧ r.parent.fc.missedHost ≤ r.parent.fc.host.value)
    (hn : (l.map (·.parent.id)).Nodup)
    (hF : Fresh T ms (l.flatMap Resolution2.created ++ R))
    (hnew : ∀ r ∈ l, ∀ rn, r.res = .renewal rn → rn.newContract.val < curLimit)
    (hp : ms.pool + (l.map resTax).sum < curLimit) :
    ∃ ms', l.foldlM stepRes2 ms = .ok ms' := by
  apply foldlM_total_of_prefix
  intro pre a post ms_pre hl hpre
  subst hl
  simp only [List.map_append, List.map_cons, List.flatMap_append, List.flatMap_cons, List.append_assoc, List.sum_append,
    List.sum_cons] at hF hn hp
  obtain ⟨r, F, _, _, ep, _⟩ := loop_ress2 pre ms ms_pre _ hc hI
    (fun x h => hs x (List.mem_append_left _ h)) (List.nodup_append.mp hn).1 hF hpre
  have hsa := (hs a (List.mem_append_right _ List.mem_cons_self)).1
  have hma := (hs a (List.mem_append_right _ List.mem_cons_self)).2.2
  have hsa' : LiveFc2 T ms_pre a.parent := by
    apply hsa.agree r.agree
    rintro (hm | hm)
    · have := (List.nodup_append.mp hn).2.2 _ hm _ List.mem_cons_self
      exact this rfl
    · obtain ⟨q, hq, he⟩ := List.mem_map.mp hm
      exact hsa.not_fresh hF q (List.mem_append_left _ hq) he
  have hc' : Ctx T ms_pre.base := by rw [r.base]; exact hc
  unfold stepRes2
  cases hres : a.res with
  | renewal rn =>
    simp only []
    obtain ⟨m1, h1⟩ := resolveFc2_total hc' r.inv hsa' ResKind.renewal
    rw [h1]
    have hp1 : m1.pool = ms_pre.pool := (resolveFc2_spec hc' r.inv hsa' hma h1).2.2.2.2.1
    have htax : resTax a = rn.newContract.val / 25 := by unfold resTax; rw [hres]
    obtain ⟨m2, h2, _⟩ := createFc2_total m1 rn.newId
      (hnew a (List.mem_append_right _ List.mem_cons_self) rn hres)
      (by rw [hp1, ep]; rw [htax] at hp; unfold Cur at *; omega)
    simp only [bind, Except.bind]
    rw [h2]; exact ⟨_, rfl⟩
  | proof p q s u =>
    simp only []
    obtain ⟨m1, h1⟩ := resolveFc2_total hc' r.inv hsa' ResKind.proof
    rw [h1]; exact ⟨_, rfl⟩
  | expiration =>
    simp only []
    obtain ⟨m1, h1⟩ := resolveFc2_total hc' r.inv hsa' ResKind.expiration
    rw [h1]; exact ⟨_, rfl⟩

-- ------------------------------------------------------------------ v1 loops

theorem total_fcs1 (l : List (Id × Fc1)) : ∀ (ms : Mid),
    ms.pool + (l.map (fun x => fileContractTax ms.base x.2.payout)).sum < curLimit → ∃ ms', l.foldlM stepFc1 ms = .ok ms' := by
  induction l with
  | nil => intro ms _; exact ⟨ms, rfl⟩
  | cons a l ih =>
    intro ms h2
    simp only [List.map_cons, List.sum_cons] at h2
    obtain ⟨ms1, e1, p1, b1⟩ := createFc1_total ms a.1 a.2 (by unfold Cur at *; omega)
    obtain ⟨ms', e2⟩ := ih ms1 (by rw [p1, b1]; unfold Cur at *; omega)
    exact ⟨ms', by rw [List.foldlM_cons]; unfold stepFc1; rw [e1]; exact e2⟩

theorem total_scIns1 {T} (supp : Supp1) (l : List ScIn1) (ms : Mid) (hc : Ctx T ms.base) (hI : Inv T ms)
    (hs : ∀ sci ∈ l, PendSc1 T ms supp sci) (hn : (l.map (·.parent)).Nodup) :
    ∃ ms', l.foldlM (stepScIn1 supp) ms = .ok ms' := by
  apply foldlM_total_of_prefix
  intro pre a post ms_pre hl hpre
  subst hl
  simp only [List.map_append, List.map_cons] at hn
  obtain ⟨r, _⟩ := loop_scIns1 supp pre ms ms_pre hc hI
    (fun x h => hs x (List.mem_append_left _ h)) (List.nodup_append.mp hn).1 hpre
  have hsa := hs a (List.mem_append_right _ List.mem_cons_self)
  obtain ⟨e, he, _⟩ := hsa.agree r.agree (fun hm => (List.nodup_append.mp hn).2.2 _ hm _ List.mem_cons_self rfl)
  unfold stepScIn1; rw [he]; exact ⟨_, rfl⟩

theorem total_revs1 {T} (supp : Supp1) (l : List Rev1) (ms : Mid) (hc : Ctx T ms.base) (hI : Inv T ms)
    (hs : ∀ r ∈ l, PendRev1 T ms supp r) (hn : (l.map (·.parent)).Nodup) :
    ∃ ms', l.foldlM (stepRev1 supp) ms = .ok ms' := by
  apply foldlM_total_of_prefix
  intro pre a post ms_pre hl hpre
  subst hl
  simp only [List.map_append, List.map_cons] at hn
  obtain ⟨r, _⟩ := loop_revs1 supp pre ms ms_pre hc hI
    (fun x h => hs x (List.mem_append_left _ h)) (List.nodup_append.mp hn).1 hpre
  have hsa := hs a (List.mem_append_right _ List.mem_cons_self)
  obtain ⟨e, he, _⟩ := hsa.agree r.agree (fun hm => (List.nodup_append.mp hn).2.2 _ hm _ List.mem_cons_self rfl)
  unfold stepRev1; rw [he]; exact ⟨_, rfl⟩

theorem total_proofs1 {T} (supp : Supp1) (l : List Proof1) (ms : Mid) (R : List (Kind × Id)) (hc : Ctx T ms.base)
    (hI : Inv T ms) (hs : ∀ sp ∈ l, PendProof1 T ms supp sp) (hn : (l.map (·.parent)).Nodup)
    (hF : Fresh T ms (l.flatMap Proof1.created ++ R)) :
    ∃ ms', l.foldlM (stepProof1 supp) ms = .ok ms' := by
  apply foldlM_total_of_prefix
  intro pre a post ms_pre hl hpre
  subst hl
  simp only [List.map_append, List.map_cons, List.flatMap_append, List.flatMap_cons, List.append_assoc] at hn hF
  obtain ⟨r, _⟩ := loop_proofs1 supp pre ms ms_pre _ hc hI
    (fun x h => hs x (List.mem_append_left _ h)) (List.nodup_append.mp hn).1 hF hpre
  have hsa := hs a (List.mem_append_right _ List.mem_cons_self)
  obtain ⟨e, he, _⟩ := hsa.agree r.agree (by
    rintro (hm | hm)
    · exact (List.nodup_append.mp hn).2.2 _ hm _ List.mem_cons_self rfl
    · obtain ⟨q, hq, he⟩ := List.mem_map.mp hm
      exact hsa.not_fresh hF q (List.mem_append_left _ hq) he)
  unfold stepProof1; rw [he]; exact ⟨_, rfl⟩

theorem total_sfIns1 {T} (supp : Supp1) (l : List SfIn1) (ms : Mid) (R : List (Kind × Id)) (hc : Ctx T ms.base)
    (hI : Inv T ms) (hs : ∀ sfi ∈ l, PendSf1 T ms supp sfi) (hn : (l.map (·.parent)).Nodup)
    (hF : Fresh T ms (l.map (fun i => (Kind.sc, i.claimId)) ++ R))
    (hcs : CsOk ms) (hS : sfTot ms ≤ 10000) (hp : ms.pool < curLimit) :
    ∃ ms', l.foldlM (stepSfIn1 supp) ms = .ok ms' := by
  apply foldlM_total_of_prefix
  intro pre a post ms_pre hl hpre
  subst hl
  simp only [List.map_append, List.map_cons, List.append_assoc] at hF hn
  obtain ⟨r, F, _, eS, ep, eW, _⟩ := loop_sfIns1 supp pre ms ms_pre _ hc hI
    (fun sfi h => hs sfi (List.mem_append_left _ h)) (List.nodup_append.mp hn).1 hF hpre
  have hsa := hs a (List.mem_append_right _ List.mem_cons_self)
  obtain ⟨e, he1, he2, he3⟩ := hsa.agree r.agree (by
    rintro (hm | hm)
    · exact (List.nodup_append.mp hn).2.2 _ hm _ List.mem_cons_self rfl
    · obtain ⟨x, hx, he⟩ := List.mem_map.mp hm
      exact hsa.not_fresh hF (Kind.sc, x.claimId) (List.mem_append_left _ (List.mem_map_of_mem hx)) he)
  have hc' : Ctx T ms_pre.base := by rw [r.base]; exact hc
  obtain ⟨_, _, _, hSv, hpp, _⟩ := spendSf_spec hc' r.inv he3
  have hcs0 : sfW (csBad ms.pool) ms_pre = 0 := by
    have := eW (csBad ms.pool); unfold CsOk at hcs; omega
  have hbad : csBad ms.pool e = 0 := by
    have := spendSf_w (csBad ms.pool) hc' r.inv he3; omega
  have hle : e.claimStart ≤ ms.pool := by
    unfold csBad at hbad
    by_cases h : e.claimStart ≤ ms.pool
    · exact h
    · rw [if_neg h] at hbad; cases hbad
  have hv : e.value ≤ 10000 := by omega
  unfold stepSfIn1
  rw [he1]; simp only []
  rw [ep]
  obtain ⟨c, hcl⟩ := claimPortion_total hle hv hp
  rw [hcl]; exact ⟨_, rfl⟩

/-- variant of `total_sfIns1` that only needs the looked-up elements to have `claimStart ≤ pool`, `value ≤ 10000` -/
theorem total_sfIns1_weak {T} (supp : Supp1) (l : List SfIn1) (ms : Mid) (R : List (Kind × Id)) (hc : Ctx T ms.base)
    (hI : Inv T ms) (hs : ∀ sfi ∈ l, PendSf1 T ms supp sfi) (hn : (l.map (·.parent)).Nodup)
    (hF : Fresh T ms (l.map (fun i => (Kind.sc, i.claimId)) ++ R))
    (hcl : ∀ sfi ∈ l, ∃ e, ms.sfElement supp sfi.parent = some e ∧ e.claimStart ≤ ms.pool ∧ e.value ≤ 10000)
    (hp : ms.pool < curLimit) :
    ∃ ms', l.foldlM (stepSfIn1 supp) ms = .ok ms' := by
  apply foldlM_total_of_prefix
  intro pre a post ms_pre hl hpre
  subst hl
  simp only [List.map_append, List.map_cons, List.append_assoc] at hF hn
  obtain ⟨r, F, _, eS, ep, eW, _⟩ := loop_sfIns1 supp pre ms ms_pre _ hc hI
    (fun sfi h => hs sfi (List.mem_append_left _ h)) (List.nodup_append.mp hn).1 hF hpre
  have hsa := hs a (List.mem_append_right _ List.mem_cons_self)
  have hnot : ¬ (a.parent ∈ pre.map (·.parent) ∨ a.parent ∈ pre.map (·.claimId)) := by
    rintro (hm | hm)
    · exact (List.nodup_append.mp hn).2.2 _ hm _ List.mem_cons_self rfl
    · obtain ⟨x, hx, he⟩ := List.mem_map.mp hm
      exact hsa.not_fresh hF (Kind.sc, x.claimId) (List.mem_append_left _ (List.mem_map_of_mem hx)) he
  obtain ⟨e0, h0, hle, hv⟩ := hcl a (List.mem_append_right _ List.mem_cons_self)
  have he1 : ms_pre.sfElement supp a.parent = some e0 := by rw [sfElement_agree r.agree supp hnot]; exact h0
  unfold stepSfIn1
  rw [he1]; simp only []
  rw [ep]
  obtain ⟨c, hcl'⟩ := claimPortion_total hle hv hp
  rw [hcl']; exact ⟨_, rfl⟩

-- ------------------------------------------------------------------ list sums

theorem sum_le_sum_map {α : Type} (l : List α) (f g : α → Nat) (h : ∀ x ∈ l, f x ≤ g x) :
    (l.map f).sum ≤ (l.map g).sum := by
  induction l with
  | nil => simp
  | cons a l ih =>
    simp only [List.map_cons, List.sum_cons]
    have := h a List.mem_cons_self
    have := ih (fun x hx => h x (List.mem_cons_of_mem _ hx))
    omega

theorem sum_map_erase {α : Type} [DecidableEq α] (f : α → Nat) (M : List α) {a : α} (h : a ∈ M) :
    (M.map f).sum = f a + ((M.erase a).map f).sum := by
  induction M with
  | nil => cases h
  | cons b M ih =>
    by_cases hab : b = a
    · subst hab; simp
    · rw [List.erase_cons_tail (by simpa using hab)]
      simp only [List.map_cons, List.sum_cons]
      rcases List.mem_cons.mp h with h' | h'
      · exact absurd h'.symm hab
      · rw [ih h']; omega

/-- elements with pairwise distinct keys drawn from `M` weigh at most as much as `M` -/
theorem sum_le_of_nodup_mem {α : Type} [DecidableEq α] (f : α → Nat) (key : α → Id) :
    ∀ (l M : List α), (l.map key).Nodup → (∀ x ∈ l, x ∈ M) → (l.map f).sum ≤ (M.map f).sum := by
  intro l
  induction l with
  | nil => intro M _ _; simp
  | cons a l ih =>
    intro M hn hm
    simp only [List.map_cons, List.nodup_cons] at hn
    have ha := hm a List.mem_cons_self
    rw [sum_map_erase f M ha]
    simp only [List.map_cons, List.sum_cons]
    have := ih (M.erase a) hn.2 (fun x hx => by
      have hxM := hm x (List.mem_cons_of_mem _ hx)
      have hne : x ≠ a := fun he => hn.1 (he ▸ List.mem_map_of_mem hx)
      exact (List.mem_erase_of_ne hne).mpr hxM)
    omega

/-- total value locked in the v2 contracts of a ledger -/
def fc2Sum (L : Ledger) : Nat := (L.fc2.map (·.fc.val)).sum

-- ------------------------------------------------------------------ whole transactions

/-- after validation, `applyV2Transaction` returns (all of its errors are Go panics) -/
theorem v2txn_total {T} {ms : Mid} {t : Txn2} {mw : Nat} {R : List (Kind × Id)}
    (hc : Ctx T ms.base) (hfix : ms.base.child ≥ ms.base.P.ephemeralFix) (hI : Inv T ms)
    (hm2 : ∀ e ∈ ms.base.fc2, e.fc.missedHost ≤ e.fc.host.value)
    (hF : Fresh T ms (t.created ++ R))
    (hcs : CsOk ms) (hS : sfTot ms ≤ 10000)
    (hroom : ms.pool + scW (wMat ms.base.child) ms + fc2Sum ms.base < curLimit)
    (hfcv : ∀ x ∈ t.fcs, x.2.1.val < curLimit)
    (hrnv : ∀ r ∈ t.ress, ∀ rn, r.res = .renewal rn → rn.newContract.val < curLimit)
    (hv : validateV2Transaction ms t mw = .ok ()) :
    ∃ ms', applyV2Transaction ms t = .ok ms' := by
  obtain ⟨hv1, hv2, hv3⟩ := validateV2Transaction_ok hv
  obtain ⟨hsc, hscn, hbal⟩ := validateV2Siacoins_ok hv1
  obtain ⟨hsf, hsfn, hsfbal⟩ := validateV2Siafunds_ok hv2
  obtain ⟨hfcs, hrevs, hrevn, hress, hresn⟩ := validateV2FileContracts_ok hv3
  -- preconditions, all relative to the state before the transaction
  have pSc : ∀ sci ∈ t.scIns, SpendableSc T ms sci.parent := fun sci h => spendable_of_ScIn2Ok hc hI hfix (hsc sci h)
  have pSf : ∀ sfi ∈ t.sfIns, SpendableSf T ms sfi.parent := fun sfi h => spendable_of_SfIn2Ok hc hI hfix (hsf sfi h)
  have pRev := fun r h => rev_of_Rev2Ok hc hI hfix (hrevs r h)
  have pRes := fun r h => res_of_Res2Ok hc hI hm2 (hress r h)
  unfold Txn2.created at hF
  simp only [List.append_assoc] at hF
  -- 1. siacoin inputs
  obtain ⟨ms1, a1⟩ : ∃ m, t.scIns.foldlM stepScIn2 ms = .ok m :=
    foldlM_total_pure (fun (s : Mid) (sci : ScIn2) => s.spendSc sci.parent) _ _
  obtain ⟨r1, e1P, e1S, e1p, e1W⟩ := loop_scIns2 t.scIns ms ms1 hc hI pSc hscn a1
  have F1 := hF.agree r1.agree (by
    intro q hq hm
    obtain ⟨sci, hs, he⟩ := List.mem_map.mp hm
    exact (pSc sci hs).not_fresh hF q hq he.symm)
  have hc1 : Ctx T ms1.base := by rw [r1.base]; exact hc
  -- the tax of the transaction is funded by its mature inputs and by rollovers out of base contracts
  have hpool : ms.pool + t.taxes < curLimit := by
    have h1 := e1W (wMat ms.base.child) (wMat_congr _)
    have z1 : (t.scIns.map (fun i => wMat ms.base.child i.parent)).sum = (t.scIns.map (·.parent.value)).sum := by
      congr 1; apply List.map_congr_left; intro sci hm
      unfold wMat; rw [if_pos (hsc sci hm).2.1]
    have hroll : (t.ress.map resRoll).sum ≤ fc2Sum ms.base := by
      have a1 : (t.ress.map resRoll).sum ≤ (t.ress.map (fun r => r.parent.fc.val)).sum := by
        apply sum_le_sum_map; intro r hr
        have := (hress r hr).2.2.2
        unfold resRoll
        cases hres : r.res with
        | renewal rn => rw [hres] at this; simp only [] at this ⊢; have := this.1; unfold Cur at *; omega
        | proof a b c d => exact Nat.zero_le _
        | expiration => exact Nat.zero_le _
      have a2 := sum_le_of_nodup_mem (fun e : Fc2Elem => e.fc.val) (·.id) (t.ress.map (·.parent)) ms.base.fc2
        (by rw [List.map_map]; exact hresn) (by
          intro x hx
          obtain ⟨r, hr, rfl⟩ := List.mem_map.mp hx
          exact (pRes r hr).1.2.1)
      rw [List.map_map] at a2
      unfold fc2Sum
      exact Nat.le_trans a1 a2
    have htax : t.taxes ≤ (t.fcs.map (fun x => x.2.1.val + x.2.1.val / 25)).sum + (t.ress.map resCost).sum := by
      unfold Txn2.taxes
      have b1 := sum_le_sum_map t.fcs (fun x => x.2.1.val / 25) (fun x => x.2.1.val + x.2.1.val / 25) (fun x _ => by omega)
      have b2 := sum_le_sum_map t.ress resTax resCost (fun r _ => by
        unfold resTax resCost
        cases r.res with
        | renewal rn => simp only []; omega
        | proof a b c d => exact Nat.le_refl _
        | expiration => exact Nat.le_refl _)
      omega
    rw [z1] at h1
    clear hv hv1 hv2 hv3 a1 hF F1 hsfbal
    unfold Cur at *; omega
  -- 2. siacoin outputs
  obtain ⟨ms2, a2⟩ : ∃ m, t.scOuts.foldlM stepScOut ms1 = .ok m :=
    foldlM_total_pure (fun (s : Mid) (x : Id × ScOut) => s.createSc x.1 x.2) _ _
  obtain ⟨r2, F2, e2P, e2S, e2p, e2W⟩ := loop_scOuts t.scOuts ms1 ms2 _ hc1 r1.inv F1 a2
  have hc2 : Ctx T ms2.base := by rw [r2.base]; exact hc1
  -- membership of created ids in the fresh list
  have inF_scOut : ∀ x, x ∈ t.scOuts.map (·.1) → ∃ q ∈ (t.scOuts.map (fun x => (Kind.sc, x.1)) ++ (t.sfIns.map (fun i => (Kind.sc, i.claimId)) ++
      (t.sfOuts.map (fun x => (Kind.sf, x.1)) ++ (t.fcs.map (fun x => (Kind.fc2, x.1)) ++ (t.ress.flatMap Resolution2.created ++ R))))), q.2 = x := by
    intro x hx
    obtain ⟨o, ho, he⟩ := List.mem_map.mp hx
    exact ⟨(Kind.sc, o.1), List.mem_append_left _ (List.mem_map_of_mem ho), he⟩
  have inF_claim : ∀ x, x ∈ t.sfIns.map (·.claimId) → ∃ q ∈ (t.scOuts.map (fun x => (Kind.sc, x.1)) ++ (t.sfIns.map (fun i => (Kind.sc, i.claimId)) ++
      (t.sfOuts.map (fun x => (Kind.sf, x.1)) ++ (t.fcs.map (fun x => (Kind.fc2, x.1)) ++ (t.ress.flatMap Resolution2.created ++ R))))), q.2 = x := by
    intro x hx
    obtain ⟨o, ho, he⟩ := List.mem_map.mp hx
    exact ⟨(Kind.sc, o.claimId), List.mem_append_right _ (List.mem_append_left _ (List.mem_map_of_mem ho)), he⟩
  have inF_sfOut : ∀ x, x ∈ t.sfOuts.map (·.1) → ∃ q ∈ (t.scOuts.map (fun x => (Kind.sc, x.1)) ++ (t.sfIns.map (fun i => (Kind.sc, i.claimId)) ++
      (t.sfOuts.map (fun x => (Kind.sf, x.1)) ++ (t.fcs.map (fun x => (Kind.fc2, x.1)) ++ (t.ress.flatMap Resolution2.created ++ R))))), q.2 = x := by
    intro x hx
    obtain ⟨o, ho, he⟩ := List.mem_map.mp hx
    exact ⟨(Kind.sf, o.1), List.mem_append_right _ (List.mem_append_right _ (List.mem_append_left _ (List.mem_map_of_mem ho))), he⟩
  have inF_fc : ∀ x, x ∈ t.fcs.map (·.1) → ∃ q ∈ (t.scOuts.map (fun x => (Kind.sc, x.1)) ++ (t.sfIns.map (fun i => (Kind.sc, i.claimId)) ++
      (t.sfOuts.map (fun x => (Kind.sf, x.1)) ++ (t.fcs.map (fun x => (Kind.fc2, x.1)) ++ (t.ress.flatMap Resolution2.created ++ R))))), q.2 = x := by
    intro x hx
    obtain ⟨o, ho, he⟩ := List.mem_map.mp hx
    exact ⟨(Kind.fc2, o.1), List.mem_append_right _ (List.mem_append_right _ (List.mem_append_right _
      (List.mem_append_left _ (List.mem_map_of_mem ho)))), he⟩
  -- 3. siafund inputs
  have pSf2 : ∀ sfi ∈ t.sfIns, SpendableSf T ms2 sfi.parent := by
    intro sfi h
    have h0 := pSf sfi h
    refine (h0.agree r1.agree ?_).agree r2.agree ?_
    · intro hm
      obtain ⟨sci, hs, he⟩ := List.mem_map.mp hm
      have := hc.disj _ _ _ (pSc sci hs).1 (he ▸ h0.1); cases this
    · intro hm
      obtain ⟨q, hq, he⟩ := inF_scOut _ hm
      exact h0.not_fresh hF q hq he
  have hp2 : ms2.pool = ms.pool := by rw [e2p, e1p]
  have s12 : SfSame ms ms2 := (sfSame_scIns2 a1).trans (sfSame_scOuts a2)
  obtain ⟨q2, c2⟩ := Psi_shift s12 0 (by rw [hp2]; rfl) hcs
  have hpl : ms.pool < curLimit := by unfold Cur at *; omega
  obtain ⟨ms3, a3⟩ := total_sfIns2 t.sfIns ms2 _ hc2 r2.inv pSf2 hsfn F2 c2 (by rw [e2S, e1S]; exact hS) (by rw [hp2]; exact hpl)
  obtain ⟨r3, F3, e3P, e3S, e3p, e3W, e3Wc⟩ := loop_sfIns2 t.sfIns ms2 ms3 _ hc2 r2.inv pSf2 hsfn F2 a3
  have hc3 : Ctx T ms3.base := by rw [r3.base]; exact hc2
  -- 4. siafund outputs
  obtain ⟨ms4, a4⟩ : ∃ m, t.sfOuts.foldlM stepSfOut ms3 = .ok m :=
    foldlM_total_pure (fun (s : Mid) (x : Id × Nat × Addr) => s.createSf x.1 x.2.1 x.2.2) _ _
  obtain ⟨r4, F4, e4P, e4S, e4p, e4W⟩ := loop_sfOuts t.sfOuts ms3 ms4 _ hc3 r3.inv F3 a4
  have hc4 : Ctx T ms4.base := by rw [r4.base]; exact hc3
  -- 5. contract formations
  have hp4 : ms4.pool = ms.pool := by rw [e4p, e3p, hp2]
  unfold Txn2.taxes at hpool
  obtain ⟨ms5, a5⟩ := total_fcs2 t.fcs ms4 hfcv (by rw [hp4]; unfold Cur at *; omega)
  obtain ⟨r5, F5, e5P, e5S, e5p⟩ := loop_fcs2 t.fcs ms4 ms5 _ hc4 r4.inv hfcs F4 a5
  have hc5 : Ctx T ms5.base := by rw [r5.base]; exact hc4
  -- a live base contract stays live through steps 1-5
  have live5 : ∀ e, LiveFc2 T ms e → LiveFc2 T ms5 e := by
    intro e h0
    have nf := h0.not_fresh hF
    refine ((((h0.agree r1.agree ?_).agree r2.agree ?_).agree r3.agree ?_).agree r4.agree ?_).agree r5.agree ?_
    · intro hm
      obtain ⟨sci, hs, he⟩ := List.mem_map.mp hm
      have := hc.disj _ _ _ (pSc sci hs).1 (he ▸ h0.1); cases this
    · intro hm; obtain ⟨q, hq, he⟩ := inF_scOut _ hm; exact nf q hq he
    · rintro (hm | hm)
      · obtain ⟨sfi, hs, he⟩ := List.mem_map.mp hm
        have := hc.disj _ _ _ (pSf sfi hs).1 (he ▸ h0.1); cases this
      · obtain ⟨q, hq, he⟩ := inF_claim _ hm; exact nf q hq he
    · intro hm; obtain ⟨q, hq, he⟩ := inF_sfOut _ hm; exact nf q hq he
    · intro hm; obtain ⟨q, hq, he⟩ := inF_fc _ hm; exact nf q hq he
  -- 6. revisions
  obtain ⟨ms6, a6⟩ : ∃ m, t.revs.foldlM stepRev2 ms5 = .ok m :=
    foldlM_total_pure (fun (s : Mid) (r : Rev2) => s.reviseFc2 r.parent r.rev) _ _
  have pRev5 : ∀ r ∈ t.revs, LiveFc2 T ms5 r.parent ∧ r.rev.val = r.parent.fc.val ∧ r.rev.missedHost ≤ r.rev.host.value :=
    fun r h => ⟨live5 _ (pRev r h).1, (pRev r h).2⟩
  obtain ⟨r6, e6P, e6S, e6p⟩ := loop_revs2 t.revs ms5 ms6 hc5 r5.inv pRev5 hrevn a6
  have hc6 : Ctx T ms6.base := by rw [r6.base]; exact hc5
  have F6 := F5.agree r6.agree (by
    intro q hq hm
    obtain ⟨r, hr, he⟩ := List.mem_map.mp hm
    exact (pRev5 r hr).1.not_fresh F5 q hq he.symm)
  -- 7. resolutions
  have pRes6 : ∀ r ∈ t.ress, LiveFc2 T ms6 r.parent ∧ resNewOk r ∧ r.parent.fc.missedHost ≤ r.parent.fc.host.value := by
    intro r h
    refine ⟨(live5 _ (pRes r h).1).agree r6.agree ?_, (pRes r h).2⟩
    exact (hress r h).2.1
  obtain ⟨ms7, a7⟩ := total_ress2 t.ress ms6 R hc6 r6.inv pRes6 hresn F6 hrnv
    (by rw [e6p, e5p, hp4]; unfold Cur at *; omega)
  refine ⟨finish2 ms7 t, ?_⟩
  rw [applyV2Transaction_eq_c1, bind_eq_ok]; refine ⟨ms1, a1, ?_⟩
  rw [bind_eq_ok]; refine ⟨ms2, a2, ?_⟩
  rw [bind_eq_ok]; refine ⟨ms3, a3, ?_⟩
  rw [bind_eq_ok]; refine ⟨ms4, a4, ?_⟩
  rw [bind_eq_ok]; refine ⟨ms5, a5, ?_⟩
  rw [bind_eq_ok]; refine ⟨ms6, a6, ?_⟩
  rw [bind_eq_ok]; exact ⟨ms7, a7, rfl⟩

/-- after validation, `applyTransaction` returns (all of its errors are Go panics) -/
theorem v1txn_total {T} {ms : Mid} {t : Txn1} {pid : Id} {mw : Nat} {R : List (Kind × Id)}
    (hc : Ctx T ms.base) (hI : Inv T ms) (hsupp : SuppOk ms.base t.supp)
    (hF : Fresh T ms (t.created ++ R))
    (hlen : ∀ sp ∈ t.proofs, ∀ e, ms.fc1Element t.supp sp.parent = some e → e.fc.valid.length ≤ sp.outIds.length)
    (hcs : CsOk ms) (hS : sfTot ms ≤ 10000) (hroom : ms.pool + scW (wMat ms.base.child) ms < curLimit)
    (hv : validateTransaction ms t pid mw = .ok ()) :
    ∃ ms', applyTransaction ms t = .ok ms' := by
  obtain ⟨hv1, hv2, hv3, hv4⟩ := validateTransaction_ok hv
  obtain ⟨hsc, hbal⟩ := validateSiacoins1_ok hv1
  obtain ⟨hsf, hsfbal⟩ := validateSiafunds1_ok hv2
  obtain ⟨hfcs, hrevs, hprn, hprs, hmix⟩ := validateFileContracts1_ok hv3
  have hnd := validateSignatures_ok hv4
  rw [List.nodup_append] at hnd
  obtain ⟨hnd12, hndr, _⟩ := hnd
  rw [List.nodup_append] at hnd12
  obtain ⟨hndsc, hndsf, _⟩ := hnd12
  -- preconditions relative to the state before the transaction
  have pSc : ∀ sci ∈ t.scIns, PendSc1 T ms t.supp sci := fun sci h => by
    obtain ⟨h1, p, hp, _⟩ := hsc sci h; exact pendSc1_of hc hI hsupp h1 hp
  have pSf : ∀ sfi ∈ t.sfIns, PendSf1 T ms t.supp sfi := fun sfi h => by
    obtain ⟨h1, p, hp⟩ := hsf sfi h; exact pendSf1_of hc hI hsupp h1 hp
  have pRev : ∀ r ∈ t.revs, PendRev1 T ms t.supp r := fun r h => by
    obtain ⟨h1, p, hp, h2, h3⟩ := hrevs r h
    obtain ⟨hid, hl⟩ := liveFc1_of hc hI hsupp h1 hp
    exact ⟨p, hp, hid, hl, h2, h3⟩
  have pPr : ∀ sp ∈ t.proofs, PendProof1 T ms t.supp sp := fun sp h => by
    obtain ⟨h1, e, he⟩ := hprs sp h
    obtain ⟨hid, hl⟩ := liveFc1_of hc hI hsupp h1 he
    exact ⟨e, he, hid, hl, hlen sp h e he⟩
  -- kinds of the parents
  have kSc : ∀ sci ∈ t.scIns, T Kind.sc sci.parent := fun sci h => by
    obtain ⟨e, _, h2, h3⟩ := pSc sci h; exact h2 ▸ h3.1
  have kSf : ∀ sfi ∈ t.sfIns, T Kind.sf sfi.parent := fun sfi h => by
    obtain ⟨e, _, h2, h3⟩ := pSf sfi h; exact h2 ▸ h3.1
  have kRev : ∀ r ∈ t.revs, T Kind.fc1 r.parent := fun r h => by
    obtain ⟨e, _, h2, h3, _⟩ := pRev r h; exact h2 ▸ h3.1
  have kPr : ∀ sp ∈ t.proofs, T Kind.fc1 sp.parent := fun sp h => by
    obtain ⟨e, _, h2, h3, _⟩ := pPr sp h; exact h2 ▸ h3.1
  unfold Txn1.created at hF
  simp only [List.append_assoc] at hF
  -- 1. siacoin inputs
  obtain ⟨ms1, a1⟩ := total_scIns1 t.supp t.scIns ms hc hI pSc hndsc
  obtain ⟨r1, e1P, e1S, e1p, e1W⟩ := loop_scIns1 t.supp t.scIns ms ms1 hc hI pSc hndsc a1
  have F1 := hF.agree r1.agree (by
    intro q hq hm
    obtain ⟨sci, hs, he⟩ := List.mem_map.mp hm
    obtain ⟨e, _, h2, h3⟩ := pSc sci hs
    exact h3.not_fresh hF q hq (he.symm.trans h2.symm))
  have hc1 : Ctx T ms1.base := by rw [r1.base]; exact hc
  -- the tax of the transaction is funded by its mature inputs
  have hpool : ms.pool + t.taxes ms.base < curLimit := by
    have h1 := e1W (wMat ms.base.child) (wMat_congr _)
    have z1 : (t.scIns.map (scInW ms t.supp (wMat ms.base.child))).sum = (t.scIns.map (scInVal ms t.supp)).sum := by
      congr 1; apply List.map_congr_left; intro sci hm
      obtain ⟨_, p, hp, hmat⟩ := hsc sci hm
      unfold scInW scInVal; rw [hp]; simp only []
      unfold wMat; rw [if_pos hmat]
    have htax : t.taxes ms.base ≤ t.payouts := by
      unfold Txn1.taxes Txn1.payouts
      apply sum_le_sum_map; intro x hx
      have := (hfcs x hx).2
      unfold Cur at *; omega
    rw [z1] at h1
    clear hv hv1 hv2 hv3 hv4 a1 hF F1 hsfbal
    unfold Cur at *; omega
  -- 2. siacoin outputs
  obtain ⟨ms2, a2⟩ : ∃ m, t.scOuts.foldlM stepScOut ms1 = .ok m :=
    foldlM_total_pure (fun (s : Mid) (x : Id × ScOut) => s.createSc x.1 x.2) _ _
  obtain ⟨r2, F2, e2P, e2S, e2p, e2W⟩ := loop_scOuts t.scOuts ms1 ms2 _ hc1 r1.inv F1 a2
  have hc2 : Ctx T ms2.base := by rw [r2.base]; exact hc1
  have inF_scOut : ∀ x, x ∈ t.scOuts.map (·.1) → ∃ q ∈ (t.scOuts.map (fun x => (Kind.sc, x.1)) ++ (t.sfIns.map (fun i => (Kind.sc, i.claimId)) ++
      (t.sfOuts.map (fun x => (Kind.sf, x.1)) ++ (t.fcs.map (fun x => (Kind.fc1, x.1)) ++ (t.proofs.flatMap Proof1.created ++ R))))), q.2 = x := by
    intro x hx
    obtain ⟨o, ho, he⟩ := List.mem_map.mp hx
    exact ⟨(Kind.sc, o.1), List.mem_append_left _ (List.mem_map_of_mem ho), he⟩
  have inF_claim : ∀ x, x ∈ t.sfIns.map (·.claimId) → ∃ q ∈ (t.scOuts.map (fun x => (Kind.sc, x.1)) ++ (t.sfIns.map (fun i => (Kind.sc, i.claimId)) ++
      (t.sfOuts.map (fun x => (Kind.sf, x.1)) ++ (t.fcs.map (fun x => (Kind.fc1, x.1)) ++ (t.proofs.flatMap Proof1.created ++ R))))), q.2 = x := by
    intro x hx
    obtain ⟨o, ho, he⟩ := List.mem_map.mp hx
    exact ⟨(Kind.sc, o.claimId), List.mem_append_right _ (List.mem_append_left _ (List.mem_map_of_mem ho)), he⟩
  have inF_sfOut : ∀ x, x ∈ t.sfOuts.map (·.1) → ∃ q ∈ (t.scOuts.map (fun x => (Kind.sc, x.1)) ++ (t.sfIns.map (fun i => (Kind.sc, i.claimId)) ++
      (t.sfOuts.map (fun x => (Kind.sf, x.1)) ++ (t.fcs.map (fun x => (Kind.fc1, x.1)) ++ (t.proofs.flatMap Proof1.created ++ R))))), q.2 = x := by
    intro x hx
    obtain ⟨o, ho, he⟩ := List.mem_map.mp hx
    exact ⟨(Kind.sf, o.1), List.mem_append_right _ (List.mem_append_right _ (List.mem_append_left _ (List.mem_map_of_mem ho))), he⟩
  have inF_fc : ∀ x, x ∈ t.fcs.map (·.1) → ∃ q ∈ (t.scOuts.map (fun x => (Kind.sc, x.1)) ++ (t.sfIns.map (fun i => (Kind.sc, i.claimId)) ++
      (t.sfOuts.map (fun x => (Kind.sf, x.1)) ++ (t.fcs.map (fun x => (Kind.fc1, x.1)) ++ (t.proofs.flatMap Proof1.created ++ R))))), q.2 = x := by
    intro x hx
    obtain ⟨o, ho, he⟩ := List.mem_map.mp hx
    exact ⟨(Kind.fc1, o.1), List.mem_append_right _ (List.mem_append_right _ (List.mem_append_right _
      (List.mem_append_left _ (List.mem_map_of_mem ho)))), he⟩
  -- 3. siafund inputs
  have pSf2 : ∀ sfi ∈ t.sfIns, PendSf1 T ms2 t.supp sfi := by
    intro sfi h
    have h0 := pSf sfi h
    refine (h0.agree r1.agree ?_).agree r2.agree ?_
    · intro hm
      obtain ⟨sci, hs, he⟩ := List.mem_map.mp hm
      have := hc.disj _ _ _ (kSc sci hs) (he ▸ kSf sfi h); cases this
    · intro hm
      obtain ⟨q, hq, he⟩ := inF_scOut _ hm
      exact h0.not_fresh hF q hq he
  have hp2 : ms2.pool = ms.pool := by rw [e2p, e1p]
  have s12 : SfSame ms ms2 := (sfSame_scIns1 a1).trans (sfSame_scOuts a2)
  obtain ⟨q2, c2⟩ := Psi_shift s12 0 (by rw [hp2]; rfl) hcs
  have hpl : ms.pool < curLimit := by unfold Cur at *; omega
  obtain ⟨ms3, a3⟩ := total_sfIns1 t.supp t.sfIns ms2 _ hc2 r2.inv pSf2 hndsf F2 c2 (by rw [e2S, e1S]; exact hS) (by rw [hp2]; exact hpl)
  obtain ⟨r3, F3, e3P, e3S, e3p, e3W, e3Wc⟩ := loop_sfIns1 t.supp t.sfIns ms2 ms3 _ hc2 r2.inv pSf2 hndsf F2 a3
  have hc3 : Ctx T ms3.base := by rw [r3.base]; exact hc2
  -- 4. siafund outputs
  obtain ⟨ms4, a4⟩ : ∃ m, t.sfOuts.foldlM stepSfOut ms3 = .ok m :=
    foldlM_total_pure (fun (s : Mid) (x : Id × Nat × Addr) => s.createSf x.1 x.2.1 x.2.2) _ _
  obtain ⟨r4, F4, e4P, e4S, e4p, e4W⟩ := loop_sfOuts t.sfOuts ms3 ms4 _ hc3 r3.inv F3 a4
  have hc4 : Ctx T ms4.base := by rw [r4.base]; exact hc3
  -- 5. contract formations
  have hp4 : ms4.pool = ms.pool := by rw [e4p, e3p, hp2]
  have hb4' : ms4.base = ms.base := by rw [r4.base, r3.base, r2.base, r1.base]
  unfold Txn1.taxes at hpool
  obtain ⟨ms5, a5⟩ := total_fcs1 t.fcs ms4 (by rw [hp4, hb4']; exact hpool)
  obtain ⟨r5, F5, e5P, e5S, e5p⟩ := loop_fcs1 t.fcs ms4 ms5 _ hc4 r4.inv (fun x hx => (hfcs x hx).1) F4 a5
  have hc5 : Ctx T ms5.base := by rw [r5.base]; exact hc4
  have hb4 : ms4.base = ms.base := by rw [r4.base, r3.base, r2.base, r1.base]
  -- agreement ms → ms5 outside everything touched so far, for ids of kind fc1 that are not fresh
  have ag5 : ∀ x, T Kind.fc1 x → (∀ q ∈ (t.scOuts.map (fun x => (Kind.sc, x.1)) ++ (t.sfIns.map (fun i => (Kind.sc, i.claimId)) ++
      (t.sfOuts.map (fun x => (Kind.sf, x.1)) ++ (t.fcs.map (fun x => (Kind.fc1, x.1)) ++ (t.proofs.flatMap Proof1.created ++ R))))), q.2 ≠ x) →
      ∃ P : Id → Prop, Agree ms ms5 P ∧ ¬ P x := by
    intro x hk nf
    refine ⟨fun y => (((y ∈ t.scIns.map (·.parent) ∨ y ∈ t.scOuts.map (·.1)) ∨
      (y ∈ t.sfIns.map (·.parent) ∨ y ∈ t.sfIns.map (·.claimId))) ∨ y ∈ t.sfOuts.map (·.1)) ∨ y ∈ t.fcs.map (·.1), ?_, ?_⟩
    · refine ((((r1.agree.mono ?_).trans (r2.agree.mono ?_)).trans (r3.agree.mono ?_)).trans (r4.agree.mono ?_)).trans (r5.agree.mono ?_)
      · intro y hy; exact Or.inl (Or.inl (Or.inl (Or.inl hy)))
      · intro y hy; exact Or.inl (Or.inl (Or.inl (Or.inr hy)))
      · intro y hy; exact Or.inl (Or.inl (Or.inr hy))
      · intro y hy; exact Or.inl (Or.inr hy)
      · intro y hy; exact Or.inr hy
    · rintro (((((hm | hm) | (hm | hm)) | hm)) | hm)
      · obtain ⟨sci, hs, he⟩ := List.mem_map.mp hm
        have := hc.disj _ _ _ (kSc sci hs) (he ▸ hk); cases this
      · obtain ⟨q, hq, he⟩ := inF_scOut _ hm; exact nf q hq he
      · obtain ⟨sfi, hs, he⟩ := List.mem_map.mp hm
        have := hc.disj _ _ _ (kSf sfi hs) (he ▸ hk); cases this
      · obtain ⟨q, hq, he⟩ := inF_claim _ hm; exact nf q hq he
      · obtain ⟨q, hq, he⟩ := inF_sfOut _ hm; exact nf q hq he
      · obtain ⟨q, hq, he⟩ := inF_fc _ hm; exact nf q hq he
  -- 6. revisions
  have pRev5 : ∀ r ∈ t.revs, PendRev1 T ms5 t.supp r := by
    intro r h
    obtain ⟨P, hA, hnP⟩ := ag5 r.parent (kRev r h) ((pRev r h).not_fresh hF)
    exact (pRev r h).agree hA hnP
  obtain ⟨ms6, a6⟩ := total_revs1 t.supp t.revs ms5 hc5 r5.inv pRev5 hndr
  obtain ⟨r6, e6P, e6S, e6p⟩ := loop_revs1 t.supp t.revs ms5 ms6 hc5 r5.inv pRev5 hndr a6
  have hc6 : Ctx T ms6.base := by rw [r6.base]; exact hc5
  have F6 := F5.agree r6.agree (by
    intro q hq hm
    obtain ⟨r, hr, he⟩ := List.mem_map.mp hm
    exact (pRev5 r hr).not_fresh F5 q hq he.symm)
  -- 7. storage proofs
  have pPr6 : ∀ sp ∈ t.proofs, PendProof1 T ms6 t.supp sp := by
    intro sp h
    obtain ⟨P, hA, hnP⟩ := ag5 sp.parent (kPr sp h) ((pPr sp h).not_fresh hF)
    refine ((pPr sp h).agree hA hnP).agree r6.agree ?_
    have hne : t.proofs ≠ [] := by intro he; rw [he] at h; cases h
    rw [(hmix hne).2.2.2]; simp
  obtain ⟨ms7, a7⟩ := total_proofs1 t.supp t.proofs ms6 R hc6 r6.inv pPr6 hprn F6
  refine ⟨foundation1 ms7 t, ?_⟩
  rw [applyTransaction_eq_c1, bind_eq_ok]; refine ⟨ms1, a1, ?_⟩
  rw [bind_eq_ok]; refine ⟨ms2, a2, ?_⟩
  rw [bind_eq_ok]; refine ⟨ms3, a3, ?_⟩
  rw [bind_eq_ok]; refine ⟨ms4, a4, ?_⟩
  rw [bind_eq_ok]; refine ⟨ms5, a5, ?_⟩
  rw [bind_eq_ok]; refine ⟨ms6, a6, ?_⟩
  rw [bind_eq_ok]; exact ⟨ms7, a7, rfl⟩

/-- weak variant: `applyTransaction` returns after validation, and the structural invariant is kept; only
per-element bounds on the siafund parents and the tax-pool check are used (no solvency) -/
theorem v1txn_weak {T} {ms : Mid} {t : Txn1} {pid : Id} {mw : Nat} {R : List (Kind × Id)}
    (hc : Ctx T ms.base) (hI : Inv T ms) (hsupp : SuppOk ms.base t.supp)
    (hF : Fresh T ms (t.created ++ R))
    (hlen : ∀ sp ∈ t.proofs, ∀ e, ms.fc1Element t.supp sp.parent = some e → e.fc.valid.length ≤ sp.outIds.length)
    (hclaim : ∀ sfi ∈ t.sfIns, ∀ e, ms.sfElement t.supp sfi.parent = some e → e.claimStart ≤ ms.pool ∧ e.value ≤ 10000)
    (hpool : ms.pool + t.taxes ms.base < curLimit)
    (hv : validateTransaction ms t pid mw = .ok ()) :
    ∃ ms', applyTransaction ms t = .ok ms' ∧ Inv T ms' ∧ Fresh T ms' R ∧ ms'.base = ms.base ∧
      ms'.pool = ms.pool + t.taxes ms.base := by
  obtain ⟨hv1, hv2, hv3, hv4⟩ := validateTransaction_ok hv
  obtain ⟨hsc, hbal⟩ := validateSiacoins1_ok hv1
  obtain ⟨hsf, hsfbal⟩ := validateSiafunds1_ok hv2
  obtain ⟨hfcs, hrevs, hprn, hprs, hmix⟩ := validateFileContracts1_ok hv3
  have hnd := validateSignatures_ok hv4
  rw [List.nodup_append] at hnd
  obtain ⟨hnd12, hndr, _⟩ := hnd
  rw [List.nodup_append] at hnd12
  obtain ⟨hndsc, hndsf, _⟩ := hnd12
  -- preconditions relative to the state before the transaction
  have pSc : ∀ sci ∈ t.scIns, PendSc1 T ms t.supp sci := fun sci h => by
    obtain ⟨h1, p, hp, _⟩ := hsc sci h; exact pendSc1_of hc hI hsupp h1 hp
  have pSf : ∀ sfi ∈ t.sfIns, PendSf1 T ms t.supp sfi := fun sfi h => by
    obtain ⟨h1, p, hp⟩ := hsf sfi h; exact pendSf1_of hc hI hsupp h1 hp
  have pRev : ∀ r ∈ t.revs, PendRev1 T ms t.supp r := fun r h => by
    obtain ⟨h1, p, hp, h2, h3⟩ := hrevs r h
    obtain ⟨hid, hl⟩ := liveFc1_of hc hI hsupp h1 hp
    exact ⟨p, hp, hid, hl, h2, h3⟩
  have pPr : ∀ sp ∈ t.proofs, PendProof1 T ms t.supp sp := fun sp h => by
    obtain ⟨h1, e, he⟩ := hprs sp h
    obtain ⟨hid, hl⟩ := liveFc1_of hc hI hsupp h1 he
    exact ⟨e, he, hid, hl, hlen sp h e he⟩
  -- kinds of the parents
  have kSc : ∀ sci ∈ t.scIns, T Kind.sc sci.parent := fun sci h => by
    obtain ⟨e, _, h2, h3⟩ := pSc sci h; exact h2 ▸ h3.1
  have kSf : ∀ sfi ∈ t.sfIns, T Kind.sf sfi.parent := fun sfi h => by
    obtain ⟨e, _, h2, h3⟩ := pSf sfi h; exact h2 ▸ h3.1
  have kRev : ∀ r ∈ t.revs, T Kind.fc1 r.parent := fun r h => by
    obtain ⟨e, _, h2, h3, _⟩ := pRev r h; exact h2 ▸ h3.1
  have kPr : ∀ sp ∈ t.proofs, T Kind.fc1 sp.parent := fun sp h => by
    obtain ⟨e, _, h2, h3, _⟩ := pPr sp h; exact h2 ▸ h3.1
  unfold Txn1.created at hF
  simp only [List.append_assoc] at hF
  -- 1. siacoin inputs
  obtain ⟨ms1, a1⟩ := total_scIns1 t.supp t.scIns ms hc hI pSc hndsc
  obtain ⟨r1, e1P, e1S, e1p, e1W⟩ := loop_scIns1 t.supp t.scIns ms ms1 hc hI pSc hndsc a1
  have F1 := hF.agree r1.agree (by
    intro q hq hm
    obtain ⟨sci, hs, he⟩ := List.mem_map.mp hm
    obtain ⟨e, _, h2, h3⟩ := pSc sci hs
    exact h3.not_fresh hF q hq (he.symm.trans h2.symm))
  have hc1 : Ctx T ms1.base := by rw [r1.base]; exact hc
  -- 2. siacoin outputs
  obtain ⟨ms2, a2⟩ : ∃ m, t.scOuts.foldlM stepScOut ms1 = .ok m :=
    foldlM_total_pure (fun (s : Mid) (x : Id × ScOut) => s.createSc x.1 x.2) _ _
  obtain ⟨r2, F2, e2P, e2S, e2p, e2W⟩ := loop_scOuts t.scOuts ms1 ms2 _ hc1 r1.inv F1 a2
  have hc2 : Ctx T ms2.base := by rw [r2.base]; exact hc1
  have inF_scOut : ∀ x, x ∈ t.scOuts.map (·.1) → ∃ q ∈ (t.scOuts.map (fun x => (Kind.sc, x.1)) ++ (t.sfIns.map (fun i => (Kind.sc, i.claimId)) ++
      (t.sfOuts.map (fun x => (Kind.sf, x.1)) ++ (t.fcs.map (fun x => (Kind.fc1, x.1)) ++ (t.proofs.flatMap Proof1.created ++ R))))), q.2 = x := by
    intro x hx
    obtain ⟨o, ho, he⟩ := List.mem_map.mp hx
    exact ⟨(Kind.sc, o.1), List.mem_append_left _ (List.mem_map_of_mem ho), he⟩
  have inF_claim : ∀ x, x ∈ t.sfIns.map (·.claimId) → ∃ q ∈ (t.scOuts.map (fun x => (Kind.sc, x.1)) ++ (t.sfIns.map (fun i => (Kind.sc, i.claimId)) ++
      (t.sfOuts.map (fun x => (Kind.sf, x.1)) ++ (t.fcs.map (fun x => (Kind.fc1, x.1)) ++ (t.proofs.flatMap Proof1.created ++ R))))), q.2 = x := by
    intro x hx
    obtain ⟨o, ho, he⟩ := List.mem_map.mp hx
    exact ⟨(Kind.sc, o.claimId), List.mem_append_right _ (List.mem_append_left _ (List.mem_map_of_mem ho)), he⟩
  have inF_sfOut : ∀ x, x ∈ t.sfOuts.map (·.1) → ∃ q ∈ (t.scOuts.map (fun x => (Kind.sc, x.1)) ++ (t.sfIns.map (fun i => (Kind.sc, i.claimId)) ++
      (t.sfOuts.map (fun x => (Kind.sf, x.1)) ++ (t.fcs.map (fun x => (Kind.fc1, x.1)) ++ (t.proofs.flatMap Proof1.created ++ R))))), q.2 = x := by
    intro x hx
    obtain ⟨o, ho, he⟩ := List.mem_map.mp hx
    exact ⟨(Kind.sf, o.1), List.mem_append_right _ (List.mem_append_right _ (List.mem_append_left _ (List.mem_map_of_mem ho))), he⟩
  have inF_fc : ∀ x, x ∈ t.fcs.map (·.1) → ∃ q ∈ (t.scOuts.map (fun x => (Kind.sc, x.1)) ++ (t.sfIns.map (fun i => (Kind.sc, i.claimId)) ++
      (t.sfOuts.map (fun x => (Kind.sf, x.1)) ++ (t.fcs.map (fun x => (Kind.fc1, x.1)) ++ (t.proofs.flatMap Proof1.created ++ R))))), q.2 = x := by
    intro x hx
    obtain ⟨o, ho, he⟩ := List.mem_map.mp hx
    exact ⟨(Kind.fc1, o.1), List.mem_append_right _ (List.mem_append_right _ (List.mem_append_right _
      (List.mem_append_left _ (List.mem_map_of_mem ho)))), he⟩
  -- 3. siafund inputs
  have pSf2 : ∀ sfi ∈ t.sfIns, PendSf1 T ms2 t.supp sfi := by
    intro sfi h
    have h0 := pSf sfi h
    refine (h0.agree r1.agree ?_).agree r2.agree ?_
    · intro hm
      obtain ⟨sci, hs, he⟩ := List.mem_map.mp hm
      have := hc.disj _ _ _ (kSc sci hs) (he ▸ kSf sfi h); cases this
    · intro hm
      obtain ⟨q, hq, he⟩ := inF_scOut _ hm
      exact h0.not_fresh hF q hq he
  have hp2 : ms2.pool = ms.pool := by rw [e2p, e1p]
  have hpl : ms.pool < curLimit := by unfold Cur at *; omega
  have hcl2 : ∀ sfi ∈ t.sfIns, ∃ e, ms2.sfElement t.supp sfi.parent = some e ∧ e.claimStart ≤ ms2.pool ∧ e.value ≤ 10000 := by
    intro sfi h
    have h0 := pSf sfi h
    obtain ⟨e, he1, _, _⟩ := h0
    obtain ⟨b1, b2⟩ := hclaim sfi h e he1
    refine ⟨e, ?_, by rw [hp2]; exact b1, b2⟩
    rw [sfElement_agree r2.agree, sfElement_agree r1.agree]
    · exact he1
    · intro hm
      obtain ⟨sci, hs, he⟩ := List.mem_map.mp hm
      have := hc.disj _ _ _ (kSc sci hs) (he ▸ kSf sfi h); cases this
    · intro hm
      obtain ⟨q, hq, he⟩ := inF_scOut _ hm
      exact (pSf sfi h).not_fresh hF q hq he
  obtain ⟨ms3, a3⟩ := total_sfIns1_weak t.supp t.sfIns ms2 _ hc2 r2.inv pSf2 hndsf F2 hcl2 (by rw [hp2]; exact hpl)
  obtain ⟨r3, F3, e3P, e3S, e3p, e3W, e3Wc⟩ := loop_sfIns1 t.supp t.sfIns ms2 ms3 _ hc2 r2.inv pSf2 hndsf F2 a3
  have hc3 : Ctx T ms3.base := by rw [r3.base]; exact hc2
  -- 4. siafund outputs
  obtain ⟨ms4, a4⟩ : ∃ m, t.sfOuts.foldlM stepSfOut ms3 = .ok m :=
    foldlM_total_pure (fun (s : Mid) (x : Id × Nat × Addr) => s.createSf x.1 x.2.1 x.2.2) _ _
  obtain ⟨r4, F4, e4P, e4S, e4p, e4W⟩ := loop_sfOuts t.sfOuts ms3 ms4 _ hc3 r3.inv F3 a4
  have hc4 : Ctx T ms4.base := by rw [r4.base]; exact hc3
  -- 5. contract formations
  have hp4 : ms4.pool = ms.pool := by rw [e4p, e3p, hp2]
  have hb4' : ms4.base = ms.base := by rw [r4.base, r3.base, r2.base, r1.base]
  unfold Txn1.taxes at hpool
  obtain ⟨ms5, a5⟩ := total_fcs1 t.fcs ms4 (by rw [hp4, hb4']; exact hpool)
  obtain ⟨r5, F5, e5P, e5S, e5p⟩ := loop_fcs1 t.fcs ms4 ms5 _ hc4 r4.inv (fun x hx => (hfcs x hx).1) F4 a5
  have hc5 : Ctx T ms5.base := by rw [r5.base]; exact hc4
  have hb4 : ms4.base = ms.base := by rw [r4.base, r3.base, r2.base, r1.base]
  -- agreement ms → ms5 outside everything touched so far, for ids of kind fc1 that are not fresh
  have ag5 : ∀ x, T Kind.fc1 x → (∀ q ∈ (t.scOuts.map (fun x => (Kind.sc, x.1)) ++ (t.sfIns.map (fun i => (Kind.sc, i.claimId)) ++
      (t.sfOuts.map (fun x => (Kind.sf, x.1)) ++ (t.fcs.map (fun x => (Kind.fc1, x.1)) ++ (t.proofs.flatMap Proof1.created ++ R))))), q.2 ≠ x) →
      ∃ P : Id → Prop, Agree ms ms5 P ∧ ¬ P x := by
    intro x hk nf
    refine ⟨fun y => (((y ∈ t.scIns.map (·.parent) ∨ y ∈ t.scOuts.map (·.1)) ∨
      (y ∈ t.sfIns.map (·.parent) ∨ y ∈ t.sfIns.map (·.claimId))) ∨ y ∈ t.sfOuts.map (·.1)) ∨ y ∈ t.fcs.map (·.1), ?_, ?_⟩
    · refine ((((r1.agree.mono ?_).trans (r2.agree.mono ?_)).trans (r3.agree.mono ?_)).trans (r4.agree.mono ?_)).trans (r5.agree.mono ?_)
      · intro y hy; exact Or.inl (Or.inl (Or.inl (Or.inl hy)))
      · intro y hy; exact Or.inl (Or.inl (Or.inl (Or.inr hy)))
      · intro y hy; exact Or.inl (Or.inl (Or.inr hy))
      · intro y hy; exact Or.inl (Or.inr hy)
      · intro y hy; exact Or.inr hy
    · rintro (((((hm | hm) | (hm | hm)) | hm)) | hm)
      · obtain ⟨sci, hs, he⟩ := List.mem_map.mp hm
        have := hc.disj _ _ _ (kSc sci hs) (he ▸ hk); cases this
      · obtain ⟨q, hq, he⟩ := inF_scOut _ hm; exact nf q hq he
      · obtain ⟨sfi, hs, he⟩ := List.mem_map.mp hm
        have := hc.disj _ _ _ (kSf sfi hs) (he ▸ hk); cases this
      · obtain ⟨q, hq, he⟩ := inF_claim _ hm; exact nf q hq he
      · obtain ⟨q, hq, he⟩ := inF_sfOut _ hm; exact nf q hq he
      · obtain ⟨q, hq, he⟩ := inF_fc _ hm; exact nf q hq he
  -- 6. revisions
  have pRev5 : ∀ r ∈ t.revs, PendRev1 T ms5 t.supp r := by
    intro r h
    obtain ⟨P, hA, hnP⟩ := ag5 r.parent (kRev r h) ((pRev r h).not_fresh hF)
    exact (pRev r h).agree hA hnP
  obtain ⟨ms6, a6⟩ := total_revs1 t.supp t.revs ms5 hc5 r5.inv pRev5 hndr
  obtain ⟨r6, e6P, e6S, e6p⟩ := loop_revs1 t.supp t.revs ms5 ms6 hc5 r5.inv pRev5 hndr a6
  have hc6 : Ctx T ms6.base := by rw [r6.base]; exact hc5
  have F6 := F5.agree r6.agree (by
    intro q hq hm
    obtain ⟨r, hr, he⟩ := List.mem_map.mp hm
    exact (pRev5 r hr).not_fresh F5 q hq he.symm)
  -- 7. storage proofs
  have pPr6 : ∀ sp ∈ t.proofs, PendProof1 T ms6 t.supp sp := by
    intro sp h
    obtain ⟨P, hA, hnP⟩ := ag5 sp.parent (kPr sp h) ((pPr sp h).not_fresh hF)
    refine ((pPr sp h).agree hA hnP).agree r6.agree ?_
    have hne : t.proofs ≠ [] := by intro he; rw [he] at h; cases h
    rw [(hmix hne).2.2.2]; simp
  obtain ⟨ms7, a7⟩ := total_proofs1 t.supp t.proofs ms6 R hc6 r6.inv pPr6 hprn F6
  obtain ⟨r7, F7, e7P, e7S, e7p, e7W⟩ := loop_proofs1 t.supp t.proofs ms6 ms7 R hc6 r6.inv pPr6 hprn F6 a7
  obtain ⟨f1, f2, f3, f4, f5, f6, f7, f8⟩ := foundation1_fields ms7 t
  have hb7 : ms7.base = ms.base := by
    rw [r7.base, r6.base, r5.base, r4.base, r3.base, r2.base, r1.base]
  refine ⟨foundation1 ms7 t, ?_, r7.inv.scalars f1 f2 f3 f4 f5 f6 f7,
    F7.agree (agree_scalars f1 f2 f3 f4 f5 f6 f7 (fun _ => False)) (fun _ _ h => h), f1.trans hb7, ?_⟩
  rotate_left 1
  · unfold Txn1.taxes
    rw [f8, e7p, e6p, e5p, e4p, e3p, e2p, e1p, hb4']
  rw [applyTransaction_eq_c1, bind_eq_ok]; refine ⟨ms1, a1, ?_⟩
  rw [bind_eq_ok]; refine ⟨ms2, a2, ?_⟩
  rw [bind_eq_ok]; refine ⟨ms3, a3, ?_⟩
  rw [bind_eq_ok]; refine ⟨ms4, a4, ?_⟩
  rw [bind_eq_ok]; refine ⟨ms5, a5, ?_⟩
  rw [bind_eq_ok]; refine ⟨ms6, a6, ?_⟩
  rw [bind_eq_ok]; exact ⟨ms7, a7, rfl⟩

end Sia.Ledger
