import SiaProofs.Lemmas.LedgerC01V2
/-!
# C01 helper lemmas, part 11: the loops of `applyTransaction` (v1)
-/
namespace Sia.Ledger

-- ------------------------------------------------------------------ lookups only depend on the view

theorem scElement_agree {ms ms' : Mid} {P : Id → Prop} (ha : Agree ms ms' P) (supp : Supp1) {id : Id} (hp : ¬ P id) :
    ms'.scElement supp id = ms.scElement supp id := by
  unfold Mid.scElement; rw [(ha.2 id hp).2.1]
theorem sfElement_agree {ms ms' : Mid} {P : Id → Prop} (ha : Agree ms ms' P) (supp : Supp1) {id : Id} (hp : ¬ P id) :
    ms'.sfElement supp id = ms.sfElement supp id := by
  unfold Mid.sfElement; rw [(ha.2 id hp).2.2.1]
theorem fc1Element_agree {ms ms' : Mid} {P : Id → Prop} (ha : Agree ms ms' P) (supp : Supp1) {id : Id} (hp : ¬ P id) :
    ms'.fc1Element supp id = ms.fc1Element supp id := by
  unfold Mid.fc1Element; rw [(ha.2 id hp).2.2.2.1]

-- ------------------------------------------------------------------ batches of immature outputs

theorem payOuts_spec {T} (l : List (ScOut × Id)) : ∀ (ms : Mid) (R : List (Kind × Id)), Ctx T ms.base → Inv T ms →
    Fresh T ms (l.map (fun x => (Kind.sc, x.2)) ++ R) →
    Inv T (payOuts ms l) ∧ Agree ms (payOuts ms l) (· ∈ l.map (·.2)) ∧ Fresh T (payOuts ms l) R ∧
    Phi (payOuts ms l) = Phi ms + (l.map (·.1.value)).sum ∧ sfTot (payOuts ms l) = sfTot ms ∧
    (payOuts ms l).pool = ms.pool ∧ (payOuts ms l).base = ms.base ∧
    ∀ w : ScElem → Nat, scW w ms ≤ scW w (payOuts ms l) := by
  induction l with
  | nil => intro ms R _ hI hF; exact ⟨hI, Agree.refl _ _, hF, by simp [payOuts], rfl, rfl, rfl, fun _ => Nat.le_refl _⟩
  | cons a l ih =>
    intro ms R hc hI hF
    simp only [List.map_cons, List.cons_append] at hF
    unfold payOuts; simp only [List.foldl_cons]
    unfold Mid.createImmatureSc
    obtain ⟨hI1, hA1, hF1, hP1, hS1, hp1, hb1⟩ := createSc_spec hc hI hF a.1 (maturityHeight ms.base)
    obtain ⟨hI2, hA2, hF2, hP2, hS2, hp2, hb2, hw2⟩ := ih _ R (by rw [hb1]; exact hc) hI1 hF1
    unfold payOuts Mid.createImmatureSc at hI2 hA2 hF2 hP2 hS2 hp2 hb2 hw2
    refine ⟨hI2, ?_, hF2, ?_, hS2.trans hS1, hp2.trans hp1, hb2.trans hb1, ?_⟩
    · exact (hA1.step hA2).mono (fun x hx => by simpa using hx)
    · rw [hP2, hP1]; simp only [List.map_cons, List.sum_cons]; omega
    · intro w
      have h1 := createSc_w w hc hI hF a.1 (maturityHeight ms.base)
      have h2 := hw2 w
      omega

-- ------------------------------------------------------------------ siacoin inputs (v1)

/-- value of the siacoin element a v1 input refers to -/
def scInVal (ms : Mid) (supp : Supp1) (sci : ScIn1) : Nat :=
  match ms.scElement supp sci.parent with
  | some e => e.value
  | none => 0

/-- weight of the siacoin element a v1 input refers to -/
def scInW (ms : Mid) (supp : Supp1) (w : ScElem → Nat) (sci : ScIn1) : Nat :=
  match ms.scElement supp sci.parent with
  | some e => w e
  | none => 0

def PendSc1 (T : Kind → Id → Prop) (ms : Mid) (supp : Supp1) (sci : ScIn1) : Prop :=
  ∃ e, ms.scElement supp sci.parent = some e ∧ e.id = sci.parent ∧ SpendableSc T ms e

theorem PendSc1.agree {T ms ms' supp sci} {P : Id → Prop} (h : PendSc1 T ms supp sci) (ha : Agree ms ms' P)
    (hp : ¬ P sci.parent) : PendSc1 T ms' supp sci := by
  obtain ⟨e, h1, h2, h3⟩ := h
  exact ⟨e, by rw [scElement_agree ha supp hp]; exact h1, h2, h3.agree ha (h2 ▸ hp)⟩

theorem loop_scIns1 {T} (supp : Supp1) (l : List ScIn1) : ∀ (ms ms' : Mid), Ctx T ms.base → Inv T ms →
    (∀ sci ∈ l, PendSc1 T ms supp sci) → (l.map (·.parent)).Nodup →
    l.foldlM (stepScIn1 supp) ms = .ok ms' →
    Reached T ms ms' (· ∈ l.map (·.parent)) ∧
    Phi ms' + (l.map (scInVal ms supp)).sum = Phi ms ∧ sfTot ms' = sfTot ms ∧ ms'.pool = ms.pool ∧
    ∀ w : ScElem → Nat, (∀ a b : ScElem, a.value = b.value → a.maturity = b.maturity → w a = w b) →
      scW w ms' + (l.map (scInW ms supp w)).sum = scW w ms := by
  induction l with
  | nil =>
    intro ms ms' _ hI _ _ h
    simp only [List.foldlM_nil] at h; cases h
    exact ⟨⟨hI, rfl, Agree.refl _ _⟩, by simp, rfl, rfl, by simp⟩
  | cons a l ih =>
    intro ms ms' hc hI hs hn h
    rw [List.foldlM_cons, bind_eq_ok] at h
    obtain ⟨ms1, h1, h2⟩ := h
    simp only [List.map_cons, List.nodup_cons] at hn
    obtain ⟨e, he1, he2, he3⟩ := hs a List.mem_cons_self
    unfold stepScIn1 at h1; rw [he1] at h1; cases h1
    obtain ⟨hI1, hA1, hP1, hS1, hp1, hb1⟩ := spendSc_spec hc hI he3
    rw [he2] at hA1
    have hs1 : ∀ sci ∈ l, PendSc1 T (ms.spendSc e) supp sci := by
      intro sci hm
      apply (hs sci (List.mem_cons_of_mem _ hm)).agree hA1
      intro he; exact hn.1 (he ▸ List.mem_map_of_mem hm)
    obtain ⟨hR, hP, hS, hp, hW⟩ := ih _ ms' (hb1 ▸ hc) hI1 hs1 hn.2 h2
    have hvals : (l.map (scInVal (ms.spendSc e) supp)).sum = (l.map (scInVal ms supp)).sum := by
      congr 1; apply List.map_congr_left; intro sci hm
      unfold scInVal; rw [scElement_agree hA1 supp]
      intro he; exact hn.1 (he ▸ List.mem_map_of_mem hm)
    refine ⟨⟨hR.inv, hR.base.trans hb1, ?_⟩, ?_, hS.trans hS1, hp.trans hp1, ?_⟩
    · exact (hA1.step hR.agree).mono (fun x hx => by simpa using hx)
    · simp only [List.map_cons, List.sum_cons]
      have : scInVal ms supp a = e.value := by unfold scInVal; rw [he1]
      rw [this, ← hvals]; omega
    · intro w hw
      have h1 := hW w hw
      have hws : (l.map (scInW (ms.spendSc e) supp w)).sum = (l.map (scInW ms supp w)).sum := by
        congr 1; apply List.map_congr_left; intro sci hm
        unfold scInW; rw [scElement_agree hA1 supp]
        intro he; exact hn.1 (he ▸ List.mem_map_of_mem hm)
      have h3 := spendSc_w w hw hc hI he3
      have h4 : scInW ms supp w a = w e := by unfold scInW; rw [he1]
      simp only [List.map_cons, List.sum_cons]
      rw [h4, ← hws]; omega

-- ------------------------------------------------------------------ siafund inputs (v1)

def sfInVal (ms : Mid) (supp : Supp1) (sfi : SfIn1) : Nat :=
  match ms.sfElement supp sfi.parent with
  | some e => e.value
  | none => 0

def sfInClaim (ms : Mid) (supp : Supp1) (pool : Cur) (sfi : SfIn1) : Nat :=
  match ms.sfElement supp sfi.parent with
  | some e => claimVal pool e.claimStart e.value
  | none => 0

/-- weight of the siafund element a v1 input refers to -/
def sfInW (ms : Mid) (supp : Supp1) (w : SfElem → Nat) (sfi : SfIn1) : Nat :=
  match ms.sfElement supp sfi.parent with
  | some e => w e
  | none => 0

/-- weight of the claim output a v1 siafund input creates -/
def sfInClaimW (ms : Mid) (supp : Supp1) (w : ScElem → Nat) (sfi : SfIn1) : Nat :=
  match ms.sfElement supp sfi.parent with
  | some e => w ⟨sfi.claimId, claimVal ms.pool e.claimStart e.value, sfi.claimAddr, maturityHeight ms.base, none⟩
  | none => 0

def PendSf1 (T : Kind → Id → Prop) (ms : Mid) (supp : Supp1) (sfi : SfIn1) : Prop :=
  ∃ e, ms.sfElement supp sfi.parent = some e ∧ e.id = sfi.parent ∧ SpendableSf T ms e

theorem PendSf1.agree {T ms ms' supp sfi} {P : Id → Prop} (h : PendSf1 T ms supp sfi) (ha : Agree ms ms' P)
    (hp : ¬ P sfi.parent) : PendSf1 T ms' supp sfi := by
  obtain ⟨e, h1, h2, h3⟩ := h
  exact ⟨e, by rw [sfElement_agree ha supp hp]; exact h1, h2, h3.agree ha (h2 ▸ hp)⟩

theorem PendSf1.not_fresh {T ms supp sfi R} (h : PendSf1 T ms supp sfi) (hF : Fresh T ms R) : ∀ q ∈ R, q.2 ≠ sfi.parent := by
  obtain ⟨e, _, h2, h3⟩ := h
  rw [← h2]; exact h3.not_fresh hF

theorem loop_sfIns1 {T} (supp : Supp1) (l : List SfIn1) : ∀ (ms ms' : Mid) (R : List (Kind × Id)), Ctx T ms.base → Inv T ms →
    (∀ sfi ∈ l, PendSf1 T ms supp sfi) → (l.map (·.parent)).Nodup →
    Fresh T ms (l.map (fun i => (Kind.sc, i.claimId)) ++ R) →
    l.foldlM (stepSfIn1 supp) ms = .ok ms' →
    Reached T ms ms' (fun x => x ∈ l.map (·.parent) ∨ x ∈ l.map (·.claimId)) ∧ Fresh T ms' R ∧
    Phi ms' = Phi ms + (l.map (sfInClaim ms supp ms.pool)).sum ∧
    sfTot ms' + (l.map (sfInVal ms supp)).sum = sfTot ms ∧ ms'.pool = ms.pool ∧
    (∀ w : SfElem → Nat, sfW w ms' + (l.map (sfInW ms supp w)).sum = sfW w ms) ∧
    ∀ w : ScElem → Nat, scW w ms' = scW w ms + (l.map (sfInClaimW ms supp w)).sum := by
  induction l with
  | nil =>
    intro ms ms' R _ hI _ _ hF h
    simp only [List.foldlM_nil] at h; cases h
    exact ⟨⟨hI, rfl, Agree.refl _ _⟩, hF, by simp, by simp, rfl, by simp, by simp⟩
  | cons a l ih =>
    intro ms ms' R hc hI hs hn hF h
    rw [List.foldlM_cons, bind_eq_ok] at h
    obtain ⟨ms1, h1, h2⟩ := h
    simp only [List.map_cons, List.nodup_cons, List.cons_append] at hn hF
    have hsa := hs a List.mem_cons_self
    obtain ⟨e, he1, he2, he3⟩ := hsa
    unfold stepSfIn1 at h1; rw [he1] at h1; simp only [] at h1
    rw [bind_eq_ok] at h1; obtain ⟨c, hcl, h1⟩ := h1
    cases h1
    obtain ⟨hI1, hA1, hP1, hS1, hp1, hb1⟩ := spendSf_spec hc hI he3
    rw [claimPortion_ok] at hcl
    have hF1 : Fresh T (ms.spendSf e) ((Kind.sc, a.claimId) :: (l.map (fun i => (Kind.sc, i.claimId)) ++ R)) :=
      hF.agree hA1 (fun q hq => he3.not_fresh hF q hq)
    unfold Mid.createImmatureSc at h2
    obtain ⟨hI2, hA2, hF2, hP2, hS2, hp2, hb2⟩ :=
      createSc_spec (hb1 ▸ hc) hI1 hF1 { value := c, addr := a.claimAddr } (maturityHeight (ms.spendSf e).base)
    rw [he2] at hA1
    have hA12 := hA1.step hA2
    have hne : ∀ sfi ∈ l, ¬ (sfi.parent = a.parent ∨ sfi.parent = a.claimId) := by
      intro sfi hm
      rintro (he | he)
      · exact hn.1 (he ▸ List.mem_map_of_mem hm)
      · exact (hs sfi (List.mem_cons_of_mem _ hm)).not_fresh hF (Kind.sc, a.claimId) List.mem_cons_self he.symm
    have hs2 : ∀ sfi ∈ l, PendSf1 T (((ms.spendSf e).createSc a.claimId { value := c, addr := a.claimAddr }
        (maturityHeight (ms.spendSf e).base))) supp sfi :=
      fun sfi hm => (hs sfi (List.mem_cons_of_mem _ hm)).agree hA12 (hne sfi hm)
    obtain ⟨hR, hF', hP, hS, hp, hW, hWc⟩ := ih _ ms' R (by rw [hb2, hb1]; exact hc) hI2 hs2 hn.2 hF2 h2
    have hvals : (l.map (sfInVal (((ms.spendSf e).createSc a.claimId { value := c, addr := a.claimAddr }
        (maturityHeight (ms.spendSf e).base))) supp)).sum = (l.map (sfInVal ms supp)).sum := by
      congr 1; apply List.map_congr_left; intro sfi hm
      unfold sfInVal; rw [sfElement_agree hA12 supp (hne sfi hm)]
    have hcls : (l.map (sfInClaim (((ms.spendSf e).createSc a.claimId { value := c, addr := a.claimAddr }
        (maturityHeight (ms.spendSf e).base))) supp (((ms.spendSf e).createSc a.claimId { value := c, addr := a.claimAddr }
        (maturityHeight (ms.spendSf e).base))).pool)).sum = (l.map (sfInClaim ms supp ms.pool)).sum := by
      congr 1; apply List.map_congr_left; intro sfi hm
      unfold sfInClaim; rw [sfElement_agree hA12 supp (hne sfi hm), hp2, hp1]
    refine ⟨⟨hR.inv, hR.base.trans (hb2.trans hb1), ?_⟩, hF', ?_, ?_, hp.trans (hp2.trans hp1), ?_, ?_⟩
    rotate_right 1
    · intro w
      have h1 := hWc w
      have hws : (l.map (sfInClaimW (((ms.spendSf e).createSc a.claimId { value := c, addr := a.claimAddr }
          (maturityHeight (ms.spendSf e).base))) supp w)).sum = (l.map (sfInClaimW ms supp w)).sum := by
        congr 1; apply List.map_congr_left; intro sfi hm
        unfold sfInClaimW; rw [sfElement_agree hA12 supp (hne sfi hm), hp2, hp1, hb2, hb1]
      have h2 : scW w ((ms.spendSf e).createSc a.claimId { value := c, addr := a.claimAddr }
          (maturityHeight (ms.spendSf e).base)) = scW w (ms.spendSf e) +
          w ⟨a.claimId, c, a.claimAddr, maturityHeight (ms.spendSf e).base, none⟩ :=
        createSc_w w (hb1 ▸ hc) hI1 hF1 { value := c, addr := a.claimAddr } (maturityHeight (ms.spendSf e).base)
      have h3 : scW w (ms.spendSf e) = scW w ms := scW_spendSf ms e w
      have hmh : maturityHeight (ms.spendSf e).base = maturityHeight ms.base := by rw [hb1]
      have h4 : sfInClaimW ms supp w a = w ⟨a.claimId, c, a.claimAddr, maturityHeight (ms.spendSf e).base, none⟩ := by
        unfold sfInClaimW claimVal; rw [he1]; simp only []; rw [hcl.2.2, hmh]
      simp only [List.map_cons, List.sum_cons]
      rw [h4, ← hws]; omega
    · refine (hA12.mono (fun _ h => Or.inl h) |>.trans (hR.agree.mono (fun _ h => Or.inr h))).mono ?_
      intro x hx; simp only [List.map_cons, List.mem_cons]
      rcases hx with (h | h) | (h | h)
      · exact Or.inl (Or.inl h)
      · exact Or.inr (Or.inl h)
      · exact Or.inl (Or.inr h)
      · exact Or.inr (Or.inr h)
    · simp only [List.map_cons, List.sum_cons]
      rw [hP, hP2, hP1, hcls]
      have : sfInClaim ms supp ms.pool a = c := by unfold sfInClaim claimVal; rw [he1]; exact hcl.2.2.symm
      rw [this]; simp only []; omega
    · simp only [List.map_cons, List.sum_cons]
      have : sfInVal ms supp a = e.value := by unfold sfInVal; rw [he1]
      rw [this, ← hvals]; omega
    · intro w
      have h1 := hW w
      have hws : (l.map (sfInW (((ms.spendSf e).createSc a.claimId { value := c, addr := a.claimAddr }
          (maturityHeight (ms.spendSf e).base))) supp w)).sum = (l.map (sfInW ms supp w)).sum := by
        congr 1; apply List.map_congr_left; intro sfi hm
        unfold sfInW; rw [sfElement_agree hA12 supp (hne sfi hm)]
      have h2 : sfW w ((ms.spendSf e).createSc a.claimId { value := c, addr := a.claimAddr }
          (maturityHeight (ms.spendSf e).base)) = sfW w (ms.spendSf e) :=
        sfW_congr w hb2 (by unfold Mid.createSc; exact putSc_sfes _ _ _)
      have h3 := spendSf_w w hc hI he3
      have h4 : sfInW ms supp w a = w e := by unfold sfInW; rw [he1]
      simp only [List.map_cons, List.sum_cons]
      rw [h4, ← hws]; omega

-- ------------------------------------------------------------------ v1 contract formations

theorem loop_fcs1 {T} (l : List (Id × Fc1)) : ∀ (ms ms' : Mid) (R : List (Kind × Id)), Ctx T ms.base → Inv T ms →
    (∀ x ∈ l, sumVals x.2.valid = sumVals x.2.missed) →
    Fresh T ms (l.map (fun x => (Kind.fc1, x.1)) ++ R) →
    l.foldlM stepFc1 ms = .ok ms' →
    Reached T ms ms' (· ∈ l.map (·.1)) ∧ Fresh T ms' R ∧
    Phi ms' = Phi ms + (l.map (fun x => x.2.val + fileContractTax ms.base x.2.payout)).sum ∧ sfTot ms' = sfTot ms ∧
    ms'.pool = ms.pool + (l.map (fun x => fileContractTax ms.base x.2.payout)).sum := by
  induction l with
  | nil =>
    intro ms ms' R _ hI _ hF h
    simp only [List.foldlM_nil] at h; cases h
    exact ⟨⟨hI, rfl, Agree.refl _ _⟩, hF, by simp, rfl, by simp⟩
  | cons a l ih =>
    intro ms ms' R hc hI hm hF h
    rw [List.foldlM_cons, bind_eq_ok] at h
    obtain ⟨ms1, h1, h2⟩ := h
    unfold stepFc1 at h1
    simp only [List.map_cons, List.cons_append] at hF
    obtain ⟨hI1, hA1, hF1, hP1, hS1, hp1, hb1⟩ := createFc1_spec hc hI hF (hm a List.mem_cons_self) h1
    obtain ⟨hR, hF', hP, hS, hp⟩ := ih _ ms' R (hb1 ▸ hc) hI1 (fun x hx => hm x (List.mem_cons_of_mem _ hx)) hF1 h2
    rw [hb1] at hP hp
    refine ⟨⟨hR.inv, hR.base.trans hb1, ?_⟩, hF', ?_, hS.trans hS1, ?_⟩
    · exact (hA1.step hR.agree).mono (fun x hx => by simpa using hx)
    · simp only [List.map_cons, List.sum_cons]; rw [hP, hP1]; omega
    · simp only [List.map_cons, List.sum_cons]; rw [hp, hp1]; exact Nat.add_assoc _ _ _

-- ------------------------------------------------------------------ v1 revisions

def PendRev1 (T : Kind → Id → Prop) (ms : Mid) (supp : Supp1) (r : Rev1) : Prop :=
  ∃ e, ms.fc1Element supp r.parent = some e ∧ e.id = r.parent ∧ LiveFc1 T ms e ∧
    sumVals r.fc.valid = sumVals e.fc.valid ∧ sumVals r.fc.missed = sumVals e.fc.missed

theorem PendRev1.agree {T ms ms' supp r} {P : Id → Prop} (h : PendRev1 T ms supp r) (ha : Agree ms ms' P)
    (hp : ¬ P r.parent) : PendRev1 T ms' supp r := by
  obtain ⟨e, h1, h2, h3, h4⟩ := h
  exact ⟨e, by rw [fc1Element_agree ha supp hp]; exact h1, h2, h3.agree ha (h2 ▸ hp), h4⟩

theorem PendRev1.not_fresh {T ms supp r R} (h : PendRev1 T ms supp r) (hF : Fresh T ms R) : ∀ q ∈ R, q.2 ≠ r.parent := by
  obtain ⟨e, _, h2, h3, _⟩ := h
  rw [← h2]; exact h3.not_fresh hF

theorem loop_revs1 {T} (supp : Supp1) (l : List Rev1) : ∀ (ms ms' : Mid), Ctx T ms.base → Inv T ms →
    (∀ r ∈ l, PendRev1 T ms supp r) → (l.map (·.parent)).Nodup →
    l.foldlM (stepRev1 supp) ms = .ok ms' →
    Reached T ms ms' (· ∈ l.map (·.parent)) ∧
    Phi ms' = Phi ms ∧ sfTot ms' = sfTot ms ∧ ms'.pool = ms.pool := by
  induction l with
  | nil =>
    intro ms ms' _ hI _ _ h
    simp only [List.foldlM_nil] at h; cases h
    exact ⟨⟨hI, rfl, Agree.refl _ _⟩, rfl, rfl, rfl⟩
  | cons a l ih =>
    intro ms ms' hc hI hs hn h
    rw [List.foldlM_cons, bind_eq_ok] at h
    obtain ⟨ms1, h1, h2⟩ := h
    simp only [List.map_cons, List.nodup_cons] at hn
    obtain ⟨e, he1, he2, he3, he4, he5⟩ := hs a List.mem_cons_self
    unfold stepRev1 at h1; rw [he1] at h1; cases h1
    obtain ⟨hI1, hA1, hP1, hS1, hp1, hb1⟩ := reviseFc1_spec hc hI he3 he4 he5
    rw [he2] at hA1
    have hs1 : ∀ r ∈ l, PendRev1 T (ms.reviseFc1 e a.fc) supp r := by
      intro r hr
      apply (hs r (List.mem_cons_of_mem _ hr)).agree hA1
      intro he; exact hn.1 (he ▸ List.mem_map_of_mem hr)
    obtain ⟨hR, hP, hS, hp⟩ := ih _ ms' (hb1 ▸ hc) hI1 hs1 hn.2 h2
    refine ⟨⟨hR.inv, hR.base.trans hb1, ?_⟩, hP.trans hP1, hS.trans hS1, hp.trans hp1⟩
    exact (hA1.step hR.agree).mono (fun x hx => by simpa using hx)

-- ------------------------------------------------------------------ v1 storage proofs

def PendProof1 (T : Kind → Id → Prop) (ms : Mid) (supp : Supp1) (sp : Proof1) : Prop :=
  ∃ e, ms.fc1Element supp sp.parent = some e ∧ e.id = sp.parent ∧ LiveFc1 T ms e ∧
    e.fc.valid.length ≤ sp.outIds.length

theorem PendProof1.agree {T ms ms' supp sp} {P : Id → Prop} (h : PendProof1 T ms supp sp) (ha : Agree ms ms' P)
    (hp : ¬ P sp.parent) : PendProof1 T ms' supp sp := by
  obtain ⟨e, h1, h2, h3, h4⟩ := h
  exact ⟨e, by rw [fc1Element_agree ha supp hp]; exact h1, h2, h3.agree ha (h2 ▸ hp), h4⟩

theorem PendProof1.not_fresh {T ms supp sp R} (h : PendProof1 T ms supp sp) (hF : Fresh T ms R) :
    ∀ q ∈ R, q.2 ≠ sp.parent := by
  obtain ⟨e, _, h2, h3, _⟩ := h
  rw [← h2]; exact h3.not_fresh hF

theorem zip_fst_sum (a : List ScOut) (b : List Id) (h : a.length ≤ b.length) :
    ((a.zip b).map (·.1.value)).sum = sumVals a := by
  unfold sumVals
  induction a generalizing b with
  | nil => simp
  | cons x a ih =>
    cases b with
    | nil => simp at h
    | cons y b =>
      simp only [List.zip_cons_cons, List.map_cons, List.sum_cons]
      rw [ih b (by simpa using h)]

theorem zip_snd_sublist (a : List ScOut) (b : List Id) : ((a.zip b).map (·.2)).Sublist b := by
  induction a generalizing b with
  | nil => simp
  | cons x a ih =>
    cases b with
    | nil => simp
    | cons y b =>
      simp only [List.zip_cons_cons, List.map_cons]
      exact (ih b).cons_cons y

theorem Fresh.zip_prefix {T ms R} (a : List ScOut) (b : List Id)
    (h : Fresh T ms (b.map (fun i => (Kind.sc, i)) ++ R)) :
    Fresh T ms ((a.zip b).map (fun x => (Kind.sc, x.2)) ++ R) := by
  apply h.sublist
  apply List.Sublist.append_right
  have := (zip_snd_sublist a b).map (fun i => (Kind.sc, i))
  rw [List.map_map] at this
  exact this

def Proof1.created (sp : Proof1) : List (Kind × Id) := sp.outIds.map (fun i => (Kind.sc, i))

theorem loop_proofs1 {T} (supp : Supp1) (l : List Proof1) : ∀ (ms ms' : Mid) (R : List (Kind × Id)), Ctx T ms.base → Inv T ms →
    (∀ sp ∈ l, PendProof1 T ms supp sp) → (l.map (·.parent)).Nodup →
    Fresh T ms (l.flatMap Proof1.created ++ R) →
    l.foldlM (stepProof1 supp) ms = .ok ms' →
    Reached T ms ms' (fun x => x ∈ l.map (·.parent) ∨ x ∈ (l.flatMap Proof1.created).map (·.2)) ∧ Fresh T ms' R ∧
    Phi ms' = Phi ms ∧ sfTot ms' = sfTot ms ∧ ms'.pool = ms.pool ∧ ∀ w : ScElem → Nat, scW w ms ≤ scW w ms' := by
  induction l with
  | nil =>
    intro ms ms' R _ hI _ _ hF h
    simp only [List.foldlM_nil] at h; cases h
    exact ⟨⟨hI, rfl, Agree.refl _ _⟩, hF, rfl, rfl, rfl, fun _ => Nat.le_refl _⟩
  | cons a l ih =>
    intro ms ms' R hc hI hs hn hF h
    rw [List.foldlM_cons, bind_eq_ok] at h
    obtain ⟨ms1, h1, h2⟩ := h
    simp only [List.map_cons, List.nodup_cons, List.flatMap_cons, List.append_assoc] at hn hF
    obtain ⟨e, he1, he2, he3, he4⟩ := hs a List.mem_cons_self
    unfold stepProof1 at h1; rw [he1] at h1; cases h1
    obtain ⟨hI1, hA1, hP1, hS1, hp1, hb1⟩ := resolveFc1_spec hc hI (he3.resolvable hI) true
    rw [he2] at hA1
    have hF1 : Fresh T (ms.resolveFc1 e true) (a.created ++ (l.flatMap Proof1.created ++ R)) :=
      hF.agree hA1 (fun q hq => he2 ▸ he3.not_fresh hF q hq)
    unfold Proof1.created at hF1
    have hF1' := Fresh.zip_prefix e.fc.valid a.outIds hF1
    obtain ⟨hI2, hA2, hF2, hP2, hS2, hp2, hb2, hw2⟩ := payOuts_spec (e.fc.valid.zip a.outIds) _ _ (hb1 ▸ hc) hI1
      (by simpa [List.map_map] using hF1')
    have hA12 : Agree ms (payOuts (ms.resolveFc1 e true) (e.fc.valid.zip a.outIds))
        (fun x => x = a.parent ∨ x ∈ a.created.map (·.2)) := by
      refine (hA1.mono (fun _ h => Or.inl h)).trans (hA2.mono ?_)
      intro x hx; right
      unfold Proof1.created; simp only [List.map_map]
      have := (zip_snd_sublist e.fc.valid a.outIds).subset hx
      simpa using this
    have hne : ∀ sp ∈ l, ¬ (sp.parent = a.parent ∨ sp.parent ∈ a.created.map (·.2)) := by
      intro sp hm
      rintro (he | he)
      · exact hn.1 (he ▸ List.mem_map_of_mem hm)
      · obtain ⟨q, hq, hq2⟩ := List.mem_map.mp he
        exact (hs sp (List.mem_cons_of_mem _ hm)).not_fresh hF q (List.mem_append_left _ hq) hq2
    have hs2 : ∀ sp ∈ l, PendProof1 T (payOuts (ms.resolveFc1 e true) (e.fc.valid.zip a.outIds)) supp sp :=
      fun sp hm => (hs sp (List.mem_cons_of_mem _ hm)).agree hA12 (hne sp hm)
    obtain ⟨hR, hF', hP, hS, hp, hw⟩ := ih _ ms' R (by rw [hb2, hb1]; exact hc) hI2 hs2 hn.2 hF2 h2
    refine ⟨⟨hR.inv, hR.base.trans (hb2.trans hb1), ?_⟩, hF', ?_, hS.trans (hS2.trans hS1), hp.trans (hp2.trans hp1), ?_⟩
    rotate_right 1
    · intro w
      have h1 := hw2 w
      rw [scW_resolveFc1 ms e true w] at h1
      exact Nat.le_trans h1 (hw w)
    · refine ((hA12.mono ?_).trans (hR.agree.mono ?_))
      · intro x hx; simp only [List.map_cons, List.mem_cons, List.flatMap_cons, List.map_append, List.mem_append]
        rcases hx with hx | hx
        · exact Or.inl (Or.inl hx)
        · exact Or.inr (Or.inl hx)
      · intro x hx; simp only [List.map_cons, List.mem_cons, List.flatMap_cons, List.map_append, List.mem_append]
        rcases hx with hx | hx
        · exact Or.inl (Or.inr hx)
        · exact Or.inr (Or.inr hx)
    · rw [hP, hP2, zip_fst_sum _ _ he4]
      unfold Fc1.val at hP1; omega

end Sia.Ledger
