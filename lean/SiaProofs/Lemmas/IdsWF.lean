import SiaProofs.Lemmas.IdsSem
/-!
# `WFG` made explicit: the typing conditions of the Go types imply well-formedness

`WFG b t` is defined as "the semantic value of `t` is canonical for the semantic schema".  Here
the conditions are spelled out (`V2Txn.Typed`): every id / address / key / root has 32 bytes, leaves
and signatures 64, `uint64` fields are below 2^64, currencies below 2^128, list and byte-string
lengths below 2^64 — exactly what the Go types guarantee — and shown to imply `WFG`.
-/
namespace Sia.Ids
open Sia.Codec

theorem W128_eq : W128 = W64 * W64 := by decide

theorem canon_cur {n : Nat} (h : n < W128) : canon Env.default Spec.v2Currency (curVal n) = true := by
  have h1 : n % W64 < W64 := Nat.mod_lt _ (by decide)
  have h2 : n / W64 < W64 := Nat.div_lt_of_lt_mul (by rw [← W128_eq]; exact h)
  simp [Spec.v2Currency, Sch.seq, curVal, rec, canon, Atom.codec, isNat, h1, h2]

theorem canon_cons (E : Env) (l : String) (s r : Sch) (a b : Val) :
    canon E (.cons l s r) (.pair a b) = (canon E s a && canon E r b) := rfl
theorem canon_nil_unit (E : Env) : canon E .nil .unit = true := rfl

theorem canon_fixed {n : Nat} {x : Bytes} (h : x.length = n) : canon Env.default (Sch.fixed n) (.bytes x) = true := by
  simp [Sch.fixed, canon, Atom.codec, isBytes, h]

theorem canon_u64 {n : Nat} (h : n < W64) : canon Env.default Sch.u64 (.nat n) = true := by
  simp [Sch.u64, canon, Atom.codec, isNat, h]

def SiacoinOutput.Typed (o : SiacoinOutput) : Prop := o.value < W128 ∧ o.address.length = 32
def SiafundOutput.Typed (o : SiafundOutput) : Prop := o.value < W64 ∧ o.address.length = 32

theorem canon_sco {o : SiacoinOutput} (h : o.Typed) : canon Env.default Spec.v2SiacoinOutput (scoVal o) = true := by
  simp [Spec.v2SiacoinOutput, Sch.seq, scoVal, rec, canon, Atom.codec, isBytes, Spec.hash32, canon_cur h.1, h.2]

theorem canon_sfo {o : SiafundOutput} (h : o.Typed) : canon Env.default Spec.v2SiafundOutput (sfoVal o) = true := by
  simp [Spec.v2SiafundOutput, Sch.seq, sfoVal, rec, canon, Atom.codec, isBytes, isNat, Spec.hash32, h.1, h.2]

/-- the fields of a contract that the signature-less encodings read -/
def V2FileContract.Typed (fc : V2FileContract) : Prop :=
  fc.capacity < W64 ∧ fc.filesize < W64 ∧ fc.fileMerkleRoot.length = 32 ∧ fc.proofHeight < W64 ∧ fc.expirationHeight < W64 ∧
  fc.renterOutput.Typed ∧ fc.hostOutput.Typed ∧ fc.missedHostValue < W128 ∧ fc.totalCollateral < W128 ∧
  fc.renterPublicKey.length = 32 ∧ fc.hostPublicKey.length = 32 ∧ fc.revisionNumber < W64

theorem canon_fc {fc : V2FileContract} (h : fc.Typed) : canon Env.default Spec.v2FileContract (fcVal fc.nilSigs) = true := by
  obtain ⟨h1, h2, h3, h4, h5, h6, h7, h8, h9, h10, h11, h12⟩ := h
  simp [Spec.v2FileContract, Sch.seq, fcVal, V2FileContract.nilSigs, zeroSig, zeros, rec, canon, Atom.codec, isBytes, isNat,
    Spec.hash32, Spec.signature, h1, h2, h3, h4, h5, canon_sco h6, canon_sco h7, canon_cur h8, canon_cur h9, h10, h11, h12]

def V2Renewal.Typed (r : V2Renewal) : Prop :=
  r.finalRenterOutput.Typed ∧ r.finalHostOutput.Typed ∧ r.renterRollover < W128 ∧ r.hostRollover < W128 ∧ r.newContract.Typed

theorem canon_renewal {r : V2Renewal} (h : r.Typed) :
    canon Env.default Spec.v2FileContractRenewal (renewalVal r.nilSigs) = true := by
  obtain ⟨h1, h2, h3, h4, h5⟩ := h
  have := canon_fc h5
  simp [Spec.v2FileContractRenewal, Sch.seq, renewalVal, V2Renewal.nilSigs, zeroSig, zeros, rec, canon, Atom.codec, isBytes,
    Spec.signature, canon_sco h1, canon_sco h2, canon_cur h3, canon_cur h4, this]

theorem canon_hashes {l : List Bytes} (hl : l.length < W64) (h : ∀ x ∈ l, x.length = 32) :
    canon Env.default (.slice Spec.hash32) (.list (l.map .bytes)) = true := by
  simp only [canon, Bool.and_eq_true, decide_eq_true_eq, List.length_map, List.all_eq_true, List.mem_map]
  refine ⟨hl, ?_⟩
  rintro v ⟨x, hx, rfl⟩
  exact canon_fixed (h x hx)

def V2StorageProof.Typed (p : V2StorageProof) : Prop :=
  p.proofIndex.se.leafIndex < W64 ∧ p.proofIndex.id.length = 32 ∧ p.proofIndex.height < W64 ∧ p.proofIndex.blockId.length = 32 ∧
  p.leaf.length = 64 ∧ p.proof.length < W64 ∧ ∀ x ∈ p.proof, x.length = 32

theorem canon_sp {p : V2StorageProof} (h : p.Typed) : canon Env.default Spec.v2StorageProof (spVal p.dropIndexProof) = true := by
  obtain ⟨h1, h2, h3, h4, h5, h6, h7⟩ := h
  have hp := canon_hashes h6 h7
  have he : canon Env.default (.slice Spec.hash32) (.list []) = true := by decide
  simp only [Spec.v2StorageProof, Spec.chainIndexElement, Spec.stateElement, Spec.chainIndex, Sch.seq, spVal, cieVal, seVal,
    V2StorageProof.dropIndexProof, rec, canon, List.map_nil, Bool.and_eq_true]
  simp only [canon, Bool.and_eq_true] at hp he
  exact ⟨⟨⟨canon_u64 h1, he, trivial⟩, canon_fixed h2, ⟨canon_u64 h3, canon_fixed h4, trivial⟩, trivial⟩, canon_fixed h5, hp, trivial⟩

def V2ResolutionBody.Typed : V2ResolutionBody → Prop
  | .renewal r => r.Typed
  | .storageProof p => p.Typed
  | .expiration => True

theorem canon_payload {b : V2ResolutionBody} (h : b.Typed) : canon Env.default (payloadSch b.kind) (payloadVal b) = true := by
  cases b with
  | renewal r => exact canon_renewal h
  | storageProof p => exact canon_sp h
  | expiration => rfl

theorem canon_resVals {rs : List V2Resolution} (h : ∀ r ∈ rs, r.parent.id.length = 32 ∧ r.body.Typed) :
    canon Env.default (resSch (rs.map (·.body.kind))) (resVals rs) = true := by
  induction rs with
  | nil => rfl
  | cons r rs ih =>
    have hr := h r List.mem_cons_self
    have := ih (fun x hx => h x (List.mem_cons_of_mem _ hx))
    simp only [List.map_cons, resSch, resVals, canon, Bool.and_eq_true]
    exact ⟨canon_fixed hr.1, canon_payload hr.2, this⟩

def Attestation.Typed (a : Attestation) : Prop :=
  a.publicKey.length = 32 ∧ a.key.length < W64 ∧ a.value.length < W64 ∧ a.signature.length = 64

theorem canon_att {a : Attestation} (h : a.Typed) : canon Env.default Spec.attestation (attVal a) = true := by
  simp [Spec.attestation, Sch.seq, attVal, rec, canon, Atom.codec, isBytes, Spec.hash32, Spec.signature, h.1, h.2.1, h.2.2.1, h.2.2.2]

theorem canon_slice_map {α} {s : Sch} {f : α → Val} {l : List α} (hl : l.length < W64)
    (h : ∀ x ∈ l, canon Env.default s (f x) = true) : canon Env.default (.slice s) (.list (l.map f)) = true := by
  simp only [canon, Bool.and_eq_true, decide_eq_true_eq, List.length_map, List.all_eq_true, List.mem_map]
  refine ⟨hl, ?_⟩
  rintro v ⟨x, hx, rfl⟩
  exact h x hx

/-- **the typing conditions of the Go types** (as far as the semantic encoding reads them) -/
structure V2Txn.Typed (t : V2Txn) : Prop where
  scIns : t.siacoinInputs.length < W64 ∧ ∀ i ∈ t.siacoinInputs, i.parent.id.length = 32
  scOuts : t.siacoinOutputs.length < W64 ∧ ∀ o ∈ t.siacoinOutputs, o.Typed
  sfIns : t.siafundInputs.length < W64 ∧ ∀ i ∈ t.siafundInputs, i.parent.id.length = 32 ∧ i.claimAddress.length = 32
  sfOuts : t.siafundOutputs.length < W64 ∧ ∀ o ∈ t.siafundOutputs, o.Typed
  fcs : t.fileContracts.length < W64 ∧ ∀ fc ∈ t.fileContracts, fc.Typed
  revs : t.revisions.length < W64 ∧ ∀ r ∈ t.revisions, r.parent.id.length = 32 ∧ r.revision.Typed
  ress : t.resolutions.length < W64 ∧ ∀ r ∈ t.resolutions, r.parent.id.length = 32 ∧ r.body.Typed
  atts : t.attestations.length < W64 ∧ ∀ a ∈ t.attestations, a.Typed
  arb : t.arbitraryData.length < W64
  nfa : ∀ a, t.newFoundationAddress = some a → a.length = 32
  fee : t.minerFee < W128

/-- typed transactions are well-formed, whatever the claim-address flag -/
theorem wfg_of_typed (b : Bool) {t : V2Txn} (h : t.Typed) : WFG b t := by
  unfold WFG Canon
  simp only [semSch, semVal, Sch.seq, rec, canon_cons, canon_nil_unit, Bool.and_eq_true, V2Txn.kinds]
  refine ⟨?_, ?_, ?_, ?_, ?_, ?_, ?_, canon_resVals h.ress.2, ?_, ?_, ?_, canon_cur h.fee, trivial⟩
  · exact canon_slice_map h.scIns.1 (fun i hi => canon_fixed (h.scIns.2 i hi))
  · exact canon_slice_map h.scOuts.1 (fun o ho => canon_sco (h.scOuts.2 o ho))
  · refine canon_slice_map h.sfIns.1 (fun i hi => ?_)
    have := h.sfIns.2 i hi
    cases b
    · exact canon_fixed this.1
    · simp only [sfInSch, sfInVal, if_true, Sch.seq, rec, canon_cons, canon_nil_unit, Bool.and_eq_true]
      exact ⟨canon_fixed this.1, canon_fixed this.2, trivial⟩
  · exact canon_slice_map h.sfOuts.1 (fun o ho => canon_sfo (h.sfOuts.2 o ho))
  · exact canon_slice_map h.fcs.1 (fun fc hfc => canon_fc (h.fcs.2 fc hfc))
  · refine canon_slice_map h.revs.1 (fun r hr => ?_)
    have := h.revs.2 r hr
    simp only [Sch.seq, rec, canon_cons, canon_nil_unit, Bool.and_eq_true]
    exact ⟨canon_fixed this.1, canon_fc this.2, trivial⟩
  · exact canon_u64 h.ress.1
  · exact canon_slice_map h.atts.1 (fun a ha => canon_att (h.atts.2 a ha))
  · simp [Sch.bytes, canon, Atom.codec, isBytes, h.arb]
  · cases hn : t.newFoundationAddress with
    | none => rfl
    | some a => exact canon_fixed (h.nfa a hn)

end Sia.Ids
